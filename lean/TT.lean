-- Root of the library. Every module under TT/ is built through the `globs` of the lakefile;
-- theorem modules (TT/Props/*) are deliberately not imported into one file.
import TT.Model.Basic
