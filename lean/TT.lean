import TT.Model.Basic
import TT.Model.Values
import TT.Model.Keys
import TT.Model.Wire
import TT.Model.Normalize
