/-
  TT.Model.Program — guest programs at the level of subscriber calls, the `tracing` front end
  (environment), the event sender (`tunnel/src/sender.rs`) and the native host.

  A program manipulates span *handles* (each `new`/`cln` creates the next handle); the front end
  turns every operation on an enabled span into exactly one subscriber call, consults `enabled`
  before `new_span`/`event`, registers a call site with the subscriber before its first use,
  and maps an explicit parent that is disabled to an explicit root (`child_of(None) = new_root`).
-/
import TT.Model.Receiver

namespace TT

inductive PParent where
  | ctx
  | root
  | handle (s : Nat)
  deriving DecidableEq, Repr, Inhabited

abbrev PVals := List (Nat × Option Prim)   -- (field index within the call site, value or Empty)

inductive POp where
  | reg (k : Nat)
  | new (k : Nat) (p : PParent) (vals : PVals)
  | record (s : Nat) (vals : PVals)
  | fol (s t : Nat)
  | ent (s : Nat)
  | ext (s : Nat)
  | cln (s : Nat)
  | drp (s : Nat)
  | evt (k : Nat) (p : PParent) (vals : PVals)
  deriving Repr, Inhabited

inductive SParent where
  | ctx
  | root
  | explicit (id : Nat)
  deriving DecidableEq, Repr, Inhabited

abbrev Fields := List (Str × Option Raw)

/-- An abstract `tracing_core::Subscriber`. Call sites are identified by their index `k` in the
    program's site pool (pointer identity of the guest's `&'static Metadata`). -/
structure Subscriber (σ : Type) where
  enabled : σ → CallSite → Bool
  register : σ → Nat → CallSite → σ
  newSpan : σ → Nat → CallSite → SParent → Fields → σ × Nat
  record : σ → Nat → Fields → σ
  follows : σ → Nat → Nat → σ
  enter : σ → Nat → σ
  exit : σ → Nat → σ
  clone : σ → Nat → σ
  tryClose : σ → Nat → σ
  event : σ → Nat → CallSite → SParent → Fields → σ

/-- Front-end state: subscriber state, span id behind each handle (`none` = disabled span),
    and the call sites already registered with this subscriber. -/
structure FE (σ : Type) where
  sub : σ
  handles : List (Option (Nat × Nat)) := []   -- (span id, site index)
  registered : List Nat := []

def fieldsOf (site : CallSite) (vals : PVals) : Fields :=
  vals.filterMap fun (i, p) => (site.fields[i]?).map fun name => (name, p.map Prim.toRaw)

def FE.handleSite {σ} (fe : FE σ) (s : Nat) : Option (Nat × Nat) := (fe.handles[s]?).join

def FE.handle {σ} (fe : FE σ) (s : Nat) : Option Nat := (fe.handleSite s).map (·.1)

def resolveParent {σ} (fe : FE σ) : PParent → SParent
  | .ctx => .ctx
  | .root => .root
  | .handle s =>
    match fe.handle s with
    | some id => .explicit id
    | none => .root

def ensureRegistered {σ} (S : Subscriber σ) (sites : List CallSite) (fe : FE σ) (k : Nat) : FE σ :=
  if fe.registered.contains k then fe
  else { fe with sub := S.register fe.sub k (sites.getD k default), registered := fe.registered ++ [k] }

/-- One program operation through the front end. -/
def feStep {σ} (S : Subscriber σ) (sites : List CallSite) (fe : FE σ) : POp → FE σ
  | .reg k => { fe with sub := S.register fe.sub k (sites.getD k default),
                        registered := if fe.registered.contains k then fe.registered else fe.registered ++ [k] }
  | .new k p vals =>
    let site := sites.getD k default
    let fe := ensureRegistered S sites fe k
    if S.enabled fe.sub site then
      let (sub, id) := S.newSpan fe.sub k site (resolveParent fe p) (fieldsOf site vals)
      { fe with sub, handles := fe.handles ++ [some (id, k)] }
    else { fe with handles := fe.handles ++ [none] }
  | .record s vals =>
    match fe.handleSite s with
    | some (id, k) => { fe with sub := S.record fe.sub id (fieldsOf (sites.getD k default) vals) }
    | none => fe
  | .fol s t =>
    match fe.handle s, fe.handle t with
    | some a, some b => { fe with sub := S.follows fe.sub a b }
    | _, _ => fe
  | .ent s => match fe.handle s with | some id => { fe with sub := S.enter fe.sub id } | none => fe
  | .ext s => match fe.handle s with | some id => { fe with sub := S.exit fe.sub id } | none => fe
  | .cln s =>
    match fe.handleSite s with
    | some (id, k) => { fe with sub := S.clone fe.sub id, handles := fe.handles ++ [some (id, k)] }
    | none => { fe with handles := fe.handles ++ [none] }
  | .drp s => match fe.handle s with | some id => { fe with sub := S.tryClose fe.sub id } | none => fe
  | .evt k p vals =>
    let site := sites.getD k default
    let fe := ensureRegistered S sites fe k
    if S.enabled fe.sub site then
      { fe with sub := S.event fe.sub k site (resolveParent fe p) (fieldsOf site vals) }
    else fe


def runProg {σ} (S : Subscriber σ) (sites : List CallSite) (fe : FE σ) (ops : List POp) : FE σ :=
  ops.foldl (feStep S sites) fe

/-! ### The event sender (`sender.rs`) -/

/-- `TracingEventSender`: `next` is the `AtomicU32` counter (starts at 1); events newest-first.
    The metadata id of a call site is its address; the model uses the site index `k`. -/
structure SenderState where
  next : Nat := 1
  out : List Event := []
  deriving Repr, Inhabited

def sparentId : SParent → Option Nat
  | .explicit id => some id
  | _ => none            -- `span.parent().map(Id::into_u64)`: contextual *and* root give `None`

/-- 32-bit wrap of the span id counter (`fetch_add` on `AtomicU32`). -/
def wrap32 (n : Nat) : Nat := n % 2^32

def senderSub : Subscriber SenderState where
  enabled _ _ := true
  register st k site := { st with out := .newCallSite k site :: st.out }
  newSpan st k _ p fields :=
    ({ next := wrap32 (st.next + 1),
       out := .newSpan st.next (sparentId p) k (capture fields) :: st.out }, st.next)
  record st id fields := { st with out := .valuesRecorded id (capture fields) :: st.out }
  follows st a b := { st with out := .followsFrom a b :: st.out }
  enter st id := { st with out := .entered id :: st.out }
  exit st id := { st with out := .exited id :: st.out }
  clone st id := { st with out := .cloned id :: st.out }
  tryClose st id := { st with out := .dropped id :: st.out }
  event st k _ p fields := { st with out := .newEvent k (sparentId p) (capture fields) :: st.out }

/-- The event stream a program produces under the sender. -/
def senderStream (sites : List CallSite) (ops : List POp) : List Event :=
  (runProg senderSub sites { sub := ({} : SenderState) } ops).sub.out.reverse

/-! ### The native host: the same program directly under the host subscriber -/

structure NativeHost where
  host : Host := {}
  maxLevel : Option Nat := none     -- host-side level filter (0 = error … 4 = trace)
  deriving Repr, Inhabited

def Level.toNat : Level → Nat
  | .error => 0 | .warn => 1 | .info => 2 | .debug => 3 | .trace => 4

def levelEnabled (maxLevel : Option Nat) (site : CallSite) : Bool :=
  match maxLevel with
  | none => true
  | some m => site.level.toNat ≤ m

def hparentOf : SParent → HParent
  | .ctx => .ctx
  | .root => .root
  | .explicit id => .explicit id

def presentRaw (fields : Fields) : RawVals :=
  fields.filterMap fun f => f.2.map fun r => (f.1, r)

def nativeSub : Subscriber NativeHost where
  enabled st site := levelEnabled st.maxLevel site
  register st k _ := { st with host := st.host.emit (.register k) }
  newSpan st k _ p fields :=
    let (host, id) := st.host.newSpan k (hparentOf p) (presentRaw fields)
    ({ st with host }, id)
  record st id fields := { st with host := st.host.emit (.record id (presentRaw fields)) }
  follows st a b := { st with host := st.host.emit (.follows a b) }
  enter st id := { st with host := st.host.emit (.enter id) }
  exit st id := { st with host := st.host.emit (.exit id) }
  clone st id := { st with host := st.host.emit (.clone id) }
  tryClose st id := { st with host := st.host.emit (.tryClose id) }
  event st k _ p fields := { st with host := st.host.emit (.event k (hparentOf p) (presentRaw fields)) }

def nativeRun (maxLevel : Option Nat) (sites : List CallSite) (ops : List POp) : Host :=
  (runProg nativeSub sites { sub := ({ maxLevel } : NativeHost) } ops).sub.host

/-- The tunnelled run: sender, then one receiver on a fresh host. -/
def tunnelledRun (arena : List CallSite) (sites : List CallSite) (ops : List POp) : Sigma :=
  (senderStream sites ops).foldl (fun σ e => (tryReceive σ e).state) { r := {}, w := { arena, host := {} } }

end TT
