/-
  TT.Model.Basic — shared vocabulary of the executable model.

  * `Str` : Rust `str`/`String` values as their UTF-8 byte sequence. Every string operation the
    modelled code performs (equality, `strip_prefix`, `starts_with`) coincides on valid UTF-8 with
    the same operation on byte lists.
  * `AMap` : association list used for `HashMap` / `HashSet` / `BTreeMap`; all observable
    outputs derived from a hash map are sorted before they are compared with the implementation.

  Import-free (core only) so that the driver links as a `lean_exe`.
-/

namespace TT

abbrev Str := List Nat

/-- Association map: list of key–value pairs; `insert` keeps keys unique. -/
abbrev AMap (κ : Type) (α : Type) := List (κ × α)

namespace AMap
variable {κ α : Type} [DecidableEq κ]

def get : AMap κ α → κ → Option α
  | [], _ => none
  | (k', v) :: rest, k => if k' = k then some v else get rest k

def contains (m : AMap κ α) (k : κ) : Bool := (m.get k).isSome

def erase : AMap κ α → κ → AMap κ α
  | [], _ => []
  | (k', v) :: rest, k => if k' = k then erase rest k else (k', v) :: erase rest k

/-- Replace in place, or append. -/
def insert : AMap κ α → κ → α → AMap κ α
  | [], k, v => [(k, v)]
  | (k', v') :: rest, k, v => if k' = k then (k', v) :: rest else (k', v') :: insert rest k v

def keys (m : AMap κ α) : List κ := m.map (·.1)

end AMap

/-- Finite set as a duplicate-free list (insertion keeps it duplicate-free). -/
abbrev ASet (κ : Type) := List κ

namespace ASet
variable {κ : Type} [DecidableEq κ]
def insert (s : ASet κ) (k : κ) : ASet κ := if k ∈ s then s else s ++ [k]
def erase (s : ASet κ) (k : κ) : ASet κ := s.filter (· ≠ k)
end ASet

/-- Insertion sort on naturals (used to canonicalise hash-map iteration order). -/
def insertSorted (x : Nat) : List Nat → List Nat
  | [] => [x]
  | y :: ys => if x ≤ y then x :: y :: ys else y :: insertSorted x ys

def sortNat (xs : List Nat) : List Nat := xs.foldr insertSorted []

def insertSortedBy {α : Type} (key : α → Nat) (x : α) : List α → List α
  | [] => [x]
  | y :: ys => if key x ≤ key y then x :: y :: ys else y :: insertSortedBy key x ys

def sortBy {α : Type} (key : α → Nat) (xs : List α) : List α := xs.foldr (insertSortedBy key) []

end TT
