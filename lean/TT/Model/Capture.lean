/-
  TT.Model.Capture — tracing-subscriber's `Registry` with a stack of layers (environment model)
  and `capture/src/layer.rs` (CaptureLayer, Storage), after the `fix:` commits 8b55e18 (one
  captured id per layer in the shared span extension) and d76da7b (follows-from towards a closed
  span is ignored).

  Registry (tracing-subscriber 0.3.19 `registry/sharded.rs`, `registry/stack.rs`):
  * `new_span`: the parent is none for an explicit root, the thread's current span for a
    contextual span, the given id otherwise; the parent is cloned (one more reference);
  * `enter` pushes onto the per-thread stack, marking duplicates, and clones unless duplicate;
    `exit` removes the top-most occurrence and closes one reference unless it was a duplicate;
  * `try_close` drops one reference; at zero the layers are told (`on_close`), the span is
    removed and its parent reference is dropped in turn (cascade);
  * `current` is the top-most non-duplicate entry of the thread's stack.
  Layers are notified after the registry processed a call, in stack order.
-/
import TT.Model.Program

namespace TT

structure RegSpan where
  mt : Nat                      -- call site (pool index)
  parent : Option Nat
  refs : Nat
  ext : AMap Nat Nat := []      -- layer index ↦ captured span id (the `CapturedSpanIds` extension)
  deriving Repr, Inhabited

structure Reg where
  spans : AMap Nat RegSpan := []
  next : Nat := 1
  stacks : AMap Nat (List (Nat × Bool)) := []   -- per thread, top first
  deriving Repr, Inhabited

def Reg.stack (reg : Reg) (tid : Nat) : List (Nat × Bool) := (reg.stacks.get tid).getD []

def Reg.current (reg : Reg) (tid : Nat) : Option Nat := stackCurrent (reg.stack tid)

/-- `SpanStats` + the rest of `CapturedSpanInner` (lib.rs). -/
structure CapSpan where
  mt : Nat
  values : TVals
  entered : Nat := 0
  exited : Nat := 0
  closed : Bool := false
  parent : Option Nat
  children : List Nat := []
  events : List Nat := []
  follows : List Nat := []
  deriving Repr, Inhabited, DecidableEq

structure CapEvent where
  mt : Nat
  values : TVals
  parent : Option Nat
  deriving Repr, Inhabited, DecidableEq

/-- `Storage` (layer.rs:29-35): arenas as lists (id = position). -/
structure Storage where
  spans : List CapSpan := []
  events : List CapEvent := []
  rootSpans : List Nat := []
  rootEvents : List Nat := []
  deriving Repr, Inhabited, DecidableEq

def modifyAt {α : Type} (xs : List α) (i : Nat) (f : α → α) : List α :=
  match xs[i]? with
  | some x => xs.set i (f x)
  | none => xs

/-- `push_span` (layer.rs:83-106). `none` = `unwrap()` on a missing parent. -/
def Storage.pushSpan (st : Storage) (mt : Nat) (values : TVals) (parent : Option Nat) : Option (Storage × Nat) :=
  let id := st.spans.length
  let spans := st.spans ++ [{ mt, values, parent }]
  match parent with
  | none => some ({ st with spans, rootSpans := st.rootSpans ++ [id] }, id)
  | some p =>
    if p < st.spans.length then
      some ({ st with spans := modifyAt spans p fun s => { s with children := s.children ++ [id] } }, id)
    else none

/-- `push_event` (layer.rs:133-152). -/
def Storage.pushEvent (st : Storage) (mt : Nat) (values : TVals) (parent : Option Nat) : Option Storage :=
  let id := st.events.length
  let events := st.events ++ [{ mt, values, parent }]
  match parent with
  | none => some { st with events, rootEvents := st.rootEvents ++ [id] }
  | some p =>
    if p < st.spans.length then
      some { st with events, spans := modifyAt st.spans p fun s => { s with events := s.events ++ [id] } }
    else none

/-- `on_span_enter` etc. (layer.rs:108-131): `unwrap()` on a foreign id panics. -/
def Storage.update (st : Storage) (id : Nat) (f : CapSpan → CapSpan) : Option Storage :=
  if id < st.spans.length then some { st with spans := modifyAt st.spans id f } else none

inductive LFilter where
  | all
  | level (max : Nat)
  | nameNot (n : Str)
  | targetPrefix (t : Str)
  deriving Repr, Inhabited, DecidableEq

def isPrefix : Str → Str → Bool
  | [], _ => true
  | _ :: _, [] => false
  | a :: as, b :: bs => a == b && isPrefix as bs

def LFilter.enabled (f : LFilter) (site : CallSite) : Bool :=
  match f with
  | .all => true
  | .level m => site.level.toNat ≤ m
  | .nameNot n => site.name != n
  | .targetPrefix t => isPrefix t site.target

/-- The subscriber: registry, one storage per capture layer (with its filter), the global level
    filter, and whether a callback panicked. -/
structure CapWorld where
  reg : Reg := {}
  filters : List LFilter := [.all]
  storages : List Storage := [{}]
  global : Option Nat := none
  panicked : Bool := false
  deriving Repr, Inhabited

def Reg.cloneSpan (reg : Reg) (id : Nat) : Option Reg :=
  match reg.spans.get id with
  | some s => some { reg with spans := reg.spans.insert id { s with refs := s.refs + 1 } }
  | none => none                 -- the registry panics: "tried to clone a span that doesn't exist"

/-- Nearest span in `id`'s scope (itself first, then its ancestors) captured by layer `i`.
    Fuel: the number of registry spans ever created bounds the chain. -/
def scopeCaptured (reg : Reg) (i : Nat) : Nat → Option Nat → Option Nat
  | 0, _ => none
  | _ + 1, none => none
  | fuel + 1, some id =>
    match reg.spans.get id with
    | none => none
    | some s =>
      match s.ext.get i with
      | some c => some c
      | none => scopeCaptured reg i fuel s.parent

def setStorage (w : CapWorld) (i : Nat) (st : Storage) : CapWorld :=
  { w with storages := w.storages.set i st }

def panic (w : CapWorld) : CapWorld := { w with panicked := true }

def forLayers (w : CapWorld) (f : CapWorld → Nat → LFilter → CapWorld) : CapWorld :=
  (w.filters.zipIdx).foldl (fun w (flt, i) => if w.panicked then w else f w i flt) w

/-- Captured id of registry span `id` for layer `i`. `none` = the span lookup itself fails
    (`ctx.span(id).unwrap()` panics). -/
def capturedOf (w : CapWorld) (i id : Nat) : Option (Option Nat) :=
  (w.reg.spans.get id).map fun s => s.ext.get i

/-- Apply `f` to the captured span of `id` in every layer that captured it (`on_enter`,
    `on_exit`, `on_close`, `on_record`). -/
def notifySpan (w : CapWorld) (id : Nat) (f : CapSpan → CapSpan) : CapWorld :=
  forLayers w fun w i _ =>
    match capturedOf w i id with
    | none => panic w
    | some none => w
    | some (some c) =>
      match (w.storages.getD i {}).update c f with
      | some st => setStorage w i st
      | none => panic w

def tryCloseFuel : Nat → CapWorld → Nat → CapWorld
  | 0, w, _ => w
  | fuel + 1, w, id =>
    match w.reg.spans.get id with
    | none => panic w            -- "tried to drop a ref to a span that doesn't exist"
    | some s =>
      if s.refs > 1 then
        { w with reg := { w.reg with spans := w.reg.spans.insert id { s with refs := s.refs - 1 } } }
      else
        -- last reference: layers are told, then the span is removed and the parent released
        let w := notifySpan { w with reg := { w.reg with spans := w.reg.spans.insert id { s with refs := 0 } } }
          id fun cs => { cs with closed := true }
        let w := { w with reg := { w.reg with spans := w.reg.spans.erase id } }
        match s.parent with
        | none => w
        | some p => if w.panicked then w else tryCloseFuel fuel w p

/-- `try_close` through the whole stack (cascade bounded by the number of spans). -/
def CapWorld.tryClose (w : CapWorld) (id : Nat) : CapWorld := tryCloseFuel (w.reg.next + 1) w id

def globalEnabled (w : CapWorld) (site : CallSite) : Bool := levelEnabled w.global site

/-- The layered subscriber as a `Subscriber` for thread `tid`. -/
def capSub (tid : Nat) : Subscriber CapWorld where
  enabled w site := globalEnabled w site
  register w _ _ := w
  newSpan w k site p fields :=
    let parent : Option Nat := match p with
      | .root => none
      | .ctx => w.reg.current tid
      | .explicit id => some id
    let reg? : Option Reg := match parent with
      | none => some w.reg
      | some pid => w.reg.cloneSpan pid
    match reg? with
    | none => (panic w, w.reg.next)
    | some reg =>
      let id := reg.next
      let reg := { reg with next := id + 1, spans := reg.spans.insert id { mt := k, parent, refs := 1 } }
      let w := { w with reg }
      -- `on_new_span` of every capture layer
      let w := forLayers w fun w i flt =>
        if !flt.enabled site then w else
        let parentC := scopeCaptured w.reg i (w.reg.next + 1) (some id)
        match (w.storages.getD i {}).pushSpan k (capture fields) parentC with
        | none => panic w
        | some (st, c) =>
          let w := setStorage w i st
          match w.reg.spans.get id with
          | none => panic w
          | some s => { w with reg := { w.reg with spans := w.reg.spans.insert id { s with ext := s.ext.insert i c } } }
      (w, id)
  record w id fields :=
    if w.panicked then w else
    notifySpan w id fun cs => { cs with values := cs.values.extend (capture fields) }
  follows w a b :=
    if w.panicked then w else
    forLayers w fun w i _ =>
      match capturedOf w i a with
      | none => panic w
      | some ca =>
        match capturedOf w i b with
        | none => w                -- the followed span may be closed already
        | some cb =>
          match ca, cb with
          | some ca, some cb =>
            (match (w.storages.getD i {}).update ca fun cs => { cs with follows := cs.follows ++ [cb] } with
              | some st => setStorage w i st
              | none => panic w)
          | _, _ => w
  enter w id :=
    if w.panicked then w else
    let stack := w.reg.stack tid
    let dup := stack.any (·.1 == id)
    let reg := { w.reg with stacks := w.reg.stacks.insert tid ((id, dup) :: stack) }
    let reg? := if dup then some reg else reg.cloneSpan id
    match reg? with
    | none => panic w
    | some reg => notifySpan { w with reg } id fun cs => { cs with entered := cs.entered + 1 }
  exit w id :=
    if w.panicked then w else
    let stack := w.reg.stack tid
    let popped : Option Bool := (stack.find? (·.1 == id)).map (·.2)
    let w := { w with reg := { w.reg with stacks := w.reg.stacks.insert tid (stackPop stack id) } }
    let w := match popped with
      | some false => w.tryClose id
      | _ => w
    if w.panicked then w else notifySpan w id fun cs => { cs with exited := cs.exited + 1 }
  clone w id :=
    if w.panicked then w else
    match w.reg.cloneSpan id with
    | some reg => { w with reg }
    | none => panic w
  tryClose w id := if w.panicked then w else w.tryClose id
  event w k site p fields :=
    if w.panicked then w else
    let start : Option Nat := match p with
      | .root => none
      | .ctx => w.reg.current tid
      | .explicit id => some id
    forLayers w fun w i flt =>
      if !flt.enabled site then w else
      let parentC := scopeCaptured w.reg i (w.reg.next + 1) start
      match (w.storages.getD i {}).pushEvent k (capture fields) parentC with
      | some st => setStorage w i st
      | none => panic w

def CapWorld.init (filters : List LFilter) (global : Option Nat) : CapWorld :=
  { filters, storages := filters.map fun _ => {}, global }

/-- A single-threaded program under the layered subscriber. -/
def captureRun (filters : List LFilter) (global : Option Nat) (sites : List CallSite) (ops : List POp) : CapWorld :=
  (runProg (capSub 0) sites { sub := CapWorld.init filters global } ops).sub

end TT
