/-
  TT.Model.CaptureConc — several threads emitting into one Registry + capture layers.

  Interleaving semantics: every subscriber call of the front end — registry bookkeeping followed
  by the layer callbacks, each of which takes the storage write lock — is one atomic step of the
  calling thread (`capSub tid`); the registry's span stack is per thread. Each thread has its own
  front-end state (handles), seeded with the handles of the spans the main thread created before
  the threads were started ("shared" spans, e.g. explicit parents owned by another thread).
-/
import TT.Model.Capture

namespace TT

structure ConcSt where
  w : CapWorld := {}
  shared : List (Option (Nat × Nat)) := []                  -- handles created by the main thread
  fes : AMap Nat (List (Option (Nat × Nat)) × List Nat) := []   -- per thread: handles, registered
  deriving Repr, Inhabited

def mainTid : Nat := 99

/-- The main thread creates `n` root spans of call site `k` and keeps their handles. -/
def ConcSt.setup (filters : List LFilter) (global : Option Nat) (sites : List CallSite) (n k : Nat) : ConcSt :=
  let fe := runProg (capSub mainTid) sites { sub := CapWorld.init filters global }
    (List.replicate n (POp.new k .root []))
  { w := fe.sub, shared := fe.handles }

/-- One operation of thread `tid`. -/
def ConcSt.step (sites : List CallSite) (s : ConcSt) (tid : Nat) (op : POp) : ConcSt :=
  let (handles, registered) := (s.fes.get tid).getD (s.shared, [])
  let fe := feStep (capSub tid) sites { sub := s.w, handles, registered } op
  { s with w := fe.sub, fes := s.fes.insert tid (fe.handles, fe.registered) }

/-- Run a schedule: each entry lets that thread execute its next pending operation. -/
def runSchedule (sites : List CallSite) : ConcSt → AMap Nat (List POp) → List Nat → ConcSt
  | s, _, [] => s
  | s, work, t :: sched =>
    match work.get t with
    | some (op :: rest) => runSchedule sites (s.step sites t op) (work.insert t rest) sched
    | _ => runSchedule sites s work sched

end TT
