/-
  TT.Model.Normalize — `TracingEvent::normalize` (types.rs:196-230), as repaired by the
  `fix:` commit for C20 (an already announced id keeps its mapping entry), plus the original
  behaviour (`normalizeOld`) kept for the counterexample theorem.

  `path::MAIN_SEPARATOR` is `/` on the platforms this check runs on, so the file-path branch
  (types.rs:206-212) is the identity and is not modelled.
-/
import TT.Model.Wire

namespace TT

/-- `*mapping.entry(id).or_insert(mapping.len())` -/
def assignId (m : AMap Nat Nat) (id : Nat) : AMap Nat Nat × Nat :=
  match m.get id with
  | some v => (m, v)
  | none => (m ++ [(id, m.length)], m.length)

/-- Per-call-site scrubbing (types.rs:213-218). -/
def scrubSite (d : CallSite) : CallSite :=
  { d with line := none, name := if d.kind = .event then K.event else d.name }

def normStep (m : AMap Nat Nat) : Event → AMap Nat Nat × Event
  | .newCallSite id d => ((assignId m id).1, .newCallSite (assignId m id).2 (scrubSite d))
  | .newSpan id p mt vs => ((assignId m mt).1, .newSpan id p (assignId m mt).2 vs)
  | .newEvent mt p vs => ((assignId m mt).1, .newEvent (assignId m mt).2 p vs)
  | e => (m, e)

def normalizeFrom (m : AMap Nat Nat) : List Event → List Event
  | [] => []
  | e :: es => (normStep m e).2 :: normalizeFrom (normStep m e).1 es

def normalize (evs : List Event) : List Event := normalizeFrom [] evs

/-! The behaviour before the repair: a re-announced id was given `mapping.len()` again and the
    map entry overwritten (`BTreeMap::insert`). -/

def normStepOld (m : AMap Nat Nat) : Event → AMap Nat Nat × Event
  | .newCallSite id d => (AMap.insert m id m.length, .newCallSite m.length (scrubSite d))
  | e => normStep m e

def normalizeFromOld (m : AMap Nat Nat) : List Event → List Event
  | [] => []
  | e :: es => (normStepOld m e).2 :: normalizeFromOld (normStepOld m e).1 es

def normalizeOld (evs : List Event) : List Event := normalizeFromOld [] evs

end TT
