/-
  TT.Model.Pred — `capture/src/predicates/*`: predicates over captured spans / events, their
  evaluation, the existence of a supporting case (`find_case`), and the scanner helpers.

  Leaf predicates come from the `predicates` crate (`eq`, `lt`/`gt`, `str::starts_with`); for them
  the model assumes `find_case(expected, x).is_some() ↔ eval(x) = expected` (its documented
  contract; exercised by the harness for every atom it uses).
-/
import TT.Model.Forest

namespace TT

inductive StrP where
  | eq (s : Str)
  | startsWith (s : Str)
  deriving Repr, Inhabited, DecidableEq

inductive Cmp where
  | eq | lt | gt
  deriving Repr, Inhabited, DecidableEq

inductive ValP where
  | bool (b : Bool)
  | i64 (x : Int)
  | i128 (x : Int)
  | u64 (x : Nat)
  | u128 (x : Nat)
  | f64 (bits : Nat)
  | str (s : Str)
  | asI64 (c : Cmp) (x : Int)          -- `value::<i64, _>(cmp(x))`
  | asU64 (c : Cmp) (x : Nat)
  | asStr (p : StrP)                   -- `value::<str, _>(p)`
  deriving Repr, Inhabited, DecidableEq

inductive LevelP where
  | exact (l : Level)                  -- `level(Level::X)`
  | atMost (max : Option Level)        -- `level(LevelFilter::X)`; `OFF` = none
  deriving Repr, Inhabited, DecidableEq

inductive TargetP where
  | pfx (p : Str)                      -- `target("path")`
  | custom (p : StrP)                  -- `target([pred])`
  deriving Repr, Inhabited, DecidableEq

inductive Pred where
  | level (p : LevelP)
  | target (p : TargetP)
  | name (p : StrP)
  | field (name : Str) (v : ValP)
  | message (p : StrP)
  | parent (p : Pred)
  | ancestor (p : Pred)
  | and (a b : Pred)
  | or (a b : Pred)
  deriving Repr, Inhabited

/-- A captured item: a span or an event of a storage. -/
inductive Item where
  | span (i : Nat)
  | event (j : Nat)
  deriving Repr, Inhabited, DecidableEq

structure PCtx where
  sites : List CallSite
  st : Storage

def stripPrefix : Str → Str → Option Str
  | [], t => some t
  | _ :: _, [] => none
  | a :: as, b :: bs => if a = b then stripPrefix as bs else none

def StrP.eval : StrP → Str → Bool
  | .eq s, x => x == s
  | .startsWith s, x => isPrefix s x

def Cmp.evalInt : Cmp → Int → Int → Bool
  | .eq, v, x => v == x
  | .lt, v, x => decide (v < x)
  | .gt, v, x => decide (v > x)

def Cmp.evalNat : Cmp → Nat → Nat → Bool
  | .eq, v, x => v == x
  | .lt, v, x => decide (v < x)
  | .gt, v, x => decide (v > x)

/-- `TargetStrPredicate::eval` (target.rs): the target equals the path or continues with `::`. -/
def targetMatches (pfx target : Str) : Bool :=
  match stripPrefix pfx target with
  | none => false
  | some rest => rest.isEmpty || isPrefix K.colons rest

def LevelP.eval : LevelP → Level → Bool
  | .exact l, x => x == l
  | .atMost none, _ => false
  | .atMost (some m), x => x.toNat ≤ m.toNat

def TargetP.eval : TargetP → Str → Bool
  | .pfx p, t => targetMatches p t
  | .custom sp, t => sp.eval t

/-- `EquivPredicate` / `ValuePredicate` (field.rs). -/
def ValP.eval : ValP → TVal → Bool
  | .bool b, v => v.eqBool b
  | .i64 x, v => v.eqI64 x
  | .i128 x, v => v.eqI128 x
  | .u64 x, v => v.eqU64 x
  | .u128 x, v => v.eqU128 x
  | .f64 x, v => v.eqF64 x
  | .str s, v => v.eqStr s
  | .asI64 c x, v => match v.asI64 with | some i => c.evalInt i x | none => false
  | .asU64 c x, v => match v.asU64 with | some n => c.evalNat n x | none => false
  | .asStr p, v => match v.asStr with | some s => p.eval s | none => false

/-- `find_case` of the value predicates. -/
def ValP.hasCase (p : ValP) (expected : Bool) (v : TVal) : Bool :=
  match p with
  | .asI64 c x => match v.asI64 with | some i => c.evalInt i x == expected | none => !expected
  | .asU64 c x => match v.asU64 with | some n => c.evalNat n x == expected | none => !expected
  | .asStr sp => match v.asStr with | some s => sp.eval s == expected | none => !expected
  | p => p.eval v == expected

namespace PCtx

def siteOfItem (c : PCtx) : Item → CallSite
  | .span i => c.sites.getD ((c.st.spans[i]?).map (·.mt) |>.getD 0) default
  | .event j => c.sites.getD ((c.st.events[j]?).map (·.mt) |>.getD 0) default

def valuesOf (c : PCtx) : Item → TVals
  | .span i => ((c.st.spans[i]?).map (·.values)).getD []
  | .event j => ((c.st.events[j]?).map (·.values)).getD []

def parentOfItem (c : PCtx) : Item → Option Nat
  | .span i => c.st.parentOf i
  | .event j => c.st.eventParent j

def ancestorsOfItem (c : PCtx) : Item → List Nat
  | .span i => c.st.ancestors i
  | .event j => c.st.eventAncestors j

/-- `CapturedEvent::message` (lib.rs): the `message` field as text if it is a debug object, a
    string or an error. -/
def messageOf (c : PCtx) : Item → Option Str
  | .span _ => none
  | .event j =>
    match (c.valuesOf (.event j)).get K.message with
    | some (.obj s) => some s
    | some (.str s) => some s
    | some (.err m _) => some m
    | _ => none

end PCtx

/-- `Predicate::eval`, arm by arm. -/
def Pred.eval (c : PCtx) : Pred → Item → Bool
  | .level p, x => p.eval (c.siteOfItem x).level
  | .target p, x => p.eval (c.siteOfItem x).target
  | .name p, x => p.eval (c.siteOfItem x).name
  | .field n v, x => match (c.valuesOf x).get n with | some val => v.eval val | none => false
  | .message p, x => match c.messageOf x with | some m => p.eval m | none => false
  | .parent p, x => match c.parentOfItem x with | some par => p.eval c (.span par) | none => false
  | .ancestor p, x => (c.ancestorsOfItem x).any fun a => p.eval c (.span a)
  | .and a b, x => a.eval c x && b.eval c x
  | .or a b, x => a.eval c x || b.eval c x

/-- Whether `find_case(expected, item)` returns a case, arm by arm (combinators.rs, field.rs,
    parent.rs, …). -/
def Pred.hasCase (c : PCtx) : Pred → Bool → Item → Bool
  | .level p, e, x => p.eval (c.siteOfItem x).level == e
  | .target p, e, x => p.eval (c.siteOfItem x).target == e
  | .name p, e, x => p.eval (c.siteOfItem x).name == e
  | .field n v, e, x => match (c.valuesOf x).get n with | some val => v.hasCase e val | none => !e
  | .message p, e, x => match c.messageOf x with | some m => p.eval m == e | none => !e
  | .parent p, e, x => match c.parentOfItem x with | some par => p.hasCase c e (.span par) | none => !e
  | .ancestor p, e, x =>
    if e then (c.ancestorsOfItem x).any fun a => p.hasCase c true (.span a)
    else (c.ancestorsOfItem x).all fun a => p.hasCase c false (.span a)
  | .and a b, e, x => if e then a.hasCase c true x && b.hasCase c true x else a.hasCase c false x || b.hasCase c false x
  | .or a b, e, x => if e then a.hasCase c true x || b.hasCase c true x else a.hasCase c false x && b.hasCase c false x

/-! ### Scanner helpers (ext.rs). `none` = the helper panics. -/

def scanSingle (items : List Item) (m : Item → Bool) : Option Item :=
  match items.find? m with
  | none => none
  | some first =>
    -- continue after the first match
    match ((items.dropWhile fun x => !m x).drop 1).find? m with
    | some _ => none
    | none => some first

def scanFirst (items : List Item) (m : Item → Bool) : Option Item := items.find? m
def scanLast (items : List Item) (m : Item → Bool) : Option Item := items.reverse.find? m
def scanAll (items : List Item) (m : Item → Bool) : Option Unit := if (items.find? fun x => !m x).isSome then none else some ()
def scanNone (items : List Item) (m : Item → Bool) : Option Unit := if (items.find? m).isSome then none else some ()

end TT
