/-
  TT.Model.Receiver — `tunnel/src/receiver/mod.rs` (TracingEventReceiver) together with the
  sequential view of `receiver/arena.rs` and an abstract host subscriber.

  The model follows the code after the `fix:` commits 7736dfc (enter counts), 87e4544 (dead
  explicit parent on restore) and b018624 (more than 32 accumulated values). It is written arm
  by arm in the statement order of `try_receive` so that the *reported* error is the code's, and
  keeps explicit `panic` outcomes where the code has `unreachable!()`, an indexing panic or an
  arithmetic underflow, so that "never panics" is a theorem about reachable states and not an
  artefact of totalisation.

  State survives errors and panics (`&mut self` and the host do in Rust).
-/
import TT.Model.Wire

namespace TT

/-! ### Host subscriber as the receiver sees it -/

inductive HParent where
  | ctx
  | root
  | explicit (h : Nat)
  deriving DecidableEq, Repr, Inhabited

abbrev RawVals := List (Str × Raw)

inductive HostCall where
  | register (m : Nat)
  | newSpan (h m : Nat) (p : HParent) (vals : RawVals)
  | record (h : Nat) (vals : RawVals)
  | follows (h h' : Nat)
  | enter (h : Nat)
  | exit (h : Nat)
  | clone (h : Nat)
  | tryClose (h : Nat)
  | event (m : Nat) (p : HParent) (vals : RawVals)
  | base (h : Nat)
  deriving DecidableEq, Repr, Inhabited

/-- Host: issues span ids 1, 2, 3, …; `log` is newest-first; `stack` is the Registry-style
    per-thread span stack, top first, each entry marked as duplicate if the id was already on
    the stack when pushed (tracing-subscriber `SpanStack`). -/
structure Host where
  next : Nat := 1
  log : List HostCall := []
  stack : List (Nat × Bool) := []
  deriving Repr, Inhabited

/-- Remove the top-most occurrence of `h` (`SpanStack::pop`). -/
def stackPop : List (Nat × Bool) → Nat → List (Nat × Bool)
  | [], _ => []
  | (x, d) :: rest, h => if x = h then rest else (x, d) :: stackPop rest h

def stackPush (s : List (Nat × Bool)) (h : Nat) : List (Nat × Bool) :=
  (h, s.any (·.1 == h)) :: s

/-- `SpanStack::current`: top-most non-duplicate entry. -/
def stackCurrent : List (Nat × Bool) → Option Nat
  | [] => none
  | (x, d) :: rest => if d then stackCurrent rest else some x

def Host.emit (host : Host) (c : HostCall) : Host :=
  { host with
    log := c :: host.log
    stack := match c with
      | .enter h => stackPush host.stack h
      | .exit h => stackPop host.stack h
      | .base h => stackPush host.stack h
      | _ => host.stack }

/-- `dispatch.new_span(..)`: a fresh id. -/
def Host.newSpan (host : Host) (m : Nat) (p : HParent) (vals : RawVals) : Host × Nat :=
  ({ host with next := host.next + 1 }.emit (.newSpan host.next m p vals), host.next)

/-- Harness operation: a span that was created and entered on the host before the receiver. -/
def Host.pushBase (host : Host) : Host :=
  { host with next := host.next + 1 }.emit (.base host.next)

/-! ### Process-wide arena, sequential view (`arena.rs:151-177`) -/

def indexOf? (d : CallSite) : List CallSite → Option Nat
  | [] => none
  | x :: xs => if x = d then some 0 else (indexOf? d xs).map (· + 1)

/-- `alloc_metadata`: the interning index of the description and whether it was new. -/
def arenaAlloc (arena : List CallSite) (d : CallSite) : List CallSite × Nat × Bool :=
  match indexOf? d arena with
  | some i => (arena, i, false)
  | none => (arena ++ [d], arena.length, true)

structure World where
  arena : List CallSite := []
  host : Host := {}
  deriving Repr, Inhabited

/-! ### Receiver state -/

structure RState where
  mt : AMap Nat Nat := []            -- `metadata`: MetadataId ↦ interning index
  spans : AMap Nat SpanData := []    -- `spans`
  loc : AMap Nat Nat := []           -- `local_spans`: guest id ↦ host id
  uncommitted : List Nat := []       -- `current_execution.uncommitted_span_ids`
  entered : AMap Nat Nat := []       -- `current_execution.entered_span_ids`: enter counts
  deriving Repr, Inhabited

structure Sigma where
  r : RState := {}
  w : World := {}
  deriving Repr, Inhabited

inductive RErr where
  | unknownMeta (id : Nat)
  | unknownSpan (id : Nat)
  | tooMany (actual : Nat)
  deriving DecidableEq, Repr, Inhabited

inductive Res where
  | ok (σ : Sigma)
  | err (e : RErr) (σ : Sigma)
  | panic (site : String) (σ : Sigma)
  deriving Repr, Inhabited

def Res.state : Res → Sigma
  | .ok σ | .err _ σ | .panic _ σ => σ

def maxValues : Nat := 32

/-- `generate_fields` (mod.rs:344-357) followed by `as_value`: keep the values whose name is a
    field of the call site, in value order, as what a host visitor is shown. -/
def generateFields (site : CallSite) (vs : TVals) : RawVals :=
  (vs.filter fun kv => site.fields.contains kv.1).map fun kv => (kv.1, kv.2.toRaw)

/-- `create_values` (mod.rs:368-380): more than 32 entries hit `unreachable!()`. -/
def createValues (vals : RawVals) : Option RawVals :=
  if vals.length ≤ maxValues then some vals else none

/-- `slice::chunks(n)` with fuel (the list length suffices). -/
def chunksAux (n : Nat) : Nat → RawVals → List RawVals
  | 0, _ => []
  | _ + 1, [] => []
  | fuel + 1, xs => xs.take n :: chunksAux n fuel (xs.drop n)

def chunks (n : Nat) (xs : RawVals) : List RawVals := chunksAux n xs.length xs

/-- `map_span_id` (mod.rs:320-332). -/
def mapSpanId (r : RState) (id : Nat) : Except RErr (Option Nat) :=
  match r.loc.get id with
  | some h => .ok (some h)
  | none => if r.spans.contains id then .ok none else .error (.unknownSpan id)

def siteOf (w : World) (idx : Nat) : CallSite := w.arena.getD idx default

/-- `on_new_call_site` (mod.rs:382-388). -/
def onNewCallSite (σ : Sigma) (id : Nat) (d : CallSite) : Sigma :=
  let (arena, idx, isNew) := arenaAlloc σ.w.arena d
  let host := if isNew then σ.w.host.emit (.register idx) else σ.w.host
  { r := { σ.r with mt := σ.r.mt.insert id idx }, w := { arena, host } }

/-- Record the chunks beyond the first 32 values. -/
def recordChunks (host : Host) (h : Nat) : List RawVals → Option Host
  | [] => some host
  | c :: cs =>
    match createValues c with
    | none => none
    | some v => recordChunks (host.emit (.record h v)) h cs

inductive CLS where
  | ok (w : World) (h : Nat)
  | err (e : RErr)
  | panic (site : String)

/-- `create_local_span` (mod.rs:390-…, after the fixes). -/
def createLocalSpan (r : RState) (w : World) (d : SpanData) : CLS :=
  match r.mt.get d.mt with
  | none => .err (.unknownMeta d.mt)
  | some idx =>
    let parent : HParent := match d.parent.bind (r.loc.get ·) with
      | some ph => .explicit ph
      | none => .ctx
    let all := generateFields (siteOf w idx) d.values
    match createValues (all.take maxValues) with
    | none => .panic "create_values"
    | some initial =>
      let (host, h) := w.host.newSpan idx parent initial
      match recordChunks host h (chunks maxValues (all.drop maxValues)) with
      | none => .panic "create_values"
      | some host' => .ok { w with host := host' } h

def bumpEntered (e : AMap Nat Nat) (id : Nat) : AMap Nat Nat :=
  e.insert id ((e.get id).getD 0 + 1)

def dropEntered (e : AMap Nat Nat) (id : Nat) : AMap Nat Nat :=
  match e.get id with
  | none => e
  | some c => if c - 1 = 0 then e.erase id else e.insert id (c - 1)

/-- `try_receive` (mod.rs:421-…). -/
def tryReceive (σ : Sigma) : Event → Res
  | .newCallSite id d => .ok (onNewCallSite σ id d)

  | .newSpan id parent mt values =>
    if values.length > maxValues then .err (.tooMany values.length) σ else
    let data : SpanData := { mt, parent, refCount := 1, values }
    let commit (σ' : Sigma) : Res :=
      .ok { σ' with r := { σ'.r with spans := σ'.r.spans.insert id data,
                                      uncommitted := ASet.insert σ'.r.uncommitted id } }
    if σ.r.loc.contains id then commit σ else
    let validated : Except RErr Unit := match parent with
      | none => .ok ()
      | some p =>
        match σ.r.mt.get mt with
        | none => .error (.unknownMeta mt)
        | some _ => (mapSpanId σ.r p).map fun _ => ()
    match validated with
    | .error e => .err e σ
    | .ok () =>
      match createLocalSpan σ.r σ.w data with
      | .err e => .err e σ
      | .panic s => .panic s σ
      | .ok w h => commit { r := { σ.r with loc := σ.r.loc.insert id h }, w }

  | .followsFrom id f =>
    match mapSpanId σ.r id with
    | .error e => .err e σ
    | .ok l =>
      match mapSpanId σ.r f with
      | .error e => .err e σ
      | .ok lf =>
        match l, lf with
        | some a, some b => .ok { σ with w := { σ.w with host := σ.w.host.emit (.follows a b) } }
        | _, _ => .ok σ

  | .entered id =>
    let enter (σ' : Sigma) (h : Nat) : Res :=
      .ok { r := { σ'.r with entered := bumpEntered σ'.r.entered id },
            w := { σ'.w with host := σ'.w.host.emit (.enter h) } }
    match mapSpanId σ.r id with
    | .error e => .err e σ
    | .ok (some h) => enter σ h
    | .ok none =>
      match σ.r.spans.get id with
      | none => .err (.unknownSpan id) σ
      | some data =>
        match createLocalSpan σ.r σ.w data with
        | .err e => .err e σ
        | .panic s => .panic s σ
        | .ok w h => enter { r := { σ.r with loc := σ.r.loc.insert id h }, w } h

  | .exited id =>
    match mapSpanId σ.r id with
    | .error e => .err e σ
    | .ok l =>
      let host := match l with
        | some h => σ.w.host.emit (.exit h)
        | none => σ.w.host
      .ok { r := { σ.r with entered := dropEntered σ.r.entered id }, w := { σ.w with host } }

  | .cloned id =>
    match σ.r.spans.get id with
    | none => .err (.unknownSpan id) σ
    | some d => .ok { σ with r := { σ.r with spans := σ.r.spans.insert id { d with refCount := d.refCount + 1 } } }

  | .dropped id =>
    match σ.r.spans.get id with
    | none => .err (.unknownSpan id) σ
    | some d =>
      if d.refCount = 0 then .panic "ref_count underflow" σ
      else if d.refCount - 1 ≠ 0 then
        .ok { σ with r := { σ.r with spans := σ.r.spans.insert id { d with refCount := d.refCount - 1 } } }
      else
        let r1 : RState := { σ.r with spans := σ.r.spans.erase id,
                                       entered := σ.r.entered.erase id,
                                       uncommitted := ASet.erase σ.r.uncommitted id }
        match r1.loc.get id with
        | none => .ok { σ with r := r1 }
        | some h => .ok { r := { r1 with loc := r1.loc.erase id },
                          w := { σ.w with host := σ.w.host.emit (.tryClose h) } }

  | .valuesRecorded id values =>
    if values.length > maxValues then .err (.tooMany values.length) σ else
    match mapSpanId σ.r id with
    | .error e => .err e σ
    | .ok l =>
      let recorded : Res := match l with
        | none => .ok σ
        | some h =>
          match σ.r.spans.get id with
          | none => .panic "spans index" σ
          | some d =>
            match σ.r.mt.get d.mt with
            | none => .err (.unknownMeta d.mt) σ
            | some idx =>
              match createValues (generateFields (siteOf σ.w idx) values) with
              | none => .panic "create_values" σ
              | some v => .ok { σ with w := { σ.w with host := σ.w.host.emit (.record h v) } }
      match recorded with
      | .ok σ' =>
        match σ'.r.spans.get id with
        | none => .err (.unknownSpan id) σ'
        | some d => .ok { σ' with r := { σ'.r with spans := σ'.r.spans.insert id { d with values := d.values.extend values } } }
      | other => other

  | .newEvent mt parent values =>
    if values.length > maxValues then .err (.tooMany values.length) σ else
    match σ.r.mt.get mt with
    | none => .err (.unknownMeta mt) σ
    | some idx =>
      match createValues (generateFields (siteOf σ.w idx) values) with
      | none => .panic "create_values" σ
      | some v =>
        let mapped : Except RErr (Option Nat) := match parent with
          | none => .ok none
          | some p => mapSpanId σ.r p
        match mapped with
        | .error e => .err e σ
        | .ok ph =>
          let hp : HParent := match ph with
            | some h => .explicit h
            | none => .ctx
          .ok { σ with w := { σ.w with host := σ.w.host.emit (.event idx hp v) } }

/-- `persist_metadata` (mod.rs:547-554). -/
def persistMeta (σ : Sigma) : PersistedMeta :=
  σ.r.mt.map fun kv => (kv.1, siteOf σ.w kv.2)

def emitN (host : Host) (c : HostCall) : Nat → Host
  | 0 => host
  | n + 1 => emitN (host.emit c) c n

/-- `CurrentExecution::finalize` (mod.rs:206-…): force-exit every entered span as many times as
    it was entered, then close the uncommitted ones. -/
def finalize (entered : AMap Nat Nat) (uncommitted : List Nat) (loc : AMap Nat Nat) (host : Host) : Host :=
  let host := entered.foldl (fun host kv =>
    match loc.get kv.1 with
    | some h => emitN host (.exit h) kv.2
    | none => host) host
  uncommitted.foldl (fun host id =>
    match loc.get id with
    | some h => host.emit (.tryClose h)
    | none => host) host

/-- `persist` (mod.rs:557-563): commit. Returns persisted spans, the local map and the world. -/
def persist (σ : Sigma) : PersistedSpans × AMap Nat Nat × World :=
  (σ.r.spans, σ.r.loc, { σ.w with host := finalize σ.r.entered [] σ.r.loc σ.w.host })

/-- `Drop for TracingEventReceiver` (mod.rs:566-570): roll back. -/
def dropR (σ : Sigma) : World :=
  { σ.w with host := finalize σ.r.entered σ.r.uncommitted σ.r.loc σ.w.host }

/-- `TracingEventReceiver::new` (mod.rs:275-291). -/
def restore (pm : PersistedMeta) (ps : PersistedSpans) (loc : AMap Nat Nat) (w : World) : Sigma :=
  pm.foldl (fun σ kv => onNewCallSite σ kv.1 kv.2) { r := { spans := ps, loc }, w }

end TT
