/-
  TT.Model.Values — model of `tunnel/src/value.rs` and `tunnel/src/values.rs`.

  Every definition names the Rust item it mirrors. Integers are unbounded (`Int`/`Nat`); the
  128/64-bit ranges appear as explicit predicates where the code depends on them
  (`as_i64`/`as_u64`, `TVal.WF`). Floats are their IEEE-754 binary64 bit pattern (`Nat < 2^64`).
-/
import TT.Model.Basic

namespace TT

/-- `TracedValue` (value.rs:79-101). `err msg sources` is `TracedError { message, source }`
    with the source chain flattened. -/
inductive TVal where
  | bool (b : Bool)
  | int (i : Int)
  | uint (n : Nat)
  | float (bits : Nat)
  | str (s : Str)
  | obj (s : Str)
  | err (msg : Str) (sources : List Str)
  deriving DecidableEq, Repr, Inhabited

/-- `TracedValues<S>.inner` (values.rs:27-32): entries in insertion order. -/
abbrev TVals := List (Str × TVal)

namespace TVals

/-- `TracedValues::get` (values.rs:96-104): first entry with that name. -/
def get : TVals → Str → Option TVal
  | [], _ => none
  | (k', v) :: rest, k => if k' = k then some v else get rest k

/-- `TracedValues::insert` (values.rs:116-128): replace in place and return the old value, or
    push and return `None`. -/
def insert : TVals → Str → TVal → TVals × Option TVal
  | [], k, v => ([(k, v)], none)
  | (k', v') :: rest, k, v =>
    if k' = k then ((k', v) :: rest, some v')
    else ((k', v') :: (insert rest k v).1, (insert rest k v).2)

/-- `Extend::extend` (values.rs:149-157): insert one by one. -/
def extend (vs : TVals) (kvs : List (Str × TVal)) : TVals :=
  kvs.foldl (fun acc kv => (acc.insert kv.1 kv.2).1) vs

/-- `FromIterator::from_iter` (values.rs:139-147) and `Deserialize` (values.rs:222-249): both
    start from the empty collection and `insert` each entry in order. -/
def ofList (kvs : List (Str × TVal)) : TVals := extend [] kvs

def names (vs : TVals) : List Str := vs.map (·.1)

/-- `len()` -/
def len (vs : TVals) : Nat := vs.length
/-- `iter()` forwards -/
def iter (vs : TVals) : List (Str × TVal) := vs
/-- `iter().rev()` -/
def iterRev (vs : TVals) : List (Str × TVal) := vs.reverse
/-- `into_iter()` -/
def intoIter (vs : TVals) : List (Str × TVal) := vs

end TVals

/-- One `Visit` callback (values.rs:263-302). -/
inductive Raw where
  | f64 (bits : Nat)
  | i64 (i : Int)
  | u64 (n : Nat)
  | i128 (i : Int)
  | u128 (n : Nat)
  | bool (b : Bool)
  | str (s : Str)
  | error (msg : Str) (sources : List Str)
  | debug (rendered : Str)
  deriving DecidableEq, Repr

/-- `TracedValueVisitor`: which `TracedValue` each callback stores (values.rs:263-302 together
    with the `From` impls of value.rs:259-264 and `TracedValue::{error, debug}`). -/
def visit : Raw → TVal
  | .f64 b => .float b
  | .i64 i => .int i
  | .u64 n => .uint n
  | .i128 i => .int i
  | .u128 n => .uint n
  | .bool b => .bool b
  | .str s => .str s
  | .error m ss => .err m ss
  | .debug s => .obj s

/-- `from_values` / `from_record` / `from_event` (values.rs:51-78): visit the provided fields in
    order; a field without a value (`Empty`) makes no callback. -/
def capture (fields : List (Str × Option Raw)) : TVals :=
  fields.foldl (fun acc f => match f.2 with
    | none => acc
    | some r => (acc.insert f.1 (visit r)).1) []

/-- IEEE-754 binary32 → binary64 widening on bit patterns (`f32 as f64`; NaNs are quieted). -/
def f32ToF64Bits (b : Nat) : Nat :=
  let sign := b / 2^31 % 2
  let exp := b / 2^23 % 256
  let man := b % 2^23
  let s := sign * 2^63
  if exp = 255 then
    if man = 0 then s + 2047 * 2^52 else s + 2047 * 2^52 + 2^51 + (man * 2^29) % 2^51
  else if exp = 0 then
    if man = 0 then s
    else
      -- subnormal: value = man * 2^-149; normalise
      let hb := Nat.log2 man          -- position of highest set bit, 0..22
      let e := hb + 1023 - 149
      let frac := (man - 2^hb) * 2^(52 - hb)
      s + e * 2^52 + frac
  else s + (exp + 896) * 2^52 + man * 2^29

def hexDigitByte (n : Nat) : Nat := if n < 10 then 48 + n else 87 + n

/-- `HexBytes` Debug rendering of tracing-core 0.1.33 (`record_bytes` default): `[01 ff]`. -/
def renderBytes (raw : List Nat) : Str :=
  let body := raw.map fun b => [hexDigitByte (b / 16 % 16), hexDigitByte (b % 16)]
  [91] ++ (body.intersperse [32]).flatten ++ [93]

/-- Primitive guest values and how `tracing-core`'s `Value` impls present them to a visitor
    (environment: tracing-core 0.1.33 `field.rs`). -/
inductive Prim where
  | i8 (i : Int) | i16 (i : Int) | i32 (i : Int) | i64 (i : Int) | isize (i : Int) | i128 (i : Int)
  | u8 (n : Nat) | u16 (n : Nat) | u32 (n : Nat) | u64 (n : Nat) | usize (n : Nat) | u128 (n : Nat)
  | f32 (bits32 : Nat) | f64 (bits : Nat)
  | bool (b : Bool)
  | str (s : Str) | string (s : Str)
  | display (rendered : Str) | debugFmt (rendered : Str)
  | error (msg : Str) (sources : List Str)
  | bytes (raw : List Nat)
  deriving DecidableEq, Repr

def Prim.toRaw : Prim → Raw
  | .i8 i | .i16 i | .i32 i | .i64 i | .isize i => .i64 i
  | .i128 i => .i128 i
  | .u8 n | .u16 n | .u32 n | .u64 n | .usize n => .u64 n
  | .u128 n => .u128 n
  | .f32 b => .f64 (f32ToF64Bits b)
  | .f64 b => .f64 b
  | .bool b => .bool b
  | .str s | .string s => .str s
  | .display s | .debugFmt s => .debug s
  | .bytes raw => .debug (renderBytes raw)
  | .error m ss => .error m ss

/-- `TracedValue::as_value` (receiver/mod.rs:46-61): the callback a host visitor receives when
    the receiver replays a stored value. -/
def TVal.toRaw : TVal → Raw
  | .bool b => .bool b
  | .int i => .i128 i
  | .uint n => .u128 n
  | .float b => .f64 b
  | .str s => .str s
  | .obj s => .debug s
  | .err m ss => .error m ss

/-! ### Typed views and comparisons (value.rs:103-285) -/

def isNaNBits (b : Nat) : Bool := (b / 2^52 % 2048 == 2047) && (b % 2^52 != 0)
def isZeroBits (b : Nat) : Bool := b % 2^63 == 0

/-- IEEE-754 `==` on binary64 bit patterns. -/
def f64Eq (a b : Nat) : Bool :=
  if isNaNBits a || isNaNBits b then false
  else if isZeroBits a && isZeroBits b then true
  else a == b

def inI64 (i : Int) : Bool := decide (-(2:Int)^63 ≤ i) && decide (i < (2:Int)^63)
def inU64 (n : Nat) : Bool := decide (n < 2^64)
def inI128 (i : Int) : Bool := decide (-(2:Int)^127 ≤ i) && decide (i < (2:Int)^127)
def inU128 (n : Nat) : Bool := decide (n < 2^128)

/-- Range well-formedness of a stored value. -/
def TVal.WF : TVal → Bool
  | .int i => inI128 i
  | .uint n => inU128 n
  | .float b => decide (b < 2^64)
  | _ => true

namespace TVal

/-- `bool::from_value` / `as_bool` -/
def asBool : TVal → Option Bool | .bool b => some b | _ => none
/-- `i128::from_value` / `as_int` -/
def asInt : TVal → Option Int | .int i => some i | _ => none
/-- `u128::from_value` / `as_uint` -/
def asUInt : TVal → Option Nat | .uint n => some n | _ => none
/-- `f64::from_value` / `as_float` -/
def asFloat : TVal → Option Nat | .float b => some b | _ => none
/-- `str::from_value` / `as_str` -/
def asStr : TVal → Option Str | .str s => some s | _ => none
/-- `as_debug_str` -/
def asDebugStr : TVal → Option Str | .obj s => some s | _ => none
/-- `i64::from_value`: `(*value).try_into().ok()` on the `Int` variant only. -/
def asI64 : TVal → Option Int | .int i => if inI64 i then some i else none | _ => none
/-- `u64::from_value` -/
def asU64 : TVal → Option Nat | .uint n => if inU64 n then some n else none | _ => none

/-- `PartialEq<bool> for TracedValue` (and the mirrored impl, which delegates to it). -/
def eqBool : TVal → Bool → Bool | .bool b, x => b == x | _, _ => false
/-- `PartialEq<i128>` -/
def eqI128 : TVal → Int → Bool | .int i, x => i == x | _, _ => false
/-- `PartialEq<i64>`: `*value == i128::from(*other)` -/
def eqI64 : TVal → Int → Bool | .int i, x => i == x | _, _ => false
/-- `PartialEq<u128>` -/
def eqU128 : TVal → Nat → Bool | .uint n, x => n == x | _, _ => false
/-- `PartialEq<u64>` -/
def eqU64 : TVal → Nat → Bool | .uint n, x => n == x | _, _ => false
/-- `PartialEq<f64>`: IEEE equality. -/
def eqF64 : TVal → Nat → Bool | .float b, x => f64Eq b x | _, _ => false
/-- `PartialEq<str>` / `PartialEq<&str>` -/
def eqStr : TVal → Str → Bool | .str s, x => s == x | _, _ => false

end TVal

/-- `Option<f64> == Option<f64>` as Rust compares it (IEEE on the payload). -/
def optF64Eq : Option Nat → Option Nat → Bool
  | some a, some b => f64Eq a b
  | none, none => true
  | _, _ => false

end TT
