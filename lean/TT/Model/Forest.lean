/-
  TT.Model.Forest — the storage query API (`capture/src/lib.rs`, `capture/src/iter.rs`) over the
  `Storage` of TT/Model/Capture.lean. Items are identified by their arena index.
-/
import TT.Model.Capture

namespace TT

namespace Storage

def span? (st : Storage) (i : Nat) : Option CapSpan := st.spans[i]?

/-- `CapturedSpan::parent` / `CapturedEvent::parent` -/
def parentOf (st : Storage) (i : Nat) : Option Nat := (st.spans[i]?).bind (·.parent)
def eventParent (st : Storage) (j : Nat) : Option Nat := (st.events[j]?).bind (·.parent)

/-- `CapturedSpan::children`, `events`, `follows_from` (slices of ids, in order). -/
def childrenOf (st : Storage) (i : Nat) : List Nat := ((st.spans[i]?).map (·.children)).getD []
def eventsOf (st : Storage) (i : Nat) : List Nat := ((st.spans[i]?).map (·.events)).getD []
def followsOf (st : Storage) (i : Nat) : List Nat := ((st.spans[i]?).map (·.follows)).getD []

/-- `all_spans` / `all_events`: arena order. -/
def allSpans (st : Storage) : List Nat := List.range st.spans.length
def allEvents (st : Storage) : List Nat := List.range st.events.length

/-- `ancestors()`: `iter::successors(self.parent(), CapturedSpan::parent)`. The recursion is on a
    fuel argument; `ancestors` passes the index itself, which suffices because in a well-formed
    storage a parent's index is smaller than its child's (theorem `C17_ancestors_complete`). -/
def ancestorsFuel (st : Storage) : Nat → Option Nat → List Nat
  | 0, _ => []
  | _ + 1, none => []
  | fuel + 1, some p => p :: ancestorsFuel st fuel (st.parentOf p)

def ancestors (st : Storage) (i : Nat) : List Nat := ancestorsFuel st (i + 1) (st.parentOf i)
def eventAncestors (st : Storage) (j : Nat) : List Nat := ancestorsFuel st (st.spans.length + 1) (st.eventParent j)

/-- One `DescendantSpans::next()` (iter.rs:187-201): `layers` is the stack of id slices (top =
    head here); empty layers are popped, the head of the top layer is yielded, its tail stays and
    its children (if any) are pushed. -/
def descNext (st : Storage) : List (List Nat) → Option (Nat × List (List Nat))
  | [] => none
  | [] :: rest => descNext st rest
  | (h :: t) :: rest =>
    let ch := st.childrenOf h
    some (h, if ch.isEmpty then t :: rest else ch :: t :: rest)

/-- Drain the iterator (fuel bounds the number of `next()` calls). -/
def descDrain (st : Storage) : Nat → List (List Nat) → List Nat
  | 0, _ => []
  | fuel + 1, layers =>
    match descNext st layers with
    | none => []
    | some (x, layers') => x :: descDrain st fuel layers'

/-- `descendants()` -/
def descendants (st : Storage) (i : Nat) : List Nat := descDrain st (st.spans.length + 1) [st.childrenOf i]

/-- `descendant_events()`: `descendants().flat_map(|span| span.events())` -/
def descendantEvents (st : Storage) (i : Nat) : List Nat := (st.descendants i).flatMap st.eventsOf

/-- Reference pre-order traversal (children lists, recursively). -/
def preorderFuel (st : Storage) : Nat → List Nat → List Nat
  | 0, _ => []
  | _ + 1, [] => []
  | fuel + 1, c :: cs => c :: (preorderFuel st fuel (st.childrenOf c) ++ preorderFuel st fuel cs)

def preorder (st : Storage) (i : Nat) : List Nat := preorderFuel st (st.spans.length + 1) (st.childrenOf i)

/-- Structural laws of a storage. -/
structure WF (st : Storage) : Prop where
  parent_lt : ∀ i p, st.parentOf i = some p → p < i
  child_iff : ∀ p c, c ∈ st.childrenOf p ↔ (c < st.spans.length ∧ st.parentOf c = some p)
  children_sorted : ∀ p, (st.childrenOf p).Pairwise (· < ·)
  roots : st.rootSpans = (List.range st.spans.length).filter fun i => (st.parentOf i).isNone
  event_parent_lt : ∀ j p, st.eventParent j = some p → p < st.spans.length
  event_iff : ∀ p j, j ∈ st.eventsOf p ↔ (j < st.events.length ∧ st.eventParent j = some p)
  events_sorted : ∀ p, (st.eventsOf p).Pairwise (· < ·)
  rootEvents : st.rootEvents = (List.range st.events.length).filter fun j => (st.eventParent j).isNone
  follows_lt : ∀ i f, f ∈ st.followsOf i → f < st.spans.length

end Storage

/-- A `CapturedSpan` / `CapturedEvent` handle (lib.rs:82-88, 216-226): the storage it borrows
    from — compared by pointer identity — and its arena id. -/
structure ItemRef where
  storage : Nat
  id : Nat
  deriving DecidableEq, Repr, Inhabited

/-- `PartialEq` (lib.rs:177-181, 348-352). -/
def ItemRef.beq (a b : ItemRef) : Bool := a.storage == b.storage && a.id == b.id

/-- `PartialOrd` (lib.rs:185-193, 356-364). -/
def ItemRef.partialCmp (a b : ItemRef) : Option Ordering :=
  if a.storage == b.storage then some (compare a.id b.id) else none

end TT
