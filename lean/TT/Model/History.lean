/-
  TT.Model.History — receiver lifetimes: persist / restore / discard histories over the receiver
  model, and the reference bookkeeping of a guest's event history (`Spec`), which mentions
  neither hosts nor cut positions.

  The serde round trip of the persisted state at a cut is the identity on well-formed state
  (theorems C11_roundtrip_spans / C11_roundtrip_meta); `Sys.step` therefore hands the persisted
  values over unchanged. The driver additionally executes `decode ∘ encode` at every cut, and
  the harness performs the real serde_json round trip, so a divergence would surface in the
  correspondence.
-/
import TT.Model.Receiver

namespace TT

inductive PMode where
  | keep      -- local span map carried over intact
  | lose      -- local span map lost, same host subscriber
  | loseNew   -- local span map lost, fresh host subscriber (host restart)
  deriving DecidableEq, Repr, Inhabited

inductive HOp where
  | ev (e : Event)
  | persist (mode : PMode)
  | discard
  deriving Repr, Inhabited

/-- A receiver chain: the live receiver with its world, and what was persisted last. -/
structure Sys where
  σ : Sigma := {}
  lastPm : PersistedMeta := []
  lastPs : PersistedSpans := []
  deriving Repr, Inhabited

def Sys.step (s : Sys) : HOp → Sys
  | .ev e => { s with σ := (tryReceive s.σ e).state }
  | .persist mode =>
    let pm := persistMeta s.σ
    let (ps, loc, w) := persist s.σ
    let (loc', w') := match mode with
      | .keep => (loc, w)
      | .lose => ([], w)
      | .loseNew => ([], { w with host := {} })
    { σ := restore pm ps loc' w', lastPm := pm, lastPs := ps }
  | .discard =>
    { s with σ := restore s.lastPm s.lastPs [] (dropR s.σ) }

def runHistory (s : Sys) (ops : List HOp) : Sys := ops.foldl Sys.step s

/-! ### Reference bookkeeping -/

structure Spec where
  known : AMap Nat CallSite := []
  alive : AMap Nat SpanData := []
  deriving Repr, Inhabited

def reasonSpan (sp : Spec) (id : Nat) : List RErr :=
  if sp.alive.contains id then [] else [.unknownSpan id]

def reasonMeta (sp : Spec) (id : Nat) : List RErr :=
  if sp.known.contains id then [] else [.unknownMeta id]

def reasonMany (vs : TVals) : List RErr :=
  if vs.length > maxValues then [.tooMany vs.length] else []

def reasonOptSpan (sp : Spec) : Option Nat → List RErr
  | none => []
  | some p => reasonSpan sp p

/-- All reasons for which an event must be rejected (C06): unknown call site, span that is not
    alive, too many values. -/
def Spec.invalid (sp : Spec) : Event → List RErr
  | .newCallSite _ _ => []
  | .newSpan _ parent mt values => reasonMany values ++ reasonMeta sp mt ++ reasonOptSpan sp parent
  | .followsFrom id f => reasonSpan sp id ++ reasonSpan sp f
  | .entered id | .exited id | .cloned id | .dropped id => reasonSpan sp id
  | .valuesRecorded id values => reasonMany values ++ reasonSpan sp id
  | .newEvent mt parent values => reasonMany values ++ reasonMeta sp mt ++ reasonOptSpan sp parent

/-- Effect of an accepted event on the bookkeeping. -/
def Spec.apply (sp : Spec) : Event → Spec
  | .newCallSite id d => { sp with known := sp.known.insert id d }
  | .newSpan id parent mt values =>
    { sp with alive := sp.alive.insert id { mt, parent, refCount := 1, values } }
  | .cloned id =>
    match sp.alive.get id with
    | some d => { sp with alive := sp.alive.insert id { d with refCount := d.refCount + 1 } }
    | none => sp
  | .dropped id =>
    match sp.alive.get id with
    | some d =>
      if d.refCount - 1 = 0 then { sp with alive := sp.alive.erase id }
      else { sp with alive := sp.alive.insert id { d with refCount := d.refCount - 1 } }
    | none => sp
  | .valuesRecorded id values =>
    match sp.alive.get id with
    | some d => { sp with alive := sp.alive.insert id { d with values := d.values.extend values } }
    | none => sp
  | _ => sp

/-- Bookkeeping across lifetimes: current view and the view at the last commit. -/
structure SpecSys where
  cur : Spec := {}
  persisted : Spec := {}
  deriving Repr, Inhabited

def SpecSys.step (ss : SpecSys) : HOp → SpecSys
  | .ev e => if (ss.cur.invalid e).isEmpty then { ss with cur := ss.cur.apply e } else ss
  | .persist _ => { ss with persisted := ss.cur }
  | .discard => { ss with cur := ss.persisted }

def runSpec (ss : SpecSys) (ops : List HOp) : SpecSys := ops.foldl SpecSys.step ss

/-- Proviso of C06: a span id is not re-announced while it is alive. -/
def noReannounceFrom (ss : SpecSys) : List HOp → Bool
  | [] => true
  | op :: ops =>
    (match op with
      | .ev (.newSpan id _ _ _) => !ss.cur.alive.contains id
      | _ => true) && noReannounceFrom (ss.step op) ops

/-- Acceptance results of a history, as the receiver reports them. -/
def results (s : Sys) : List HOp → List (Option RErr)
  | [] => []
  | .ev e :: ops =>
    (match tryReceive s.σ e with
      | .ok _ => none
      | .err r _ => some r
      | .panic _ _ => some (.tooMany 0)) :: results (s.step (.ev e)) ops
  | op :: ops => results (s.step op) ops

end TT
