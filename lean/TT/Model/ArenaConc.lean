/-
  TT.Model.ArenaConc — `receiver/arena.rs` under concurrency, at lock-acquisition granularity.

  `alloc_metadata` has two critical sections: (A) under the read lock, scan the bucket of the
  description's hash and remember its length; (B) under the write lock, re-scan the part of the
  bucket that was appended meanwhile and, if the description is still absent, leak a new metadata
  object and push it. Each section is one atomic step of the model (`RwLock` contract). The hash
  function is arbitrary (collisions included). String interning (`alloc_string`) follows the same
  two-phase pattern and is only ever entered by the holder of the metadata write lock.
-/
import TT.Model.Receiver

namespace TT

structure CArena where
  items : List CallSite := []              -- leaked metadata objects; index = identity
  buckets : AMap Nat (List Nat) := []      -- hash ↦ indices in push order
  deriving Repr, Inhabited

inductive TPhase where
  | idle
  | scanned (d : CallSite) (len : Nat)     -- between the read-locked scan and the write lock
  deriving Repr, Inhabited

structure CThread where
  todo : List CallSite := []
  phase : TPhase := .idle
  results : List (Nat × Bool) := []        -- (metadata object, allocated by this call), newest first
  deriving Repr, Inhabited

structure CState where
  arena : CArena := {}
  threads : AMap Nat CThread := []
  deriving Repr, Inhabited

def CArena.bucket (a : CArena) (h : Nat) : List Nat := (a.buckets.get h).getD []

/-- First index in `idxs` whose object equals the description (`eq_metadata`). -/
def findEq (items : List CallSite) (d : CallSite) : List Nat → Option Nat
  | [] => none
  | i :: is => if items.getD i default = d then some i else findEq items d is

/-- One atomic step of thread `t` under hash function `hash`. -/
def cstep (hash : CallSite → Nat) (s : CState) (t : Nat) : CState :=
  match s.threads.get t with
  | none => s
  | some th =>
    match th.phase, th.todo with
    | .idle, [] => s
    | .idle, d :: rest =>
      -- (A) read-locked scan
      let b := s.arena.bucket (hash d)
      match findEq s.arena.items d b with
      | some i => { s with threads := s.threads.insert t { th with todo := rest, results := (i, false) :: th.results } }
      | none => { s with threads := s.threads.insert t { th with todo := rest, phase := .scanned d b.length } }
    | .scanned d len, _ =>
      -- (B) write-locked re-scan of the tail, then leak + push
      let b := s.arena.bucket (hash d)
      match findEq s.arena.items d (b.drop len) with
      | some i => { s with threads := s.threads.insert t { th with phase := .idle, results := (i, false) :: th.results } }
      | none =>
        let i := s.arena.items.length
        { arena := { items := s.arena.items ++ [d], buckets := s.arena.buckets.insert (hash d) (b ++ [i]) },
          threads := s.threads.insert t { th with phase := .idle, results := (i, true) :: th.results } }

def crun (hash : CallSite → Nat) (s : CState) (sched : List Nat) : CState := sched.foldl (cstep hash) s

def CThread.finished (th : CThread) : Bool :=
  match th.phase, th.todo with
  | .idle, [] => true
  | _, _ => false

def CState.finished (s : CState) : Bool := s.threads.all fun kv => kv.2.finished

/-- What thread `t` obtained for its announcements, in order. -/
def CState.resultsOf (s : CState) (t : Nat) : List (Nat × Bool) := ((s.threads.get t).map (·.results.reverse)).getD []

def CState.init (arena : CArena) (work : List (Nat × List CallSite)) : CState :=
  { arena, threads := work.foldl (fun m kv => m.insert kv.1 { todo := kv.2 }) [] }

end TT
