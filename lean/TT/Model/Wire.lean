/-
  TT.Model.Wire — `tunnel/src/types.rs` (CallSiteData, TracingEvent), `receiver/mod.rs:63-122`
  (SpanData, PersistedSpans, PersistedMetadata) and their serde encoding as an abstract JSON tree.

  The text layer of serde_json (number and string printing/parsing, map-key stringification) is
  environment: the model stops at `Json`. `Json.mapN` is a JSON object whose keys are the decimal
  numerals of the given numbers (how serde_json writes `HashMap<u64, _>`).
-/
import TT.Model.Values
import TT.Model.Keys

namespace TT

inductive Level where | error | warn | info | debug | trace
  deriving DecidableEq, Repr, Inhabited

inductive Kind where | span | event
  deriving DecidableEq, Repr, Inhabited

/-- `CallSiteData` (types.rs:63-84). -/
structure CallSite where
  kind : Kind
  name : Str
  target : Str
  level : Level
  modulePath : Option Str
  file : Option Str
  line : Option Nat
  fields : List Str
  deriving DecidableEq, Repr, Inhabited

/-- `TracingEvent` (types.rs:119-189). (`meta` is a reserved word: metadata ids are `mt`.) -/
inductive Event where
  | newCallSite (id : Nat) (data : CallSite)
  | newSpan (id : Nat) (parent : Option Nat) (mt : Nat) (values : TVals)
  | followsFrom (id follows : Nat)
  | entered (id : Nat)
  | exited (id : Nat)
  | cloned (id : Nat)
  | dropped (id : Nat)
  | valuesRecorded (id : Nat) (values : TVals)
  | newEvent (mt : Nat) (parent : Option Nat) (values : TVals)
  deriving DecidableEq, Repr, Inhabited

/-- `SpanData` (receiver/mod.rs:63-70). -/
structure SpanData where
  mt : Nat
  parent : Option Nat
  refCount : Nat
  values : TVals
  deriving DecidableEq, Repr, Inhabited

abbrev PersistedSpans := AMap Nat SpanData
abbrev PersistedMeta := AMap Nat CallSite

/-- Abstract JSON tree. Objects are ordered and may contain duplicate keys. -/
inductive Json where
  | null
  | bool (b : Bool)
  | num (i : Int)
  | float (bits : Nat)
  | str (s : Str)
  | arr (xs : List Json)
  | obj (kvs : List (Str × Json))
  | mapN (kvs : List (Nat × Json))
  deriving Repr, Inhabited

namespace Json

def lookup : List (Str × Json) → Str → Option Json
  | [], _ => none
  | (k', v) :: rest, k => if k' = k then some v else lookup rest k

def keysNodup (kvs : List (Str × Json)) : Bool := decide ((kvs.map (·.1)).Nodup)

def asNat : Json → Option Nat
  | .num i => if 0 ≤ i then some i.toNat else none
  | _ => none

def asU64 (j : Json) : Option Nat := (asNat j).bind fun n => if n < 2^64 then some n else none
def asU32 (j : Json) : Option Nat := (asNat j).bind fun n => if n < 2^32 then some n else none

def asStr : Json → Option Str
  | .str s => some s
  | _ => none

end Json

/-! ### Encoding (derive(Serialize) with the attributes in the source) -/

def Level.key : Level → Str
  | .error => K.error | .warn => K.warn | .info => K.info | .debug => K.debug | .trace => K.trace

def Kind.key : Kind → Str
  | .span => K.span | .event => K.event

def optField (k : Str) (v : Option Json) : List (Str × Json) :=
  match v with
  | none => []
  | some j => [(k, j)]

/-- `TracedError` (value.rs:17-24): `source` is always present (`null` or nested). -/
def encodeErr (msg : Str) : List Str → Json
  | [] => .obj [(K.message, .str msg), (K.source, .null)]
  | s :: ss => .obj [(K.message, .str msg), (K.source, encodeErr s ss)]

/-- `TracedValue` (value.rs:79-101): externally tagged, snake_case variant names. -/
def encodeVal : TVal → Json
  | .bool b => .obj [(K.bool, .bool b)]
  | .int i => .obj [(K.int, .num i)]
  | .uint n => .obj [(K.uInt, .num n)]
  | .float b => .obj [(K.float, .float b)]
  | .str s => .obj [(K.string, .str s)]
  | .obj s => .obj [(K.object, .str s)]
  | .err m ss => .obj [(K.error, encodeErr m ss)]

/-- `Serialize for TracedValues` (values.rs:211-219): a map in entry order. -/
def encodeVals (vs : TVals) : Json := .obj (vs.map fun kv => (kv.1, encodeVal kv.2))

/-- Fields of `CallSiteData` (types.rs:63-84), optional ones skipped when `None`. -/
def encodeCallSiteFields (c : CallSite) : List (Str × Json) :=
  [(K.kind, .str c.kind.key), (K.name, .str c.name), (K.target, .str c.target),
   (K.level, .str c.level.key)]
  ++ optField K.modulePath (c.modulePath.map .str)
  ++ optField K.file (c.file.map .str)
  ++ optField K.line (c.line.map fun n => .num n)
  ++ [(K.fields, .arr (c.fields.map .str))]

def encodeCallSite (c : CallSite) : Json := .obj (encodeCallSiteFields c)

/-- `TracingEvent` (types.rs:119-189): externally tagged, snake_case; `data` flattened. -/
def encodeEvent : Event → Json
  | .newCallSite id d => .obj [(K.newCallSite, .obj ((K.id, .num id) :: encodeCallSiteFields d))]
  | .newSpan id p m vs => .obj [(K.newSpan, .obj (
      [(K.id, .num id)] ++ optField K.parentId (p.map fun n => .num n)
      ++ [(K.metadataId, .num m), (K.values, encodeVals vs)]))]
  | .followsFrom id f => .obj [(K.followsFrom, .obj [(K.id, .num id), (K.followsFrom, .num f)])]
  | .entered id => .obj [(K.spanEntered, .obj [(K.id, .num id)])]
  | .exited id => .obj [(K.spanExited, .obj [(K.id, .num id)])]
  | .cloned id => .obj [(K.spanCloned, .obj [(K.id, .num id)])]
  | .dropped id => .obj [(K.spanDropped, .obj [(K.id, .num id)])]
  | .valuesRecorded id vs => .obj [(K.valuesRecorded, .obj [(K.id, .num id), (K.values, encodeVals vs)])]
  | .newEvent m p vs => .obj [(K.newEvent, .obj (
      [(K.metadataId, .num m)] ++ optField K.parent (p.map fun n => .num n)
      ++ [(K.values, encodeVals vs)]))]

/-- `SpanData` (receiver/mod.rs:63-70). -/
def encodeSpanData (d : SpanData) : Json :=
  .obj ([(K.metadataId, .num d.mt)] ++ optField K.parentId (d.parent.map fun n => .num n)
    ++ [(K.refCount, .num d.refCount), (K.values, encodeVals d.values)])

/-- `PersistedSpans` (`#[serde(transparent)]` over `HashMap<RawSpanId, SpanData>`). -/
def encodeSpans (m : PersistedSpans) : Json := .mapN (m.map fun kv => (kv.1, encodeSpanData kv.2))

/-- `PersistedMetadata` (`#[serde(transparent)]` over `HashMap<MetadataId, CallSiteData>`). -/
def encodeMeta (m : PersistedMeta) : Json := .mapN (m.map fun kv => (kv.1, encodeCallSite kv.2))

/-! ### Decoding (derive(Deserialize): fields by name in any order, optional fields default to
    `None`, unknown fields ignored, duplicate struct fields rejected, wrong type rejected) -/

def Level.ofKey (s : Str) : Option Level :=
  if s = K.error then some .error else if s = K.warn then some .warn
  else if s = K.info then some .info else if s = K.debug then some .debug
  else if s = K.trace then some .trace else none

def Kind.ofKey (s : Str) : Option Kind :=
  if s = K.span then some .span else if s = K.event then some .event else none

/-- `TracedError`: `message` required, `source` an `Option<Box<_>>` (missing ⇒ `None`). The chain
    depth is bounded by `fuel` (callers pass the size of the document). -/
def decodeErr : Nat → Json → Option (Str × List Str)
  | 0, _ => none
  | fuel + 1, .obj kvs =>
    if !Json.keysNodup kvs then none else
    match (Json.lookup kvs K.message).bind Json.asStr with
    | none => none
    | some m =>
      match Json.lookup kvs K.source with
      | none | some .null => some (m, [])
      | some src =>
        match decodeErr fuel src with
        | none => none
        | some (m', ss) => some (m, m' :: ss)
  | _, _ => none

def errDepth : Json → Nat
  | .obj [(_, _), (_, src)] => errDepth src + 1
  | _ => 1

/-- Externally tagged `TracedValue`: an object with exactly one known variant key. -/
def decodeVal (fuel : Nat) : Json → Option TVal
  | .obj [(k, j)] =>
    if k = K.bool then (match j with | .bool b => some (.bool b) | _ => none)
    else if k = K.int then (match j with | .num i => if inI128 i then some (.int i) else none | _ => none)
    else if k = K.uInt then (match j with
      | .num i => if 0 ≤ i ∧ inU128 i.toNat then some (.uint i.toNat) else none | _ => none)
    else if k = K.float then (match j with | .float b => some (.float b) | _ => none)
    else if k = K.string then (match j with | .str s => some (.str s) | _ => none)
    else if k = K.object then (match j with | .str s => some (.obj s) | _ => none)
    else if k = K.error then (match decodeErr fuel j with | some (m, ss) => some (.err m ss) | none => none)
    else none
  | _ => none

/-- `Deserialize for TracedValues<String>` (values.rs:222-249): entries in document order, each
    `insert`ed, so duplicate keys are legal and the last value wins in the first position. -/
def decodeValsAux (fuel : Nat) : List (Str × Json) → Option (List (Str × TVal))
  | [] => some []
  | (k, j) :: rest =>
    match decodeVal fuel j, decodeValsAux fuel rest with
    | some v, some r => some ((k, v) :: r)
    | _, _ => none

def decodeVals (fuel : Nat) : Json → Option TVals
  | .obj kvs => (decodeValsAux fuel kvs).map TVals.ofList
  | _ => none

def decodeStrs : List Json → Option (List Str)
  | [] => some []
  | j :: rest =>
    match Json.asStr j, decodeStrs rest with
    | some s, some r => some (s :: r)
    | _, _ => none

def decodeOpt {α : Type} (f : Json → Option α) : Option Json → Option (Option α)
  | none => some none
  | some .null => some none
  | some j => (f j).map some

def decodeCallSiteFields (kvs : List (Str × Json)) : Option CallSite :=
  match (Json.lookup kvs K.kind).bind Json.asStr |>.bind Kind.ofKey,
        (Json.lookup kvs K.name).bind Json.asStr,
        (Json.lookup kvs K.target).bind Json.asStr,
        (Json.lookup kvs K.level).bind Json.asStr |>.bind Level.ofKey,
        decodeOpt Json.asStr (Json.lookup kvs K.modulePath),
        decodeOpt Json.asStr (Json.lookup kvs K.file),
        decodeOpt Json.asU32 (Json.lookup kvs K.line),
        (match Json.lookup kvs K.fields with | some (.arr xs) => decodeStrs xs | _ => none) with
  | some kind, some name, some target, some level, some mp, some file, some line, some fields =>
    some { kind, name, target, level, modulePath := mp, file, line, fields }
  | _, _, _, _, _, _, _, _ => none

def decodeCallSite : Json → Option CallSite
  | .obj kvs => if Json.keysNodup kvs then decodeCallSiteFields kvs else none
  | _ => none

def decodeIdOnly (kvs : List (Str × Json)) : Option Nat :=
  if Json.keysNodup kvs then (Json.lookup kvs K.id).bind Json.asU64 else none

def decodeEvent (fuel : Nat) : Json → Option Event
  | .obj [(tag, .obj kvs)] =>
    if !Json.keysNodup kvs then none
    else if tag = K.newCallSite then
      match (Json.lookup kvs K.id).bind Json.asU64, decodeCallSiteFields kvs with
      | some id, some d => some (.newCallSite id d)
      | _, _ => none
    else if tag = K.newSpan then
      match (Json.lookup kvs K.id).bind Json.asU64,
            decodeOpt Json.asU64 (Json.lookup kvs K.parentId),
            (Json.lookup kvs K.metadataId).bind Json.asU64,
            (Json.lookup kvs K.values).bind (decodeVals fuel) with
      | some id, some p, some m, some vs => some (.newSpan id p m vs)
      | _, _, _, _ => none
    else if tag = K.followsFrom then
      match (Json.lookup kvs K.id).bind Json.asU64, (Json.lookup kvs K.followsFrom).bind Json.asU64 with
      | some id, some f => some (.followsFrom id f)
      | _, _ => none
    else if tag = K.spanEntered then (decodeIdOnly kvs).map .entered
    else if tag = K.spanExited then (decodeIdOnly kvs).map .exited
    else if tag = K.spanCloned then (decodeIdOnly kvs).map .cloned
    else if tag = K.spanDropped then (decodeIdOnly kvs).map .dropped
    else if tag = K.valuesRecorded then
      match (Json.lookup kvs K.id).bind Json.asU64, (Json.lookup kvs K.values).bind (decodeVals fuel) with
      | some id, some vs => some (.valuesRecorded id vs)
      | _, _ => none
    else if tag = K.newEvent then
      match (Json.lookup kvs K.metadataId).bind Json.asU64,
            decodeOpt Json.asU64 (Json.lookup kvs K.parent),
            (Json.lookup kvs K.values).bind (decodeVals fuel) with
      | some m, some p, some vs => some (.newEvent m p vs)
      | _, _, _ => none
    else none
  | _ => none

def decodeSpanData (fuel : Nat) : Json → Option SpanData
  | .obj kvs =>
    if !Json.keysNodup kvs then none else
    match (Json.lookup kvs K.metadataId).bind Json.asU64,
          decodeOpt Json.asU64 (Json.lookup kvs K.parentId),
          (Json.lookup kvs K.refCount).bind Json.asU64,
          (Json.lookup kvs K.values).bind (decodeVals fuel) with
    | some m, some p, some rc, some vs => some { mt := m, parent := p, refCount := rc, values := vs }
    | _, _, _, _ => none
  | _ => none

def decodeMapN {α : Type} (f : Json → Option α) : List (Nat × Json) → Option (AMap Nat α)
  | [] => some []
  | (k, j) :: rest =>
    match f j, decodeMapN f rest with
    | some v, some r => if k < 2^64 then some ((k, v) :: r) else none
    | _, _ => none

/-- `HashMap<u64, SpanData>`: a later duplicate key overwrites (`AMap.insert` over the entries). -/
def decodeSpans (fuel : Nat) : Json → Option PersistedSpans
  | .mapN kvs => (decodeMapN (decodeSpanData fuel) kvs).map fun es =>
      es.foldl (fun m kv => AMap.insert m kv.1 kv.2) []
  | _ => none

def decodeMeta : Json → Option PersistedMeta
  | .mapN kvs => (decodeMapN decodeCallSite kvs).map fun es =>
      es.foldl (fun m kv => AMap.insert m kv.1 kv.2) []
  | _ => none

/-! ### The frozen 0.2 wire shape (same content as /verif/wire/wire-0.2.schema.json) -/

def conformsErr : Nat → Json → Bool
  | 0, _ => false
  | fuel + 1, .obj [(k1, .str _), (k2, src)] =>
    k1 == K.message && k2 == K.source &&
      (match src with | .null => true | j => conformsErr fuel j)
  | _, _ => false

def conformsVal (fuel : Nat) : Json → Bool
  | .obj [(k, j)] =>
    if k = K.bool then (match j with | .bool _ => true | _ => false)
    else if k = K.int then (match j with | .num i => inI128 i | _ => false)
    else if k = K.uInt then (match j with | .num i => decide (0 ≤ i) && inU128 i.toNat | _ => false)
    else if k = K.float then (match j with | .float _ => true | _ => false)
    else if k = K.string then (match j with | .str _ => true | _ => false)
    else if k = K.object then (match j with | .str _ => true | _ => false)
    else if k = K.error then conformsErr fuel j
    else false
  | _ => false

def conformsVals (fuel : Nat) : Json → Bool
  | .obj kvs => kvs.all fun kv => conformsVal fuel kv.2
  | _ => false

def isU64 : Json → Bool
  | .num i => decide (0 ≤ i) && decide (i.toNat < 2^64)
  | _ => false

def isStrJ : Json → Bool
  | .str _ => true
  | _ => false

/-- Shape of an object: required keys in order with optional ones possibly missing.
    `spec` lists `(key, required, check)`; the document must be a subsequence of it containing
    every required key. -/
def conformsFields : List (Str × Bool × (Json → Bool)) → List (Str × Json) → Bool
  | [], [] => true
  | [], _ :: _ => false
  | (_, req, _) :: spec, [] => !req && conformsFields spec []
  | (k, req, chk) :: spec, (k', j) :: rest =>
    if k = k' then chk j && conformsFields spec rest
    else !req && conformsFields spec ((k', j) :: rest)

def isLevelJ : Json → Bool
  | .str s => (Level.ofKey s).isSome
  | _ => false
def isKindJ : Json → Bool
  | .str s => (Kind.ofKey s).isSome
  | _ => false
def isU32J : Json → Bool
  | .num i => decide (0 ≤ i) && decide (i.toNat < 2^32)
  | _ => false
def isStrArrJ : Json → Bool
  | .arr xs => xs.all isStrJ
  | _ => false

def callSiteSpec : List (Str × Bool × (Json → Bool)) :=
  [(K.kind, true, isKindJ), (K.name, true, isStrJ), (K.target, true, isStrJ), (K.level, true, isLevelJ),
   (K.modulePath, false, isStrJ), (K.file, false, isStrJ), (K.line, false, isU32J),
   (K.fields, true, isStrArrJ)]

def conformsEvent (fuel : Nat) : Json → Bool
  | .obj [(tag, .obj kvs)] =>
    if tag = K.newCallSite then conformsFields ((K.id, true, isU64) :: callSiteSpec) kvs
    else if tag = K.newSpan then conformsFields
      [(K.id, true, isU64), (K.parentId, false, isU64), (K.metadataId, true, isU64),
       (K.values, true, conformsVals fuel)] kvs
    else if tag = K.followsFrom then conformsFields [(K.id, true, isU64), (K.followsFrom, true, isU64)] kvs
    else if tag = K.spanEntered ∨ tag = K.spanExited ∨ tag = K.spanCloned ∨ tag = K.spanDropped then
      conformsFields [(K.id, true, isU64)] kvs
    else if tag = K.valuesRecorded then
      conformsFields [(K.id, true, isU64), (K.values, true, conformsVals fuel)] kvs
    else if tag = K.newEvent then conformsFields
      [(K.metadataId, true, isU64), (K.parent, false, isU64), (K.values, true, conformsVals fuel)] kvs
    else false
  | _ => false

def conformsSpans (fuel : Nat) : Json → Bool
  | .mapN kvs => kvs.all fun kv => decide (kv.1 < 2^64) && (match kv.2 with
      | .obj fs => conformsFields
          [(K.metadataId, true, isU64), (K.parentId, false, isU64), (K.refCount, true, isU64),
           (K.values, true, conformsVals fuel)] fs
      | _ => false)
  | _ => false

def conformsMeta : Json → Bool
  | .mapN kvs => kvs.all fun kv => decide (kv.1 < 2^64) && (match kv.2 with
      | .obj fs => conformsFields callSiteSpec fs
      | _ => false)
  | _ => false

/-- Size bound used as decoding fuel. -/
def valsFuel (vs : TVals) : Nat :=
  vs.foldl (fun acc kv => match kv.2 with | .err _ ss => max acc (ss.length + 2) | _ => acc) 2

end TT
