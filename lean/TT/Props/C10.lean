/-
  C10 — Concurrent receivers intern each call site exactly once.

  Interleaving semantics of TT/Model/ArenaConc.lean: any number of threads, each announcing any
  list of descriptions, every schedule, every hash function (collisions included). A proof over
  an interleaving model of atomic critical sections: the `RwLock` contract and the memory model
  are assumed, not modelled; the tie to the code is the forced-schedule correspondence (cfg-guarded
  yield points) plus free-running stress.
-/
import TT.Model.ArenaConc
import TT.Lemmas.ArenaConc

namespace TT

/-- The bucket structure is consistent with the list of objects. -/
def CArena.WF (hash : CallSite → Nat) (a : CArena) : Prop :=
  a.items.Nodup ∧
  (∀ h i, i ∈ a.bucket h ↔ (i < a.items.length ∧ hash (a.items.getD i default) = h)) ∧
  (∀ h, (a.bucket h).Nodup)

def allResults (s : CState) : List (Nat × Bool) := s.threads.flatMap fun kv => kv.2.results

/-- Under every schedule: the arena stays duplicate-free (each distinct description is interned
    once); every announcement processed so far obtained an object with exactly its description —
    so equal descriptions obtain the same object and different ones different objects, across all
    threads —; and every object allocated during the run was reported as new by exactly one
    announcement (exactly one host registration), objects that existed before by none. -/
theorem C10_all_schedules (hash : CallSite → Nat) (arena₀ : CArena) (hwf : arena₀.WF hash)
    (work : List (Nat × List CallSite)) (hw : (work.map (·.1)).Nodup) (sched : List Nat) :
    let s := crun hash (CState.init arena₀ work) sched
    s.arena.WF hash ∧
    (∀ t ds, (t, ds) ∈ work →
      (s.resultsOf t).map (fun r => s.arena.items.getD r.1 default) = ds.take (s.resultsOf t).length ∧
      ∀ r ∈ s.resultsOf t, r.1 < s.arena.items.length) ∧
    (∀ i, i < s.arena.items.length →
      ((allResults s).filter fun r => r.1 == i && r.2).length = if i < arena₀.items.length then 0 else 1) := by
  intro s
  have inv : ar_CInv hash arena₀.items.length work s :=
    ar_crun_inv sched _ (ar_init_inv hash arena₀ hwf work hw)
  refine ⟨inv.wf, ?_, inv.cnt⟩
  intro t ds hm
  obtain ⟨th, hg, hT⟩ := inv.thr t ds hm
  have hres : s.resultsOf t = th.results.reverse := by simp [CState.resultsOf, hg]
  rw [hres]
  constructor
  · have hdec : ∃ rest, ds = ar_desc s.arena.items th.results ++ rest := by
      obtain ⟨todo, phase, results⟩ := th
      cases phase with
      | idle => exact ⟨_, hT⟩
      | scanned d len => exact ⟨_, hT.1⟩
    obtain ⟨rest, e⟩ := hdec
    rw [e]
    unfold ar_desc
    rw [List.take_left' (by simp)]
  · intro r hr
    exact inv.bound r (ar_allRes_mem _ t th hg r (List.mem_reverse.1 hr))

/-- Equal descriptions ⇒ identical object, different ⇒ distinct, across threads (corollary). -/
theorem C10_same_iff_equal (hash : CallSite → Nat) (arena₀ : CArena) (hwf : arena₀.WF hash)
    (work : List (Nat × List CallSite)) (hw : (work.map (·.1)).Nodup) (sched : List Nat)
    (t₁ t₂ : Nat) (ds₁ ds₂ : List CallSite) (h₁ : (t₁, ds₁) ∈ work) (h₂ : (t₂, ds₂) ∈ work) (k₁ k₂ : Nat)
    (r₁ r₂ : Nat × Bool)
    (hr₁ : ((crun hash (CState.init arena₀ work) sched).resultsOf t₁)[k₁]? = some r₁)
    (hr₂ : ((crun hash (CState.init arena₀ work) sched).resultsOf t₂)[k₂]? = some r₂) :
    (r₁.1 = r₂.1 ↔ ds₁[k₁]? = ds₂[k₂]?) := by
  obtain ⟨hwf', hthr, _⟩ := C10_all_schedules hash arena₀ hwf work hw sched
  obtain ⟨hm1, hb1⟩ := hthr t₁ ds₁ h₁
  obtain ⟨hm2, hb2⟩ := hthr t₂ ds₂ h₂
  rw [ar_take_getElem? _ _ _ _ _ hm1 hr₁, ar_take_getElem? _ _ _ _ _ hm2 hr₂]
  simp only [Option.some.injEq]
  constructor
  · intro e; rw [e]
  · intro e
    exact ar_nodup_getD_inj _ hwf'.1 _ _ (hb1 r₁ (List.mem_of_getElem? hr₁))
      (hb2 r₂ (List.mem_of_getElem? hr₂)) e

/-- No announcement fails or blocks forever: every step of an unfinished thread makes progress,
    and a schedule that gives every thread two steps per announcement completes all of them. -/
theorem C10_completes (hash : CallSite → Nat) (arena₀ : CArena) (work : List (Nat × List CallSite))
    (hw : (work.map (·.1)).Nodup) (sched : List Nat)
    (hfair : ∀ t ds, (t, ds) ∈ work → 2 * ds.length ≤ (sched.filter (· == t)).length) :
    (crun hash (CState.init arena₀ work) sched).finished = true ∧
    ∀ t ds, (t, ds) ∈ work → ((crun hash (CState.init arena₀ work) sched).resultsOf t).length = ds.length := by
  exact ar_completes hash arena₀ work hw sched hfair

/-- Non-vacuity: two threads race on the same new description (both scan before either inserts),
    a third announces a different one with a colliding hash. -/
example :
    let d : CallSite := ⟨.span, [110], [97], .info, none, none, none, []⟩
    let d' : CallSite := { d with level := .warn }
    let s := crun (fun _ => 0) (CState.init {} [(0, [d]), (1, [d]), (2, [d', d])]) [0, 1, 2, 1, 0, 2, 2]
    s.finished = true ∧ s.resultsOf 0 = [(0, false)] ∧ s.resultsOf 1 = [(0, true)] ∧
    s.resultsOf 2 = [(1, true), (0, false)] ∧ s.arena.items = [d, d'] := by
  decide

end TT
