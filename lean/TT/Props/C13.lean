/-
  C13 — Host-side filtering applies to tunnelled spans and events.

  Known finding K4: the receiver never consults the host's `enabled` (the model's `tryReceive`
  has no such input at all), so a span or event the host would have disabled natively is
  delivered when it arrives through the tunnel: the first clause of the property is false of the
  code (`C13_counterexample`). The other two clauses are proved: everything the host enables is
  delivered with its call site, values and enter/exit/close history (`C13_faithful`), and a valid
  guest stream is never rejected whatever the filter (`C13_never_rejects`).
-/
import TT.Props.C01
import TT.Lemmas.FilterBase
import TT.Lemmas.FilterFE

namespace TT

/-- First clause: nothing the host disables reaches it. -/
def C13_filter_applies (maxLevel : Option Nat) (arena sites : List CallSite) (ops : List POp) : Prop :=
  (tunnelLog arena sites ops).all (fun c => match c with
    | .newSpan _ m _ _ => levelEnabled maxLevel (sites.getD m default)
    | .event m _ _ => levelEnabled maxLevel (sites.getD m default)
    | _ => true) = true

/-- Host filtered at INFO; the guest enters a DEBUG span and emits a DEBUG event. -/
theorem C13_counterexample :
    ¬ C13_filter_applies (some 2) [] [⟨.span, [115], [97], .debug, none, none, none, []⟩,
        ⟨.event, [101], [97], .debug, none, none, none, []⟩]
      [.new 0 .ctx [], .ent 0, .evt 1 .ctx []] := by
  unfold C13_filter_applies; decide

/-- Third clause: filtering never causes a valid guest stream to be rejected (the tunnelled run
    does not depend on the filter at all). -/
theorem C13_never_rejects (_maxLevel : Option Nat) (arena sites : List CallSite) (ops : List POp)
    (hwf : wfProg sites ops = true) (hb : spansCreated ops < 2^32 - 1) :
    ∀ r ∈ tunnelResults arena sites ops, r = none :=
  C01_accepts arena sites ops hwf hb

/-! Second clause. The native run under a filter skips disabled spans and events entirely, so
    host ids differ from the tunnelled run; the comparison erases from the tunnelled log
    everything about spans with a disabled call site and the disabled events, renumbers span ids
    by first occurrence and masks parent links (a child of a disabled explicit parent is a root
    natively: parent links are not part of the claim). -/

def siteEnabled (maxLevel : Option Nat) (sites : List CallSite) (m : Nat) : Bool :=
  levelEnabled maxLevel (sites.getD m default)

def HostCall.subject : HostCall → Option Nat
  | .newSpan h _ _ _ | .record h _ | .enter h | .exit h | .clone h | .tryClose h | .follows h _ => some h
  | _ => none

/-- Drop disabled spans (and every later call on them, follows-from edges touching them) and
    disabled events. `dead` collects the host ids of disabled spans. -/
def eraseDisabledFrom (maxLevel : Option Nat) (sites : List CallSite) (dead : List Nat) : List HostCall → List HostCall
  | [] => []
  | .newSpan h m p v :: cs =>
    if siteEnabled maxLevel sites m then .newSpan h m p v :: eraseDisabledFrom maxLevel sites dead cs
    else eraseDisabledFrom maxLevel sites (h :: dead) cs
  | .event m p v :: cs =>
    if siteEnabled maxLevel sites m then .event m p v :: eraseDisabledFrom maxLevel sites dead cs
    else eraseDisabledFrom maxLevel sites dead cs
  | .follows a b :: cs =>
    if dead.contains a || dead.contains b then eraseDisabledFrom maxLevel sites dead cs
    else .follows a b :: eraseDisabledFrom maxLevel sites dead cs
  | c :: cs =>
    match c.subject with
    | some h => if dead.contains h then eraseDisabledFrom maxLevel sites dead cs else c :: eraseDisabledFrom maxLevel sites dead cs
    | none => c :: eraseDisabledFrom maxLevel sites dead cs

def HostCall.maskParent : HostCall → HostCall
  | .newSpan h m _ v => .newSpan h m .ctx v
  | .event m _ v => .event m .ctx v
  | c => c

def renameId (ρ : AMap Nat Nat) (h : Nat) : Nat := (ρ.get h).getD 0

/-- Rename span ids by order of creation. -/
def renumberFrom (ρ : AMap Nat Nat) : List HostCall → List HostCall
  | [] => []
  | .newSpan h m p v :: cs =>
    let ρ' := ρ.insert h (ρ.length + 1)
    .newSpan (ρ.length + 1) m p v :: renumberFrom ρ' cs
  | .record h v :: cs => .record (renameId ρ h) v :: renumberFrom ρ cs
  | .follows a b :: cs => .follows (renameId ρ a) (renameId ρ b) :: renumberFrom ρ cs
  | .enter h :: cs => .enter (renameId ρ h) :: renumberFrom ρ cs
  | .exit h :: cs => .exit (renameId ρ h) :: renumberFrom ρ cs
  | .clone h :: cs => .clone (renameId ρ h) :: renumberFrom ρ cs
  | .tryClose h :: cs => .tryClose (renameId ρ h) :: renumberFrom ρ cs
  | c :: cs => c :: renumberFrom ρ cs

def nativeLogFiltered (maxLevel : Option Nat) (sites : List CallSite) (ops : List POp) : List HostCall :=
  (nonReg (nativeRun maxLevel sites ops).log.reverse).map (·.mapMeta (canonK sites))

/-! ### Proof of `C13_faithful` (helper lemmas; see also TT/Lemmas/Filter*.lean) -/

/-- Fold states of the two sides of the comparison, and the correspondence between the host ids
    of the unfiltered run (`U`) and of the filtered run (`F`). -/
structure FSt where
  nU : Nat
  nF : Nat
  pairs : List (Nat × Nat)
  cU : AMap Nat Nat
  dead : List Nat
  rU : AMap Nat Nat
  cF : AMap Nat Nat
  rF : AMap Nat Nat

def fl_PU (L : Option Nat) (sites : List CallSite) (cU : AMap Nat Nat) (dead : List Nat) (rU : AMap Nat Nat)
    (xs : List HostCall) : List HostCall :=
  renumberFrom rU ((eraseDisabledFrom L sites dead (rcNormalizeFrom cU
    (((nonReg xs).map (·.mapMeta (canonK sites))).map fun c => c.widen.rootAsCtx))).map (·.maskParent))

def fl_PF (sites : List CallSite) (cF rF : AMap Nat Nat) (ys : List HostCall) : List HostCall :=
  renumberFrom rF ((rcNormalizeFrom cF
    (((nonReg ys).map (·.mapMeta (canonK sites))).map (·.widen))).map (·.maskParent))

theorem fl_siteEnabled_canon (L : Option Nat) (sites : List CallSite) (k : Nat) :
    siteEnabled L sites (canonK sites k) = siteEnabled L sites k := by
  unfold siteEnabled
  rw [fl_canon_site]

section unfold
variable (L : Option Nat) (sites : List CallSite) (cU : AMap Nat Nat) (dead : List Nat) (rU cF rF : AMap Nat Nat)

theorem fl_PU_reg (k : Nat) (xs : List HostCall) :
    fl_PU L sites cU dead rU (.register k :: xs) = fl_PU L sites cU dead rU xs := by
  simp [fl_PU, nonReg, HostCall.isRegister]

theorem fl_PF_reg (k : Nat) (xs : List HostCall) :
    fl_PF sites cF rF (.register k :: xs) = fl_PF sites cF rF xs := by
  simp [fl_PF, nonReg, HostCall.isRegister]

theorem fl_PU_newEn (u k : Nat) (p : HParent) (v : RawVals) (xs : List HostCall)
    (h : siteEnabled L sites k = true) :
    fl_PU L sites cU dead rU (.newSpan u k p v :: xs) =
      .newSpan (rU.length + 1) (canonK sites k) .ctx (widenVals v) ::
        fl_PU L sites (cU.insert u 1) dead (rU.insert u (rU.length + 1)) xs := by
  simp [fl_PU, nonReg, HostCall.isRegister, HostCall.mapMeta, HostCall.widen, HostCall.rootAsCtx,
    rcNormalizeFrom, eraseDisabledFrom, fl_siteEnabled_canon, h, HostCall.maskParent, renumberFrom]

theorem fl_PU_newDis (u k : Nat) (p : HParent) (v : RawVals) (xs : List HostCall)
    (h : siteEnabled L sites k = false) :
    fl_PU L sites cU dead rU (.newSpan u k p v :: xs) =
        fl_PU L sites (cU.insert u 1) (u :: dead) rU xs := by
  simp [fl_PU, nonReg, HostCall.isRegister, HostCall.mapMeta, HostCall.widen, HostCall.rootAsCtx,
    rcNormalizeFrom, eraseDisabledFrom, fl_siteEnabled_canon, h]

theorem fl_PF_new (f k : Nat) (p : HParent) (v : RawVals) (ys : List HostCall) :
    fl_PF sites cF rF (.newSpan f k p v :: ys) =
      .newSpan (rF.length + 1) (canonK sites k) .ctx (widenVals v) ::
        fl_PF sites (cF.insert f 1) (rF.insert f (rF.length + 1)) ys := by
  simp [fl_PF, nonReg, HostCall.isRegister, HostCall.mapMeta, HostCall.widen,
    rcNormalizeFrom, HostCall.maskParent, renumberFrom]

theorem fl_PU_evtEn (k : Nat) (p : HParent) (v : RawVals) (xs : List HostCall)
    (h : siteEnabled L sites k = true) :
    fl_PU L sites cU dead rU (.event k p v :: xs) =
      .event (canonK sites k) .ctx (widenVals v) :: fl_PU L sites cU dead rU xs := by
  simp [fl_PU, nonReg, HostCall.isRegister, HostCall.mapMeta, HostCall.widen, HostCall.rootAsCtx,
    rcNormalizeFrom, eraseDisabledFrom, fl_siteEnabled_canon, h, HostCall.maskParent, renumberFrom]

theorem fl_PU_evtDis (k : Nat) (p : HParent) (v : RawVals) (xs : List HostCall)
    (h : siteEnabled L sites k = false) :
    fl_PU L sites cU dead rU (.event k p v :: xs) = fl_PU L sites cU dead rU xs := by
  simp [fl_PU, nonReg, HostCall.isRegister, HostCall.mapMeta, HostCall.widen, HostCall.rootAsCtx,
    rcNormalizeFrom, eraseDisabledFrom, fl_siteEnabled_canon, h]

theorem fl_PF_evt (k : Nat) (p : HParent) (v : RawVals) (ys : List HostCall) :
    fl_PF sites cF rF (.event k p v :: ys) =
      .event (canonK sites k) .ctx (widenVals v) :: fl_PF sites cF rF ys := by
  simp [fl_PF, nonReg, HostCall.isRegister, HostCall.mapMeta, HostCall.widen,
    rcNormalizeFrom, HostCall.maskParent, renumberFrom]

theorem fl_PU_record (u : Nat) (v : RawVals) (xs : List HostCall) (h : u ∉ dead) :
    fl_PU L sites cU dead rU (.record u v :: xs) =
      .record (renameId rU u) (widenVals v) :: fl_PU L sites cU dead rU xs := by
  simp [fl_PU, nonReg, HostCall.isRegister, HostCall.mapMeta, HostCall.widen, HostCall.rootAsCtx,
    rcNormalizeFrom, eraseDisabledFrom, HostCall.subject, h, HostCall.maskParent, renumberFrom]

theorem fl_PU_recordD (u : Nat) (v : RawVals) (xs : List HostCall) (h : u ∈ dead) :
    fl_PU L sites cU dead rU (.record u v :: xs) = fl_PU L sites cU dead rU xs := by
  simp [fl_PU, nonReg, HostCall.isRegister, HostCall.mapMeta, HostCall.widen, HostCall.rootAsCtx,
    rcNormalizeFrom, eraseDisabledFrom, HostCall.subject, h]

theorem fl_PF_record (f : Nat) (v : RawVals) (ys : List HostCall) :
    fl_PF sites cF rF (.record f v :: ys) =
      .record (renameId rF f) (widenVals v) :: fl_PF sites cF rF ys := by
  simp [fl_PF, nonReg, HostCall.isRegister, HostCall.mapMeta, HostCall.widen,
    rcNormalizeFrom, HostCall.maskParent, renumberFrom]

theorem fl_PU_enter (u : Nat) (xs : List HostCall) (h : u ∉ dead) :
    fl_PU L sites cU dead rU (.enter u :: xs) = .enter (renameId rU u) :: fl_PU L sites cU dead rU xs := by
  simp [fl_PU, nonReg, HostCall.isRegister, HostCall.mapMeta, HostCall.widen, HostCall.rootAsCtx,
    rcNormalizeFrom, eraseDisabledFrom, HostCall.subject, h, HostCall.maskParent, renumberFrom]

theorem fl_PU_enterD (u : Nat) (xs : List HostCall) (h : u ∈ dead) :
    fl_PU L sites cU dead rU (.enter u :: xs) = fl_PU L sites cU dead rU xs := by
  simp [fl_PU, nonReg, HostCall.isRegister, HostCall.mapMeta, HostCall.widen, HostCall.rootAsCtx,
    rcNormalizeFrom, eraseDisabledFrom, HostCall.subject, h]

theorem fl_PF_enter (f : Nat) (ys : List HostCall) :
    fl_PF sites cF rF (.enter f :: ys) = .enter (renameId rF f) :: fl_PF sites cF rF ys := by
  simp [fl_PF, nonReg, HostCall.isRegister, HostCall.mapMeta, HostCall.widen,
    rcNormalizeFrom, HostCall.maskParent, renumberFrom]

theorem fl_PU_exit (u : Nat) (xs : List HostCall) (h : u ∉ dead) :
    fl_PU L sites cU dead rU (.exit u :: xs) = .exit (renameId rU u) :: fl_PU L sites cU dead rU xs := by
  simp [fl_PU, nonReg, HostCall.isRegister, HostCall.mapMeta, HostCall.widen, HostCall.rootAsCtx,
    rcNormalizeFrom, eraseDisabledFrom, HostCall.subject, h, HostCall.maskParent, renumberFrom]

theorem fl_PU_exitD (u : Nat) (xs : List HostCall) (h : u ∈ dead) :
    fl_PU L sites cU dead rU (.exit u :: xs) = fl_PU L sites cU dead rU xs := by
  simp [fl_PU, nonReg, HostCall.isRegister, HostCall.mapMeta, HostCall.widen, HostCall.rootAsCtx,
    rcNormalizeFrom, eraseDisabledFrom, HostCall.subject, h]

theorem fl_PF_exit (f : Nat) (ys : List HostCall) :
    fl_PF sites cF rF (.exit f :: ys) = .exit (renameId rF f) :: fl_PF sites cF rF ys := by
  simp [fl_PF, nonReg, HostCall.isRegister, HostCall.mapMeta, HostCall.widen,
    rcNormalizeFrom, HostCall.maskParent, renumberFrom]

theorem fl_PU_follows (u u' : Nat) (xs : List HostCall) (h : u ∉ dead) (h' : u' ∉ dead) :
    fl_PU L sites cU dead rU (.follows u u' :: xs) =
      .follows (renameId rU u) (renameId rU u') :: fl_PU L sites cU dead rU xs := by
  simp [fl_PU, nonReg, HostCall.isRegister, HostCall.mapMeta, HostCall.widen, HostCall.rootAsCtx,
    rcNormalizeFrom, eraseDisabledFrom, h, h', HostCall.maskParent, renumberFrom]

theorem fl_PU_followsD (u u' : Nat) (xs : List HostCall) (h : u ∈ dead ∨ u' ∈ dead) :
    fl_PU L sites cU dead rU (.follows u u' :: xs) = fl_PU L sites cU dead rU xs := by
  simp [fl_PU, nonReg, HostCall.isRegister, HostCall.mapMeta, HostCall.widen, HostCall.rootAsCtx,
    rcNormalizeFrom, eraseDisabledFrom, h]

theorem fl_PF_follows (f f' : Nat) (ys : List HostCall) :
    fl_PF sites cF rF (.follows f f' :: ys) =
      .follows (renameId rF f) (renameId rF f') :: fl_PF sites cF rF ys := by
  simp [fl_PF, nonReg, HostCall.isRegister, HostCall.mapMeta, HostCall.widen,
    rcNormalizeFrom, HostCall.maskParent, renumberFrom]

theorem fl_PU_clone (u : Nat) (xs : List HostCall) :
    fl_PU L sites cU dead rU (.clone u :: xs) =
      fl_PU L sites (cU.insert u ((cU.get u).getD 0 + 1)) dead rU xs := by
  simp [fl_PU, nonReg, HostCall.isRegister, HostCall.mapMeta, HostCall.widen, HostCall.rootAsCtx,
    rcNormalizeFrom]

theorem fl_PF_clone (f : Nat) (ys : List HostCall) :
    fl_PF sites cF rF (.clone f :: ys) =
      fl_PF sites (cF.insert f ((cF.get f).getD 0 + 1)) rF ys := by
  simp [fl_PF, nonReg, HostCall.isRegister, HostCall.mapMeta, HostCall.widen, rcNormalizeFrom]

theorem fl_PU_close (u : Nat) (xs : List HostCall) (h : u ∉ dead) :
    fl_PU L sites cU dead rU (.tryClose u :: xs) =
      if (cU.get u).getD 0 - 1 = 0 then
        .tryClose (renameId rU u) :: fl_PU L sites (cU.erase u) dead rU xs
      else fl_PU L sites (cU.insert u ((cU.get u).getD 0 - 1)) dead rU xs := by
  by_cases hc : (cU.get u).getD 0 - 1 = 0
  · simp [fl_PU, nonReg, HostCall.isRegister, HostCall.mapMeta, HostCall.widen, HostCall.rootAsCtx,
      rcNormalizeFrom, eraseDisabledFrom, HostCall.subject, h, hc, HostCall.maskParent, renumberFrom]
  · simp [fl_PU, nonReg, HostCall.isRegister, HostCall.mapMeta, HostCall.widen, HostCall.rootAsCtx,
      rcNormalizeFrom, hc]

theorem fl_PU_closeD (u : Nat) (xs : List HostCall) (h : u ∈ dead) :
    fl_PU L sites cU dead rU (.tryClose u :: xs) =
      fl_PU L sites (if (cU.get u).getD 0 - 1 = 0 then cU.erase u
                     else cU.insert u ((cU.get u).getD 0 - 1)) dead rU xs := by
  by_cases hc : (cU.get u).getD 0 - 1 = 0
  · simp [fl_PU, nonReg, HostCall.isRegister, HostCall.mapMeta, HostCall.widen, HostCall.rootAsCtx,
      rcNormalizeFrom, eraseDisabledFrom, HostCall.subject, h, hc]
  · simp [fl_PU, nonReg, HostCall.isRegister, HostCall.mapMeta, HostCall.widen, HostCall.rootAsCtx,
      rcNormalizeFrom, hc]

theorem fl_PF_close (f : Nat) (ys : List HostCall) :
    fl_PF sites cF rF (.tryClose f :: ys) =
      if (cF.get f).getD 0 - 1 = 0 then
        .tryClose (renameId rF f) :: fl_PF sites (cF.erase f) rF ys
      else fl_PF sites (cF.insert f ((cF.get f).getD 0 - 1)) rF ys := by
  by_cases hc : (cF.get f).getD 0 - 1 = 0
  · simp [fl_PF, nonReg, HostCall.isRegister, HostCall.mapMeta, HostCall.widen,
      rcNormalizeFrom, hc, HostCall.maskParent, renumberFrom]
  · simp [fl_PF, nonReg, HostCall.isRegister, HostCall.mapMeta, HostCall.widen,
      rcNormalizeFrom, hc]

end unfold


structure fl_AInv (a : FSt) : Prop where
  bound : ∀ p ∈ a.pairs, p.1 < a.nU ∧ p.2 < a.nF
  inj : ∀ p ∈ a.pairs, ∀ q ∈ a.pairs, (p.1 = q.1 ↔ p.2 = q.2)
  alive : ∀ p ∈ a.pairs, p.1 ∉ a.dead
  deadB : ∀ d ∈ a.dead, d < a.nU
  cnt : ∀ p ∈ a.pairs, a.cU.get p.1 = a.cF.get p.2
  ren : ∀ p ∈ a.pairs, a.rU.get p.1 = a.rF.get p.2
  len : a.rU.length = a.rF.length
  freshU : ∀ x, a.nU ≤ x → a.rU.get x = none
  freshF : ∀ y, a.nF ≤ y → a.rF.get y = none

/-- From state `a`, the unfiltered side consuming `newU` and the filtered side consuming `newF`
    produce the same output and arrive at state `a'`. -/
def fl_Bridge (L : Option Nat) (sites : List CallSite) (a : FSt) (newU newF : List HostCall) (a' : FSt) : Prop :=
  fl_AInv a' ∧ ∀ xs ys, fl_PU L sites a'.cU a'.dead a'.rU xs = fl_PF sites a'.cF a'.rF ys →
    fl_PU L sites a.cU a.dead a.rU (newU ++ xs) = fl_PF sites a.cF a.rF (newF ++ ys)

theorem fl_bridge_refl (L sites) (a : FSt) (hA : fl_AInv a) : fl_Bridge L sites a [] [] a :=
  ⟨hA, fun _ _ h => h⟩

theorem fl_bridge_trans (L sites) (a a' a'' : FSt) (n1 m1 n2 m2 : List HostCall)
    (h1 : fl_Bridge L sites a n1 m1 a') (h2 : fl_Bridge L sites a' n2 m2 a'') :
    fl_Bridge L sites a (n1 ++ n2) (m1 ++ m2) a'' := by
  refine ⟨h2.1, fun xs ys h => ?_⟩
  rw [List.append_assoc, List.append_assoc]
  exact h1.2 _ _ (h2.2 _ _ h)

theorem fl_bridge_regCalls (L sites) (a : FSt) (hA : fl_AInv a) (reg : List Nat) (k : Nat) :
    fl_Bridge L sites a (fl_regCalls reg k) (fl_regCalls reg k) a := by
  refine ⟨hA, fun xs ys h => ?_⟩
  unfold fl_regCalls
  split
  · exact h
  · simp only [List.cons_append, List.nil_append, fl_PU_reg, fl_PF_reg]
    exact h

theorem fl_bridge_reg (L sites) (a : FSt) (hA : fl_AInv a) (k : Nat) :
    fl_Bridge L sites a [.register k] [.register k] a := by
  refine ⟨hA, fun xs ys h => ?_⟩
  simp only [List.cons_append, List.nil_append, fl_PU_reg, fl_PF_reg]
  exact h

theorem fl_rename_eq (a : FSt) (hA : fl_AInv a) (u f : Nat) (hp : (u, f) ∈ a.pairs) :
    renameId a.rU u = renameId a.rF f := by
  unfold renameId
  rw [hA.ren _ hp]

theorem fl_bridge_newEn (L sites) (a : FSt) (hA : fl_AInv a) (k : Nat) (pU pF : HParent) (v : RawVals)
    (h : siteEnabled L sites k = true) :
    fl_Bridge L sites a [.newSpan a.nU k pU v] [.newSpan a.nF k pF v]
      { a with nU := a.nU + 1, nF := a.nF + 1, pairs := (a.nU, a.nF) :: a.pairs,
               cU := a.cU.insert a.nU 1, cF := a.cF.insert a.nF 1,
               rU := a.rU.insert a.nU (a.rU.length + 1), rF := a.rF.insert a.nF (a.rF.length + 1) } := by
  constructor
  · constructor
    · intro p hp
      rcases List.mem_cons.1 hp with rfl | hp
      · exact ⟨Nat.lt_succ_self _, Nat.lt_succ_self _⟩
      · have := hA.bound p hp
        exact ⟨Nat.lt_succ_of_lt this.1, Nat.lt_succ_of_lt this.2⟩
    · intro p hp q hq
      rcases List.mem_cons.1 hp with rfl | hp <;> rcases List.mem_cons.1 hq with rfl | hq
      · simp
      · have := hA.bound q hq
        simp only
        constructor <;> intro e <;> omega
      · have := hA.bound p hp
        simp only
        constructor <;> intro e <;> omega
      · exact hA.inj p hp q hq
    · intro p hp
      rcases List.mem_cons.1 hp with rfl | hp
      · intro hd
        exact Nat.lt_irrefl _ (hA.deadB _ hd)
      · exact hA.alive p hp
    · intro d hd
      exact Nat.lt_succ_of_lt (hA.deadB d hd)
    · intro p hp
      simp only [AMap.get_insert]
      rcases List.mem_cons.1 hp with rfl | hp
      · simp
      · have := hA.bound p hp
        rw [if_neg (by omega), if_neg (by omega)]
        exact hA.cnt p hp
    · intro p hp
      simp only [AMap.get_insert]
      rcases List.mem_cons.1 hp with rfl | hp
      · simp [hA.len]
      · have := hA.bound p hp
        rw [if_neg (by omega), if_neg (by omega)]
        exact hA.ren p hp
    · simp only
      rw [fl_insert_length _ _ _ (hA.freshU _ (Nat.le_refl _)),
        fl_insert_length _ _ _ (hA.freshF _ (Nat.le_refl _)), hA.len]
    · intro x hx
      simp only at hx
      simp only [AMap.get_insert]
      rw [if_neg (by omega)]
      exact hA.freshU x (by omega)
    · intro x hx
      simp only at hx
      simp only [AMap.get_insert]
      rw [if_neg (by omega)]
      exact hA.freshF x (by omega)
  · intro xs ys hxy
    simp only [List.cons_append, List.nil_append]
    rw [fl_PU_newEn L sites _ _ _ _ _ _ _ _ h, fl_PF_new, hA.len]
    simp only [hA.len] at hxy
    rw [hxy]

theorem fl_bridge_newDis (L sites) (a : FSt) (hA : fl_AInv a) (k : Nat) (p : HParent) (v : RawVals)
    (h : siteEnabled L sites k = false) :
    fl_Bridge L sites a [.newSpan a.nU k p v] []
      { a with nU := a.nU + 1, dead := a.nU :: a.dead, cU := a.cU.insert a.nU 1 } := by
  constructor
  · constructor
    · intro p hp
      have := hA.bound p hp
      exact ⟨Nat.lt_succ_of_lt this.1, this.2⟩
    · exact hA.inj
    · intro p hp hd
      rcases List.mem_cons.1 hd with e | hd
      · have := hA.bound p hp
        omega
      · exact hA.alive p hp hd
    · intro d hd
      rcases List.mem_cons.1 hd with rfl | hd
      · exact Nat.lt_succ_self _
      · exact Nat.lt_succ_of_lt (hA.deadB d hd)
    · intro p hp
      simp only [AMap.get_insert]
      have := hA.bound p hp
      rw [if_neg (by omega)]
      exact hA.cnt p hp
    · exact hA.ren
    · exact hA.len
    · intro x hx
      exact hA.freshU x (by simp only at hx; omega)
    · exact hA.freshF
  · intro xs ys hxy
    simp only [List.cons_append, List.nil_append]
    rw [fl_PU_newDis L sites _ _ _ _ _ _ _ _ h]
    exact hxy

theorem fl_ainv_cnt (a : FSt) (hA : fl_AInv a) (cU' cF' : AMap Nat Nat)
    (h : ∀ p ∈ a.pairs, cU'.get p.1 = cF'.get p.2) : fl_AInv { a with cU := cU', cF := cF' } :=
  ⟨hA.bound, hA.inj, hA.alive, hA.deadB, h, hA.ren, hA.len, hA.freshU, hA.freshF⟩

/-- Updating the handle counts of a corresponding pair of ids in the same way. -/
theorem fl_cnt_pair (a : FSt) (hA : fl_AInv a) (u f : Nat) (hp : (u, f) ∈ a.pairs)
    (g : AMap Nat Nat → Nat → AMap Nat Nat) (x : Option Nat)
    (hg : ∀ (m : AMap Nat Nat) (k k' : Nat), (g m k).get k' = if k' = k then x else m.get k') :
    ∀ p ∈ a.pairs, (g a.cU u).get p.1 = (g a.cF f).get p.2 := by
  intro p hq
  rw [hg, hg]
  have hi := hA.inj p hq (u, f) hp
  simp only at hi
  by_cases e : p.1 = u
  · rw [if_pos e, if_pos (hi.1 e)]
  · rw [if_neg e, if_neg (fun e' => e (hi.2 e'))]
    exact hA.cnt p hq

theorem fl_cnt_dead (a : FSt) (hA : fl_AInv a) (d : Nat) (hd : d ∈ a.dead)
    (g : AMap Nat Nat → Nat → AMap Nat Nat) (x : Option Nat)
    (hg : ∀ (m : AMap Nat Nat) (k k' : Nat), (g m k).get k' = if k' = k then x else m.get k') :
    ∀ p ∈ a.pairs, (g a.cU d).get p.1 = a.cF.get p.2 := by
  intro p hq
  rw [hg]
  have : p.1 ≠ d := fun e => hA.alive p hq (e ▸ hd)
  rw [if_neg this]
  exact hA.cnt p hq

section bridge
variable (L : Option Nat) (sites : List CallSite) (a : FSt) (hA : fl_AInv a)
include hA

theorem fl_bridge_record (u f : Nat) (hp : (u, f) ∈ a.pairs) (v : RawVals) :
    fl_Bridge L sites a [.record u v] [.record f v] a := by
  refine ⟨hA, fun xs ys hxy => ?_⟩
  simp only [List.cons_append, List.nil_append]
  rw [fl_PU_record _ _ _ _ _ _ _ _ (hA.alive _ hp), fl_PF_record, fl_rename_eq a hA u f hp, hxy]

theorem fl_bridge_enter (u f : Nat) (hp : (u, f) ∈ a.pairs) :
    fl_Bridge L sites a [.enter u] [.enter f] a := by
  refine ⟨hA, fun xs ys hxy => ?_⟩
  simp only [List.cons_append, List.nil_append]
  rw [fl_PU_enter _ _ _ _ _ _ _ (hA.alive _ hp), fl_PF_enter, fl_rename_eq a hA u f hp, hxy]

theorem fl_bridge_exit (u f : Nat) (hp : (u, f) ∈ a.pairs) :
    fl_Bridge L sites a [.exit u] [.exit f] a := by
  refine ⟨hA, fun xs ys hxy => ?_⟩
  simp only [List.cons_append, List.nil_append]
  rw [fl_PU_exit _ _ _ _ _ _ _ (hA.alive _ hp), fl_PF_exit, fl_rename_eq a hA u f hp, hxy]

theorem fl_bridge_follows (u f u' f' : Nat) (hp : (u, f) ∈ a.pairs) (hp' : (u', f') ∈ a.pairs) :
    fl_Bridge L sites a [.follows u u'] [.follows f f'] a := by
  refine ⟨hA, fun xs ys hxy => ?_⟩
  simp only [List.cons_append, List.nil_append]
  rw [fl_PU_follows _ _ _ _ _ _ _ _ (hA.alive _ hp) (hA.alive _ hp'), fl_PF_follows,
    fl_rename_eq a hA u f hp, fl_rename_eq a hA u' f' hp', hxy]

theorem fl_bridge_recordD (d : Nat) (hd : d ∈ a.dead) (v : RawVals) :
    fl_Bridge L sites a [.record d v] [] a := by
  refine ⟨hA, fun xs ys hxy => ?_⟩
  simp only [List.cons_append, List.nil_append]
  rw [fl_PU_recordD _ _ _ _ _ _ _ _ hd, hxy]

theorem fl_bridge_enterD (d : Nat) (hd : d ∈ a.dead) :
    fl_Bridge L sites a [.enter d] [] a := by
  refine ⟨hA, fun xs ys hxy => ?_⟩
  simp only [List.cons_append, List.nil_append]
  rw [fl_PU_enterD _ _ _ _ _ _ _ hd, hxy]

theorem fl_bridge_exitD (d : Nat) (hd : d ∈ a.dead) :
    fl_Bridge L sites a [.exit d] [] a := by
  refine ⟨hA, fun xs ys hxy => ?_⟩
  simp only [List.cons_append, List.nil_append]
  rw [fl_PU_exitD _ _ _ _ _ _ _ hd, hxy]

theorem fl_bridge_followsD (x y : Nat) (hd : x ∈ a.dead ∨ y ∈ a.dead) :
    fl_Bridge L sites a [.follows x y] [] a := by
  refine ⟨hA, fun xs ys hxy => ?_⟩
  simp only [List.cons_append, List.nil_append]
  rw [fl_PU_followsD _ _ _ _ _ _ _ _ hd, hxy]

theorem fl_bridge_evtEn (k : Nat) (pU pF : HParent) (v : RawVals) (h : siteEnabled L sites k = true) :
    fl_Bridge L sites a [.event k pU v] [.event k pF v] a := by
  refine ⟨hA, fun xs ys hxy => ?_⟩
  simp only [List.cons_append, List.nil_append]
  rw [fl_PU_evtEn _ _ _ _ _ _ _ _ _ h, fl_PF_evt, hxy]

theorem fl_bridge_evtDis (k : Nat) (p : HParent) (v : RawVals) (h : siteEnabled L sites k = false) :
    fl_Bridge L sites a [.event k p v] [] a := by
  refine ⟨hA, fun xs ys hxy => ?_⟩
  simp only [List.cons_append, List.nil_append]
  rw [fl_PU_evtDis _ _ _ _ _ _ _ _ _ h, hxy]

/-- The states reachable by operations that only touch handle counts. -/
def fl_Same (a a' : FSt) : Prop :=
  a'.nU = a.nU ∧ a'.nF = a.nF ∧ a'.pairs = a.pairs ∧ a'.dead = a.dead

omit hA in
theorem fl_same_refl : fl_Same a a := ⟨rfl, rfl, rfl, rfl⟩

theorem fl_bridge_clone (u f : Nat) (hp : (u, f) ∈ a.pairs) :
    ∃ a', fl_Same a a' ∧ fl_Bridge L sites a [.clone u] [.clone f] a' := by
  have hc : (a.cU.get u).getD 0 = (a.cF.get f).getD 0 := by rw [hA.cnt _ hp]
  refine ⟨{ a with cU := a.cU.insert u ((a.cU.get u).getD 0 + 1),
                   cF := a.cF.insert f ((a.cU.get u).getD 0 + 1) }, ⟨rfl, rfl, rfl, rfl⟩, ?_, ?_⟩
  · apply fl_ainv_cnt a hA
    exact fl_cnt_pair a hA u f hp (fun m k => m.insert k ((a.cU.get u).getD 0 + 1)) _
      (fun m k k' => AMap.get_insert m k k' _)
  · intro xs ys hxy
    simp only [List.cons_append, List.nil_append]
    rw [fl_PU_clone, fl_PF_clone, ← hc]
    exact hxy

theorem fl_bridge_cloneD (d : Nat) (hd : d ∈ a.dead) :
    ∃ a', fl_Same a a' ∧ fl_Bridge L sites a [.clone d] [] a' := by
  refine ⟨{ a with cU := a.cU.insert d ((a.cU.get d).getD 0 + 1), cF := a.cF }, ⟨rfl, rfl, rfl, rfl⟩, ?_, ?_⟩
  · apply fl_ainv_cnt a hA
    exact fl_cnt_dead a hA d hd (fun m k => m.insert k ((a.cU.get d).getD 0 + 1)) _
      (fun m k k' => AMap.get_insert m k k' _)
  · intro xs ys hxy
    simp only [List.cons_append, List.nil_append]
    rw [fl_PU_clone]
    exact hxy

theorem fl_bridge_close (u f : Nat) (hp : (u, f) ∈ a.pairs) :
    ∃ a', fl_Same a a' ∧ fl_Bridge L sites a [.tryClose u] [.tryClose f] a' := by
  have hc : (a.cU.get u).getD 0 = (a.cF.get f).getD 0 := by rw [hA.cnt _ hp]
  by_cases h0 : (a.cU.get u).getD 0 - 1 = 0
  · refine ⟨{ a with cU := a.cU.erase u, cF := a.cF.erase f }, ⟨rfl, rfl, rfl, rfl⟩, ?_, ?_⟩
    · apply fl_ainv_cnt a hA
      exact fl_cnt_pair a hA u f hp (fun m k => m.erase k) none (fun m k k' => AMap.get_erase m k k')
    · intro xs ys hxy
      simp only [List.cons_append, List.nil_append]
      rw [fl_PU_close _ _ _ _ _ _ _ (hA.alive _ hp), fl_PF_close, ← hc, if_pos h0, if_pos h0,
        fl_rename_eq a hA u f hp]
      simp only at hxy
      rw [hxy]
  · refine ⟨{ a with cU := a.cU.insert u ((a.cU.get u).getD 0 - 1),
                     cF := a.cF.insert f ((a.cU.get u).getD 0 - 1) }, ⟨rfl, rfl, rfl, rfl⟩, ?_, ?_⟩
    · apply fl_ainv_cnt a hA
      exact fl_cnt_pair a hA u f hp (fun m k => m.insert k ((a.cU.get u).getD 0 - 1)) _
        (fun m k k' => AMap.get_insert m k k' _)
    · intro xs ys hxy
      simp only [List.cons_append, List.nil_append]
      rw [fl_PU_close _ _ _ _ _ _ _ (hA.alive _ hp), fl_PF_close, ← hc, if_neg h0, if_neg h0]
      exact hxy

theorem fl_bridge_closeD (d : Nat) (hd : d ∈ a.dead) :
    ∃ a', fl_Same a a' ∧ fl_Bridge L sites a [.tryClose d] [] a' := by
  refine ⟨{ a with cU := if (a.cU.get d).getD 0 - 1 = 0 then a.cU.erase d
                         else a.cU.insert d ((a.cU.get d).getD 0 - 1), cF := a.cF },
    ⟨rfl, rfl, rfl, rfl⟩, ?_, ?_⟩
  · apply fl_ainv_cnt a hA
    by_cases h0 : (a.cU.get d).getD 0 - 1 = 0
    · rw [if_pos h0]
      exact fl_cnt_dead a hA d hd (fun m k => m.erase k) none (fun m k k' => AMap.get_erase m k k')
    · rw [if_neg h0]
      exact fl_cnt_dead a hA d hd (fun m k => m.insert k ((a.cU.get d).getD 0 - 1)) _
        (fun m k k' => AMap.get_insert m k k' _)
  · intro xs ys hxy
    simp only [List.cons_append, List.nil_append]
    rw [fl_PU_closeD _ _ _ _ _ _ _ hd]
    exact hxy

end bridge


/-- Handles of the two runs: same site; enabled handles carry corresponding ids; a disabled
    handle is `none` in the filtered run and its unfiltered id is dead. -/
def fl_HRel (L : Option Nat) (sites : List CallSite) (pairs : List (Nat × Nat)) (dead : List Nat) :
    Option (Nat × Nat) → Option (Nat × Nat) → Prop
  | none, none => True
  | some (u, k), some (f, k') => k' = k ∧ siteEnabled L sites k = true ∧ (u, f) ∈ pairs
  | some (u, k), none => siteEnabled L sites k = false ∧ u ∈ dead
  | none, some _ => False

theorem fl_hrel_mono (L sites) (pairs pairs' : List (Nat × Nat)) (dead dead' : List Nat)
    (hp : pairs ⊆ pairs') (hd : dead ⊆ dead') (x y : Option (Nat × Nat))
    (h : fl_HRel L sites pairs dead x y) : fl_HRel L sites pairs' dead' x y := by
  cases x with
  | none => cases y with
    | none => trivial
    | some fk => exact h
  | some uk =>
    obtain ⟨u, k⟩ := uk
    cases y with
    | none => exact ⟨h.1, hd h.2⟩
    | some fk =>
      obtain ⟨f, k'⟩ := fk
      exact ⟨h.1, h.2.1, hp h.2.2⟩

structure fl_FInv (L : Option Nat) (sites : List CallSite) (feU feF : FE NativeHost) (a : FSt) : Prop where
  mU : feU.sub.maxLevel = none
  mF : feF.sub.maxLevel = L
  reg : feU.registered = feF.registered
  nU : a.nU = feU.sub.host.next
  nF : a.nF = feF.sub.host.next
  len : feU.handles.length = feF.handles.length
  hs : ∀ s, fl_HRel L sites a.pairs a.dead (feU.handleSite s) (feF.handleSite s)

theorem fl_handles_push {α : Type} (hU hF : List (Option α)) (x y : Option α) (hlen : hU.length = hF.length)
    (R : Option α → Option α → Prop) (hR : ∀ s : Nat, R (hU[s]?).join (hF[s]?).join) (hxy : R x y) :
    ∀ s : Nat, R ((hU ++ [x])[s]?).join ((hF ++ [y])[s]?).join := by
  intro s
  by_cases h1 : s < hU.length
  · rw [List.getElem?_append_left h1, List.getElem?_append_left (hlen ▸ h1)]
    exact hR s
  · by_cases h2 : s = hU.length
    · subst h2
      have e1 : (hU ++ [x])[hU.length]? = some x := by simp
      have e2 : (hF ++ [y])[hU.length]? = some y := by rw [hlen]; simp
      rw [e1, e2]
      exact hxy
    · have e1 : (hU ++ [x])[s]? = none := by
        apply List.getElem?_eq_none; simp; omega
      have e2 : (hF ++ [y])[s]? = none := by
        apply List.getElem?_eq_none; simp; omega
      have e3 : hU[s]? = none := List.getElem?_eq_none (by omega)
      have e4 : hF[s]? = none := List.getElem?_eq_none (by omega)
      have := hR s
      rw [e3, e4] at this
      rw [e1, e2]
      exact this

def fl_StepOK (L : Option Nat) (sites : List CallSite) (feU feF : FE NativeHost) (a : FSt)
    (rU rF : FE NativeHost) : Prop :=
  ∃ newU newF a', rU.sub.host.log = newU.reverse ++ feU.sub.host.log ∧
    rF.sub.host.log = newF.reverse ++ feF.sub.host.log ∧
    fl_FInv L sites rU rF a' ∧ fl_Bridge L sites a newU newF a'

theorem fl_finish_same (L sites) (feU feF : FE NativeHost) (a : FSt) (hF : fl_FInv L sites feU feF a)
    (rU rF : FE NativeHost) (newU newF : List HostCall) (regU regF : List Nat)
    (pU : fl_Post feU rU newU 0 [] regU) (pF : fl_Post feF rF newF 0 [] regF) (hreg : regU = regF)
    (a' : FSt) (hS : fl_Same a a') (hB : fl_Bridge L sites a newU newF a') :
    fl_StepOK L sites feU feF a rU rF := by
  obtain ⟨u1, u2, u3, u4, u5⟩ := pU
  obtain ⟨f1, f2, f3, f4, f5⟩ := pF
  obtain ⟨s1, s2, s3, s4⟩ := hS
  refine ⟨newU, newF, a', u1, f1, ⟨?_, ?_, ?_, ?_, ?_, ?_, ?_⟩, hB⟩
  · rw [u3, hF.mU]
  · rw [f3, hF.mF]
  · rw [u5, f5, hreg]
  · rw [s1, u2, hF.nU]; rfl
  · rw [s2, f2, hF.nF]; rfl
  · rw [u4, f4]; simpa using hF.len
  · intro s
    have := hF.hs s
    simp only [FE.handleSite] at this ⊢
    rw [u4, f4, s3, s4]
    simpa using this

theorem fl_finish_push (L sites) (feU feF : FE NativeHost) (a : FSt) (hF : fl_FInv L sites feU feF a)
    (rU rF : FE NativeHost) (newU newF : List HostCall) (dnU dnF : Nat) (x y : Option (Nat × Nat))
    (regU regF : List Nat)
    (pU : fl_Post feU rU newU dnU [x] regU) (pF : fl_Post feF rF newF dnF [y] regF) (hreg : regU = regF)
    (a' : FSt) (hnU : a'.nU = a.nU + dnU) (hnF : a'.nF = a.nF + dnF)
    (hp : a.pairs ⊆ a'.pairs) (hd : a.dead ⊆ a'.dead) (hxy : fl_HRel L sites a'.pairs a'.dead x y)
    (hB : fl_Bridge L sites a newU newF a') :
    fl_StepOK L sites feU feF a rU rF := by
  obtain ⟨u1, u2, u3, u4, u5⟩ := pU
  obtain ⟨f1, f2, f3, f4, f5⟩ := pF
  refine ⟨newU, newF, a', u1, f1, ⟨?_, ?_, ?_, ?_, ?_, ?_, ?_⟩, hB⟩
  · rw [u3, hF.mU]
  · rw [f3, hF.mF]
  · rw [u5, f5, hreg]
  · rw [hnU, u2, hF.nU]
  · rw [hnF, f2, hF.nF]
  · rw [u4, f4]; simpa using hF.len
  · simp only [FE.handleSite]
    rw [u4, f4]
    apply fl_handles_push _ _ _ _ hF.len _ _ hxy
    intro s
    exact fl_hrel_mono L sites _ _ _ _ hp hd _ _ (hF.hs s)

theorem fl_enabledU (sites : List CallSite) (feU : FE NativeHost) (h : feU.sub.maxLevel = none) (k : Nat) :
    levelEnabled feU.sub.maxLevel (sites.getD k default) = true := by
  rw [h]; rfl

/-- One program operation, both runs in lock step. -/
theorem fl_step (L : Option Nat) (sites : List CallSite) (feU feF : FE NativeHost) (a : FSt) (op : POp)
    (hF : fl_FInv L sites feU feF a) (hA : fl_AInv a) :
    fl_StepOK L sites feU feF a (feStep nativeSub sites feU op) (feStep nativeSub sites feF op) := by
  have hEF : ∀ k, levelEnabled feF.sub.maxLevel (sites.getD k default) = siteEnabled L sites k := by
    intro k; rw [hF.mF]; rfl
  cases op with
  | reg k =>
    exact fl_finish_same L sites feU feF a hF _ _ _ _ _ _ (fl_fe_reg sites feU k) (fl_fe_reg sites feF k)
      (by rw [hF.reg]) a (fl_same_refl a) (fl_bridge_reg L sites a hA k)
  | new k p vals =>
    have pU := fl_fe_new_en sites feU k p vals (fl_enabledU sites feU hF.mU k)
    cases he : siteEnabled L sites k with
    | true =>
      have pF := fl_fe_new_en sites feF k p vals (by rw [hEF, he])
      have hB := fl_bridge_trans L sites _ _ _ _ _ _ _ (fl_bridge_regCalls L sites a hA feU.registered k)
        (fl_bridge_newEn L sites a hA k (fl_par sites feU k p) (fl_par sites feF k p)
          (presentRaw (fieldsOf (sites.getD k default) vals)) he)
      rw [hF.nU, hF.nF] at hB
      rw [← hF.reg] at pF
      refine fl_finish_push L sites feU feF a hF _ _ _ _ _ _ _ _ _ _ pU pF rfl _ (by rw [hF.nU]) (by rw [hF.nF]) ?_ ?_ ?_ hB
      · exact fun x hx => List.mem_cons_of_mem _ hx
      · exact fun x hx => hx
      · exact ⟨rfl, he, List.mem_cons_self⟩
    | false =>
      have pF := fl_fe_new_dis sites feF k p vals (by rw [hEF, he])
      have hB := fl_bridge_trans L sites _ _ _ _ _ _ _ (fl_bridge_regCalls L sites a hA feU.registered k)
        (fl_bridge_newDis L sites a hA k (fl_par sites feU k p)
          (presentRaw (fieldsOf (sites.getD k default) vals)) he)
      rw [hF.nU, List.append_nil] at hB
      rw [← hF.reg] at pF
      refine fl_finish_push L sites feU feF a hF _ _ _ _ _ _ _ _ _ _ pU pF rfl _ (by rw [hF.nU]) (by rfl) ?_ ?_ ?_ hB
      · exact fun x hx => hx
      · exact fun x hx => List.mem_cons_of_mem _ hx
      · exact ⟨he, List.mem_cons_self⟩
  | evt k p vals =>
    have pU := fl_fe_evt_en sites feU k p vals (fl_enabledU sites feU hF.mU k)
    cases he : siteEnabled L sites k with
    | true =>
      have pF := fl_fe_evt_en sites feF k p vals (by rw [hEF, he])
      have hB := fl_bridge_trans L sites _ _ _ _ _ _ _ (fl_bridge_regCalls L sites a hA feU.registered k)
        (fl_bridge_evtEn L sites a hA k (fl_par sites feU k p) (fl_par sites feF k p)
          (presentRaw (fieldsOf (sites.getD k default) vals)) he)
      rw [← hF.reg] at pF
      exact fl_finish_same L sites feU feF a hF _ _ _ _ _ _ pU pF rfl a (fl_same_refl a) hB
    | false =>
      have pF := fl_fe_evt_dis sites feF k p vals (by rw [hEF, he])
      have hB := fl_bridge_trans L sites _ _ _ _ _ _ _ (fl_bridge_regCalls L sites a hA feU.registered k)
        (fl_bridge_evtDis L sites a hA k (fl_par sites feU k p)
          (presentRaw (fieldsOf (sites.getD k default) vals)) he)
      rw [List.append_nil] at hB
      rw [← hF.reg] at pF
      exact fl_finish_same L sites feU feF a hF _ _ _ _ _ _ pU pF rfl a (fl_same_refl a) hB
  | record s vals =>
    have hr := hF.hs s
    cases hU : feU.handleSite s with
    | none =>
      cases hFh : feF.handleSite s with
      | none =>
        exact fl_finish_same L sites feU feF a hF _ _ _ _ _ _ (fl_fe_record_none sites feU s vals hU)
          (fl_fe_record_none sites feF s vals hFh) hF.reg a (fl_same_refl a) (fl_bridge_refl L sites a hA)
      | some fk => rw [hU, hFh] at hr; exact hr.elim
    | some uk =>
      obtain ⟨u, k⟩ := uk
      cases hFh : feF.handleSite s with
      | none =>
        rw [hU, hFh] at hr
        exact fl_finish_same L sites feU feF a hF _ _ _ _ _ _ (fl_fe_record_some sites feU s vals u k hU)
          (fl_fe_record_none sites feF s vals hFh) hF.reg a (fl_same_refl a)
          (fl_bridge_recordD L sites a hA u hr.2 _)
      | some fk =>
        obtain ⟨f, k'⟩ := fk
        rw [hU, hFh] at hr
        obtain ⟨rfl, _, hp⟩ := hr
        exact fl_finish_same L sites feU feF a hF _ _ _ _ _ _ (fl_fe_record_some sites feU s vals u _ hU)
          (fl_fe_record_some sites feF s vals f _ hFh) hF.reg a (fl_same_refl a)
          (fl_bridge_record L sites a hA u f hp _)
  | ent s =>
    have hr := hF.hs s
    cases hU : feU.handleSite s with
    | none =>
      cases hFh : feF.handleSite s with
      | none =>
        exact fl_finish_same L sites feU feF a hF _ _ _ _ _ _ (fl_fe_ent_none sites feU s hU)
          (fl_fe_ent_none sites feF s hFh) hF.reg a (fl_same_refl a) (fl_bridge_refl L sites a hA)
      | some fk => rw [hU, hFh] at hr; exact hr.elim
    | some uk =>
      obtain ⟨u, k⟩ := uk
      cases hFh : feF.handleSite s with
      | none =>
        rw [hU, hFh] at hr
        exact fl_finish_same L sites feU feF a hF _ _ _ _ _ _ (fl_fe_ent_some sites feU s u k hU)
          (fl_fe_ent_none sites feF s hFh) hF.reg a (fl_same_refl a)
          (fl_bridge_enterD L sites a hA u hr.2)
      | some fk =>
        obtain ⟨f, k'⟩ := fk
        rw [hU, hFh] at hr
        obtain ⟨rfl, _, hp⟩ := hr
        exact fl_finish_same L sites feU feF a hF _ _ _ _ _ _ (fl_fe_ent_some sites feU s u _ hU)
          (fl_fe_ent_some sites feF s f _ hFh) hF.reg a (fl_same_refl a)
          (fl_bridge_enter L sites a hA u f hp)
  | ext s =>
    have hr := hF.hs s
    cases hU : feU.handleSite s with
    | none =>
      cases hFh : feF.handleSite s with
      | none =>
        exact fl_finish_same L sites feU feF a hF _ _ _ _ _ _ (fl_fe_ext_none sites feU s hU)
          (fl_fe_ext_none sites feF s hFh) hF.reg a (fl_same_refl a) (fl_bridge_refl L sites a hA)
      | some fk => rw [hU, hFh] at hr; exact hr.elim
    | some uk =>
      obtain ⟨u, k⟩ := uk
      cases hFh : feF.handleSite s with
      | none =>
        rw [hU, hFh] at hr
        exact fl_finish_same L sites feU feF a hF _ _ _ _ _ _ (fl_fe_ext_some sites feU s u k hU)
          (fl_fe_ext_none sites feF s hFh) hF.reg a (fl_same_refl a)
          (fl_bridge_exitD L sites a hA u hr.2)
      | some fk =>
        obtain ⟨f, k'⟩ := fk
        rw [hU, hFh] at hr
        obtain ⟨rfl, _, hp⟩ := hr
        exact fl_finish_same L sites feU feF a hF _ _ _ _ _ _ (fl_fe_ext_some sites feU s u _ hU)
          (fl_fe_ext_some sites feF s f _ hFh) hF.reg a (fl_same_refl a)
          (fl_bridge_exit L sites a hA u f hp)
  | drp s =>
    have hr := hF.hs s
    cases hU : feU.handleSite s with
    | none =>
      cases hFh : feF.handleSite s with
      | none =>
        exact fl_finish_same L sites feU feF a hF _ _ _ _ _ _ (fl_fe_drp_none sites feU s hU)
          (fl_fe_drp_none sites feF s hFh) hF.reg a (fl_same_refl a) (fl_bridge_refl L sites a hA)
      | some fk => rw [hU, hFh] at hr; exact hr.elim
    | some uk =>
      obtain ⟨u, k⟩ := uk
      cases hFh : feF.handleSite s with
      | none =>
        rw [hU, hFh] at hr
        obtain ⟨a', hS, hB⟩ := fl_bridge_closeD L sites a hA u hr.2
        exact fl_finish_same L sites feU feF a hF _ _ _ _ _ _ (fl_fe_drp_some sites feU s u k hU)
          (fl_fe_drp_none sites feF s hFh) hF.reg a' hS hB
      | some fk =>
        obtain ⟨f, k'⟩ := fk
        rw [hU, hFh] at hr
        obtain ⟨rfl, _, hp⟩ := hr
        obtain ⟨a', hS, hB⟩ := fl_bridge_close L sites a hA u f hp
        exact fl_finish_same L sites feU feF a hF _ _ _ _ _ _ (fl_fe_drp_some sites feU s u _ hU)
          (fl_fe_drp_some sites feF s f _ hFh) hF.reg a' hS hB
  | cln s =>
    have hr := hF.hs s
    cases hU : feU.handleSite s with
    | none =>
      cases hFh : feF.handleSite s with
      | none =>
        exact fl_finish_push L sites feU feF a hF _ _ _ _ _ _ _ _ _ _ (fl_fe_cln_none sites feU s hU)
          (fl_fe_cln_none sites feF s hFh) hF.reg a rfl rfl (fun x hx => hx) (fun x hx => hx) trivial
          (fl_bridge_refl L sites a hA)
      | some fk => rw [hU, hFh] at hr; exact hr.elim
    | some uk =>
      obtain ⟨u, k⟩ := uk
      cases hFh : feF.handleSite s with
      | none =>
        rw [hU, hFh] at hr
        obtain ⟨a', ⟨s1, s2, s3, s4⟩, hB⟩ := fl_bridge_cloneD L sites a hA u hr.2
        refine fl_finish_push L sites feU feF a hF _ _ _ _ _ _ _ _ _ _ (fl_fe_cln_some sites feU s u k hU)
          (fl_fe_cln_none sites feF s hFh) hF.reg a' s1 s2 (by rw [s3]; exact fun x hx => hx)
          (by rw [s4]; exact fun x hx => hx) ?_ hB
        rw [s3, s4]; exact hr
      | some fk =>
        obtain ⟨f, k'⟩ := fk
        rw [hU, hFh] at hr
        obtain ⟨a', ⟨s1, s2, s3, s4⟩, hB⟩ := fl_bridge_clone L sites a hA u f hr.2.2
        refine fl_finish_push L sites feU feF a hF _ _ _ _ _ _ _ _ _ _ (fl_fe_cln_some sites feU s u k hU)
          (fl_fe_cln_some sites feF s f k' hFh) hF.reg a' s1 s2 (by rw [s3]; exact fun x hx => hx)
          (by rw [s4]; exact fun x hx => hx) ?_ hB
        rw [s3, s4]; exact hr
  | fol s t =>
    have hrs := hF.hs s
    have hrt := hF.hs t
    cases hUs : feU.handleSite s with
    | none =>
      cases hFs : feF.handleSite s with
      | none =>
        exact fl_finish_same L sites feU feF a hF _ _ _ _ _ _ (fl_fe_fol_none sites feU s t (Or.inl hUs))
          (fl_fe_fol_none sites feF s t (Or.inl hFs)) hF.reg a (fl_same_refl a) (fl_bridge_refl L sites a hA)
      | some fk => rw [hUs, hFs] at hrs; exact hrs.elim
    | some uk =>
      obtain ⟨u, k⟩ := uk
      cases hUt : feU.handleSite t with
      | none =>
        cases hFt : feF.handleSite t with
        | none =>
          exact fl_finish_same L sites feU feF a hF _ _ _ _ _ _ (fl_fe_fol_none sites feU s t (Or.inr hUt))
            (fl_fe_fol_none sites feF s t (Or.inr hFt)) hF.reg a (fl_same_refl a) (fl_bridge_refl L sites a hA)
        | some fk => rw [hUt, hFt] at hrt; exact hrt.elim
      | some uk' =>
        obtain ⟨u', k'⟩ := uk'
        have pU := fl_fe_fol_some sites feU s t u k u' k' hUs hUt
        cases hFs : feF.handleSite s with
        | none =>
          rw [hUs, hFs] at hrs
          exact fl_finish_same L sites feU feF a hF _ _ _ _ _ _ pU
            (fl_fe_fol_none sites feF s t (Or.inl hFs)) hF.reg a (fl_same_refl a)
            (fl_bridge_followsD L sites a hA u u' (Or.inl hrs.2))
        | some fk =>
          obtain ⟨f, kf⟩ := fk
          rw [hUs, hFs] at hrs
          cases hFt : feF.handleSite t with
          | none =>
            rw [hUt, hFt] at hrt
            exact fl_finish_same L sites feU feF a hF _ _ _ _ _ _ pU
              (fl_fe_fol_none sites feF s t (Or.inr hFt)) hF.reg a (fl_same_refl a)
              (fl_bridge_followsD L sites a hA u u' (Or.inr hrt.2))
          | some fk' =>
            obtain ⟨f', kf'⟩ := fk'
            rw [hUt, hFt] at hrt
            exact fl_finish_same L sites feU feF a hF _ _ _ _ _ _ pU
              (fl_fe_fol_some sites feF s t f kf f' kf' hFs hFt) hF.reg a (fl_same_refl a)
              (fl_bridge_follows L sites a hA u f u' f' hrs.2.2 hrt.2.2)

theorem fl_run (L : Option Nat) (sites : List CallSite) (ops : List POp) :
    ∀ (feU feF : FE NativeHost) (a : FSt), fl_FInv L sites feU feF a → fl_AInv a →
      ∃ outU outF, (runProg nativeSub sites feU ops).sub.host.log = outU.reverse ++ feU.sub.host.log ∧
        (runProg nativeSub sites feF ops).sub.host.log = outF.reverse ++ feF.sub.host.log ∧
        fl_PU L sites a.cU a.dead a.rU outU = fl_PF sites a.cF a.rF outF := by
  induction ops with
  | nil =>
    intro feU feF a _ _
    exact ⟨[], [], rfl, rfl, rfl⟩
  | cons op ops ih =>
    intro feU feF a hF hA
    obtain ⟨newU, newF, a', hlU, hlF, hF', hB⟩ := fl_step L sites feU feF a op hF hA
    obtain ⟨outU, outF, hoU, hoF, heq⟩ := ih _ _ a' hF' hB.1
    refine ⟨newU ++ outU, newF ++ outF, ?_, ?_, hB.2 _ _ heq⟩
    · simp only [runProg, List.foldl_cons] at hoU ⊢
      rw [hoU, hlU]; simp
    · simp only [runProg, List.foldl_cons] at hoF ⊢
      rw [hoF, hlF]; simp

/-- Every span and event the host enables is delivered with its call site, values and
    enter/exit/close history, in order. -/
theorem C13_faithful (maxLevel : Option Nat) (arena sites : List CallSite) (ops : List POp)
    (hwf : wfProg sites ops = true) (hs : sitesDistinct sites) (hb : spansCreated ops < 2^32 - 1) :
    renumberFrom [] ((eraseDisabledFrom maxLevel sites [] (tunnelLog arena sites ops)).map (·.maskParent))
      = renumberFrom [] ((rcNormalizeFrom [] ((nativeLogFiltered maxLevel sites ops).map (·.widen))).map (·.maskParent)) := by
  rw [C01_log_simulation arena sites ops hwf hs hb]
  have h0F : fl_FInv maxLevel sites { sub := ({ maxLevel := none } : NativeHost) }
      { sub := ({ maxLevel } : NativeHost) } ⟨1, 1, [], [], [], [], [], []⟩ :=
    ⟨rfl, rfl, rfl, rfl, rfl, rfl, fun s => by simp [FE.handleSite, fl_HRel]⟩
  have h0A : fl_AInv ⟨1, 1, [], [], [], [], [], []⟩ :=
    ⟨fun _ h => absurd h List.not_mem_nil, fun _ h _ _ => absurd h List.not_mem_nil,
      fun _ h => absurd h List.not_mem_nil, fun _ h => absurd h List.not_mem_nil,
      fun _ h => absurd h List.not_mem_nil, fun _ h => absurd h List.not_mem_nil, rfl,
      fun _ _ => rfl, fun _ _ => rfl⟩
  obtain ⟨outU, outF, hU, hF, heq⟩ := fl_run maxLevel sites ops _ _ _ h0F h0A
  have eU : (nativeRun none sites ops).log.reverse = outU := by
    unfold nativeRun
    rw [hU]; simp
  have eF : (nativeRun maxLevel sites ops).log.reverse = outF := by
    unfold nativeRun
    rw [hF]; simp
  unfold nativeLog nativeLogFiltered
  rw [eU, eF]
  exact heq

/-- Non-vacuity: an enabled child of a disabled parent, an enabled event inside a disabled span,
    clones and closes, under a host filtered at INFO. -/
example :
    let si : CallSite := ⟨.span, [105], [97], .info, none, none, none, [[102]]⟩
    let sd : CallSite := ⟨.span, [100], [97], .debug, none, none, none, []⟩
    let ei : CallSite := ⟨.event, [101], [97], .warn, none, none, none, []⟩
    let ed : CallSite := ⟨.event, [102], [97], .trace, none, none, none, []⟩
    let sites := [si, sd, ei, ed]
    let ops : List POp := [.new 1 .ctx [], .ent 0, .new 0 (.handle 0) [(0, some (.i64 3))], .ent 1, .evt 2 .ctx [],
      .evt 3 .ctx [], .cln 1, .fol 1 0, .ext 1, .drp 1, .ext 0, .drp 0, .drp 2]
    wfProg sites ops = true ∧
    renumberFrom [] ((eraseDisabledFrom (some 2) sites [] (tunnelLog [] sites ops)).map (·.maskParent))
      = renumberFrom [] ((rcNormalizeFrom [] ((nativeLogFiltered (some 2) sites ops).map (·.widen))).map (·.maskParent)) ∧
    (eraseDisabledFrom (some 2) sites [] (tunnelLog [] sites ops)).length = 5 := by
  decide

end TT
