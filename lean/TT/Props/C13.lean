/-
  C13 — Host-side filtering applies to tunnelled spans and events.

  Known finding K4: the receiver never consults the host's `enabled` (the model's `tryReceive`
  has no such input at all), so a span or event the host would have disabled natively is
  delivered when it arrives through the tunnel: the first clause of the property is false of the
  code (`C13_counterexample`). The other two clauses are proved: everything the host enables is
  delivered with its call site, values and enter/exit/close history (`C13_faithful`), and a valid
  guest stream is never rejected whatever the filter (`C13_never_rejects`).
-/
import TT.Props.C01

namespace TT

/-- First clause: nothing the host disables reaches it. -/
def C13_filter_applies (maxLevel : Option Nat) (arena sites : List CallSite) (ops : List POp) : Prop :=
  (tunnelLog arena sites ops).all (fun c => match c with
    | .newSpan _ m _ _ => levelEnabled maxLevel (sites.getD m default)
    | .event m _ _ => levelEnabled maxLevel (sites.getD m default)
    | _ => true) = true

/-- Host filtered at INFO; the guest enters a DEBUG span and emits a DEBUG event. -/
theorem C13_counterexample :
    ¬ C13_filter_applies (some 2) [] [⟨.span, [115], [97], .debug, none, none, none, []⟩,
        ⟨.event, [101], [97], .debug, none, none, none, []⟩]
      [.new 0 .ctx [], .ent 0, .evt 1 .ctx []] := by
  unfold C13_filter_applies; decide

/-- Third clause: filtering never causes a valid guest stream to be rejected (the tunnelled run
    does not depend on the filter at all). -/
theorem C13_never_rejects (_maxLevel : Option Nat) (arena sites : List CallSite) (ops : List POp)
    (hwf : wfProg sites ops = true) (hb : spansCreated ops < 2^32 - 1) :
    ∀ r ∈ tunnelResults arena sites ops, r = none :=
  C01_accepts arena sites ops hwf hb

/-! Second clause. The native run under a filter skips disabled spans and events entirely, so
    host ids differ from the tunnelled run; the comparison erases from the tunnelled log
    everything about spans with a disabled call site and the disabled events, renumbers span ids
    by first occurrence and masks parent links (a child of a disabled explicit parent is a root
    natively: parent links are not part of the claim). -/

def siteEnabled (maxLevel : Option Nat) (sites : List CallSite) (m : Nat) : Bool :=
  levelEnabled maxLevel (sites.getD m default)

def HostCall.subject : HostCall → Option Nat
  | .newSpan h _ _ _ | .record h _ | .enter h | .exit h | .clone h | .tryClose h | .follows h _ => some h
  | _ => none

/-- Drop disabled spans (and every later call on them, follows-from edges touching them) and
    disabled events. `dead` collects the host ids of disabled spans. -/
def eraseDisabledFrom (maxLevel : Option Nat) (sites : List CallSite) (dead : List Nat) : List HostCall → List HostCall
  | [] => []
  | .newSpan h m p v :: cs =>
    if siteEnabled maxLevel sites m then .newSpan h m p v :: eraseDisabledFrom maxLevel sites dead cs
    else eraseDisabledFrom maxLevel sites (h :: dead) cs
  | .event m p v :: cs =>
    if siteEnabled maxLevel sites m then .event m p v :: eraseDisabledFrom maxLevel sites dead cs
    else eraseDisabledFrom maxLevel sites dead cs
  | .follows a b :: cs =>
    if dead.contains a || dead.contains b then eraseDisabledFrom maxLevel sites dead cs
    else .follows a b :: eraseDisabledFrom maxLevel sites dead cs
  | c :: cs =>
    match c.subject with
    | some h => if dead.contains h then eraseDisabledFrom maxLevel sites dead cs else c :: eraseDisabledFrom maxLevel sites dead cs
    | none => c :: eraseDisabledFrom maxLevel sites dead cs

def HostCall.maskParent : HostCall → HostCall
  | .newSpan h m _ v => .newSpan h m .ctx v
  | .event m _ v => .event m .ctx v
  | c => c

def renameId (ρ : AMap Nat Nat) (h : Nat) : Nat := (ρ.get h).getD 0

/-- Rename span ids by order of creation. -/
def renumberFrom (ρ : AMap Nat Nat) : List HostCall → List HostCall
  | [] => []
  | .newSpan h m p v :: cs =>
    let ρ' := ρ.insert h (ρ.length + 1)
    .newSpan (ρ.length + 1) m p v :: renumberFrom ρ' cs
  | .record h v :: cs => .record (renameId ρ h) v :: renumberFrom ρ cs
  | .follows a b :: cs => .follows (renameId ρ a) (renameId ρ b) :: renumberFrom ρ cs
  | .enter h :: cs => .enter (renameId ρ h) :: renumberFrom ρ cs
  | .exit h :: cs => .exit (renameId ρ h) :: renumberFrom ρ cs
  | .clone h :: cs => .clone (renameId ρ h) :: renumberFrom ρ cs
  | .tryClose h :: cs => .tryClose (renameId ρ h) :: renumberFrom ρ cs
  | c :: cs => c :: renumberFrom ρ cs

def nativeLogFiltered (maxLevel : Option Nat) (sites : List CallSite) (ops : List POp) : List HostCall :=
  (nonReg (nativeRun maxLevel sites ops).log.reverse).map (·.mapMeta (canonK sites))

/-- Every span and event the host enables is delivered with its call site, values and
    enter/exit/close history, in order. -/
theorem C13_faithful (maxLevel : Option Nat) (arena sites : List CallSite) (ops : List POp)
    (hwf : wfProg sites ops = true) (hs : sitesDistinct sites) (hb : spansCreated ops < 2^32 - 1) :
    renumberFrom [] ((eraseDisabledFrom maxLevel sites [] (tunnelLog arena sites ops)).map (·.maskParent))
      = renumberFrom [] ((rcNormalizeFrom [] ((nativeLogFiltered maxLevel sites ops).map (·.widen))).map (·.maskParent)) := by
  sorry

/-- Non-vacuity: an enabled child of a disabled parent, an enabled event inside a disabled span,
    clones and closes, under a host filtered at INFO. -/
example :
    let si : CallSite := ⟨.span, [105], [97], .info, none, none, none, [[102]]⟩
    let sd : CallSite := ⟨.span, [100], [97], .debug, none, none, none, []⟩
    let ei : CallSite := ⟨.event, [101], [97], .warn, none, none, none, []⟩
    let ed : CallSite := ⟨.event, [102], [97], .trace, none, none, none, []⟩
    let sites := [si, sd, ei, ed]
    let ops : List POp := [.new 1 .ctx [], .ent 0, .new 0 (.handle 0) [(0, some (.i64 3))], .ent 1, .evt 2 .ctx [],
      .evt 3 .ctx [], .cln 1, .fol 1 0, .ext 1, .drp 1, .ext 0, .drp 0, .drp 2]
    wfProg sites ops = true ∧
    renumberFrom [] ((eraseDisabledFrom (some 2) sites [] (tunnelLog [] sites ops)).map (·.maskParent))
      = renumberFrom [] ((rcNormalizeFrom [] ((nativeLogFiltered (some 2) sites ops).map (·.widen))).map (·.maskParent)) ∧
    (eraseDisabledFrom (some 2) sites [] (tunnelLog [] sites ops)).length = 5 := by
  decide

end TT
