/-
  C04 — Persist commits, drop rolls back, and the host's span context is always restored.

  Model of the repaired code (enter counts, `fix:` 7736dfc). The host's span stack is the
  Registry-style stack of TT/Model/Receiver.lean. Well-formedness of the guest stream enters in
  one place only: the last handle of a span is not dropped while the span is entered
  (`wfDrops`); everything else holds for arbitrary event sequences, nested, re-entrant and
  non-LIFO enters included.
-/
import TT.Lemmas.RecvSim

namespace TT

/-- Ids on the host's stack were issued by it. -/
def HostFresh (host : Host) : Prop := ∀ e ∈ host.stack, e.1 < host.next

/-- The stack the host had before the chain processed anything; a host restart starts from an
    empty stack. -/
def baseAfter (B : List (Nat × Bool)) : List HOp → List (Nat × Bool)
  | [] => B
  | .persist .loseNew :: ops => baseAfter [] ops
  | _ :: ops => baseAfter B ops

def lastHandle (σ : Sigma) (id : Nat) : Bool :=
  match σ.r.spans.get id with
  | some d => d.refCount == 1
  | none => false

/-- The guest never drops the last handle of a span that is currently entered. -/
def wfDrops (s : Sys) : List HOp → Bool
  | [] => true
  | op :: ops =>
    (match op with
      | .ev (.dropped id) => !(lastHandle s.σ id && s.σ.r.entered.contains id)
      | _ => true) && wfDrops (s.step op) ops

/-- Calls made between two host states (newest first). -/
def newCalls (before after : Host) : List HostCall := after.log.take (after.log.length - before.log.length)

/-- Whenever a receiver is persisted or dropped — after any history, at any prefix of the stream,
    with arbitrarily nested or re-entrant enters — the host's span stack is what it was before
    the chain processed anything. -/
theorem C04_stack_restored (w₀ : World) (hf : HostFresh w₀.host) (ops : List HOp)
    (hwf : wfDrops (Sys.init w₀) ops = true) :
    let s := runHistory (Sys.init w₀) ops
    (persist s.σ).2.2.host.stack = baseAfter w₀.host.stack ops ∧
    (dropR s.σ).host.stack = baseAfter w₀.host.stack ops := by
  sorry

/-- Persisting closes nothing: it only force-exits. -/
theorem C04_persist_closes_nothing (σ : Sigma) :
    ∀ c ∈ newCalls σ.w.host (persist σ).2.2.host, ∃ h, c = .exit h := by
  sorry

/-- Dropping without persisting closes exactly the host spans of the uncommitted guest spans,
    once each, and nothing else. -/
theorem C04_drop_closes_uncommitted (σ : Sigma) :
    (newCalls σ.w.host (dropR σ).host).reverse.filterMap (fun c => match c with | .tryClose h => some h | _ => none)
      = σ.r.uncommitted.filterMap (σ.r.loc.get ·) ∧
    ∀ c ∈ newCalls σ.w.host (dropR σ).host, (∃ h, c = .exit h) ∨ (∃ h, c = .tryClose h) := by
  sorry

/-- The uncommitted set is exactly: born in this lifetime and still alive. It starts empty in
    every lifetime, grows by the id of an accepted `new_span`, shrinks by the id whose last handle
    is dropped, and is otherwise untouched; its members are alive and listed once. -/
theorem C04_uncommitted_starts_empty (pm : PersistedMeta) (ps : PersistedSpans) (loc : AMap Nat Nat) (w : World) :
    (restore pm ps loc w).r.uncommitted = [] ∧ (Sys.init w).σ.r.uncommitted = [] := by
  sorry

theorem C04_uncommitted_step (σ σ' : Sigma) (e : Event) (h : tryReceive σ e = .ok σ') :
    σ'.r.uncommitted = match e with
      | .newSpan id _ _ _ => ASet.insert σ.r.uncommitted id
      | .dropped id => if lastHandle σ id then ASet.erase σ.r.uncommitted id else σ.r.uncommitted
      | _ => σ.r.uncommitted := by
  sorry

theorem C04_uncommitted_alive_once (w₀ : World) (ops : List HOp) :
    let s := runHistory (Sys.init w₀) ops
    s.σ.r.uncommitted.Nodup ∧ ∀ g ∈ s.σ.r.uncommitted, s.σ.r.spans.contains g = true := by
  sorry

/-- Non-vacuity: re-entrant and nested enters on top of a pre-existing host span, then abort. -/
example :
    let d : CallSite := ⟨.span, [110], [97], .info, none, none, none, []⟩
    let w₀ : World := { host := ({} : Host).pushBase }
    let ops : List HOp := [.ev (.newCallSite 7 d), .ev (.newSpan 1 none 7 []), .ev (.newSpan 2 none 7 []),
      .ev (.entered 1), .ev (.entered 2), .ev (.entered 1), .ev (.exited 2)]
    let s := runHistory (Sys.init w₀) ops
    wfDrops (Sys.init w₀) ops = true ∧ s.σ.w.host.stack = [(2, true), (2, false), (1, false)] ∧
    (dropR s.σ).host.stack = [(1, false)] ∧ (persist s.σ).2.2.host.stack = [(1, false)] := by
  decide

end TT
