/-
  C04 — Persist commits, drop rolls back, and the host's span context is always restored.

  Model of the repaired code (enter counts, `fix:` 7736dfc). The host's span stack is the
  Registry-style stack of TT/Model/Receiver.lean. Well-formedness of the guest stream enters in
  one place only: the last handle of a span is not dropped while the span is entered
  (`wfDrops`); everything else holds for arbitrary event sequences, nested, re-entrant and
  non-LIFO enters included.
-/
import TT.Lemmas.RecvDefs
import TT.Lemmas.RecvStack

namespace TT

/-- Ids on the host's stack were issued by it. -/
def HostFresh (host : Host) : Prop := ∀ e ∈ host.stack, e.1 < host.next

/-- The stack the host had before the chain processed anything; a host restart starts from an
    empty stack. -/
def baseAfter (B : List (Nat × Bool)) : List HOp → List (Nat × Bool)
  | [] => B
  | .persist .loseNew :: ops => baseAfter [] ops
  | _ :: ops => baseAfter B ops

def lastHandle (σ : Sigma) (id : Nat) : Bool :=
  match σ.r.spans.get id with
  | some d => d.refCount == 1
  | none => false

/-- The guest never drops the last handle of a span that is currently entered. -/
def wfDrops (s : Sys) : List HOp → Bool
  | [] => true
  | op :: ops =>
    (match op with
      | .ev (.dropped id) => !(lastHandle s.σ id && s.σ.r.entered.contains id)
      | _ => true) && wfDrops (s.step op) ops

/-- Calls made between two host states (newest first). -/
def newCalls (before after : Host) : List HostCall := after.log.take (after.log.length - before.log.length)

/-! ### Support: the stack invariant along histories -/

theorem baseAfter_ev (B : List (Nat × Bool)) (e : Event) (ops : List HOp) :
    baseAfter B (.ev e :: ops) = baseAfter B ops := rfl

theorem SInv_step (B : List (Nat × Bool)) (s : Sys) (op : HOp) (ops : List HOp) (hi : SInv B s.σ)
    (hwf : wfDrops s (op :: ops) = true) :
    ∃ B', baseAfter B (op :: ops) = baseAfter B' ops ∧ SInv B' (s.step op).σ ∧
      wfDrops (s.step op) ops = true := by
  simp only [wfDrops, Bool.and_eq_true] at hwf
  obtain ⟨hw1, hw2⟩ := hwf
  cases op with
  | ev e =>
    refine ⟨B, rfl, ?_, hw2⟩
    simp only [Sys.step]
    apply tryReceive_inv B s.σ e hi
    intro id d he hd hrc
    subst he
    simp only [lastHandle, hd, hrc, AMap.contains] at hw1
    cases hg : s.σ.r.entered.get id with
    | none => rfl
    | some c => simp [hg] at hw1
  | persist mode =>
    obtain ⟨f1, f2⟩ := Inv.after_finalize hi []
    obtain ⟨g1, g2⟩ := Inv.fin_stack hi []
    cases mode with
    | keep =>
      refine ⟨B, rfl, ?_, hw2⟩
      simp only [Sys.step, persist]
      obtain ⟨r1, r2, _, _, r5, r6⟩ := restore_props (persistMeta s.σ) s.σ.r.spans s.σ.r.loc
        { s.σ.w with host := finalize s.σ.r.entered [] s.σ.r.loc s.σ.w.host }
      unfold SInv
      rw [r1, r2]
      exact f1.host_eq r6 (Nat.le_of_eq r5.symm)
    | lose =>
      refine ⟨B, rfl, ?_, hw2⟩
      simp only [Sys.step, persist]
      obtain ⟨r1, r2, _, _, r5, r6⟩ := restore_props (persistMeta s.σ) s.σ.r.spans []
        { s.σ.w with host := finalize s.σ.r.entered [] s.σ.r.loc s.σ.w.host }
      unfold SInv
      rw [r1, r2]
      exact f2.host_eq r6 (Nat.le_of_eq r5.symm)
    | loseNew =>
      refine ⟨[], rfl, ?_, hw2⟩
      simp only [Sys.step, persist]
      obtain ⟨r1, r2, _, _, r5, r6⟩ := restore_props (persistMeta s.σ) s.σ.r.spans []
        { s.σ.w with host := ({} : Host) }
      unfold SInv
      rw [r1, r2]
      have h0 : Inv [] ({} : Host) [] [] := by
        refine ⟨⟨[], rfl, ?_, ?_⟩, ?_, ?_, ?_, ?_, ?_⟩
        · intro g h hg; cases hg
        · intro h _; rfl
        · intro e he; cases he
        · intro g h hg; cases hg
        · intro g h hg; cases hg
        · intro g₁ g₂ h hg; cases hg
        · intro g _; rfl
      exact h0.host_eq r6 (Nat.le_of_eq r5.symm)
  | discard =>
    refine ⟨B, rfl, ?_, hw2⟩
    obtain ⟨f1, f2⟩ := Inv.after_finalize hi s.σ.r.uncommitted
    simp only [Sys.step, dropR]
    obtain ⟨r1, r2, _, _, r5, r6⟩ := restore_props s.lastPm s.lastPs []
      { s.σ.w with host := finalize s.σ.r.entered s.σ.r.uncommitted s.σ.r.loc s.σ.w.host }
    unfold SInv
    rw [r1, r2]
    exact f2.host_eq r6 (Nat.le_of_eq r5.symm)

theorem SInv_run (ops : List HOp) : ∀ (B : List (Nat × Bool)) (s : Sys), SInv B s.σ →
    wfDrops s ops = true → SInv (baseAfter B ops) (runHistory s ops).σ := by
  induction ops with
  | nil => intro B s hi _; exact hi
  | cons op ops ih =>
    intro B s hi hwf
    obtain ⟨B', hb, hi', hwf'⟩ := SInv_step B s op ops hi hwf
    rw [hb]
    exact ih B' (s.step op) hi' hwf'

theorem SU_run (ops : List HOp) : ∀ (s : Sys), SU s.σ → SU (runHistory s ops).σ := by
  induction ops with
  | nil => intro s hu; exact hu
  | cons op ops ih =>
    intro s hu
    apply ih (s.step op)
    cases op with
    | ev e => exact tryReceive_uinv s.σ e hu
    | persist mode =>
      simp only [Sys.step]
      unfold SU
      rw [(restore_props _ _ _ _).2.2.1]
      exact ⟨List.nodup_nil, fun g hg => by cases hg⟩
    | discard =>
      simp only [Sys.step]
      unfold SU
      rw [(restore_props _ _ _ _).2.2.1]
      exact ⟨List.nodup_nil, fun g hg => by cases hg⟩

theorem tryReceive_unc_other (σ : Sigma) (e : Event)
    (h1 : ∀ id p mt vs, e ≠ .newSpan id p mt vs) (h2 : ∀ id, e ≠ .dropped id) :
    (tryReceive σ e).state.r.uncommitted = σ.r.uncommitted := by
  cases e with
  | newCallSite id d =>
    simp only [tryReceive, Res.state]
    exact (onNewCallSite_props σ id d).2.2.1
  | newSpan id parent mt values => exact absurd rfl (h1 _ _ _ _)
  | followsFrom id f =>
    simp only [tryReceive]
    split
    · rfl
    · split
      · rfl
      · split <;> rfl
  | entered id =>
    simp only [tryReceive]
    split
    · rfl
    · rfl
    · split
      · rfl
      · split <;> rfl
  | exited id =>
    simp only [tryReceive]
    split <;> rfl
  | cloned id =>
    simp only [tryReceive]
    split <;> rfl
  | dropped id => exact absurd rfl (h2 _)
  | valuesRecorded id values =>
    simp only [tryReceive]
    split
    · rfl
    · split
      · rfl
      · refine vr_outer (fun σ' => σ'.r.uncommitted = σ.r.uncommitted) id values _ ?_ ?_
        · split
          · rfl
          · split
            · rfl
            · split
              · rfl
              · split <;> rfl
        · intro σ' d h; exact h
  | newEvent mt parent values =>
    simp only [tryReceive]
    split
    · rfl
    · split
      · rfl
      · split
        · rfl
        · split <;> rfl

/-- Whenever a receiver is persisted or dropped — after any history, at any prefix of the stream,
    with arbitrarily nested or re-entrant enters — the host's span stack is what it was before
    the chain processed anything. -/
theorem C04_stack_restored (w₀ : World) (hf : HostFresh w₀.host) (ops : List HOp)
    (hwf : wfDrops (Sys.init w₀) ops = true) :
    let s := runHistory (Sys.init w₀) ops
    (persist s.σ).2.2.host.stack = baseAfter w₀.host.stack ops ∧
    (dropR s.σ).host.stack = baseAfter w₀.host.stack ops := by
  intro s
  have h0 : SInv w₀.host.stack (Sys.init w₀).σ := by
    refine ⟨⟨[], rfl, ?_, ?_⟩, hf, ?_, ?_, ?_, ?_⟩
    · intro g h hg; cases hg
    · intro h _; rfl
    · intro g h hg; cases hg
    · intro g h hg; cases hg
    · intro g₁ g₂ h hg; cases hg
    · intro g _; rfl
  have hi : SInv (baseAfter w₀.host.stack ops) s.σ := SInv_run ops _ _ h0 hwf
  exact ⟨(Inv.fin_stack hi []).1, (Inv.fin_stack hi s.σ.r.uncommitted).1⟩

/-- Persisting closes nothing: it only force-exits. -/
theorem C04_persist_closes_nothing (σ : Sigma) :
    ∀ c ∈ newCalls σ.w.host (persist σ).2.2.host, ∃ h, c = .exit h := by
  obtain ⟨p, h1, h2⟩ := finExit_fold_log σ.r.loc σ.r.entered σ.w.host
  have : newCalls σ.w.host (persist σ).2.2.host = p := by
    unfold newCalls
    apply newCalls_of_log
    simp only [persist, finalize_eq, List.foldl_nil]
    exact h1
  rw [this]
  exact h2

/-- Dropping without persisting closes exactly the host spans of the uncommitted guest spans,
    once each, and nothing else. -/
theorem C04_drop_closes_uncommitted (σ : Sigma) :
    (newCalls σ.w.host (dropR σ).host).reverse.filterMap (fun c => match c with | .tryClose h => some h | _ => none)
      = σ.r.uncommitted.filterMap (σ.r.loc.get ·) ∧
    ∀ c ∈ newCalls σ.w.host (dropR σ).host, (∃ h, c = .exit h) ∨ (∃ h, c = .tryClose h) := by
  obtain ⟨p, h1, h2⟩ := finExit_fold_log σ.r.loc σ.r.entered σ.w.host
  have : newCalls σ.w.host (dropR σ).host
      = ((σ.r.uncommitted.filterMap (σ.r.loc.get ·)).map HostCall.tryClose).reverse ++ p := by
    unfold newCalls
    apply newCalls_of_log
    simp only [dropR, finalize_eq, finClose_fold_log, h1, List.append_assoc]
  rw [this]
  constructor
  · have hp : p.reverse.filterMap (fun c => match c with | .tryClose h => some h | _ => none) = [] := by
      rw [List.filterMap_eq_nil_iff]
      intro c hc
      obtain ⟨h, rfl⟩ := h2 c (List.mem_reverse.mp hc)
      rfl
    rw [List.reverse_append, List.filterMap_append, hp, List.reverse_reverse, List.nil_append,
      List.filterMap_map]
    clear this h1 h2 hp
    induction σ.r.uncommitted.filterMap (σ.r.loc.get ·) with
    | nil => rfl
    | cons x xs ih => simp only [List.filterMap_cons, Function.comp]; rw [ih]
  · intro c hc
    rcases List.mem_append.mp hc with hc | hc
    · right
      obtain ⟨h, _, rfl⟩ := List.mem_map.mp (List.mem_reverse.mp hc)
      exact ⟨h, rfl⟩
    · left; exact h2 c hc

/-- The uncommitted set is exactly: born in this lifetime and still alive. It starts empty in
    every lifetime, grows by the id of an accepted `new_span`, shrinks by the id whose last handle
    is dropped, and is otherwise untouched; its members are alive and listed once. -/
theorem C04_uncommitted_starts_empty (pm : PersistedMeta) (ps : PersistedSpans) (loc : AMap Nat Nat) (w : World) :
    (restore pm ps loc w).r.uncommitted = [] ∧ (Sys.init w).σ.r.uncommitted = [] := by
  exact ⟨(restore_props pm ps loc w).2.2.1, rfl⟩

theorem C04_uncommitted_step (σ σ' : Sigma) (e : Event) (h : tryReceive σ e = .ok σ') :
    σ'.r.uncommitted = match e with
      | .newSpan id _ _ _ => ASet.insert σ.r.uncommitted id
      | .dropped id => if lastHandle σ id then ASet.erase σ.r.uncommitted id else σ.r.uncommitted
      | _ => σ.r.uncommitted := by
  cases e with
  | newSpan id parent mt values =>
    simp only [tryReceive] at h
    split at h
    · cases h
    · split at h
      · injection h with h; subst h; rfl
      · split at h
        · cases h
        · split at h
          · cases h
          · cases h
          · injection h with h; subst h; rfl
  | dropped id =>
    simp only [tryReceive] at h
    split at h
    · cases h
    · rename_i d hd
      simp only [lastHandle, hd]
      split at h
      · cases h
      · rename_i h0
        split at h
        · rename_i h1
          have : (d.refCount == 1) = false := by simp; omega
          injection h with h; subst h
          simp [this]
        · rename_i h1
          have : (d.refCount == 1) = true := by simp; omega
          split at h <;> (injection h with h; subst h; simp [this])
  | newCallSite id d =>
    have := tryReceive_unc_other σ (.newCallSite id d) (by intro _ _ _ _ hh; cases hh) (by intro _ hh; cases hh)
    rw [h] at this; exact this
  | followsFrom id f =>
    have := tryReceive_unc_other σ (.followsFrom id f) (by intro _ _ _ _ hh; cases hh) (by intro _ hh; cases hh)
    rw [h] at this; exact this
  | entered id =>
    have := tryReceive_unc_other σ (.entered id) (by intro _ _ _ _ hh; cases hh) (by intro _ hh; cases hh)
    rw [h] at this; exact this
  | exited id =>
    have := tryReceive_unc_other σ (.exited id) (by intro _ _ _ _ hh; cases hh) (by intro _ hh; cases hh)
    rw [h] at this; exact this
  | cloned id =>
    have := tryReceive_unc_other σ (.cloned id) (by intro _ _ _ _ hh; cases hh) (by intro _ hh; cases hh)
    rw [h] at this; exact this
  | valuesRecorded id values =>
    have := tryReceive_unc_other σ (.valuesRecorded id values) (by intro _ _ _ _ hh; cases hh) (by intro _ hh; cases hh)
    rw [h] at this; exact this
  | newEvent mt parent values =>
    have := tryReceive_unc_other σ (.newEvent mt parent values) (by intro _ _ _ _ hh; cases hh) (by intro _ hh; cases hh)
    rw [h] at this; exact this

theorem C04_uncommitted_alive_once (w₀ : World) (ops : List HOp) :
    let s := runHistory (Sys.init w₀) ops
    s.σ.r.uncommitted.Nodup ∧ ∀ g ∈ s.σ.r.uncommitted, s.σ.r.spans.contains g = true := by
  intro s
  have h0 : SU (Sys.init w₀).σ := ⟨List.nodup_nil, fun g hg => by cases hg⟩
  exact SU_run ops _ h0

/-- Non-vacuity: re-entrant and nested enters on top of a pre-existing host span, then abort. -/
example :
    let d : CallSite := ⟨.span, [110], [97], .info, none, none, none, []⟩
    let w₀ : World := { host := ({} : Host).pushBase }
    let ops : List HOp := [.ev (.newCallSite 7 d), .ev (.newSpan 1 none 7 []), .ev (.newSpan 2 none 7 []),
      .ev (.entered 1), .ev (.entered 2), .ev (.entered 1), .ev (.exited 2)]
    let s := runHistory (Sys.init w₀) ops
    wfDrops (Sys.init w₀) ops = true ∧ s.σ.w.host.stack = [(2, true), (2, false), (1, false)] ∧
    (dropR s.σ).host.stack = [(1, false)] ∧ (persist s.σ).2.2.host.stack = [(1, false)] := by
  decide

/-- K6 (known finding `last-handle-dropped-while-entered`): the point that `wfDrops` excludes.
    `new 1; entered 1; dropped 1` — the guest drops the last handle of an entered span — leaves
    host span 1 on the host's stack after the receiver is dropped or persisted. -/
theorem C04_counterexample_drop_while_entered :
    let d : CallSite := ⟨.span, [115], [97], .info, none, none, none, []⟩
    let ops : List HOp := [.ev (.newCallSite 10 d), .ev (.newSpan 1 none 10 []), .ev (.entered 1), .ev (.dropped 1)]
    let s := runHistory (Sys.init {}) ops
    wfDrops (Sys.init {}) ops = false ∧
    (dropR s.σ).host.stack ≠ [] ∧ (persist s.σ).2.2.host.stack ≠ [] := by
  decide

end TT
