/-
  C02 (supplement 2) — the first clause of C02 in the property's own words: cuts placed at points
  where the *guest* has no entered span are invisible to the host. Combines `C02_cut_invisible`
  (stated on the receiver's `entered` map of the uncut run) with `C02_quiescent_guest_level`.
-/
import TT.Props.C02
import TT.Props.C02Quiescence
namespace TT

theorem rq_results_take (evs : List Event) : ∀ (s : Sys) (c : Nat),
    (∀ r ∈ results s (evs.map .ev), r = none) → ∀ r ∈ results s ((evs.take c).map .ev), r = none := by
  induction evs with
  | nil => intro s c h; simpa using h
  | cons e rest ih =>
    intro s c h
    cases c with
    | zero => intro r hr; simp [results] at hr
    | succ c =>
      simp only [List.take_succ_cons, List.map_cons, results, List.mem_cons, forall_eq_or_imp] at h ⊢
      exact ⟨h.1, ih _ c h.2⟩

theorem rq_noDrop_take (evs : List Event) : ∀ (s : Sys) (c : Nat),
    noDropWhileEntered s evs → noDropWhileEntered s (evs.take c) := by
  induction evs with
  | nil => intro s c h; simpa using h
  | cons e rest ih =>
    intro s c h
    cases c with
    | zero => trivial
    | succ c => exact ⟨h.1, ih _ c h.2⟩

theorem rq_balanced_take (evs : List Event) (c : Nat) (h : exitsBalanced evs) : exitsBalanced (evs.take c) := by
  intro k g
  have := h (min k c) g
  simpa [List.take_take] using this

/-- C02's first clause in the property's own words: cuts placed where the *guest* has no entered
    span (every span exited as often as entered so far) are invisible to the host. -/
theorem C02_cut_invisible_guest_level (w₀ : World) (harena : w₀.arena.Nodup) (evs : List Event) (cuts : List Nat)
    (hacc : ∀ r ∈ results (Sys.init w₀) (evs.map .ev), r = none)
    (hbal : exitsBalanced evs) (hdrop : noDropWhileEntered (Sys.init w₀) evs)
    (hq : ∀ c ∈ cuts, ∀ g, entersOf (evs.take c) g = exitsOf (evs.take c) g) :
    let cut := runHistory (Sys.init w₀) (withCuts evs cuts)
    let uncut := runHistory (Sys.init w₀) (evs.map .ev)
    cut.σ.w.host.log = uncut.σ.w.host.log ∧
    cut.σ.w.host.stack = uncut.σ.w.host.stack ∧
    cut.σ.w.arena = uncut.σ.w.arena ∧
    results (Sys.init w₀) (withCuts evs cuts) = results (Sys.init w₀) (evs.map .ev) :=
  C02_cut_invisible w₀ harena evs cuts fun c hc =>
    (C02_quiescent_guest_level w₀ (evs.take c) (rq_results_take evs _ c hacc) (rq_balanced_take evs c hbal)
      (rq_noDrop_take evs _ c hdrop)).2 (hq c hc)
/-- Persisting where the receiver has no entered span makes no host call at all (the harness
    checks exactly this at every guest-quiescent cut). -/
theorem C02_quiescent_persist_is_silent (σ : Sigma) (hq : σ.r.entered = []) :
    (persist σ).2.2.host = σ.w.host := by
  simp [persist, finalize, hq]

/-- With the guest-level reading of quiescence (`C02_quiescent_guest_level`): after an accepted
    stream with balanced exits in which every span is exited as often as entered, persisting makes no
    host call. -/
theorem C02_quiescent_persist_is_silent_guest_level (w₀ : World) (evs : List Event)
    (hacc : ∀ r ∈ results (Sys.init w₀) (evs.map .ev), r = none)
    (hbal : exitsBalanced evs) (hdrop : noDropWhileEntered (Sys.init w₀) evs)
    (hq : ∀ g, entersOf evs g = exitsOf evs g) :
    let σ := (runHistory (Sys.init w₀) (evs.map .ev)).σ
    (persist σ).2.2.host = σ.w.host :=
  C02_quiescent_persist_is_silent _ ((C02_quiescent_guest_level w₀ evs hacc hbal hdrop).2 hq)

end TT
