/-
  C11 — Events and persisted state round-trip through serde and keep their wire shape.

  `encode*` / `decode*` model the derive(Serialize/Deserialize) behaviour of the types in
  types.rs, value.rs, values.rs and receiver/mod.rs:63-122 at the level of an abstract JSON tree
  (`Json`); the text layer of serde_json is environment. `conforms*` is the frozen description of
  the 0.2 wire format (same content as /verif/wire/wire-0.2.schema.json).

  Well-formedness = what the Rust types can hold: ids within 64 bits, `line` within 32 bits,
  integers within 128 bits, float bit patterns within 64 bits, value names pairwise distinct
  (an invariant of `TracedValues`, see C15_nodup_reachable). Floats are finite in the property;
  non-finite floats are not JSON-representable and are outside it (the tree model itself does not
  distinguish them).
-/
import TT.Model.Wire
import TT.Lemmas.Values
import TT.Lemmas.Wire

namespace TT

def TVals.WF (vs : TVals) : Prop := vs.names.Nodup ∧ ∀ kv ∈ vs, kv.2.WF = true

def CallSite.WF (c : CallSite) : Prop := ∀ l, c.line = some l → l < 2^32

def optU64 : Option Nat → Prop
  | none => True
  | some n => n < 2^64

def Event.WF : Event → Prop
  | .newCallSite id d => id < 2^64 ∧ d.WF
  | .newSpan id p mt vs => id < 2^64 ∧ optU64 p ∧ mt < 2^64 ∧ vs.WF
  | .followsFrom a b => a < 2^64 ∧ b < 2^64
  | .entered a | .exited a | .cloned a | .dropped a => a < 2^64
  | .valuesRecorded id vs => id < 2^64 ∧ vs.WF
  | .newEvent mt p vs => mt < 2^64 ∧ optU64 p ∧ vs.WF

def Event.values : Event → TVals
  | .newSpan _ _ _ vs | .valuesRecorded _ vs | .newEvent _ _ vs => vs
  | _ => []

def SpanData.WF (d : SpanData) : Prop := d.mt < 2^64 ∧ optU64 d.parent ∧ d.refCount < 2^64 ∧ d.values.WF

def spansWF (m : PersistedSpans) : Prop :=
  (m.map (·.1)).Nodup ∧ ∀ kv ∈ m, kv.1 < 2^64 ∧ kv.2.WF

def metaWF (m : PersistedMeta) : Prop :=
  (m.map (·.1)).Nodup ∧ ∀ kv ∈ m, kv.1 < 2^64 ∧ kv.2.WF

/-- Decoding fuel sufficient for every error chain in the collection. -/
def spansFuel (m : PersistedSpans) : Nat := m.foldl (fun acc kv => max acc (valsFuel kv.2.values)) 2

/-! ### Helper lemmas (proof-only; statements of the C11 theorems follow) -/

theorem optU64_elim {p : Option Nat} (h : optU64 p) : ∀ n, p = some n → n < 2^64 := by
  intro n hn; subst hn; exact h

theorem spansFuel_foldl_ge (m : PersistedSpans) (a : Nat) :
    a ≤ m.foldl (fun acc kv => max acc (valsFuel kv.2.values)) a := by
  induction m generalizing a with
  | nil => exact Nat.le_refl _
  | cons kv m ih => exact Nat.le_trans (Nat.le_max_left _ _) (ih _)

theorem spansFuel_foldl_mem (m : PersistedSpans) (a : Nat) (kv : Nat × SpanData) (h : kv ∈ m) :
    valsFuel kv.2.values ≤ m.foldl (fun acc kv => max acc (valsFuel kv.2.values)) a := by
  induction m generalizing a with
  | nil => cases h
  | cons e m ih =>
    rw [List.foldl_cons]
    rcases List.mem_cons.mp h with h | h
    · subst h
      exact Nat.le_trans (Nat.le_max_right _ _) (spansFuel_foldl_ge m _)
    · exact ih _ h

theorem valsFuel_single (v : TVal) (fuel : Nat) (hf : valsFuel [([], v)] ≤ fuel) : FuelOk fuel v :=
  fuelOk_of_valsFuel [([], v)] fuel hf ([], v) (by simp)

theorem roundtrip_newCallSite (id : Nat) (d : CallSite) (h : (Event.newCallSite id d).WF) (fuel : Nat) :
    decodeEvent fuel (encodeEvent (.newCallSite id d)) = some (.newCallSite id d) := by
  obtain ⟨hid, hd⟩ := h
  simp [encodeEvent, decodeEvent, keysNodup_callSite, decodeCallSiteFields_encode_id _ d hd,
    Json.lookup, asU64_num id hid]

theorem roundtrip_newSpan (id : Nat) (p : Option Nat) (mt : Nat) (vs : TVals)
    (h : (Event.newSpan id p mt vs).WF) (fuel : Nat) (hf : valsFuel vs ≤ fuel) :
    decodeEvent fuel (encodeEvent (.newSpan id p mt vs)) = some (.newSpan id p mt vs) := by
  obtain ⟨hid, hp, hm, hn, hv⟩ := h
  have hvs := decodeVals_encodeVals vs hn hv fuel hf
  have hp' := optU64_elim hp
  cases p <;>
    simp [encodeEvent, decodeEvent, optField, Json.keysNodup, Json.lookup, decodeOpt,
      asU64_num, hid, hm, hp', hvs, K.id, K.metadataId, K.parentId, K.values,
      K.newSpan, K.newCallSite]

theorem roundtrip_valuesRecorded (id : Nat) (vs : TVals)
    (h : (Event.valuesRecorded id vs).WF) (fuel : Nat) (hf : valsFuel vs ≤ fuel) :
    decodeEvent fuel (encodeEvent (.valuesRecorded id vs)) = some (.valuesRecorded id vs) := by
  obtain ⟨hid, hn, hv⟩ := h
  have hvs := decodeVals_encodeVals vs hn hv fuel hf
  simp [encodeEvent, decodeEvent, Json.keysNodup, Json.lookup,
    asU64_num, hid, hvs, K.id, K.values,
    K.newSpan, K.newCallSite, K.followsFrom, K.spanEntered, K.spanExited, K.spanCloned,
    K.spanDropped, K.valuesRecorded]

theorem roundtrip_newEvent (mt : Nat) (p : Option Nat) (vs : TVals)
    (h : (Event.newEvent mt p vs).WF) (fuel : Nat) (hf : valsFuel vs ≤ fuel) :
    decodeEvent fuel (encodeEvent (.newEvent mt p vs)) = some (.newEvent mt p vs) := by
  obtain ⟨hm, hp, hn, hv⟩ := h
  have hvs := decodeVals_encodeVals vs hn hv fuel hf
  have hp' := optU64_elim hp
  cases p <;>
    simp [encodeEvent, decodeEvent, optField, Json.keysNodup, Json.lookup, decodeOpt,
      asU64_num, hm, hp', hvs, K.metadataId, K.parent, K.values,
      K.newSpan, K.newCallSite, K.followsFrom, K.spanEntered, K.spanExited, K.spanCloned,
      K.spanDropped, K.valuesRecorded, K.newEvent]

theorem roundtrip_simple (e : Event) (h : e.WF) (fuel : Nat)
    (he : (∃ a b, e = .followsFrom a b) ∨ (∃ a, e = .entered a) ∨ (∃ a, e = .exited a)
      ∨ (∃ a, e = .cloned a) ∨ (∃ a, e = .dropped a)) :
    decodeEvent fuel (encodeEvent e) = some e := by
  rcases he with ⟨a, b, rfl⟩ | ⟨a, rfl⟩ | ⟨a, rfl⟩ | ⟨a, rfl⟩ | ⟨a, rfl⟩
  · obtain ⟨ha, hb⟩ := h
    simp [encodeEvent, decodeEvent, Json.keysNodup, Json.lookup, asU64_num, ha, hb, K.id,
      K.newSpan, K.newCallSite, K.followsFrom]
  all_goals
    have ha : a < 2^64 := h
    simp [encodeEvent, decodeEvent, decodeIdOnly, Json.keysNodup, Json.lookup, asU64_num, ha, K.id,
      K.newSpan, K.newCallSite, K.followsFrom, K.spanEntered, K.spanExited, K.spanCloned,
      K.spanDropped]

theorem conforms_simple (e : Event) (h : e.WF) (fuel : Nat)
    (he : (∃ a b, e = .followsFrom a b) ∨ (∃ a, e = .entered a) ∨ (∃ a, e = .exited a)
      ∨ (∃ a, e = .cloned a) ∨ (∃ a, e = .dropped a)) :
    conformsEvent fuel (encodeEvent e) = true := by
  rcases he with ⟨a, b, rfl⟩ | ⟨a, rfl⟩ | ⟨a, rfl⟩ | ⟨a, rfl⟩ | ⟨a, rfl⟩
  · obtain ⟨ha, hb⟩ := h
    simp [encodeEvent, conformsEvent, conformsFields, isU64_num, ha, hb,
      K.newSpan, K.newCallSite, K.followsFrom]
  all_goals
    have ha : a < 2^64 := h
    simp [encodeEvent, conformsEvent, conformsFields, isU64_num, ha,
      K.newSpan, K.newCallSite, K.followsFrom, K.spanEntered, K.spanExited, K.spanCloned,
      K.spanDropped]

theorem conforms_newCallSite (id : Nat) (d : CallSite) (h : (Event.newCallSite id d).WF) (fuel : Nat) :
    conformsEvent fuel (encodeEvent (.newCallSite id d)) = true := by
  obtain ⟨hid, hd⟩ := h
  simp [encodeEvent, conformsEvent, conformsFields_callSite_id id hid d hd]

theorem conforms_newSpan (id : Nat) (p : Option Nat) (mt : Nat) (vs : TVals)
    (h : (Event.newSpan id p mt vs).WF) (fuel : Nat) (hf : valsFuel vs ≤ fuel) :
    conformsEvent fuel (encodeEvent (.newSpan id p mt vs)) = true := by
  obtain ⟨hid, hp, hm, hn, hv⟩ := h
  have hvs := conformsVals_encodeVals vs hv fuel hf
  have hp' := optU64_elim hp
  cases p <;>
    simp [encodeEvent, conformsEvent, conformsFields, optField, isU64_num, hid, hm, hp', hvs,
      K.id, K.metadataId, K.parentId, K.values, K.newSpan, K.newCallSite]

theorem conforms_valuesRecorded (id : Nat) (vs : TVals)
    (h : (Event.valuesRecorded id vs).WF) (fuel : Nat) (hf : valsFuel vs ≤ fuel) :
    conformsEvent fuel (encodeEvent (.valuesRecorded id vs)) = true := by
  obtain ⟨hid, hn, hv⟩ := h
  have hvs := conformsVals_encodeVals vs hv fuel hf
  simp [encodeEvent, conformsEvent, conformsFields, isU64_num, hid, hvs,
    K.newSpan, K.newCallSite, K.followsFrom, K.spanEntered, K.spanExited, K.spanCloned,
    K.spanDropped, K.valuesRecorded]

theorem conforms_newEvent (mt : Nat) (p : Option Nat) (vs : TVals)
    (h : (Event.newEvent mt p vs).WF) (fuel : Nat) (hf : valsFuel vs ≤ fuel) :
    conformsEvent fuel (encodeEvent (.newEvent mt p vs)) = true := by
  obtain ⟨hm, hp, hn, hv⟩ := h
  have hvs := conformsVals_encodeVals vs hv fuel hf
  have hp' := optU64_elim hp
  cases p <;>
    simp [encodeEvent, conformsEvent, conformsFields, optField, isU64_num, hm, hp', hvs,
      K.metadataId, K.parent, K.values,
      K.newSpan, K.newCallSite, K.followsFrom, K.spanEntered, K.spanExited, K.spanCloned,
      K.spanDropped, K.valuesRecorded, K.newEvent]

theorem C11_roundtrip_value (v : TVal) (h : v.WF = true) (fuel : Nat) (hf : valsFuel [([], v)] ≤ fuel) :
    decodeVal fuel (encodeVal v) = some v := by
  exact decodeVal_encodeVal v h fuel (valsFuel_single v fuel hf)

/-- Value collections decode to themselves, entry order preserved. -/
theorem C11_roundtrip_values (vs : TVals) (h : vs.WF) (fuel : Nat) (hf : valsFuel vs ≤ fuel) :
    decodeVals fuel (encodeVals vs) = some vs := by
  exact decodeVals_encodeVals vs h.1 h.2 fuel hf

/-- Every well-formed event decodes from its encoding to itself (hence re-encodes identically). -/
theorem C11_roundtrip_event (e : Event) (h : e.WF) (fuel : Nat) (hf : valsFuel e.values ≤ fuel) :
    decodeEvent fuel (encodeEvent e) = some e := by
  cases e with
  | newCallSite id d => exact roundtrip_newCallSite id d h fuel
  | newSpan id p mt vs => exact roundtrip_newSpan id p mt vs h fuel hf
  | followsFrom a b => exact roundtrip_simple _ h fuel (Or.inl ⟨a, b, rfl⟩)
  | entered a => exact roundtrip_simple _ h fuel (Or.inr (Or.inl ⟨a, rfl⟩))
  | exited a => exact roundtrip_simple _ h fuel (Or.inr (Or.inr (Or.inl ⟨a, rfl⟩)))
  | cloned a => exact roundtrip_simple _ h fuel (Or.inr (Or.inr (Or.inr (Or.inl ⟨a, rfl⟩))))
  | dropped a => exact roundtrip_simple _ h fuel (Or.inr (Or.inr (Or.inr (Or.inr ⟨a, rfl⟩))))
  | valuesRecorded id vs => exact roundtrip_valuesRecorded id vs h fuel hf
  | newEvent mt p vs => exact roundtrip_newEvent mt p vs h fuel hf

theorem C11_reencode_identical (e : Event) (h : e.WF) (fuel : Nat) (hf : valsFuel e.values ≤ fuel) :
    ∃ e', decodeEvent fuel (encodeEvent e) = some e' ∧ encodeEvent e' = encodeEvent e :=
  ⟨e, C11_roundtrip_event e h fuel hf, rfl⟩

theorem C11_roundtrip_spans (m : PersistedSpans) (h : spansWF m) (fuel : Nat) (hf : spansFuel m ≤ fuel) :
    decodeSpans fuel (encodeSpans m) = some m := by
  obtain ⟨hn, hall⟩ := h
  have hdec : decodeMapN (decodeSpanData fuel) (m.map fun kv => (kv.1, encodeSpanData kv.2)) = some m := by
    apply decodeMapN_encode
    intro kv hkv
    obtain ⟨hk, hm, hp, hrc, hvn, hvv⟩ := hall kv hkv
    refine ⟨hk, ?_⟩
    have hfuel : valsFuel kv.2.values ≤ fuel :=
      Nat.le_trans (spansFuel_foldl_mem m 2 kv hkv) hf
    exact decodeSpanData_encode kv.2.mt kv.2.parent kv.2.refCount kv.2.values hm (optU64_elim hp) hrc
      hvn hvv fuel hfuel
  simp only [encodeSpans, decodeSpans, hdec, Option.map_some, AMap.foldl_insert_nodup m hn]

theorem C11_roundtrip_meta (m : PersistedMeta) (h : metaWF m) :
    decodeMeta (encodeMeta m) = some m := by
  obtain ⟨hn, hall⟩ := h
  have hdec : decodeMapN decodeCallSite (m.map fun kv => (kv.1, encodeCallSite kv.2)) = some m := by
    apply decodeMapN_encode
    intro kv hkv
    obtain ⟨hk, hc⟩ := hall kv hkv
    exact ⟨hk, decodeCallSite_encode kv.2 hc⟩
  simp only [encodeMeta, decodeMeta, hdec, Option.map_some, AMap.foldl_insert_nodup m hn]

/-- The encodings have the frozen 0.2 shape. -/
theorem C11_conforms_event (e : Event) (h : e.WF) (fuel : Nat) (hf : valsFuel e.values ≤ fuel) :
    conformsEvent fuel (encodeEvent e) = true := by
  cases e with
  | newCallSite id d => exact conforms_newCallSite id d h fuel
  | newSpan id p mt vs => exact conforms_newSpan id p mt vs h fuel hf
  | followsFrom a b => exact conforms_simple _ h fuel (Or.inl ⟨a, b, rfl⟩)
  | entered a => exact conforms_simple _ h fuel (Or.inr (Or.inl ⟨a, rfl⟩))
  | exited a => exact conforms_simple _ h fuel (Or.inr (Or.inr (Or.inl ⟨a, rfl⟩)))
  | cloned a => exact conforms_simple _ h fuel (Or.inr (Or.inr (Or.inr (Or.inl ⟨a, rfl⟩))))
  | dropped a => exact conforms_simple _ h fuel (Or.inr (Or.inr (Or.inr (Or.inr ⟨a, rfl⟩))))
  | valuesRecorded id vs => exact conforms_valuesRecorded id vs h fuel hf
  | newEvent mt p vs => exact conforms_newEvent mt p vs h fuel hf

theorem C11_conforms_spans (m : PersistedSpans) (h : spansWF m) (fuel : Nat) (hf : spansFuel m ≤ fuel) :
    conformsSpans fuel (encodeSpans m) = true := by
  obtain ⟨hn, hall⟩ := h
  simp only [encodeSpans, conformsSpans, List.all_map, List.all_eq_true]
  intro kv hkv
  obtain ⟨hk, hm, hp, hrc, hvn, hvv⟩ := hall kv hkv
  have hfuel : valsFuel kv.2.values ≤ fuel :=
    Nat.le_trans (spansFuel_foldl_mem m 2 kv hkv) hf
  have := conformsSpanData_encode kv.2.mt kv.2.parent kv.2.refCount kv.2.values hm (optU64_elim hp) hrc
    hvv fuel hfuel
  simp only [Function.comp, hk, decide_true, Bool.true_and]
  exact this

theorem C11_conforms_meta (m : PersistedMeta) (h : metaWF m) :
    conformsMeta (encodeMeta m) = true := by
  obtain ⟨hn, hall⟩ := h
  simp only [encodeMeta, conformsMeta, List.all_map, List.all_eq_true]
  intro kv hkv
  obtain ⟨hk, hc⟩ := hall kv hkv
  simp [encodeCallSite, hk, conformsFields_callSite kv.2 hc]

/-- Duplicate keys inside `values` are legal on the wire and decode by insertion (C15). -/
theorem C11_decode_values_duplicates (es : List (Str × TVal)) (h : ∀ kv ∈ es, kv.2.WF = true)
    (fuel : Nat) (hf : valsFuel es ≤ fuel) :
    decodeVals fuel (.obj (es.map fun kv => (kv.1, encodeVal kv.2))) = some (TVals.ofList es) := by
  exact decodeVals_encode_ofList es h fuel hf

/-! Non-vacuity: a well-formed event with a 128-bit extreme, an error chain and an optional parent. -/
example : (Event.newSpan 3 (some 1) 7 [([97], .int (-(2^127))), ([98], .err [109] [[115], [116]])]).WF := by
  refine ⟨by decide, by simp [optU64], by decide, ?_, ?_⟩
  · decide
  · intro kv hkv; simp at hkv; rcases hkv with h | h <;> subst h <;> decide

example : decodeEvent 4 (encodeEvent (.newSpan 3 (some 1) 7 [([97], .int (-(2^127))), ([98], .err [109] [[115], [116]])]))
    = some (.newSpan 3 (some 1) 7 [([97], .int (-(2^127))), ([98], .err [109] [[115], [116]])]) := by decide

end TT
