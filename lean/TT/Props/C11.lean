/-
  C11 — Events and persisted state round-trip through serde and keep their wire shape.

  `encode*` / `decode*` model the derive(Serialize/Deserialize) behaviour of the types in
  types.rs, value.rs, values.rs and receiver/mod.rs:63-122 at the level of an abstract JSON tree
  (`Json`); the text layer of serde_json is environment. `conforms*` is the frozen description of
  the 0.2 wire format (same content as /verif/wire/wire-0.2.schema.json).

  Well-formedness = what the Rust types can hold: ids within 64 bits, `line` within 32 bits,
  integers within 128 bits, float bit patterns within 64 bits, value names pairwise distinct
  (an invariant of `TracedValues`, see C15_nodup_reachable). Floats are finite in the property;
  non-finite floats are not JSON-representable and are outside it (the tree model itself does not
  distinguish them).
-/
import TT.Model.Wire
import TT.Lemmas.Values

namespace TT

def TVals.WF (vs : TVals) : Prop := vs.names.Nodup ∧ ∀ kv ∈ vs, kv.2.WF = true

def CallSite.WF (c : CallSite) : Prop := ∀ l, c.line = some l → l < 2^32

def optU64 : Option Nat → Prop
  | none => True
  | some n => n < 2^64

def Event.WF : Event → Prop
  | .newCallSite id d => id < 2^64 ∧ d.WF
  | .newSpan id p mt vs => id < 2^64 ∧ optU64 p ∧ mt < 2^64 ∧ vs.WF
  | .followsFrom a b => a < 2^64 ∧ b < 2^64
  | .entered a | .exited a | .cloned a | .dropped a => a < 2^64
  | .valuesRecorded id vs => id < 2^64 ∧ vs.WF
  | .newEvent mt p vs => mt < 2^64 ∧ optU64 p ∧ vs.WF

def Event.values : Event → TVals
  | .newSpan _ _ _ vs | .valuesRecorded _ vs | .newEvent _ _ vs => vs
  | _ => []

def SpanData.WF (d : SpanData) : Prop := d.mt < 2^64 ∧ optU64 d.parent ∧ d.refCount < 2^64 ∧ d.values.WF

def spansWF (m : PersistedSpans) : Prop :=
  (m.map (·.1)).Nodup ∧ ∀ kv ∈ m, kv.1 < 2^64 ∧ kv.2.WF

def metaWF (m : PersistedMeta) : Prop :=
  (m.map (·.1)).Nodup ∧ ∀ kv ∈ m, kv.1 < 2^64 ∧ kv.2.WF

/-- Decoding fuel sufficient for every error chain in the collection. -/
def spansFuel (m : PersistedSpans) : Nat := m.foldl (fun acc kv => max acc (valsFuel kv.2.values)) 2

theorem C11_roundtrip_value (v : TVal) (h : v.WF = true) (fuel : Nat) (hf : valsFuel [([], v)] ≤ fuel) :
    decodeVal fuel (encodeVal v) = some v := by
  sorry

/-- Value collections decode to themselves, entry order preserved. -/
theorem C11_roundtrip_values (vs : TVals) (h : vs.WF) (fuel : Nat) (hf : valsFuel vs ≤ fuel) :
    decodeVals fuel (encodeVals vs) = some vs := by
  sorry

/-- Every well-formed event decodes from its encoding to itself (hence re-encodes identically). -/
theorem C11_roundtrip_event (e : Event) (h : e.WF) (fuel : Nat) (hf : valsFuel e.values ≤ fuel) :
    decodeEvent fuel (encodeEvent e) = some e := by
  sorry

theorem C11_reencode_identical (e : Event) (h : e.WF) (fuel : Nat) (hf : valsFuel e.values ≤ fuel) :
    ∃ e', decodeEvent fuel (encodeEvent e) = some e' ∧ encodeEvent e' = encodeEvent e :=
  ⟨e, C11_roundtrip_event e h fuel hf, rfl⟩

theorem C11_roundtrip_spans (m : PersistedSpans) (h : spansWF m) (fuel : Nat) (hf : spansFuel m ≤ fuel) :
    decodeSpans fuel (encodeSpans m) = some m := by
  sorry

theorem C11_roundtrip_meta (m : PersistedMeta) (h : metaWF m) :
    decodeMeta (encodeMeta m) = some m := by
  sorry

/-- The encodings have the frozen 0.2 shape. -/
theorem C11_conforms_event (e : Event) (h : e.WF) (fuel : Nat) (hf : valsFuel e.values ≤ fuel) :
    conformsEvent fuel (encodeEvent e) = true := by
  sorry

theorem C11_conforms_spans (m : PersistedSpans) (h : spansWF m) (fuel : Nat) (hf : spansFuel m ≤ fuel) :
    conformsSpans fuel (encodeSpans m) = true := by
  sorry

theorem C11_conforms_meta (m : PersistedMeta) (h : metaWF m) :
    conformsMeta (encodeMeta m) = true := by
  sorry

/-- Duplicate keys inside `values` are legal on the wire and decode by insertion (C15). -/
theorem C11_decode_values_duplicates (es : List (Str × TVal)) (h : ∀ kv ∈ es, kv.2.WF = true)
    (fuel : Nat) (hf : valsFuel es ≤ fuel) :
    decodeVals fuel (.obj (es.map fun kv => (kv.1, encodeVal kv.2))) = some (TVals.ofList es) := by
  sorry

/-! Non-vacuity: a well-formed event with a 128-bit extreme, an error chain and an optional parent. -/
example : (Event.newSpan 3 (some 1) 7 [([97], .int (-(2^127))), ([98], .err [109] [[115], [116]])]).WF := by
  refine ⟨by decide, by simp [optU64], by decide, ?_, ?_⟩
  · decide
  · intro kv hkv; simp at hkv; rcases hkv with h | h <;> subst h <;> decide

example : decodeEvent 4 (encodeEvent (.newSpan 3 (some 1) 7 [([97], .int (-(2^127))), ([98], .err [109] [[115], [116]])]))
    = some (.newSpan 3 (some 1) 7 [([97], .int (-(2^127))), ([98], .err [109] [[115], [116]])]) := by decide

end TT
