/-
  C19 (supplement) — no lost update on a span shared by several threads.

  By `C19_all_schedules` the storage under any schedule is `expectedStorageC` of the interleaved
  call log, whose span values are `expectedValues`. This module spells out what that means for a
  field of a span that several threads record on at the same time: its captured value is the last
  value written to it in the interleaved log (`C19_no_lost_update`), hence — when only one thread
  writes that field — the last value that thread wrote, whatever the others did meanwhile
  (`C19_own_field_final`). The harness checks exactly this on the real layer (shared spans with
  one field per thread; record storms with read-back after every record).
-/
import TT.Props.C19
import TT.Lemmas.Values
namespace TT

/-- The last value written to field `f` of span `id` in a call log: by its creation or by a later
    record (whoever made the call). -/
def lastWrite (calls : List SubCall) (id : Nat) (f : Str) : Option TVal :=
  calls.foldl (fun acc c => match c with
    | .newSpan id' _ _ fields => if id' = id then (capture fields).get f else acc
    | .record id' fields => if id' = id then
        (match lastVal (capture fields) f with | some w => some w | none => acc) else acc
    | _ => acc) none

theorem nl_fold (calls : List SubCall) (id : Nat) (f : Str) : ∀ (acc : TVals) (a : Option TVal),
    acc.get f = a →
    (calls.foldl (fun acc c => match c with
      | .newSpan id' _ _ fields => if id' = id then capture fields else acc
      | .record id' fields => if id' = id then acc.extend (capture fields) else acc
      | _ => acc) acc).get f =
    calls.foldl (fun acc c => match c with
      | .newSpan id' _ _ fields => if id' = id then (capture fields).get f else acc
      | .record id' fields => if id' = id then
          (match lastVal (capture fields) f with | some w => some w | none => acc) else acc
      | _ => acc) a := by
  induction calls with
  | nil => intro acc a h; simpa using h
  | cons c cs ih =>
    intro acc a h
    simp only [List.foldl_cons]
    apply ih
    cases c with
    | newSpan id' k p fields =>
      show (if id' = id then capture fields else acc).get f = if id' = id then (capture fields).get f else a
      split <;> first | rfl | exact h
    | record id' fields =>
      show (if id' = id then acc.extend (capture fields) else acc).get f =
        if id' = id then (match lastVal (capture fields) f with | some w => some w | none => a) else a
      split
      · rw [TVals.get_extend, h]
        cases lastVal (capture fields) f <;> rfl
      · exact h
    | _ => exact h

/-- No lost update: whatever the schedule, the captured value of a field of a (shared) span is the
    last value written to it in the interleaved call log. -/
theorem C19_no_lost_update (calls : List SubCall) (id : Nat) (f : Str) :
    (expectedValues calls id).get f = lastWrite calls id f := by
  unfold expectedValues lastWrite
  exact nl_fold calls id f [] none rfl
/-- A call that can change field `f` of span `id`. -/
def writesField (id : Nat) (f : Str) : SubCall → Bool
  | .newSpan id' _ _ _ => id' == id
  | .record id' fields => id' == id && (lastVal (capture fields) f).isSome
  | _ => false

def lwStep (id : Nat) (f : Str) (acc : Option TVal) (c : SubCall) : Option TVal :=
  match c with
  | .newSpan id' _ _ fields => if id' = id then (capture fields).get f else acc
  | .record id' fields => if id' = id then
      (match lastVal (capture fields) f with | some w => some w | none => acc) else acc
  | _ => acc

theorem nl_lastWrite_eq (calls : List SubCall) (id : Nat) (f : Str) :
    lastWrite calls id f = calls.foldl (lwStep id f) none := rfl

theorem nl_step_skip (id : Nat) (f : Str) (acc : Option TVal) (c : SubCall)
    (h : writesField id f c = false) : lwStep id f acc c = acc := by
  cases c with
  | newSpan id' k p fields =>
    simp only [writesField, beq_eq_false_iff_ne, ne_eq] at h
    simp [lwStep, h]
  | record id' fields =>
    simp only [lwStep]
    split
    · rename_i hid
      simp only [writesField, hid, beq_self_eq_true, Bool.true_and] at h
      cases hl : lastVal (capture fields) f with
      | none => rfl
      | some w => rw [hl] at h; cases h
    · rfl
  | _ => rfl

theorem nl_filter (id : Nat) (f : Str) (tcalls : List (Nat × SubCall)) (t : Nat)
    (hown : ∀ c ∈ tcalls, writesField id f c.2 = true → c.1 = t) : ∀ acc : Option TVal,
    (untag tcalls).foldl (lwStep id f) acc = (untag (tcalls.filter (·.1 == t))).foldl (lwStep id f) acc := by
  induction tcalls with
  | nil => intro acc; rfl
  | cons c cs ih =>
    intro acc
    have ih' := ih (fun c' hc' => hown c' (List.mem_cons_of_mem _ hc'))
    by_cases ht : c.1 = t
    · have : (c :: cs).filter (·.1 == t) = c :: cs.filter (·.1 == t) := by
        simp [ht]
      rw [this]
      simp only [untag, List.map_cons, List.foldl_cons]
      exact ih' _
    · have : (c :: cs).filter (·.1 == t) = cs.filter (·.1 == t) := by
        simp [ht]
      rw [this]
      have hw : writesField id f c.2 = false := by
        cases hwf : writesField id f c.2 with
        | false => rfl
        | true => exact absurd (hown c List.mem_cons_self hwf) ht
      simp only [untag, List.map_cons, List.foldl_cons]
      rw [nl_step_skip id f acc c.2 hw]
      exact ih' _

/-- Own-field discipline: if only thread `t` writes field `f` of a span (shared with other
    threads, which record other fields of it at the same time), the captured value of `f` is the
    last one `t` wrote — under every schedule. -/
theorem C19_own_field_final (tcalls : List (Nat × SubCall)) (id : Nat) (f : Str) (t : Nat)
    (hown : ∀ c ∈ tcalls, writesField id f c.2 = true → c.1 = t) :
    (expectedValues (untag tcalls) id).get f = lastWrite (untag (tcalls.filter (·.1 == t))) id f := by
  rw [C19_no_lost_update, nl_lastWrite_eq, nl_lastWrite_eq]
  exact nl_filter id f tcalls t hown none

/-- Instance: threads 1 and 2 record their own fields on shared span 7 in alternation. -/
example :
    let tcalls : List (Nat × SubCall) := [(99, .newSpan 7 0 .root []), (1, .record 7 [([116, 49], some (.u64 1))]),
      (2, .record 7 [([116, 50], some (.u64 5))]), (1, .record 7 [([116, 49], some (.u64 2))]), (2, .record 7 [([116, 50], some (.u64 6))])]
    (expectedValues (untag tcalls) 7).get [116, 49] = some (.uint 2) ∧
    (expectedValues (untag tcalls) 7).get [116, 50] = some (.uint 6) := by
  decide

end TT
