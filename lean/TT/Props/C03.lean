/-
  C03 — After a host restart live spans are restored faithfully; nothing is rejected.

  A "restart" is `persist .lose` / `persist .loseNew` (or a discard): the next receiver starts from
  the persisted metadata and spans with an empty local span map. Model of the repaired code
  (`fix:` 87e4544: a dropped explicit parent no longer makes the lazily re-created child fail;
  `fix:` b018624: more than 32 accumulated values are delivered by follow-up `record` calls).
-/
import TT.Lemmas.RecvSim
import TT.Lemmas.RecvRestore
import TT.Props.C02

namespace TT

/-- Every event of the history is valid w.r.t. the bookkeeping (a well-formed guest execution:
    call sites announced before use, references only to alive spans, at most 32 values). -/
def allValid (ss : SpecSys) : List HOp → Bool
  | [] => true
  | .ev e :: ops => (ss.cur.invalid e).isEmpty && allValid (ss.step (.ev e)) ops
  | op :: ops => allValid (ss.step op) ops

def newCalls' (before after : Host) : List HostCall := (after.log.take (after.log.length - before.log.length)).reverse

def newSpanIds (calls : List HostCall) : List Nat :=
  calls.filterMap fun c => match c with | .newSpan h _ _ _ => some h | _ => none

/-- The guest span for which an event needs a host span that does not exist yet. -/
def needsHost (σ : Sigma) : Event → Option Nat
  | .newSpan id _ _ _ => if σ.r.loc.contains id then none else some id
  | .entered id => if σ.r.loc.contains id then none else some id
  | _ => none

/-! ### Helper lemmas -/

theorem rr_newCalls'_of_log (before after : Host) (pre : List HostCall)
    (h : after.log = pre ++ before.log) : newCalls' before after = pre.reverse := by
  unfold newCalls'
  rw [h]
  simp

theorem rr_newCalls'_self (b a : Host) (h : a.log = b.log) : newCalls' b a = [] := by
  have := rr_newCalls'_of_log b a [] (by simpa using h)
  simpa using this

theorem rr_newSpanIds_append (a b : List HostCall) :
    newSpanIds (a ++ b) = newSpanIds a ++ newSpanIds b := by
  unfold newSpanIds
  rw [List.filterMap_append]

theorem rr_newSpanIds_records (h : Nat) (cs : List RawVals) :
    newSpanIds (cs.map (HostCall.record h)) = [] := by
  induction cs with
  | nil => rfl
  | cons c cs ih =>
    rw [List.map_cons]
    show newSpanIds ([HostCall.record h c] ++ _) = []
    rw [rr_newSpanIds_append, ih]
    rfl

theorem rr_specResults_allValid (ss : SpecSys) (ops : List HOp) (hv : allValid ss ops = true) :
    ∀ r ∈ specResults ss ops, r = none := by
  induction ops generalizing ss with
  | nil => intro r hr; cases hr
  | cons op ops ih =>
    cases op with
    | ev e =>
      have hv' : ((ss.cur.invalid e).isEmpty && allValid (ss.step (.ev e)) ops) = true := hv
      rw [Bool.and_eq_true] at hv'
      intro r hr
      have hr' : r ∈ ss.cur.verdict e :: specResults (ss.step (.ev e)) ops := hr
      rw [List.mem_cons] at hr'
      rcases hr' with hr' | hr'
      · rw [hr']
        unfold Spec.verdict
        rw [List.isEmpty_iff.1 hv'.1]
        rfl
      · exact ih _ hv'.2 r hr'
    | persist m => exact ih _ hv
    | discard => exact ih _ hv

/-- Shape of an accepted `entered`. -/
theorem rr_entered_ok (σ σ' : Sigma) (id : Nat) (hok : tryReceive σ (.entered id) = .ok σ') :
    (∃ h, σ.r.loc.get id = some h ∧
      σ' = { r := { σ.r with entered := bumpEntered σ.r.entered id },
             w := { σ.w with host := σ.w.host.emit (.enter h) } }) ∨
    (∃ d w h, σ.r.loc.get id = none ∧ σ.r.spans.get id = some d ∧
      createLocalSpan σ.r σ.w d = .ok w h ∧
      σ' = { r := { σ.r with loc := σ.r.loc.insert id h, entered := bumpEntered σ.r.entered id },
             w := { w with host := w.host.emit (.enter h) } }) := by
  simp only [tryReceive, mapSpanId] at hok
  cases hl : AMap.get σ.r.loc id with
  | some h =>
    left
    simp only [hl, Res.ok.injEq] at hok
    exact ⟨h, rfl, hok.symm⟩
  | none =>
    right
    simp only [hl] at hok
    split at hok
    · cases hok
    · next heq => split at heq <;> cases heq
    · next heq =>
      split at hok
      · cases hok
      · next d hd =>
        split at hok
        · cases hok
        · cases hok
        · next w h hc =>
          simp only [Res.ok.injEq] at hok
          exact ⟨d, w, h, rfl, hd, hc, hok.symm⟩

/-- Shape of an accepted `newSpan`. -/
theorem rr_newSpan_ok (σ σ' : Sigma) (id : Nat) (parent : Option Nat) (mt : Nat) (values : TVals)
    (hok : tryReceive σ (.newSpan id parent mt values) = .ok σ') :
    (σ.r.loc.contains id = true ∧ σ'.w = σ.w ∧ σ'.r.loc = σ.r.loc) ∨
    (∃ w h, σ.r.loc.contains id = false ∧
      createLocalSpan σ.r σ.w { mt, parent, refCount := 1, values } = .ok w h ∧
      σ'.w = w ∧ σ'.r.loc = σ.r.loc.insert id h) := by
  simp only [tryReceive] at hok
  split at hok
  · cases hok
  · cases hc : AMap.contains σ.r.loc id with
    | true =>
      left
      simp only [hc, if_true, Res.ok.injEq] at hok
      subst hok
      exact ⟨rfl, rfl, rfl⟩
    | false =>
      right
      simp only [hc, Bool.false_eq_true, if_false] at hok
      split at hok
      · cases hok
      · split at hok
        · cases hok
        · cases hok
        · next w h hcl =>
          simp only [Res.ok.injEq] at hok
          subst hok
          exact ⟨w, h, rfl, hcl, rfl, rfl⟩

theorem rr_mapSpanId_ok {r : RState} {id : Nat} {l : Option Nat} (h : mapSpanId r id = .ok l) :
    l = r.loc.get id := by
  unfold mapSpanId at h
  cases hl : AMap.get r.loc id with
  | some x => simp only [hl, Except.ok.injEq] at h; exact h.symm
  | none =>
    simp only [hl] at h
    split at h
    · simp only [Except.ok.injEq] at h; exact h.symm
    · cases h

theorem rr_newSpanIds_created (hh idx : Nat) (p : HParent) (v : RawVals) (cs : List RawVals)
    (tail : List HostCall) (ht : newSpanIds tail = []) :
    newSpanIds ([HostCall.newSpan hh idx p v] ++ cs.map (HostCall.record hh) ++ tail) = [hh] := by
  rw [rr_newSpanIds_append, rr_newSpanIds_append, rr_newSpanIds_records, ht]
  rfl

/-- Nothing is rejected: every event of a well-formed execution is accepted whatever happens to
    the local map at the cuts (kept, lost, new host, discard) — including `entered c` for a span
    `c` whose explicit parent was dropped before the restart. -/
theorem C03_accepts (w₀ : World) (ops : List HOp) (hno : noReannounceFrom {} ops = true)
    (hv : allValid {} ops = true) : ∀ r ∈ results (Sys.init w₀) ops, r = none := by
  rw [rr_results_spec (Inv.init w₀) ops hno]
  exact rr_specResults_allValid {} ops hv

/-- A host span is created exactly when the guest span has none in the local map (at its
    announcement or, after a restart, at its first enter), exactly one is created, and the local
    map then points to it. -/
theorem C03_presented_iff_unmapped (σ σ' : Sigma) (e : Event) (h : tryReceive σ e = .ok σ') :
    newSpanIds (newCalls' σ.w.host σ'.w.host) = (match needsHost σ e with | some _ => [σ.w.host.next] | none => []) ∧
    ∀ g, needsHost σ e = some g → σ'.r.loc.get g = some σ.w.host.next := by
  cases e with
  | newCallSite id d =>
    simp only [tryReceive, Res.ok.injEq] at h
    subst h
    refine ⟨?_, fun g hg => by simp [needsHost] at hg⟩
    simp only [needsHost]
    have hh : (onNewCallSite σ id d).w.host
        = if (arenaAlloc σ.w.arena d).2.2 = true
          then σ.w.host.emit (.register (arenaAlloc σ.w.arena d).2.1) else σ.w.host := rfl
    rw [hh]
    split
    · rw [rr_newCalls'_of_log _ _ [.register (arenaAlloc σ.w.arena d).2.1] rfl]; rfl
    · rw [rr_newCalls'_self _ _ rfl]; rfl
  | newSpan id parent mt values =>
    rcases rr_newSpan_ok σ σ' id parent mt values h with ⟨hc, hw, _⟩ | ⟨w, hh, hc, hcl, hw, hl⟩
    · simp only [needsHost, hc, if_true]
      refine ⟨?_, fun g hg => by cases hg⟩
      rw [hw, rr_newCalls'_self _ _ rfl]; rfl
    · obtain ⟨idx, _, hhe, hlog, _, _⟩ := rr_createLocalSpan_spec _ _ _ _ _ hcl
      simp only [needsHost, hc, Bool.false_eq_true, if_false]
      refine ⟨?_, ?_⟩
      · rw [hw, rr_newCalls'_of_log _ _ _ hlog]
        simp only [List.reverse_append, List.reverse_cons, List.reverse_reverse, List.reverse_nil,
          List.nil_append]
        rw [← hhe]
        have := rr_newSpanIds_created hh idx
          (rr_parent σ.r { mt := mt, parent := parent, refCount := 1, values := values })
          (List.take maxValues (generateFields (siteOf σ.w idx) values))
          (chunks maxValues (List.drop maxValues (generateFields (siteOf σ.w idx) values))) [] rfl
        simpa using this
      · intro g hg
        simp only [Option.some.injEq] at hg
        subst hg
        rw [hl, AMap.get_insert, if_pos rfl, hhe]
  | followsFrom id f =>
    refine ⟨?_, fun g hg => by simp [needsHost] at hg⟩
    simp only [needsHost]
    simp only [tryReceive] at h
    split at h
    · cases h
    · split at h
      · cases h
      · split at h
        · simp only [Res.ok.injEq] at h
          subst h
          rw [rr_newCalls'_of_log _ _ [.follows _ _] rfl]; rfl
        · simp only [Res.ok.injEq] at h
          subst h
          rw [rr_newCalls'_self _ _ rfl]; rfl
  | entered id =>
    rcases rr_entered_ok σ σ' id h with ⟨hh, hl, he⟩ | ⟨d, w, hh, hl, hs, hcl, he⟩
    · have hc : AMap.contains σ.r.loc id = true := by rw [AMap.contains_eq, hl]; rfl
      simp only [needsHost, hc, if_true]
      refine ⟨?_, fun g hg => by cases hg⟩
      subst he
      rw [rr_newCalls'_of_log _ _ [.enter hh] rfl]; rfl
    · have hc : AMap.contains σ.r.loc id = false := by rw [AMap.contains_eq, hl]; rfl
      obtain ⟨idx, _, hhe, hlog, _, _⟩ := rr_createLocalSpan_spec _ _ _ _ _ hcl
      simp only [needsHost, hc, Bool.false_eq_true, if_false]
      subst he
      refine ⟨?_, ?_⟩
      · have hlog' : (w.host.emit (.enter hh)).log = (.enter hh ::
            (((chunks maxValues ((generateFields (siteOf σ.w idx) d.values).drop maxValues)).map
              (HostCall.record hh)).reverse
            ++ [HostCall.newSpan hh idx (rr_parent σ.r d)
              ((generateFields (siteOf σ.w idx) d.values).take maxValues)])) ++ σ.w.host.log := by
          rw [rr_emit_log, hlog]; rfl
        rw [rr_newCalls'_of_log _ _ _ hlog']
        simp only [List.reverse_append, List.reverse_cons, List.reverse_reverse, List.reverse_nil,
          List.nil_append]
        rw [← hhe]
        have := rr_newSpanIds_created hh idx (rr_parent σ.r d)
          (List.take maxValues (generateFields (siteOf σ.w idx) d.values))
          (chunks maxValues (List.drop maxValues (generateFields (siteOf σ.w idx) d.values)))
          [.enter hh] rfl
        simpa using this
      · intro g hg
        simp only [Option.some.injEq] at hg
        subst hg
        show AMap.get (AMap.insert σ.r.loc id hh) id = _
        rw [AMap.get_insert, if_pos rfl, hhe]
  | exited id =>
    refine ⟨?_, fun g hg => by simp [needsHost] at hg⟩
    simp only [needsHost]
    simp only [tryReceive] at h
    split at h
    · cases h
    · next l _ =>
      simp only [Res.ok.injEq] at h
      subst h
      cases l with
      | some x => rw [rr_newCalls'_of_log _ _ [.exit x] rfl]; rfl
      | none => rw [rr_newCalls'_self _ _ rfl]; rfl
  | cloned id =>
    refine ⟨?_, fun g hg => by simp [needsHost] at hg⟩
    simp only [needsHost]
    simp only [tryReceive] at h
    split at h
    · cases h
    · simp only [Res.ok.injEq] at h
      subst h
      rw [rr_newCalls'_self _ _ rfl]; rfl
  | dropped id =>
    refine ⟨?_, fun g hg => by simp [needsHost] at hg⟩
    simp only [needsHost]
    simp only [tryReceive] at h
    split at h
    · cases h
    · split at h
      · cases h
      · split at h
        · simp only [Res.ok.injEq] at h
          subst h
          rw [rr_newCalls'_self _ _ rfl]; rfl
        · split at h
          · simp only [Res.ok.injEq] at h
            subst h
            rw [rr_newCalls'_self _ _ rfl]; rfl
          · next x _ =>
            simp only [Res.ok.injEq] at h
            subst h
            rw [rr_newCalls'_of_log _ _ [.tryClose x] rfl]; rfl
  | valuesRecorded id values =>
    refine ⟨?_, fun g hg => by simp [needsHost] at hg⟩
    simp only [needsHost]
    simp only [tryReceive] at h
    split at h
    · cases h
    · split at h
      · cases h
      · next l _ =>
        cases l with
        | none =>
          simp only at h
          split at h
          · cases h
          · simp only [Res.ok.injEq] at h
            subst h
            rw [rr_newCalls'_self _ _ rfl]; rfl
        | some x =>
          simp only at h
          split at h
          · next σ₁ hrec =>
            have hσ₁ : ∃ v, σ₁ = { σ with w := { σ.w with host := σ.w.host.emit (.record x v) } } := by
              split at hrec
              · cases hrec
              · split at hrec
                · cases hrec
                · split at hrec
                  · cases hrec
                  · next v _ =>
                    simp only [Res.ok.injEq] at hrec
                    exact ⟨v, hrec.symm⟩
            obtain ⟨v, hv⟩ := hσ₁
            subst hv
            split at h
            · cases h
            · simp only [Res.ok.injEq] at h
              subst h
              rw [rr_newCalls'_of_log _ _ [.record x v] rfl]; rfl
          · next hne => exact (hne _ h).elim
  | newEvent mt parent values =>
    refine ⟨?_, fun g hg => by simp [needsHost] at hg⟩
    simp only [needsHost]
    simp only [tryReceive] at h
    split at h
    · cases h
    · split at h
      · cases h
      · split at h
        · cases h
        · split at h
          · cases h
          · simp only [Res.ok.injEq] at h
            subst h
            rw [rr_newCalls'_of_log _ _ [.event _ _ _] rfl]; rfl

/-- Once presented, a guest span keeps its host span until its last handle is dropped: so within
    one epoch of the local map it is presented at most once, and no later than its first enter. -/
theorem C03_loc_stable (σ σ' : Sigma) (e : Event) (g h : Nat) (hok : tryReceive σ e = .ok σ')
    (hl : σ.r.loc.get g = some h) :
    σ'.r.loc.get g = some h ∨ (e = .dropped g ∧ σ'.r.loc.get g = none) := by
  cases e with
  | newCallSite id d =>
    simp only [tryReceive, Res.ok.injEq] at hok
    subst hok
    left; exact hl
  | newSpan id parent mt values =>
    rcases rr_newSpan_ok σ σ' id parent mt values hok with ⟨_, _, hl'⟩ | ⟨w, hh, hc, _, _, hl'⟩
    · left; rw [hl']; exact hl
    · left
      rw [hl', AMap.get_insert]
      have hne : ¬ g = id := by
        intro e; subst e
        rw [AMap.contains_eq, hl] at hc
        cases hc
      rw [if_neg hne]; exact hl
  | followsFrom id f =>
    left
    simp only [tryReceive] at hok
    split at hok
    · cases hok
    · split at hok
      · cases hok
      · split at hok <;> (simp only [Res.ok.injEq] at hok; subst hok; exact hl)
  | entered id =>
    left
    rcases rr_entered_ok σ σ' id hok with ⟨hh, _, he⟩ | ⟨d, w, hh, hln, _, _, he⟩
    · subst he; exact hl
    · subst he
      show AMap.get (AMap.insert σ.r.loc id hh) g = some h
      rw [AMap.get_insert]
      have hne : ¬ g = id := by
        intro e; subst e
        rw [hl] at hln
        cases hln
      rw [if_neg hne]; exact hl
  | exited id =>
    left
    simp only [tryReceive] at hok
    split at hok
    · cases hok
    · simp only [Res.ok.injEq] at hok; subst hok; exact hl
  | cloned id =>
    left
    simp only [tryReceive] at hok
    split at hok
    · cases hok
    · simp only [Res.ok.injEq] at hok; subst hok; exact hl
  | dropped id =>
    simp only [tryReceive] at hok
    split at hok
    · cases hok
    · split at hok
      · cases hok
      · split at hok
        · simp only [Res.ok.injEq] at hok; subst hok; left; exact hl
        · split at hok
          · simp only [Res.ok.injEq] at hok; subst hok; left; exact hl
          · simp only [Res.ok.injEq] at hok
            subst hok
            show AMap.get (AMap.erase σ.r.loc id) g = some h ∨
              (Event.dropped id = Event.dropped g ∧ AMap.get (AMap.erase σ.r.loc id) g = none)
            rw [AMap.get_erase]
            by_cases hg : g = id
            · right; subst hg; simp
            · left; rw [if_neg hg]; exact hl
  | valuesRecorded id values =>
    left
    simp only [tryReceive] at hok
    split at hok
    · cases hok
    · split at hok
      · cases hok
      · next l _ =>
        split at hok
        · next σ₁ hrec =>
          have hσ₁ : σ₁.r = σ.r := by
            split at hrec
            · simp only [Res.ok.injEq] at hrec; subst hrec; rfl
            · split at hrec
              · cases hrec
              · split at hrec
                · cases hrec
                · split at hrec
                  · cases hrec
                  · simp only [Res.ok.injEq] at hrec; subst hrec; rfl
          split at hok
          · cases hok
          · simp only [Res.ok.injEq] at hok
            subst hok
            show AMap.get σ₁.r.loc g = some h
            rw [hσ₁]; exact hl
        · next hne => exact (hne _ hok).elim
  | newEvent mt parent values =>
    left
    simp only [tryReceive] at hok
    split at hok
    · cases hok
    · split at hok
      · cases hok
      · split at hok
        · cases hok
        · split at hok
          · cases hok
          · simp only [Res.ok.injEq] at hok; subst hok; exact hl

/-- An accepted `entered` ends with entering the guest span's host span. -/
theorem C03_enter_enters_presented (σ σ' : Sigma) (id : Nat) (hok : tryReceive σ (.entered id) = .ok σ') :
    ∃ h, σ'.r.loc.get id = some h ∧ σ'.w.host.log.head? = some (.enter h) := by
  rcases rr_entered_ok σ σ' id hok with ⟨hh, hl, he⟩ | ⟨d, w, hh, hln, _, _, he⟩
  · subst he
    exact ⟨hh, hl, rfl⟩
  · subst he
    refine ⟨hh, ?_, rfl⟩
    show AMap.get (AMap.insert σ.r.loc id hh) id = some hh
    rw [AMap.get_insert, if_pos rfl]

/-- Restored content: when a persisted span is re-created on its first enter, the host sees —
    in this order — `new_span` with the span's call site and the first 32 of its stored values
    that are fields of the call site, `record` calls with the remaining ones in chunks of 32, and
    the `enter`. A dropped or not-yet-presented explicit parent makes the span contextual. -/
theorem C03_restored_content (σ σ' : Sigma) (id : Nat) (d : SpanData) (idx : Nat)
    (hl : σ.r.loc.get id = none) (hs : σ.r.spans.get id = some d) (hm : σ.r.mt.get d.mt = some idx)
    (hok : tryReceive σ (.entered id) = .ok σ') :
    let h := σ.w.host.next
    let all := generateFields (siteOf σ.w idx) d.values
    let parent : HParent := match d.parent.bind (σ.r.loc.get ·) with
      | some ph => .explicit ph
      | none => .ctx
    newCalls' σ.w.host σ'.w.host =
      [.newSpan h idx parent (all.take maxValues)] ++ (chunks maxValues (all.drop maxValues)).map (.record h) ++ [.enter h] := by
  intro h all parent
  rcases rr_entered_ok σ σ' id hok with ⟨hh, hl', _⟩ | ⟨d', w, hh, _, hs', hcl, he⟩
  · rw [hl] at hl'; cases hl'
  · rw [hs] at hs'
    cases hs'
    obtain ⟨idx', hm', hhe, hlog, _, _⟩ := rr_createLocalSpan_spec _ _ _ _ _ hcl
    rw [hm] at hm'
    cases hm'
    subst he
    have hlog' : (w.host.emit (.enter hh)).log = (.enter hh ::
        (((chunks maxValues ((generateFields (siteOf σ.w idx) d.values).drop maxValues)).map
          (HostCall.record hh)).reverse
        ++ [HostCall.newSpan hh idx (rr_parent σ.r d)
          ((generateFields (siteOf σ.w idx) d.values).take maxValues)])) ++ σ.w.host.log := by
      rw [rr_emit_log, hlog]; rfl
    rw [rr_newCalls'_of_log _ _ _ hlog']
    simp only [List.reverse_append, List.reverse_cons, List.reverse_reverse, List.reverse_nil,
      List.nil_append]
    subst hhe
    simp only [h, all, parent, rr_parent, List.cons_append, List.nil_append]
    first | done | rfl

/-- The stored values are the latest value of every recorded field, and the call site is the
    announced one: corollary of the bookkeeping theorem, for any history. -/
theorem C03_restored_values_are_latest (w₀ : World) (ops : List HOp) (hno : noReannounceFrom {} ops = true)
    (id : Nat) (d : SpanData) (hs : (runHistory (Sys.init w₀) ops).σ.r.spans.get id = some d) :
    (runSpec {} ops).cur.alive.get id = some d ∧
    ∃ idx, (runHistory (Sys.init w₀) ops).σ.r.mt.get d.mt = some idx ∧
      (runSpec {} ops).cur.known.get d.mt = some (siteOf (runHistory (Sys.init w₀) ops).σ.w idx) := by
  have hinv := ((Inv.init w₀).run ops hno).1
  have ha : (runSpec {} ops).cur.alive.get id = some d := by
    rw [← hinv.spansEq id]; exact hs
  refine ⟨ha, ?_⟩
  obtain ⟨idx, hidx⟩ := hinv.alive_known id d hs
  refine ⟨idx, hidx, ?_⟩
  have := hinv.mtok.get d.mt
  rw [hidx] at this
  exact this.symm

/-- Events attach: an explicit parent is mapped through the local map; a contextual event is
    dispatched as contextual without touching the host's span stack, i.e. inside whatever host span
    is current — which is the guest span's host span right after it was entered. -/
theorem C03_event_parent (σ σ' : Sigma) (mt : Nat) (p : Option Nat) (vs : TVals)
    (hok : tryReceive σ (.newEvent mt p vs) = .ok σ') :
    ∃ idx v, σ'.w.host.log = .event idx (match p.bind (σ.r.loc.get ·) with
        | some h => .explicit h
        | none => .ctx) v :: σ.w.host.log ∧ σ'.w.host.stack = σ.w.host.stack := by
  simp only [tryReceive] at hok
  split at hok
  · cases hok
  · split at hok
    · cases hok
    · next idx _ =>
      split at hok
      · cases hok
      · next v _ =>
        split at hok
        · cases hok
        · next ph hmap =>
          simp only [Res.ok.injEq] at hok
          subst hok
          refine ⟨idx, v, ?_, rfl⟩
          have hph : ph = p.bind (σ.r.loc.get ·) := by
            cases p with
            | none => simp only [Except.ok.injEq] at hmap; exact hmap.symm
            | some q => exact rr_mapSpanId_ok hmap
          subst hph
          rfl

theorem C03_entered_is_current (σ σ' : Sigma) (id h : Nat) (hok : tryReceive σ (.entered id) = .ok σ')
    (hl : σ'.r.loc.get id = some h) (hfresh : ∀ e ∈ σ.w.host.stack, e.1 ≠ h) :
    stackCurrent σ'.w.host.stack = some h := by
  have hany : (σ.w.host.stack.any (·.1 == h)) = false := by
    rw [List.any_eq_false]
    intro x hx
    simpa using hfresh x hx
  have hcur : stackCurrent (stackPush σ.w.host.stack h) = some h := by
    unfold stackPush
    rw [hany]
    rfl
  rcases rr_entered_ok σ σ' id hok with ⟨hh, hl', he⟩ | ⟨d, w, hh, _, _, hcl, he⟩
  · subst he
    rw [hl'] at hl
    cases hl
    exact hcur
  · obtain ⟨_, _, _, _, hst, _⟩ := rr_createLocalSpan_spec _ _ _ _ _ hcl
    subst he
    have : AMap.get (AMap.insert σ.r.loc id hh) id = some h := hl
    rw [AMap.get_insert, if_pos rfl] at this
    have hhe : hh = h := Option.some.inj this
    show stackCurrent (stackPush w.host.stack hh) = some h
    rw [hst, hhe]
    exact hcur

/-- The persisted state at the end equals that of a run without restart: two histories with the
    same events, whatever the cut positions and modes (kept, lost, new host), persist the same
    spans. -/
theorem C03_final_state (w₁ w₂ : World) (ops₁ ops₂ : List HOp)
    (h₁ : noReannounceFrom {} ops₁ = true) (h₂ : noReannounceFrom {} ops₂ = true)
    (hd₁ : noDiscard ops₁ = true) (hd₂ : noDiscard ops₂ = true)
    (hev : eventsOf ops₁ = eventsOf ops₂) :
    lookupEq (runHistory (Sys.init w₁) ops₁).σ.r.spans (runHistory (Sys.init w₂) ops₂).σ.r.spans :=
  C02_independent_of_cuts w₁ w₂ ops₁ ops₂ h₁ h₂ hd₁ hd₂ hev

/-- Non-vacuity: the D3 witness and a D4-shaped one on the repaired model. -/
example :
    let d : CallSite := ⟨.span, [110], [97], .info, none, none, none, [[102]]⟩
    let ops : List HOp := [.ev (.newCallSite 7 d), .ev (.newSpan 1 none 7 []), .ev (.newSpan 2 (some 1) 7 [([102], .int 5)]),
      .ev (.dropped 1), .persist .loseNew, .ev (.entered 2), .ev (.newEvent 7 none [])]
    noReannounceFrom {} ops = true ∧ allValid {} ops = true ∧
    results (Sys.init {}) ops = [none, none, none, none, none, none] ∧
    (runHistory (Sys.init {}) ops).σ.w.host.log.reverse =
      [.newSpan 1 0 .ctx [([102], .i128 5)], .enter 1, .event 0 .ctx []] := by
  decide

end TT
