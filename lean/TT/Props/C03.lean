/-
  C03 — After a host restart live spans are restored faithfully; nothing is rejected.

  A "restart" is `persist .lose` / `persist .loseNew` (or a discard): the next receiver starts from
  the persisted metadata and spans with an empty local span map. Model of the repaired code
  (`fix:` 87e4544: a dropped explicit parent no longer makes the lazily re-created child fail;
  `fix:` b018624: more than 32 accumulated values are delivered by follow-up `record` calls).
-/
import TT.Lemmas.RecvSim
import TT.Props.C02

namespace TT

/-- Every event of the history is valid w.r.t. the bookkeeping (a well-formed guest execution:
    call sites announced before use, references only to alive spans, at most 32 values). -/
def allValid (ss : SpecSys) : List HOp → Bool
  | [] => true
  | .ev e :: ops => (ss.cur.invalid e).isEmpty && allValid (ss.step (.ev e)) ops
  | op :: ops => allValid (ss.step op) ops

def newCalls' (before after : Host) : List HostCall := (after.log.take (after.log.length - before.log.length)).reverse

def newSpanIds (calls : List HostCall) : List Nat :=
  calls.filterMap fun c => match c with | .newSpan h _ _ _ => some h | _ => none

/-- The guest span for which an event needs a host span that does not exist yet. -/
def needsHost (σ : Sigma) : Event → Option Nat
  | .newSpan id _ _ _ => if σ.r.loc.contains id then none else some id
  | .entered id => if σ.r.loc.contains id then none else some id
  | _ => none

/-- Nothing is rejected: every event of a well-formed execution is accepted whatever happens to
    the local map at the cuts (kept, lost, new host, discard) — including `entered c` for a span
    `c` whose explicit parent was dropped before the restart. -/
theorem C03_accepts (w₀ : World) (ops : List HOp) (hno : noReannounceFrom {} ops = true)
    (hv : allValid {} ops = true) : ∀ r ∈ results (Sys.init w₀) ops, r = none := by
  sorry

/-- A host span is created exactly when the guest span has none in the local map (at its
    announcement or, after a restart, at its first enter), exactly one is created, and the local
    map then points to it. -/
theorem C03_presented_iff_unmapped (σ σ' : Sigma) (e : Event) (h : tryReceive σ e = .ok σ') :
    newSpanIds (newCalls' σ.w.host σ'.w.host) = (match needsHost σ e with | some _ => [σ.w.host.next] | none => []) ∧
    ∀ g, needsHost σ e = some g → σ'.r.loc.get g = some σ.w.host.next := by
  sorry

/-- Once presented, a guest span keeps its host span until its last handle is dropped: so within
    one epoch of the local map it is presented at most once, and no later than its first enter. -/
theorem C03_loc_stable (σ σ' : Sigma) (e : Event) (g h : Nat) (hok : tryReceive σ e = .ok σ')
    (hl : σ.r.loc.get g = some h) :
    σ'.r.loc.get g = some h ∨ (e = .dropped g ∧ σ'.r.loc.get g = none) := by
  sorry

/-- An accepted `entered` ends with entering the guest span's host span. -/
theorem C03_enter_enters_presented (σ σ' : Sigma) (id : Nat) (hok : tryReceive σ (.entered id) = .ok σ') :
    ∃ h, σ'.r.loc.get id = some h ∧ σ'.w.host.log.head? = some (.enter h) := by
  sorry

/-- Restored content: when a persisted span is re-created on its first enter, the host sees —
    in this order — `new_span` with the span's call site and the first 32 of its stored values
    that are fields of the call site, `record` calls with the remaining ones in chunks of 32, and
    the `enter`. A dropped or not-yet-presented explicit parent makes the span contextual. -/
theorem C03_restored_content (σ σ' : Sigma) (id : Nat) (d : SpanData) (idx : Nat)
    (hl : σ.r.loc.get id = none) (hs : σ.r.spans.get id = some d) (hm : σ.r.mt.get d.mt = some idx)
    (hok : tryReceive σ (.entered id) = .ok σ') :
    let h := σ.w.host.next
    let all := generateFields (siteOf σ.w idx) d.values
    let parent : HParent := match d.parent.bind (σ.r.loc.get ·) with
      | some ph => .explicit ph
      | none => .ctx
    newCalls' σ.w.host σ'.w.host =
      [.newSpan h idx parent (all.take maxValues)] ++ (chunks maxValues (all.drop maxValues)).map (.record h) ++ [.enter h] := by
  sorry

/-- The stored values are the latest value of every recorded field, and the call site is the
    announced one: corollary of the bookkeeping theorem, for any history. -/
theorem C03_restored_values_are_latest (w₀ : World) (ops : List HOp) (hno : noReannounceFrom {} ops = true)
    (id : Nat) (d : SpanData) (hs : (runHistory (Sys.init w₀) ops).σ.r.spans.get id = some d) :
    (runSpec {} ops).cur.alive.get id = some d ∧
    ∃ idx, (runHistory (Sys.init w₀) ops).σ.r.mt.get d.mt = some idx ∧
      (runSpec {} ops).cur.known.get d.mt = some (siteOf (runHistory (Sys.init w₀) ops).σ.w idx) := by
  sorry

/-- Events attach: an explicit parent is mapped through the local map; a contextual event is
    dispatched as contextual without touching the host's span stack, i.e. inside whatever host span
    is current — which is the guest span's host span right after it was entered. -/
theorem C03_event_parent (σ σ' : Sigma) (mt : Nat) (p : Option Nat) (vs : TVals)
    (hok : tryReceive σ (.newEvent mt p vs) = .ok σ') :
    ∃ idx v, σ'.w.host.log = .event idx (match p.bind (σ.r.loc.get ·) with
        | some h => .explicit h
        | none => .ctx) v :: σ.w.host.log ∧ σ'.w.host.stack = σ.w.host.stack := by
  sorry

theorem C03_entered_is_current (σ σ' : Sigma) (id h : Nat) (hok : tryReceive σ (.entered id) = .ok σ')
    (hl : σ'.r.loc.get id = some h) (hfresh : ∀ e ∈ σ.w.host.stack, e.1 ≠ h) :
    stackCurrent σ'.w.host.stack = some h := by
  sorry

/-- The persisted state at the end equals that of a run without restart: two histories with the
    same events, whatever the cut positions and modes (kept, lost, new host), persist the same
    spans. -/
theorem C03_final_state (w₁ w₂ : World) (ops₁ ops₂ : List HOp)
    (h₁ : noReannounceFrom {} ops₁ = true) (h₂ : noReannounceFrom {} ops₂ = true)
    (hd₁ : noDiscard ops₁ = true) (hd₂ : noDiscard ops₂ = true)
    (hev : eventsOf ops₁ = eventsOf ops₂) :
    lookupEq (runHistory (Sys.init w₁) ops₁).σ.r.spans (runHistory (Sys.init w₂) ops₂).σ.r.spans :=
  C02_independent_of_cuts w₁ w₂ ops₁ ops₂ h₁ h₂ hd₁ hd₂ hev

/-- Non-vacuity: the D3 witness and a D4-shaped one on the repaired model. -/
example :
    let d : CallSite := ⟨.span, [110], [97], .info, none, none, none, [[102]]⟩
    let ops : List HOp := [.ev (.newCallSite 7 d), .ev (.newSpan 1 none 7 []), .ev (.newSpan 2 (some 1) 7 [([102], .int 5)]),
      .ev (.dropped 1), .persist .loseNew, .ev (.entered 2), .ev (.newEvent 7 none [])]
    noReannounceFrom {} ops = true ∧ allValid {} ops = true ∧
    results (Sys.init {}) ops = [none, none, none, none, none, none] ∧
    (runHistory (Sys.init {}) ops).σ.w.host.log.reverse =
      [.newSpan 1 0 .ctx [([102], .i128 5)], .enter 1, .event 0 .ctx []] := by
  decide

end TT
