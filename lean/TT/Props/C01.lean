/-
  C01 — Tunnelled traces are indistinguishable from native traces on the host.

  The same single-threaded guest program is run (a) natively under the host subscriber
  (`nativeRun`) and (b) under the sender, its event stream replayed in order through one receiver
  on an identical fresh host (`tunnelledRun`; the serde encoding in between is lossless by C11).
  A host call log with contextual parents resolved against the host's span stack *is* the trace:
  span forest with call sites, values in order, per-span enter/exit/close history, follows-from
  edges, events attached to spans, all in order.

  Allowed differences: host-local span ids (here even equal), call-site object identity (call
  sites are compared by content: index of the first site in the pool with that description),
  widening of values to the documented value model, and handle clones/drops folded into the single
  close when the last handle goes away.

  Known finding K1: the wire format cannot express "explicit root" (sender.rs maps both
  contextual and root parents to `None`). `C01_full` is therefore false of the code
  (`C01_counterexample`); `C01_partial` proves it for programs that create explicit-root spans /
  events only while no span is entered.
-/
import TT.Model.Program
import TT.Props.C12
import TT.Props.C03
import TT.Lemmas.TunnelInv

namespace TT

def HostCall.isRegister : HostCall → Bool
  | .register _ => true
  | _ => false

def nonReg (log : List HostCall) : List HostCall := log.filter (!·.isRegister)

/-- Documented value model: 64-bit integers arrive as 128-bit ones (`= toRaw ∘ visit`). -/
def widenRaw : Raw → Raw
  | .i64 i => .i128 i
  | .u64 n => .u128 n
  | r => r

def widenVals (vs : RawVals) : RawVals := vs.map fun kv => (kv.1, widenRaw kv.2)

def HostCall.widen : HostCall → HostCall
  | .newSpan h m p v => .newSpan h m p (widenVals v)
  | .record h v => .record h (widenVals v)
  | .event m p v => .event m p (widenVals v)
  | c => c

def HParent.rootAsCtx : HParent → HParent
  | .root => .ctx
  | p => p

def HostCall.rootAsCtx : HostCall → HostCall
  | .newSpan h m p v => .newSpan h m p.rootAsCtx v
  | .event m p v => .event m p.rootAsCtx v
  | c => c

def HostCall.mapMeta (f : Nat → Nat) : HostCall → HostCall
  | .register m => .register (f m)
  | .newSpan h m p v => .newSpan h (f m) p v
  | .event m p v => .event (f m) p v
  | c => c

/-- Handle counting: clones are not forwarded; a span is closed on the host exactly when its
    last handle is dropped. -/
def rcNormalizeFrom (counts : AMap Nat Nat) : List HostCall → List HostCall
  | [] => []
  | .newSpan h m p v :: cs => .newSpan h m p v :: rcNormalizeFrom (counts.insert h 1) cs
  | .clone h :: cs => rcNormalizeFrom (counts.insert h ((counts.get h).getD 0 + 1)) cs
  | .tryClose h :: cs =>
    if (counts.get h).getD 0 - 1 = 0 then .tryClose h :: rcNormalizeFrom (counts.erase h) cs
    else rcNormalizeFrom (counts.insert h ((counts.get h).getD 0 - 1)) cs
  | c :: cs => c :: rcNormalizeFrom counts cs

/-- Resolve contextual parents against the host's span stack (what a Registry-style host does). -/
def resolveCtx (stack : List (Nat × Bool)) : HParent → HParent
  | .ctx => match stackCurrent stack with
    | some c => .explicit c
    | none => .root
  | p => p

def traceFrom (stack : List (Nat × Bool)) : List HostCall → List HostCall
  | [] => []
  | .newSpan h m p v :: cs => .newSpan h m (resolveCtx stack p) v :: traceFrom stack cs
  | .event m p v :: cs => .event m (resolveCtx stack p) v :: traceFrom stack cs
  | .enter h :: cs => .enter h :: traceFrom (stackPush stack h) cs
  | .exit h :: cs => .exit h :: traceFrom (stackPop stack h) cs
  | c :: cs => c :: traceFrom stack cs

def canonK (sites : List CallSite) (k : Nat) : Nat := (indexOf? (sites.getD k default) sites).getD k

def canonIdx (w : World) (sites : List CallSite) (idx : Nat) : Nat := (indexOf? (siteOf w idx) sites).getD 0

/-- What the native host sees (oldest first), call sites by content. -/
def nativeLog (sites : List CallSite) (ops : List POp) : List HostCall :=
  (nonReg (nativeRun none sites ops).log.reverse).map (·.mapMeta (canonK sites))

/-- What the host sees through the tunnel (oldest first), call sites by content. -/
def tunnelLog (arena : List CallSite) (sites : List CallSite) (ops : List POp) : List HostCall :=
  let σ := tunnelledRun arena sites ops
  (nonReg σ.w.host.log.reverse).map (·.mapMeta (canonIdx σ.w sites))

def tunnelResults (arena : List CallSite) (sites : List CallSite) (ops : List POp) : List (Option RErr) :=
  results (Sys.init { arena, host := {} }) ((senderStream sites ops).map .ev)

def sitesDistinct (sites : List CallSite) : Prop := ∀ s ∈ sites, s.fields.Nodup

/-! ### Proof of the log simulation (helper lemmas; see also TT/Lemmas/Tunnel*.lean) -/

theorem tn_visit_toRaw (r : Raw) : (visit r).toRaw = widenRaw r := by
  cases r <;> rfl

theorem tn_tvals (f : Fields) : tvals f = widenVals (presentRaw f) := by
  unfold tvals widenVals
  apply List.map_congr_left
  intro kv _
  rw [tn_visit_toRaw]

theorem tn_tpar_root (p : SParent) : tpar p = (hparentOf p).rootAsCtx := by
  cases p <;> rfl

theorem tn_indexOf_mem (d : CallSite) (l : List CallSite) (h : d ∈ l) : ∃ i, indexOf? d l = some i := by
  induction l with
  | nil => cases h
  | cons x xs ih =>
    simp only [indexOf?]
    by_cases hx : x = d
    · exact ⟨0, by rw [if_pos hx]⟩
    · rw [if_neg hx]
      have : d ∈ xs := by
        rcases List.mem_cons.1 h with h | h
        · exact absurd h.symm hx
        · exact h
      obtain ⟨i, hi⟩ := ih this
      exact ⟨i + 1, by rw [hi]; rfl⟩

theorem tn_canon (sites : List CallSite) (w' W : World) (k idx : Nat) (hk : k < sites.length)
    (hpre : w'.arena <+: W.arena) (hlt : idx < w'.arena.length)
    (hsite : siteOf w' idx = sites.getD k default) : canonIdx W sites idx = canonK sites k := by
  obtain ⟨ext, hext⟩ := hpre
  have hW : siteOf W idx = sites.getD k default := by
    rw [← hsite]
    unfold siteOf
    rw [← hext, List.getD_eq_getElem?_getD, List.getD_eq_getElem?_getD,
      List.getElem?_append_left hlt]
  have hmem : sites.getD k default ∈ sites := by
    rw [List.getD_eq_getElem?_getD, List.getElem?_eq_getElem hk]
    exact List.getElem_mem hk
  obtain ⟨i, hi⟩ := tn_indexOf_mem _ _ hmem
  unfold canonIdx canonK
  rw [hW, hi]
  rfl

/-- The native log, as the right-hand side of `C01_log_simulation` sees it, per subscriber call. -/
def natF (sites : List CallSite) (cs : List SubCall) : List HostCall :=
  ((nonReg (cs.map callToHost)).map (·.mapMeta (canonK sites))).map fun c => c.widen.rootAsCtx

theorem tn_nonReg_append (a b : List HostCall) : nonReg (a ++ b) = nonReg a ++ nonReg b := by
  unfold nonReg
  rw [List.filter_append]

theorem tn_natF_cons (sites : List CallSite) (c : SubCall) (cs : List SubCall) :
    natF sites (c :: cs) = natF sites [c] ++ natF sites cs := by
  show natF sites ([c] ++ cs) = _
  unfold natF
  rw [List.map_append, tn_nonReg_append, List.map_append, List.map_append]

theorem tn_out_eq (sites : List CallSite) (w' W : World) (g : GSt) (counts : AMap Nat Nat)
    (c : SubCall) (new : List HostCall) (hshape : Shape sites w' counts c new)
    (hg : gok sites g c) (hpre : w'.arena <+: W.arena) (rest : List HostCall) :
    (nonReg new).map (·.mapMeta (canonIdx W sites)) ++ rcNormalizeFrom (cstep counts c) rest
      = rcNormalizeFrom counts (natF sites [c] ++ rest) := by
  cases c with
  | register k site =>
    rcases hshape with rfl | ⟨i, rfl⟩ <;> rfl
  | newSpan id k p f =>
    obtain ⟨idx, hlt, hsite, rfl⟩ := hshape
    have hcan := tn_canon sites w' W k idx hg.2.1 hpre hlt hsite
    simp [natF, nonReg, callToHost, HostCall.isRegister, HostCall.mapMeta, HostCall.widen,
      HostCall.rootAsCtx, rcNormalizeFrom, cstep, hcan, tn_tvals, tn_tpar_root]
  | record id f =>
    subst hshape
    simp [natF, nonReg, callToHost, HostCall.isRegister, HostCall.mapMeta, HostCall.widen,
      HostCall.rootAsCtx, rcNormalizeFrom, cstep, tn_tvals]
  | follows a b =>
    subst hshape
    simp [natF, nonReg, callToHost, HostCall.isRegister, HostCall.mapMeta, HostCall.widen,
      HostCall.rootAsCtx, rcNormalizeFrom, cstep]
  | enter id =>
    subst hshape
    simp [natF, nonReg, callToHost, HostCall.isRegister, HostCall.mapMeta, HostCall.widen,
      HostCall.rootAsCtx, rcNormalizeFrom, cstep]
  | exit id =>
    subst hshape
    simp [natF, nonReg, callToHost, HostCall.isRegister, HostCall.mapMeta, HostCall.widen,
      HostCall.rootAsCtx, rcNormalizeFrom, cstep]
  | clone id =>
    subst hshape
    simp [natF, nonReg, callToHost, HostCall.isRegister, HostCall.mapMeta, HostCall.widen,
      HostCall.rootAsCtx, rcNormalizeFrom, cstep]
  | tryClose id =>
    simp only [Shape] at hshape
    subst hshape
    by_cases h1 : (AMap.get counts id).getD 0 - 1 = 0
    · simp [natF, nonReg, callToHost, HostCall.isRegister, HostCall.mapMeta, HostCall.widen,
        HostCall.rootAsCtx, rcNormalizeFrom, cstep, h1]
    · simp [natF, nonReg, callToHost, HostCall.isRegister, HostCall.mapMeta, HostCall.widen,
        HostCall.rootAsCtx, rcNormalizeFrom, cstep, h1]
  | event k p f =>
    obtain ⟨idx, hlt, hsite, rfl⟩ := hshape
    have hcan := tn_canon sites w' W k idx hg.1 hpre hlt hsite
    simp [natF, nonReg, callToHost, HostCall.isRegister, HostCall.mapMeta, HostCall.widen,
      HostCall.rootAsCtx, rcNormalizeFrom, cstep, hcan, tn_tvals, tn_tpar_root]

def recvAll (σ : Sigma) (cs : List SubCall) : Sigma :=
  (cs.map callToEvent).foldl (fun σ e => (tryReceive σ e).state) σ

theorem tn_evOK_eq (sp : Spec) (e : Event) :
    (match e with | .newSpan id _ _ _ => !sp.alive.contains id | _ => true) = evOK sp e := by
  cases e <;> rfl

theorem tn_main (sites : List CallSite) (cs : List SubCall) :
    ∀ (σ : Sigma) (sp : Spec) (g : GSt) (counts : AMap Nat Nat), RInv σ sp g →
      SInv sites sp g counts → allValidEvents sp (cs.map callToEvent) = true →
      noReannounceEvents sp (cs.map callToEvent) = true → goodCalls sites g cs →
      σ.w.arena <+: (recvAll σ cs).w.arena ∧
      ∃ out, (recvAll σ cs).w.host.log = out.reverse ++ σ.w.host.log ∧
        ∀ W : World, (recvAll σ cs).w.arena <+: W.arena →
          (nonReg out).map (·.mapMeta (canonIdx W sites)) = rcNormalizeFrom counts (natF sites cs) := by
  induction cs with
  | nil =>
    intro σ sp g counts _ _ _ _ _
    exact ⟨List.prefix_refl _, [], rfl, fun _ _ => rfl⟩
  | cons c cs ih =>
    intro σ sp g counts hr hs hv hn hg
    simp only [List.map_cons, allValidEvents, noReannounceEvents, Bool.and_eq_true] at hv hn
    obtain ⟨σ', new, ht, hlog, hpre, hr', hshape⟩ :=
      tn_step sites σ sp g counts c hr hs (List.isEmpty_iff.1 hv.1) hn.1 hg.1
    have hs' := tn_sinv_step sites sp g counts c hs (List.isEmpty_iff.1 hv.1) hg.1
    have hrun : recvAll σ (c :: cs) = recvAll σ' cs := by
      simp only [recvAll, List.map_cons, List.foldl_cons, ht, Res.state]
    rw [hrun]
    obtain ⟨hpre2, out, hlog2, hout⟩ := ih σ' _ _ _ hr' hs' hv.2 hn.2 hg.2
    refine ⟨hpre.trans hpre2, new ++ out, ?_, ?_⟩
    · rw [hlog2, hlog]; simp
    · intro W hW
      rw [tn_nonReg_append, List.map_append, hout W hW, tn_natF_cons]
      exact tn_out_eq sites σ'.w W g counts c new hshape hg.1 (hpre2.trans hW) _

/-- Every event of the stream of a well-formed program is accepted. -/
theorem C01_accepts (arena sites : List CallSite) (ops : List POp) (hwf : wfProg sites ops = true)
    (hb : spansCreated ops < 2^32 - 1) : ∀ r ∈ tunnelResults arena sites ops, r = none := by
  obtain ⟨hv, hr⟩ := C12_stream_valid sites ops hwf hb
  unfold tunnelResults
  apply C03_accepts
  · rw [tn_noReannounce_ev _ _ hv]; exact hr
  · rw [tn_allValid_ev]; exact hv

/-- Call for call, the host receives through the tunnel what it would have received natively:
    values widened, clones/drops folded into the close at count zero, explicit roots arriving as
    contextual. Unconditional in the arena (any process history). -/
theorem C01_log_simulation (arena sites : List CallSite) (ops : List POp) (hwf : wfProg sites ops = true)
    (hs : sitesDistinct sites) (hb : spansCreated ops < 2^32 - 1) :
    tunnelLog arena sites ops
      = rcNormalizeFrom [] ((nativeLog sites ops).map fun c => c.widen.rootAsCtx) := by
  have hcs := C12_one_event_per_call sites ops hb
  obtain ⟨hv, hn⟩ := C12_stream_valid sites ops hwf hb
  rw [hcs] at hv hn
  have hgood := tn_callLog_good sites hs ops hwf
  have h0r : RInv { r := {}, w := { arena, host := {} } } {} {} :=
    ⟨(Inv.init { arena, host := {} }).1, fun id h => by simp [AMap.contains, AMap.get] at h, rfl⟩
  have h0s : SInv sites {} {} [] :=
    ⟨fun k d h => by simp [AMap.get] at h, fun id => rfl, fun id d h => by simp [AMap.get] at h⟩
  obtain ⟨_, out, hlog, hout⟩ := tn_main sites (callLog sites ops) _ _ _ _ h0r h0s hv hn hgood
  have hrun : tunnelledRun arena sites ops
      = recvAll { r := {}, w := { arena, host := {} } } (callLog sites ops) := by
    unfold tunnelledRun recvAll
    rw [hcs]
  have hnat : (nativeLog sites ops).map (fun c => c.widen.rootAsCtx) = natF sites (callLog sites ops) := by
    unfold nativeLog natF
    rw [tn_native_log]
  rw [hnat, ← hout _ (List.prefix_refl _)]
  unfold tunnelLog
  simp only [hrun, hlog]
  simp

/-- The full property: same trace. -/
def C01_full (arena sites : List CallSite) (ops : List POp) : Prop :=
  traceFrom [] (tunnelLog arena sites ops)
    = traceFrom [] (rcNormalizeFrom [] ((nativeLog sites ops).map (·.widen)))

/-- Explicit-root spans and events are created only while no span is entered. -/
def rootIdleFrom (stack : List (Nat × Bool)) : List HostCall → Bool
  | [] => true
  | .newSpan _ _ p _ :: cs => (p != .root || stack.isEmpty) && rootIdleFrom stack cs
  | .event _ p _ :: cs => (p != .root || stack.isEmpty) && rootIdleFrom stack cs
  | .enter h :: cs => rootIdleFrom (stackPush stack h) cs
  | .exit h :: cs => rootIdleFrom (stackPop stack h) cs
  | _ :: cs => rootIdleFrom stack cs

theorem tn_trace_rootAsCtx (xs : List HostCall) :
    ∀ (stack : List (Nat × Bool)) (counts : AMap Nat Nat), rootIdleFrom stack xs = true →
      traceFrom stack (rcNormalizeFrom counts (xs.map fun c => c.widen.rootAsCtx))
        = traceFrom stack (rcNormalizeFrom counts (xs.map (·.widen))) := by
  induction xs with
  | nil => intro _ _ _; rfl
  | cons x xs ih =>
    intro stack counts hi
    simp only [List.map_cons]
    generalize (xs.map fun c => c.widen.rootAsCtx) = A at ih ⊢
    generalize (xs.map (·.widen)) = B at ih ⊢
    cases x with
    | newSpan h m p v =>
      simp only [rootIdleFrom, Bool.and_eq_true] at hi
      obtain ⟨hp, hi⟩ := hi
      simp only [HostCall.widen, HostCall.rootAsCtx, rcNormalizeFrom, traceFrom,
        ih _ _ hi]
      congr 2
      cases p with
      | ctx => rfl
      | explicit q => rfl
      | root =>
        have : stack = [] := by simpa using hp
        subst this
        rfl
    | event m p v =>
      simp only [rootIdleFrom, Bool.and_eq_true] at hi
      obtain ⟨hp, hi⟩ := hi
      simp only [HostCall.widen, HostCall.rootAsCtx, rcNormalizeFrom, traceFrom,
        ih _ _ hi]
      congr 2
      cases p with
      | ctx => rfl
      | explicit q => rfl
      | root =>
        have : stack = [] := by simpa using hp
        subst this
        rfl
    | tryClose h =>
      simp only [rootIdleFrom] at hi
      simp only [HostCall.widen, HostCall.rootAsCtx, rcNormalizeFrom]
      split
      · simp only [traceFrom, ih _ _ hi]
      · exact ih _ _ hi
    | clone h =>
      simp only [rootIdleFrom] at hi
      simp only [HostCall.widen, HostCall.rootAsCtx, rcNormalizeFrom]
      exact ih _ _ hi
    | register m =>
      simp only [rootIdleFrom] at hi
      simp only [HostCall.widen, HostCall.rootAsCtx, rcNormalizeFrom, traceFrom,
        ih _ _ hi]
    | record h v =>
      simp only [rootIdleFrom] at hi
      simp only [HostCall.widen, HostCall.rootAsCtx, rcNormalizeFrom, traceFrom,
        ih _ _ hi]
    | follows a b =>
      simp only [rootIdleFrom] at hi
      simp only [HostCall.widen, HostCall.rootAsCtx, rcNormalizeFrom, traceFrom,
        ih _ _ hi]
    | enter h =>
      simp only [rootIdleFrom] at hi
      simp only [HostCall.widen, HostCall.rootAsCtx, rcNormalizeFrom, traceFrom,
        ih _ _ hi]
    | exit h =>
      simp only [rootIdleFrom] at hi
      simp only [HostCall.widen, HostCall.rootAsCtx, rcNormalizeFrom, traceFrom,
        ih _ _ hi]
    | base h =>
      simp only [rootIdleFrom] at hi
      simp only [HostCall.widen, HostCall.rootAsCtx, rcNormalizeFrom, traceFrom,
        ih _ _ hi]

theorem C01_partial (arena sites : List CallSite) (ops : List POp) (hwf : wfProg sites ops = true)
    (hs : sitesDistinct sites) (hb : spansCreated ops < 2^32 - 1)
    (hidle : rootIdleFrom [] (nativeLog sites ops) = true) : C01_full arena sites ops := by
  unfold C01_full
  rw [C01_log_simulation arena sites ops hwf hs hb]
  exact tn_trace_rootAsCtx (nativeLog sites ops) [] [] hidle

/-- K1: span `a` entered, then a span created with an explicit root parent: natively a second
    root, through the tunnel a child of `a`. -/
theorem C01_counterexample :
    ¬ C01_full [] [⟨.span, [115], [97], .info, none, none, none, []⟩] [.new 0 .ctx [], .ent 0, .new 0 .root []] := by
  unfold C01_full; decide

/-- K5: an event whose value set names field `f` twice: natively two visits (1, then 2), through
    the tunnel one visit (2) — `TracedValues` is an insertion-ordered map. This is the point that
    the hypothesis `distinctIdx` (inside `wfProg`) excludes. -/
theorem C01_counterexample_repeated :
    ¬ C01_full [] [⟨.event, [101], [97], .info, none, none, none, [[102]]⟩]
      [.evt 0 .ctx [(0, some (.i64 1)), (0, some (.i64 2))]] := by
  unfold C01_full; decide

/-- Non-vacuity of the hypotheses of `C01_log_simulation` / `C01_partial` (nested and re-entrant
    enters, clone, explicit parent, values of two kinds, an event). -/
example :
    let s : CallSite := ⟨.span, [115], [97], .info, none, none, none, [[102], [103]]⟩
    let e : CallSite := ⟨.event, [101], [97], .info, none, none, none, [[109]]⟩
    let ops : List POp := [.new 0 .ctx [(0, some (.i64 1)), (1, some (.str [120]))], .ent 0, .ent 0,
      .new 0 (.handle 0) [], .cln 1, .evt 1 .ctx [(0, some (.u8 7))], .ext 0, .drp 1, .ext 0, .drp 2, .drp 0]
    wfProg [s, e] ops = true ∧ rootIdleFrom [] (nativeLog [s, e] ops) = true ∧
    tunnelLog [] [s, e] ops = rcNormalizeFrom [] ((nativeLog [s, e] ops).map fun c => c.widen.rootAsCtx) := by
  decide

end TT
