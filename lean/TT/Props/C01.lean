/-
  C01 — Tunnelled traces are indistinguishable from native traces on the host.

  The same single-threaded guest program is run (a) natively under the host subscriber
  (`nativeRun`) and (b) under the sender, its event stream replayed in order through one receiver
  on an identical fresh host (`tunnelledRun`; the serde encoding in between is lossless by C11).
  A host call log with contextual parents resolved against the host's span stack *is* the trace:
  span forest with call sites, values in order, per-span enter/exit/close history, follows-from
  edges, events attached to spans, all in order.

  Allowed differences: host-local span ids (here even equal), call-site object identity (call
  sites are compared by content: index of the first site in the pool with that description),
  widening of values to the documented value model, and handle clones/drops folded into the single
  close when the last handle goes away.

  Known finding K1: the wire format cannot express "explicit root" (sender.rs maps both
  contextual and root parents to `None`). `C01_full` is therefore false of the code
  (`C01_counterexample`); `C01_partial` proves it for programs that create explicit-root spans /
  events only while no span is entered.
-/
import TT.Model.Program
import TT.Props.C12
import TT.Props.C03

namespace TT

def HostCall.isRegister : HostCall → Bool
  | .register _ => true
  | _ => false

def nonReg (log : List HostCall) : List HostCall := log.filter (!·.isRegister)

/-- Documented value model: 64-bit integers arrive as 128-bit ones (`= toRaw ∘ visit`). -/
def widenRaw : Raw → Raw
  | .i64 i => .i128 i
  | .u64 n => .u128 n
  | r => r

def widenVals (vs : RawVals) : RawVals := vs.map fun kv => (kv.1, widenRaw kv.2)

def HostCall.widen : HostCall → HostCall
  | .newSpan h m p v => .newSpan h m p (widenVals v)
  | .record h v => .record h (widenVals v)
  | .event m p v => .event m p (widenVals v)
  | c => c

def HParent.rootAsCtx : HParent → HParent
  | .root => .ctx
  | p => p

def HostCall.rootAsCtx : HostCall → HostCall
  | .newSpan h m p v => .newSpan h m p.rootAsCtx v
  | .event m p v => .event m p.rootAsCtx v
  | c => c

def HostCall.mapMeta (f : Nat → Nat) : HostCall → HostCall
  | .register m => .register (f m)
  | .newSpan h m p v => .newSpan h (f m) p v
  | .event m p v => .event (f m) p v
  | c => c

/-- Handle counting: clones are not forwarded; a span is closed on the host exactly when its
    last handle is dropped. -/
def rcNormalizeFrom (counts : AMap Nat Nat) : List HostCall → List HostCall
  | [] => []
  | .newSpan h m p v :: cs => .newSpan h m p v :: rcNormalizeFrom (counts.insert h 1) cs
  | .clone h :: cs => rcNormalizeFrom (counts.insert h ((counts.get h).getD 0 + 1)) cs
  | .tryClose h :: cs =>
    if (counts.get h).getD 0 - 1 = 0 then .tryClose h :: rcNormalizeFrom (counts.erase h) cs
    else rcNormalizeFrom (counts.insert h ((counts.get h).getD 0 - 1)) cs
  | c :: cs => c :: rcNormalizeFrom counts cs

/-- Resolve contextual parents against the host's span stack (what a Registry-style host does). -/
def resolveCtx (stack : List (Nat × Bool)) : HParent → HParent
  | .ctx => match stackCurrent stack with
    | some c => .explicit c
    | none => .root
  | p => p

def traceFrom (stack : List (Nat × Bool)) : List HostCall → List HostCall
  | [] => []
  | .newSpan h m p v :: cs => .newSpan h m (resolveCtx stack p) v :: traceFrom stack cs
  | .event m p v :: cs => .event m (resolveCtx stack p) v :: traceFrom stack cs
  | .enter h :: cs => .enter h :: traceFrom (stackPush stack h) cs
  | .exit h :: cs => .exit h :: traceFrom (stackPop stack h) cs
  | c :: cs => c :: traceFrom stack cs

def canonK (sites : List CallSite) (k : Nat) : Nat := (indexOf? (sites.getD k default) sites).getD k

def canonIdx (w : World) (sites : List CallSite) (idx : Nat) : Nat := (indexOf? (siteOf w idx) sites).getD 0

/-- What the native host sees (oldest first), call sites by content. -/
def nativeLog (sites : List CallSite) (ops : List POp) : List HostCall :=
  (nonReg (nativeRun none sites ops).log.reverse).map (·.mapMeta (canonK sites))

/-- What the host sees through the tunnel (oldest first), call sites by content. -/
def tunnelLog (arena : List CallSite) (sites : List CallSite) (ops : List POp) : List HostCall :=
  let σ := tunnelledRun arena sites ops
  (nonReg σ.w.host.log.reverse).map (·.mapMeta (canonIdx σ.w sites))

def tunnelResults (arena : List CallSite) (sites : List CallSite) (ops : List POp) : List (Option RErr) :=
  results (Sys.init { arena, host := {} }) ((senderStream sites ops).map .ev)

def sitesDistinct (sites : List CallSite) : Prop := ∀ s ∈ sites, s.fields.Nodup

/-- Every event of the stream of a well-formed program is accepted. -/
theorem C01_accepts (arena sites : List CallSite) (ops : List POp) (hwf : wfProg sites ops = true)
    (hb : spansCreated ops < 2^32 - 1) : ∀ r ∈ tunnelResults arena sites ops, r = none := by
  sorry

/-- Call for call, the host receives through the tunnel what it would have received natively:
    values widened, clones/drops folded into the close at count zero, explicit roots arriving as
    contextual. Unconditional in the arena (any process history). -/
theorem C01_log_simulation (arena sites : List CallSite) (ops : List POp) (hwf : wfProg sites ops = true)
    (hs : sitesDistinct sites) (hb : spansCreated ops < 2^32 - 1) :
    tunnelLog arena sites ops
      = rcNormalizeFrom [] ((nativeLog sites ops).map fun c => c.widen.rootAsCtx) := by
  sorry

/-- The full property: same trace. -/
def C01_full (arena sites : List CallSite) (ops : List POp) : Prop :=
  traceFrom [] (tunnelLog arena sites ops)
    = traceFrom [] (rcNormalizeFrom [] ((nativeLog sites ops).map (·.widen)))

/-- Explicit-root spans and events are created only while no span is entered. -/
def rootIdleFrom (stack : List (Nat × Bool)) : List HostCall → Bool
  | [] => true
  | .newSpan _ _ p _ :: cs => (p != .root || stack.isEmpty) && rootIdleFrom stack cs
  | .event _ p _ :: cs => (p != .root || stack.isEmpty) && rootIdleFrom stack cs
  | .enter h :: cs => rootIdleFrom (stackPush stack h) cs
  | .exit h :: cs => rootIdleFrom (stackPop stack h) cs
  | _ :: cs => rootIdleFrom stack cs

theorem C01_partial (arena sites : List CallSite) (ops : List POp) (hwf : wfProg sites ops = true)
    (hs : sitesDistinct sites) (hb : spansCreated ops < 2^32 - 1)
    (hidle : rootIdleFrom [] (nativeLog sites ops) = true) : C01_full arena sites ops := by
  sorry

/-- K1: span `a` entered, then a span created with an explicit root parent: natively a second
    root, through the tunnel a child of `a`. -/
theorem C01_counterexample :
    ¬ C01_full [] [⟨.span, [115], [97], .info, none, none, none, []⟩] [.new 0 .ctx [], .ent 0, .new 0 .root []] := by
  unfold C01_full; decide

/-- Non-vacuity of the hypotheses of `C01_log_simulation` / `C01_partial` (nested and re-entrant
    enters, clone, explicit parent, values of two kinds, an event). -/
example :
    let s : CallSite := ⟨.span, [115], [97], .info, none, none, none, [[102], [103]]⟩
    let e : CallSite := ⟨.event, [101], [97], .info, none, none, none, [[109]]⟩
    let ops : List POp := [.new 0 .ctx [(0, some (.i64 1)), (1, some (.str [120]))], .ent 0, .ent 0,
      .new 0 (.handle 0) [], .cln 1, .evt 1 .ctx [(0, some (.u8 7))], .ext 0, .drp 1, .ext 0, .drp 2, .drp 0]
    wfProg [s, e] ops = true ∧ rootIdleFrom [] (nativeLog [s, e] ops) = true ∧
    tunnelLog [] [s, e] ops = rcNormalizeFrom [] ((nativeLog [s, e] ops).map fun c => c.widen.rootAsCtx) := by
  decide

end TT
