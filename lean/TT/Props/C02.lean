/-
  C02 — Splitting an execution across receiver lifetimes is invisible to the host.

  Second clause (any cut, quiescent or not): the persisted span state depends only on the guest's
  event history — it is the reference bookkeeping `Spec` of the effective history, whatever cuts
  were made earlier and whichever host was attached (`Spec` mentions neither).
  First clause (quiescent cuts, local map retained): the host observes exactly the uncut run.

  The serde round trip of the persisted state is the identity by C11 on well-formed state and is
  executed for real by the correspondence check at every cut.
-/
import TT.Lemmas.RecvSim
import TT.Lemmas.RecvCut

namespace TT

/-- At every point of every history (cuts anywhere, map kept or lost, discards, any host): the
    receiver's persistable spans and metadata are exactly the alive spans (call site, explicit
    parent, handle count, latest value per recorded field) and known call sites of the history,
    and so is what was persisted last. -/
theorem C02_persisted_is_spec (w₀ : World) (ops : List HOp) (hno : noReannounceFrom {} ops = true) :
    let s := runHistory (Sys.init w₀) ops
    let ss := runSpec {} ops
    lookupEq s.σ.r.spans ss.cur.alive ∧ (s.σ.r.spans.map (·.1)).Nodup ∧
    lookupEq (persistMeta s.σ) ss.cur.known ∧ ((persistMeta s.σ).map (·.1)).Nodup ∧
    lookupEq s.lastPs ss.persisted.alive ∧ lookupEq s.lastPm ss.persisted.known :=
  recv_state_is_spec w₀ ops hno

/-- `persist` hands out exactly the receiver's spans (so the clause above is about what is
    persisted). -/
theorem C02_persist_returns_state (σ : Sigma) : (persist σ).1 = σ.r.spans := rfl

/-- Independence of cut positions and hosts: two histories with the same events in the same
    order, differing in where cuts are and how the map / host is treated, persist the same
    spans. (`eventsOf` drops the cut operations; discards excluded since they change the
    effective history.) -/
def eventsOf : List HOp → List Event
  | [] => []
  | .ev e :: ops => e :: eventsOf ops
  | _ :: ops => eventsOf ops

def noDiscard : List HOp → Bool
  | [] => true
  | .discard :: _ => false
  | _ :: ops => noDiscard ops

theorem C02_independent_of_cuts (w₁ w₂ : World) (ops₁ ops₂ : List HOp)
    (h₁ : noReannounceFrom {} ops₁ = true) (h₂ : noReannounceFrom {} ops₂ = true)
    (hd₁ : noDiscard ops₁ = true) (hd₂ : noDiscard ops₂ = true)
    (hev : eventsOf ops₁ = eventsOf ops₂) :
    lookupEq (runHistory (Sys.init w₁) ops₁).σ.r.spans (runHistory (Sys.init w₂) ops₂).σ.r.spans := by
  have key : ∀ (ops : List HOp) (ss : SpecSys), noDiscard ops = true →
      (runSpec ss ops).cur = (eventsOf ops).foldl
        (fun c e => if (c.invalid e).isEmpty then c.apply e else c) ss.cur := by
    intro ops
    induction ops with
    | nil => intro ss _; rfl
    | cons op ops ih =>
      intro ss hd
      cases op with
      | ev e =>
        have hd' : noDiscard ops = true := hd
        have hrec := ih (ss.step (.ev e)) hd'
        show (runSpec (ss.step (.ev e)) ops).cur = _
        rw [hrec]
        simp only [eventsOf, List.foldl_cons, SpecSys.step]
        split <;> rfl
      | persist m =>
        have hd' : noDiscard ops = true := hd
        have hrec := ih (ss.step (.persist m)) hd'
        show (runSpec (ss.step (.persist m)) ops).cur = _
        rw [hrec]
        rfl
      | discard => simp [noDiscard] at hd
  have a := (recv_state_is_spec w₁ ops₁ h₁).1
  have b := (recv_state_is_spec w₂ ops₂ h₂).1
  intro k
  rw [a k, b k, key ops₁ {} hd₁, key ops₂ {} hd₂, hev]

/-- Insert `persist keep` after the positions listed in `cuts`. -/
def withCuts (evs : List Event) (cuts : List Nat) : List HOp :=
  (evs.zipIdx.map fun (e, i) =>
    if (i + 1) ∈ cuts then [HOp.ev e, HOp.persist .keep] else [HOp.ev e]).flatten

def nonRegister : List HostCall → List HostCall :=
  List.filter fun c => match c with | .register _ => false | _ => true

theorem withCuts_eq_cutOps (cuts : List Nat) : ∀ (evs : List Event) (k : Nat),
    ((evs.zipIdx k).map fun (e, i) =>
      if (i + 1) ∈ cuts then [HOp.ev e, HOp.persist .keep] else [HOp.ev e]).flatten
      = cutOps cuts k evs
  | [], _ => rfl
  | e :: es, k => by
    simp only [List.zipIdx_cons, List.map_cons, List.flatten_cons, withCuts_eq_cutOps cuts es (k + 1),
      cutOps]
    split <;> rfl

/-- First clause. If the stream is cut (persist, restore with the retained local map) at points
    where the receiver holds no entered span, the host log, the host span stack and every
    acceptance result equal those of the uncut single-receiver run. Holds for every event
    stream, from any initial world whose arena interns each description once. -/
theorem C02_cut_invisible (w₀ : World) (harena : w₀.arena.Nodup) (evs : List Event) (cuts : List Nat)
    (hq : ∀ c ∈ cuts, (runHistory (Sys.init w₀) ((evs.take c).map .ev)).σ.r.entered = []) :
    let cut := runHistory (Sys.init w₀) (withCuts evs cuts)
    let uncut := runHistory (Sys.init w₀) (evs.map .ev)
    cut.σ.w.host.log = uncut.σ.w.host.log ∧
    cut.σ.w.host.stack = uncut.σ.w.host.stack ∧
    cut.σ.w.arena = uncut.σ.w.arena ∧
    results (Sys.init w₀) (withCuts evs cuts) = results (Sys.init w₀) (evs.map .ev) := by
  have hgood : Good (Sys.init w₀).σ := ⟨harena, (by intro _ h; cases h), List.nodup_nil⟩
  have hw : withCuts evs cuts = cutOps cuts 0 evs := withCuts_eq_cutOps cuts evs 0
  have h := cut_main cuts evs 0 (Sys.init w₀) (Sys.init w₀) rfl hgood
    (fun n _ hn => hq n (by simpa using hn))
  rw [← hw] at h
  have hwld : (runHistory (Sys.init w₀) (withCuts evs cuts)).σ.w
      = (runHistory (Sys.init w₀) (evs.map .ev)).σ.w := congrArg (fun σ => σ.w) h.1
  exact ⟨congrArg (fun w => w.host.log) hwld, congrArg (fun w => w.host.stack) hwld,
    congrArg (fun w => w.arena) hwld, h.2⟩

/-- Non-vacuity: a cut stream with a span alive (and a second one created after the cut whose
    explicit parent lives across the cut). -/
example :
    let d : CallSite := ⟨.span, [110], [97], .info, none, none, none, [[102]]⟩
    let evs : List Event := [.newCallSite 7 d, .newSpan 1 none 7 [([102], .int 1)], .entered 1, .exited 1,
      .newSpan 2 (some 1) 7 [], .entered 2, .exited 2, .dropped 2, .dropped 1]
    (runHistory (Sys.init {}) (withCuts evs [4])).σ.w.host.log
      = (runHistory (Sys.init {}) (evs.map .ev)).σ.w.host.log ∧
    (runHistory (Sys.init {}) ((evs.take 4).map .ev)).σ.r.entered = [] := by
  decide

end TT
