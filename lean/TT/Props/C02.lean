/-
  C02 — Splitting an execution across receiver lifetimes is invisible to the host.

  Second clause (any cut, quiescent or not): the persisted span state depends only on the guest's
  event history — it is the reference bookkeeping `Spec` of the effective history, whatever cuts
  were made earlier and whichever host was attached (`Spec` mentions neither).
  First clause (quiescent cuts, local map retained): the host observes exactly the uncut run.

  The serde round trip of the persisted state is the identity by C11 on well-formed state and is
  executed for real by the correspondence check at every cut.
-/
import TT.Lemmas.RecvSim

namespace TT

/-- At every point of every history (cuts anywhere, map kept or lost, discards, any host): the
    receiver's persistable spans and metadata are exactly the alive spans (call site, explicit
    parent, handle count, latest value per recorded field) and known call sites of the history,
    and so is what was persisted last. -/
theorem C02_persisted_is_spec (w₀ : World) (ops : List HOp) (hno : noReannounceFrom {} ops = true) :
    let s := runHistory (Sys.init w₀) ops
    let ss := runSpec {} ops
    lookupEq s.σ.r.spans ss.cur.alive ∧ (s.σ.r.spans.map (·.1)).Nodup ∧
    lookupEq (persistMeta s.σ) ss.cur.known ∧ ((persistMeta s.σ).map (·.1)).Nodup ∧
    lookupEq s.lastPs ss.persisted.alive ∧ lookupEq s.lastPm ss.persisted.known :=
  recv_state_is_spec w₀ ops hno

/-- `persist` hands out exactly the receiver's spans (so the clause above is about what is
    persisted). -/
theorem C02_persist_returns_state (σ : Sigma) : (persist σ).1 = σ.r.spans := rfl

/-- Independence of cut positions and hosts: two histories with the same events in the same
    order, differing in where cuts are and how the map / host is treated, persist the same
    spans. (`eventsOf` drops the cut operations; discards excluded since they change the
    effective history.) -/
def eventsOf : List HOp → List Event
  | [] => []
  | .ev e :: ops => e :: eventsOf ops
  | _ :: ops => eventsOf ops

def noDiscard : List HOp → Bool
  | [] => true
  | .discard :: _ => false
  | _ :: ops => noDiscard ops

theorem C02_independent_of_cuts (w₁ w₂ : World) (ops₁ ops₂ : List HOp)
    (h₁ : noReannounceFrom {} ops₁ = true) (h₂ : noReannounceFrom {} ops₂ = true)
    (hd₁ : noDiscard ops₁ = true) (hd₂ : noDiscard ops₂ = true)
    (hev : eventsOf ops₁ = eventsOf ops₂) :
    lookupEq (runHistory (Sys.init w₁) ops₁).σ.r.spans (runHistory (Sys.init w₂) ops₂).σ.r.spans := by
  sorry

/-- Insert `persist keep` after the positions listed in `cuts`. -/
def withCuts (evs : List Event) (cuts : List Nat) : List HOp :=
  (evs.zipIdx.map fun (e, i) =>
    if (i + 1) ∈ cuts then [HOp.ev e, HOp.persist .keep] else [HOp.ev e]).flatten

def nonRegister : List HostCall → List HostCall :=
  List.filter fun c => match c with | .register _ => false | _ => true

/-- First clause. If the stream is cut (persist, restore with the retained local map) at points
    where the receiver holds no entered span, the host log, the host span stack and every
    acceptance result equal those of the uncut single-receiver run. Holds for every event
    stream, from any initial world whose arena interns each description once. -/
theorem C02_cut_invisible (w₀ : World) (harena : w₀.arena.Nodup) (evs : List Event) (cuts : List Nat)
    (hq : ∀ c ∈ cuts, (runHistory (Sys.init w₀) ((evs.take c).map .ev)).σ.r.entered = []) :
    let cut := runHistory (Sys.init w₀) (withCuts evs cuts)
    let uncut := runHistory (Sys.init w₀) (evs.map .ev)
    cut.σ.w.host.log = uncut.σ.w.host.log ∧
    cut.σ.w.host.stack = uncut.σ.w.host.stack ∧
    cut.σ.w.arena = uncut.σ.w.arena ∧
    results (Sys.init w₀) (withCuts evs cuts) = results (Sys.init w₀) (evs.map .ev) := by
  sorry

/-- Non-vacuity: a cut stream with a span alive (and a second one created after the cut whose
    explicit parent lives across the cut). -/
example :
    let d : CallSite := ⟨.span, [110], [97], .info, none, none, none, [[102]]⟩
    let evs : List Event := [.newCallSite 7 d, .newSpan 1 none 7 [([102], .int 1)], .entered 1, .exited 1,
      .newSpan 2 (some 1) 7 [], .entered 2, .exited 2, .dropped 2, .dropped 1]
    (runHistory (Sys.init {}) (withCuts evs [4])).σ.w.host.log
      = (runHistory (Sys.init {}) (evs.map .ev)).σ.w.host.log ∧
    (runHistory (Sys.init {}) ((evs.take 4).map .ev)).σ.r.entered = [] := by
  decide

end TT
