/-
  C15 — Value collections are insertion-ordered maps; conversions agree with equality.

  Reference specification: `OMap`, a finite map together with the list of its keys in
  first-insertion order. `abs` maps a `TVals` to the `OMap` it represents; every operation of
  the collection commutes with `abs` (refinement), hence any sequence of operations behaves like
  the reference map. Conversions: for every value and typed constant the two `==` impls and the
  typed accessor agree.
-/
import TT.Lemmas.Values
import TT.Model.Wire

namespace TT

/-- Reference ordered map. -/
structure OMap where
  keys : List Str
  val : Str → Option TVal

def OMap.empty : OMap := ⟨[], fun _ => none⟩

/-- Reference insertion: keep the key's position if present, else append; return the old value. -/
def OMap.insert (m : OMap) (k : Str) (v : TVal) : OMap × Option TVal :=
  (⟨if k ∈ m.keys then m.keys else m.keys ++ [k], fun k' => if k' = k then some v else m.val k'⟩,
   m.val k)

def OMap.WF (m : OMap) : Prop := m.keys.Nodup ∧ ∀ k, (m.val k).isSome ↔ k ∈ m.keys

def TVals.abs (vs : TVals) : OMap := ⟨vs.names, vs.get⟩

theorem filterMap_congr_mem {α β : Type} (l : List α) (f g : α → Option β)
    (h : ∀ a ∈ l, f a = g a) : l.filterMap f = l.filterMap g := by
  induction l with
  | nil => rfl
  | cons a l ih =>
    simp only [List.filterMap_cons, h a (by simp)]
    rw [ih (fun b hb => h b (by simp [hb]))]

/-- Entries of the collection are exactly the reference map read out in key order. -/
theorem C15_entries_are_reference (vs : TVals) (h : vs.names.Nodup) :
    vs.iter = vs.abs.keys.filterMap fun k => (vs.abs.val k).map fun v => (k, v) := by
  induction vs with
  | nil => rfl
  | cons e rest ih =>
    obtain ⟨k, v⟩ := e
    simp only [TVals.names, List.map_cons, List.nodup_cons] at h
    have ih' := ih h.2
    simp only [TVals.iter, TVals.abs, TVals.names] at ih' ⊢
    simp only [List.map_cons, List.filterMap_cons, TVals.get_cons, if_true, Option.map_some]
    congr 1
    refine ih'.trans ?_
    apply filterMap_congr_mem
    intro x hx
    have : ¬ k = x := fun hkx => h.1 (by rw [hkx]; simpa [TVals.names] using hx)
    simp [this]

/-- `insert` refines the reference insertion (new state and returned value). -/
theorem C15_insert_refines (vs : TVals) (k : Str) (v : TVal) :
    (vs.insert k v).1.abs.keys = (vs.abs.insert k v).1.keys ∧
    (∀ k', (vs.insert k v).1.abs.val k' = (vs.abs.insert k v).1.val k') ∧
    (vs.insert k v).2 = (vs.abs.insert k v).2 := by
  refine ⟨?_, ?_, ?_⟩
  · simp only [TVals.abs, OMap.insert, TVals.names_insert]; rfl
  · intro k'; simp [TVals.abs, OMap.insert, TVals.get_insert]
  · simp [TVals.abs, OMap.insert, TVals.insert_snd]

/-- Replacement happens in place: positions of existing names never change. -/
theorem C15_insert_in_place (vs : TVals) (k : Str) (v : TVal) (h : k ∈ vs.names) :
    (vs.insert k v).1.names = vs.names ∧ (vs.insert k v).1.length = vs.length := by
  simp [TVals.names_insert, TVals.length_insert, h]

/-- Names stay duplicate-free under every operation, starting from the empty collection. -/
theorem C15_nodup_invariant (vs : TVals) (k : Str) (v : TVal) (h : vs.names.Nodup) :
    (vs.insert k v).1.names.Nodup := TVals.nodup_insert vs k v h

theorem C15_nodup_reachable (kvs : List (Str × TVal)) : (TVals.ofList kvs).names.Nodup :=
  TVals.nodup_extend [] kvs (by simp [TVals.names])

/-- `len` counts distinct names; the order is first-insertion order. -/
theorem C15_names_first_insertion_order (kvs : List (Str × TVal)) :
    (TVals.ofList kvs).names = dedupFirst (kvs.map (·.1)) := by
  rw [TVals.ofList, TVals.names_extend]
  simp [TVals.names]

theorem C15_len_counts_distinct (kvs : List (Str × TVal)) :
    (TVals.ofList kvs).len = (dedupFirst (kvs.map (·.1))).length := by
  rw [← C15_names_first_insertion_order]; simp [TVals.len, TVals.names]

/-- Lookups return the latest value inserted under the name. -/
theorem C15_get_latest (vs : TVals) (kvs : List (Str × TVal)) (k : Str) :
    (vs.extend kvs).get k = match lastVal kvs k with
      | some w => some w
      | none => vs.get k := TVals.get_extend vs kvs k

/-- Building, extending and collecting are all "insert the entries one by one". -/
theorem C15_extend_is_inserts (vs : TVals) (kvs : List (Str × TVal)) :
    vs.extend kvs = kvs.foldl (fun acc kv => (TVals.insert acc kv.1 kv.2).1) vs := rfl

theorem C15_collect_is_inserts (kvs : List (Str × TVal)) :
    TVals.ofList kvs = kvs.foldl (fun acc kv => (TVals.insert acc kv.1 kv.2).1) [] := rfl

theorem C15_extend_append (vs : TVals) (xs ys : List (Str × TVal)) :
    vs.extend (xs ++ ys) = (vs.extend xs).extend ys := TVals.extend_append vs xs ys

/-- Iteration: forwards and by value yield the entries, backwards their reverse; lengths exact. -/
theorem C15_iterators (vs : TVals) :
    vs.iter = vs ∧ vs.intoIter = vs ∧ vs.iterRev = vs.iter.reverse ∧
    vs.iter.length = vs.len ∧ vs.iterRev.length = vs.len := by
  simp [TVals.iter, TVals.intoIter, TVals.iterRev, TVals.len]

/-! ### Conversions agree with equality -/

theorem C15_conv_bool (v : TVal) (x : Bool) : v.eqBool x = (v.asBool == some x) := by
  cases v <;> simp [TVal.eqBool, TVal.asBool]

theorem C15_conv_i128 (v : TVal) (x : Int) : v.eqI128 x = (v.asInt == some x) := by
  cases v <;> simp [TVal.eqI128, TVal.asInt]

theorem C15_conv_u128 (v : TVal) (x : Nat) : v.eqU128 x = (v.asUInt == some x) := by
  cases v <;> simp [TVal.eqU128, TVal.asUInt]

theorem C15_conv_str (v : TVal) (x : Str) : v.eqStr x = (v.asStr == some x) := by
  cases v <;> simp [TVal.eqStr, TVal.asStr]

/-- `i64`: for every constant in the `i64` range. -/
theorem C15_conv_i64 (v : TVal) (x : Int) (hx : inI64 x = true) : v.eqI64 x = (v.asI64 == some x) := by
  cases v with
  | int i =>
    simp only [TVal.eqI64, TVal.asI64]
    by_cases hi : inI64 i = true
    · simp [hi]
    · simp only [hi]
      have : i ≠ x := fun h => hi (h ▸ hx)
      simp [this]
  | _ => simp [TVal.eqI64, TVal.asI64]

theorem C15_conv_u64 (v : TVal) (x : Nat) (hx : inU64 x = true) : v.eqU64 x = (v.asU64 == some x) := by
  cases v with
  | uint n =>
    simp only [TVal.eqU64, TVal.asU64]
    by_cases hn : inU64 n = true
    · simp [hn]
    · simp only [hn]
      have : n ≠ x := fun h => hn (h ▸ hx)
      simp [this]
  | _ => simp [TVal.eqU64, TVal.asU64]

/-- `f64`: IEEE equality on both sides (so NaN agrees by being unequal everywhere). -/
theorem C15_conv_f64 (v : TVal) (x : Nat) : v.eqF64 x = optF64Eq v.asFloat (some x) := by
  cases v <;> simp [TVal.eqF64, TVal.asFloat, optF64Eq]

/-- 64-bit views succeed exactly when the stored 128-bit number fits. -/
theorem C15_i64_view_iff_fits (v : TVal) :
    (v.asI64).isSome ↔ ∃ i, v = .int i ∧ inI64 i = true := by
  cases v <;> simp [TVal.asI64]

theorem C15_u64_view_iff_fits (v : TVal) :
    (v.asU64).isSome ↔ ∃ n, v = .uint n ∧ inU64 n = true := by
  cases v <;> simp [TVal.asU64]

theorem C15_i64_view_value (v : TVal) (i : Int) : v.asI64 = some i → v = .int i := by
  cases v <;> simp [TVal.asI64]

/-! Non-vacuity / concrete instances -/

example : (TVals.ofList [([97], .int 1), ([98], .bool true), ([97], .uint 7)])
    = [([97], .uint 7), ([98], .bool true)] := by decide

example : inI64 (2^63 - 1) = true ∧ inI64 (2^63) = false ∧ inI64 (-(2^63)) = true ∧
    inI64 (-(2^63) - 1) = false := by decide

example : (TVal.int (2^63)).asI64 = none ∧ (TVal.int (2^63 - 1)).asI64 = some (2^63 - 1) := by decide

end TT
