/-
  C12 — The sender emits a well-formed, faithful stream with unique span ids.

  `senderSub` models `TracingEventSender` (sender.rs); `feStep`/`runProg` model the `tracing`
  front end (environment). `logSub` is an independent recording subscriber that issues ids
  1, 2, 3, … without any width limit: the program's own operation log.
-/
import TT.Model.Program
import TT.Model.History
import TT.Lemmas.Sender

namespace TT

/-- One subscriber call, as made by the front end. -/
inductive SubCall where
  | register (k : Nat) (site : CallSite)
  | newSpan (id k : Nat) (p : SParent) (fields : Fields)
  | record (id : Nat) (fields : Fields)
  | follows (a b : Nat)
  | enter (id : Nat)
  | exit (id : Nat)
  | clone (id : Nat)
  | tryClose (id : Nat)
  | event (k : Nat) (p : SParent) (fields : Fields)
  deriving Repr, Inhabited, DecidableEq

structure LogState where
  next : Nat := 1
  calls : List SubCall := []     -- newest first
  deriving Repr, Inhabited

def logSub : Subscriber LogState where
  enabled _ _ := true
  register st k site := { st with calls := .register k site :: st.calls }
  newSpan st k _ p fields := ({ next := st.next + 1, calls := .newSpan st.next k p fields :: st.calls }, st.next)
  record st id fields := { st with calls := .record id fields :: st.calls }
  follows st a b := { st with calls := .follows a b :: st.calls }
  enter st id := { st with calls := .enter id :: st.calls }
  exit st id := { st with calls := .exit id :: st.calls }
  clone st id := { st with calls := .clone id :: st.calls }
  tryClose st id := { st with calls := .tryClose id :: st.calls }
  event st k _ p fields := { st with calls := .event k p fields :: st.calls }

/-- The program's own operation log. -/
def callLog (sites : List CallSite) (ops : List POp) : List SubCall :=
  (runProg logSub sites { sub := ({} : LogState) } ops).sub.calls.reverse

/-- The event that must be emitted for a subscriber call: same span ids, the explicit parent
    (contextual and explicit-root both give none: the wire format cannot tell them apart — see
    C01), the call-site id, and the values captured as in C14. -/
def callToEvent : SubCall → Event
  | .register k site => .newCallSite k site
  | .newSpan id k p fields => .newSpan id (sparentId p) k (capture fields)
  | .record id fields => .valuesRecorded id (capture fields)
  | .follows a b => .followsFrom a b
  | .enter id => .entered id
  | .exit id => .exited id
  | .clone id => .cloned id
  | .tryClose id => .dropped id
  | .event k p fields => .newEvent k (sparentId p) (capture fields)

def spansCreated (ops : List POp) : Nat := (ops.filter fun o => match o with | .new _ _ _ => true | _ => false).length

/-! ### Sender and log run in lock step -/

theorem spansCreated_cons (op : POp) (ops : List POp) :
    spansCreated (op :: ops) = spansCreated [op] + spansCreated ops := by
  cases op <;> simp [spansCreated] <;> omega

/-- Sender front end and log front end agree. -/
def SRel (fe1 : FE SenderState) (fe2 : FE LogState) : Prop :=
  fe1.handles = fe2.handles ∧ fe1.registered = fe2.registered ∧ fe1.sub.next = fe2.sub.next ∧
  fe1.sub.out = fe2.sub.calls.map callToEvent

theorem srel_step (sites : List CallSite) (fe1 : FE SenderState) (fe2 : FE LogState) (op : POp)
    (h : SRel fe1 fe2) (hb : fe2.sub.next + spansCreated [op] < 2^32) :
    SRel (feStep senderSub sites fe1 op) (feStep logSub sites fe2 op) ∧
    (feStep logSub sites fe2 op).sub.next = fe2.sub.next + spansCreated [op] := by
  obtain ⟨⟨next, out⟩, handles, registered⟩ := fe1
  obtain ⟨⟨next2, calls⟩, handles2, registered2⟩ := fe2
  obtain ⟨h1, h2, h3, h4⟩ := h
  simp only at h1 h2 h3 h4
  subst h1 h2 h3 h4
  cases op with
  | reg k =>
    simp [feStep, senderSub, logSub, SRel, callToEvent, spansCreated]
  | new k p vals =>
    have hw : wrap32 (next + 1) = next + 1 := sd_wrap32_of_lt (by simpa [spansCreated] using hb)
    by_cases hk : k ∈ registered
    · simp [feStep, ensureRegistered, hk, senderSub, logSub, SRel, callToEvent, spansCreated, hw,
        resolveParent, FE.handle, FE.handleSite]
    · simp [feStep, ensureRegistered, hk, senderSub, logSub, SRel, callToEvent, spansCreated, hw,
        resolveParent, FE.handle, FE.handleSite]
  | record s vals =>
    simp only [feStep, FE.handleSite]
    cases hh : (handles[s]?).join with
    | none => simp [SRel, spansCreated]
    | some idk => simp [senderSub, logSub, SRel, callToEvent, spansCreated]
  | fol s t =>
    simp only [feStep, FE.handle, FE.handleSite]
    cases hs : (handles[s]?).join <;> cases ht : (handles[t]?).join <;>
      simp [senderSub, logSub, SRel, callToEvent, spansCreated]
  | ent s =>
    simp only [feStep, FE.handle, FE.handleSite]
    cases hs : (handles[s]?).join <;> simp [senderSub, logSub, SRel, callToEvent, spansCreated]
  | ext s =>
    simp only [feStep, FE.handle, FE.handleSite]
    cases hs : (handles[s]?).join <;> simp [senderSub, logSub, SRel, callToEvent, spansCreated]
  | cln s =>
    simp only [feStep, FE.handleSite]
    cases hs : (handles[s]?).join <;> simp [senderSub, logSub, SRel, callToEvent, spansCreated]
  | drp s =>
    simp only [feStep, FE.handle, FE.handleSite]
    cases hs : (handles[s]?).join <;> simp [senderSub, logSub, SRel, callToEvent, spansCreated]
  | evt k p vals =>
    by_cases hk : k ∈ registered
    · simp [feStep, ensureRegistered, hk, senderSub, logSub, SRel, callToEvent, spansCreated,
        resolveParent, FE.handle, FE.handleSite]
    · simp [feStep, ensureRegistered, hk, senderSub, logSub, SRel, callToEvent, spansCreated,
        resolveParent, FE.handle, FE.handleSite]

theorem srel_run (sites : List CallSite) (ops : List POp) :
    ∀ (fe1 : FE SenderState) (fe2 : FE LogState), SRel fe1 fe2 →
      fe2.sub.next + spansCreated ops < 2^32 →
      SRel (runProg senderSub sites fe1 ops) (runProg logSub sites fe2 ops) := by
  induction ops with
  | nil => intro fe1 fe2 h _; exact h
  | cons op ops ih =>
    intro fe1 fe2 h hb
    rw [spansCreated_cons] at hb
    have hs := srel_step sites fe1 fe2 op h (by omega)
    simp only [runProg, List.foldl_cons]
    exact ih _ _ hs.1 (by rw [hs.2]; omega)

/-- Exactly one event per subscriber operation, in program order, carrying the operation's span
    ids, explicit parent and values — as long as fewer than 2^32 − 1 spans are created. -/
theorem C12_one_event_per_call (sites : List CallSite) (ops : List POp) (hb : spansCreated ops < 2^32 - 1) :
    senderStream sites ops = (callLog sites ops).map callToEvent := by
  have h := srel_run sites ops { sub := ({} : SenderState) } { sub := ({} : LogState) }
    ⟨rfl, rfl, rfl, rfl⟩ (by show 1 + spansCreated ops < 2^32; omega)
  unfold senderStream callLog
  rw [h.2.2.2, List.map_reverse]

/-- Scan: every call-site id used by a span or event was announced earlier with the content of
    the call site's metadata. -/
def announcedFrom (sites : List CallSite) (announced : List Nat) : List Event → Bool
  | [] => true
  | .newCallSite k d :: es => decide (d = sites.getD k default) && announcedFrom sites (k :: announced) es
  | .newSpan _ _ k _ :: es => announced.contains k && announcedFrom sites announced es
  | .newEvent k _ _ :: es => announced.contains k && announcedFrom sites announced es
  | _ :: es => announcedFrom sites announced es

/-- The call sites announced by a stream, on top of `a`. -/
def announcedAfter : List Nat → List Event → List Nat
  | a, [] => a
  | a, .newCallSite k _ :: es => announcedAfter (k :: a) es
  | a, _ :: es => announcedAfter a es

theorem announcedAfter_append (a : List Nat) (xs ys : List Event) :
    announcedAfter a (xs ++ ys) = announcedAfter (announcedAfter a xs) ys := by
  induction xs generalizing a with
  | nil => rfl
  | cons x xs ih => cases x <;> simp [announcedAfter, ih]

theorem announcedFrom_append (sites : List CallSite) (a : List Nat) (xs ys : List Event) :
    announcedFrom sites a (xs ++ ys) =
      (announcedFrom sites a xs && announcedFrom sites (announcedAfter a xs) ys) := by
  induction xs generalizing a with
  | nil => simp [announcedFrom, announcedAfter]
  | cons x xs ih => cases x <;> simp [announcedFrom, announcedAfter, ih, Bool.and_assoc]

def AInv (sites : List CallSite) (fe : FE SenderState) : Prop :=
  announcedFrom sites [] fe.sub.out.reverse = true ∧
  ∀ k ∈ fe.registered, k ∈ announcedAfter [] fe.sub.out.reverse

theorem ainv_step (sites : List CallSite) (fe : FE SenderState) (op : POp) (h : AInv sites fe) :
    AInv sites (feStep senderSub sites fe op) := by
  obtain ⟨⟨next, out⟩, handles, registered⟩ := fe
  obtain ⟨h1, h2⟩ := h
  simp only at h1 h2
  cases op with
  | reg k =>
    by_cases hk : k ∈ registered
    · simp [feStep, senderSub, AInv, announcedFrom_append, announcedAfter_append, announcedFrom,
        announcedAfter, h1, hk]
      intro k' hk'; exact Or.inr (h2 k' hk')
    · simp [feStep, senderSub, AInv, announcedFrom_append, announcedAfter_append, announcedFrom,
        announcedAfter, h1, hk]
      intro k' hk'; exact hk'.elim (fun h => Or.inr (h2 k' h)) Or.inl
  | new k p vals =>
    by_cases hk : k ∈ registered
    · simp [feStep, ensureRegistered, senderSub, AInv, announcedFrom_append, announcedAfter_append,
        announcedFrom, announcedAfter, h1, hk]
      exact ⟨h2 k hk, h2⟩
    · simp [feStep, ensureRegistered, senderSub, AInv, announcedFrom_append, announcedAfter_append,
        announcedFrom, announcedAfter, h1, hk]
      intro k' hk'; exact hk'.elim (fun h => Or.inr (h2 k' h)) Or.inl
  | record s vals =>
    simp only [feStep, FE.handleSite]
    cases hh : (handles[s]?).join <;>
      simp [senderSub, AInv, announcedFrom_append, announcedAfter_append, announcedFrom,
        announcedAfter, h1] <;> exact h2
  | fol s t =>
    simp only [feStep, FE.handle, FE.handleSite]
    cases hs : (handles[s]?).join <;> cases ht : (handles[t]?).join <;>
      simp [senderSub, AInv, announcedFrom_append, announcedAfter_append, announcedFrom,
        announcedAfter, h1] <;> exact h2
  | ent s =>
    simp only [feStep, FE.handle, FE.handleSite]
    cases hs : (handles[s]?).join <;>
      simp [senderSub, AInv, announcedFrom_append, announcedAfter_append, announcedFrom,
        announcedAfter, h1] <;> exact h2
  | ext s =>
    simp only [feStep, FE.handle, FE.handleSite]
    cases hs : (handles[s]?).join <;>
      simp [senderSub, AInv, announcedFrom_append, announcedAfter_append, announcedFrom,
        announcedAfter, h1] <;> exact h2
  | cln s =>
    simp only [feStep, FE.handleSite]
    cases hs : (handles[s]?).join <;>
      simp [senderSub, AInv, announcedFrom_append, announcedAfter_append, announcedFrom,
        announcedAfter, h1] <;> exact h2
  | drp s =>
    simp only [feStep, FE.handle, FE.handleSite]
    cases hs : (handles[s]?).join <;>
      simp [senderSub, AInv, announcedFrom_append, announcedAfter_append, announcedFrom,
        announcedAfter, h1] <;> exact h2
  | evt k p vals =>
    by_cases hk : k ∈ registered
    · simp [feStep, ensureRegistered, senderSub, AInv, announcedFrom_append, announcedAfter_append,
        announcedFrom, announcedAfter, h1, hk]
      exact ⟨h2 k hk, h2⟩
    · simp [feStep, ensureRegistered, senderSub, AInv, announcedFrom_append, announcedAfter_append,
        announcedFrom, announcedAfter, h1, hk]
      intro k' hk'; exact hk'.elim (fun h => Or.inr (h2 k' h)) Or.inl

theorem ainv_run (sites : List CallSite) (ops : List POp) :
    ∀ fe : FE SenderState, AInv sites fe → AInv sites (runProg senderSub sites fe ops) := by
  induction ops with
  | nil => intro fe h; exact h
  | cons op ops ih =>
    intro fe h
    simp only [runProg, List.foldl_cons]
    exact ih _ (ainv_step sites fe op h)

theorem C12_announced_before_use (sites : List CallSite) (ops : List POp) :
    announcedFrom sites [] (senderStream sites ops) = true := by
  exact (ainv_run sites ops { sub := ({} : SenderState) } ⟨rfl, by simp⟩).1

def newSpanId? : Event → Option Nat
  | .newSpan id _ _ _ => some id
  | _ => none

def IdsInv (fe : FE SenderState) (n : Nat) : Prop :=
  fe.sub.next = n + 1 ∧ fe.sub.out.reverse.filterMap newSpanId? = List.range' 1 n

theorem ids_step (sites : List CallSite) (fe : FE SenderState) (n : Nat) (op : POp)
    (h : IdsInv fe n) (hb : n + 1 + spansCreated [op] < 2^32) :
    IdsInv (feStep senderSub sites fe op) (n + spansCreated [op]) := by
  obtain ⟨⟨next, out⟩, handles, registered⟩ := fe
  obtain ⟨h1, h2⟩ := h
  simp only at h1 h2
  subst h1
  cases op with
  | reg k =>
    simp [feStep, senderSub, IdsInv, spansCreated, newSpanId?, h2]
  | new k p vals =>
    have hw : wrap32 (n + 1 + 1) = n + 1 + 1 := sd_wrap32_of_lt (by simpa [spansCreated] using hb)
    by_cases hk : k ∈ registered
    · simp [feStep, ensureRegistered, hk, senderSub, IdsInv, spansCreated, hw, newSpanId?, h2,
        List.range'_1_concat]
      omega
    · simp [feStep, ensureRegistered, hk, senderSub, IdsInv, spansCreated, hw, newSpanId?, h2,
        List.range'_1_concat, List.filterMap_cons]
      omega
  | record s vals =>
    simp only [feStep, FE.handleSite]
    cases hh : (handles[s]?).join <;> simp [senderSub, IdsInv, spansCreated, newSpanId?, h2]
  | fol s t =>
    simp only [feStep, FE.handle, FE.handleSite]
    cases hs : (handles[s]?).join <;> cases ht : (handles[t]?).join <;>
      simp [senderSub, IdsInv, spansCreated, newSpanId?, h2]
  | ent s =>
    simp only [feStep, FE.handle, FE.handleSite]
    cases hs : (handles[s]?).join <;> simp [senderSub, IdsInv, spansCreated, newSpanId?, h2]
  | ext s =>
    simp only [feStep, FE.handle, FE.handleSite]
    cases hs : (handles[s]?).join <;> simp [senderSub, IdsInv, spansCreated, newSpanId?, h2]
  | cln s =>
    simp only [feStep, FE.handleSite]
    cases hs : (handles[s]?).join <;> simp [senderSub, IdsInv, spansCreated, newSpanId?, h2]
  | drp s =>
    simp only [feStep, FE.handle, FE.handleSite]
    cases hs : (handles[s]?).join <;> simp [senderSub, IdsInv, spansCreated, newSpanId?, h2]
  | evt k p vals =>
    by_cases hk : k ∈ registered
    · simp [feStep, ensureRegistered, hk, senderSub, IdsInv, spansCreated, newSpanId?, h2]
    · simp [feStep, ensureRegistered, hk, senderSub, IdsInv, spansCreated, newSpanId?, h2]

theorem ids_run (sites : List CallSite) (ops : List POp) :
    ∀ (fe : FE SenderState) (n : Nat), IdsInv fe n → n + 1 + spansCreated ops < 2^32 →
      IdsInv (runProg senderSub sites fe ops) (n + spansCreated ops) := by
  induction ops with
  | nil => intro fe n h _; simpa [spansCreated, runProg] using h
  | cons op ops ih =>
    intro fe n h hb
    rw [spansCreated_cons] at hb ⊢
    have hs := ids_step sites fe n op h (by omega)
    simp only [runProg, List.foldl_cons]
    have := ih _ _ hs (by omega)
    rw [Nat.add_assoc] at this
    exact this

/-- Span ids are 1, 2, 3, … in creation order: non-zero and never reused. -/
theorem C12_ids_fresh (sites : List CallSite) (ops : List POp) (hb : spansCreated ops < 2^32 - 1) :
    ∃ n, n ≤ spansCreated ops ∧ (senderStream sites ops).filterMap newSpanId? = List.range' 1 n := by
  have h := ids_run sites ops { sub := ({} : SenderState) } 0 ⟨rfl, rfl⟩ (by omega)
  exact ⟨0 + spansCreated ops, by omega, h.2⟩

theorem C12_ids_nonzero_distinct (sites : List CallSite) (ops : List POp) (hb : spansCreated ops < 2^32 - 1) :
    ((senderStream sites ops).filterMap newSpanId?).Nodup ∧
    ∀ id ∈ (senderStream sites ops).filterMap newSpanId?, id ≠ 0 := by
  obtain ⟨n, _, hn⟩ := C12_ids_fresh sites ops hb
  rw [hn]
  refine ⟨List.nodup_range', ?_⟩
  intro id hid
  rw [List.mem_range'_1] at hid
  omega

/-! ### Well-formed programs: every reference lies between creation and the last drop -/

structure WfSt where
  spanOf : List Nat := []      -- span number behind each handle
  live : List Bool := []       -- handle not yet dropped
  nSpans : Nat := 0
  entered : List Nat := []     -- span numbers currently entered (with multiplicity)
  deriving Repr, Inhabited

def WfSt.liveH (st : WfSt) (s : Nat) : Bool := st.live.getD s false

def WfSt.parentOK (st : WfSt) : PParent → Bool
  | .handle s => st.liveH s
  | _ => true

def distinctIdx (vals : PVals) : Bool := decide ((vals.map (·.1)).Nodup)

/-- One step of the well-formedness check (handles live when used, exit only what is entered —
    in any order, re-entrant allowed —, the last handle of a span is not dropped while the span
    is entered, at most 32 distinct fields per operation). -/
def wfStep (sites : List CallSite) (st : WfSt) : POp → Option WfSt
  | .reg _ => some st
  | .new k p vals =>
    if st.parentOK p && distinctIdx vals && decide (vals.length ≤ 32) && decide (k < sites.length) then
      some { st with spanOf := st.spanOf ++ [st.nSpans], live := st.live ++ [true], nSpans := st.nSpans + 1 }
    else none
  | .evt k p vals =>
    if st.parentOK p && distinctIdx vals && decide (vals.length ≤ 32) && decide (k < sites.length) then some st else none
  | .record s vals => if st.liveH s && distinctIdx vals && decide (vals.length ≤ 32) then some st else none
  | .fol a b => if st.liveH a && st.liveH b then some st else none
  | .ent s => if st.liveH s then some { st with entered := st.spanOf.getD s 0 :: st.entered } else none
  | .ext s =>
    if st.liveH s && st.entered.contains (st.spanOf.getD s 0) then
      some { st with entered := st.entered.erase (st.spanOf.getD s 0) }
    else none
  | .cln s =>
    if st.liveH s then some { st with spanOf := st.spanOf ++ [st.spanOf.getD s 0], live := st.live ++ [true] } else none
  | .drp s =>
    if st.liveH s then
      let span := st.spanOf.getD s 0
      let others := ((List.range st.live.length).filter fun i => i != s && st.live.getD i false && st.spanOf.getD i 0 == span).length
      if others = 0 && st.entered.contains span then none
      else some { st with live := st.live.set s false }
    else none

def wfFrom (sites : List CallSite) (st : WfSt) : List POp → Bool
  | [] => true
  | op :: ops => match wfStep sites st op with
    | some st' => wfFrom sites st' ops
    | none => false

def wfProg (sites : List CallSite) (ops : List POp) : Bool := wfFrom sites {} ops

def allValidEvents (sp : Spec) : List Event → Bool
  | [] => true
  | e :: es => (sp.invalid e).isEmpty && allValidEvents (sp.apply e) es

def noReannounceEvents (sp : Spec) : List Event → Bool
  | [] => true
  | e :: es => (match e with | .newSpan id _ _ _ => !sp.alive.contains id | _ => true) && noReannounceEvents (sp.apply e) es

/-! ### Proof of validity: bookkeeping invariant between program, front end and `Spec` -/

theorem allValid_append (sp : Spec) (xs ys : List Event) :
    allValidEvents sp (xs ++ ys) =
      (allValidEvents sp xs && allValidEvents (xs.foldl Spec.apply sp) ys) := by
  induction xs generalizing sp with
  | nil => simp [allValidEvents]
  | cons x xs ih => simp [allValidEvents, ih, Bool.and_assoc]

theorem noReannounce_append (sp : Spec) (xs ys : List Event) :
    noReannounceEvents sp (xs ++ ys) =
      (noReannounceEvents sp xs && noReannounceEvents (xs.foldl Spec.apply sp) ys) := by
  induction xs generalizing sp with
  | nil => simp [noReannounceEvents]
  | cons x xs ih => simp [noReannounceEvents, ih, Bool.and_assoc]

/-- Number of live handles of span number `n`. -/
def liveCount : List Bool → List Nat → Nat → Nat
  | b :: bs, m :: ms, n => (if b && m == n then 1 else 0) + liveCount bs ms n
  | _, _, _ => 0

theorem liveCount_append (live : List Bool) (spanOf : List Nat) (b : Bool) (m n : Nat)
    (hlen : live.length = spanOf.length) :
    liveCount (live ++ [b]) (spanOf ++ [m]) n =
      liveCount live spanOf n + (if b && m == n then 1 else 0) := by
  induction live generalizing spanOf with
  | nil =>
    cases spanOf with
    | nil => simp [liveCount]
    | cons _ _ => simp at hlen
  | cons b' bs ih =>
    cases spanOf with
    | nil => simp at hlen
    | cons m' ms =>
      simp only [List.length_cons, Nat.add_right_cancel_iff] at hlen
      simp only [List.cons_append, liveCount, ih ms hlen]
      omega

theorem liveCount_set (live : List Bool) (spanOf : List Nat) (s n : Nat)
    (hl : live.getD s false = true) (hlen : live.length = spanOf.length) :
    liveCount (live.set s false) spanOf n + (if spanOf.getD s 0 = n then 1 else 0) =
      liveCount live spanOf n := by
  induction live generalizing spanOf s with
  | nil => simp at hl
  | cons b bs ih =>
    cases spanOf with
    | nil => simp at hlen
    | cons m ms =>
      simp only [List.length_cons, Nat.add_right_cancel_iff] at hlen
      cases s with
      | zero =>
        simp at hl
        subst hl
        by_cases hmn : m = n <;> simp [liveCount, hmn] <;> omega
      | succ s' =>
        have hl' : bs.getD s' false = true := by simpa using hl
        have := ih ms s' hl' hlen
        simp only [List.set_cons_succ, liveCount]
        simp only [List.getD_eq_getElem?_getD, List.getElem?_cons_succ] at this ⊢
        omega

theorem liveCount_zero (live : List Bool) (spanOf : List Nat) (N : Nat)
    (h : ∀ m ∈ spanOf, m < N) : liveCount live spanOf N = 0 := by
  induction live generalizing spanOf with
  | nil => simp [liveCount]
  | cons b bs ih =>
    cases spanOf with
    | nil => simp [liveCount]
    | cons m ms =>
      have hm : m < N := h m (by simp)
      have hne : ¬ m = N := by omega
      simp [liveCount, hne, ih ms (fun x hx => h x (by simp [hx]))]

theorem getD_true_lt (live : List Bool) (s : Nat) (h : live.getD s false = true) : s < live.length := by
  by_cases hs : s < live.length
  · exact hs
  · simp [List.getD_eq_getElem?_getD, List.getElem?_eq_none (Nat.le_of_not_lt hs)] at h

def handleAt (handles : List (Option (Nat × Nat))) (s : Nat) : Option Nat :=
  ((handles[s]?).join).map (·.1)

theorem handleAt_append (handles : List (Option (Nat × Nat))) (spanOf : List Nat)
    (hlen : handles.length = spanOf.length)
    (hnd : ∀ s, s < spanOf.length → handleAt handles s = some (spanOf.getD s 0 + 1)) (m k : Nat) :
    ∀ s, s < (spanOf ++ [m]).length →
      handleAt (handles ++ [some (m + 1, k)]) s = some ((spanOf ++ [m]).getD s 0 + 1) := by
  intro s hs
  simp only [List.length_append, List.length_cons, List.length_nil] at hs
  by_cases h1 : s < spanOf.length
  · have h2 : s < handles.length := by omega
    have := hnd s h1
    simp only [handleAt, List.getD_eq_getElem?_getD] at this ⊢
    rw [List.getElem?_append_left h2, List.getElem?_append_left h1]
    exact this
  · have h2 : s = spanOf.length := by omega
    subst h2
    simp only [handleAt, List.getD_eq_getElem?_getD]
    rw [← hlen, List.getElem?_append_right (Nat.le_refl _)]
    rw [hlen, List.getElem?_append_right (Nat.le_refl _)]
    simp

/-- The invariant: `spanOf`/`live`/`nSpans` is the well-formedness state of the program so far,
    `fe` the front end under the sender, `sp` the bookkeeping after the events emitted so far. -/
structure VInv (spanOf : List Nat) (live : List Bool) (nSpans : Nat) (fe : FE SenderState)
    (sp : Spec) : Prop where
  lenL : live.length = spanOf.length
  lenH : fe.handles.length = spanOf.length
  hnd : ∀ s, s < spanOf.length → handleAt fe.handles s = some (spanOf.getD s 0 + 1)
  next : fe.sub.next = nSpans + 1
  lt : ∀ m ∈ spanOf, m < nSpans
  ref : ∀ n, (sp.alive.get (n + 1)).map (·.refCount) =
    if liveCount live spanOf n = 0 then none else some (liveCount live spanOf n)
  known : ∀ k ∈ fe.registered, sp.known.contains k = true

theorem vinv_live {spanOf : List Nat} {live : List Bool} {nSpans : Nat} {fe : FE SenderState}
    {sp : Spec} (h : VInv spanOf live nSpans fe sp) {s : Nat} (hl : live.getD s false = true) :
    ∃ k d, fe.handleSite s = some (spanOf.getD s 0 + 1, k) ∧
      sp.alive.get (spanOf.getD s 0 + 1) = some d ∧
      d.refCount = liveCount live spanOf (spanOf.getD s 0) ∧
      liveCount live spanOf (spanOf.getD s 0) ≠ 0 := by
  have hs : s < spanOf.length := h.lenL ▸ getD_true_lt live s hl
  have hne : liveCount live spanOf (spanOf.getD s 0) ≠ 0 := by
    have := liveCount_set live spanOf s (spanOf.getD s 0) hl h.lenL
    simp only [if_true] at this
    omega
  have hh := h.hnd s hs
  have hr := h.ref (spanOf.getD s 0)
  rw [if_neg hne] at hr
  obtain ⟨d, hd1, hd2⟩ := Option.map_eq_some_iff.mp hr
  simp only [handleAt] at hh
  obtain ⟨⟨id, k⟩, hk1, hk2⟩ := Option.map_eq_some_iff.mp hh
  simp only at hk2
  subst hk2
  exact ⟨k, d, hk1, hd1, hd2, hne⟩

theorem vinv_handle {spanOf : List Nat} {live : List Bool} {nSpans : Nat} {fe : FE SenderState}
    {sp : Spec} (h : VInv spanOf live nSpans fe sp) {s : Nat} (hl : live.getD s false = true) :
    fe.handle s = some (spanOf.getD s 0 + 1) ∧
      reasonSpan sp (spanOf.getD s 0 + 1) = [] := by
  obtain ⟨k, d, h1, h2, _, _⟩ := vinv_live h hl
  refine ⟨by simp [FE.handle, h1], ?_⟩
  simp only [reasonSpan, sd_contains_of_get h2, if_true]

theorem vinv_parent {spanOf : List Nat} {live : List Bool} {nSpans : Nat} {fe : FE SenderState}
    {sp : Spec} (h : VInv spanOf live nSpans fe sp) (p : PParent)
    (hp : ∀ s, p = .handle s → live.getD s false = true) :
    reasonOptSpan sp (sparentId (resolveParent fe p)) = [] := by
  cases p with
  | ctx => rfl
  | root => rfl
  | handle s =>
    obtain ⟨h1, h2⟩ := vinv_handle h (hp s rfl)
    simp only [resolveParent, h1, sparentId, reasonOptSpan, h2]

theorem ref_insert_same (alive : AMap Nat SpanData) (id : Nat) (d d' : SpanData)
    (hg : AMap.get alive id = some d) (hr : d'.refCount = d.refCount) (n : Nat) :
    (AMap.get (AMap.insert alive id d') (n + 1)).map (·.refCount) =
      (AMap.get alive (n + 1)).map (·.refCount) := by
  rw [sd_get_insert]
  split
  · rename_i h; rw [h, hg]; simp [hr]
  · rfl

theorem vinv_ensure (sites : List CallSite) {spanOf : List Nat} {live : List Bool} {nSpans : Nat}
    {fe : FE SenderState} {sp : Spec} (h : VInv spanOf live nSpans fe sp) (k : Nat) :
    ∃ evs, (ensureRegistered senderSub sites fe k).sub.out = evs.reverse ++ fe.sub.out ∧
      allValidEvents sp evs = true ∧ noReannounceEvents sp evs = true ∧
      VInv spanOf live nSpans (ensureRegistered senderSub sites fe k) (evs.foldl Spec.apply sp) ∧
      reasonMeta (evs.foldl Spec.apply sp) k = [] := by
  by_cases hk : fe.registered.contains k = true
  · have he : ensureRegistered senderSub sites fe k = fe := by
      unfold ensureRegistered; rw [if_pos hk]
    rw [he]
    refine ⟨[], rfl, rfl, rfl, h, ?_⟩
    have : k ∈ fe.registered := by simpa using hk
    simp only [List.foldl_nil, reasonMeta, h.known k this, if_true]
  · have he : ensureRegistered senderSub sites fe k =
        { fe with sub := { fe.sub with out := .newCallSite k (sites.getD k default) :: fe.sub.out },
                  registered := fe.registered ++ [k] } := by
      unfold ensureRegistered; rw [if_neg hk]; rfl
    rw [he]
    refine ⟨[.newCallSite k (sites.getD k default)], rfl, rfl, rfl, ?_, ?_⟩
    · refine ⟨h.lenL, h.lenH, h.hnd, h.next, h.lt, h.ref, ?_⟩
      intro k' hk'
      simp only [List.mem_append, List.mem_singleton] at hk'
      simp only [List.foldl_cons, List.foldl_nil, Spec.apply, sd_contains_insert]
      rcases hk' with h1 | h1
      · simp [h.known k' h1]
      · simp [h1]
    · simp [reasonMeta, Spec.apply, sd_contains_insert]

theorem vinv_newSpan {spanOf : List Nat} {live : List Bool} {nSpans : Nat}
    {fe1 : FE SenderState} {sp1 : Spec} (h1 : VInv spanOf live nSpans fe1 sp1) (k : Nat)
    (par : Option Nat) (vs : TVals) (hb : nSpans + 1 + 1 < 2^32) :
    sp1.alive.contains fe1.sub.next = false ∧
    VInv (spanOf ++ [nSpans]) (live ++ [true]) (nSpans + 1)
      { fe1 with sub := { next := wrap32 (fe1.sub.next + 1),
                          out := .newSpan fe1.sub.next par k vs :: fe1.sub.out },
                 handles := fe1.handles ++ [some (fe1.sub.next, k)] }
      (sp1.apply (.newSpan fe1.sub.next par k vs)) := by
  obtain ⟨⟨next1, out1⟩, handles1, registered1⟩ := fe1
  have hn := h1.next
  simp only at hn
  subst hn
  have hz : liveCount live spanOf nSpans = 0 := liveCount_zero live spanOf nSpans h1.lt
  have hnone : AMap.get sp1.alive (nSpans + 1) = none := by
    have := h1.ref nSpans
    rw [if_pos hz] at this
    simpa using this
  refine ⟨by simp [AMap.contains, hnone], ?_⟩
  refine ⟨by simp [h1.lenL], by simp [h1.lenH], ?_, ?_, ?_, ?_, h1.known⟩
  · exact handleAt_append handles1 spanOf h1.lenH h1.hnd nSpans k
  · exact sd_wrap32_of_lt hb
  · intro m hm
    simp only [List.mem_append, List.mem_singleton] at hm
    rcases hm with hm | hm
    · have := h1.lt m hm; omega
    · omega
  · intro n
    simp only [Spec.apply, liveCount_append live spanOf true nSpans n h1.lenL, sd_get_insert]
    by_cases hn : n = nSpans
    · subst hn; simp [hz]
    · have hn' : ¬ nSpans = n := fun h => hn h.symm
      simp only [Nat.add_right_cancel_iff, hn, if_false, Bool.true_and, beq_iff_eq, hn',
        Nat.add_zero]
      exact h1.ref n

theorem vinv_step (sites : List CallSite) (st st' : WfSt) (fe : FE SenderState) (sp : Spec)
    (op : POp) (h : VInv st.spanOf st.live st.nSpans fe sp) (hw : wfStep sites st op = some st')
    (hb : st.nSpans + 1 + spansCreated [op] < 2^32) :
    ∃ evs, (feStep senderSub sites fe op).sub.out = evs.reverse ++ fe.sub.out ∧
      allValidEvents sp evs = true ∧ noReannounceEvents sp evs = true ∧
      VInv st'.spanOf st'.live st'.nSpans (feStep senderSub sites fe op)
        (evs.foldl Spec.apply sp) ∧
      st'.nSpans = st.nSpans + spansCreated [op] := by
  obtain ⟨spanOf, live, nSpans, entered⟩ := st
  simp only at h hb
  cases op with
  | reg k =>
    simp only [wfStep, Option.some.injEq] at hw
    subst hw
    refine ⟨[.newCallSite k (sites.getD k default)], rfl, rfl, rfl, ?_, rfl⟩
    refine ⟨h.lenL, h.lenH, h.hnd, h.next, h.lt, h.ref, ?_⟩
    intro k' hk'
    simp only [List.foldl_cons, List.foldl_nil, Spec.apply, sd_contains_insert]
    have hk'' : k' ∈ fe.registered ∨ k' = k := by
      simp only [feStep] at hk'
      split at hk'
      · exact Or.inl hk'
      · simpa using hk'
    rcases hk'' with h1 | h1
    · simp [h.known k' h1]
    · simp [h1]
  | new k p vals =>
    simp only [wfStep] at hw
    split at hw
    · rename_i hc
      simp only [Bool.and_eq_true, decide_eq_true_eq] at hc
      obtain ⟨⟨⟨hp, _⟩, hv⟩, _⟩ := hc
      simp only [Option.some.injEq] at hw
      subst hw
      obtain ⟨evs1, ho1, hv1, hr1, h1, hm1⟩ := vinv_ensure sites h k
      have hstep : feStep senderSub sites fe (.new k p vals) =
          { ensureRegistered senderSub sites fe k with
            sub := { next := wrap32 ((ensureRegistered senderSub sites fe k).sub.next + 1),
                     out := .newSpan (ensureRegistered senderSub sites fe k).sub.next
                       (sparentId (resolveParent (ensureRegistered senderSub sites fe k) p)) k
                       (capture (fieldsOf (sites.getD k default) vals)) ::
                       (ensureRegistered senderSub sites fe k).sub.out },
            handles := (ensureRegistered senderSub sites fe k).handles ++
              [some ((ensureRegistered senderSub sites fe k).sub.next, k)] } := rfl
      rw [hstep]
      generalize ensureRegistered senderSub sites fe k = fe1 at *
      generalize hsp1 : evs1.foldl Spec.apply sp = sp1 at *
      have hpar : reasonOptSpan sp1 (sparentId (resolveParent fe1 p)) = [] := by
        apply vinv_parent h1 p
        intro s hs; subst hs; exact hp
      obtain ⟨hfresh, hnew⟩ := vinv_newSpan h1 k (sparentId (resolveParent fe1 p))
        (capture (fieldsOf (sites.getD k default) vals)) (by simpa [spansCreated] using hb)
      refine ⟨evs1 ++ [.newSpan fe1.sub.next (sparentId (resolveParent fe1 p)) k
        (capture (fieldsOf (sites.getD k default) vals))], ?_, ?_, ?_, ?_, ?_⟩
      · simp [ho1]
      · rw [allValid_append, hv1, hsp1]
        simp only [allValidEvents, Spec.invalid, sd_reasonMany_capture _ _ hv, hm1, hpar]
        rfl
      · rw [noReannounce_append, hr1, hsp1]
        simp only [noReannounceEvents, hfresh]
        rfl
      · rw [List.foldl_append, hsp1]
        exact hnew
      · simp [spansCreated]
    · simp at hw
  | record s vals =>
    simp only [wfStep] at hw
    split at hw
    · rename_i hc
      simp only [Bool.and_eq_true, decide_eq_true_eq] at hc
      obtain ⟨⟨hl, _⟩, hv⟩ := hc
      simp only [Option.some.injEq] at hw
      subst hw
      obtain ⟨k, d, hs, hg, hrc, hne⟩ := vinv_live h hl
      obtain ⟨_, hspan⟩ := vinv_handle h hl
      simp only [feStep, hs]
      refine ⟨[.valuesRecorded (spanOf.getD s 0 + 1)
        (capture (fieldsOf (sites.getD k default) vals))], rfl, ?_, rfl, ?_, rfl⟩
      · simp only [allValidEvents, Spec.invalid, sd_reasonMany_capture _ _ hv, hspan]
        rfl
      · simp only [List.foldl_cons, List.foldl_nil, Spec.apply, hg]
        refine ⟨h.lenL, h.lenH, h.hnd, h.next, h.lt, ?_, h.known⟩
        intro n
        rw [← h.ref n]
        exact ref_insert_same _ _ d _ hg (by rfl) n
    · simp at hw
  | fol a b =>
    simp only [wfStep] at hw
    split at hw
    · rename_i hc
      simp only [Bool.and_eq_true] at hc
      obtain ⟨hla, hlb⟩ := hc
      simp only [Option.some.injEq] at hw
      subst hw
      obtain ⟨ha1, ha2⟩ := vinv_handle h hla
      obtain ⟨hb1, hb2⟩ := vinv_handle h hlb
      simp only [feStep, ha1, hb1]
      refine ⟨[.followsFrom (spanOf.getD a 0 + 1) (spanOf.getD b 0 + 1)], rfl, ?_, rfl, ?_, rfl⟩
      · simp only [allValidEvents, Spec.invalid, ha2, hb2]
        rfl
      · exact ⟨h.lenL, h.lenH, h.hnd, h.next, h.lt, h.ref, h.known⟩
    · simp at hw
  | ent s =>
    simp only [wfStep] at hw
    split at hw
    · rename_i hl
      simp only [Option.some.injEq] at hw
      subst hw
      obtain ⟨h1, h2⟩ := vinv_handle h hl
      simp only [feStep, h1]
      refine ⟨[.entered (spanOf.getD s 0 + 1)], rfl, ?_, rfl, ?_, rfl⟩
      · simp only [allValidEvents, Spec.invalid, h2]
        rfl
      · exact ⟨h.lenL, h.lenH, h.hnd, h.next, h.lt, h.ref, h.known⟩
    · simp at hw
  | ext s =>
    simp only [wfStep] at hw
    split at hw
    · rename_i hc
      simp only [Bool.and_eq_true] at hc
      obtain ⟨hl, _⟩ := hc
      simp only [Option.some.injEq] at hw
      subst hw
      obtain ⟨h1, h2⟩ := vinv_handle h hl
      simp only [feStep, h1]
      refine ⟨[.exited (spanOf.getD s 0 + 1)], rfl, ?_, rfl, ?_, rfl⟩
      · simp only [allValidEvents, Spec.invalid, h2]
        rfl
      · exact ⟨h.lenL, h.lenH, h.hnd, h.next, h.lt, h.ref, h.known⟩
    · simp at hw
  | cln s =>
    simp only [wfStep] at hw
    split at hw
    · rename_i hl
      simp only [Option.some.injEq] at hw
      subst hw
      obtain ⟨k, d, hs, hg, hrc, hne⟩ := vinv_live h hl
      obtain ⟨_, hspan⟩ := vinv_handle h hl
      have hslt : s < spanOf.length := h.lenL ▸ getD_true_lt live s hl
      have hmem : spanOf.getD s 0 < nSpans := by
        apply h.lt
        rw [List.getD_eq_getElem?_getD, List.getElem?_eq_getElem hslt]
        exact List.getElem_mem hslt
      simp only [feStep, hs]
      generalize spanOf.getD s 0 = span at *
      refine ⟨[.cloned (span + 1)], rfl, ?_, rfl, ?_, rfl⟩
      · simp only [allValidEvents, Spec.invalid, hspan]
        rfl
      · simp only [List.foldl_cons, List.foldl_nil, Spec.apply, hg]
        refine ⟨by simp [h.lenL], by simp [h.lenH], ?_, h.next, ?_, ?_, h.known⟩
        · exact handleAt_append fe.handles spanOf h.lenH h.hnd span k
        · intro m hm
          simp only [List.mem_append, List.mem_singleton] at hm
          rcases hm with hm | hm
          · exact h.lt m hm
          · omega
        · intro n
          simp only [liveCount_append live spanOf true span n h.lenL, sd_get_insert]
          by_cases hn : n = span
          · subst hn; simp [hrc]
          · have hn' : ¬ span = n := fun h => hn h.symm
            simp only [Nat.add_right_cancel_iff, hn, if_false, Bool.true_and, beq_iff_eq, hn',
              Nat.add_zero]
            exact h.ref n
    · simp at hw
  | drp s =>
    simp only [wfStep] at hw
    split at hw
    · rename_i hl
      split at hw
      · simp at hw
      · simp only [Option.some.injEq] at hw
        subst hw
        obtain ⟨k, d, hs, hg, hrc, hne⟩ := vinv_live h hl
        obtain ⟨h1, hspan⟩ := vinv_handle h hl
        have hset := fun n => liveCount_set live spanOf s n hl h.lenL
        simp only [feStep, h1]
        generalize spanOf.getD s 0 = span at *
        refine ⟨[.dropped (span + 1)], rfl, ?_, rfl, ?_, rfl⟩
        · simp only [allValidEvents, Spec.invalid, hspan]
          rfl
        · simp only [List.foldl_cons, List.foldl_nil, Spec.apply, hg]
          have hspan_set := hset span
          simp only [if_true] at hspan_set
          split
          · rename_i hz
            refine ⟨by simp [h.lenL], h.lenH, h.hnd, h.next, h.lt, ?_, h.known⟩
            intro n
            simp only [sd_get_erase]
            by_cases hn : n = span
            · subst hn
              have : liveCount (live.set s false) spanOf n = 0 := by omega
              simp [this]
            · have hn' : ¬ span = n := fun h => hn h.symm
              have := hset n
              simp only [hn', if_false, Nat.add_zero] at this
              simp only [Nat.add_right_cancel_iff, hn, if_false, this]
              exact h.ref n
          · rename_i hz
            refine ⟨by simp [h.lenL], h.lenH, h.hnd, h.next, h.lt, ?_, h.known⟩
            intro n
            simp only [sd_get_insert]
            by_cases hn : n = span
            · subst hn
              have h1 : liveCount (live.set s false) spanOf n = d.refCount - 1 := by omega
              simp [h1, hz]
            · have hn' : ¬ span = n := fun h => hn h.symm
              have := hset n
              simp only [hn', if_false, Nat.add_zero] at this
              simp only [Nat.add_right_cancel_iff, hn, if_false, this]
              exact h.ref n
    · simp at hw
  | evt k p vals =>
    simp only [wfStep] at hw
    split at hw
    · rename_i hc
      simp only [Bool.and_eq_true, decide_eq_true_eq] at hc
      obtain ⟨⟨⟨hp, _⟩, hv⟩, _⟩ := hc
      simp only [Option.some.injEq] at hw
      subst hw
      obtain ⟨evs1, ho1, hv1, hr1, h1, hm1⟩ := vinv_ensure sites h k
      have hstep : feStep senderSub sites fe (.evt k p vals) =
          { ensureRegistered senderSub sites fe k with
            sub := { (ensureRegistered senderSub sites fe k).sub with
                     out := .newEvent k
                       (sparentId (resolveParent (ensureRegistered senderSub sites fe k) p))
                       (capture (fieldsOf (sites.getD k default) vals)) ::
                       (ensureRegistered senderSub sites fe k).sub.out } } := rfl
      rw [hstep]
      generalize ensureRegistered senderSub sites fe k = fe1 at *
      generalize hsp1 : evs1.foldl Spec.apply sp = sp1 at *
      have hpar : reasonOptSpan sp1 (sparentId (resolveParent fe1 p)) = [] := by
        apply vinv_parent h1 p
        intro s hs; subst hs; exact hp
      refine ⟨evs1 ++ [.newEvent k (sparentId (resolveParent fe1 p))
        (capture (fieldsOf (sites.getD k default) vals))], ?_, ?_, ?_, ?_, ?_⟩
      · simp [ho1]
      · rw [allValid_append, hv1, hsp1]
        simp only [allValidEvents, Spec.invalid, sd_reasonMany_capture _ _ hv, hm1, hpar]
        rfl
      · rw [noReannounce_append, hr1, hsp1]
        rfl
      · rw [List.foldl_append, hsp1]
        exact ⟨h1.lenL, h1.lenH, h1.hnd, h1.next, h1.lt, h1.ref, h1.known⟩
      · simp [spansCreated]
    · simp at hw

theorem vinv_run (sites : List CallSite) (ops : List POp) :
    ∀ (st : WfSt) (fe : FE SenderState) (sp : Spec), VInv st.spanOf st.live st.nSpans fe sp →
      wfFrom sites st ops = true → st.nSpans + 1 + spansCreated ops < 2^32 →
      ∃ evs, (runProg senderSub sites fe ops).sub.out = evs.reverse ++ fe.sub.out ∧
        allValidEvents sp evs = true ∧ noReannounceEvents sp evs = true := by
  induction ops with
  | nil => intro st fe sp _ _ _; exact ⟨[], rfl, rfl, rfl⟩
  | cons op ops ih =>
    intro st fe sp h hwf hb
    rw [spansCreated_cons] at hb
    simp only [wfFrom] at hwf
    cases hw : wfStep sites st op with
    | none => simp [hw] at hwf
    | some st' =>
      simp only [hw] at hwf
      obtain ⟨evs1, ho1, hv1, hr1, h1, hn1⟩ := vinv_step sites st st' fe sp op h hw (by omega)
      obtain ⟨evs2, ho2, hv2, hr2⟩ := ih st' _ _ h1 hwf (by omega)
      refine ⟨evs1 ++ evs2, ?_, ?_, ?_⟩
      · simp only [runProg, List.foldl_cons] at ho2 ⊢
        rw [ho2, ho1]; simp
      · rw [allValid_append, hv1, hv2]; rfl
      · rw [noReannounce_append, hr1, hr2]; rfl

/-- The stream of a well-formed program is a valid stream: every call site is known when used,
    every span reference (explicit parents, follows-from on both sides, enter, exit, clone, drop,
    record) is to a span between its creation and the drop of its last handle, no operation
    carries more than 32 values, and no span id is announced while alive. -/
theorem C12_stream_valid (sites : List CallSite) (ops : List POp) (hwf : wfProg sites ops = true)
    (hb : spansCreated ops < 2^32 - 1) :
    allValidEvents {} (senderStream sites ops) = true ∧ noReannounceEvents {} (senderStream sites ops) = true := by
  have h0 : VInv ({} : WfSt).spanOf ({} : WfSt).live ({} : WfSt).nSpans
      { sub := ({} : SenderState) } ({} : Spec) :=
    ⟨rfl, rfl, fun s hs => by simp at hs, rfl, fun m hm => by simp at hm,
      fun n => by simp [liveCount, AMap.get], fun k hk => by simp at hk⟩
  obtain ⟨evs, ho, hv, hr⟩ := vinv_run sites ops {} _ _ h0 hwf (by show 0 + 1 + spansCreated ops < 2^32; omega)
  have : senderStream sites ops = evs := by
    unfold senderStream
    rw [ho]; simp
  rw [this]
  exact ⟨hv, hr⟩

/-! ### Concurrent creators: `fetch_add` is one atomic step -/

/-- Threads perform `next_span_id.fetch_add(1)` in schedule order; each obtains the value before
    the increment. -/
def fetchAddRun (start : Nat) : List Nat → List (Nat × Nat)
  | [] => []
  | t :: ts => (t, start) :: fetchAddRun (wrap32 (start + 1)) ts

theorem fetchAddRun_ids (sched : List Nat) :
    ∀ s, s + sched.length < 2^32 → (fetchAddRun s sched).map (·.2) = List.range' s sched.length := by
  induction sched with
  | nil => intro s _; rfl
  | cons t ts ih =>
    intro s h
    simp only [List.length_cons] at h
    have hw : wrap32 (s + 1) = s + 1 := sd_wrap32_of_lt (by omega)
    simp only [fetchAddRun, List.map_cons, List.length_cons, List.range'_succ, hw]
    rw [ih (s + 1) (by omega)]

/-- Under every schedule of any number of threads, the ids handed out are pairwise distinct and
    non-zero (fewer than 2^32 − 1 creations). -/
theorem C12_conc_distinct (sched : List Nat) (h : sched.length < 2^32 - 1) :
    ((fetchAddRun 1 sched).map (·.2)).Nodup ∧ ∀ x ∈ (fetchAddRun 1 sched).map (·.2), x ≠ 0 := by
  rw [fetchAddRun_ids sched 1 (by omega)]
  refine ⟨List.nodup_range', ?_⟩
  intro id hid
  rw [List.mem_range'_1] at hid
  omega

/-- The bound is necessary: the counter is 32 bits wide. The (2^32 − 1)-th span gets id 2^32 − 1,
    the next one the invalid id 0, and then ids repeat (known finding K2). -/
theorem C12_wrap_counterexample :
    (fetchAddRun (2^32 - 1) [0, 0, 0]).map (·.2) = [2^32 - 1, 0, 1] := by
  decide

/-- Non-vacuity. -/
example :
    let s : CallSite := ⟨.span, [115], [97], .info, none, none, none, [[102]]⟩
    let e : CallSite := ⟨.event, [101], [97], .info, none, none, none, []⟩
    let ops : List POp := [.new 0 .ctx [(0, some (.i64 1))], .ent 0, .new 0 (.handle 0) [], .cln 1, .drp 1,
      .evt 1 .ctx [], .ent 2, .ext 2, .ext 0, .drp 2, .drp 0]
    wfProg [s, e] ops = true ∧
    senderStream [s, e] ops = [.newCallSite 0 s, .newSpan 1 none 0 [([102], .int 1)], .entered 1,
      .newSpan 2 (some 1) 0 [], .cloned 2, .dropped 2, .newCallSite 1 e, .newEvent 1 none [],
      .entered 2, .exited 2, .exited 1, .dropped 2, .dropped 1] := by
  decide

end TT
