/-
  C12 — The sender emits a well-formed, faithful stream with unique span ids.

  `senderSub` models `TracingEventSender` (sender.rs); `feStep`/`runProg` model the `tracing`
  front end (environment). `logSub` is an independent recording subscriber that issues ids
  1, 2, 3, … without any width limit: the program's own operation log.
-/
import TT.Model.Program
import TT.Model.History

namespace TT

/-- One subscriber call, as made by the front end. -/
inductive SubCall where
  | register (k : Nat) (site : CallSite)
  | newSpan (id k : Nat) (p : SParent) (fields : Fields)
  | record (id : Nat) (fields : Fields)
  | follows (a b : Nat)
  | enter (id : Nat)
  | exit (id : Nat)
  | clone (id : Nat)
  | tryClose (id : Nat)
  | event (k : Nat) (p : SParent) (fields : Fields)
  deriving Repr, Inhabited

structure LogState where
  next : Nat := 1
  calls : List SubCall := []     -- newest first
  deriving Repr, Inhabited

def logSub : Subscriber LogState where
  enabled _ _ := true
  register st k site := { st with calls := .register k site :: st.calls }
  newSpan st k _ p fields := ({ next := st.next + 1, calls := .newSpan st.next k p fields :: st.calls }, st.next)
  record st id fields := { st with calls := .record id fields :: st.calls }
  follows st a b := { st with calls := .follows a b :: st.calls }
  enter st id := { st with calls := .enter id :: st.calls }
  exit st id := { st with calls := .exit id :: st.calls }
  clone st id := { st with calls := .clone id :: st.calls }
  tryClose st id := { st with calls := .tryClose id :: st.calls }
  event st k _ p fields := { st with calls := .event k p fields :: st.calls }

/-- The program's own operation log. -/
def callLog (sites : List CallSite) (ops : List POp) : List SubCall :=
  (runProg logSub sites { sub := ({} : LogState) } ops).sub.calls.reverse

/-- The event that must be emitted for a subscriber call: same span ids, the explicit parent
    (contextual and explicit-root both give none: the wire format cannot tell them apart — see
    C01), the call-site id, and the values captured as in C14. -/
def callToEvent : SubCall → Event
  | .register k site => .newCallSite k site
  | .newSpan id k p fields => .newSpan id (sparentId p) k (capture fields)
  | .record id fields => .valuesRecorded id (capture fields)
  | .follows a b => .followsFrom a b
  | .enter id => .entered id
  | .exit id => .exited id
  | .clone id => .cloned id
  | .tryClose id => .dropped id
  | .event k p fields => .newEvent k (sparentId p) (capture fields)

def spansCreated (ops : List POp) : Nat := (ops.filter fun o => match o with | .new _ _ _ => true | _ => false).length

/-- Exactly one event per subscriber operation, in program order, carrying the operation's span
    ids, explicit parent and values — as long as fewer than 2^32 − 1 spans are created. -/
theorem C12_one_event_per_call (sites : List CallSite) (ops : List POp) (hb : spansCreated ops < 2^32 - 1) :
    senderStream sites ops = (callLog sites ops).map callToEvent := by
  sorry

/-- Scan: every call-site id used by a span or event was announced earlier with the content of
    the call site's metadata. -/
def announcedFrom (sites : List CallSite) (announced : List Nat) : List Event → Bool
  | [] => true
  | .newCallSite k d :: es => decide (d = sites.getD k default) && announcedFrom sites (k :: announced) es
  | .newSpan _ _ k _ :: es => announced.contains k && announcedFrom sites announced es
  | .newEvent k _ _ :: es => announced.contains k && announcedFrom sites announced es
  | _ :: es => announcedFrom sites announced es

theorem C12_announced_before_use (sites : List CallSite) (ops : List POp) :
    announcedFrom sites [] (senderStream sites ops) = true := by
  sorry

def newSpanId? : Event → Option Nat
  | .newSpan id _ _ _ => some id
  | _ => none

/-- Span ids are 1, 2, 3, … in creation order: non-zero and never reused. -/
theorem C12_ids_fresh (sites : List CallSite) (ops : List POp) (hb : spansCreated ops < 2^32 - 1) :
    ∃ n, n ≤ spansCreated ops ∧ (senderStream sites ops).filterMap newSpanId? = List.range' 1 n := by
  sorry

theorem C12_ids_nonzero_distinct (sites : List CallSite) (ops : List POp) (hb : spansCreated ops < 2^32 - 1) :
    ((senderStream sites ops).filterMap newSpanId?).Nodup ∧
    ∀ id ∈ (senderStream sites ops).filterMap newSpanId?, id ≠ 0 := by
  sorry

/-! ### Well-formed programs: every reference lies between creation and the last drop -/

structure WfSt where
  spanOf : List Nat := []      -- span number behind each handle
  live : List Bool := []       -- handle not yet dropped
  nSpans : Nat := 0
  entered : List Nat := []     -- span numbers currently entered (with multiplicity)
  deriving Repr, Inhabited

def WfSt.liveH (st : WfSt) (s : Nat) : Bool := st.live.getD s false

def WfSt.parentOK (st : WfSt) : PParent → Bool
  | .handle s => st.liveH s
  | _ => true

def distinctIdx (vals : PVals) : Bool := decide ((vals.map (·.1)).Nodup)

/-- One step of the well-formedness check (handles live when used, exit only what is entered —
    in any order, re-entrant allowed —, the last handle of a span is not dropped while the span
    is entered, at most 32 distinct fields per operation). -/
def wfStep (sites : List CallSite) (st : WfSt) : POp → Option WfSt
  | .reg _ => some st
  | .new k p vals =>
    if st.parentOK p && distinctIdx vals && decide (vals.length ≤ 32) && decide (k < sites.length) then
      some { st with spanOf := st.spanOf ++ [st.nSpans], live := st.live ++ [true], nSpans := st.nSpans + 1 }
    else none
  | .evt k p vals =>
    if st.parentOK p && distinctIdx vals && decide (vals.length ≤ 32) && decide (k < sites.length) then some st else none
  | .record s vals => if st.liveH s && distinctIdx vals && decide (vals.length ≤ 32) then some st else none
  | .fol a b => if st.liveH a && st.liveH b then some st else none
  | .ent s => if st.liveH s then some { st with entered := st.spanOf.getD s 0 :: st.entered } else none
  | .ext s =>
    if st.liveH s && st.entered.contains (st.spanOf.getD s 0) then
      some { st with entered := st.entered.erase (st.spanOf.getD s 0) }
    else none
  | .cln s =>
    if st.liveH s then some { st with spanOf := st.spanOf ++ [st.spanOf.getD s 0], live := st.live ++ [true] } else none
  | .drp s =>
    if st.liveH s then
      let span := st.spanOf.getD s 0
      let others := ((List.range st.live.length).filter fun i => i != s && st.live.getD i false && st.spanOf.getD i 0 == span).length
      if others = 0 && st.entered.contains span then none
      else some { st with live := st.live.set s false }
    else none

def wfFrom (sites : List CallSite) (st : WfSt) : List POp → Bool
  | [] => true
  | op :: ops => match wfStep sites st op with
    | some st' => wfFrom sites st' ops
    | none => false

def wfProg (sites : List CallSite) (ops : List POp) : Bool := wfFrom sites {} ops

def allValidEvents (sp : Spec) : List Event → Bool
  | [] => true
  | e :: es => (sp.invalid e).isEmpty && allValidEvents (sp.apply e) es

def noReannounceEvents (sp : Spec) : List Event → Bool
  | [] => true
  | e :: es => (match e with | .newSpan id _ _ _ => !sp.alive.contains id | _ => true) && noReannounceEvents (sp.apply e) es

/-- The stream of a well-formed program is a valid stream: every call site is known when used,
    every span reference (explicit parents, follows-from on both sides, enter, exit, clone, drop,
    record) is to a span between its creation and the drop of its last handle, no operation
    carries more than 32 values, and no span id is announced while alive. -/
theorem C12_stream_valid (sites : List CallSite) (ops : List POp) (hwf : wfProg sites ops = true)
    (hb : spansCreated ops < 2^32 - 1) :
    allValidEvents {} (senderStream sites ops) = true ∧ noReannounceEvents {} (senderStream sites ops) = true := by
  sorry

/-! ### Concurrent creators: `fetch_add` is one atomic step -/

/-- Threads perform `next_span_id.fetch_add(1)` in schedule order; each obtains the value before
    the increment. -/
def fetchAddRun (start : Nat) : List Nat → List (Nat × Nat)
  | [] => []
  | t :: ts => (t, start) :: fetchAddRun (wrap32 (start + 1)) ts

/-- Under every schedule of any number of threads, the ids handed out are pairwise distinct and
    non-zero (fewer than 2^32 − 1 creations). -/
theorem C12_conc_distinct (sched : List Nat) (h : sched.length < 2^32 - 1) :
    ((fetchAddRun 1 sched).map (·.2)).Nodup ∧ ∀ x ∈ (fetchAddRun 1 sched).map (·.2), x ≠ 0 := by
  sorry

/-- The bound is necessary: the counter is 32 bits wide. The (2^32 − 1)-th span gets id 2^32 − 1,
    the next one the invalid id 0, and then ids repeat (known finding K2). -/
theorem C12_wrap_counterexample :
    (fetchAddRun (2^32 - 1) [0, 0, 0]).map (·.2) = [2^32 - 1, 0, 1] := by
  decide

/-- Non-vacuity. -/
example :
    let s : CallSite := ⟨.span, [115], [97], .info, none, none, none, [[102]]⟩
    let e : CallSite := ⟨.event, [101], [97], .info, none, none, none, []⟩
    let ops : List POp := [.new 0 .ctx [(0, some (.i64 1))], .ent 0, .new 0 (.handle 0) [], .cln 1, .drp 1,
      .evt 1 .ctx [], .ent 2, .ext 2, .ext 0, .drp 2, .drp 0]
    wfProg [s, e] ops = true ∧
    senderStream [s, e] ops = [.newCallSite 0 s, .newSpan 1 none 0 [([102], .int 1)], .entered 1,
      .newSpan 2 (some 1) 0 [], .cloned 2, .dropped 2, .newCallSite 1 e, .newEvent 1 none [],
      .entered 2, .exited 2, .exited 1, .dropped 2, .dropped 1] := by
  decide

end TT
