/-
  C16 — Capturing never panics and is independent of other layers in the stack.

  Model after the `fix:` commits 8b55e18 (one captured id per layer in the shared span extension)
  and d76da7b (follows-from towards a closed span is ignored). `wfProgS` is well-formedness as in
  C12 except that the *target* of a follows-from may be a handle that was already dropped (the
  tracing API takes a bare `Id` there).
-/
import TT.Model.Capture
import TT.Props.C12
import TT.Lemmas.CapRegC
import TT.Lemmas.CapRegE

namespace TT

/-- As `wfStep`, but `fol a b` only needs `a` live; `b` may be stale (dropped, possibly closed). -/
def wfStepS (sites : List CallSite) (st : WfSt) : POp → Option WfSt
  | .fol a b => if st.liveH a && decide (b < st.live.length) then some st else none
  | op => wfStep sites st op

def wfFromS (sites : List CallSite) (st : WfSt) : List POp → Bool
  | [] => true
  | op :: ops => match wfStepS sites st op with
    | some st' => wfFromS sites st' ops
    | none => false

def wfProgS (sites : List CallSite) (ops : List POp) : Bool := wfFromS sites {} ops

/-- The live handles after a well-formedness step, and what the step guarantees. -/
theorem cr_wf_step (sites : List CallSite) (st st' : WfSt) (fe : FE CapWorld) (op : POp)
    (h : CrFInv st.live fe) (hw : wfStepS sites st op = some st') :
    CrFInv st'.live (feStep (capSub 0) sites fe op) := by
  cases op with
  | reg k =>
    simp only [wfStepS, wfStep, Option.some.injEq] at hw
    subst hw
    exact cr_fe_reg sites k h
  | new k p vals =>
    simp only [wfStepS, wfStep] at hw
    split at hw
    · rename_i hc
      simp only [Bool.and_eq_true, decide_eq_true_eq] at hc
      obtain ⟨⟨⟨hp, _⟩, _⟩, _⟩ := hc
      simp only [Option.some.injEq] at hw
      subst hw
      apply cr_fe_new sites k p vals h
      intro s hs; subst hs; exact hp
    · simp at hw
  | record s vals =>
    simp only [wfStepS, wfStep] at hw
    split at hw
    · rename_i hc
      simp only [Bool.and_eq_true, decide_eq_true_eq] at hc
      obtain ⟨⟨hl, _⟩, _⟩ := hc
      simp only [Option.some.injEq] at hw
      subst hw
      exact cr_fe_record sites s vals h hl
    · simp at hw
  | fol a b =>
    simp only [wfStepS] at hw
    split at hw
    · rename_i hc
      simp only [Bool.and_eq_true, decide_eq_true_eq] at hc
      simp only [Option.some.injEq] at hw
      subst hw
      exact cr_fe_fol sites a b h hc.1
    · simp at hw
  | ent s =>
    simp only [wfStepS, wfStep] at hw
    split at hw
    · rename_i hl
      simp only [Option.some.injEq] at hw
      subst hw
      exact cr_fe_ent sites s h hl
    · simp at hw
  | ext s =>
    simp only [wfStepS, wfStep] at hw
    split at hw
    · rename_i hc
      simp only [Bool.and_eq_true] at hc
      simp only [Option.some.injEq] at hw
      subst hw
      exact cr_fe_ext sites s h hc.1
    · simp at hw
  | cln s =>
    simp only [wfStepS, wfStep] at hw
    split at hw
    · rename_i hl
      simp only [Option.some.injEq] at hw
      subst hw
      exact cr_fe_cln sites s h hl
    · simp at hw
  | drp s =>
    simp only [wfStepS, wfStep] at hw
    split at hw
    · rename_i hl
      split at hw
      · simp at hw
      · simp only [Option.some.injEq] at hw
        subst hw
        exact cr_fe_drp sites s h hl
    · simp at hw
  | evt k p vals =>
    simp only [wfStepS, wfStep] at hw
    split at hw
    · simp only [Option.some.injEq] at hw
      subst hw
      exact cr_fe_evt sites k p vals h
    · simp at hw

theorem cr_wf_run (sites : List CallSite) (ops : List POp) :
    ∀ (st : WfSt) (fe : FE CapWorld), CrFInv st.live fe → wfFromS sites st ops = true →
      ∃ st' : WfSt, CrFInv st'.live (runProg (capSub 0) sites fe ops) := by
  induction ops with
  | nil => intro st fe h _; exact ⟨st, h⟩
  | cons op ops ih =>
    intro st fe h hwf
    simp only [wfFromS] at hwf
    cases hw : wfStepS sites st op with
    | none => simp [hw] at hwf
    | some st' =>
      simp only [hw] at hwf
      simp only [runProg, List.foldl_cons]
      exact ih st' _ (cr_wf_step sites st st' fe op h hw) hwf

/-- No callback of any capture layer panics (so no storage lock is poisoned), for every program
    the API permits — stale follows-from targets, records and enters on filtered-out spans
    included —, every stack of layers and filters. -/
theorem C16_no_panic (filters : List LFilter) (global : Option Nat) (sites : List CallSite) (ops : List POp)
    (hwf : wfProgS sites ops = true) :
    (captureRun filters global sites ops).panicked = false := by
  obtain ⟨st', h⟩ := cr_wf_run sites ops {} _ (cr_finv_init filters global) hwf
  exact h.inv.np

theorem cr_wf_sim_step (sites : List CallSite) (st st' : WfSt) (fe fe₁ : FE CapWorld) (op : POp)
    (i : Nat) (hi : CrFInv st.live fe) (hi₁ : CrFInv st.live fe₁) (h : CrFSim i fe fe₁)
    (hw : wfStepS sites st op = some st') :
    CrFSim i (feStep (capSub 0) sites fe op) (feStep (capSub 0) sites fe₁ op) := by
  cases op with
  | reg k => exact cr_fs_reg sites k h
  | new k p vals =>
    simp only [wfStepS, wfStep] at hw
    split at hw
    · rename_i hc
      simp only [Bool.and_eq_true, decide_eq_true_eq] at hc
      obtain ⟨⟨⟨hp, _⟩, _⟩, _⟩ := hc
      apply cr_fs_new sites k p vals hi hi₁ _ h
      intro s hs; subst hs; exact hp
    · simp at hw
  | record s vals =>
    simp only [wfStepS, wfStep] at hw
    split at hw
    · rename_i hc
      simp only [Bool.and_eq_true, decide_eq_true_eq] at hc
      exact cr_fs_record sites s vals hi hi₁ hc.1.1 h
    · simp at hw
  | fol a b =>
    simp only [wfStepS] at hw
    split at hw
    · rename_i hc
      simp only [Bool.and_eq_true, decide_eq_true_eq] at hc
      exact cr_fs_fol sites a b hi hi₁ hc.1 h
    · simp at hw
  | ent s =>
    simp only [wfStepS, wfStep] at hw
    split at hw
    · rename_i hl
      exact cr_fs_ent sites s hi hi₁ hl h
    · simp at hw
  | ext s =>
    simp only [wfStepS, wfStep] at hw
    split at hw
    · rename_i hc
      simp only [Bool.and_eq_true] at hc
      exact cr_fs_ext sites s hi hi₁ hc.1 h
    · simp at hw
  | cln s =>
    simp only [wfStepS, wfStep] at hw
    split at hw
    · rename_i hl
      exact cr_fs_cln sites s hi hi₁ hl h
    · simp at hw
  | drp s =>
    simp only [wfStepS, wfStep] at hw
    split at hw
    · rename_i hl
      exact cr_fs_drp sites s hi hi₁ hl h
    · simp at hw
  | evt k p vals => exact cr_fs_evt sites k p vals hi hi₁ h

theorem cr_wf_sim_run (sites : List CallSite) (i : Nat) (ops : List POp) :
    ∀ (st : WfSt) (fe fe₁ : FE CapWorld), CrFInv st.live fe → CrFInv st.live fe₁ →
      CrFSim i fe fe₁ → wfFromS sites st ops = true →
      CrFSim i (runProg (capSub 0) sites fe ops) (runProg (capSub 0) sites fe₁ ops) := by
  induction ops with
  | nil => intro st fe fe₁ _ _ h _; exact h
  | cons op ops ih =>
    intro st fe fe₁ hi hi₁ h hwf
    simp only [wfFromS] at hwf
    cases hw : wfStepS sites st op with
    | none => simp [hw] at hwf
    | some st' =>
      simp only [hw] at hwf
      simp only [runProg, List.foldl_cons]
      exact ih st' _ _ (cr_wf_step sites st st' fe op hi hw) (cr_wf_step sites st st' fe₁ op hi₁ hw)
        (cr_wf_sim_step sites st st' fe fe₁ op i hi hi₁ h hw) hwf

/-- What a layer captures depends only on the trace and its own filter: in any stack it stores
    exactly what it stores when it is the only capture layer. (Pass-through layers do not appear
    in the model at all: they cannot influence it; the harness runs them for real.) -/
theorem C16_independent (filters : List LFilter) (global : Option Nat) (sites : List CallSite) (ops : List POp)
    (hwf : wfProgS sites ops = true) (i : Nat) (hi : i < filters.length) :
    (captureRun filters global sites ops).storages.getD i {}
      = (captureRun [filters.getD i .all] global sites ops).storages.getD 0 {} := by
  exact (cr_wf_sim_run sites i ops {} _ _ (cr_finv_init filters global)
    (cr_finv_init [filters.getD i .all] global) (cr_fsim_init filters global i hi) hwf).sim.stor

/-- Non-vacuity: three layers with different filters, a stale follows-from target. -/
example :
    let s : CallSite := ⟨.span, [115], [97], .info, none, none, none, []⟩
    let d : CallSite := ⟨.span, [100], [97], .debug, none, none, none, []⟩
    let sites := [s, d]
    let ops : List POp := [.new 0 .ctx [], .new 1 (.handle 0) [], .drp 1, .fol 0 1, .ent 0, .new 1 .ctx [], .fol 2 0, .ext 0]
    let fs : List LFilter := [.all, .level 2, .nameNot [115]]
    wfProgS sites ops = true ∧ wfProg sites ops = false ∧
    (captureRun fs none sites ops).panicked = false ∧
    ((captureRun fs none sites ops).storages.map (·.spans.length)) = [3, 1, 2] ∧
    (captureRun fs none sites ops).storages.getD 2 {} = (captureRun [.nameNot [115]] none sites ops).storages.getD 0 {} := by
  decide

end TT
