/-
  C16 — Capturing never panics and is independent of other layers in the stack.

  Model after the `fix:` commits 8b55e18 (one captured id per layer in the shared span extension)
  and d76da7b (follows-from towards a closed span is ignored). `wfProgS` is well-formedness as in
  C12 except that the *target* of a follows-from may be a handle that was already dropped (the
  tracing API takes a bare `Id` there).
-/
import TT.Model.Capture
import TT.Props.C12

namespace TT

/-- As `wfStep`, but `fol a b` only needs `a` live; `b` may be stale (dropped, possibly closed). -/
def wfStepS (sites : List CallSite) (st : WfSt) : POp → Option WfSt
  | .fol a b => if st.liveH a && decide (b < st.live.length) then some st else none
  | op => wfStep sites st op

def wfFromS (sites : List CallSite) (st : WfSt) : List POp → Bool
  | [] => true
  | op :: ops => match wfStepS sites st op with
    | some st' => wfFromS sites st' ops
    | none => false

def wfProgS (sites : List CallSite) (ops : List POp) : Bool := wfFromS sites {} ops

/-- No callback of any capture layer panics (so no storage lock is poisoned), for every program
    the API permits — stale follows-from targets, records and enters on filtered-out spans
    included —, every stack of layers and filters. -/
theorem C16_no_panic (filters : List LFilter) (global : Option Nat) (sites : List CallSite) (ops : List POp)
    (hwf : wfProgS sites ops = true) :
    (captureRun filters global sites ops).panicked = false := by
  sorry

/-- What a layer captures depends only on the trace and its own filter: in any stack it stores
    exactly what it stores when it is the only capture layer. (Pass-through layers do not appear
    in the model at all: they cannot influence it; the harness runs them for real.) -/
theorem C16_independent (filters : List LFilter) (global : Option Nat) (sites : List CallSite) (ops : List POp)
    (hwf : wfProgS sites ops = true) (i : Nat) (hi : i < filters.length) :
    (captureRun filters global sites ops).storages.getD i {}
      = (captureRun [filters.getD i .all] global sites ops).storages.getD 0 {} := by
  sorry

/-- Non-vacuity: three layers with different filters, a stale follows-from target. -/
example :
    let s : CallSite := ⟨.span, [115], [97], .info, none, none, none, []⟩
    let d : CallSite := ⟨.span, [100], [97], .debug, none, none, none, []⟩
    let sites := [s, d]
    let ops : List POp := [.new 0 .ctx [], .new 1 (.handle 0) [], .drp 1, .fol 0 1, .ent 0, .new 1 .ctx [], .fol 2 0, .ext 0]
    let fs : List LFilter := [.all, .level 2, .nameNot [115]]
    wfProgS sites ops = true ∧ wfProg sites ops = false ∧
    (captureRun fs none sites ops).panicked = false ∧
    ((captureRun fs none sites ops).storages.map (·.spans.length)) = [3, 1, 2] ∧
    (captureRun fs none sites ops).storages.getD 2 {} = (captureRun [.nameNot [115]] none sites ops).storages.getD 0 {} := by
  decide

end TT
