/-
  C20 — Normalization is a canonical, collision-free renaming.

  `normalize` models `TracingEvent::normalize` (types.rs:196-230) after the `fix:` commit
  (an already announced id keeps its mapping entry). `normalizeOld` is the behaviour before the
  repair; `C20_counterexample_old` shows that it violated the property.
-/
import TT.Model.Normalize
import TT.Lemmas.Normalize

namespace TT

/-- The call-site id an event mentions. -/
def Event.mt? : Event → Option Nat
  | .newCallSite id _ => some id
  | .newSpan _ _ mt _ => some mt
  | .newEvent mt _ _ => some mt
  | _ => none

def mentions (evs : List Event) : List Nat := evs.filterMap Event.mt?

/-- Replace the call-site id of an event. -/
def renameEv (f : Nat → Nat) : Event → Event
  | .newCallSite id d => .newCallSite (f id) d
  | .newSpan id p mt vs => .newSpan id p (f mt) vs
  | .newEvent mt p vs => .newEvent (f mt) p vs
  | e => e

/-- Clear the line and the name of event call sites. -/
def scrubEv : Event → Event
  | .newCallSite id d => .newCallSite id (scrubSite d)
  | e => e

/-- The id mapping after processing all of `evs`, starting from `m`. -/
def finalMap (m : AMap Nat Nat) (evs : List Event) : AMap Nat Nat :=
  (mentions evs).foldl (fun m id => (assignId m id).1) m

/-- `rank evs id`: the number given to call site `id` (its order of first occurrence). -/
def rank (evs : List Event) (id : Nat) : Nat := ((finalMap [] evs).get id).getD 0

/-- Distinct ids in order of first appearance. -/
def distinctIds : List Nat → List Nat
  | [] => []
  | x :: xs => x :: (distinctIds xs).filter (· ≠ x)

def indexIn : List Nat → Nat → Option Nat
  | [], _ => none
  | x :: xs, id => if x = id then some 0 else (indexIn xs id).map (· + 1)

/-- Position of `id` among the distinct ids in order of first appearance. -/
def firstIndex (xs : List Nat) (id : Nat) : Option Nat := indexIn (distinctIds xs) id

/-- Two streams that differ only in concrete call-site ids (through `σ`), lines, and event
    call-site names. -/
def SimEv (σ : Nat → Nat) : Event → Event → Prop
  | .newCallSite id d, .newCallSite id' d' => id' = σ id ∧ scrubSite d = scrubSite d'
  | .newSpan id p mt vs, .newSpan id' p' mt' vs' => id' = id ∧ p' = p ∧ mt' = σ mt ∧ vs' = vs
  | .newEvent mt p vs, .newEvent mt' p' vs' => mt' = σ mt ∧ p' = p ∧ vs' = vs
  | .followsFrom a b, e' => e' = .followsFrom a b
  | .entered a, e' => e' = .entered a
  | .exited a, e' => e' = .exited a
  | .cloned a, e' => e' = .cloned a
  | .dropped a, e' => e' = .dropped a
  | .valuesRecorded a vs, e' => e' = .valuesRecorded a vs
  | _, _ => False

def SimEvs (σ : Nat → Nat) : List Event → List Event → Prop
  | [], [] => True
  | e :: es, e' :: es' => SimEv σ e e' ∧ SimEvs σ es es'
  | _, _ => False

/-- `σ` is injective on the ids in `S`. -/
def InjOn (σ : Nat → Nat) (S : List Nat) : Prop := ∀ a b, a ∈ S → b ∈ S → σ a = σ b → a = b

/-! ### Helper lemmas -/

theorem finalMap_eq (m : AMap Nat Nat) (evs : List Event) :
    finalMap m evs = assignAll m (mentions evs) := rfl

theorem finalMap_step (m : AMap Nat Nat) (e : Event) (es : List Event) :
    finalMap m (e :: es) = finalMap (normStep m e).1 es := by
  cases e <;> rfl

theorem mem_mentions {a : Nat} {evs : List Event} :
    a ∈ mentions evs ↔ ∃ e ∈ evs, e.mt? = some a := by
  simp [mentions, List.mem_filterMap]

theorem finalMap_get_assign (m : AMap Nat Nat) (id : Nat) (es : List Event) :
    ((finalMap (assignId m id).1 es).get id).getD 0 = (assignId m id).2 := by
  rw [finalMap_eq, assignAll_stable (mentions es) (assignId_get_self m id)]
  rfl

theorem normalizeFrom_eq (m : AMap Nat Nat) (evs : List Event) :
    normalizeFrom m evs
      = evs.map (fun e => scrubEv (renameEv (fun id => ((finalMap m evs).get id).getD 0) e)) := by
  induction evs generalizing m with
  | nil => rfl
  | cons e es ih =>
    rw [normalizeFrom, ih, List.map_cons, finalMap_step]
    congr 1
    cases e <;> simp [normStep, renameEv, scrubEv, finalMap_get_assign]

/-! #### first-occurrence index -/

theorem get_eq_indexIn_aux (m : AMap Nat Nat) (s : Nat)
    (h : m.map (·.2) = List.range' s m.length) (id : Nat) :
    AMap.get m id = (indexIn (m.map (·.1)) id).map (· + s) := by
  induction m generalizing s with
  | nil => rfl
  | cons kv m ih =>
    obtain ⟨k, v⟩ := kv
    simp only [List.map_cons, List.length_cons, List.range'_succ, List.cons.injEq] at h
    obtain ⟨hv, ht⟩ := h
    simp only [AMap.get_cons', List.map_cons, indexIn]
    by_cases hk : k = id
    · simp [hk, hv]
    · rw [if_neg hk, if_neg hk, ih (s + 1) ht, Option.map_map]
      congr 1
      funext x
      simp only [Function.comp]
      omega

theorem assignAll_keys (m : AMap Nat Nat) (ids : List Nat) :
    (assignAll m ids).map (·.1)
      = m.map (·.1) ++ (distinctIds ids).filter (fun x => decide (x ∉ m.map (·.1))) := by
  induction ids generalizing m with
  | nil => simp [distinctIds]
  | cons x xs ih =>
    rw [assignAll_cons, ih, assignId_keys]
    by_cases hx : x ∈ m.map (·.1)
    · rw [if_pos hx]
      simp only [distinctIds, List.filter_cons, hx, not_true_eq_false, decide_false,
        Bool.false_eq_true, if_false, List.filter_filter]
      congr 1
      apply List.filter_congr
      intro y _
      by_cases hy : y = x
      · subst hy; simp [hx]
      · simp [hy]
    · rw [if_neg hx]
      simp only [distinctIds, List.filter_cons, hx, not_false_eq_true, decide_true,
        if_true, List.filter_filter, List.append_assoc, List.singleton_append]
      congr 2
      apply List.filter_congr
      intro y _
      by_cases hy : y = x
      · subst hy; simp
      · simp [hy]

theorem finalMap_get_eq (evs : List Event) (id : Nat) :
    (finalMap [] evs).get id = firstIndex (mentions evs) id := by
  have hr : Ranked (assignAll [] (mentions evs)) := assignAll_ranked ranked_nil (mentions evs)
  have hk := assignAll_keys [] (mentions evs)
  rw [finalMap_eq, get_eq_indexIn_aux _ 0 (by simpa [Ranked, List.range_eq_range'] using hr), hk]
  have hf : ∀ l : List Nat, l.filter (fun _ => true) = l := fun l =>
    List.filter_eq_self.mpr (fun _ _ => rfl)
  simp [firstIndex, hf]

theorem mem_distinctIds {a : Nat} {xs : List Nat} : a ∈ distinctIds xs ↔ a ∈ xs := by
  induction xs with
  | nil => simp [distinctIds]
  | cons x xs ih =>
    simp only [distinctIds, List.mem_cons, List.mem_filter, ih]
    by_cases h : a = x
    · simp [h]
    · simp [h]

theorem indexIn_of_mem {a : Nat} {xs : List Nat} (h : a ∈ xs) : ∃ i, indexIn xs a = some i := by
  induction xs with
  | nil => simp at h
  | cons x xs ih =>
    simp only [indexIn]
    by_cases hx : x = a
    · exact ⟨0, by simp [hx]⟩
    · have : a ∈ xs := by
        rcases List.mem_cons.mp h with h | h
        · exact absurd h.symm hx
        · exact h
      obtain ⟨i, hi⟩ := ih this
      exact ⟨i + 1, by simp [hx, hi]⟩

theorem indexIn_getElem {a i : Nat} {xs : List Nat} (h : indexIn xs a = some i) :
    xs[i]? = some a := by
  induction xs generalizing i with
  | nil => simp [indexIn] at h
  | cons x xs ih =>
    simp only [indexIn] at h
    by_cases hx : x = a
    · simp [hx] at h; subst h; simp [hx]
    · rw [if_neg hx] at h
      cases hj : indexIn xs a with
      | none => simp [hj] at h
      | some j =>
        simp [hj] at h
        subst h
        simpa using ih hj

/-! #### relabelling -/

/-- `m'` is `m` with its keys relabelled through `σ` (as far as ids in `S` can tell). -/
def MapRel (σ : Nat → Nat) (S : List Nat) (m m' : AMap Nat Nat) : Prop :=
  m'.length = m.length ∧ ∀ a ∈ S, AMap.get m' (σ a) = AMap.get m a

theorem assignId_rel {σ : Nat → Nat} {S : List Nat} {m m' : AMap Nat Nat} (hσ : InjOn σ S)
    (hr : MapRel σ S m m') {a : Nat} (ha : a ∈ S) :
    (assignId m' (σ a)).2 = (assignId m a).2
      ∧ MapRel σ S (assignId m a).1 (assignId m' (σ a)).1 := by
  obtain ⟨hl, hg⟩ := hr
  cases h : AMap.get m a with
  | some v =>
    have h' : AMap.get m' (σ a) = some v := by rw [hg a ha, h]
    rw [assignId_of_some h, assignId_of_some h']
    exact ⟨rfl, hl, hg⟩
  | none =>
    have h' : AMap.get m' (σ a) = none := by rw [hg a ha, h]
    rw [assignId_of_none h, assignId_of_none h']
    refine ⟨hl, by simp [hl], ?_⟩
    intro b hb
    simp only [AMap.get_append_single, hg b hb, hl]
    cases AMap.get m b with
    | some x => rfl
    | none =>
      by_cases hab : a = b
      · simp [hab]
      · have : σ a ≠ σ b := fun e => hab (hσ a b ha hb e)
        simp [hab, this]

theorem simEv_cases {σ : Nat → Nat} {e e' : Event} (h : SimEv σ e e') :
    (∃ id d d', e = .newCallSite id d ∧ e' = .newCallSite (σ id) d' ∧ scrubSite d = scrubSite d') ∨
    (∃ id p mt vs, e = .newSpan id p mt vs ∧ e' = .newSpan id p (σ mt) vs) ∨
    (∃ mt p vs, e = .newEvent mt p vs ∧ e' = .newEvent (σ mt) p vs) ∨
    (e.mt? = none ∧ e' = e) := by
  cases e with
  | newCallSite id d =>
    cases e' <;> simp only [SimEv] at h
    obtain ⟨rfl, hd⟩ := h
    exact Or.inl ⟨_, _, _, rfl, rfl, hd⟩
  | newSpan id p mt vs =>
    cases e' <;> simp only [SimEv] at h
    obtain ⟨rfl, rfl, rfl, rfl⟩ := h
    exact Or.inr (Or.inl ⟨_, _, _, _, rfl, rfl⟩)
  | newEvent mt p vs =>
    cases e' <;> simp only [SimEv] at h
    obtain ⟨rfl, rfl, rfl⟩ := h
    exact Or.inr (Or.inr (Or.inl ⟨_, _, _, rfl, rfl⟩))
  | followsFrom a b => simp_all [SimEv, Event.mt?]
  | entered a => simp_all [SimEv, Event.mt?]
  | exited a => simp_all [SimEv, Event.mt?]
  | cloned a => simp_all [SimEv, Event.mt?]
  | dropped a => simp_all [SimEv, Event.mt?]
  | valuesRecorded a vs => simp_all [SimEv, Event.mt?]

theorem normStep_of_mt_none {e : Event} (h : e.mt? = none) (m : AMap Nat Nat) :
    normStep m e = (m, e) := by
  cases e <;> simp_all [Event.mt?, normStep]

theorem normStep_rel {σ : Nat → Nat} {S : List Nat} {m m' : AMap Nat Nat} {e e' : Event}
    (hσ : InjOn σ S) (hr : MapRel σ S m m') (hs : SimEv σ e e')
    (hS : ∀ a, e.mt? = some a → a ∈ S) :
    (normStep m' e').2 = (normStep m e).2 ∧ MapRel σ S (normStep m e).1 (normStep m' e').1 := by
  rcases simEv_cases hs with ⟨id, d, d', rfl, rfl, hd⟩ | ⟨id, p, mt, vs, rfl, rfl⟩ |
    ⟨mt, p, vs, rfl, rfl⟩ | ⟨hn, rfl⟩
  · obtain ⟨h1, h2⟩ := assignId_rel hσ hr (hS id rfl)
    simp only [normStep, h1, hd]
    exact ⟨trivial, h2⟩
  · obtain ⟨h1, h2⟩ := assignId_rel hσ hr (hS mt rfl)
    simp only [normStep, h1]
    exact ⟨trivial, h2⟩
  · obtain ⟨h1, h2⟩ := assignId_rel hσ hr (hS mt rfl)
    simp only [normStep, h1]
    exact ⟨trivial, h2⟩
  · rw [normStep_of_mt_none hn, normStep_of_mt_none hn]
    exact ⟨rfl, hr⟩

theorem normalizeFrom_rel {σ : Nat → Nat} {S : List Nat} (hσ : InjOn σ S) :
    ∀ (evs evs' : List Event) (m m' : AMap Nat Nat), MapRel σ S m m' → SimEvs σ evs evs' →
      (∀ a ∈ mentions evs, a ∈ S) → normalizeFrom m' evs' = normalizeFrom m evs := by
  intro evs
  induction evs with
  | nil =>
    intro evs' m m' _ hs _
    cases evs' with
    | nil => rfl
    | cons e' es' => simp [SimEvs] at hs
  | cons e es ih =>
    intro evs' m m' hr hs hS
    cases evs' with
    | nil => simp [SimEvs] at hs
    | cons e' es' =>
      simp only [SimEvs] at hs
      obtain ⟨hs1, hs2⟩ := hs
      have hSe : ∀ a, e.mt? = some a → a ∈ S := fun a ha =>
        hS a (mem_mentions.mpr ⟨e, List.mem_cons_self, ha⟩)
      have hSes : ∀ a ∈ mentions es, a ∈ S := fun a ha => by
        obtain ⟨x, hx, hxa⟩ := mem_mentions.mp ha
        exact hS a (mem_mentions.mpr ⟨x, List.mem_cons_of_mem _ hx, hxa⟩)
      obtain ⟨h1, h2⟩ := normStep_rel hσ hr hs1 hSe
      rw [normalizeFrom, normalizeFrom, h1, ih es' _ _ h2 hs2 hSes]

theorem simEv_scrub_rename (σ : Nat → Nat) (e : Event) : SimEv σ e (scrubEv (renameEv σ e)) := by
  cases e <;> simp [SimEv, renameEv, scrubEv, scrubSite_idem]

theorem simEvs_map (σ : Nat → Nat) (evs : List Event) :
    SimEvs σ evs (evs.map (fun e => scrubEv (renameEv σ e))) := by
  induction evs with
  | nil => simp [SimEvs]
  | cons e es ih => exact ⟨simEv_scrub_rename σ e, ih⟩


/-- (A) Normalization is exactly: rename every call-site id by `rank`, scrub lines and event names. -/
theorem C20_is_renaming (evs : List Event) :
    normalize evs = evs.map (fun e => scrubEv (renameEv (rank evs) e)) := by
  exact normalizeFrom_eq [] evs

/-- `rank` numbers call sites by first occurrence: 0, 1, 2, … -/
theorem C20_rank_first_occurrence (evs : List Event) (id : Nat) (h : id ∈ mentions evs) :
    some (rank evs id) = firstIndex (mentions evs) id := by
  have hm : id ∈ distinctIds (mentions evs) := mem_distinctIds.mpr h
  obtain ⟨i, hi⟩ := indexIn_of_mem hm
  have hi' : firstIndex (mentions evs) id = some i := hi
  rw [rank, finalMap_get_eq, hi']
  rfl

/-- (B) Collision-free and consistent, duplicate announcements included: two mentioned call sites
    get the same number iff they are the same call site. -/
theorem C20_consistent (evs : List Event) (a b : Nat) (ha : a ∈ mentions evs) (hb : b ∈ mentions evs) :
    rank evs a = rank evs b ↔ a = b := by
  constructor
  · intro hab
    have h1 := C20_rank_first_occurrence evs a ha
    have h2 := C20_rank_first_occurrence evs b hb
    rw [hab] at h1
    have e1 := indexIn_getElem (xs := distinctIds (mentions evs)) h1.symm
    have e2 := indexIn_getElem (xs := distinctIds (mentions evs)) h2.symm
    rw [e1] at e2
    exact Option.some.inj e2
  · intro hab
    rw [hab]

/-- (C) The result is identical for sequences that differ only in concrete ids (any relabelling
    injective on the ids that occur), line numbers, or event call-site names. -/
theorem C20_invariant (σ : Nat → Nat) (evs evs' : List Event) (hσ : InjOn σ (mentions evs))
    (h : SimEvs σ evs evs') : normalize evs' = normalize evs := by
  exact normalizeFrom_rel hσ evs evs' [] [] ⟨rfl, fun _ _ => rfl⟩ h (fun _ ha => ha)

/-- (D) Normalizing twice changes nothing. -/
theorem C20_idempotent (evs : List Event) : normalize (normalize evs) = normalize evs := by
  have hinj : InjOn (rank evs) (mentions evs) := fun a b ha hb hab =>
    (C20_consistent evs a b ha hb).mp hab
  have hsim : SimEvs (rank evs) evs (normalize evs) := by
    rw [C20_is_renaming]
    exact simEvs_map (rank evs) evs
  exact C20_invariant (rank evs) evs (normalize evs) hinj hsim

/-- (E) Span ids, parents, values, call-site data other than id/line/event-name, and the order
    of events are untouched. -/
theorem C20_untouched (evs : List Event) :
    (normalize evs).map (fun e => scrubEv (renameEv (fun _ => 0) e))
      = evs.map (fun e => scrubEv (renameEv (fun _ => 0) e)) := by
  rw [C20_is_renaming, List.map_map]
  apply List.map_congr_left
  intro e _
  cases e <;> simp [renameEv, scrubEv, scrubSite_idem]

/-- The behaviour before the repair violated (B): ids `100, 200, 100, 300` were numbered
    `0, 1, 2, 2`, so call sites 100 and 300 collided and the span on 100 no longer matched
    its first announcement. -/
theorem C20_counterexample_old :
    let d : CallSite := ⟨.span, [110], [97], .info, none, none, none, []⟩
    (normalizeOld [.newCallSite 100 d, .newCallSite 200 d, .newCallSite 100 d, .newCallSite 300 d,
        .newSpan 1 none 100 [], .newSpan 2 none 300 []]).map Event.mt?
      = [some 0, some 1, some 2, some 2, some 2, some 2] := by
  decide

/-- Non-vacuity of (A)–(C) on the same stream with the repaired code. -/
example :
    let d : CallSite := ⟨.span, [110], [97], .info, none, none, some 7, []⟩
    (normalize [.newCallSite 100 d, .newCallSite 200 d, .newCallSite 100 d, .newCallSite 300 d,
        .newSpan 1 none 100 [], .newSpan 2 none 300 []]).map Event.mt?
      = [some 0, some 1, some 0, some 2, some 0, some 2] := by
  decide

end TT
