/-
  C20 — Normalization is a canonical, collision-free renaming.

  `normalize` models `TracingEvent::normalize` (types.rs:196-230) after the `fix:` commit
  (an already announced id keeps its mapping entry). `normalizeOld` is the behaviour before the
  repair; `C20_counterexample_old` shows that it violated the property.
-/
import TT.Model.Normalize

namespace TT

/-- The call-site id an event mentions. -/
def Event.mt? : Event → Option Nat
  | .newCallSite id _ => some id
  | .newSpan _ _ mt _ => some mt
  | .newEvent mt _ _ => some mt
  | _ => none

def mentions (evs : List Event) : List Nat := evs.filterMap Event.mt?

/-- Replace the call-site id of an event. -/
def renameEv (f : Nat → Nat) : Event → Event
  | .newCallSite id d => .newCallSite (f id) d
  | .newSpan id p mt vs => .newSpan id p (f mt) vs
  | .newEvent mt p vs => .newEvent (f mt) p vs
  | e => e

/-- Clear the line and the name of event call sites. -/
def scrubEv : Event → Event
  | .newCallSite id d => .newCallSite id (scrubSite d)
  | e => e

/-- The id mapping after processing all of `evs`, starting from `m`. -/
def finalMap (m : AMap Nat Nat) (evs : List Event) : AMap Nat Nat :=
  (mentions evs).foldl (fun m id => (assignId m id).1) m

/-- `rank evs id`: the number given to call site `id` (its order of first occurrence). -/
def rank (evs : List Event) (id : Nat) : Nat := ((finalMap [] evs).get id).getD 0

/-- Distinct ids in order of first appearance. -/
def distinctIds : List Nat → List Nat
  | [] => []
  | x :: xs => x :: (distinctIds xs).filter (· ≠ x)

def indexIn : List Nat → Nat → Option Nat
  | [], _ => none
  | x :: xs, id => if x = id then some 0 else (indexIn xs id).map (· + 1)

/-- Position of `id` among the distinct ids in order of first appearance. -/
def firstIndex (xs : List Nat) (id : Nat) : Option Nat := indexIn (distinctIds xs) id

/-- Two streams that differ only in concrete call-site ids (through `σ`), lines, and event
    call-site names. -/
def SimEv (σ : Nat → Nat) : Event → Event → Prop
  | .newCallSite id d, .newCallSite id' d' => id' = σ id ∧ scrubSite d = scrubSite d'
  | .newSpan id p mt vs, .newSpan id' p' mt' vs' => id' = id ∧ p' = p ∧ mt' = σ mt ∧ vs' = vs
  | .newEvent mt p vs, .newEvent mt' p' vs' => mt' = σ mt ∧ p' = p ∧ vs' = vs
  | .followsFrom a b, e' => e' = .followsFrom a b
  | .entered a, e' => e' = .entered a
  | .exited a, e' => e' = .exited a
  | .cloned a, e' => e' = .cloned a
  | .dropped a, e' => e' = .dropped a
  | .valuesRecorded a vs, e' => e' = .valuesRecorded a vs
  | _, _ => False

def SimEvs (σ : Nat → Nat) : List Event → List Event → Prop
  | [], [] => True
  | e :: es, e' :: es' => SimEv σ e e' ∧ SimEvs σ es es'
  | _, _ => False

/-- `σ` is injective on the ids in `S`. -/
def InjOn (σ : Nat → Nat) (S : List Nat) : Prop := ∀ a b, a ∈ S → b ∈ S → σ a = σ b → a = b

/-- (A) Normalization is exactly: rename every call-site id by `rank`, scrub lines and event names. -/
theorem C20_is_renaming (evs : List Event) :
    normalize evs = evs.map (fun e => scrubEv (renameEv (rank evs) e)) := by
  sorry

/-- `rank` numbers call sites by first occurrence: 0, 1, 2, … -/
theorem C20_rank_first_occurrence (evs : List Event) (id : Nat) (h : id ∈ mentions evs) :
    some (rank evs id) = firstIndex (mentions evs) id := by
  sorry

/-- (B) Collision-free and consistent, duplicate announcements included: two mentioned call sites
    get the same number iff they are the same call site. -/
theorem C20_consistent (evs : List Event) (a b : Nat) (ha : a ∈ mentions evs) (hb : b ∈ mentions evs) :
    rank evs a = rank evs b ↔ a = b := by
  sorry

/-- (C) The result is identical for sequences that differ only in concrete ids (any relabelling
    injective on the ids that occur), line numbers, or event call-site names. -/
theorem C20_invariant (σ : Nat → Nat) (evs evs' : List Event) (hσ : InjOn σ (mentions evs))
    (h : SimEvs σ evs evs') : normalize evs' = normalize evs := by
  sorry

/-- (D) Normalizing twice changes nothing. -/
theorem C20_idempotent (evs : List Event) : normalize (normalize evs) = normalize evs := by
  sorry

/-- (E) Span ids, parents, values, call-site data other than id/line/event-name, and the order
    of events are untouched. -/
theorem C20_untouched (evs : List Event) :
    (normalize evs).map (fun e => scrubEv (renameEv (fun _ => 0) e))
      = evs.map (fun e => scrubEv (renameEv (fun _ => 0) e)) := by
  sorry

/-- The behaviour before the repair violated (B): ids `100, 200, 100, 300` were numbered
    `0, 1, 2, 2`, so call sites 100 and 300 collided and the span on 100 no longer matched
    its first announcement. -/
theorem C20_counterexample_old :
    let d : CallSite := ⟨.span, [110], [97], .info, none, none, none, []⟩
    (normalizeOld [.newCallSite 100 d, .newCallSite 200 d, .newCallSite 100 d, .newCallSite 300 d,
        .newSpan 1 none 100 [], .newSpan 2 none 300 []]).map Event.mt?
      = [some 0, some 1, some 2, some 2, some 2, some 2] := by
  decide

/-- Non-vacuity of (A)–(C) on the same stream with the repaired code. -/
example :
    let d : CallSite := ⟨.span, [110], [97], .info, none, none, some 7, []⟩
    (normalize [.newCallSite 100 d, .newCallSite 200 d, .newCallSite 100 d, .newCallSite 300 d,
        .newSpan 1 none 100 [], .newSpan 2 none 300 []]).map Event.mt?
      = [some 0, some 1, some 0, some 2, some 0, some 2] := by
  decide

end TT
