/-
  C09 — Call-site data reaches the host unchanged and is interned once per value.

  Sequential view of `receiver/arena.rs` (`arenaAlloc`): the arena is the list of leaked metadata
  objects, an object's identity is its index, its content is the description it was created from
  (`leak_metadata` copies all eight attributes; `CallSiteData::from(&Metadata)` reads them back:
  both are checked attribute by attribute by the harness on the real objects).
-/
import TT.Lemmas.RecvSim
import TT.Lemmas.ArenaSeq

namespace TT

/-- Descriptions are equal iff all eight attributes are (so two descriptions differing in any
    single attribute are different descriptions). -/
theorem C09_attributes (d d' : CallSite) :
    d = d' ↔ (d.kind = d'.kind ∧ d.name = d'.name ∧ d.target = d'.target ∧ d.level = d'.level ∧
      d.modulePath = d'.modulePath ∧ d.file = d'.file ∧ d.line = d'.line ∧ d.fields = d'.fields) := by
  cases d; cases d'; simp

/-- The object handed out for a description has exactly that description, and objects already
    handed out keep their content. -/
theorem C09_content (arena : List CallSite) (d : CallSite) :
    (arenaAlloc arena d).1.getD (arenaAlloc arena d).2.1 default = d ∧
    (arenaAlloc arena d).2.1 < (arenaAlloc arena d).1.length ∧
    ∀ j, j < arena.length → (arenaAlloc arena d).1.getD j default = arena.getD j default := by
  exact ⟨arenaAlloc_getD arena d, arenaAlloc_lt arena d, fun j hj => arenaAlloc_old arena d j hj⟩

/-- Equal descriptions resolve to the identical object and only the first announcement allocates
    (hence at most one registration with the host); different descriptions resolve to distinct
    objects. -/
theorem C09_intern (arena : List CallSite) (h : arena.Nodup) (d d' : CallSite) :
    let r := arenaAlloc arena d
    r.1.Nodup ∧ (r.2.2 = true ↔ d ∉ arena) ∧
    arenaAlloc r.1 d = (r.1, r.2.1, false) ∧
    (d ≠ d' → (arenaAlloc r.1 d').2.1 ≠ r.2.1) := by
  intro r
  have hnd : r.1.Nodup := ar_alloc_nodup arena d h
  have hlt : r.2.1 < r.1.length := arenaAlloc_lt arena d
  have hget : r.1.getD r.2.1 default = d := arenaAlloc_getD arena d
  refine ⟨hnd, ar_alloc_new_iff arena d, ?_, ?_⟩
  · have hi := ar_indexOf?_getD r.1 r.2.1 hnd hlt
    rw [hget] at hi
    simp only [arenaAlloc, hi]
  · intro hne heq
    have h1 := arenaAlloc_getD r.1 d'
    have h2 := arenaAlloc_old r.1 d' r.2.1 hlt
    rw [heq, h2, hget] at h1
    exact hne h1

/-- Keep the first occurrence of every description. -/
def distinctSites : List CallSite → List CallSite
  | [] => []
  | d :: ds => d :: (distinctSites ds).filter (· ≠ d)

/-- Memory retained for call sites is bounded by the number of distinct descriptions, not by the
    number of announcements: after any sequence of announcements the arena is exactly the distinct
    descriptions in order of first appearance. -/
theorem C09_arena_is_distinct (ds : List CallSite) :
    ds.foldl (fun a d => (arenaAlloc a d).1) [] = distinctSites ds := by
  have hd : ∀ l, distinctSites l = ar_distinct l := by
    intro l
    induction l with
    | nil => rfl
    | cons x xs ih => simp only [distinctSites, ar_distinct, ih]
  rw [ar_fold_alloc, hd]
  simp

/-- The receiver registers a call site with the host exactly when its description is new to the
    process, and maps the announced id to the object with that description. -/
theorem C09_register_iff_new (σ : Sigma) (id : Nat) (d : CallSite) :
    let σ' := onNewCallSite σ id d
    σ'.w.host.log = (if d ∈ σ.w.arena then σ.w.host.log else .register σ.w.arena.length :: σ.w.host.log) ∧
    (σ'.r.mt.get id).map (siteOf σ'.w) = some d := by
  intro σ'
  by_cases hd : d ∈ σ.w.arena
  · obtain ⟨i, hi⟩ : ∃ i, indexOf? d σ.w.arena = some i := by
      cases hi : indexOf? d σ.w.arena with
      | none => exact absurd hd ((ar_indexOf?_none_iff d _).1 hi)
      | some i => exact ⟨i, rfl⟩
    have hσ : σ' = { r := { σ.r with mt := σ.r.mt.insert id i }, w := { arena := σ.w.arena, host := σ.w.host } } := by
      show onNewCallSite σ id d = _
      simp [onNewCallSite, arenaAlloc, hi]
    rw [hσ]
    refine ⟨by simp [hd], ?_⟩
    simp only [AMap.get_insert, if_true, Option.map_some, siteOf]
    exact congrArg some (indexOf?_some d _ i hi).2
  · have hi := (ar_indexOf?_none_iff d σ.w.arena).2 hd
    have hσ : σ' = { r := { σ.r with mt := σ.r.mt.insert id σ.w.arena.length },
                     w := { arena := σ.w.arena ++ [d], host := σ.w.host.emit (.register σ.w.arena.length) } } := by
      show onNewCallSite σ id d = _
      simp [onNewCallSite, arenaAlloc, hi]
    rw [hσ]
    refine ⟨by simp [hd, Host.emit], ?_⟩
    simp [AMap.get_insert, siteOf]

/-- Over any history — any receivers, ids, restore cycles — the arena never holds a description
    twice. -/
theorem C09_arena_nodup_reachable (w₀ : World) (h : w₀.arena.Nodup) (ops : List HOp) :
    (runHistory (Sys.init w₀) ops).σ.w.arena.Nodup := by
  exact ar_run_nodup ops _ h

/-- `persist_metadata` returns content-equal data under every id announced or restored:
    it is the bookkeeping's table of known call sites (C02_persisted_is_spec). -/
theorem C09_persist_metadata_content (w₀ : World) (ops : List HOp) (hno : noReannounceFrom {} ops = true) :
    lookupEq (persistMeta (runHistory (Sys.init w₀) ops).σ) (runSpec {} ops).cur.known :=
  (recv_state_is_spec w₀ ops hno).2.2.1

example :
    let d : CallSite := ⟨.span, [110], [97], .info, none, some [102], some 3, [[120]]⟩
    let d' : CallSite := { d with line := some 4 }
    (arenaAlloc (arenaAlloc (arenaAlloc [] d).1 d').1 d).2 = (0, false) ∧ (arenaAlloc (arenaAlloc [] d).1 d').2 = (1, true) := by
  decide

end TT
