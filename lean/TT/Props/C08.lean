/-
  C08 — The receiver never misuses host span ids and never leaks host spans.

  `WellUsed log`: scanning the host's call log in order, every span id a call refers to
  (record, follows-from on either side, enter, exit, clone, close, explicit parent of a new span
  or event) was issued earlier in that log (`newSpan` / `base`) and has not been closed before;
  in particular no span is closed twice. The theorem holds for every event sequence (well-formed
  or not) and every history with the local map kept, lost (same or new host) or discarded.
-/
import TT.Lemmas.RecvSim

namespace TT

def HParent.uses : HParent → List Nat
  | .explicit h => [h]
  | _ => []

/-- Span ids a call refers to (as opposed to the one it issues). -/
def HostCall.uses : HostCall → List Nat
  | .register _ => []
  | .newSpan _ _ p _ => p.uses
  | .record h _ => [h]
  | .follows a b => [a, b]
  | .enter h | .exit h | .clone h | .tryClose h => [h]
  | .event _ p _ => p.uses
  | .base _ => []

def HostCall.issues : HostCall → List Nat
  | .newSpan h _ _ _ => [h]
  | .base h => [h]
  | _ => []

def HostCall.closes : HostCall → List Nat
  | .tryClose h => [h]
  | _ => []

/-- Scan oldest-first. -/
def wellUsedFrom (issued closed : List Nat) : List HostCall → Bool
  | [] => true
  | c :: cs =>
    c.uses.all (fun h => issued.contains h && !closed.contains h) &&
      wellUsedFrom (issued ++ c.issues) (closed ++ c.closes) cs

/-- `log` is newest-first (as kept by `Host`). -/
def WellUsed (log : List HostCall) : Prop := wellUsedFrom [] [] log.reverse = true

def issuedIn (log : List HostCall) : List Nat := log.reverse.flatMap HostCall.issues
def closedIn (log : List HostCall) : List Nat := log.reverse.flatMap HostCall.closes

/-- The initial host may already have a history of its own (e.g. spans entered by the embedding
    application) as long as it is itself well-used and its ids are below `next`. -/
def HostOK (host : Host) : Prop :=
  WellUsed host.log ∧ ∀ h ∈ issuedIn host.log, h < host.next

/-- Every id the receiver chain passes to the host was issued by that host and is not yet closed;
    no host span is closed twice. For every history whatsoever. -/
theorem C08_id_discipline (w₀ : World) (hw : HostOK w₀.host) (ops : List HOp) :
    WellUsed (runHistory (Sys.init w₀) ops).σ.w.host.log := by
  sorry

theorem C08_never_closes_twice (w₀ : World) (hw : HostOK w₀.host) (ops : List HOp) :
    (closedIn (runHistory (Sys.init w₀) ops).σ.w.host.log).Nodup := by
  sorry

/-- When the last handle of a guest span is dropped and a host span exists for it, exactly that
    host span is closed at that moment and the local map entry is removed. -/
theorem C08_close_on_last_drop (σ : Sigma) (id h : Nat) (d : SpanData)
    (hs : σ.r.spans.get id = some d) (hrc : d.refCount = 1) (hl : σ.r.loc.get id = some h) :
    ∃ σ', tryReceive σ (.dropped id) = .ok σ' ∧
      σ'.w.host.log = .tryClose h :: σ.w.host.log ∧
      σ'.r.loc.get id = none ∧ σ'.r.spans.get id = none := by
  sorry

/-- A drop that is not the last one, or for a span without host span, makes no host call. -/
theorem C08_other_drops_silent (σ σ' : Sigma) (id : Nat) (d : SpanData)
    (hs : σ.r.spans.get id = some d) (h : d.refCount ≠ 1 ∨ σ.r.loc.get id = none)
    (hok : tryReceive σ (.dropped id) = .ok σ') : σ'.w.host.log = σ.w.host.log := by
  sorry

def onlyKeep : List HOp → Bool
  | [] => true
  | .ev _ :: ops => onlyKeep ops
  | .persist .keep :: ops => onlyKeep ops
  | _ => false

/-- With the local map preserved, a fully completed execution (no guest span alive) leaves an
    empty local map and no host span open. -/
theorem C08_complete_run (arena : List CallSite) (ops : List HOp) (hk : onlyKeep ops = true) :
    let s := runHistory (Sys.init { arena, host := {} }) ops
    s.σ.r.spans = [] → s.σ.r.loc = [] ∧ ∀ h ∈ issuedIn s.σ.w.host.log, h ∈ closedIn s.σ.w.host.log := by
  sorry

/-- Non-vacuity: a complete run across a kept cut; and a run where the map is lost, which leaks
    a host span but still never misuses an id. -/
example :
    let d : CallSite := ⟨.span, [110], [97], .info, none, none, none, []⟩
    let ops : List HOp := [.ev (.newCallSite 7 d), .ev (.newSpan 1 none 7 []), .ev (.entered 1), .ev (.exited 1),
      .persist .keep, .ev (.entered 1), .ev (.exited 1), .ev (.dropped 1)]
    let s := runHistory (Sys.init {}) ops
    onlyKeep ops = true ∧ s.σ.r.spans = [] ∧ issuedIn s.σ.w.host.log = [1] ∧ closedIn s.σ.w.host.log = [1] := by
  decide

example :
    let d : CallSite := ⟨.span, [110], [97], .info, none, none, none, []⟩
    let ops : List HOp := [.ev (.newCallSite 7 d), .ev (.newSpan 1 none 7 []), .persist .lose,
      .ev (.entered 1), .ev (.exited 1), .ev (.dropped 1)]
    let s := runHistory (Sys.init {}) ops
    wellUsedFrom [] [] s.σ.w.host.log.reverse = true ∧ issuedIn s.σ.w.host.log = [1, 2] ∧ closedIn s.σ.w.host.log = [2] := by
  decide

end TT
