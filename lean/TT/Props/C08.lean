/-
  C08 — The receiver never misuses host span ids and never leaks host spans.

  `WellUsed log`: scanning the host's call log in order, every span id a call refers to
  (record, follows-from on either side, enter, exit, clone, close, explicit parent of a new span
  or event) was issued earlier in that log (`newSpan` / `base`) and has not been closed before;
  in particular no span is closed twice. The theorem holds for every event sequence (well-formed
  or not) and every history with the local map kept, lost (same or new host) or discarded.
-/
import TT.Lemmas.RecvDefs
import TT.Lemmas.RecvIds

namespace TT

def HParent.uses : HParent → List Nat
  | .explicit h => [h]
  | _ => []

/-- Span ids a call refers to (as opposed to the one it issues). -/
def HostCall.uses : HostCall → List Nat
  | .register _ => []
  | .newSpan _ _ p _ => p.uses
  | .record h _ => [h]
  | .follows a b => [a, b]
  | .enter h | .exit h | .clone h | .tryClose h => [h]
  | .event _ p _ => p.uses
  | .base _ => []

def HostCall.issues : HostCall → List Nat
  | .newSpan h _ _ _ => [h]
  | .base h => [h]
  | _ => []

def HostCall.closes : HostCall → List Nat
  | .tryClose h => [h]
  | _ => []

/-- Scan oldest-first. -/
def wellUsedFrom (issued closed : List Nat) : List HostCall → Bool
  | [] => true
  | c :: cs =>
    c.uses.all (fun h => issued.contains h && !closed.contains h) &&
      wellUsedFrom (issued ++ c.issues) (closed ++ c.closes) cs

/-- `log` is newest-first (as kept by `Host`). -/
def WellUsed (log : List HostCall) : Prop := wellUsedFrom [] [] log.reverse = true

def issuedIn (log : List HostCall) : List Nat := log.reverse.flatMap HostCall.issues
def closedIn (log : List HostCall) : List Nat := log.reverse.flatMap HostCall.closes

/-- The initial host may already have a history of its own (e.g. spans entered by the embedding
    application) as long as it is itself well-used and its ids are below `next`. -/
def HostOK (host : Host) : Prop :=
  WellUsed host.log ∧ ∀ h ∈ issuedIn host.log, h < host.next

/-! ### Helper lemmas (proof infrastructure for the C08 theorems below) -/

section Helpers

theorem wellUsedFrom_append (i c : List Nat) (xs ys : List HostCall) :
    wellUsedFrom i c (xs ++ ys) =
      (wellUsedFrom i c xs &&
        wellUsedFrom (i ++ xs.flatMap HostCall.issues) (c ++ xs.flatMap HostCall.closes) ys) := by
  induction xs generalizing i c with
  | nil => simp [wellUsedFrom]
  | cons x xs ih => simp [wellUsedFrom, ih, List.append_assoc, Bool.and_assoc]

theorem issuedIn_cons (c : HostCall) (log : List HostCall) :
    issuedIn (c :: log) = issuedIn log ++ c.issues := by
  simp [issuedIn]

theorem closedIn_cons (c : HostCall) (log : List HostCall) :
    closedIn (c :: log) = closedIn log ++ c.closes := by
  simp [closedIn]

theorem wellUsed_cons (c : HostCall) (log : List HostCall) :
    WellUsed (c :: log) ↔
      WellUsed log ∧ ∀ h ∈ c.uses, h ∈ issuedIn log ∧ h ∉ closedIn log := by
  unfold WellUsed
  rw [List.reverse_cons, wellUsedFrom_append]
  simp [wellUsedFrom, issuedIn, closedIn]

/-- `h` was issued by the host and is still open. -/
def Live (host : Host) (h : Nat) : Prop := h ∈ issuedIn host.log ∧ h ∉ closedIn host.log

structure HostInv (host : Host) : Prop where
  wu : WellUsed host.log
  lt : ∀ h ∈ issuedIn host.log, h < host.next

/-- `b` issued and closed the same ids as `a`. -/
structure Same (a b : Host) : Prop where
  iss : issuedIn b.log = issuedIn a.log
  cls : closedIn b.log = closedIn a.log
  nxt : b.next = a.next

/-- `b` issued exactly one more id, `h`, than `a`, and closed the same ones. -/
structure Fresh (a b : Host) (h : Nat) : Prop where
  iss : issuedIn b.log = issuedIn a.log ++ [h]
  cls : closedIn b.log = closedIn a.log
  new : h ∉ issuedIn a.log

structure LocInv (host : Host) (loc : AMap Nat Nat) : Prop where
  live : ∀ g h, loc.get g = some h → Live host h
  inj : ∀ g₁ g₂ h, loc.get g₁ = some h → loc.get g₂ = some h → g₁ = g₂

theorem Same.refl (a : Host) : Same a a := ⟨rfl, rfl, rfl⟩

theorem Same.trans {a b c : Host} (h₁ : Same a b) (h₂ : Same b c) : Same a c :=
  ⟨h₂.iss.trans h₁.iss, h₂.cls.trans h₁.cls, h₂.nxt.trans h₁.nxt⟩

theorem Same.live {a b : Host} (hs : Same a b) {h : Nat} (hl : Live a h) : Live b h := by
  unfold Live at *
  rw [hs.iss, hs.cls]
  exact hl

theorem Same.locInv {a b : Host} (hs : Same a b) {loc : AMap Nat Nat} (hl : LocInv a loc) :
    LocInv b loc :=
  ⟨fun g h e => hs.live (hl.live g h e), hl.inj⟩

theorem Fresh.same {a b c : Host} {h : Nat} (hf : Fresh a b h) (hs : Same b c) : Fresh a c h :=
  ⟨hs.iss.trans hf.iss, hs.cls.trans hf.cls, hf.new⟩

theorem emit_log (a : Host) (c : HostCall) : (a.emit c).log = c :: a.log := rfl
theorem emit_next (a : Host) (c : HostCall) : (a.emit c).next = a.next := rfl

theorem closes_sub_uses (c : HostCall) : ∀ h ∈ c.closes, h ∈ c.uses := by
  cases c <;> simp [HostCall.closes, HostCall.uses]

theorem closed_sub_issued : ∀ (log : List HostCall), WellUsed log →
    ∀ h ∈ closedIn log, h ∈ issuedIn log
  | [], _ => by simp [closedIn]
  | c :: log, hw => by
    intro h hh
    rw [closedIn_cons] at hh
    rw [issuedIn_cons]
    obtain ⟨hw', hu⟩ := (wellUsed_cons c log).1 hw
    rcases List.mem_append.1 hh with h1 | h1
    · exact List.mem_append_left _ (closed_sub_issued log hw' h h1)
    · exact List.mem_append_left _ (hu h (closes_sub_uses c h h1)).1

theorem closed_nodup : ∀ (log : List HostCall), WellUsed log → (closedIn log).Nodup
  | [], _ => by simp [closedIn]
  | c :: log, hw => by
    obtain ⟨hw', hu⟩ := (wellUsed_cons c log).1 hw
    have ih := closed_nodup log hw'
    rw [closedIn_cons]
    cases c <;> simp [HostCall.closes] <;> try exact ih
    rename_i h
    rw [List.nodup_append]
    refine ⟨ih, by simp, ?_⟩
    intro x hx y hy
    simp at hy
    subst hy
    intro e
    subst e
    exact (hu x (by simp [HostCall.uses])).2 hx

theorem Fresh.live_new {a b : Host} {h : Nat} (hf : Fresh a b h) (ha : HostInv a) : Live b h := by
  refine ⟨by rw [hf.iss]; simp, ?_⟩
  rw [hf.cls]
  intro hc
  exact hf.new (closed_sub_issued _ ha.wu h hc)

theorem Fresh.live_old {a b : Host} {h x : Nat} (hf : Fresh a b h) (hx : Live a x) : Live b x := by
  refine ⟨by rw [hf.iss]; exact List.mem_append_left _ hx.1, ?_⟩
  rw [hf.cls]
  exact hx.2

theorem emit_quiet {a : Host} (hi : HostInv a) (c : HostCall) (h1 : c.issues = [])
    (h2 : c.closes = []) (hu : ∀ h ∈ c.uses, Live a h) :
    HostInv (a.emit c) ∧ Same a (a.emit c) := by
  have hs : Same a (a.emit c) :=
    ⟨by rw [emit_log, issuedIn_cons, h1]; simp, by rw [emit_log, closedIn_cons, h2]; simp, rfl⟩
  refine ⟨⟨?_, ?_⟩, hs⟩
  · rw [emit_log, wellUsed_cons]
    exact ⟨hi.wu, hu⟩
  · rw [hs.iss, hs.nxt]
    exact hi.lt

theorem emitN_quiet (c : HostCall) (h1 : c.issues = []) (h2 : c.closes = []) :
    ∀ (n : Nat) (a : Host), HostInv a → (∀ h ∈ c.uses, Live a h) →
      HostInv (emitN a c n) ∧ Same a (emitN a c n)
  | 0, a, hi, _ => ⟨hi, Same.refl a⟩
  | n + 1, a, hi, hu => by
    obtain ⟨hi', hs⟩ := emit_quiet hi c h1 h2 hu
    obtain ⟨hi'', hs'⟩ := emitN_quiet c h1 h2 n (a.emit c) hi' (fun h hh => hs.live (hu h hh))
    exact ⟨hi'', hs.trans hs'⟩

theorem recordChunks_quiet (h : Nat) : ∀ (cs : List RawVals) (a b : Host), HostInv a → Live a h →
    recordChunks a h cs = some b → HostInv b ∧ Same a b
  | [], a, b, hi, _, e => by
    simp [recordChunks] at e
    subst e
    exact ⟨hi, Same.refl _⟩
  | c :: cs, a, b, hi, hl, e => by
    simp only [recordChunks] at e
    split at e
    · cases e
    · rename_i v _
      obtain ⟨hi', hs⟩ := emit_quiet hi (.record h v) rfl rfl
        (by intro x hx; simp [HostCall.uses] at hx; subst hx; exact hl)
      obtain ⟨hi'', hs'⟩ := recordChunks_quiet h cs _ b hi' (hs.live hl) e
      exact ⟨hi'', hs.trans hs'⟩

theorem newSpan_spec {a : Host} (hi : HostInv a) (m : Nat) (p : HParent) (v : RawVals)
    (hp : ∀ x ∈ p.uses, Live a x) :
    HostInv (a.newSpan m p v).1 ∧ Fresh a (a.newSpan m p v).1 (a.newSpan m p v).2 := by
  have hlog : (a.newSpan m p v).1.log = .newSpan a.next m p v :: a.log := rfl
  have hnext : (a.newSpan m p v).1.next = a.next + 1 := rfl
  have h2 : (a.newSpan m p v).2 = a.next := rfl
  have hf : Fresh a (a.newSpan m p v).1 a.next :=
    ⟨by rw [hlog, issuedIn_cons]; rfl, by rw [hlog, closedIn_cons]; simp [HostCall.closes],
      fun hh => Nat.lt_irrefl _ (hi.lt _ hh)⟩
  refine ⟨⟨?_, ?_⟩, by rw [h2]; exact hf⟩
  · rw [hlog, wellUsed_cons]
    exact ⟨hi.wu, hp⟩
  · rw [hf.iss, hnext]
    intro h hh
    simp at hh
    rcases hh with hh | rfl
    · exact Nat.lt_succ_of_lt (hi.lt h hh)
    · exact Nat.lt_succ_self _

/-- `b` closed exactly one more id, `h`, than `a`. -/
structure Closed (a b : Host) (h : Nat) : Prop where
  iss : issuedIn b.log = issuedIn a.log
  cls : closedIn b.log = closedIn a.log ++ [h]
  nxt : b.next = a.next

theorem close_spec {a : Host} (hi : HostInv a) {h : Nat} (hl : Live a h) :
    HostInv (a.emit (.tryClose h)) ∧ Closed a (a.emit (.tryClose h)) h := by
  have hc : Closed a (a.emit (.tryClose h)) h :=
    ⟨by rw [emit_log, issuedIn_cons]; simp [HostCall.issues],
     by rw [emit_log, closedIn_cons]; rfl, rfl⟩
  refine ⟨⟨?_, ?_⟩, hc⟩
  · rw [emit_log, wellUsed_cons]
    refine ⟨hi.wu, ?_⟩
    intro x hx
    simp [HostCall.uses] at hx
    subst hx
    exact hl
  · rw [hc.iss, hc.nxt]
    exact hi.lt

theorem LocInv.nil (a : Host) : LocInv a [] :=
  ⟨fun g h e => by simp [AMap.get] at e, fun g₁ g₂ h e => by simp [AMap.get] at e⟩

theorem LocInv.insert {a b : Host} {loc : AMap Nat Nat} {h : Nat} (hl : LocInv a loc)
    (ha : HostInv a) (hf : Fresh a b h) (g : Nat) : LocInv b (loc.insert g h) := by
  constructor
  · intro g' h' e
    rw [AMap.get_insert] at e
    split at e
    · cases e
      exact hf.live_new ha
    · exact hf.live_old (hl.live g' h' e)
  · intro g₁ g₂ h' e₁ e₂
    rw [AMap.get_insert] at e₁ e₂
    split at e₁ <;> split at e₂
    · subst_vars; rfl
    · cases e₁
      exact absurd (hl.live _ _ e₂).1 hf.new
    · cases e₂
      exact absurd (hl.live _ _ e₁).1 hf.new
    · exact hl.inj _ _ _ e₁ e₂

theorem LocInv.erase {a b : Host} {loc : AMap Nat Nat} {g h : Nat} (hl : LocInv a loc)
    (hc : Closed a b h) (hg : loc.get g = some h) : LocInv b (loc.erase g) := by
  constructor
  · intro g' h' e
    rw [AMap.get_erase] at e
    split at e
    · cases e
    · rename_i hne
      have hl' := hl.live g' h' e
      refine ⟨by rw [hc.iss]; exact hl'.1, ?_⟩
      rw [hc.cls]
      intro hm
      rcases List.mem_append.1 hm with hm | hm
      · exact hl'.2 hm
      · simp at hm
        subst hm
        exact hne (hl.inj _ _ _ hg e)
  · intro g₁ g₂ h' e₁ e₂
    rw [AMap.get_erase] at e₁ e₂
    split at e₁
    · cases e₁
    · split at e₂
      · cases e₂
      · exact hl.inj _ _ _ e₁ e₂

/-! #### `finalize` -/

theorem finalize_split (e : AMap Nat Nat) (u : List Nat) (loc : AMap Nat Nat) (a : Host) :
    finalize e u loc a = finalize [] u loc (finalize e [] loc a) := rfl

theorem finalize_exit_cons (kv : Nat × Nat) (e : AMap Nat Nat) (loc : AMap Nat Nat) (a : Host) :
    finalize (kv :: e) [] loc a =
      finalize e [] loc (match loc.get kv.1 with
        | some h => emitN a (.exit h) kv.2
        | none => a) := rfl

theorem finalize_close_cons (id : Nat) (u : List Nat) (loc : AMap Nat Nat) (a : Host) :
    finalize [] (id :: u) loc a =
      finalize [] u loc (match loc.get id with
        | some h => a.emit (.tryClose h)
        | none => a) := rfl

theorem finalize_nil (loc : AMap Nat Nat) (a : Host) : finalize [] [] loc a = a := rfl

theorem finalize_exits (loc : AMap Nat Nat) : ∀ (e : AMap Nat Nat) (a : Host), HostInv a →
    LocInv a loc → HostInv (finalize e [] loc a) ∧ Same a (finalize e [] loc a)
  | [], a, hi, _ => ⟨hi, Same.refl a⟩
  | kv :: e, a, hi, hl => by
    rw [finalize_exit_cons]
    split
    · rename_i h hg
      obtain ⟨hi', hs⟩ := emitN_quiet (.exit h) rfl rfl kv.2 a hi
        (by intro x hx; simp [HostCall.uses] at hx; subst hx; exact hl.live _ _ hg)
      obtain ⟨hi'', hs'⟩ := finalize_exits loc e _ hi' (hs.locInv hl)
      exact ⟨hi'', hs.trans hs'⟩
    · exact finalize_exits loc e a hi hl

theorem finalize_closes (loc : AMap Nat Nat)
    (hinj : ∀ g₁ g₂ h, loc.get g₁ = some h → loc.get g₂ = some h → g₁ = g₂) :
    ∀ (u : List Nat) (a : Host), HostInv a → u.Nodup →
      (∀ id ∈ u, ∀ h, loc.get id = some h → Live a h) → HostInv (finalize [] u loc a)
  | [], a, hi, _, _ => hi
  | id :: u, a, hi, hn, hl => by
    rw [finalize_close_cons]
    have hn' := List.nodup_cons.1 hn
    split
    · rename_i h hg
      obtain ⟨hi', hc⟩ := close_spec hi (hl id (by simp) h hg)
      refine finalize_closes loc hinj u _ hi' hn'.2 ?_
      intro id' hid' h' hg'
      have hl' := hl id' (List.mem_cons_of_mem _ hid') h' hg'
      refine ⟨by rw [hc.iss]; exact hl'.1, ?_⟩
      rw [hc.cls]
      intro hm
      rcases List.mem_append.1 hm with hm | hm
      · exact hl'.2 hm
      · simp at hm
        subst hm
        have := hinj _ _ _ hg hg'
        subst this
        exact hn'.1 hid'
    · exact finalize_closes loc hinj u a hi hn'.2
        (fun id' hid' => hl id' (List.mem_cons_of_mem _ hid'))

theorem finalize_inv {e : AMap Nat Nat} {u : List Nat} {loc : AMap Nat Nat} {a : Host}
    (hi : HostInv a) (hl : LocInv a loc) (hn : u.Nodup) : HostInv (finalize e u loc a) := by
  rw [finalize_split]
  obtain ⟨hi', hs⟩ := finalize_exits loc e a hi hl
  exact finalize_closes loc hl.inj u _ hi' hn (fun id _ h hg => hs.live (hl.live id h hg))


/-! #### `createLocalSpan`, `onNewCallSite`, `restore` -/

theorem create_spec {r : RState} {w w' : World} {d : SpanData} {h : Nat}
    (hi : HostInv w.host) (hl : LocInv w.host r.loc)
    (e : createLocalSpan r w d = .ok w' h) : HostInv w'.host ∧ Fresh w.host w'.host h := by
  unfold createLocalSpan at e
  split at e
  · cases e
  · rename_i idx _
    simp only at e
    split at e
    · cases e
    · rename_i initial _
      split at e
      · cases e
      · rename_i host' hrc
        cases e
        have hp : ∀ x ∈ (match d.parent.bind fun x => r.loc.get x with
            | some ph => HParent.explicit ph
            | none => HParent.ctx).uses, Live w.host x := by
          intro x hx
          split at hx
          · rename_i ph hb
            simp [HParent.uses] at hx
            subst hx
            cases hd : d.parent with
            | none => simp [hd] at hb
            | some g =>
              simp [hd] at hb
              exact hl.live g _ hb
          · simp [HParent.uses] at hx
        obtain ⟨hi₁, hf₁⟩ := newSpan_spec hi idx _ initial hp
        obtain ⟨hi₂, hs₂⟩ := recordChunks_quiet _ _ _ _ hi₁ (hf₁.live_new hi) hrc
        exact ⟨hi₂, hf₁.same hs₂⟩

theorem mapSpanId_some {r : RState} {id h : Nat} (e : mapSpanId r id = .ok (some h)) :
    r.loc.get id = some h := by
  unfold mapSpanId at e
  split at e
  · cases e; assumption
  · split at e <;> cases e

theorem mapSpanId_none {r : RState} {id : Nat} (e : mapSpanId r id = .ok none) :
    r.loc.get id = none ∧ r.spans.contains id = true := by
  unfold mapSpanId at e
  split at e
  · cases e
  · split at e
    · exact ⟨by assumption, by assumption⟩
    · cases e

theorem onNewCallSite_r (σ : Sigma) (id : Nat) (d : CallSite) :
    (onNewCallSite σ id d).r.loc = σ.r.loc ∧ (onNewCallSite σ id d).r.spans = σ.r.spans ∧
    (onNewCallSite σ id d).r.uncommitted = σ.r.uncommitted ∧
    (onNewCallSite σ id d).r.entered = σ.r.entered := by
  simp [onNewCallSite]

theorem onNewCallSite_host (σ : Sigma) (id : Nat) (d : CallSite) (hi : HostInv σ.w.host) :
    HostInv (onNewCallSite σ id d).w.host ∧ Same σ.w.host (onNewCallSite σ id d).w.host := by
  simp only [onNewCallSite]
  split
  · exact emit_quiet hi _ rfl rfl (by intro x hx; simp [HostCall.uses] at hx)
  · exact ⟨hi, Same.refl _⟩

theorem restore_fold : ∀ (pm : PersistedMeta) (σ : Sigma), HostInv σ.w.host →
    (pm.foldl (fun σ kv => onNewCallSite σ kv.1 kv.2) σ).r.loc = σ.r.loc ∧
    (pm.foldl (fun σ kv => onNewCallSite σ kv.1 kv.2) σ).r.spans = σ.r.spans ∧
    (pm.foldl (fun σ kv => onNewCallSite σ kv.1 kv.2) σ).r.uncommitted = σ.r.uncommitted ∧
    HostInv (pm.foldl (fun σ kv => onNewCallSite σ kv.1 kv.2) σ).w.host ∧
    Same σ.w.host (pm.foldl (fun σ kv => onNewCallSite σ kv.1 kv.2) σ).w.host
  | [], σ, hi => ⟨rfl, rfl, rfl, hi, Same.refl _⟩
  | kv :: pm, σ, hi => by
    rw [List.foldl_cons]
    obtain ⟨h1, h2, h3, _⟩ := onNewCallSite_r σ kv.1 kv.2
    obtain ⟨hi', hs⟩ := onNewCallSite_host σ kv.1 kv.2 hi
    obtain ⟨k1, k2, k3, k4, k5⟩ := restore_fold pm (onNewCallSite σ kv.1 kv.2) hi'
    exact ⟨k1.trans h1, k2.trans h2, k3.trans h3, k4, hs.trans k5⟩

theorem restore_spec (pm : PersistedMeta) (ps : PersistedSpans) (loc : AMap Nat Nat) (w : World)
    (hi : HostInv w.host) :
    (restore pm ps loc w).r.loc = loc ∧ (restore pm ps loc w).r.spans = ps ∧
    (restore pm ps loc w).r.uncommitted = [] ∧ HostInv (restore pm ps loc w).w.host ∧
    Same w.host (restore pm ps loc w).w.host :=
  restore_fold pm { r := { spans := ps, loc }, w } hi

/-! #### Invariants of the receiver state -/

structure IdInv (σ : Sigma) : Prop where
  host : HostInv σ.w.host
  loc : LocInv σ.w.host σ.r.loc
  unc : σ.r.uncommitted.Nodup

/-- Additional invariant of histories that keep the local map, from a fresh host. -/
structure CInv (σ : Sigma) : Prop where
  sub : ∀ g h, σ.r.loc.get g = some h → σ.r.spans.contains g = true
  acc : ∀ h ∈ issuedIn σ.w.host.log, h ∈ closedIn σ.w.host.log ∨ ∃ g, σ.r.loc.get g = some h

theorem IdInv.of_quiet {σ σ' : Sigma} (hi : IdInv σ) (hb : HostInv σ'.w.host)
    (hs : Same σ.w.host σ'.w.host) (hl : σ'.r.loc = σ.r.loc) (hu : σ'.r.uncommitted.Nodup) :
    IdInv σ' :=
  ⟨hb, by rw [hl]; exact hs.locInv hi.loc, hu⟩

theorem CInv.of_quiet {σ σ' : Sigma} (hc : CInv σ)
    (hs : Same σ.w.host σ'.w.host) (hl : σ'.r.loc = σ.r.loc)
    (hsp : ∀ g h, σ.r.loc.get g = some h → σ.r.spans.contains g = true →
      σ'.r.spans.contains g = true) : CInv σ' := by
  constructor
  · intro g h e
    rw [hl] at e
    exact hsp g h e (hc.sub g h e)
  · rw [hs.iss, hs.cls, hl]
    exact hc.acc

theorem IdInv.of_fresh {σ σ' : Sigma} {b : Host} {g h : Nat} (hi : IdInv σ)
    (hb : HostInv σ'.w.host) (hf : Fresh σ.w.host b h) (hs : Same b σ'.w.host)
    (hl : σ'.r.loc = σ.r.loc.insert g h) (hu : σ'.r.uncommitted.Nodup) : IdInv σ' :=
  ⟨hb, by rw [hl]; exact hi.loc.insert hi.host (hf.same hs) g, hu⟩

theorem CInv.of_fresh {σ σ' : Sigma} {b : Host} {g h : Nat} (hc : CInv σ)
    (hf : Fresh σ.w.host b h) (hs : Same b σ'.w.host)
    (hl : σ'.r.loc = σ.r.loc.insert g h) (hn : σ.r.loc.get g = none)
    (hsp : ∀ g', σ.r.spans.contains g' = true → σ'.r.spans.contains g' = true)
    (hg : σ'.r.spans.contains g = true) : CInv σ' := by
  have hf' := hf.same hs
  constructor
  · intro g' h' e
    rw [hl, AMap.get_insert] at e
    split at e
    · subst_vars; exact hg
    · exact hsp g' (hc.sub g' h' e)
  · rw [hf'.iss, hf'.cls, hl]
    intro x hx
    rcases List.mem_append.1 hx with hx | hx
    · rcases hc.acc x hx with h1 | ⟨g', hg'⟩
      · exact Or.inl h1
      · refine Or.inr ⟨g', ?_⟩
        rw [AMap.get_insert]
        split
        · subst_vars; rw [hn] at hg'; cases hg'
        · exact hg'
    · simp at hx
      subst hx
      exact Or.inr ⟨g, by rw [AMap.get_insert]; simp⟩

theorem IdInv.of_close {σ σ' : Sigma} {g h : Nat} (hi : IdInv σ) (hg : σ.r.loc.get g = some h)
    (hh : σ'.w.host = σ.w.host.emit (.tryClose h)) (hl : σ'.r.loc = σ.r.loc.erase g)
    (hu : σ'.r.uncommitted.Nodup) : IdInv σ' := by
  obtain ⟨hi', hc⟩ := close_spec hi.host (hi.loc.live g h hg)
  exact ⟨by rw [hh]; exact hi', by rw [hh, hl]; exact hi.loc.erase hc hg, hu⟩

theorem CInv.of_close {σ σ' : Sigma} {g h : Nat} (hi : IdInv σ) (hc : CInv σ)
    (hg : σ.r.loc.get g = some h)
    (hh : σ'.w.host = σ.w.host.emit (.tryClose h)) (hl : σ'.r.loc = σ.r.loc.erase g)
    (hsp : ∀ g', g' ≠ g → σ.r.spans.contains g' = true → σ'.r.spans.contains g' = true) :
    CInv σ' := by
  obtain ⟨_, hcl⟩ := close_spec hi.host (hi.loc.live g h hg)
  constructor
  · intro g' h' e
    rw [hl, AMap.get_erase] at e
    split at e
    · cases e
    · rename_i hne
      exact hsp g' (fun e' => hne e'.symm) (hc.sub g' h' e)
  · rw [hh, hcl.iss, hcl.cls, hl]
    intro x hx
    rcases hc.acc x hx with h1 | ⟨g', hg'⟩
    · exact Or.inl (List.mem_append_left _ h1)
    · by_cases e : g = g'
      · subst e
        rw [hg] at hg'
        cases hg'
        exact Or.inl (by simp)
      · exact Or.inr ⟨g', by rw [AMap.get_erase]; simp [e, hg']⟩

theorem contains_insert {α : Type} (m : AMap Nat α) (k k' : Nat) (v : α) :
    (m.insert k v).contains k' = (decide (k = k') || m.contains k') := by
  simp only [AMap.contains, AMap.get_insert]
  split <;> simp [*]

theorem contains_erase {α : Type} (m : AMap Nat α) (k k' : Nat) :
    (m.erase k).contains k' = (!decide (k = k') && m.contains k') := by
  simp only [AMap.contains, AMap.get_erase]
  split <;> simp [*]

/-! #### `tryReceive` preserves the invariants -/

theorem inv_same {σ : Sigma} (hi : IdInv σ) : IdInv σ ∧ (CInv σ → CInv σ) := ⟨hi, fun h => h⟩

theorem inv_quiet {σ σ' : Sigma} (hi : IdInv σ) (hb : HostInv σ'.w.host)
    (hs : Same σ.w.host σ'.w.host) (hl : σ'.r.loc = σ.r.loc) (hu : σ'.r.uncommitted.Nodup)
    (hsp : ∀ g h, σ.r.loc.get g = some h → σ.r.spans.contains g = true →
      σ'.r.spans.contains g = true) : IdInv σ' ∧ (CInv σ → CInv σ') :=
  ⟨hi.of_quiet hb hs hl hu, fun hc => hc.of_quiet hs hl hsp⟩

theorem inv_emit {σ σ' : Sigma} (hi : IdInv σ) (c : HostCall) (h1 : c.issues = [])
    (h2 : c.closes = []) (hu : ∀ h ∈ c.uses, ∃ g, σ.r.loc.get g = some h)
    (hh : σ'.w.host = σ.w.host.emit c) (hl : σ'.r.loc = σ.r.loc)
    (hun : σ'.r.uncommitted.Nodup)
    (hsp : ∀ g h, σ.r.loc.get g = some h → σ.r.spans.contains g = true →
      σ'.r.spans.contains g = true) : IdInv σ' ∧ (CInv σ → CInv σ') := by
  obtain ⟨hb, hs⟩ := emit_quiet hi.host c h1 h2
    (fun h hh => by obtain ⟨g, hg⟩ := hu h hh; exact hi.loc.live g h hg)
  rw [← hh] at hb hs
  exact inv_quiet hi hb hs hl hun hsp

theorem inv_newCallSite (σ : Sigma) (hi : IdInv σ) (id : Nat) (d : CallSite) :
    IdInv (tryReceive σ (.newCallSite id d)).state ∧
      (CInv σ → CInv (tryReceive σ (.newCallSite id d)).state) := by
  obtain ⟨h1, h2, h3, _⟩ := onNewCallSite_r σ id d
  obtain ⟨hb, hs⟩ := onNewCallSite_host σ id d hi.host
  refine inv_quiet hi hb hs h1 (by show (onNewCallSite σ id d).r.uncommitted.Nodup; rw [h3]; exact hi.unc) ?_
  intro g h _ hg
  show (onNewCallSite σ id d).r.spans.contains g = true
  rw [h2]
  exact hg

theorem inv_followsFrom (σ : Sigma) (hi : IdInv σ) (id f : Nat) :
    IdInv (tryReceive σ (.followsFrom id f)).state ∧
      (CInv σ → CInv (tryReceive σ (.followsFrom id f)).state) := by
  simp only [tryReceive]
  split
  · exact inv_same hi
  · split
    · exact inv_same hi
    · split
      · rename_i a b h1 h2 _ _
        refine inv_emit hi (.follows h1 h2) rfl rfl ?_ rfl rfl hi.unc (fun _ _ _ h => h)
        intro x hx
        simp [HostCall.uses] at hx
        rcases hx with rfl | rfl
        · exact ⟨_, mapSpanId_some (by assumption)⟩
        · exact ⟨_, mapSpanId_some (by assumption)⟩
      · exact inv_same hi

theorem inv_exited (σ : Sigma) (hi : IdInv σ) (id : Nat) :
    IdInv (tryReceive σ (.exited id)).state ∧
      (CInv σ → CInv (tryReceive σ (.exited id)).state) := by
  simp only [tryReceive]
  split
  · exact inv_same hi
  · rename_i l hm
    cases l with
    | none => exact inv_quiet hi hi.host (Same.refl _) rfl hi.unc (fun _ _ _ h => h)
    | some h =>
      refine inv_emit hi (.exit h) rfl rfl ?_ rfl rfl hi.unc (fun _ _ _ h => h)
      intro x hx
      simp [HostCall.uses] at hx
      subst hx
      exact ⟨_, mapSpanId_some hm⟩

theorem inv_cloned (σ : Sigma) (hi : IdInv σ) (id : Nat) :
    IdInv (tryReceive σ (.cloned id)).state ∧
      (CInv σ → CInv (tryReceive σ (.cloned id)).state) := by
  simp only [tryReceive]
  split
  · exact inv_same hi
  · refine inv_quiet hi hi.host (Same.refl _) rfl hi.unc ?_
    intro g h _ hg
    simp [Res.state, contains_insert, hg]

theorem inv_newEvent (σ : Sigma) (hi : IdInv σ) (mt : Nat) (parent : Option Nat) (values : TVals) :
    IdInv (tryReceive σ (.newEvent mt parent values)).state ∧
      (CInv σ → CInv (tryReceive σ (.newEvent mt parent values)).state) := by
  simp only [tryReceive]
  split
  · exact inv_same hi
  · split
    · exact inv_same hi
    · split
      · exact inv_same hi
      · split
        · exact inv_same hi
        · rename_i ph hm
          refine inv_emit hi _ rfl rfl ?_ rfl rfl hi.unc (fun _ _ _ h => h)
          intro x hx
          cases ph with
          | none => simp [HostCall.uses, HParent.uses] at hx
          | some h =>
            simp [HostCall.uses, HParent.uses] at hx
            subst hx
            cases parent with
            | none => simp at hm
            | some p => exact ⟨p, mapSpanId_some hm⟩

theorem inv_valuesRecorded (σ : Sigma) (hi : IdInv σ) (id : Nat) (values : TVals) :
    IdInv (tryReceive σ (.valuesRecorded id values)).state ∧
      (CInv σ → CInv (tryReceive σ (.valuesRecorded id values)).state) := by
  simp only [tryReceive]
  split
  · exact inv_same hi
  · split
    · exact inv_same hi
    · rename_i l hm
      cases l with
      | none =>
        simp only
        split
        · exact inv_same hi
        · refine inv_quiet hi hi.host (Same.refl _) rfl hi.unc ?_
          intro g h _ hg
          simp [Res.state, contains_insert, hg]
      | some h =>
        simp only
        cases hs : σ.r.spans.get id with
        | none => exact inv_same hi
        | some d =>
          simp only
          cases hmt : σ.r.mt.get d.mt with
          | none => exact inv_same hi
          | some idx =>
            simp only
            cases hcv : createValues (generateFields (siteOf σ.w idx) values) with
            | none => exact inv_same hi
            | some v =>
              simp only [hs]
              refine inv_emit hi (.record h v) rfl rfl ?_ rfl rfl hi.unc ?_
              · intro x hx
                simp [HostCall.uses] at hx
                subst hx
                exact ⟨_, mapSpanId_some hm⟩
              · intro g h _ hg
                simp [Res.state, contains_insert, hg]

theorem inv_dropped (σ : Sigma) (hi : IdInv σ) (id : Nat) :
    IdInv (tryReceive σ (.dropped id)).state ∧
      (CInv σ → CInv (tryReceive σ (.dropped id)).state) := by
  simp only [tryReceive]
  split
  · exact inv_same hi
  · rename_i d hs
    split
    · exact inv_same hi
    · split
      · refine inv_quiet hi hi.host (Same.refl _) rfl hi.unc ?_
        intro g h _ hg
        simp [Res.state, contains_insert, hg]
      · split
        · rename_i hn
          refine inv_quiet hi hi.host (Same.refl _) rfl (ASet.nodup_erase _ _ hi.unc) ?_
          intro g h hgl hg
          have hne : ¬ id = g := by
            intro e
            subst e
            rw [hn] at hgl
            cases hgl
          simp [Res.state, contains_erase, hg, hne]
        · rename_i h hg
          refine ⟨hi.of_close hg rfl rfl (ASet.nodup_erase _ _ hi.unc),
            fun hc => hc.of_close hi hg rfl rfl ?_⟩
          intro g' hne hg'
          have hne' : ¬ id = g' := fun e => hne e.symm
          simp [Res.state, contains_erase, hg', hne']

theorem inv_fresh {σ σ' : Sigma} {b : Host} {g h : Nat} (hi : IdInv σ)
    (hb : HostInv σ'.w.host) (hf : Fresh σ.w.host b h) (hs : Same b σ'.w.host)
    (hl : σ'.r.loc = σ.r.loc.insert g h) (hu : σ'.r.uncommitted.Nodup)
    (hn : σ.r.loc.get g = none)
    (hsp : ∀ g', σ.r.spans.contains g' = true → σ'.r.spans.contains g' = true)
    (hg : σ'.r.spans.contains g = true) : IdInv σ' ∧ (CInv σ → CInv σ') :=
  ⟨hi.of_fresh hb hf hs hl hu, fun hc => hc.of_fresh hf hs hl hn hsp hg⟩

theorem inv_newSpan (σ : Sigma) (hi : IdInv σ) (id : Nat) (parent : Option Nat) (mt : Nat)
    (values : TVals) :
    IdInv (tryReceive σ (.newSpan id parent mt values)).state ∧
      (CInv σ → CInv (tryReceive σ (.newSpan id parent mt values)).state) := by
  simp only [tryReceive]
  split
  · exact inv_same hi
  · split
    · refine inv_quiet hi hi.host (Same.refl _) rfl (ASet.nodup_insert _ _ hi.unc) ?_
      intro g h _ hg
      simp [Res.state, contains_insert, hg]
    · rename_i hnc
      have hn : σ.r.loc.get id = none := by
        cases hg : σ.r.loc.get id with
        | none => rfl
        | some h => simp [AMap.contains, hg] at hnc
      split
      · exact inv_same hi
      · split
        · exact inv_same hi
        · exact inv_same hi
        · rename_i w h hc
          obtain ⟨hb, hf⟩ := create_spec hi.host hi.loc hc
          refine inv_fresh hi hb hf (Same.refl _) rfl (ASet.nodup_insert _ _ hi.unc) hn ?_ ?_
          · intro g' hg'
            simp [Res.state, contains_insert, hg']
          · simp [Res.state, contains_insert]

theorem inv_entered (σ : Sigma) (hi : IdInv σ) (id : Nat) :
    IdInv (tryReceive σ (.entered id)).state ∧
      (CInv σ → CInv (tryReceive σ (.entered id)).state) := by
  simp only [tryReceive]
  split
  · exact inv_same hi
  · rename_i h hm
    refine inv_emit hi (.enter h) rfl rfl ?_ rfl rfl hi.unc (fun _ _ _ h => h)
    intro x hx
    simp [HostCall.uses] at hx
    subst hx
    exact ⟨_, mapSpanId_some hm⟩
  · rename_i hm
    obtain ⟨hn, hcont⟩ := mapSpanId_none hm
    split
    · exact inv_same hi
    · split
      · exact inv_same hi
      · exact inv_same hi
      · rename_i w h hc
        obtain ⟨hb, hf⟩ := create_spec hi.host hi.loc hc
        obtain ⟨hb', hs⟩ := emit_quiet hb (.enter h) rfl rfl
          (by intro x hx; simp [HostCall.uses] at hx; subst hx; exact hf.live_new hi.host)
        exact inv_fresh hi hb' hf hs rfl hi.unc hn (fun _ h => h) hcont

theorem tryReceive_inv (σ : Sigma) (e : Event) (hi : IdInv σ) :
    IdInv (tryReceive σ e).state ∧ (CInv σ → CInv (tryReceive σ e).state) := by
  cases e with
  | newCallSite id d => exact inv_newCallSite σ hi id d
  | newSpan id parent mt values => exact inv_newSpan σ hi id parent mt values
  | followsFrom id f => exact inv_followsFrom σ hi id f
  | entered id => exact inv_entered σ hi id
  | exited id => exact inv_exited σ hi id
  | cloned id => exact inv_cloned σ hi id
  | dropped id => exact inv_dropped σ hi id
  | valuesRecorded id values => exact inv_valuesRecorded σ hi id values
  | newEvent mt parent values => exact inv_newEvent σ hi mt parent values

/-! #### Histories -/

theorem HostInv.empty : HostInv {} :=
  ⟨rfl, by intro h hh; simp [issuedIn] at hh⟩

theorem step_persist_keep (s : Sys) :
    (s.step (.persist .keep)).σ = restore (persistMeta s.σ) s.σ.r.spans s.σ.r.loc
      { s.σ.w with host := finalize s.σ.r.entered [] s.σ.r.loc s.σ.w.host } := rfl

theorem step_persist_lose (s : Sys) :
    (s.step (.persist .lose)).σ = restore (persistMeta s.σ) s.σ.r.spans []
      { s.σ.w with host := finalize s.σ.r.entered [] s.σ.r.loc s.σ.w.host } := rfl

theorem step_persist_loseNew (s : Sys) :
    (s.step (.persist .loseNew)).σ = restore (persistMeta s.σ) s.σ.r.spans []
      { s.σ.w with host := {} } := rfl

theorem step_discard (s : Sys) :
    (s.step .discard).σ = restore s.lastPm s.lastPs [] (dropR s.σ) := rfl

theorem idInv_restore_nil (pm : PersistedMeta) (ps : PersistedSpans) (w : World)
    (hi : HostInv w.host) : IdInv (restore pm ps [] w) := by
  obtain ⟨h1, _, h3, h4, _⟩ := restore_spec pm ps [] w hi
  exact ⟨h4, by rw [h1]; exact LocInv.nil _, by rw [h3]; exact List.nodup_nil⟩

theorem step_inv (s : Sys) (op : HOp) (hi : IdInv s.σ) : IdInv (s.step op).σ := by
  cases op with
  | ev e => exact (tryReceive_inv s.σ e hi).1
  | persist mode =>
    cases mode with
    | keep =>
      rw [step_persist_keep]
      obtain ⟨hb, hs⟩ := finalize_exits s.σ.r.loc s.σ.r.entered s.σ.w.host hi.host hi.loc
      obtain ⟨h1, _, h3, h4, h5⟩ := restore_spec (persistMeta s.σ) s.σ.r.spans s.σ.r.loc
        { s.σ.w with host := finalize s.σ.r.entered [] s.σ.r.loc s.σ.w.host } hb
      exact ⟨h4, by rw [h1]; exact (hs.trans h5).locInv hi.loc, by rw [h3]; exact List.nodup_nil⟩
    | lose =>
      rw [step_persist_lose]
      obtain ⟨hb, _⟩ := finalize_exits s.σ.r.loc s.σ.r.entered s.σ.w.host hi.host hi.loc
      exact idInv_restore_nil _ _ _ hb
    | loseNew =>
      rw [step_persist_loseNew]
      exact idInv_restore_nil _ _ _ HostInv.empty
  | discard =>
    rw [step_discard]
    exact idInv_restore_nil _ _ _ (finalize_inv hi.host hi.loc hi.unc)

theorem run_inv : ∀ (ops : List HOp) (s : Sys), IdInv s.σ → IdInv (runHistory s ops).σ
  | [], _, hi => hi
  | op :: ops, s, hi => run_inv ops (s.step op) (step_inv s op hi)

theorem init_inv (w₀ : World) (hw : HostOK w₀.host) : IdInv (Sys.init w₀).σ :=
  ⟨⟨hw.1, hw.2⟩, LocInv.nil _, List.nodup_nil⟩

theorem step_keep_cinv (s : Sys) (hi : IdInv s.σ) (hc : CInv s.σ) :
    CInv (s.step (.persist .keep)).σ := by
  rw [step_persist_keep]
  obtain ⟨hb, hs⟩ := finalize_exits s.σ.r.loc s.σ.r.entered s.σ.w.host hi.host hi.loc
  obtain ⟨h1, h2, _, _, h5⟩ := restore_spec (persistMeta s.σ) s.σ.r.spans s.σ.r.loc
    { s.σ.w with host := finalize s.σ.r.entered [] s.σ.r.loc s.σ.w.host } hb
  refine hc.of_quiet (hs.trans h5) h1 ?_
  intro g h _ hg
  rw [h2]
  exact hg

end Helpers

/-- Every id the receiver chain passes to the host was issued by that host and is not yet closed;
    no host span is closed twice. For every history whatsoever. -/
theorem C08_id_discipline (w₀ : World) (hw : HostOK w₀.host) (ops : List HOp) :
    WellUsed (runHistory (Sys.init w₀) ops).σ.w.host.log :=
  (run_inv ops (Sys.init w₀) (init_inv w₀ hw)).host.wu

theorem C08_never_closes_twice (w₀ : World) (hw : HostOK w₀.host) (ops : List HOp) :
    (closedIn (runHistory (Sys.init w₀) ops).σ.w.host.log).Nodup :=
  closed_nodup _ (C08_id_discipline w₀ hw ops)

/-- When the last handle of a guest span is dropped and a host span exists for it, exactly that
    host span is closed at that moment and the local map entry is removed. -/
theorem C08_close_on_last_drop (σ : Sigma) (id h : Nat) (d : SpanData)
    (hs : σ.r.spans.get id = some d) (hrc : d.refCount = 1) (hl : σ.r.loc.get id = some h) :
    ∃ σ', tryReceive σ (.dropped id) = .ok σ' ∧
      σ'.w.host.log = .tryClose h :: σ.w.host.log ∧
      σ'.r.loc.get id = none ∧ σ'.r.spans.get id = none := by
  simp only [tryReceive, hs, hrc, hl]
  simp [AMap.get_erase, emit_log]

/-- A drop that is not the last one, or for a span without host span, makes no host call. -/
theorem C08_other_drops_silent (σ σ' : Sigma) (id : Nat) (d : SpanData)
    (hs : σ.r.spans.get id = some d) (h : d.refCount ≠ 1 ∨ σ.r.loc.get id = none)
    (hok : tryReceive σ (.dropped id) = .ok σ') : σ'.w.host.log = σ.w.host.log := by
  simp only [tryReceive, hs] at hok
  split at hok
  · cases hok
  · split at hok
    · cases hok; rfl
    · rename_i h0 h1
      have h1' : d.refCount = 1 := by omega
      rcases h with h | h
      · exact absurd h1' h
      · simp only [h] at hok
        cases hok
        rfl

def onlyKeep : List HOp → Bool
  | [] => true
  | .ev _ :: ops => onlyKeep ops
  | .persist .keep :: ops => onlyKeep ops
  | _ => false

theorem run_cinv : ∀ (ops : List HOp) (s : Sys), onlyKeep ops = true → IdInv s.σ → CInv s.σ →
    IdInv (runHistory s ops).σ ∧ CInv (runHistory s ops).σ
  | [], _, _, hi, hc => ⟨hi, hc⟩
  | .ev e :: ops, s, hk, hi, hc =>
    run_cinv ops (s.step (.ev e)) (by simpa [onlyKeep] using hk) (step_inv s _ hi)
      ((tryReceive_inv s.σ e hi).2 hc)
  | .persist .keep :: ops, s, hk, hi, hc =>
    run_cinv ops (s.step (.persist .keep)) (by simpa [onlyKeep] using hk) (step_inv s _ hi)
      (step_keep_cinv s hi hc)
  | .persist .lose :: _, _, hk, _, _ => by simp [onlyKeep] at hk
  | .persist .loseNew :: _, _, hk, _, _ => by simp [onlyKeep] at hk
  | .discard :: _, _, hk, _, _ => by simp [onlyKeep] at hk

/-- With the local map preserved, a fully completed execution (no guest span alive) leaves an
    empty local map and no host span open. -/
theorem C08_complete_run (arena : List CallSite) (ops : List HOp) (hk : onlyKeep ops = true) :
    let s := runHistory (Sys.init { arena, host := {} }) ops
    s.σ.r.spans = [] → s.σ.r.loc = [] ∧ ∀ h ∈ issuedIn s.σ.w.host.log, h ∈ closedIn s.σ.w.host.log := by
  intro s hsp
  have hi0 : IdInv (Sys.init { arena, host := {} }).σ :=
    init_inv _ ⟨HostInv.empty.wu, HostInv.empty.lt⟩
  have hc0 : CInv (Sys.init { arena, host := {} }).σ :=
    ⟨fun g h e => by simp [Sys.init, AMap.get] at e,
     fun h hh => by simp [Sys.init, issuedIn] at hh⟩
  obtain ⟨_, hc⟩ := run_cinv ops _ hk hi0 hc0
  have hloc : s.σ.r.loc = [] := by
    apply AMap.eq_nil_of_get_none
    intro g
    cases hg : s.σ.r.loc.get g with
    | none => rfl
    | some h =>
      have := hc.sub g h hg
      rw [hsp] at this
      simp [AMap.contains, AMap.get] at this
  refine ⟨hloc, ?_⟩
  intro h hh
  rcases hc.acc h hh with h1 | ⟨g, hg⟩
  · exact h1
  · rw [hloc] at hg
    simp [AMap.get] at hg

/-- Non-vacuity: a complete run across a kept cut; and a run where the map is lost, which leaks
    a host span but still never misuses an id. -/
example :
    let d : CallSite := ⟨.span, [110], [97], .info, none, none, none, []⟩
    let ops : List HOp := [.ev (.newCallSite 7 d), .ev (.newSpan 1 none 7 []), .ev (.entered 1), .ev (.exited 1),
      .persist .keep, .ev (.entered 1), .ev (.exited 1), .ev (.dropped 1)]
    let s := runHistory (Sys.init {}) ops
    onlyKeep ops = true ∧ s.σ.r.spans = [] ∧ issuedIn s.σ.w.host.log = [1] ∧ closedIn s.σ.w.host.log = [1] := by
  decide

example :
    let d : CallSite := ⟨.span, [110], [97], .info, none, none, none, []⟩
    let ops : List HOp := [.ev (.newCallSite 7 d), .ev (.newSpan 1 none 7 []), .persist .lose,
      .ev (.entered 1), .ev (.exited 1), .ev (.dropped 1)]
    let s := runHistory (Sys.init {}) ops
    wellUsedFrom [] [] s.σ.w.host.log.reverse = true ∧ issuedIn s.σ.w.host.log = [1, 2] ∧ closedIn s.σ.w.host.log = [2] := by
  decide

/-- No leak, at every state: in a history that keeps the local span map (from a fresh host), every
    host span issued to the chain is either closed or still referred to by the map; and whatever the
    map refers to was issued and is not closed, no two guest spans sharing a host span. -/
theorem C08_open_spans_are_the_mapped_ones (arena : List CallSite) (ops : List HOp) (hk : onlyKeep ops = true) :
    let s := runHistory (Sys.init { arena, host := {} }) ops
    (∀ h ∈ issuedIn s.σ.w.host.log, h ∈ closedIn s.σ.w.host.log ∨ ∃ g, s.σ.r.loc.get g = some h) ∧
    (∀ g h, s.σ.r.loc.get g = some h → Live s.σ.w.host h) ∧
    (∀ g₁ g₂ h, s.σ.r.loc.get g₁ = some h → s.σ.r.loc.get g₂ = some h → g₁ = g₂) := by
  intro s
  have hi0 : IdInv (Sys.init { arena, host := {} }).σ :=
    init_inv _ ⟨HostInv.empty.wu, HostInv.empty.lt⟩
  have hc0 : CInv (Sys.init { arena, host := {} }).σ :=
    ⟨fun g h e => by simp [Sys.init, AMap.get] at e,
     fun h hh => by simp [Sys.init, issuedIn] at hh⟩
  obtain ⟨hi, hc⟩ := run_cinv ops _ hk hi0 hc0
  exact ⟨hc.acc, hi.loc.live, hi.loc.inj⟩

end TT
