/-
  C05 — What the capture layer stores is exactly what the traced program did.

  `expectedStorage` is an independent reference interpreter of tracing's parent/scope rules over
  the program's own call log (no reference counting, no span extensions, no cascade): it says
  which spans and events are captured, in which order, with which values, parent, counts,
  follows-from edges and closed flag. The theorem states that the storage produced by the model
  of Registry + CaptureLayer equals it, for every well-formed program, every subscriber-level
  level filter and every layer filter.
-/
import TT.Model.Capture
import TT.Props.C12
import TT.Lemmas.CapSpecMain

namespace TT

/-- The program's call log under a subscriber whose `enabled` is the global level filter. -/
def logSubF (global : Option Nat) : Subscriber LogState :=
  { logSub with enabled := fun _ site => levelEnabled global site }

def callLogF (global : Option Nat) (sites : List CallSite) (ops : List POp) : List SubCall :=
  (runProg (logSubF global) sites { sub := ({} : LogState) } ops).sub.calls.reverse

/-! ### Reference: hierarchy by tracing's rules -/

/-- State of the replay: thread-local span stack (top first, with duplicate marks) and the
    resolved parent of every span created so far. -/
structure HierSt where
  stack : List (Nat × Bool) := []
  parent : AMap Nat (Option Nat) := []
  deriving Repr, Inhabited

def resolveS (h : HierSt) : SParent → Option Nat
  | .root => none
  | .ctx => stackCurrent h.stack
  | .explicit id => some id

def HierSt.step (h : HierSt) : SubCall → HierSt
  | .newSpan id _ p _ => { h with parent := h.parent.insert id (resolveS h p) }
  | .enter id => { h with stack := stackPush h.stack id }
  | .exit id => { h with stack := stackPop h.stack id }
  | _ => h

/-- Hierarchy state before each call. -/
def hierBefore : HierSt → List SubCall → List (HierSt × SubCall)
  | _, [] => []
  | h, c :: cs => (h, c) :: hierBefore (h.step c) cs

def hierFinal (calls : List SubCall) : HierSt := calls.foldl HierSt.step {}

/-- Nearest captured span starting at `start` and walking up the resolved parents. `cap` maps
    span ids to captured indices. -/
def nearestCaptured (parent : AMap Nat (Option Nat)) (cap : AMap Nat Nat) : Nat → Option Nat → Option Nat
  | 0, _ => none
  | _ + 1, none => none
  | fuel + 1, some id =>
    match cap.get id with
    | some c => some c
    | none => nearestCaptured parent cap fuel ((parent.get id).join)

/-- Span ids captured by a layer with filter `flt`, in creation order, with their indices. -/
def capturedIds (flt : LFilter) (sites : List CallSite) (calls : List SubCall) : AMap Nat Nat :=
  (calls.filterMap fun c => match c with
    | .newSpan id k _ _ => if flt.enabled (sites.getD k default) then some id else none
    | _ => none).zipIdx

def countCalls (calls : List SubCall) (p : SubCall → Bool) : Nat := (calls.filter p).length

/-- Values: those given at creation, then every later record, inserted in order. -/
def expectedValues (calls : List SubCall) (id : Nat) : TVals :=
  calls.foldl (fun acc c => match c with
    | .newSpan id' _ _ fields => if id' = id then capture fields else acc
    | .record id' fields => if id' = id then acc.extend (capture fields) else acc
    | _ => acc) []

/-- Live handles of a span at the end: one for its creation, one per clone, minus drops. -/
def handlesAtEnd (calls : List SubCall) (id : Nat) : Int :=
  calls.foldl (fun acc c => match c with
    | .newSpan id' _ _ _ => if id' = id then acc + 1 else acc
    | .clone id' => if id' = id then acc + 1 else acc
    | .tryClose id' => if id' = id then acc - 1 else acc
    | _ => acc) 0

/-- The subscriber has closed the span: all handles dropped, no longer entered, no open children.
    Children have larger ids, so the recursion goes over the ids above `id` (fuel). -/
def closedAtEnd (calls : List SubCall) (hier : HierSt) (maxId : Nat) : Nat → Nat → Bool
  | 0, _ => true
  | fuel + 1, id =>
    decide (handlesAtEnd calls id ≤ 0) && !(hier.stack.any (·.1 == id)) &&
      ((List.range (maxId + 1)).all fun c =>
        if (hier.parent.get c).join = some id then closedAtEnd calls hier maxId fuel c else true)

def maxSpanId (calls : List SubCall) : Nat :=
  calls.foldl (fun m c => match c with | .newSpan id _ _ _ => max m id | _ => m) 0

structure RefSpanInfo where
  id : Nat
  k : Nat
  parentC : Option Nat
  deriving Repr, Inhabited

/-- Captured spans in order, each with its nearest captured ancestor at creation time. -/
def refSpans (flt : LFilter) (sites : List CallSite) (calls : List SubCall) : List RefSpanInfo :=
  let cap := capturedIds flt sites calls
  (hierBefore {} calls).filterMap fun (h, c) => match c with
    | .newSpan id k p _ =>
      if flt.enabled (sites.getD k default) then
        some { id, k, parentC := nearestCaptured h.parent cap (maxSpanId calls + 1) (resolveS h p) }
      else none
    | _ => none

structure RefEventInfo where
  k : Nat
  values : TVals
  parentC : Option Nat
  deriving Repr, Inhabited

def refEvents (flt : LFilter) (sites : List CallSite) (calls : List SubCall) : List RefEventInfo :=
  let cap := capturedIds flt sites calls
  (hierBefore {} calls).filterMap fun (h, c) => match c with
    | .event k p fields =>
      if flt.enabled (sites.getD k default) then
        some { k, values := capture fields,
               parentC := nearestCaptured h.parent cap (maxSpanId calls + 1) (resolveS h p) }
      else none
    | _ => none

/-- The expected storage of a layer with filter `flt`. -/
def expectedStorage (flt : LFilter) (sites : List CallSite) (calls : List SubCall) : Storage :=
  let cap := capturedIds flt sites calls
  let spans := refSpans flt sites calls
  let events := refEvents flt sites calls
  let hier := hierFinal calls
  let maxId := maxSpanId calls
  { spans := spans.zipIdx.map fun (s, i) =>
      { mt := s.k
        values := expectedValues calls s.id
        entered := countCalls calls fun c => match c with | .enter id => id == s.id | _ => false
        exited := countCalls calls fun c => match c with | .exit id => id == s.id | _ => false
        closed := closedAtEnd calls hier maxId (maxId + 1) s.id
        parent := s.parentC
        children := (spans.zipIdx.filter fun (s', _) => s'.parentC = some i).map (·.2)
        events := (events.zipIdx.filter fun (e, _) => e.parentC = some i).map (·.2)
        follows := calls.filterMap fun c => match c with
          | .follows a b => if a = s.id then cap.get b else none
          | _ => none }
    events := events.map fun e => { mt := e.k, values := e.values, parent := e.parentC }
    rootSpans := (spans.zipIdx.filter fun (s, _) => s.parentC.isNone).map (·.2)
    rootEvents := (events.zipIdx.filter fun (e, _) => e.parentC.isNone).map (·.2) }

/-! ### The reference coincides with its helper copy (`TT/Lemmas/CapSpecDefs.lean`)

The proof of the theorem lives in `TT/Lemmas/CapSpec*.lean`, which cannot import this file; they
work with literal copies (`cs_…`) of the definitions above. -/
theorem cs_br_logSubF (g : Option Nat) : logSubF g = cs_logSubF g := rfl
theorem cs_br_callLogF (g : Option Nat) (sites ops) : callLogF g sites ops = cs_callLogF g sites ops := rfl

def cs_toH (h : HierSt) : cs_Hier := ⟨h.stack, h.parent⟩

theorem cs_br_resolve (h : HierSt) (p : SParent) : resolveS h p = cs_resolve (cs_toH h) p := by
  cases p <;> rfl

theorem cs_br_step (h : HierSt) (c : SubCall) : cs_toH (h.step c) = (cs_toH h).step c := by
  cases c <;> rfl

theorem cs_br_hierBefore (h : HierSt) (calls : List SubCall) :
    (hierBefore h calls).map (fun x => (cs_toH x.1, x.2)) = cs_hierBefore (cs_toH h) calls := by
  induction calls generalizing h with
  | nil => rfl
  | cons c cs ih => simp [hierBefore, cs_hierBefore, ih, cs_br_step]

theorem cs_br_hierFinal_aux (h : HierSt) (calls : List SubCall) :
    cs_toH (calls.foldl HierSt.step h) = calls.foldl cs_Hier.step (cs_toH h) := by
  induction calls generalizing h with
  | nil => rfl
  | cons c cs ih => simp [ih, cs_br_step]

theorem cs_br_hierFinal (calls : List SubCall) : cs_toH (hierFinal calls) = cs_hierFinal calls :=
  cs_br_hierFinal_aux {} calls

theorem cs_br_nearest (parent cap) (fuel : Nat) (s : Option Nat) :
    nearestCaptured parent cap fuel s = cs_nearest parent cap fuel s := by
  induction fuel generalizing s with
  | zero => rfl
  | succ n ih =>
    cases s with
    | none => rfl
    | some id =>
      simp only [nearestCaptured, cs_nearest, ih]
      cases cap.get id <;> rfl

theorem cs_br_cap (flt sites calls) : capturedIds flt sites calls = cs_cap flt sites calls := rfl
theorem cs_br_values (calls id) : expectedValues calls id = cs_values calls id := rfl
theorem cs_br_handles (calls id) : handlesAtEnd calls id = cs_handles calls id := rfl
theorem cs_br_maxId (calls) : maxSpanId calls = cs_maxId calls := rfl

theorem cs_br_closed (calls) (h : HierSt) (m fuel id : Nat) :
    closedAtEnd calls h m fuel id = cs_closedAtEnd calls (cs_toH h) m fuel id := by
  induction fuel generalizing id with
  | zero => rfl
  | succ n ih =>
    simp only [closedAtEnd, cs_closedAtEnd, ih, cs_br_handles]
    rfl


def cs_toSI (s : RefSpanInfo) : cs_SI := ⟨s.id, s.k, s.parentC⟩
def cs_toEI (s : RefEventInfo) : cs_EI := ⟨s.k, s.values, s.parentC⟩

theorem cs_br_refSpans (flt sites calls) :
    (refSpans flt sites calls).map cs_toSI = cs_refSpans flt sites calls := by
  unfold refSpans cs_refSpans cs_refSpansG
  have hb : cs_hierBefore {} calls = (hierBefore {} calls).map (fun x => (cs_toH x.1, x.2)) :=
    (cs_br_hierBefore {} calls).symm
  rw [hb, List.filterMap_map, List.map_filterMap]
  apply cs_filterMap_congr
  rintro ⟨h, c⟩ _
  cases c <;> simp [cs_siOf, cs_pc, cs_toSI, cs_br_nearest, cs_br_resolve, cs_toH, cs_br_cap, cs_br_maxId]

theorem cs_br_refEvents (flt sites calls) :
    (refEvents flt sites calls).map cs_toEI = cs_refEvents flt sites calls := by
  unfold refEvents cs_refEvents cs_refEventsG
  have hb : cs_hierBefore {} calls = (hierBefore {} calls).map (fun x => (cs_toH x.1, x.2)) :=
    (cs_br_hierBefore {} calls).symm
  rw [hb, List.filterMap_map, List.map_filterMap]
  apply cs_filterMap_congr
  rintro ⟨h, c⟩ _
  cases c <;> simp [cs_eiOf, cs_pc, cs_toEI, cs_br_nearest, cs_br_resolve, cs_toH, cs_br_cap, cs_br_maxId]


theorem cs_br_expected (flt sites calls) : expectedStorage flt sites calls = cs_expected flt sites calls := by
  unfold cs_expected cs_mk
  rw [← cs_br_refSpans, ← cs_br_refEvents, cs_mkStorage_map]
  unfold expectedStorage cs_mkStorage cs_fns
  simp only [cs_mkSpan, cs_idxWhere, Function.comp, cs_toSI, cs_toEI]
  congr 1
  apply List.map_congr_left
  rintro ⟨s, i⟩ _
  simp only [cs_br_values, cs_br_maxId, cs_br_cap]
  congr 1
  rw [cs_br_closed, cs_br_hierFinal]

/-- The storage of every layer is exactly the reference: the enabled spans and events in
    emission order, values in recording order with later records overriding in place, each
    attached to its nearest captured ancestor (explicit and root parents honoured, filtered-out
    spans skipped) or a root, enter/exit counts, follows-from edges among captured spans in
    order, and the closed flag set exactly when the subscriber has closed the span. No callback
    panics. -/
theorem C05_storage_is_spec (filters : List LFilter) (global : Option Nat) (sites : List CallSite)
    (ops : List POp) (hwf : wfProg sites ops = true) :
    let w := captureRun filters global sites ops
    w.panicked = false ∧ w.storages.length = filters.length ∧
    ∀ i, i < filters.length →
      w.storages.getD i {} = expectedStorage (filters.getD i .all) sites (callLogF global sites ops) := by
  intro w
  have h := cs_main filters global sites ops hwf
  refine ⟨h.1, h.2.1, ?_⟩
  intro i hi
  rw [cs_br_expected, cs_br_callLogF]
  exact h.2.2 i hi

/-- Non-vacuity: an interior span removed by the layer filter, an explicit root, a record
    overriding a value in place, a clone keeping a span open, a follows-from edge. -/
example :
    let s : CallSite := ⟨.span, [115], [97], .info, none, none, none, [[102], [103]]⟩
    let d : CallSite := ⟨.span, [100], [97], .debug, none, none, none, []⟩
    let e : CallSite := ⟨.event, [101], [97], .info, none, none, none, [[109]]⟩
    let sites := [s, d, e]
    let ops : List POp := [.new 0 .ctx [(0, some (.i64 1)), (1, some (.bool true))], .ent 0, .new 1 .ctx [], .ent 1,
      .new 0 .ctx [], .record 0 [(0, some (.u8 9))], .evt 2 .ctx [(0, some (.str [104]))], .new 0 .root [], .cln 2,
      .fol 2 3, .ext 1, .ext 0, .drp 1, .drp 2, .drp 0, .drp 3]
    wfProg sites ops = true ∧
    (captureRun [.level 2, .all] none sites ops).storages.getD 0 {}
      = expectedStorage (.level 2) sites (callLogF none sites ops) ∧
    (captureRun [.level 2, .all] none sites ops).storages.getD 1 {}
      = expectedStorage .all sites (callLogF none sites ops) ∧
    ((captureRun [.level 2, .all] none sites ops).storages.getD 0 {}).spans.map (·.closed) = [false, false, true] := by
  decide

end TT
