import TT.Model.Wire
