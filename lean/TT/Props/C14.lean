/-
  C14 — Every recorded field value is captured once, in order, with the right kind.

  `capture` models `TracedValues::from_values / from_record / from_event`: the visitor callbacks
  arrive in declaration order; absent (`Empty`) fields make no callback.
-/
import TT.Lemmas.Values

namespace TT

/-- The fields that were actually provided, with the value the visitor stores for each. -/
def presentVals (fields : List (Str × Option Raw)) : List (Str × TVal) :=
  fields.filterMap fun f => f.2.map fun r => (f.1, visit r)

def presentNames (fields : List (Str × Option Raw)) : List Str :=
  fields.filterMap fun f => f.2.map fun _ => f.1

theorem capture_from (acc : TVals) (fields : List (Str × Option Raw)) :
    fields.foldl (fun acc f => match f.2 with
      | none => acc
      | some r => (acc.insert f.1 (visit r)).1) acc = acc.extend (presentVals fields) := by
  induction fields generalizing acc with
  | nil => rfl
  | cons f fs ih =>
    obtain ⟨k, r⟩ := f
    cases r with
    | none => simpa [presentVals] using ih acc
    | some r => simpa [presentVals, TVals.extend_cons] using ih _

/-- Capturing is inserting the provided fields one by one, in declaration order. -/
theorem C14_capture_is_inserts (fields : List (Str × Option Raw)) :
    capture fields = TVals.ofList (presentVals fields) := capture_from [] fields

theorem presentVals_names (fields : List (Str × Option Raw)) :
    (presentVals fields).map (·.1) = presentNames fields := by
  induction fields with
  | nil => rfl
  | cons f fs ih =>
    obtain ⟨k, r⟩ := f
    cases r <;> simp_all [presentVals, presentNames]

/-- Each provided name appears exactly once, at the position of its first occurrence. -/
theorem C14_names_once_in_order (fields : List (Str × Option Raw)) :
    (capture fields).names = dedupFirst (presentNames fields) ∧ (capture fields).names.Nodup := by
  rw [C14_capture_is_inserts]
  refine ⟨?_, TVals.nodup_extend [] _ (by simp [TVals.names])⟩
  rw [TVals.ofList, TVals.names_extend, presentVals_names]
  simp [TVals.names]

/-- A repeated name keeps the value of its last provided occurrence; Empty fields are absent. -/
theorem C14_last_value (fields : List (Str × Option Raw)) (k : Str) :
    (capture fields).get k = lastVal (presentVals fields) k := by
  rw [C14_capture_is_inserts, TVals.ofList, TVals.get_extend]
  cases lastVal (presentVals fields) k <;> simp

theorem lastVal_none_of_not_mem (kvs : List (Str × TVal)) (k : Str) (h : k ∉ kvs.map (·.1)) :
    lastVal kvs k = none := by
  induction kvs with
  | nil => rfl
  | cons e rest ih =>
    obtain ⟨k', v⟩ := e
    simp only [List.map_cons, List.mem_cons, not_or] at h
    have hne : ¬ k' = k := fun h' => h.1 h'.symm
    simp [lastVal, ih h.2, hne]

theorem C14_empty_omitted (fields : List (Str × Option Raw)) (k : Str)
    (h : k ∉ presentNames fields) : (capture fields).get k = none := by
  rw [C14_last_value]
  exact lastVal_none_of_not_mem _ _ (by rwa [presentVals_names])

/-- Kinds: what each primitive guest value is stored as. -/
theorem C14_kinds :
    (∀ i, visit (Prim.i8 i).toRaw = .int i) ∧ (∀ i, visit (Prim.i16 i).toRaw = .int i) ∧
    (∀ i, visit (Prim.i32 i).toRaw = .int i) ∧ (∀ i, visit (Prim.i64 i).toRaw = .int i) ∧
    (∀ i, visit (Prim.isize i).toRaw = .int i) ∧ (∀ i, visit (Prim.i128 i).toRaw = .int i) ∧
    (∀ n, visit (Prim.u8 n).toRaw = .uint n) ∧ (∀ n, visit (Prim.u16 n).toRaw = .uint n) ∧
    (∀ n, visit (Prim.u32 n).toRaw = .uint n) ∧ (∀ n, visit (Prim.u64 n).toRaw = .uint n) ∧
    (∀ n, visit (Prim.usize n).toRaw = .uint n) ∧ (∀ n, visit (Prim.u128 n).toRaw = .uint n) ∧
    (∀ b, visit (Prim.f64 b).toRaw = .float b) ∧
    (∀ b, visit (Prim.f32 b).toRaw = .float (f32ToF64Bits b)) ∧
    (∀ b, visit (Prim.bool b).toRaw = .bool b) ∧
    (∀ s, visit (Prim.str s).toRaw = .str s) ∧ (∀ s, visit (Prim.string s).toRaw = .str s) ∧
    (∀ s, visit (Prim.display s).toRaw = .obj s) ∧ (∀ s, visit (Prim.debugFmt s).toRaw = .obj s) ∧
    (∀ m ss, visit (Prim.error m ss).toRaw = .err m ss) ∧
    (∀ raw, visit (Prim.bytes raw).toRaw = .obj (renderBytes raw)) := by
  simp [Prim.toRaw, visit]

/-- The value a host visitor is shown for a stored value is captured back as the same value
    (used by C01: widening is idempotent). -/
theorem C14_visit_toRaw (v : TVal) : visit v.toRaw = v := by
  cases v <;> rfl

/-! f32 widening spot checks (1.5, smallest subnormal, -0.0, +inf). -/
example : f32ToF64Bits 0x3fc00000 = 0x3ff8000000000000 := by decide
example : f32ToF64Bits 0x00000001 = 0x36a0000000000000 := by decide
example : f32ToF64Bits 0x80000000 = 0x8000000000000000 := by decide
example : f32ToF64Bits 0x7f800000 = 0x7ff0000000000000 := by decide

/-- Non-vacuity: a repeated name keeps its first position and last value; Empty is skipped. -/
example : capture [([97], some (.i64 1)), ([98], none), ([99], some (.bool true)), ([97], some (.str [120]))]
    = [([97], .str [120]), ([99], .bool true)] := by decide

end TT
