/-
  C02 (supplement) — quiescence at the guest level.

  `C02_cut_invisible` is stated with the receiver's `entered` map being empty at the cut. This
  module connects that to the property's wording, "points where no guest span is entered": for a
  well-formed guest stream processed within one receiver lifetime, the receiver's `entered` map
  is empty exactly when every span has been exited as often as it was entered. (After a quiescent
  cut the next lifetime starts with an empty map again, so the statement composes along cuts.)
-/
import TT.Lemmas.RecvDefs
import TT.Lemmas.RecvQuiesce

namespace TT

def countEv (p : Event → Bool) (evs : List Event) : Nat := (evs.filter p).length

def entersOf (evs : List Event) (g : Nat) : Nat := countEv (fun e => match e with | .entered id => id == g | _ => false) evs
def exitsOf (evs : List Event) (g : Nat) : Nat := countEv (fun e => match e with | .exited id => id == g | _ => false) evs

/-- The guest never exits a span more often than it entered it (at every prefix). -/
def exitsBalanced (evs : List Event) : Prop := ∀ k g, exitsOf (evs.take k) g ≤ entersOf (evs.take k) g

/-- The guest never drops the last handle of a span that is still entered, and does not
    re-announce a span id while it is entered (fresh ids). Stated on the receiver run. -/
def noDropWhileEntered (s : Sys) : List Event → Prop
  | [] => True
  | e :: evs =>
    (match e with
      | .dropped id => (match s.σ.r.spans.get id with
          | some d => d.refCount = 1 → s.σ.r.entered.get id = none
          | none => True)
      | _ => True) ∧ noDropWhileEntered (s.step (.ev e)) evs

/-! ### Helper lemmas -/

theorem rq_entersOf_nil (g : Nat) : entersOf [] g = 0 := rfl
theorem rq_exitsOf_nil (g : Nat) : exitsOf [] g = 0 := rfl

theorem rq_entersOf_cons (e : Event) (evs : List Event) (g : Nat) :
    entersOf (e :: evs) g = rq_dE e g + entersOf evs g := by
  cases e <;> simp [entersOf, countEv, rq_dE, List.filter_cons]
  split <;> simp <;> omega

theorem rq_exitsOf_cons (e : Event) (evs : List Event) (g : Nat) :
    exitsOf (e :: evs) g = rq_dX e g + exitsOf evs g := by
  cases e <;> simp [exitsOf, countEv, rq_dX, List.filter_cons]
  split <;> simp <;> omega

theorem rq_balance_gen (evs : List Event) : ∀ (s : Sys),
    (∀ r ∈ results s (evs.map .ev), r = none) →
    (∀ k g, exitsOf (evs.take k) g ≤ (s.σ.r.entered.get g).getD 0 + entersOf (evs.take k) g) →
    noDropWhileEntered s evs →
    (∀ g, s.σ.r.entered.get g ≠ some 0) →
    ∀ g, ((runHistory s (evs.map .ev)).σ.r.entered.get g).getD 0
          = (s.σ.r.entered.get g).getD 0 + entersOf evs g - exitsOf evs g ∧
        (runHistory s (evs.map .ev)).σ.r.entered.get g ≠ some 0 := by
  induction evs with
  | nil =>
    intro s _ _ _ hnz g
    simp [runHistory, rq_entersOf_nil, rq_exitsOf_nil, hnz g]
  | cons e rest ih =>
    intro s hacc hbal hdrop hnz g
    simp only [List.map_cons, results, List.mem_cons, forall_eq_or_imp] at hacc
    obtain ⟨hhead, htail⟩ := hacc
    obtain ⟨σ', hok⟩ : ∃ σ', tryReceive s.σ e = .ok σ' := by
      cases hr : tryReceive s.σ e with
      | ok σ' => exact ⟨σ', rfl⟩
      | err r σ' => rw [hr] at hhead; cases hhead
      | panic m σ' => rw [hr] at hhead; cases hhead
    have hstepσ : (s.step (.ev e)).σ = σ' := by simp [Sys.step, hok, Res.state]
    obtain ⟨hd, hdrop'⟩ := hdrop
    have hdok : rq_dropOk s.σ e := by
      cases e <;> first | exact hd | trivial
    have hstep := rq_step_count s.σ σ' e hok hnz hdok
    have hb1 : ∀ g, rq_dX e g ≤ (s.σ.r.entered.get g).getD 0 + rq_dE e g := by
      intro g
      have := hbal 1 g
      simp only [List.take_succ_cons, List.take_zero, rq_exitsOf_cons, rq_entersOf_cons,
        rq_entersOf_nil, rq_exitsOf_nil] at this
      omega
    have hrec := ih (s.step (.ev e)) htail
      (by
        intro k g'
        have := hbal (k + 1) g'
        simp only [List.take_succ_cons, rq_exitsOf_cons, rq_entersOf_cons] at this
        rw [hstepσ, (hstep g').1]
        have := hb1 g'
        omega)
      hdrop'
      (by intro g'; rw [hstepσ]; exact (hstep g').2)
      g
    have hrun : runHistory s (List.map HOp.ev (e :: rest))
        = runHistory (s.step (.ev e)) (List.map HOp.ev rest) := rfl
    rw [hrun]
    refine ⟨?_, hrec.2⟩
    rw [hrec.1, hstepσ, (hstep g).1, rq_entersOf_cons, rq_exitsOf_cons]
    have := hb1 g
    omega

/-- Within one lifetime of an accepted, well-formed stream, the receiver's enter count of every
    span is the guest's enters minus exits; hence the map is empty iff no guest span is entered. -/
theorem C02_entered_is_guest_balance (w₀ : World) (evs : List Event)
    (hacc : ∀ r ∈ results (Sys.init w₀) (evs.map .ev), r = none)
    (hbal : exitsBalanced evs) (hdrop : noDropWhileEntered (Sys.init w₀) evs) (g : Nat) :
    ((runHistory (Sys.init w₀) (evs.map .ev)).σ.r.entered.get g).getD 0 = entersOf evs g - exitsOf evs g ∧
    ((runHistory (Sys.init w₀) (evs.map .ev)).σ.r.entered.get g ≠ some 0) := by
  have h := rq_balance_gen evs (Sys.init w₀) hacc
    (by intro k g'; have := hbal k g'; simp only [Sys.init, AMap.get_nil]; simpa using this)
    hdrop (by intro g'; simp [Sys.init, AMap.get_nil]) g
  simpa [Sys.init, AMap.get_nil] using h

theorem C02_quiescent_guest_level (w₀ : World) (evs : List Event)
    (hacc : ∀ r ∈ results (Sys.init w₀) (evs.map .ev), r = none)
    (hbal : exitsBalanced evs) (hdrop : noDropWhileEntered (Sys.init w₀) evs) :
    (runHistory (Sys.init w₀) (evs.map .ev)).σ.r.entered = [] ↔ ∀ g, entersOf evs g = exitsOf evs g := by
  rw [rq_eq_nil_iff]
  have hle : ∀ g, exitsOf evs g ≤ entersOf evs g := by
    intro g; have := hbal evs.length g; simpa [List.take_length] using this
  constructor
  · intro h g
    have h1 := (C02_entered_is_guest_balance w₀ evs hacc hbal hdrop g).1
    rw [h g] at h1
    have := hle g
    simp at h1
    omega
  · intro h g
    obtain ⟨h1, h2⟩ := C02_entered_is_guest_balance w₀ evs hacc hbal hdrop g
    rw [h g, Nat.sub_self] at h1
    cases hg : (runHistory (Sys.init w₀) (evs.map .ev)).σ.r.entered.get g with
    | none => rfl
    | some c =>
      rw [hg] at h1 h2
      simp at h1
      exact absurd (by rw [h1]) h2

example :
    let d : CallSite := ⟨.span, [110], [97], .info, none, none, none, []⟩
    let evs : List Event := [.newCallSite 7 d, .newSpan 1 none 7 [], .entered 1, .entered 1, .exited 1]
    ((runHistory (Sys.init {}) (evs.map .ev)).σ.r.entered.get 1) = some 1 ∧ entersOf evs 1 - exitsOf evs 1 = 1 := by
  decide

end TT
