/-
  C07 — A rejected event has no effect.

  `tryReceive` is written in the statement order of `try_receive`, and state survives an error
  exactly as `&mut self` and the host do in Rust; the theorem says that whenever an error is
  returned the whole state (receiver state, arena, host log, host stack) is the one before.
-/
import TT.Model.History

namespace TT

/-- The history with the rejected events removed (rejection decided along the run). -/
def accepted (s : Sys) : List HOp → List HOp
  | [] => []
  | .ev e :: ops =>
    match tryReceive s.σ e with
    | .err _ _ => accepted s ops
    | _ => .ev e :: accepted (s.step (.ev e)) ops
  | op :: ops => op :: accepted (s.step op) ops

/-- When `try_receive` returns an error, neither the host nor the receiver's state changed. -/
theorem C07_reject_no_effect (σ : Sigma) (e : Event) (r : RErr) (σ' : Sigma)
    (h : tryReceive σ e = .err r σ') : σ' = σ := by
  cases e
  case valuesRecorded id values =>
    simp only [tryReceive] at h
    split at h
    · simp_all
    · split at h
      · simp_all
      · rename_i l hl
        cases l with
        | none =>
          simp only at h
          split at h <;> simp_all
        | some hh =>
          simp only at h
          cases hs : AMap.get σ.r.spans id with
          | none => simp [hs] at h
          | some d =>
            simp only [hs] at h
            cases hm : AMap.get σ.r.mt d.mt with
            | none =>
              simp only [hm] at h
              simp_all
            | some idx =>
              simp only [hm] at h
              cases hc : createValues (generateFields (siteOf σ.w idx) values) with
              | none => simp [hc] at h
              | some v => simp [hc, hs] at h
  all_goals (simp only [tryReceive] at h <;> (repeat' split at h) <;> simp_all)

/-- Host observation, receiver state and persisted state of any history equal those of the
    history with the rejected events removed. -/
theorem C07_filter (s : Sys) (ops : List HOp) : runHistory s (accepted s ops) = runHistory s ops := by
  induction ops generalizing s with
  | nil => rfl
  | cons op ops ih =>
    cases op with
    | ev e =>
      cases ht : tryReceive s.σ e with
      | err r σ' =>
        have hσ := C07_reject_no_effect s.σ e r σ' ht
        have hs : s.step (.ev e) = s := by
          simp only [Sys.step, ht, Res.state, hσ]
        have ha : accepted s (.ev e :: ops) = accepted s ops := by
          simp only [accepted, ht]
        rw [ha, ih s]
        show runHistory s ops = runHistory (s.step (.ev e)) ops
        rw [hs]
      | ok σ' =>
        have ha : accepted s (.ev e :: ops) = .ev e :: accepted (s.step (.ev e)) ops := by
          simp only [accepted, ht]
        rw [ha]
        exact ih (s.step (.ev e))
      | panic site σ' =>
        have ha : accepted s (.ev e :: ops) = .ev e :: accepted (s.step (.ev e)) ops := by
          simp only [accepted, ht]
        rw [ha]
        exact ih (s.step (.ev e))
    | persist m => exact ih (s.step (.persist m))
    | discard => exact ih (s.step .discard)

/-- Non-vacuity: an event that is rejected in a state that has accumulated something. -/
example :
    let d : CallSite := ⟨.span, [110], [97], .info, none, none, none, [[102]]⟩
    let s := runHistory {} [.ev (.newCallSite 7 d), .ev (.newSpan 1 none 7 [([102], .int 1)]), .ev (.entered 1)]
    (match tryReceive s.σ (.newSpan 2 (some 9) 7 []) with | .err (.unknownSpan 9) _ => true | _ => false) = true := by
  decide

end TT
