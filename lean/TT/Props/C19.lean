/-
  C19 — Concurrent emitters are captured completely and consistently.

  Interleaving semantics (TT/Model/CaptureConc.lean): each subscriber call — registry bookkeeping
  plus the layer callbacks, which take the storage write lock — is one atomic step of the calling
  thread; the registry's span stack is per thread. A proof over this interleaving model: the
  lock's atomicity and the memory model are assumed, not modelled; the tie to the code is the
  forced-schedule correspondence (one operation at a time, executed by the designated real thread)
  and free-running runs on 2-16 threads checked against the single-threaded reference.

  `expectedStorageC` is the reference of C05 for an interleaved call log: every call is tagged with
  its thread, contextual parents resolve against the calling thread's own span stack, and a span
  counts as entered if it is on any thread's stack. Because the reference processes the log in
  order, it says in particular: every enabled item is captured exactly once, each thread's items
  appear in that thread's emission order, and an item's parent is the nearest captured ancestor of
  the parent its own thread's stack (or its explicit parent, possibly owned by another thread)
  dictates.
-/
import TT.Model.CaptureConc
import TT.Model.Forest
import TT.Props.C05
import TT.Lemmas.CapConcMain
import TT.Lemmas.CapConcOrder

namespace TT

/-! ### The interleaved call log -/

structure CLogSt where
  next : Nat := 1
  calls : List (Nat × SubCall) := []      -- (thread, call), newest first
  deriving Repr, Inhabited

/-- Logging subscriber of thread `tid` (ids are issued from one global counter, like the
    registry's). -/
def clogSub (global : Option Nat) (tid : Nat) : Subscriber CLogSt where
  enabled _ site := levelEnabled global site
  register st k site := { st with calls := (tid, .register k site) :: st.calls }
  newSpan st k _ p fields := ({ next := st.next + 1, calls := (tid, .newSpan st.next k p fields) :: st.calls }, st.next)
  record st id fields := { st with calls := (tid, .record id fields) :: st.calls }
  follows st a b := { st with calls := (tid, .follows a b) :: st.calls }
  enter st id := { st with calls := (tid, .enter id) :: st.calls }
  exit st id := { st with calls := (tid, .exit id) :: st.calls }
  clone st id := { st with calls := (tid, .clone id) :: st.calls }
  tryClose st id := { st with calls := (tid, .tryClose id) :: st.calls }
  event st k _ p fields := { st with calls := (tid, .event k p fields) :: st.calls }

structure CLogConc where
  st : CLogSt := {}
  shared : List (Option (Nat × Nat)) := []
  fes : AMap Nat (List (Option (Nat × Nat)) × List Nat) := []

def CLogConc.setup (global : Option Nat) (sites : List CallSite) (n k : Nat) : CLogConc :=
  let fe := runProg (clogSub global mainTid) sites { sub := ({} : CLogSt) } (List.replicate n (POp.new k .root []))
  { st := fe.sub, shared := fe.handles }

def CLogConc.step (global : Option Nat) (sites : List CallSite) (s : CLogConc) (tid : Nat) (op : POp) : CLogConc :=
  let (handles, registered) := (s.fes.get tid).getD (s.shared, [])
  let fe := feStep (clogSub global tid) sites { sub := s.st, handles, registered } op
  { s with st := fe.sub, fes := s.fes.insert tid (fe.handles, fe.registered) }

def clogSchedule (global : Option Nat) (sites : List CallSite) : CLogConc → AMap Nat (List POp) → List Nat → CLogConc
  | s, _, [] => s
  | s, work, t :: sched =>
    match work.get t with
    | some (op :: rest) => clogSchedule global sites (s.step global sites t op) (work.insert t rest) sched
    | _ => clogSchedule global sites s work sched

/-- The interleaved call log of a schedule (oldest first). -/
def concLog (global : Option Nat) (sites : List CallSite) (n k : Nat) (work : AMap Nat (List POp)) (sched : List Nat) :
    List (Nat × SubCall) :=
  (clogSchedule global sites (CLogConc.setup global sites n k) work sched).st.calls.reverse

/-! ### Reference for interleaved logs (C05's reference with per-thread stacks) -/

structure HierStC where
  stacks : AMap Nat (List (Nat × Bool)) := []
  parent : AMap Nat (Option Nat) := []
  deriving Repr, Inhabited

def HierStC.stack (h : HierStC) (tid : Nat) : List (Nat × Bool) := (h.stacks.get tid).getD []

def resolveSC (h : HierStC) (tid : Nat) : SParent → Option Nat
  | .root => none
  | .ctx => stackCurrent (h.stack tid)
  | .explicit id => some id

def HierStC.step (h : HierStC) : Nat × SubCall → HierStC
  | (tid, .newSpan id _ p _) => { h with parent := h.parent.insert id (resolveSC h tid p) }
  | (tid, .enter id) => { h with stacks := h.stacks.insert tid (stackPush (h.stack tid) id) }
  | (tid, .exit id) => { h with stacks := h.stacks.insert tid (stackPop (h.stack tid) id) }
  | _ => h

def hierBeforeC : HierStC → List (Nat × SubCall) → List (HierStC × Nat × SubCall)
  | _, [] => []
  | h, c :: cs => (h, c.1, c.2) :: hierBeforeC (h.step c) cs

def hierFinalC (tcalls : List (Nat × SubCall)) : HierStC := tcalls.foldl HierStC.step {}

def untag (tcalls : List (Nat × SubCall)) : List SubCall := tcalls.map (·.2)

def closedAtEndC (calls : List SubCall) (hier : HierStC) (maxId : Nat) : Nat → Nat → Bool
  | 0, _ => true
  | fuel + 1, id =>
    decide (handlesAtEnd calls id ≤ 0) && !(hier.stacks.any fun kv => kv.2.any (·.1 == id)) &&
      ((List.range (maxId + 1)).all fun c =>
        if (hier.parent.get c).join = some id then closedAtEndC calls hier maxId fuel c else true)

def refSpansC (flt : LFilter) (sites : List CallSite) (tcalls : List (Nat × SubCall)) : List RefSpanInfo :=
  let calls := untag tcalls
  let cap := capturedIds flt sites calls
  (hierBeforeC {} tcalls).filterMap fun (h, tid, c) => match c with
    | .newSpan id k p _ =>
      if flt.enabled (sites.getD k default) then
        some { id, k, parentC := nearestCaptured h.parent cap (maxSpanId calls + 1) (resolveSC h tid p) }
      else none
    | _ => none

def refEventsC (flt : LFilter) (sites : List CallSite) (tcalls : List (Nat × SubCall)) : List RefEventInfo :=
  let calls := untag tcalls
  let cap := capturedIds flt sites calls
  (hierBeforeC {} tcalls).filterMap fun (h, tid, c) => match c with
    | .event k p fields =>
      if flt.enabled (sites.getD k default) then
        some { k, values := capture fields,
               parentC := nearestCaptured h.parent cap (maxSpanId calls + 1) (resolveSC h tid p) }
      else none
    | _ => none

def expectedStorageC (flt : LFilter) (sites : List CallSite) (tcalls : List (Nat × SubCall)) : Storage :=
  let calls := untag tcalls
  let cap := capturedIds flt sites calls
  let spans := refSpansC flt sites tcalls
  let events := refEventsC flt sites tcalls
  let hier := hierFinalC tcalls
  let maxId := maxSpanId calls
  { spans := spans.zipIdx.map fun (s, i) =>
      { mt := s.k
        values := expectedValues calls s.id
        entered := countCalls calls fun c => match c with | .enter id => id == s.id | _ => false
        exited := countCalls calls fun c => match c with | .exit id => id == s.id | _ => false
        closed := closedAtEndC calls hier maxId (maxId + 1) s.id
        parent := s.parentC
        children := (spans.zipIdx.filter fun (s', _) => s'.parentC = some i).map (·.2)
        events := (events.zipIdx.filter fun (e, _) => e.parentC = some i).map (·.2)
        follows := calls.filterMap fun c => match c with
          | .follows a b => if a = s.id then cap.get b else none
          | _ => none }
    events := events.map fun e => { mt := e.k, values := e.values, parent := e.parentC }
    rootSpans := (spans.zipIdx.filter fun (s, _) => s.parentC.isNone).map (·.2)
    rootEvents := (events.zipIdx.filter fun (e, _) => e.parentC.isNone).map (·.2) }

/-! ### Well-formed threads -/

/-- Initial well-formedness state of a thread: the `n` shared handles are live. -/
def sharedWf (n : Nat) : WfSt :=
  { spanOf := List.range n, live := List.replicate n true, nSpans := n }

def dropsShared (n : Nat) : List POp → Bool
  | [] => false
  | .drp s :: ops => decide (s < n) || dropsShared n ops
  | _ :: ops => dropsShared n ops

/-- A thread's program is well-formed given the shared spans, and never drops a shared handle. -/
def wfThread (sites : List CallSite) (n : Nat) (ops : List POp) : Bool :=
  wfFrom sites (sharedWf n) ops && !dropsShared n ops

/-! ### The definitions above coincide with their helper copies (`TT/Lemmas/CapConcDefs.lean`)

The proofs live in `TT/Lemmas/CapConc*.lean`, which cannot import this file; they work with literal
copies (`cc_…`) of the definitions above. -/

def cc_toLog (s : CLogSt) : cc_CLogSt := ⟨s.next, s.calls⟩

theorem cc_br_clogSub (g : Option Nat) (t : Nat) : cc_SubHom (clogSub g t) (cc_clogSub g t) cc_toLog :=
  ⟨fun _ _ => rfl, fun _ _ _ => rfl, fun _ _ _ _ _ => rfl, fun _ _ _ => rfl, fun _ _ _ => rfl,
   fun _ _ => rfl, fun _ _ => rfl, fun _ _ => rfl, fun _ _ => rfl, fun _ _ _ _ _ => rfl⟩

def cc_toConc (s : CLogConc) : cc_CLogConc := ⟨cc_toLog s.st, s.shared, s.fes⟩

theorem cc_br_setup (g : Option Nat) (sites : List CallSite) (n k : Nat) :
    cc_toConc (CLogConc.setup g sites n k) = cc_CLogConc.setup g sites n k := by
  unfold CLogConc.setup cc_CLogConc.setup
  have := cc_feMap_run (cc_br_clogSub g mainTid) sites (List.replicate n (POp.new k .root []))
    { sub := ({} : CLogSt) }
  have h0 : cc_feMap cc_toLog { sub := ({} : CLogSt) } = { sub := ({} : cc_CLogSt) } := rfl
  rw [h0] at this
  simp only [this]
  rfl

theorem cc_br_step (g : Option Nat) (sites : List CallSite) (s : CLogConc) (t : Nat) (op : POp) :
    cc_toConc (s.step g sites t op) = (cc_toConc s).step g sites t op := by
  have := cc_feMap_step (cc_br_clogSub g t) sites
    { sub := s.st, handles := ((s.fes.get t).getD (s.shared, [])).1,
      registered := ((s.fes.get t).getD (s.shared, [])).2 } op
  show _ = cc_CLogConc.mk
    (feStep (cc_clogSub g t) sites (cc_feMap cc_toLog
      { sub := s.st, handles := ((s.fes.get t).getD (s.shared, [])).1,
        registered := ((s.fes.get t).getD (s.shared, [])).2 }) op).sub s.shared
    (s.fes.insert t
      ((feStep (cc_clogSub g t) sites (cc_feMap cc_toLog
        { sub := s.st, handles := ((s.fes.get t).getD (s.shared, [])).1,
          registered := ((s.fes.get t).getD (s.shared, [])).2 }) op).handles,
       (feStep (cc_clogSub g t) sites (cc_feMap cc_toLog
        { sub := s.st, handles := ((s.fes.get t).getD (s.shared, [])).1,
          registered := ((s.fes.get t).getD (s.shared, [])).2 }) op).registered))
  rw [this]
  rfl

theorem cc_br_schedule (g : Option Nat) (sites : List CallSite) (sched : List Nat) :
    ∀ (s : CLogConc) (work : AMap Nat (List POp)),
      cc_toConc (clogSchedule g sites s work sched) = cc_clogSchedule g sites (cc_toConc s) work sched := by
  induction sched with
  | nil => intro s work; rfl
  | cons t sched ih =>
    intro s work
    cases hg : work.get t with
    | none => simp only [clogSchedule, cc_clogSchedule, hg]; exact ih s work
    | some ops =>
      cases ops with
      | nil => simp only [clogSchedule, cc_clogSchedule, hg]; exact ih s work
      | cons op rest =>
        simp only [clogSchedule, cc_clogSchedule, hg]
        rw [ih, cc_br_step]

theorem cc_br_concLog (g : Option Nat) (sites : List CallSite) (n k : Nat) (work : AMap Nat (List POp))
    (sched : List Nat) : concLog g sites n k work sched = cc_concLog g sites n k work sched := by
  unfold concLog cc_concLog
  rw [← cc_br_setup, ← cc_br_schedule]
  rfl

def cc_toHC (h : HierStC) : cc_Hier := ⟨h.stacks, h.parent⟩

theorem cc_br_resolve (h : HierStC) (t : Nat) (p : SParent) :
    resolveSC h t p = cs_resolve (cc_proj (cc_toHC h) t) p := by
  cases p <;> rfl

theorem cc_br_hstep (h : HierStC) (c : Nat × SubCall) : cc_toHC (h.step c) = (cc_toHC h).step c := by
  obtain ⟨t, c⟩ := c
  cases c <;> first | rfl | (simp only [HierStC.step, cc_Hier.step, cc_toHC]; rfl)

theorem cc_br_hierBefore (h : HierStC) (tcalls : List (Nat × SubCall)) :
    (hierBeforeC h tcalls).map (fun x => (cc_proj (cc_toHC x.1) x.2.1, x.2.2)) = cc_hb (cc_toHC h) tcalls := by
  induction tcalls generalizing h with
  | nil => rfl
  | cons c cs ih => simp [hierBeforeC, cc_hb, ih, cc_br_hstep]

theorem cc_br_hierFinal_aux (h : HierStC) (tcalls : List (Nat × SubCall)) :
    cc_toHC (tcalls.foldl HierStC.step h) = tcalls.foldl cc_Hier.step (cc_toHC h) := by
  induction tcalls generalizing h with
  | nil => rfl
  | cons c cs ih => simp [ih, cc_br_hstep]

theorem cc_br_hierFinal (tcalls : List (Nat × SubCall)) : cc_toHC (hierFinalC tcalls) = cc_hierFinal tcalls :=
  cc_br_hierFinal_aux {} tcalls

theorem cc_br_closed (calls) (h : HierStC) (m fuel id : Nat) :
    closedAtEndC calls h m fuel id = cc_closedAtEnd calls (cc_toHC h) m fuel id := by
  induction fuel generalizing id with
  | zero => rfl
  | succ n ih =>
    simp only [closedAtEndC, cc_closedAtEnd, ih, cs_br_handles]
    rfl

theorem cc_br_refSpans (flt sites tcalls) :
    (refSpansC flt sites tcalls).map cs_toSI = cc_refSpans flt sites tcalls := by
  unfold refSpansC cc_refSpans
  have hb : cc_hb {} tcalls = (hierBeforeC {} tcalls).map (fun x => (cc_proj (cc_toHC x.1) x.2.1, x.2.2)) :=
    (cc_br_hierBefore {} tcalls).symm
  rw [hb, List.filterMap_map, List.map_filterMap]
  apply cs_filterMap_congr
  rintro ⟨h, t, c⟩ _
  cases c <;> simp [cs_siOf, cs_pc, cs_toSI, cs_br_nearest, cc_br_resolve, cc_toHC, cc_proj, cs_br_cap, cs_br_maxId,
    untag, cc_untag]

theorem cc_br_refEvents (flt sites tcalls) :
    (refEventsC flt sites tcalls).map cs_toEI = cc_refEvents flt sites tcalls := by
  unfold refEventsC cc_refEvents
  have hb : cc_hb {} tcalls = (hierBeforeC {} tcalls).map (fun x => (cc_proj (cc_toHC x.1) x.2.1, x.2.2)) :=
    (cc_br_hierBefore {} tcalls).symm
  rw [hb, List.filterMap_map, List.map_filterMap]
  apply cs_filterMap_congr
  rintro ⟨h, t, c⟩ _
  cases c <;> simp [cs_eiOf, cs_pc, cs_toEI, cs_br_nearest, cc_br_resolve, cc_toHC, cc_proj, cs_br_cap, cs_br_maxId,
    untag, cc_untag]

theorem cc_br_expected (flt sites tcalls) : expectedStorageC flt sites tcalls = cc_expected flt sites tcalls := by
  unfold cc_expected cs_mk
  rw [← cc_br_refSpans, ← cc_br_refEvents, cs_mkStorage_map]
  unfold expectedStorageC cs_mkStorage cs_fns
  simp only [cs_mkSpan, cs_idxWhere, Function.comp, cs_toSI, cs_toEI]
  congr 1
  apply List.map_congr_left
  rintro ⟨s, i⟩ _
  simp only [cs_br_values, cs_br_maxId, cs_br_cap]
  congr 1
  rw [cc_br_closed, cc_br_hierFinal]
  rfl

theorem cc_br_dropsShared (n : Nat) (ops : List POp) : dropsShared n ops = cc_dropsShared n ops := by
  induction ops with
  | nil => rfl
  | cons op ops ih => cases op <;> simp [dropsShared, cc_dropsShared, ih]

theorem cc_br_wfThread (sites : List CallSite) (n : Nat) (ops : List POp) :
    wfThread sites n ops = cc_wfThread sites n ops := by
  unfold wfThread cc_wfThread
  rw [cc_br_dropsShared]
  rfl

/-- Under every schedule of any number of threads: no callback panics, every storage satisfies
    the structural laws of C17, and every layer's storage is exactly the reference for the
    interleaved call log. -/
theorem C19_all_schedules (filters : List LFilter) (global : Option Nat) (sites : List CallSite)
    (n k : Nat) (hk : k < sites.length) (work : AMap Nat (List POp)) (sched : List Nat)
    (hkeys : (work.map (·.1)).Nodup) (hmain : ∀ kv ∈ work, kv.1 ≠ mainTid)
    (hwf : ∀ kv ∈ work, wfThread sites n kv.2 = true) :
    let s := runSchedule sites (ConcSt.setup filters global sites n k) work sched
    s.w.panicked = false ∧ (∀ st ∈ s.w.storages, st.WF) ∧ s.w.storages.length = filters.length ∧
    ∀ i, i < filters.length →
      s.w.storages.getD i {} = expectedStorageC (filters.getD i .all) sites (concLog global sites n k work sched) := by
  intro s
  -- distinct keys and `≠ mainTid` are not needed: the proof goes through `AMap.get`
  have _ := hkeys
  have _ := hmain
  have h := cc_main filters global sites n k hk work sched (by
    intro t ops hg
    rw [← cc_br_wfThread]
    exact hwf (t, ops) (cs_get_mem hg))
  refine ⟨h.1, h.2.1, h.2.2.1, ?_⟩
  intro i hi
  rw [cc_br_expected, cc_br_concLog]
  exact h.2.2.2 i hi

/-- The log restricted to one thread is that thread's own sequence of calls: its items appear in
    its emission order, whatever the schedule (ids are global, so calls are compared with span ids
    erased). -/
def eraseIds : SubCall → SubCall
  | .newSpan _ k _ f => .newSpan 0 k .ctx f
  | .record _ f => .record 0 f
  | .follows _ _ => .follows 0 0
  | .enter _ => .enter 0
  | .exit _ => .exit 0
  | .clone _ => .clone 0
  | .tryClose _ => .tryClose 0
  | .event k _ f => .event k .ctx f
  | c => c

theorem cc_br_eraseIds (c : SubCall) : eraseIds c = cc_eraseIds c := by
  cases c <;> rfl

theorem C19_thread_order (global : Option Nat) (sites : List CallSite) (n k : Nat)
    (work : AMap Nat (List POp)) (sched : List Nat) (t : Nat) (ops : List POp)
    (hkeys : (work.map (·.1)).Nodup) (ht : work.get t = some ops) (htm : t ≠ mainTid)
    (hall : ops.length ≤ (sched.filter (· == t)).length) :
    ((concLog global sites n k work sched).filter (·.1 == t)).map (fun c => eraseIds c.2)
      = ((concLog global sites n k [(t, ops)] (List.replicate ops.length t)).filter (·.1 == t)).map (fun c => eraseIds c.2) := by
  have _ := hkeys
  have _ := htm
  have he : (fun c : Nat × SubCall => eraseIds c.2) = fun c => cc_eraseIds c.2 := by
    funext c; exact cc_br_eraseIds c.2
  rw [cc_br_concLog, cc_br_concLog, he]
  exact cc_thread_order global sites n k work sched t ops ht hall

/-- Non-vacuity: two threads, a shared span used as explicit parent by one and entered by the
    other, interleaved; thread 1's contextual span is a root although thread 2 has a span entered. -/
example :
    let sh : CallSite := ⟨.span, [115], [97], .info, none, none, none, []⟩
    let a : CallSite := ⟨.span, [97], [97], .info, none, none, none, []⟩
    let e : CallSite := ⟨.event, [101], [97], .info, none, none, none, []⟩
    let sites := [sh, a, e]
    let work : AMap Nat (List POp) := [(1, [.new 1 .ctx [], .ent 1, .evt 2 .ctx [], .ext 1, .drp 1]),
                                       (2, [.ent 0, .new 1 (.handle 0) [], .evt 2 .ctx [], .ext 0])]
    let sched := [2, 1, 2, 1, 1, 2, 2, 1, 1]
    let s := runSchedule sites (ConcSt.setup [.all] none sites 1 0) work sched
    wfThread sites 1 (work.get 1 |>.getD []) = true ∧ wfThread sites 1 (work.get 2 |>.getD []) = true ∧
    s.w.storages.getD 0 {} = expectedStorageC .all sites (concLog none sites 1 0 work sched) ∧
    (s.w.storages.getD 0 {}).spans.map (·.parent) = [none, none, some 0] ∧
    (s.w.storages.getD 0 {}).events.map (·.parent) = [some 1, some 0] ∧
    ((concLog none sites 1 0 work sched).filter (·.1 == 2)).map (fun c => eraseIds c.2)
      = ((concLog none sites 1 0 [(2, (work.get 2).getD [])] (List.replicate 4 2)).filter (·.1 == 2)).map (fun c => eraseIds c.2) := by
  decide

end TT
