/-
  C04 (retry clause) — retrying a discarded segment from the last persisted state yields the
  same acceptance results and the same final persisted state as a run in which the discard never
  happened. Consequence of the bookkeeping simulation (TT/Lemmas/RecvSim): acceptance results and
  persisted state are functions of the bookkeeping, and a discard resets the bookkeeping to its
  state at the last commit.
-/
import TT.Lemmas.RecvSim

namespace TT

def evOps (seg : List Event) : List HOp := seg.map .ev

/-- `h` ends at a commit point (it is empty or ends with a persist). -/
def endsCommitted : List HOp → Bool
  | [] => true
  | ops => match ops.getLast? with
    | some (.persist _) => true
    | _ => false

theorem C04_retry (w₀ : World) (h : List HOp) (seg : List Event) (m : PMode)
    (hc : endsCommitted h = true)
    (hno : noReannounceFrom {} (h ++ evOps seg ++ [.discard] ++ evOps seg ++ [.persist m]) = true) :
    let withDiscard := h ++ evOps seg ++ [.discard] ++ evOps seg ++ [.persist m]
    let without := h ++ evOps seg ++ [.persist m]
    -- same acceptance results for the (re)tried segment
    (results (Sys.init w₀) withDiscard).drop ((results (Sys.init w₀) (h ++ evOps seg)).length)
      = (results (Sys.init w₀) without).drop ((results (Sys.init w₀) h).length) ∧
    -- same final persisted state
    lookupEq (runHistory (Sys.init w₀) withDiscard).lastPs (runHistory (Sys.init w₀) without).lastPs ∧
    lookupEq (runHistory (Sys.init w₀) withDiscard).lastPm (runHistory (Sys.init w₀) without).lastPm := by
  sorry

/-- Non-vacuity (with a rejected event inside the retried segment). -/
example :
    let d : CallSite := ⟨.span, [110], [97], .info, none, none, none, []⟩
    let h : List HOp := [.ev (.newCallSite 7 d), .ev (.newSpan 1 none 7 []), .persist .keep]
    let seg : List Event := [.newSpan 2 (some 1) 7 [], .entered 2, .entered 9, .dropped 1]
    endsCommitted h = true ∧
    noReannounceFrom {} (h ++ evOps seg ++ [.discard] ++ evOps seg ++ [.persist .keep]) = true ∧
    (results (Sys.init {}) (h ++ evOps seg ++ [.discard] ++ evOps seg ++ [.persist .keep])).drop 6
      = [none, none, some (.unknownSpan 9), none] := by
  decide

end TT
