/-
  C04 (retry clause) — retrying a discarded segment from the last persisted state yields the
  same acceptance results and the same final persisted state as a run in which the discard never
  happened. Consequence of the bookkeeping simulation (TT/Lemmas/RecvSim): acceptance results and
  persisted state are functions of the bookkeeping, and a discard resets the bookkeeping to its
  state at the last commit.
-/
import TT.Lemmas.RecvSim
import TT.Lemmas.RecvRestore

namespace TT

def evOps (seg : List Event) : List HOp := seg.map .ev

/-- `h` ends at a commit point (it is empty or ends with a persist). -/
def endsCommitted : List HOp → Bool
  | [] => true
  | ops => match ops.getLast? with
    | some (.persist _) => true
    | _ => false

theorem rr_runSpec_evOps_persisted (ss : SpecSys) (seg : List Event) :
    (runSpec ss (evOps seg)).persisted = ss.persisted := by
  induction seg generalizing ss with
  | nil => rfl
  | cons e seg ih =>
    show (runSpec (ss.step (.ev e)) (evOps seg)).persisted = ss.persisted
    rw [ih]
    simp only [SpecSys.step]
    split <;> rfl

theorem rr_endsCommitted_cur (h : List HOp) (hc : endsCommitted h = true) :
    (runSpec {} h).cur = (runSpec {} h).persisted := by
  cases hl : h.getLast? with
  | none =>
    rw [List.getLast?_eq_none_iff] at hl
    subst hl
    rfl
  | some op =>
    have hne : h ≠ [] := by
      intro e; subst e; simp at hl
    obtain ⟨ys, hsplit⟩ := List.getLast?_eq_some_iff.1 hl
    cases op with
    | persist m =>
      rw [hsplit, rr_runSpec_append]
      rfl
    | ev e =>
      exfalso
      cases h with
      | nil => exact hne rfl
      | cons a t => simp [endsCommitted, hl] at hc
    | discard =>
      exfalso
      cases h with
      | nil => exact hne rfl
      | cons a t => simp [endsCommitted, hl] at hc

theorem rr_retry_spec (h : List HOp) (seg : List Event) (hc : endsCommitted h = true) :
    runSpec {} (h ++ evOps seg ++ [.discard]) = runSpec {} h := by
  rw [rr_runSpec_append, rr_runSpec_append]
  have hp := rr_runSpec_evOps_persisted (runSpec {} h) seg
  have hcur := rr_endsCommitted_cur h hc
  show SpecSys.step (runSpec (runSpec {} h) (evOps seg)) .discard = runSpec {} h
  simp only [SpecSys.step, hp]
  cases hss : runSpec {} h with
  | mk c p =>
    rw [hss] at hcur
    simp only at hcur
    subst hcur
    rfl

theorem C04_retry (w₀ : World) (h : List HOp) (seg : List Event) (m : PMode)
    (hc : endsCommitted h = true)
    (hno : noReannounceFrom {} (h ++ evOps seg ++ [.discard] ++ evOps seg ++ [.persist m]) = true) :
    let withDiscard := h ++ evOps seg ++ [.discard] ++ evOps seg ++ [.persist m]
    let without := h ++ evOps seg ++ [.persist m]
    -- same acceptance results for the (re)tried segment
    (results (Sys.init w₀) withDiscard).drop ((results (Sys.init w₀) (h ++ evOps seg)).length)
      = (results (Sys.init w₀) without).drop ((results (Sys.init w₀) h).length) ∧
    -- same final persisted state
    lookupEq (runHistory (Sys.init w₀) withDiscard).lastPs (runHistory (Sys.init w₀) without).lastPs ∧
    lookupEq (runHistory (Sys.init w₀) withDiscard).lastPm (runHistory (Sys.init w₀) without).lastPm := by
  intro withDiscard without
  have hwd : withDiscard = (h ++ evOps seg ++ [.discard]) ++ (evOps seg ++ [.persist m]) := by
    simp [withDiscard, List.append_assoc]
  have hwo : without = h ++ (evOps seg ++ [.persist m]) := by
    simp [without, List.append_assoc]
  have hss := rr_retry_spec h seg hc
  -- split the proviso
  have hno' : noReannounceFrom {} withDiscard = true := hno
  rw [hwd, rr_noReannounce_append, Bool.and_eq_true, hss] at hno'
  obtain ⟨hnoA, hnoB⟩ := hno'
  have hnoA' := hnoA
  rw [rr_noReannounce_append, Bool.and_eq_true] at hnoA'
  have hnoAB := hnoA'.1
  rw [rr_noReannounce_append, Bool.and_eq_true] at hnoAB
  have hnoH : noReannounceFrom {} h = true := hnoAB.1
  have hnoWo : noReannounceFrom {} without = true := by
    rw [hwo, rr_noReannounce_append, Bool.and_eq_true]
    exact ⟨hnoH, hnoB⟩
  -- the bookkeeping of both runs coincides
  have hspec : runSpec {} withDiscard = runSpec {} without := by
    rw [hwd, hwo, rr_runSpec_append, hss, ← rr_runSpec_append]
  -- invariants
  have invA : Inv (runHistory (Sys.init w₀) (h ++ evOps seg ++ [.discard])) (runSpec {} h) := by
    have := (Inv.init w₀).run _ hnoA
    rwa [hss] at this
  have invH : Inv (runHistory (Sys.init w₀) h) (runSpec {} h) := (Inv.init w₀).run _ hnoH
  refine ⟨?_, ?_, ?_⟩
  · have e1 : results (Sys.init w₀) withDiscard
        = results (Sys.init w₀) (h ++ evOps seg)
          ++ results (runHistory (Sys.init w₀) (h ++ evOps seg ++ [.discard])) (evOps seg ++ [.persist m]) := by
      rw [hwd, rr_results_append, rr_results_append (Sys.init w₀) (h ++ evOps seg) [.discard]]
      simp [results]
    have e2 : results (Sys.init w₀) without
        = results (Sys.init w₀) h
          ++ results (runHistory (Sys.init w₀) h) (evOps seg ++ [.persist m]) := by
      rw [hwo, rr_results_append]
    rw [e1, e2, List.drop_left, List.drop_left, rr_results_spec invA _ hnoB,
      rr_results_spec invH _ hnoB]
  · have a := (recv_state_is_spec w₀ withDiscard hno).2.2.2.2.1
    have b := (recv_state_is_spec w₀ without hnoWo).2.2.2.2.1
    intro k
    rw [a k, b k, hspec]
  · have a := (recv_state_is_spec w₀ withDiscard hno).2.2.2.2.2
    have b := (recv_state_is_spec w₀ without hnoWo).2.2.2.2.2
    intro k
    rw [a k, b k, hspec]

/-- Non-vacuity (with a rejected event inside the retried segment). -/
example :
    let d : CallSite := ⟨.span, [110], [97], .info, none, none, none, []⟩
    let h : List HOp := [.ev (.newCallSite 7 d), .ev (.newSpan 1 none 7 []), .persist .keep]
    let seg : List Event := [.newSpan 2 (some 1) 7 [], .entered 2, .entered 9, .dropped 1]
    endsCommitted h = true ∧
    noReannounceFrom {} (h ++ evOps seg ++ [.discard] ++ evOps seg ++ [.persist .keep]) = true ∧
    (results (Sys.init {}) (h ++ evOps seg ++ [.discard] ++ evOps seg ++ [.persist .keep])).drop 6
      = [none, none, some (.unknownSpan 9), none] := by
  decide

end TT
