/-
  C18 — Predicates mean what they say and explain themselves consistently.

  `Pred.eval` / `Pred.hasCase` mirror `Predicate::eval` / `Predicate::find_case(..).is_some()` of
  capture/src/predicates/* arm by arm; the theorems give the reference meaning of each factory and
  the consistency between evaluation and case lookup for every predicate built from the factories
  and `&` / `|` (any depth). Leaf predicates of the `predicates` crate are assumed to satisfy
  their contract (see TT/Model/Pred.lean).
-/
import TT.Model.Pred
import TT.Lemmas.Pred

namespace TT

/-- A supporting case for an expected outcome exists exactly when evaluation yields it. -/
theorem C18_value_case_iff (p : ValP) (e : Bool) (v : TVal) : p.hasCase e v = (p.eval v == e) := by
  cases p <;> try rfl
  all_goals
    simp only [ValP.hasCase, ValP.eval]
    split <;> cases e <;> rfl

theorem C18_case_iff (c : PCtx) (p : Pred) (e : Bool) (x : Item) : p.hasCase c e x = (p.eval c x == e) := by
  induction p generalizing e x with
  | level p => rfl
  | target p => rfl
  | name p => rfl
  | field n v =>
    simp only [Pred.hasCase, Pred.eval]
    split
    · exact C18_value_case_iff ..
    · cases e <;> rfl
  | message p =>
    simp only [Pred.hasCase, Pred.eval]
    split <;> cases e <;> rfl
  | parent p ih =>
    simp only [Pred.hasCase, Pred.eval]
    split
    · exact ih ..
    · cases e <;> rfl
  | ancestor p ih =>
    simp only [Pred.hasCase, Pred.eval, ih, beq_true', beq_false']
    cases e
    · simp [any_hasCase_dual]
    · simp
  | and a b iha ihb =>
    simp only [Pred.hasCase, Pred.eval, iha, ihb, beq_true', beq_false']
    cases e <;> cases a.eval c x <;> cases b.eval c x <;> rfl
  | or a b iha ihb =>
    simp only [Pred.hasCase, Pred.eval, iha, ihb, beq_true', beq_false']
    cases e <;> cases a.eval c x <;> cases b.eval c x <;> rfl

/-- Target: equal to the given path or below it at a `::` boundary. -/
theorem C18_target_meaning (pfx t : Str) :
    targetMatches pfx t = true ↔ (t = pfx ∨ ∃ r, t = pfx ++ K.colons ++ r) := by
  unfold targetMatches
  cases h : stripPrefix pfx t with
  | none =>
    simp only [Bool.false_eq_true, false_iff]
    rintro (h1 | ⟨r, h1⟩)
    · have := (stripPrefix_eq_some pfx t []).2 (by simp [h1])
      rw [h] at this; cases this
    · have := (stripPrefix_eq_some pfx t (K.colons ++ r)).2 (by simp [h1])
      rw [h] at this; cases this
  | some rest =>
    have ht := (stripPrefix_eq_some _ _ _).1 h
    subst ht
    simp [List.isEmpty_iff, isPrefix_iff]

/-- Level: exact match, or threshold (`LevelFilter`: at most as verbose as the maximum; `OFF`
    matches nothing). -/
theorem C18_level_meaning (l : Level) :
    (∀ x, (LevelP.exact x).eval l = true ↔ l = x) ∧
    (∀ m, (LevelP.atMost (some m)).eval l = true ↔ l.toNat ≤ m.toNat) ∧
    (LevelP.atMost none).eval l = false := by
  refine ⟨fun x => ?_, fun m => ?_, rfl⟩
  · simp [LevelP.eval]
  · simp [LevelP.eval]

/-- Field: present and matching, with strict value kinds. -/
theorem C18_field_meaning (c : PCtx) (n : Str) (v : ValP) (x : Item) :
    (Pred.field n v).eval c x = true ↔ ∃ val, (c.valuesOf x).get n = some val ∧ v.eval val = true := by
  simp only [Pred.eval]
  cases (c.valuesOf x).get n <;> simp

theorem C18_strict_kinds (v : TVal) :
    (∀ x, (ValP.i64 x).eval v = true ↔ v = .int x) ∧ (∀ x, (ValP.i128 x).eval v = true ↔ v = .int x) ∧
    (∀ x, (ValP.u64 x).eval v = true ↔ v = .uint x) ∧ (∀ x, (ValP.u128 x).eval v = true ↔ v = .uint x) ∧
    (∀ b, (ValP.bool b).eval v = true ↔ v = .bool b) ∧ (∀ s, (ValP.str s).eval v = true ↔ v = .str s) ∧
    (∀ x, (ValP.f64 x).eval v = true ↔ ∃ b, v = .float b ∧ f64Eq b x = true) := by
  cases v <;>
    simp [ValP.eval, TVal.eqBool, TVal.eqI64, TVal.eqI128, TVal.eqU64, TVal.eqU128, TVal.eqStr,
      TVal.eqF64]

/-- Message, direct parent, any ancestor, boolean and/or. -/
theorem C18_message_meaning (c : PCtx) (p : StrP) (x : Item) :
    (Pred.message p).eval c x = true ↔ ∃ m, c.messageOf x = some m ∧ p.eval m = true := by
  simp only [Pred.eval]
  cases c.messageOf x <;> simp

theorem C18_parent_meaning (c : PCtx) (p : Pred) (x : Item) :
    (Pred.parent p).eval c x = true ↔ ∃ par, c.parentOfItem x = some par ∧ p.eval c (.span par) = true := by
  simp only [Pred.eval]
  cases c.parentOfItem x <;> simp

theorem C18_ancestor_meaning (c : PCtx) (p : Pred) (x : Item) :
    (Pred.ancestor p).eval c x = true ↔ ∃ a ∈ c.ancestorsOfItem x, p.eval c (.span a) = true := by
  simp [Pred.eval, List.any_eq_true]

theorem C18_and_or_meaning (c : PCtx) (a b : Pred) (x : Item) :
    ((Pred.and a b).eval c x = true ↔ (a.eval c x = true ∧ b.eval c x = true)) ∧
    ((Pred.or a b).eval c x = true ↔ (a.eval c x = true ∨ b.eval c x = true)) := by
  simp [Pred.eval]

/-! ### Scanner helpers: determined by the list of matching items -/

theorem C18_scan_single (items : List Item) (m : Item → Bool) (x : Item) :
    (scanSingle items m = some x ↔ items.filter m = [x]) ∧
    (scanSingle items m = none ↔ (items.filter m).length ≠ 1) := by
  rw [scanSingle_eq]
  constructor
  · split
    · rename_i h; simp [h]
    · rename_i h
      constructor
      · intro h1; cases h1
      · intro h1; exact absurd h1 (h _)
  · split
    · rename_i h; simp [h]
    · rename_i h
      simp only [true_iff]
      intro hl
      match hf : List.filter m items, hl with
      | [y], _ => exact h y hf

theorem C18_scan_first_last (items : List Item) (m : Item → Bool) :
    scanFirst items m = (items.filter m).head? ∧ scanLast items m = (items.filter m).getLast? := by
  constructor
  · simp [scanFirst, List.head?_filter]
  · unfold scanLast
    rw [← List.head?_filter, List.filter_reverse, List.head?_reverse]

theorem C18_scan_all_none (items : List Item) (m : Item → Bool) :
    ((scanAll items m).isSome ↔ ∀ x ∈ items, m x = true) ∧
    ((scanNone items m).isSome ↔ items.filter m = []) := by
  constructor
  · unfold scanAll
    split
    · rename_i h
      simp only [Option.isSome_none, Bool.false_eq_true, false_iff]
      obtain ⟨y, hy, hm⟩ := List.find?_isSome.1 h
      intro hall
      simp [hall y hy] at hm
    · rename_i h
      simp only [Option.isSome_some, true_iff]
      intro y hy
      cases hm : m y with
      | true => rfl
      | false => exact absurd (List.find?_isSome.2 ⟨y, hy, by simp [hm]⟩) h
  · unfold scanNone
    split
    · rename_i h
      simp only [Option.isSome_none, Bool.false_eq_true, false_iff]
      obtain ⟨y, hy, hm⟩ := List.find?_isSome.1 h
      intro hnil
      exact (List.filter_eq_nil_iff.1 hnil) y hy hm
    · rename_i h
      simp only [Option.isSome_some, true_iff]
      refine List.filter_eq_nil_iff.2 fun y hy hm => h (List.find?_isSome.2 ⟨y, hy, hm⟩)

/-- Non-vacuity: `app::db` is below `app` but `apple` is not; an ancestor predicate with a case. -/
example : targetMatches [97, 112, 112] [97, 112, 112, 58, 58, 100, 98] = true ∧
    targetMatches [97, 112, 112] [97, 112, 112, 108, 101] = false ∧
    targetMatches [97, 112, 112] [97, 112, 112] = true := by decide

end TT
