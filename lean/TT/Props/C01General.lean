/-
  C01 (supplement) — the exact relation between the native and the tunnelled trace for *every*
  well-formed program, including the programs that `C01_log_simulation` excludes: value sets that
  name a field more than once and call sites that declare a field name twice (known finding K5).

  The sender captures values into the insertion-ordered map `TracedValues` (first position, last
  value: C14/C15) and the wire format carries that map; so the tunnelled host sees the native value
  list *collapsed* by name. On value lists with distinct names collapsing is the identity, which
  gives `C01_log_simulation` back.
-/
import TT.Props.C01
import TT.Lemmas.TunnelGeneral

namespace TT

/-- First position, last value, by field name. -/
def collapseVals (vs : RawVals) : RawVals :=
  vs.foldl (fun acc kv =>
    if acc.any (·.1 == kv.1) then acc.map (fun e => if e.1 == kv.1 then (e.1, kv.2) else e)
    else acc ++ [kv]) []

def HostCall.collapse : HostCall → HostCall
  | .newSpan h m p v => .newSpan h m p (collapseVals v)
  | .record h v => .record h (collapseVals v)
  | .event m p v => .event m p (collapseVals v)
  | c => c

/-- `wfStep` without the requirement that an operation names each field at most once. -/
def wfStepLoose (sites : List CallSite) (st : WfSt) : POp → Option WfSt
  | .reg _ => some st
  | .new k p vals =>
    if st.parentOK p && decide (vals.length ≤ 32) && decide (k < sites.length) then
      some { st with spanOf := st.spanOf ++ [st.nSpans], live := st.live ++ [true], nSpans := st.nSpans + 1 }
    else none
  | .evt k p vals =>
    if st.parentOK p && decide (vals.length ≤ 32) && decide (k < sites.length) then some st else none
  | .record s vals => if st.liveH s && decide (vals.length ≤ 32) then some st else none
  | op => wfStep sites st op

def wfFromLoose (sites : List CallSite) (st : WfSt) : List POp → Bool
  | [] => true
  | op :: ops => match wfStepLoose sites st op with
    | some st' => wfFromLoose sites st' ops
    | none => false

def wfProgLoose (sites : List CallSite) (ops : List POp) : Bool := wfFromLoose sites {} ops

/-! ### Bridges to the `tg_` copies of these definitions in `TT/Lemmas/TunnelGeneral.lean` -/

theorem tg_collapseVals_eq (vs : RawVals) : collapseVals vs = tg_collapseVals vs := rfl

theorem tg_collapse_eq (c : HostCall) : c.collapse = tg_collapseCall c := by
  cases c <;> rfl

theorem tg_wfStepLoose_eq (sites : List CallSite) (st : WfSt) (op : POp) :
    wfStepLoose sites st op = tg_wfStepLoose sites st op := by
  cases op <;> rfl

theorem tg_wfFromLoose_eq (sites : List CallSite) (ops : List POp) :
    ∀ st, wfFromLoose sites st ops = tg_wfFromLoose sites st ops := by
  induction ops with
  | nil => intro _; rfl
  | cons op ops ih =>
    intro st
    simp only [wfFromLoose, tg_wfFromLoose, tg_wfStepLoose_eq]
    cases tg_wfStepLoose sites st op with
    | none => rfl
    | some st' => exact ih st'

theorem wfProg_imp_loose (sites : List CallSite) (ops : List POp) (h : wfProg sites ops = true) :
    wfProgLoose sites ops = true := by
  unfold wfProgLoose
  rw [tg_wfFromLoose_eq]
  exact tg_wfFrom_imp_loose sites ops {} h

theorem collapseVals_of_nodup (vs : RawVals) (h : (vs.map (·.1)).Nodup) : collapseVals vs = vs := by
  rw [tg_collapseVals_eq]
  exact tg_collapseVals_of_nodup vs h

/-- The tunnelled host log is the native one with values widened and collapsed by name — for
    every well-formed program and every pool of call sites (no distinctness assumptions). -/
theorem C01_log_simulation_general (arena sites : List CallSite) (ops : List POp)
    (hwf : wfProgLoose sites ops = true) (hb : spansCreated ops < 2^32 - 1) :
    tunnelLog arena sites ops
      = rcNormalizeFrom [] ((nativeLog sites ops).map fun c => c.widen.collapse.rootAsCtx) := by
  have hwf' : tg_wfFromLoose sites {} ops = true := by
    rw [← tg_wfFromLoose_eq]; exact hwf
  rw [tg_log_simulation arena sites ops hwf' hb]
  simp only [tg_collapse_eq]

/-- Every event of the sender's own stream is accepted, also for these programs. -/
theorem C01_accepts_general (arena sites : List CallSite) (ops : List POp)
    (hwf : wfProgLoose sites ops = true) (hb : spansCreated ops < 2^32 - 1) :
    ∀ r ∈ tunnelResults arena sites ops, r = none := by
  have hwf' : tg_wfFromLoose sites {} ops = true := by
    rw [← tg_wfFromLoose_eq]; exact hwf
  exact tg_accepts arena sites ops hwf' hb

/-- Instances (kernel-checked): a call site declaring `f` twice and value sets naming a field
    twice / out of declaration order. -/
example :
    let s : CallSite := ⟨.span, [115], [97], .info, none, none, none, [[102], [103], [102]]⟩
    let e : CallSite := ⟨.event, [101], [97], .info, none, none, none, [[109], [110]]⟩
    let ops : List POp := [.new 0 .ctx [(0, some (.i64 1)), (1, some (.str [120])), (2, some (.i64 5))], .ent 0,
      .evt 1 .ctx [(1, some (.u8 7)), (0, some (.u8 8)), (1, some (.u8 9))],
      .record 0 [(2, some (.i64 3)), (0, none), (0, some (.i64 4))], .ext 0, .drp 0]
    wfProgLoose [s, e] ops = true ∧ wfProg [s, e] ops = false ∧
    tunnelLog [] [s, e] ops = rcNormalizeFrom [] ((nativeLog [s, e] ops).map fun c => c.widen.collapse.rootAsCtx) ∧
    tunnelLog [] [s, e] ops ≠ rcNormalizeFrom [] ((nativeLog [s, e] ops).map fun c => c.widen.rootAsCtx) := by
  decide

end TT
