/-
  C17 — The storage query API is a consistent view of one forest.

  `Storage.WF` holds for the empty storage and is preserved by every operation the capture layer
  performs on a storage, hence for every storage any program can produce. On well-formed
  storages the query functions of TT/Model/Forest.lean (models of lib.rs / iter.rs) satisfy the
  laws of the property. Items are arena indices, so "equal only to themselves, ordered by
  capture order" is equality and order of indices within a storage; across storages the Rust
  `PartialEq`/`PartialOrd` impls compare the storage pointer first (checked by the harness).
-/
import TT.Model.Forest
import TT.Lemmas.Forest

namespace TT

open Storage

theorem C17_wf_empty : Storage.WF {} := by
  exact wf_empty

/-- Preservation by the storage operations of layer.rs. -/
theorem C17_wf_pushSpan (st st' : Storage) (mt : Nat) (vs : TVals) (p : Option Nat) (id : Nat)
    (h : st.WF) (hp : st.pushSpan mt vs p = some (st', id)) : st'.WF ∧ id = st.spans.length := by
  obtain ⟨hid, v⟩ := pushSpan_view hp
  exact ⟨wf_pushSpan h v, hid⟩

theorem C17_wf_pushEvent (st st' : Storage) (mt : Nat) (vs : TVals) (p : Option Nat)
    (h : st.WF) (hp : st.pushEvent mt vs p = some st') : st'.WF := by
  exact wf_pushEvent h (pushEvent_view hp)

/-- Updates that keep a span's links (`on_span_enter`, `on_span_exit`, `on_span_closed`,
    `on_record`) preserve well-formedness; so does adding a follows-from edge to a valid id. -/
theorem C17_wf_update (st st' : Storage) (id : Nat) (f : CapSpan → CapSpan) (h : st.WF)
    (hf : ∀ s, (f s).parent = s.parent ∧ (f s).children = s.children ∧ (f s).events = s.events ∧ (f s).follows = s.follows)
    (hu : st.update id f = some st') : st'.WF := by
  exact wf_update h hf hu

theorem C17_wf_follows (st st' : Storage) (id fid : Nat) (h : st.WF) (hfid : fid < st.spans.length)
    (hu : st.update id (fun s => { s with follows := s.follows ++ [fid] }) = some st') : st'.WF := by
  exact wf_follows h hfid hu

/-- Every storage produced by any program under any stack of capture layers is well-formed. -/
theorem C17_wf_reachable (filters : List LFilter) (global : Option Nat) (sites : List CallSite) (ops : List POp) :
    ∀ st ∈ (captureRun filters global sites ops).storages, st.WF := by
  exact wf_reachable filters global sites ops

/-! ### Laws on well-formed storages -/

/-- Parent and children are inverse relations. -/
theorem C17_parent_children_inverse (st : Storage) (h : st.WF) (p c : Nat) :
    c ∈ st.childrenOf p ↔ (c < st.spans.length ∧ st.parentOf c = some p) := h.child_iff p c

/-- Roots are exactly the spans and events without a captured parent, in capture order. -/
theorem C17_roots (st : Storage) (h : st.WF) :
    (∀ i, i ∈ st.rootSpans ↔ (i < st.spans.length ∧ st.parentOf i = none)) ∧
    (∀ j, j ∈ st.rootEvents ↔ (j < st.events.length ∧ st.eventParent j = none)) ∧
    st.rootSpans.Pairwise (· < ·) ∧ st.rootEvents.Pairwise (· < ·) := by
  exact roots_laws st h

/-- The ancestor chain is the parent chain: it is not cut short by the fuel of the model
    (nor, in the code, by anything but a span without parent). -/
theorem C17_ancestors_unfold (st : Storage) (h : st.WF) (i : Nat) :
    st.ancestors i = match st.parentOf i with
      | none => []
      | some p => p :: st.ancestors p := by
  exact ancestors_unfold st h i

/-- Every ancestor chain is finite — strictly decreasing indices below the span — and ends at a
    root. -/
theorem C17_ancestors_finite (st : Storage) (h : st.WF) (i : Nat) :
    (i :: st.ancestors i).Pairwise (· > ·) ∧
    st.parentOf ((i :: st.ancestors i).getLast (by simp)) = none := by
  refine ⟨?_, ancestors_last st h i _⟩
  exact List.Pairwise.cons (fun x hx => ancestors_lt st h i x hx) (ancestors_pairwise st h i)

/-- The iterator of iter.rs yields exactly the pre-order traversal. -/
theorem C17_descendants_preorder (st : Storage) (h : st.WF) (i : Nat) :
    st.descendants i = st.preorder i := by
  exact descendants_eq_pre st h i

/-- Descendants of a span are exactly the spans having it among their ancestors, each once,
    parents before children. -/
theorem C17_descendants_iff_ancestor (st : Storage) (h : st.WF) (s t : Nat) :
    (t ∈ st.descendants s ↔ (t < st.spans.length ∧ s ∈ st.ancestors t)) := by
  rw [descendants_eq_pre st h s]
  exact mem_pre_children st h s t

theorem C17_descendants_nodup (st : Storage) (h : st.WF) (s : Nat) : (st.descendants s).Nodup := by
  rw [descendants_eq_pre st h s]
  exact pre_nodup st h _ (sib_children st h s)

theorem C17_descendants_parents_first (st : Storage) (h : st.WF) (s p c : Nat)
    (hc : c ∈ st.descendants s) (hp : st.parentOf c = some p) (hps : p ≠ s) :
    ∃ l₁ l₂ l₃, st.descendants s = l₁ ++ p :: l₂ ++ c :: l₃ := by
  rw [descendants_eq_pre st h s] at hc ⊢
  obtain ⟨hcn, hsc⟩ := (mem_pre_children st h s c).1 hc
  rw [ancestors_of_some st h hp] at hsc
  have hpc := h.parent_lt c p hp
  have hsp : s ∈ st.ancestors p := by
    rcases List.mem_cons.1 hsc with e | e
    · exact absurd e.symm hps
    · exact e
  have hpm : p ∈ pre st (st.childrenOf s) := (mem_pre_children st h s p).2 ⟨by omega, hsp⟩
  exact pre_parents_first st h _ (sib_children st h s) p c hpm hp hcn

/-- Descendant events are exactly the events of the descendants, in traversal order. -/
theorem C17_descendant_events (st : Storage) (i : Nat) :
    st.descendantEvents i = (st.descendants i).flatMap st.eventsOf := rfl

theorem C17_descendant_events_iff (st : Storage) (h : st.WF) (s j : Nat) :
    j ∈ st.descendantEvents s ↔ (j < st.events.length ∧ ∃ p, st.eventParent j = some p ∧ p ∈ st.descendants s) := by
  unfold Storage.descendantEvents
  rw [List.mem_flatMap]
  constructor
  · rintro ⟨p, hp, hj⟩
    obtain ⟨h1, h2⟩ := (h.event_iff p j).1 hj
    exact ⟨h1, p, h2, hp⟩
  · rintro ⟨h1, p, h2, hp⟩
    exact ⟨p, hp, (h.event_iff p j).2 ⟨h1, h2⟩⟩

/-- Items are ordered by capture order, parents before children. -/
theorem C17_parent_before_child (st : Storage) (h : st.WF) (i p : Nat) (hp : st.parentOf i = some p) : p < i :=
  h.parent_lt i p hp

/-- Iterators report exact lengths and yield the same items backwards as forwards (the id-list
    iterators are slices; `all_*` are arena ranges). -/
theorem C17_iterators (st : Storage) :
    st.allSpans.length = st.spans.length ∧ st.allEvents.length = st.events.length ∧
    st.allSpans.reverse.reverse = st.allSpans ∧ st.allSpans = List.range st.spans.length := by
  simp [Storage.allSpans, Storage.allEvents]

/-- Non-vacuity: a concrete captured forest (filtered interior span skipped). -/
example :
    let s : CallSite := ⟨.span, [115], [97], .info, none, none, none, []⟩
    let d : CallSite := ⟨.span, [100], [97], .debug, none, none, none, []⟩
    let e : CallSite := ⟨.event, [101], [97], .info, none, none, none, []⟩
    let ops : List POp := [.new 0 .ctx [], .ent 0, .new 1 .ctx [], .ent 1, .new 0 .ctx [], .ent 2, .evt 2 .ctx [],
      .new 0 (.handle 0) [], .ext 2, .ext 1, .ext 0]
    let st := (captureRun [.level 2] none [s, d, e] ops).storages.getD 0 {}
    st.spans.length = 3 ∧ st.descendants 0 = [1, 2] ∧ st.ancestors 1 = [0] ∧ st.descendantEvents 0 = [0] ∧
    st.rootSpans = [0] := by
  decide

/-! ### Identity and order of handles (last sentence of C17) -/

/-- Items compare equal only to themselves. -/
theorem C17_items_equal_iff_same (a b : ItemRef) : a.beq b = true ↔ a = b := by
  cases a; cases b; simp [ItemRef.beq]

/-- Within a storage, items are ordered by capture order (the arena id). -/
theorem C17_items_ordered_within_storage (s i j : Nat) :
    (ItemRef.mk s i).partialCmp ⟨s, j⟩ = some (compare i j) := by
  simp [ItemRef.partialCmp]

/-- Across storages, items are unequal and unordered — at every pair of positions. -/
theorem C17_items_unordered_across_storages (a b : ItemRef) (h : a.storage ≠ b.storage) :
    a.beq b = false ∧ a.partialCmp b = none ∧ b.partialCmp a = none := by
  have h' : b.storage ≠ a.storage := fun e => h e.symm
  simp [ItemRef.beq, ItemRef.partialCmp, h, h']

/-- `==` agrees with `partial_cmp` (what `PartialOrd` requires). -/
theorem C17_items_eq_consistent_with_cmp (a b : ItemRef) :
    a.beq b = true ↔ a.partialCmp b = some .eq := by
  cases a with | mk s i => cases b with | mk t j =>
  simp only [ItemRef.beq, ItemRef.partialCmp]
  by_cases hs : s = t
  · subst hs
    simp
  · simp [hs]

/-- Parents come before their children in that order (with `C17_parent_before_child`). -/
example : (ItemRef.mk 0 2).partialCmp ⟨1, 5⟩ = none ∧ (ItemRef.mk 0 2).partialCmp ⟨0, 5⟩ = some .lt ∧
    (ItemRef.mk 0 2).beq ⟨1, 2⟩ = false := by decide

end TT
