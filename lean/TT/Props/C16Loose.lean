/-
  C16 for the raw subscriber API — the two clauses of C16 for programs that go beyond what the
  `tracing` handles and guards can produce, but that `Dispatch` permits and that a receiver relays
  for an ill-behaved guest:

  * `Dispatch::exit` on a span that is not entered (an exit without a matching enter);
  * an event whose explicit parent is the id of a handle that was already dropped (the span may be
    closed by then).

  (Follows-from towards a dropped handle is already part of `wfProgS`.) The correspondence check
  generates both since round 10 of the seeded changes (a change that made `on_exit` assume a matching
  enter, and one that treated an unresolvable explicit parent as "no explicit parent", were the
  reason); model and code agree on them. The lemmas of `CapRegC` / `CapRegE` need neither that an
  exited span is entered nor that an event's parent is live, so the theorems extend as they are.
-/
import TT.Props.C16

namespace TT

/-- The explicit parent refers to a handle the program once had (dropped or not). -/
def WfSt.parentKnown (st : WfSt) : PParent → Bool
  | .handle s => decide (s < st.live.length)
  | _ => true

/-- As `wfStepS`, but an exit only needs a live handle (entered or not), and an event's explicit
    parent only needs to be a handle that existed. -/
def wfStepL (sites : List CallSite) (st : WfSt) : POp → Option WfSt
  | .ext s =>
    if st.liveH s then some { st with entered := st.entered.erase (st.spanOf.getD s 0) } else none
  | .evt k p vals =>
    if st.parentKnown p && distinctIdx vals && decide (vals.length ≤ 32) && decide (k < sites.length) then some st else none
  | op => wfStepS sites st op

def wfFromL (sites : List CallSite) (st : WfSt) : List POp → Bool
  | [] => true
  | op :: ops => match wfStepL sites st op with
    | some st' => wfFromL sites st' ops
    | none => false

def wfProgL (sites : List CallSite) (ops : List POp) : Bool := wfFromL sites {} ops

/-- Every step allowed by `wfStepS` is allowed by `wfStepL` (the looser class contains the old one). -/
theorem wfStepL_of_wfStepS (sites : List CallSite) (st st' : WfSt) (op : POp)
    (h : wfStepS sites st op = some st') : wfStepL sites st op = some st' := by
  cases op with
  | ext s =>
    simp only [wfStepS, wfStep] at h
    split at h
    · rename_i hc
      simp only [Bool.and_eq_true] at hc
      simp only [wfStepL, hc.1, if_true]
      exact h
    · simp at h
  | evt k p vals =>
    simp only [wfStepS, wfStep] at h
    split at h
    · rename_i hc
      simp only [Bool.and_eq_true, decide_eq_true_eq] at hc
      obtain ⟨⟨⟨hp, hd⟩, hl⟩, hk⟩ := hc
      have hpk : st.parentKnown p = true := by
        cases p with
        | handle s =>
          simp only [WfSt.parentOK, WfSt.liveH] at hp
          simp only [WfSt.parentKnown, decide_eq_true_eq]
          rcases Nat.lt_or_ge s st.live.length with hlt | hge
          · exact hlt
          · have hf : st.live.getD s false = false := by
              simp [List.getD_eq_getElem?_getD, List.getElem?_eq_none hge]
            rw [hf] at hp
            cases hp
        | ctx => rfl
        | root => rfl
      simp only [wfStepL, hpk, hd, Bool.and_self, decide_eq_true hl, decide_eq_true hk, if_true]
      exact h
    · simp at h
  | reg k => exact h
  | new k p vals => exact h
  | record s vals => exact h
  | fol a b => exact h
  | ent s => exact h
  | cln s => exact h
  | drp s => exact h

theorem cl_wf_step (sites : List CallSite) (st st' : WfSt) (fe : FE CapWorld) (op : POp)
    (h : CrFInv st.live fe) (hw : wfStepL sites st op = some st') :
    CrFInv st'.live (feStep (capSub 0) sites fe op) := by
  cases op with
  | ext s =>
    simp only [wfStepL] at hw
    split at hw
    · rename_i hl
      simp only [Option.some.injEq] at hw
      subst hw
      exact cr_fe_ext sites s h hl
    · simp at hw
  | evt k p vals =>
    simp only [wfStepL] at hw
    split at hw
    · simp only [Option.some.injEq] at hw
      subst hw
      exact cr_fe_evt sites k p vals h
    · simp at hw
  | reg k => exact cr_wf_step sites st st' fe _ h hw
  | new k p vals => exact cr_wf_step sites st st' fe _ h hw
  | record s vals => exact cr_wf_step sites st st' fe _ h hw
  | fol a b => exact cr_wf_step sites st st' fe _ h hw
  | ent s => exact cr_wf_step sites st st' fe _ h hw
  | cln s => exact cr_wf_step sites st st' fe _ h hw
  | drp s => exact cr_wf_step sites st st' fe _ h hw

theorem cl_wf_sim_step (sites : List CallSite) (st st' : WfSt) (fe fe₁ : FE CapWorld) (op : POp)
    (i : Nat) (hi : CrFInv st.live fe) (hi₁ : CrFInv st.live fe₁) (h : CrFSim i fe fe₁)
    (hw : wfStepL sites st op = some st') :
    CrFSim i (feStep (capSub 0) sites fe op) (feStep (capSub 0) sites fe₁ op) := by
  cases op with
  | ext s =>
    simp only [wfStepL] at hw
    split at hw
    · rename_i hl
      exact cr_fs_ext sites s hi hi₁ hl h
    · simp at hw
  | evt k p vals => exact cr_fs_evt sites k p vals hi hi₁ h
  | reg k => exact cr_wf_sim_step sites st st' fe fe₁ _ i hi hi₁ h hw
  | new k p vals => exact cr_wf_sim_step sites st st' fe fe₁ _ i hi hi₁ h hw
  | record s vals => exact cr_wf_sim_step sites st st' fe fe₁ _ i hi hi₁ h hw
  | fol a b => exact cr_wf_sim_step sites st st' fe fe₁ _ i hi hi₁ h hw
  | ent s => exact cr_wf_sim_step sites st st' fe fe₁ _ i hi hi₁ h hw
  | cln s => exact cr_wf_sim_step sites st st' fe fe₁ _ i hi hi₁ h hw
  | drp s => exact cr_wf_sim_step sites st st' fe fe₁ _ i hi hi₁ h hw

theorem cl_wf_run (sites : List CallSite) (ops : List POp) :
    ∀ (st : WfSt) (fe : FE CapWorld), CrFInv st.live fe → wfFromL sites st ops = true →
      ∃ st' : WfSt, CrFInv st'.live (runProg (capSub 0) sites fe ops) := by
  induction ops with
  | nil => intro st fe h _; exact ⟨st, h⟩
  | cons op ops ih =>
    intro st fe h hwf
    simp only [wfFromL] at hwf
    cases hw : wfStepL sites st op with
    | none => simp [hw] at hwf
    | some st' =>
      simp only [hw] at hwf
      simp only [runProg, List.foldl_cons]
      exact ih st' _ (cl_wf_step sites st st' fe op h hw) hwf

theorem cl_wf_sim_run (sites : List CallSite) (i : Nat) (ops : List POp) :
    ∀ (st : WfSt) (fe fe₁ : FE CapWorld), CrFInv st.live fe → CrFInv st.live fe₁ →
      CrFSim i fe fe₁ → wfFromL sites st ops = true →
      CrFSim i (runProg (capSub 0) sites fe ops) (runProg (capSub 0) sites fe₁ ops) := by
  induction ops with
  | nil => intro st fe fe₁ _ _ h _; exact h
  | cons op ops ih =>
    intro st fe fe₁ hi hi₁ h hwf
    simp only [wfFromL] at hwf
    cases hw : wfStepL sites st op with
    | none => simp [hw] at hwf
    | some st' =>
      simp only [hw] at hwf
      simp only [runProg, List.foldl_cons]
      exact ih st' _ _ (cl_wf_step sites st st' fe op hi hw) (cl_wf_step sites st st' fe₁ op hi₁ hw)
        (cl_wf_sim_step sites st st' fe fe₁ op i hi hi₁ h hw) hwf

/-- No callback of any capture layer panics, also for exits without a matching enter and for events
    whose explicit parent was dropped (and possibly closed) before. -/
theorem C16_no_panic_raw_api (filters : List LFilter) (global : Option Nat) (sites : List CallSite) (ops : List POp)
    (hwf : wfProgL sites ops = true) :
    (captureRun filters global sites ops).panicked = false := by
  obtain ⟨st', h⟩ := cl_wf_run sites ops {} _ (cr_finv_init filters global) hwf
  exact h.inv.np

/-- ... and what a layer captures still depends only on the trace and its own filter. -/
theorem C16_independent_raw_api (filters : List LFilter) (global : Option Nat) (sites : List CallSite) (ops : List POp)
    (hwf : wfProgL sites ops = true) (i : Nat) (hi : i < filters.length) :
    (captureRun filters global sites ops).storages.getD i {}
      = (captureRun [filters.getD i .all] global sites ops).storages.getD 0 {} := by
  exact (cl_wf_sim_run sites i ops {} _ _ (cr_finv_init filters global)
    (cr_finv_init [filters.getD i .all] global) (cr_fsim_init filters global i hi) hwf).sim.stor

/-- The looser class really is larger: an exit without an enter, and an event under a dropped
    (and closed) span's id, are in it and not in `wfProgS`. -/
example :
    let s : CallSite := ⟨.span, [115], [97], .info, none, none, none, []⟩
    let e : CallSite := ⟨.event, [101], [97], .info, none, none, none, []⟩
    let sites := [s, e]
    let ops : List POp := [.new 0 .ctx [], .ext 0, .new 0 .ctx [], .drp 1, .ent 0, .evt 1 (.handle 1) [], .ext 0]
    wfProgL sites ops = true ∧ wfProgS sites ops = false ∧
      (captureRun [.all] none sites ops).panicked = false := by
  decide

end TT
