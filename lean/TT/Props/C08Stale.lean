/-
  C08, stale restores — the id discipline and the no-leak invariant also hold when a receiver is
  built from span state that does not belong to the local span map it is given.

  A *stale restore* is what happens when a host persists a receiver, loses what it wrote, and
  brings up the next receiver from some earlier persisted state (or any other `pm`, `ps`) together
  with the local span map of the receiver it just persisted: the map then refers to host spans of
  guest spans that the restored state does not list, and lists none for spans it does. The code
  path that copes with it is the `contains_key` branch of the `NewSpan` arm (the guest span is
  re-announced, its host span is reused).  The correspondence check drives the real receiver and
  this model through such histories (`h persist stale`); the theorems below are the claims C08
  makes for every history, extended to them.
-/
import TT.Props.C08

namespace TT

/-- A history step, or a stale restore from arbitrary metadata and span state. -/
inductive XOp where
  | op (o : HOp)
  | stale (pm : PersistedMeta) (ps : PersistedSpans)

def Sys.stepX (s : Sys) : XOp → Sys
  | .op o => s.step o
  | .stale pm ps => { s with σ := restore pm ps s.σ.r.loc (persist s.σ).2.2 }

def runX (s : Sys) (ops : List XOp) : Sys := ops.foldl Sys.stepX s

/-- Histories in which the local span map is never thrown away: events, persists that keep the map,
    stale restores. -/
def keepsMap : List XOp → Bool
  | [] => true
  | .op (.ev _) :: ops => keepsMap ops
  | .op (.persist .keep) :: ops => keepsMap ops
  | .stale _ _ :: ops => keepsMap ops
  | _ => false

/-! ### Helper lemmas -/

section StaleHelpers

theorem cs_step_stale (s : Sys) (pm : PersistedMeta) (ps : PersistedSpans) :
    (s.stepX (.stale pm ps)).σ = restore pm ps s.σ.r.loc
      { s.σ.w with host := finalize s.σ.r.entered [] s.σ.r.loc s.σ.w.host } := rfl

theorem cs_stepX_inv (s : Sys) (x : XOp) (hi : IdInv s.σ) : IdInv (s.stepX x).σ := by
  cases x with
  | op o => exact step_inv s o hi
  | stale pm ps =>
    rw [cs_step_stale]
    obtain ⟨hb, hs⟩ := finalize_exits s.σ.r.loc s.σ.r.entered s.σ.w.host hi.host hi.loc
    obtain ⟨h1, _, h3, h4, h5⟩ := restore_spec pm ps s.σ.r.loc
      { s.σ.w with host := finalize s.σ.r.entered [] s.σ.r.loc s.σ.w.host } hb
    exact ⟨h4, by rw [h1]; exact (hs.trans h5).locInv hi.loc, by rw [h3]; exact List.nodup_nil⟩

theorem cs_runX_inv : ∀ (ops : List XOp) (s : Sys), IdInv s.σ → IdInv (runX s ops).σ
  | [], _, hi => hi
  | x :: ops, s, hi => cs_runX_inv ops (s.stepX x) (cs_stepX_inv s x hi)

/-- The accounting half of `CInv`, which survives stale restores: every issued host span is closed
    or referred to by the local map. -/
structure cs_AccInv (σ : Sigma) : Prop where
  acc : ∀ h ∈ issuedIn σ.w.host.log, h ∈ closedIn σ.w.host.log ∨ ∃ g, σ.r.loc.get g = some h

theorem cs_quiet {σ σ' : Sigma} (hs : Same σ.w.host σ'.w.host) (hl : σ'.r.loc = σ.r.loc)
    (hc : cs_AccInv σ) : cs_AccInv σ' := by
  constructor
  rw [hs.iss, hs.cls, hl]
  exact hc.acc

theorem cs_emit {σ σ' : Sigma} (hi : IdInv σ) (c : HostCall) (h1 : c.issues = [])
    (h2 : c.closes = []) (hu : ∀ h ∈ c.uses, ∃ g, σ.r.loc.get g = some h)
    (hh : σ'.w.host = σ.w.host.emit c) (hl : σ'.r.loc = σ.r.loc)
    (hc : cs_AccInv σ) : cs_AccInv σ' := by
  obtain ⟨_, hs⟩ := emit_quiet hi.host c h1 h2
    (fun h hh => by obtain ⟨g, hg⟩ := hu h hh; exact hi.loc.live g h hg)
  rw [← hh] at hs
  exact cs_quiet hs hl hc

theorem cs_fresh {σ σ' : Sigma} {b : Host} {g h : Nat}
    (hf : Fresh σ.w.host b h) (hs : Same b σ'.w.host)
    (hl : σ'.r.loc = σ.r.loc.insert g h) (hn : σ.r.loc.get g = none)
    (hc : cs_AccInv σ) : cs_AccInv σ' := by
  have hf' := hf.same hs
  constructor
  rw [hf'.iss, hf'.cls, hl]
  intro x hx
  rcases List.mem_append.1 hx with hx | hx
  · rcases hc.acc x hx with h1 | ⟨g', hg'⟩
    · exact Or.inl h1
    · refine Or.inr ⟨g', ?_⟩
      rw [AMap.get_insert]
      split
      · subst_vars; rw [hn] at hg'; cases hg'
      · exact hg'
  · simp at hx
    subst hx
    exact Or.inr ⟨g, by rw [AMap.get_insert]; simp⟩

theorem cs_close {σ σ' : Sigma} {g h : Nat} (hi : IdInv σ)
    (hg : σ.r.loc.get g = some h)
    (hh : σ'.w.host = σ.w.host.emit (.tryClose h)) (hl : σ'.r.loc = σ.r.loc.erase g)
    (hc : cs_AccInv σ) : cs_AccInv σ' := by
  obtain ⟨_, hcl⟩ := close_spec hi.host (hi.loc.live g h hg)
  constructor
  rw [hh, hcl.iss, hcl.cls, hl]
  intro x hx
  rcases hc.acc x hx with h1 | ⟨g', hg'⟩
  · exact Or.inl (List.mem_append_left _ h1)
  · by_cases e : g = g'
    · subst e
      rw [hg] at hg'
      cases hg'
      exact Or.inl (by simp)
    · exact Or.inr ⟨g', by rw [AMap.get_erase]; simp [e, hg']⟩

theorem cs_newCallSite (σ : Sigma) (hi : IdInv σ) (id : Nat) (d : CallSite) :
    cs_AccInv σ → cs_AccInv (tryReceive σ (.newCallSite id d)).state := by
  obtain ⟨h1, _, _, _⟩ := onNewCallSite_r σ id d
  obtain ⟨_, hs⟩ := onNewCallSite_host σ id d hi.host
  exact cs_quiet hs h1

theorem cs_followsFrom (σ : Sigma) (hi : IdInv σ) (id f : Nat) :
    cs_AccInv σ → cs_AccInv (tryReceive σ (.followsFrom id f)).state := by
  simp only [tryReceive]
  split
  · exact fun h => h
  · split
    · exact fun h => h
    · split
      · rename_i a b h1 h2 _ _
        refine cs_emit hi (.follows h1 h2) rfl rfl ?_ rfl rfl
        intro x hx
        simp [HostCall.uses] at hx
        rcases hx with rfl | rfl
        · exact ⟨_, mapSpanId_some (by assumption)⟩
        · exact ⟨_, mapSpanId_some (by assumption)⟩
      · exact fun h => h

theorem cs_exited (σ : Sigma) (hi : IdInv σ) (id : Nat) :
    cs_AccInv σ → cs_AccInv (tryReceive σ (.exited id)).state := by
  simp only [tryReceive]
  split
  · exact fun h => h
  · rename_i l hm
    cases l with
    | none => exact cs_quiet (Same.refl _) rfl
    | some h =>
      refine cs_emit hi (.exit h) rfl rfl ?_ rfl rfl
      intro x hx
      simp [HostCall.uses] at hx
      subst hx
      exact ⟨_, mapSpanId_some hm⟩

theorem cs_cloned (σ : Sigma) (id : Nat) :
    cs_AccInv σ → cs_AccInv (tryReceive σ (.cloned id)).state := by
  simp only [tryReceive]
  split
  · exact fun h => h
  · exact cs_quiet (Same.refl _) rfl

theorem cs_newEvent (σ : Sigma) (hi : IdInv σ) (mt : Nat) (parent : Option Nat) (values : TVals) :
    cs_AccInv σ → cs_AccInv (tryReceive σ (.newEvent mt parent values)).state := by
  simp only [tryReceive]
  split
  · exact fun h => h
  · split
    · exact fun h => h
    · split
      · exact fun h => h
      · split
        · exact fun h => h
        · rename_i ph hm
          refine cs_emit hi _ rfl rfl ?_ rfl rfl
          intro x hx
          cases ph with
          | none => simp [HostCall.uses, HParent.uses] at hx
          | some h =>
            simp [HostCall.uses, HParent.uses] at hx
            subst hx
            cases parent with
            | none => simp at hm
            | some p => exact ⟨p, mapSpanId_some hm⟩

theorem cs_valuesRecorded (σ : Sigma) (hi : IdInv σ) (id : Nat) (values : TVals) :
    cs_AccInv σ → cs_AccInv (tryReceive σ (.valuesRecorded id values)).state := by
  simp only [tryReceive]
  split
  · exact fun h => h
  · split
    · exact fun h => h
    · rename_i l hm
      cases l with
      | none =>
        simp only
        split
        · exact fun h => h
        · exact cs_quiet (Same.refl _) rfl
      | some h =>
        simp only
        cases hs : σ.r.spans.get id with
        | none => exact fun h => h
        | some d =>
          simp only
          cases hmt : σ.r.mt.get d.mt with
          | none => exact fun h => h
          | some idx =>
            simp only
            cases hcv : createValues (generateFields (siteOf σ.w idx) values) with
            | none => exact fun h => h
            | some v =>
              simp only [hs]
              refine cs_emit hi (.record h v) rfl rfl ?_ rfl rfl
              intro x hx
              simp [HostCall.uses] at hx
              subst hx
              exact ⟨_, mapSpanId_some hm⟩

theorem cs_dropped (σ : Sigma) (hi : IdInv σ) (id : Nat) :
    cs_AccInv σ → cs_AccInv (tryReceive σ (.dropped id)).state := by
  simp only [tryReceive]
  split
  · exact fun h => h
  · rename_i d hs
    split
    · exact fun h => h
    · split
      · exact cs_quiet (Same.refl _) rfl
      · split
        · exact cs_quiet (Same.refl _) rfl
        · rename_i h hg
          exact cs_close hi hg rfl rfl

theorem cs_newSpan (σ : Sigma) (hi : IdInv σ) (id : Nat) (parent : Option Nat) (mt : Nat)
    (values : TVals) :
    cs_AccInv σ → cs_AccInv (tryReceive σ (.newSpan id parent mt values)).state := by
  simp only [tryReceive]
  split
  · exact fun h => h
  · split
    · exact cs_quiet (Same.refl _) rfl
    · rename_i hnc
      have hn : σ.r.loc.get id = none := by
        cases hg : σ.r.loc.get id with
        | none => rfl
        | some h => simp [AMap.contains, hg] at hnc
      split
      · exact fun h => h
      · split
        · exact fun h => h
        · exact fun h => h
        · rename_i w h hc
          obtain ⟨_, hf⟩ := create_spec hi.host hi.loc hc
          exact cs_fresh hf (Same.refl _) rfl hn

theorem cs_entered (σ : Sigma) (hi : IdInv σ) (id : Nat) :
    cs_AccInv σ → cs_AccInv (tryReceive σ (.entered id)).state := by
  simp only [tryReceive]
  split
  · exact fun h => h
  · rename_i h hm
    refine cs_emit hi (.enter h) rfl rfl ?_ rfl rfl
    intro x hx
    simp [HostCall.uses] at hx
    subst hx
    exact ⟨_, mapSpanId_some hm⟩
  · rename_i hm
    obtain ⟨hn, _⟩ := mapSpanId_none hm
    split
    · exact fun h => h
    · split
      · exact fun h => h
      · exact fun h => h
      · rename_i w h hc
        obtain ⟨hb, hf⟩ := create_spec hi.host hi.loc hc
        obtain ⟨_, hs⟩ := emit_quiet hb (.enter h) rfl rfl
          (by intro x hx; simp [HostCall.uses] at hx; subst hx; exact hf.live_new hi.host)
        exact cs_fresh hf hs rfl hn

theorem cs_tryReceive_acc (σ : Sigma) (e : Event) (hi : IdInv σ) :
    cs_AccInv σ → cs_AccInv (tryReceive σ e).state := by
  cases e with
  | newCallSite id d => exact cs_newCallSite σ hi id d
  | newSpan id parent mt values => exact cs_newSpan σ hi id parent mt values
  | followsFrom id f => exact cs_followsFrom σ hi id f
  | entered id => exact cs_entered σ hi id
  | exited id => exact cs_exited σ hi id
  | cloned id => exact cs_cloned σ id
  | dropped id => exact cs_dropped σ hi id
  | valuesRecorded id values => exact cs_valuesRecorded σ hi id values
  | newEvent mt parent values => exact cs_newEvent σ hi mt parent values

theorem cs_step_ev (s : Sys) (e : Event) : (s.step (.ev e)).σ = (tryReceive s.σ e).state := rfl

/-- A restore with the same local map after a finalize that only exits keeps the accounting. -/
theorem cs_restore_acc (s : Sys) (pm : PersistedMeta) (ps : PersistedSpans) (hi : IdInv s.σ)
    (hc : cs_AccInv s.σ) :
    cs_AccInv (restore pm ps s.σ.r.loc
      { s.σ.w with host := finalize s.σ.r.entered [] s.σ.r.loc s.σ.w.host }) := by
  obtain ⟨hb, hs⟩ := finalize_exits s.σ.r.loc s.σ.r.entered s.σ.w.host hi.host hi.loc
  obtain ⟨h1, _, _, _, h5⟩ := restore_spec pm ps s.σ.r.loc
    { s.σ.w with host := finalize s.σ.r.entered [] s.σ.r.loc s.σ.w.host } hb
  exact cs_quiet (hs.trans h5) h1 hc

theorem cs_runX_acc : ∀ (ops : List XOp) (s : Sys), keepsMap ops = true → IdInv s.σ →
    cs_AccInv s.σ → IdInv (runX s ops).σ ∧ cs_AccInv (runX s ops).σ
  | [], _, _, hi, hc => ⟨hi, hc⟩
  | .op (.ev e) :: ops, s, hk, hi, hc =>
    cs_runX_acc ops (s.stepX (.op (.ev e))) (by simpa [keepsMap] using hk)
      (cs_stepX_inv s _ hi) (by
        show cs_AccInv (s.step (.ev e)).σ
        rw [cs_step_ev]
        exact cs_tryReceive_acc s.σ e hi hc)
  | .op (.persist .keep) :: ops, s, hk, hi, hc =>
    cs_runX_acc ops (s.stepX (.op (.persist .keep))) (by simpa [keepsMap] using hk)
      (cs_stepX_inv s _ hi) (by
        show cs_AccInv (s.step (.persist .keep)).σ
        rw [step_persist_keep]
        exact cs_restore_acc s _ _ hi hc)
  | .stale pm ps :: ops, s, hk, hi, hc =>
    cs_runX_acc ops (s.stepX (.stale pm ps)) (by simpa [keepsMap] using hk)
      (cs_stepX_inv s _ hi) (by
        rw [cs_step_stale]
        exact cs_restore_acc s _ _ hi hc)
  | .op (.persist .lose) :: _, _, hk, _, _ => by simp [keepsMap] at hk
  | .op (.persist .loseNew) :: _, _, hk, _, _ => by simp [keepsMap] at hk
  | .op .discard :: _, _, hk, _, _ => by simp [keepsMap] at hk

end StaleHelpers

/-- Every id the receiver chain passes to the host was issued by that host and is not yet closed,
    for every history, stale restores included. -/
theorem C08_id_discipline_stale (w₀ : World) (hw : HostOK w₀.host) (ops : List XOp) :
    WellUsed (runX (Sys.init w₀) ops).σ.w.host.log :=
  (cs_runX_inv ops (Sys.init w₀) (init_inv w₀ hw)).host.wu

theorem C08_never_closes_twice_stale (w₀ : World) (hw : HostOK w₀.host) (ops : List XOp) :
    (closedIn (runX (Sys.init w₀) ops).σ.w.host.log).Nodup :=
  closed_nodup _ (C08_id_discipline_stale w₀ hw ops)

/-- Nothing leaks, at every state, as long as the map is never thrown away — even when the span
    state it is combined with is stale: every host span issued to the chain is closed or still
    referred to by the map; what the map refers to is live; no two guest spans share a host span. -/
theorem C08_no_leak_stale (arena : List CallSite) (ops : List XOp) (hk : keepsMap ops = true) :
    let s := runX (Sys.init { arena, host := {} }) ops
    (∀ h ∈ issuedIn s.σ.w.host.log, h ∈ closedIn s.σ.w.host.log ∨ ∃ g, s.σ.r.loc.get g = some h) ∧
    (∀ g h, s.σ.r.loc.get g = some h → Live s.σ.w.host h) ∧
    (∀ g₁ g₂ h, s.σ.r.loc.get g₁ = some h → s.σ.r.loc.get g₂ = some h → g₁ = g₂) := by
  intro s
  have hi0 : IdInv (Sys.init { arena, host := {} }).σ :=
    init_inv _ ⟨HostInv.empty.wu, HostInv.empty.lt⟩
  have hc0 : cs_AccInv (Sys.init { arena, host := {} }).σ :=
    ⟨fun h hh => by simp [Sys.init, issuedIn] at hh⟩
  obtain ⟨hi, hc⟩ := cs_runX_acc ops _ hk hi0 hc0
  exact ⟨hc.acc, hi.loc.live, hi.loc.inj⟩

/-- Non-vacuity: after a stale restore from empty span state, the kept local map still has an entry
    for guest span 1 (host span 1, issued and open) although the span state lists no span; the
    history keeps the map. -/
example :
    let d : CallSite := ⟨.span, [110], [97], .info, none, none, none, []⟩
    let ops : List XOp := [.op (.ev (.newCallSite 7 d)), .op (.ev (.newSpan 1 none 7 [])), .stale [] []]
    let s := runX (Sys.init {}) ops
    keepsMap ops = true ∧ s.σ.r.loc.get 1 = some 1 ∧ s.σ.r.spans = [] ∧
      s.σ.r.spans.contains 1 = false ∧ issuedIn s.σ.w.host.log = [1] ∧ closedIn s.σ.w.host.log = [] := by
  decide

/-- … and the stale span is then re-announced and used: the host span is reused, not re-created. -/
example :
    let d : CallSite := ⟨.span, [110], [97], .info, none, none, none, []⟩
    let ops : List XOp := [.op (.ev (.newCallSite 7 d)), .op (.ev (.newSpan 1 none 7 [])), .stale [] [],
      .op (.ev (.newCallSite 7 d)), .op (.ev (.newSpan 1 none 7 [])), .op (.ev (.entered 1)),
      .op (.ev (.exited 1)), .op (.ev (.dropped 1))]
    let s := runX (Sys.init {}) ops
    keepsMap ops = true ∧ s.σ.r.loc = [] ∧ issuedIn s.σ.w.host.log = [1] ∧
      closedIn s.σ.w.host.log = [1] := by
  decide

end TT
