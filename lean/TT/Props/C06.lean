/-
  C06 — The receiver is total and rejects exactly the invalid events.

  `Spec` (TT/Model/History.lean) tracks known call sites and alive spans from the event history
  alone. For every system state reachable by any history (events well-formed or not, persist with
  kept / lost map / new host, discard) under the proviso that a span id is not re-announced while
  alive, `tryReceive` never panics, is rejected exactly when `Spec.invalid` is non-empty, and
  reports the first applicable reason in the code's check order.
-/
import TT.Lemmas.RecvSim

namespace TT

/-- Total and exact: no panic; the result is `ok` when no reason applies, and otherwise the error
    naming the first applicable reason. -/
theorem C06_total_exact (w₀ : World) (ops : List HOp) (e : Event)
    (hno : noReannounceFrom {} (ops ++ [.ev e]) = true) :
    (tryReceive (runHistory (Sys.init w₀) ops).σ e).verdict
      = some ((runSpec {} ops).cur.verdict e) := recv_verdict w₀ ops e hno

/-- Corollaries in the wording of the property. -/
theorem C06_never_panics (w₀ : World) (ops : List HOp) (e : Event)
    (hno : noReannounceFrom {} (ops ++ [.ev e]) = true) :
    ∀ site σ', tryReceive (runHistory (Sys.init w₀) ops).σ e ≠ .panic site σ' := by
  intro site σ' h
  have := C06_total_exact w₀ ops e hno
  rw [h] at this
  simp [Res.verdict] at this

theorem C06_rejects_iff_invalid (w₀ : World) (ops : List HOp) (e : Event)
    (hno : noReannounceFrom {} (ops ++ [.ev e]) = true) :
    (∃ r σ', tryReceive (runHistory (Sys.init w₀) ops).σ e = .err r σ') ↔
      (runSpec {} ops).cur.invalid e ≠ [] := by
  have hv := recv_verdict w₀ ops e hno
  constructor
  · rintro ⟨r, σ', h⟩ hnil
    rw [h] at hv
    simp [Res.verdict, Spec.verdict, hnil] at hv
  · intro hne
    cases hi : (runSpec {} ops).cur.invalid e with
    | nil => exact absurd hi hne
    | cons r rest =>
      cases ht : tryReceive (runHistory (Sys.init w₀) ops).σ e with
      | ok σ' => rw [ht] at hv; simp [Res.verdict, Spec.verdict, hi] at hv
      | err r' σ' => exact ⟨r', σ', rfl⟩
      | panic s σ' => rw [ht] at hv; simp [Res.verdict] at hv

theorem C06_reported_reason_applies (w₀ : World) (ops : List HOp) (e : Event)
    (hno : noReannounceFrom {} (ops ++ [.ev e]) = true) (r : RErr) (σ' : Sigma)
    (h : tryReceive (runHistory (Sys.init w₀) ops).σ e = .err r σ') :
    r ∈ (runSpec {} ops).cur.invalid e := by
  have hv := recv_verdict w₀ ops e hno
  rw [h] at hv
  cases hi : (runSpec {} ops).cur.invalid e with
  | nil => simp [Res.verdict, Spec.verdict, hi] at hv
  | cons r' rest =>
    simp only [Res.verdict, Spec.verdict, hi, List.head?_cons, Option.some.injEq] at hv
    rw [hv]
    exact List.mem_cons_self ..

/-- Non-vacuity: a reachable state after a restart in which one event is invalid for two reasons
    and the first one in check order is reported. -/
example :
    let d : CallSite := ⟨.span, [110], [97], .info, none, none, none, [[102]]⟩
    let ops : List HOp := [.ev (.newCallSite 7 d), .ev (.newSpan 1 none 7 []), .persist .loseNew, .ev (.entered 1)]
    noReannounceFrom {} (ops ++ [.ev (.newSpan 2 (some 9) 8 [])]) = true ∧
    (runSpec {} ops).cur.invalid (.newSpan 2 (some 9) 8 []) = [.unknownMeta 8, .unknownSpan 9] ∧
    (tryReceive (runHistory (Sys.init {}) ops).σ (.newSpan 2 (some 9) 8 [])).verdict = some (some (.unknownMeta 8)) := by
  decide

end TT
