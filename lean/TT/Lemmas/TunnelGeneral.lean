/-
  TT.Lemmas.TunnelGeneral — helper lemmas for the supplement to C01 (`TT/Props/C01General.lean`):
  the chain `TunnelLog → TunnelRecv → TunnelInv → tn_main` and the stream validity of C12, without
  the assumptions that an operation names each field index at most once (`distinctIdx`) and that
  the field names of a call site are distinct (`sitesDistinct`).

  All names are prefixed `tg_`.
-/
import TT.Props.C01

namespace TT

/-! ### Collapsing a value list by name -/

/-- One step of `collapseVals` (first position, last value). -/
def tg_cstepR (acc : RawVals) (kv : Str × Raw) : RawVals :=
  if acc.any (·.1 == kv.1) then acc.map (fun e => if e.1 == kv.1 then (e.1, kv.2) else e)
  else acc ++ [kv]

/-- Same definition as `collapseVals` of `TT/Props/C01General.lean`. -/
def tg_collapseVals (vs : RawVals) : RawVals := vs.foldl tg_cstepR []

theorem tg_cstepR_fresh (acc : RawVals) (kv : Str × Raw) (h : kv.1 ∉ acc.map (·.1)) :
    tg_cstepR acc kv = acc ++ [kv] := by
  unfold tg_cstepR
  rw [if_neg]
  intro hany
  rw [List.any_eq_true] at hany
  obtain ⟨e, he, hek⟩ := hany
  exact h (List.mem_map.2 ⟨e, he, by simpa using hek⟩)

theorem tg_foldl_cstepR_nodup (vs acc : RawVals) (h : ((acc ++ vs).map (·.1)).Nodup) :
    vs.foldl tg_cstepR acc = acc ++ vs := by
  induction vs generalizing acc with
  | nil => simp
  | cons kv vs ih =>
    have hk : kv.1 ∉ acc.map (·.1) := by
      simp only [List.map_append, List.map_cons] at h
      rw [List.nodup_append] at h
      intro hmem
      exact h.2.2 kv.1 hmem kv.1 (by simp) rfl
    rw [List.foldl_cons, tg_cstepR_fresh acc kv hk, ih]
    · simp
    · simpa using h

theorem tg_collapseVals_of_nodup (vs : RawVals) (h : (vs.map (·.1)).Nodup) :
    tg_collapseVals vs = vs := by
  have := tg_foldl_cstepR_nodup vs [] (by simpa using h)
  simpa [tg_collapseVals] using this

/-- A stored value as the host visitor is shown it. -/
def tg_toRawPair (kv : Str × TVal) : Str × Raw := (kv.1, kv.2.toRaw)

theorem tg_map_id_of_not_mem (rest : RawVals) (k : Str) (r : Raw) (h : k ∉ rest.map (·.1)) :
    rest.map (fun e => if e.1 == k then (e.1, r) else e) = rest := by
  induction rest with
  | nil => rfl
  | cons e rest ih =>
    simp only [List.map_cons, List.mem_cons, not_or] at h
    have hne : (e.1 == k) = false := by simpa using fun h' => h.1 h'.symm
    simp only [List.map_cons, hne, ih h.2, Bool.false_eq_true, if_false]

theorem tg_cstepR_cons_ne (e : Str × Raw) (A : RawVals) (kv : Str × Raw) (hne : ¬ e.1 = kv.1) :
    tg_cstepR (e :: A) kv = e :: tg_cstepR A kv := by
  have hb : (e.1 == kv.1) = false := by simpa using hne
  unfold tg_cstepR
  simp only [List.any_cons, hb, Bool.false_or, List.map_cons, Bool.false_eq_true, if_false]
  split
  · rfl
  · rfl

theorem tg_insert_map (acc : TVals) (k : Str) (v : TVal) (h : (TVals.names acc).Nodup) :
    ((acc.insert k v).1).map tg_toRawPair = tg_cstepR (acc.map tg_toRawPair) (k, v.toRaw) := by
  induction acc with
  | nil => rfl
  | cons e rest ih =>
    obtain ⟨k', v'⟩ := e
    simp only [TVals.names, List.map_cons, List.nodup_cons] at h
    rw [TVals.insert_cons]
    by_cases hk : k' = k
    · subst hk
      have hnm : k' ∉ (rest.map tg_toRawPair).map (·.1) := by
        simpa [tg_toRawPair, Function.comp_def] using h.1
      simp only [if_true, List.map_cons, tg_cstepR, List.any_cons, tg_toRawPair, beq_self_eq_true,
        Bool.true_or]
      congr 1
      exact (tg_map_id_of_not_mem _ _ _ hnm).symm
    · have ih' := ih (by simpa [TVals.names] using h.2)
      simp only [hk, if_false, List.map_cons, ih']
      exact (tg_cstepR_cons_ne _ _ _ hk).symm

theorem tg_extend_map (vs acc : TVals) (h : (TVals.names acc).Nodup) :
    (TVals.extend acc vs).map tg_toRawPair
      = (vs.map tg_toRawPair).foldl tg_cstepR (acc.map tg_toRawPair) := by
  induction vs generalizing acc with
  | nil => rfl
  | cons kv vs ih =>
    rw [TVals.extend_cons, ih _ (TVals.nodup_insert acc kv.1 kv.2 h), tg_insert_map acc _ _ h]
    rfl

/-- Values as a host visitor is shown them through the tunnel (no distinctness assumed). -/
def tg_tvals (f : Fields) : RawVals := (capture f).map tg_toRawPair

theorem tg_tvals_eq (f : Fields) : tg_tvals f = tg_collapseVals (widenVals (presentRaw f)) := by
  unfold tg_tvals tg_collapseVals
  rw [C14_capture_is_inserts, TVals.ofList, tg_extend_map _ [] (by simp [TVals.names]),
    tn_presentVals_eq, ← tn_tvals, tvals, List.map_map]
  rfl

/-! ### Field names of a call (membership only) -/

def tg_GoodF (site : CallSite) (fields : Fields) : Prop := ∀ f ∈ fields, f.1 ∈ site.fields

theorem tg_fieldsOf_good (site : CallSite) (vals : PVals) : tg_GoodF site (fieldsOf site vals) := by
  intro f hf
  unfold fieldsOf at hf
  rw [List.mem_filterMap] at hf
  obtain ⟨⟨i, p⟩, _, hip⟩ := hf
  simp only at hip
  cases hfi : site.fields[i]? with
  | none => simp [hfi] at hip
  | some name =>
    simp only [hfi, Option.map_some, Option.some.injEq] at hip
    subst hip
    exact List.mem_of_getElem? hfi

theorem tg_names_insert_sub (acc : TVals) (k : Str) (v : TVal) (x : Str)
    (hx : x ∈ TVals.names (acc.insert k v).1) : x ∈ TVals.names acc ∨ x = k := by
  rw [TVals.names_insert] at hx
  split at hx
  · exact Or.inl hx
  · simpa using hx

theorem tg_names_extend_sub (vs acc : TVals) (x : Str)
    (hx : x ∈ TVals.names (TVals.extend acc vs)) : x ∈ TVals.names acc ∨ x ∈ vs.map (·.1) := by
  induction vs generalizing acc with
  | nil => exact Or.inl hx
  | cons kv vs ih =>
    rw [TVals.extend_cons] at hx
    rcases ih _ hx with h | h
    · rcases tg_names_insert_sub _ _ _ _ h with h | h
      · exact Or.inl h
      · exact Or.inr (by simp [h])
    · exact Or.inr (by simp [h])

theorem tg_capture_names (site : CallSite) (f : Fields) (hg : tg_GoodF site f) :
    ∀ kv ∈ capture f, kv.1 ∈ site.fields := by
  intro kv hkv
  have hx : kv.1 ∈ TVals.names (capture f) := List.mem_map.2 ⟨kv, hkv, rfl⟩
  rw [C14_capture_is_inserts, TVals.ofList] at hx
  rcases tg_names_extend_sub _ _ _ hx with h | h
  · simp [TVals.names] at h
  · rw [presentVals_names] at h
    have := (tn_presentNames_sublist f).subset h
    obtain ⟨e, he, hek⟩ := List.mem_map.1 this
    rw [← hek]
    exact hg e he

theorem tg_generateFields_capture (site : CallSite) (f : Fields) (hg : tg_GoodF site f) :
    generateFields site (capture f) = tg_tvals f := by
  unfold generateFields tg_tvals
  have hall : (capture f).filter (fun kv => site.fields.contains kv.1) = capture f := by
    rw [List.filter_eq_self]
    intro kv hkv
    simpa using tg_capture_names site f hg kv hkv
  rw [hall]
  rfl

/-! ### Loose well-formedness (same definitions as in `TT/Props/C01General.lean`) -/

def tg_wfStepLoose (sites : List CallSite) (st : WfSt) : POp → Option WfSt
  | .reg _ => some st
  | .new k p vals =>
    if st.parentOK p && decide (vals.length ≤ 32) && decide (k < sites.length) then
      some { st with spanOf := st.spanOf ++ [st.nSpans], live := st.live ++ [true], nSpans := st.nSpans + 1 }
    else none
  | .evt k p vals =>
    if st.parentOK p && decide (vals.length ≤ 32) && decide (k < sites.length) then some st else none
  | .record s vals => if st.liveH s && decide (vals.length ≤ 32) then some st else none
  | op => wfStep sites st op

def tg_wfFromLoose (sites : List CallSite) (st : WfSt) : List POp → Bool
  | [] => true
  | op :: ops => match tg_wfStepLoose sites st op with
    | some st' => tg_wfFromLoose sites st' ops
    | none => false

theorem tg_wfStep_imp_loose (sites : List CallSite) (st st' : WfSt) (op : POp)
    (h : wfStep sites st op = some st') : tg_wfStepLoose sites st op = some st' := by
  cases op with
  | new k p vals =>
    simp only [wfStep] at h
    split at h
    · rename_i hc
      simp only [Bool.and_eq_true, decide_eq_true_eq] at hc
      simp only [tg_wfStepLoose, hc.1.1.1, hc.1.2, hc.2, decide_true, Bool.and_self, if_true]
      exact h
    · cases h
  | evt k p vals =>
    simp only [wfStep] at h
    split at h
    · rename_i hc
      simp only [Bool.and_eq_true, decide_eq_true_eq] at hc
      simp only [tg_wfStepLoose, hc.1.1.1, hc.1.2, hc.2, decide_true, Bool.and_self, if_true]
      exact h
    · cases h
  | record s vals =>
    simp only [wfStep] at h
    split at h
    · rename_i hc
      simp only [Bool.and_eq_true, decide_eq_true_eq] at hc
      simp only [tg_wfStepLoose, hc.1.1, hc.2, decide_true, Bool.and_self, if_true]
      exact h
    · cases h
  | reg k => exact h
  | fol a b => exact h
  | ent s => exact h
  | ext s => exact h
  | cln s => exact h
  | drp s => exact h

theorem tg_wfFrom_imp_loose (sites : List CallSite) (ops : List POp) :
    ∀ st, wfFrom sites st ops = true → tg_wfFromLoose sites st ops = true := by
  induction ops with
  | nil => intro _ _; rfl
  | cons op ops ih =>
    intro st h
    simp only [wfFrom] at h
    cases hw : wfStep sites st op with
    | none => simp [hw] at h
    | some st' =>
      simp only [hw] at h
      simp only [tg_wfFromLoose, tg_wfStep_imp_loose sites st st' op hw]
      exact ih st' h

/-! ### Shape of the call log -/

def tg_gok (sites : List CallSite) (g : GSt) : SubCall → Prop
  | .register k site => site = sites.getD k default
  | .newSpan id k _ f => id = g.n ∧ k < sites.length ∧ tg_GoodF (sites.getD k default) f
  | .record id f => ∃ k, g.ss.get id = some k ∧ tg_GoodF (sites.getD k default) f
  | .event k _ f => k < sites.length ∧ tg_GoodF (sites.getD k default) f
  | _ => True

def tg_goodCalls (sites : List CallSite) (g : GSt) : List SubCall → Prop
  | [] => True
  | c :: cs => tg_gok sites g c ∧ tg_goodCalls sites (gstep g c) cs

theorem tg_goodCalls_append (sites : List CallSite) (g : GSt) (xs ys : List SubCall) :
    tg_goodCalls sites g (xs ++ ys)
      ↔ tg_goodCalls sites g xs ∧ tg_goodCalls sites (xs.foldl gstep g) ys := by
  induction xs generalizing g with
  | nil => simp [tg_goodCalls]
  | cons x xs ih => simp [tg_goodCalls, ih, and_assoc]

def tg_opGood (sites : List CallSite) : POp → Bool
  | .new k _ _ => decide (k < sites.length)
  | .evt k _ _ => decide (k < sites.length)
  | _ => true

theorem tg_wf_opGood (sites : List CallSite) (ops : List POp) :
    ∀ st, tg_wfFromLoose sites st ops = true → ∀ op ∈ ops, tg_opGood sites op = true := by
  induction ops with
  | nil => intro _ _ op hop; cases hop
  | cons o ops ih =>
    intro st hwf op hop
    simp only [tg_wfFromLoose] at hwf
    cases hw : tg_wfStepLoose sites st o with
    | none => simp [hw] at hwf
    | some st' =>
      simp only [hw] at hwf
      rw [List.mem_cons] at hop
      rcases hop with rfl | hop
      · cases op with
        | new k p vals =>
          simp only [tg_wfStepLoose] at hw
          split at hw
          · rename_i hc
            simp only [Bool.and_eq_true, decide_eq_true_eq] at hc
            simp [tg_opGood, hc.2]
          · cases hw
        | evt k p vals =>
          simp only [tg_wfStepLoose] at hw
          split at hw
          · rename_i hc
            simp only [Bool.and_eq_true, decide_eq_true_eq] at hc
            simp [tg_opGood, hc.2]
          · cases hw
        | _ => rfl
      · exact ih st' hwf op hop

/-! ### The invariant on the logging front end (copy of `TunnelLog` without distinctness) -/

theorem tg_linv_step (sites : List CallSite) (fe : FE LogState)
    (g : GSt) (op : POp) (h : LInv fe g) (hop : tg_opGood sites op = true) :
    ∃ cs, (feStep logSub sites fe op).sub.calls = cs.reverse ++ fe.sub.calls ∧
      tg_goodCalls sites g cs ∧ LInv (feStep logSub sites fe op) (cs.foldl gstep g) := by
  obtain ⟨⟨next, calls⟩, handles, registered⟩ := fe
  obtain ⟨ss, n⟩ := g
  obtain ⟨hn, hh⟩ := h
  simp only at hn
  subst hn
  simp only [FE.handleSite] at hh
  cases op with
  | reg k =>
    refine ⟨[.register k (sites.getD k default)], by simp [feStep, logSub], ⟨rfl, trivial⟩, ?_⟩
    exact ⟨rfl, hh⟩
  | new k p vals =>
    simp only [tg_opGood, decide_eq_true_eq] at hop
    have hgood := tg_fieldsOf_good (sites.getD k default) vals
    have hnew : ∀ (s id k' : Nat), ((handles ++ [some (next, k)])[s]?).join = some (id, k') →
        AMap.get (AMap.insert ss next k) id = some k' ∧ id < next + 1 := by
      intro s id k' hsk
      rcases tn_handle_append _ _ _ _ hsk with h1 | h1
      · obtain ⟨h2, h3⟩ := hh s id k' h1
        rw [AMap.get_insert, if_neg (by omega)]
        exact ⟨h2, by omega⟩
      · cases h1
        rw [AMap.get_insert, if_pos rfl]
        exact ⟨rfl, by omega⟩
    by_cases hk : k ∈ registered
    · refine ⟨[.newSpan next k (resolveParent (σ := LogState) ⟨⟨next, calls⟩, handles, registered⟩ p)
          (fieldsOf (sites.getD k default) vals)], ?_, ?_, ?_⟩
      · simp [feStep, ensureRegistered, hk, logSub, resolveParent, FE.handle, FE.handleSite]
      · exact ⟨⟨rfl, hop, hgood⟩, trivial⟩
      · refine ⟨by simp [feStep, ensureRegistered, hk, logSub, gstep], ?_⟩
        simpa [feStep, ensureRegistered, hk, logSub, gstep, FE.handleSite] using hnew
    · refine ⟨[.register k (sites.getD k default),
          .newSpan next k (resolveParent (σ := LogState) ⟨⟨next, calls⟩, handles, registered⟩ p)
          (fieldsOf (sites.getD k default) vals)], ?_, ?_, ?_⟩
      · simp [feStep, ensureRegistered, hk, logSub, resolveParent, FE.handle, FE.handleSite]
      · exact ⟨rfl, ⟨rfl, hop, hgood⟩, trivial⟩
      · refine ⟨by simp [feStep, ensureRegistered, hk, logSub, gstep], ?_⟩
        simpa [feStep, ensureRegistered, hk, logSub, gstep, FE.handleSite] using hnew
  | record s vals =>
    simp only [feStep, FE.handleSite]
    cases hsv : (handles[s]?).join with
    | none => exact ⟨[], rfl, trivial, rfl, hh⟩
    | some idk =>
      obtain ⟨id, k⟩ := idk
      refine ⟨[.record id (fieldsOf (sites.getD k default) vals)], rfl, ⟨?_, trivial⟩, rfl, hh⟩
      exact ⟨k, (hh s id k hsv).1, tg_fieldsOf_good _ vals⟩
  | fol s t =>
    simp only [feStep, FE.handle, FE.handleSite]
    cases hs : (handles[s]?).join <;> cases ht : (handles[t]?).join
    · exact ⟨[], rfl, trivial, rfl, hh⟩
    · exact ⟨[], rfl, trivial, rfl, hh⟩
    · exact ⟨[], rfl, trivial, rfl, hh⟩
    · exact ⟨[.follows _ _], rfl, ⟨trivial, trivial⟩, rfl, hh⟩
  | ent s =>
    simp only [feStep, FE.handle, FE.handleSite]
    cases hs : (handles[s]?).join
    · exact ⟨[], rfl, trivial, rfl, hh⟩
    · exact ⟨[.enter _], rfl, ⟨trivial, trivial⟩, rfl, hh⟩
  | ext s =>
    simp only [feStep, FE.handle, FE.handleSite]
    cases hs : (handles[s]?).join
    · exact ⟨[], rfl, trivial, rfl, hh⟩
    · exact ⟨[.exit _], rfl, ⟨trivial, trivial⟩, rfl, hh⟩
  | drp s =>
    simp only [feStep, FE.handle, FE.handleSite]
    cases hs : (handles[s]?).join
    · exact ⟨[], rfl, trivial, rfl, hh⟩
    · exact ⟨[.tryClose _], rfl, ⟨trivial, trivial⟩, rfl, hh⟩
  | cln s =>
    simp only [feStep, FE.handleSite]
    cases hsv : (handles[s]?).join with
    | none =>
      refine ⟨[], rfl, trivial, rfl, ?_⟩
      intro s' id k' hsk
      rcases tn_handle_append _ _ _ _ hsk with h1 | h1
      · exact hh s' id k' h1
      · cases h1
    | some idk =>
      obtain ⟨id, k⟩ := idk
      refine ⟨[.clone id], rfl, ⟨trivial, trivial⟩, rfl, ?_⟩
      intro s' id' k' hsk
      rcases tn_handle_append _ _ _ _ hsk with h1 | h1
      · exact hh s' id' k' h1
      · cases h1
        exact hh s id k hsv
  | evt k p vals =>
    simp only [tg_opGood, decide_eq_true_eq] at hop
    have hgood := tg_fieldsOf_good (sites.getD k default) vals
    by_cases hk : k ∈ registered
    · refine ⟨[.event k (resolveParent (σ := LogState) ⟨⟨next, calls⟩, handles, registered⟩ p)
          (fieldsOf (sites.getD k default) vals)], ?_, ?_, ?_⟩
      · simp [feStep, ensureRegistered, hk, logSub, resolveParent, FE.handle, FE.handleSite]
      · exact ⟨⟨hop, hgood⟩, trivial⟩
      · refine ⟨by simp [feStep, ensureRegistered, hk, logSub, gstep], ?_⟩
        simpa [feStep, ensureRegistered, hk, logSub, gstep, FE.handleSite] using hh
    · refine ⟨[.register k (sites.getD k default),
          .event k (resolveParent (σ := LogState) ⟨⟨next, calls⟩, handles, registered⟩ p)
          (fieldsOf (sites.getD k default) vals)], ?_, ?_, ?_⟩
      · simp [feStep, ensureRegistered, hk, logSub, resolveParent, FE.handle, FE.handleSite]
      · exact ⟨rfl, ⟨hop, hgood⟩, trivial⟩
      · refine ⟨by simp [feStep, ensureRegistered, hk, logSub, gstep], ?_⟩
        simpa [feStep, ensureRegistered, hk, logSub, gstep, FE.handleSite] using hh

theorem tg_linv_run (sites : List CallSite) (ops : List POp) :
    ∀ (fe : FE LogState) (g : GSt), LInv fe g → (∀ op ∈ ops, tg_opGood sites op = true) →
      ∃ cs, (runProg logSub sites fe ops).sub.calls = cs.reverse ++ fe.sub.calls ∧
        tg_goodCalls sites g cs := by
  induction ops with
  | nil => intro fe g _ _; exact ⟨[], rfl, trivial⟩
  | cons op ops ih =>
    intro fe g h hop
    obtain ⟨cs1, hc1, hg1, h1⟩ := tg_linv_step sites fe g op h (hop op (List.mem_cons_self ..))
    obtain ⟨cs2, hc2, hg2⟩ := ih _ _ h1 (fun o ho => hop o (List.mem_cons_of_mem _ ho))
    refine ⟨cs1 ++ cs2, ?_, (tg_goodCalls_append sites g cs1 cs2).2 ⟨hg1, hg2⟩⟩
    simp only [runProg, List.foldl_cons] at hc2 ⊢
    rw [hc2, hc1]
    simp

/-- The call log of a well-formed program is good. -/
theorem tg_callLog_good (sites : List CallSite) (ops : List POp)
    (hwf : tg_wfFromLoose sites {} ops = true) : tg_goodCalls sites {} (callLog sites ops) := by
  obtain ⟨cs, hc, hg⟩ := tg_linv_run sites ops { sub := ({} : LogState) } {}
    ⟨rfl, fun s id k h => by simp [FE.handleSite] at h⟩ (tg_wf_opGood sites ops {} hwf)
  have : callLog sites ops = cs := by
    unfold callLog
    rw [hc]; simp
  rw [this]; exact hg


/-! ### Receiver invariant and step (copy of `TunnelInv` with `tg_tvals`) -/

/-- The host calls the receiver makes for one subscriber call. -/
def tg_Shape (sites : List CallSite) (w' : World) (counts : AMap Nat Nat) : SubCall → List HostCall → Prop
  | .register _ _, new => new = [] ∨ ∃ i, new = [.register i]
  | .newSpan id k p f, new => ∃ idx, idx < w'.arena.length ∧ siteOf w' idx = sites.getD k default ∧
      new = [.newSpan id idx (tpar p) (tg_tvals f)]
  | .record id f, new => new = [.record id (tg_tvals f)]
  | .follows a b, new => new = [.follows a b]
  | .enter id, new => new = [.enter id]
  | .exit id, new => new = [.exit id]
  | .clone _, new => new = []
  | .tryClose id, new => new = if (counts.get id).getD 0 - 1 = 0 then [.tryClose id] else []
  | .event k p f, new => ∃ idx, idx < w'.arena.length ∧ siteOf w' idx = sites.getD k default ∧
      new = [.event idx (tpar p) (tg_tvals f)]

theorem tg_sinv_step (sites : List CallSite) (sp : Spec) (g : GSt) (counts : AMap Nat Nat)
    (c : SubCall) (h : SInv sites sp g counts) (hv : sp.invalid (callToEvent c) = [])
    (hg : tg_gok sites g c) :
    SInv sites (sp.apply (callToEvent c)) (gstep g c) (cstep counts c) := by
  cases c with
  | register k site =>
    simp only [tg_gok] at hg
    refine ⟨?_, h.cnt, h.site⟩
    intro k' d hd
    simp only [callToEvent, Spec.apply, AMap.get_insert] at hd
    split at hd
    · cases hd; subst_vars; rfl
    · exact h.knownS k' d hd
  | newSpan id k p f =>
    refine ⟨h.knownS, ?_, ?_⟩
    · intro id'
      simp only [callToEvent, Spec.apply, cstep, AMap.get_insert]
      split
      · rfl
      · exact h.cnt id'
    · intro id' d hd
      simp only [callToEvent, Spec.apply, AMap.get_insert] at hd
      simp only [gstep, AMap.get_insert]
      split
      · rename_i he
        rw [if_pos he] at hd
        cases hd
        rfl
      · rename_i he
        rw [if_neg he] at hd
        exact h.site id' d hd
  | record id f =>
    simp only [callToEvent, Spec.invalid, List.append_eq_nil_iff] at hv
    obtain ⟨d, hd⟩ := alive_get_of_contains (tn_reasonSpan_nil hv.2)
    simp only [callToEvent, Spec.apply, hd, gstep, cstep]
    refine ⟨h.knownS, ?_, ?_⟩
    · intro id'
      simp only [AMap.get_insert]
      split
      · rename_i heq; rw [heq, h.cnt, hd]; rfl
      · exact h.cnt id'
    · intro id' d' hd'
      simp only [AMap.get_insert] at hd'
      split at hd'
      · rename_i heq; cases hd'; rw [heq]; exact h.site id d hd
      · exact h.site id' d' hd'
  | follows a b => exact h
  | enter id => exact h
  | exit id => exact h
  | event k p f => exact h
  | clone id =>
    simp only [callToEvent, Spec.invalid] at hv
    obtain ⟨d, hd⟩ := alive_get_of_contains (tn_reasonSpan_nil hv)
    have hc : AMap.get counts id = some d.refCount := by rw [h.cnt, hd]; rfl
    simp only [callToEvent, Spec.apply, hd, gstep, cstep, hc, Option.getD_some]
    refine ⟨h.knownS, ?_, ?_⟩
    · intro id'
      simp only [AMap.get_insert]
      split
      · rfl
      · exact h.cnt id'
    · intro id' d' hd'
      simp only [AMap.get_insert] at hd'
      split at hd'
      · rename_i heq; cases hd'; rw [heq]; exact h.site id d hd
      · exact h.site id' d' hd'
  | tryClose id =>
    simp only [callToEvent, Spec.invalid] at hv
    obtain ⟨d, hd⟩ := alive_get_of_contains (tn_reasonSpan_nil hv)
    have hc : AMap.get counts id = some d.refCount := by rw [h.cnt, hd]; rfl
    simp only [callToEvent, Spec.apply, hd, gstep, cstep, hc, Option.getD_some]
    by_cases h1 : d.refCount - 1 = 0
    · simp only [h1, if_true]
      refine ⟨h.knownS, ?_, ?_⟩
      · intro id'
        simp only [AMap.get_erase]
        split
        · rfl
        · exact h.cnt id'
      · intro id' d' hd'
        simp only [AMap.get_erase] at hd'
        split at hd'
        · cases hd'
        · exact h.site id' d' hd'
    · simp only [h1, if_false]
      refine ⟨h.knownS, ?_, ?_⟩
      · intro id'
        simp only [AMap.get_insert]
        split
        · rfl
        · exact h.cnt id'
      · intro id' d' hd'
        simp only [AMap.get_insert] at hd'
        split at hd'
        · rename_i heq; cases hd'; rw [heq]; exact h.site id d hd
        · exact h.site id' d' hd'

theorem tg_step (sites : List CallSite) (σ : Sigma) (sp : Spec) (g : GSt) (counts : AMap Nat Nat)
    (c : SubCall) (hr : RInv σ sp g) (hs : SInv sites sp g counts)
    (hv : sp.invalid (callToEvent c) = []) (he : evOK sp (callToEvent c) = true)
    (hg : tg_gok sites g c) :
    ∃ σ' new, tryReceive σ (callToEvent c) = .ok σ' ∧
      σ'.w.host.log = new.reverse ++ σ.w.host.log ∧ σ.w.arena <+: σ'.w.arena ∧
      RInv σ' (sp.apply (callToEvent c)) (gstep g c) ∧ tg_Shape sites σ'.w counts c new := by
  cases c with
  | register k site =>
    have ht : tryReceive σ (callToEvent (.register k site)) = .ok (onNewCallSite σ k site) := rfl
    have hinv := tn_inv_of_ok hr.inv _ he hv _ ht
    have hh : (onNewCallSite σ k site).w.host
        = if (arenaAlloc σ.w.arena site).2.2 = true
          then σ.w.host.emit (.register (arenaAlloc σ.w.arena site).2.1) else σ.w.host := rfl
    by_cases hnew : (arenaAlloc σ.w.arena site).2.2 = true
    · rw [if_pos hnew] at hh
      refine ⟨_, [.register (arenaAlloc σ.w.arena site).2.1], ht, by rw [hh]; rfl,
        tn_arenaAlloc_prefix _ _, ⟨hinv, hr.locA, by rw [hh]; exact hr.next⟩, Or.inr ⟨_, rfl⟩⟩
    · rw [if_neg hnew] at hh
      refine ⟨_, [], ht, by rw [hh]; rfl,
        tn_arenaAlloc_prefix _ _, ⟨hinv, hr.locA, by rw [hh]; exact hr.next⟩, Or.inl rfl⟩
  | newSpan id k p f =>
    simp only [callToEvent] at hv he ⊢
    have hv' := hv
    simp only [Spec.invalid, List.append_eq_nil_iff] at hv'
    obtain ⟨⟨h1, h2⟩, h3⟩ := hv'
    have hlen := tn_reasonMany_nil h1
    obtain ⟨idx, hmt, hlt, hsite⟩ := tn_mt_site hr hs (tn_reasonMeta_nil h2)
    have hfresh : AMap.contains sp.alive id = false := by simpa [evOK] using he
    have hloc : AMap.contains σ.r.loc id = false := by
      rw [AMap.contains_eq]
      cases hgl : AMap.get σ.r.loc id with
      | none => rfl
      | some hh =>
        have := hr.inv.locSub id hh hgl
        rw [hfresh] at this
        cases this
    have hpar : ∀ q, sparentId p = some q → AMap.get σ.r.loc q = some q :=
      fun q hq => hr.locA q (tn_reasonOptSpan_nil h3 q hq)
    obtain ⟨hid, hk, hgood⟩ := hg
    have hc := tn_recv_newSpan σ id k idx (sparentId p) (capture f) hlen hloc hmt hpar
    have hinv := tn_inv_of_ok hr.inv _ he hv _ hc
    have hnext : σ.w.host.next = id := by rw [hr.next, hid]
    rw [tn_tpar, hsite, tg_generateFields_capture _ f hgood, hnext] at hc hinv
    refine ⟨_, [.newSpan id idx (tpar p) (tg_tvals f)], hc,
      (by show HostCall.newSpan σ.w.host.next idx (tpar p) _ :: σ.w.host.log = _; rw [hnext]; rfl),
      List.prefix_refl _, ⟨hinv, ?_, ?_⟩,
      ⟨idx, hlt, hsite, rfl⟩⟩
    · intro id' hid'
      simp only [Spec.apply, AMap.contains_insert, Bool.or_eq_true, decide_eq_true_eq] at hid'
      show AMap.get (AMap.insert σ.r.loc id id) id' = some id'
      rw [AMap.get_insert]
      split
      · subst_vars; rfl
      · rename_i hne
        exact hr.locA id' (hid'.resolve_left hne)
    · show σ.w.host.next + 1 = g.n + 1
      rw [hr.next]
  | record id f =>
    simp only [callToEvent] at hv he ⊢
    have hv' := hv
    simp only [Spec.invalid, List.append_eq_nil_iff] at hv'
    have hlen := tn_reasonMany_nil hv'.1
    have ha := tn_reasonSpan_nil hv'.2
    obtain ⟨d, hd⟩ := alive_get_of_contains ha
    have hd' : AMap.get σ.r.spans id = some d := (hr.inv.spansEq id).trans hd
    obtain ⟨idx, hmt, hlt, hsite⟩ := tn_mt_site hr hs (hr.inv.wf.known id d hd)
    obtain ⟨k, hk, hgood⟩ := hg
    have hkd : k = d.mt := by
      have := hs.site id d hd
      rw [hk] at this
      exact Option.some.inj this
    subst hkd
    have hc := tn_recv_record σ id idx d (capture f) hlen (hr.locA id ha) hd' hmt
    have hinv := tn_inv_of_ok hr.inv _ he hv _ hc
    rw [hsite, tg_generateFields_capture _ f hgood] at hc hinv
    refine ⟨_, [.record id (tg_tvals f)], hc, rfl, List.prefix_refl _, ⟨hinv, ?_, hr.next⟩, rfl⟩
    intro id' hid'
    simp only [Spec.apply, hd] at hid'
    rw [tn_alive_insert_same _ hd] at hid'
    exact hr.locA id' hid'
  | follows a b =>
    simp only [callToEvent] at hv he ⊢
    have hv' := hv
    simp only [Spec.invalid, List.append_eq_nil_iff] at hv'
    have hc := tn_recv_follows σ a b (hr.locA a (tn_reasonSpan_nil hv'.1))
      (hr.locA b (tn_reasonSpan_nil hv'.2))
    have hinv := tn_inv_of_ok hr.inv _ he hv _ hc
    exact ⟨_, [.follows a b], hc, rfl, List.prefix_refl _, ⟨hinv, hr.locA, hr.next⟩, rfl⟩
  | enter id =>
    simp only [callToEvent] at hv he ⊢
    have hc := tn_recv_entered σ id (hr.locA id (tn_reasonSpan_nil hv))
    have hinv := tn_inv_of_ok hr.inv _ he hv _ hc
    exact ⟨_, [.enter id], hc, rfl, List.prefix_refl _, ⟨hinv, hr.locA, hr.next⟩, rfl⟩
  | exit id =>
    simp only [callToEvent] at hv he ⊢
    have hc := tn_recv_exited σ id (hr.locA id (tn_reasonSpan_nil hv))
    have hinv := tn_inv_of_ok hr.inv _ he hv _ hc
    exact ⟨_, [.exit id], hc, rfl, List.prefix_refl _, ⟨hinv, hr.locA, hr.next⟩, rfl⟩
  | clone id =>
    simp only [callToEvent] at hv he ⊢
    have ha := tn_reasonSpan_nil hv
    obtain ⟨d, hd⟩ := alive_get_of_contains ha
    have hd' : AMap.get σ.r.spans id = some d := (hr.inv.spansEq id).trans hd
    have hc := tn_recv_cloned σ id d hd'
    have hinv := tn_inv_of_ok hr.inv _ he hv _ hc
    refine ⟨_, [], hc, rfl, List.prefix_refl _, ⟨hinv, ?_, hr.next⟩, rfl⟩
    intro id' hid'
    simp only [Spec.apply, hd] at hid'
    rw [tn_alive_insert_same _ hd] at hid'
    exact hr.locA id' hid'
  | tryClose id =>
    simp only [callToEvent] at hv he ⊢
    have ha := tn_reasonSpan_nil hv
    obtain ⟨d, hd⟩ := alive_get_of_contains ha
    have hd' : AMap.get σ.r.spans id = some d := (hr.inv.spansEq id).trans hd
    have hrc := hr.inv.wf.rc id d hd
    have h0 : ¬ d.refCount = 0 := by omega
    have hcnt : AMap.get counts id = some d.refCount := by rw [hs.cnt, hd]; rfl
    by_cases h1 : d.refCount - 1 = 0
    · have hc := tn_recv_dropped_close σ id d hd' h0 h1 (hr.locA id ha)
      have hinv := tn_inv_of_ok hr.inv _ he hv _ hc
      refine ⟨_, [.tryClose id], hc, rfl, List.prefix_refl _, ⟨hinv, ?_, hr.next⟩, ?_⟩
      · intro id' hid'
        simp only [Spec.apply, hd, h1, if_true, AMap.contains_erase, Bool.and_eq_true,
          Bool.not_eq_true', decide_eq_false_iff_not] at hid'
        show AMap.get (AMap.erase σ.r.loc id) id' = some id'
        rw [AMap.get_erase, if_neg hid'.1]
        exact hr.locA id' hid'.2
      · simp only [tg_Shape, hcnt, Option.getD_some, h1, if_true]
    · have hc := tn_recv_dropped_keep σ id d hd' h0 h1
      have hinv := tn_inv_of_ok hr.inv _ he hv _ hc
      refine ⟨_, [], hc, rfl, List.prefix_refl _, ⟨hinv, ?_, hr.next⟩, ?_⟩
      · intro id' hid'
        simp only [Spec.apply, hd, h1, if_false] at hid'
        rw [tn_alive_insert_same _ hd] at hid'
        exact hr.locA id' hid'
      · simp only [tg_Shape, hcnt, Option.getD_some, h1, if_false]
  | event k p f =>
    simp only [callToEvent] at hv he ⊢
    have hv' := hv
    simp only [Spec.invalid, List.append_eq_nil_iff] at hv'
    obtain ⟨⟨h1, h2⟩, h3⟩ := hv'
    have hlen := tn_reasonMany_nil h1
    obtain ⟨idx, hmt, hlt, hsite⟩ := tn_mt_site hr hs (tn_reasonMeta_nil h2)
    have hpar : ∀ q, sparentId p = some q → AMap.get σ.r.loc q = some q :=
      fun q hq => hr.locA q (tn_reasonOptSpan_nil h3 q hq)
    obtain ⟨hk, hgood⟩ := hg
    have hc := tn_recv_newEvent σ k idx (sparentId p) (capture f) hlen hmt hpar
    have hinv := tn_inv_of_ok hr.inv _ he hv _ hc
    rw [tn_tpar, hsite, tg_generateFields_capture _ f hgood] at hc hinv
    exact ⟨_, [.event idx (tpar p) (tg_tvals f)], hc, rfl, List.prefix_refl _,
      ⟨hinv, hr.locA, hr.next⟩, ⟨idx, hlt, hsite, rfl⟩⟩


/-! ### The log simulation (copy of the chain in `TT/Props/C01.lean`) -/

/-- Same definition as `HostCall.collapse` of `TT/Props/C01General.lean`. -/
def tg_collapseCall : HostCall → HostCall
  | .newSpan h m p v => .newSpan h m p (tg_collapseVals v)
  | .record h v => .record h (tg_collapseVals v)
  | .event m p v => .event m p (tg_collapseVals v)
  | c => c

/-- The native log, as the right-hand side of `C01_log_simulation` sees it, per subscriber call. -/
def tg_natF (sites : List CallSite) (cs : List SubCall) : List HostCall :=
  ((nonReg (cs.map callToHost)).map (·.mapMeta (canonK sites))).map fun c => (tg_collapseCall c.widen).rootAsCtx

theorem tg_natF_cons (sites : List CallSite) (c : SubCall) (cs : List SubCall) :
    tg_natF sites (c :: cs) = tg_natF sites [c] ++ tg_natF sites cs := by
  show tg_natF sites ([c] ++ cs) = _
  unfold tg_natF
  rw [List.map_append, tn_nonReg_append, List.map_append, List.map_append]

theorem tg_out_eq (sites : List CallSite) (w' W : World) (g : GSt) (counts : AMap Nat Nat)
    (c : SubCall) (new : List HostCall) (hshape : tg_Shape sites w' counts c new)
    (hg : tg_gok sites g c) (hpre : w'.arena <+: W.arena) (rest : List HostCall) :
    (nonReg new).map (·.mapMeta (canonIdx W sites)) ++ rcNormalizeFrom (cstep counts c) rest
      = rcNormalizeFrom counts (tg_natF sites [c] ++ rest) := by
  cases c with
  | register k site =>
    rcases hshape with rfl | ⟨i, rfl⟩ <;> rfl
  | newSpan id k p f =>
    obtain ⟨idx, hlt, hsite, rfl⟩ := hshape
    have hcan := tn_canon sites w' W k idx hg.2.1 hpre hlt hsite
    simp [tg_natF, nonReg, callToHost, HostCall.isRegister, HostCall.mapMeta, HostCall.widen, tg_collapseCall,
      HostCall.rootAsCtx, rcNormalizeFrom, cstep, hcan, tg_tvals_eq, tn_tpar_root]
  | record id f =>
    subst hshape
    simp [tg_natF, nonReg, callToHost, HostCall.isRegister, HostCall.mapMeta, HostCall.widen, tg_collapseCall,
      HostCall.rootAsCtx, rcNormalizeFrom, cstep, tg_tvals_eq]
  | follows a b =>
    subst hshape
    simp [tg_natF, nonReg, callToHost, HostCall.isRegister, HostCall.mapMeta, HostCall.widen, tg_collapseCall,
      HostCall.rootAsCtx, rcNormalizeFrom, cstep]
  | enter id =>
    subst hshape
    simp [tg_natF, nonReg, callToHost, HostCall.isRegister, HostCall.mapMeta, HostCall.widen, tg_collapseCall,
      HostCall.rootAsCtx, rcNormalizeFrom, cstep]
  | exit id =>
    subst hshape
    simp [tg_natF, nonReg, callToHost, HostCall.isRegister, HostCall.mapMeta, HostCall.widen, tg_collapseCall,
      HostCall.rootAsCtx, rcNormalizeFrom, cstep]
  | clone id =>
    subst hshape
    simp [tg_natF, nonReg, callToHost, HostCall.isRegister, HostCall.mapMeta, HostCall.widen, tg_collapseCall,
      HostCall.rootAsCtx, rcNormalizeFrom, cstep]
  | tryClose id =>
    simp only [tg_Shape] at hshape
    subst hshape
    by_cases h1 : (AMap.get counts id).getD 0 - 1 = 0
    · simp [tg_natF, nonReg, callToHost, HostCall.isRegister, HostCall.mapMeta, HostCall.widen, tg_collapseCall,
        HostCall.rootAsCtx, rcNormalizeFrom, cstep, h1]
    · simp [tg_natF, nonReg, callToHost, HostCall.isRegister, HostCall.mapMeta, HostCall.widen, tg_collapseCall,
        HostCall.rootAsCtx, rcNormalizeFrom, cstep, h1]
  | event k p f =>
    obtain ⟨idx, hlt, hsite, rfl⟩ := hshape
    have hcan := tn_canon sites w' W k idx hg.1 hpre hlt hsite
    simp [tg_natF, nonReg, callToHost, HostCall.isRegister, HostCall.mapMeta, HostCall.widen, tg_collapseCall,
      HostCall.rootAsCtx, rcNormalizeFrom, cstep, hcan, tg_tvals_eq, tn_tpar_root]

theorem tg_main (sites : List CallSite) (cs : List SubCall) :
    ∀ (σ : Sigma) (sp : Spec) (g : GSt) (counts : AMap Nat Nat), RInv σ sp g →
      SInv sites sp g counts → allValidEvents sp (cs.map callToEvent) = true →
      noReannounceEvents sp (cs.map callToEvent) = true → tg_goodCalls sites g cs →
      σ.w.arena <+: (recvAll σ cs).w.arena ∧
      ∃ out, (recvAll σ cs).w.host.log = out.reverse ++ σ.w.host.log ∧
        ∀ W : World, (recvAll σ cs).w.arena <+: W.arena →
          (nonReg out).map (·.mapMeta (canonIdx W sites)) = rcNormalizeFrom counts (tg_natF sites cs) := by
  induction cs with
  | nil =>
    intro σ sp g counts _ _ _ _ _
    exact ⟨List.prefix_refl _, [], rfl, fun _ _ => rfl⟩
  | cons c cs ih =>
    intro σ sp g counts hr hs hv hn hg
    simp only [List.map_cons, allValidEvents, noReannounceEvents, Bool.and_eq_true] at hv hn
    obtain ⟨σ', new, ht, hlog, hpre, hr', hshape⟩ :=
      tg_step sites σ sp g counts c hr hs (List.isEmpty_iff.1 hv.1) hn.1 hg.1
    have hs' := tg_sinv_step sites sp g counts c hs (List.isEmpty_iff.1 hv.1) hg.1
    have hrun : recvAll σ (c :: cs) = recvAll σ' cs := by
      simp only [recvAll, List.map_cons, List.foldl_cons, ht, Res.state]
    rw [hrun]
    obtain ⟨hpre2, out, hlog2, hout⟩ := ih σ' _ _ _ hr' hs' hv.2 hn.2 hg.2
    refine ⟨hpre.trans hpre2, new ++ out, ?_, ?_⟩
    · rw [hlog2, hlog]; simp
    · intro W hW
      rw [tn_nonReg_append, List.map_append, hout W hW, tg_natF_cons]
      exact tg_out_eq sites σ'.w W g counts c new hshape hg.1 (hpre2.trans hW) _


/-! ### Stream validity (copy of `vinv_step` … `C12_stream_valid` for loose well-formedness) -/

theorem tg_vinv_step (sites : List CallSite) (st st' : WfSt) (fe : FE SenderState) (sp : Spec)
    (op : POp) (h : VInv st.spanOf st.live st.nSpans fe sp) (hw : tg_wfStepLoose sites st op = some st')
    (hb : st.nSpans + 1 + spansCreated [op] < 2^32) :
    ∃ evs, (feStep senderSub sites fe op).sub.out = evs.reverse ++ fe.sub.out ∧
      allValidEvents sp evs = true ∧ noReannounceEvents sp evs = true ∧
      VInv st'.spanOf st'.live st'.nSpans (feStep senderSub sites fe op)
        (evs.foldl Spec.apply sp) ∧
      st'.nSpans = st.nSpans + spansCreated [op] := by
  obtain ⟨spanOf, live, nSpans, entered⟩ := st
  simp only at h hb
  cases op with
  | new k p vals =>
    simp only [tg_wfStepLoose] at hw
    split at hw
    · rename_i hc
      simp only [Bool.and_eq_true, decide_eq_true_eq] at hc
      obtain ⟨⟨hp, hv⟩, _⟩ := hc
      simp only [Option.some.injEq] at hw
      subst hw
      obtain ⟨evs1, ho1, hv1, hr1, h1, hm1⟩ := vinv_ensure sites h k
      have hstep : feStep senderSub sites fe (.new k p vals) =
          { ensureRegistered senderSub sites fe k with
            sub := { next := wrap32 ((ensureRegistered senderSub sites fe k).sub.next + 1),
                     out := .newSpan (ensureRegistered senderSub sites fe k).sub.next
                       (sparentId (resolveParent (ensureRegistered senderSub sites fe k) p)) k
                       (capture (fieldsOf (sites.getD k default) vals)) ::
                       (ensureRegistered senderSub sites fe k).sub.out },
            handles := (ensureRegistered senderSub sites fe k).handles ++
              [some ((ensureRegistered senderSub sites fe k).sub.next, k)] } := rfl
      rw [hstep]
      generalize ensureRegistered senderSub sites fe k = fe1 at *
      generalize hsp1 : evs1.foldl Spec.apply sp = sp1 at *
      have hpar : reasonOptSpan sp1 (sparentId (resolveParent fe1 p)) = [] := by
        apply vinv_parent h1 p
        intro s hs; subst hs; exact hp
      obtain ⟨hfresh, hnew⟩ := vinv_newSpan h1 k (sparentId (resolveParent fe1 p))
        (capture (fieldsOf (sites.getD k default) vals)) (by simpa [spansCreated] using hb)
      refine ⟨evs1 ++ [.newSpan fe1.sub.next (sparentId (resolveParent fe1 p)) k
        (capture (fieldsOf (sites.getD k default) vals))], ?_, ?_, ?_, ?_, ?_⟩
      · simp [ho1]
      · rw [allValid_append, hv1, hsp1]
        simp only [allValidEvents, Spec.invalid, sd_reasonMany_capture _ _ hv, hm1, hpar]
        rfl
      · rw [noReannounce_append, hr1, hsp1]
        simp only [noReannounceEvents, hfresh]
        rfl
      · rw [List.foldl_append, hsp1]
        exact hnew
      · simp [spansCreated]
    · simp at hw
  | record s vals =>
    simp only [tg_wfStepLoose] at hw
    split at hw
    · rename_i hc
      simp only [Bool.and_eq_true, decide_eq_true_eq] at hc
      obtain ⟨hl, hv⟩ := hc
      simp only [Option.some.injEq] at hw
      subst hw
      obtain ⟨k, d, hs, hg, hrc, hne⟩ := vinv_live h hl
      obtain ⟨_, hspan⟩ := vinv_handle h hl
      simp only [feStep, hs]
      refine ⟨[.valuesRecorded (spanOf.getD s 0 + 1)
        (capture (fieldsOf (sites.getD k default) vals))], rfl, ?_, rfl, ?_, rfl⟩
      · simp only [allValidEvents, Spec.invalid, sd_reasonMany_capture _ _ hv, hspan]
        rfl
      · simp only [List.foldl_cons, List.foldl_nil, Spec.apply, hg]
        refine ⟨h.lenL, h.lenH, h.hnd, h.next, h.lt, ?_, h.known⟩
        intro n
        rw [← h.ref n]
        exact ref_insert_same _ _ d _ hg (by rfl) n
    · simp at hw
  | evt k p vals =>
    simp only [tg_wfStepLoose] at hw
    split at hw
    · rename_i hc
      simp only [Bool.and_eq_true, decide_eq_true_eq] at hc
      obtain ⟨⟨hp, hv⟩, _⟩ := hc
      simp only [Option.some.injEq] at hw
      subst hw
      obtain ⟨evs1, ho1, hv1, hr1, h1, hm1⟩ := vinv_ensure sites h k
      have hstep : feStep senderSub sites fe (.evt k p vals) =
          { ensureRegistered senderSub sites fe k with
            sub := { (ensureRegistered senderSub sites fe k).sub with
                     out := .newEvent k
                       (sparentId (resolveParent (ensureRegistered senderSub sites fe k) p))
                       (capture (fieldsOf (sites.getD k default) vals)) ::
                       (ensureRegistered senderSub sites fe k).sub.out } } := rfl
      rw [hstep]
      generalize ensureRegistered senderSub sites fe k = fe1 at *
      generalize hsp1 : evs1.foldl Spec.apply sp = sp1 at *
      have hpar : reasonOptSpan sp1 (sparentId (resolveParent fe1 p)) = [] := by
        apply vinv_parent h1 p
        intro s hs; subst hs; exact hp
      refine ⟨evs1 ++ [.newEvent k (sparentId (resolveParent fe1 p))
        (capture (fieldsOf (sites.getD k default) vals))], ?_, ?_, ?_, ?_, ?_⟩
      · simp [ho1]
      · rw [allValid_append, hv1, hsp1]
        simp only [allValidEvents, Spec.invalid, sd_reasonMany_capture _ _ hv, hm1, hpar]
        rfl
      · rw [noReannounce_append, hr1, hsp1]
        rfl
      · rw [List.foldl_append, hsp1]
        exact ⟨h1.lenL, h1.lenH, h1.hnd, h1.next, h1.lt, h1.ref, h1.known⟩
      · simp [spansCreated]
    · simp at hw
  | reg k => exact vinv_step sites _ st' fe sp _ h hw hb
  | fol a b => exact vinv_step sites _ st' fe sp _ h hw hb
  | ent s => exact vinv_step sites _ st' fe sp _ h hw hb
  | ext s => exact vinv_step sites _ st' fe sp _ h hw hb
  | cln s => exact vinv_step sites _ st' fe sp _ h hw hb
  | drp s => exact vinv_step sites _ st' fe sp _ h hw hb

theorem tg_vinv_run (sites : List CallSite) (ops : List POp) :
    ∀ (st : WfSt) (fe : FE SenderState) (sp : Spec), VInv st.spanOf st.live st.nSpans fe sp →
      tg_wfFromLoose sites st ops = true → st.nSpans + 1 + spansCreated ops < 2^32 →
      ∃ evs, (runProg senderSub sites fe ops).sub.out = evs.reverse ++ fe.sub.out ∧
        allValidEvents sp evs = true ∧ noReannounceEvents sp evs = true := by
  induction ops with
  | nil => intro st fe sp _ _ _; exact ⟨[], rfl, rfl, rfl⟩
  | cons op ops ih =>
    intro st fe sp h hwf hb
    rw [spansCreated_cons] at hb
    simp only [tg_wfFromLoose] at hwf
    cases hw : tg_wfStepLoose sites st op with
    | none => simp [hw] at hwf
    | some st' =>
      simp only [hw] at hwf
      obtain ⟨evs1, ho1, hv1, hr1, h1, hn1⟩ := tg_vinv_step sites st st' fe sp op h hw (by omega)
      obtain ⟨evs2, ho2, hv2, hr2⟩ := ih st' _ _ h1 hwf (by omega)
      refine ⟨evs1 ++ evs2, ?_, ?_, ?_⟩
      · simp only [runProg, List.foldl_cons] at ho2 ⊢
        rw [ho2, ho1]; simp
      · rw [allValid_append, hv1, hv2]; rfl
      · rw [noReannounce_append, hr1, hr2]; rfl

/-- The stream of a well-formed program is a valid stream: every call site is known when used,
    every span reference (explicit parents, follows-from on both sides, enter, exit, clone, drop,
    record) is to a span between its creation and the drop of its last handle, no operation
    carries more than 32 values, and no span id is announced while alive. -/
theorem tg_stream_valid (sites : List CallSite) (ops : List POp) (hwf : tg_wfFromLoose sites {} ops = true)
    (hb : spansCreated ops < 2^32 - 1) :
    allValidEvents {} (senderStream sites ops) = true ∧ noReannounceEvents {} (senderStream sites ops) = true := by
  have h0 : VInv ({} : WfSt).spanOf ({} : WfSt).live ({} : WfSt).nSpans
      { sub := ({} : SenderState) } ({} : Spec) :=
    ⟨rfl, rfl, fun s hs => by simp at hs, rfl, fun m hm => by simp at hm,
      fun n => by simp [liveCount, AMap.get], fun k hk => by simp at hk⟩
  obtain ⟨evs, ho, hv, hr⟩ := tg_vinv_run sites ops {} _ _ h0 hwf (by show 0 + 1 + spansCreated ops < 2^32; omega)
  have : senderStream sites ops = evs := by
    unfold senderStream
    rw [ho]; simp
  rw [this]
  exact ⟨hv, hr⟩

/-! ### Conclusions in terms of the `tg_` definitions -/

theorem tg_accepts (arena sites : List CallSite) (ops : List POp)
    (hwf : tg_wfFromLoose sites {} ops = true) (hb : spansCreated ops < 2^32 - 1) :
    ∀ r ∈ tunnelResults arena sites ops, r = none := by
  obtain ⟨hv, hr⟩ := tg_stream_valid sites ops hwf hb
  unfold tunnelResults
  apply C03_accepts
  · rw [tn_noReannounce_ev _ _ hv]; exact hr
  · rw [tn_allValid_ev]; exact hv

theorem tg_log_simulation (arena sites : List CallSite) (ops : List POp)
    (hwf : tg_wfFromLoose sites {} ops = true) (hb : spansCreated ops < 2^32 - 1) :
    tunnelLog arena sites ops
      = rcNormalizeFrom [] ((nativeLog sites ops).map fun c => (tg_collapseCall c.widen).rootAsCtx) := by
  have hcs := C12_one_event_per_call sites ops hb
  obtain ⟨hv, hn⟩ := tg_stream_valid sites ops hwf hb
  rw [hcs] at hv hn
  have hgood := tg_callLog_good sites ops hwf
  have h0r : RInv { r := {}, w := { arena, host := {} } } {} {} :=
    ⟨(Inv.init { arena, host := {} }).1, fun id h => by simp [AMap.contains, AMap.get] at h, rfl⟩
  have h0s : SInv sites {} {} [] :=
    ⟨fun k d h => by simp [AMap.get] at h, fun id => rfl, fun id d h => by simp [AMap.get] at h⟩
  obtain ⟨_, out, hlog, hout⟩ := tg_main sites (callLog sites ops) _ _ _ _ h0r h0s hv hn hgood
  have hrun : tunnelledRun arena sites ops
      = recvAll { r := {}, w := { arena, host := {} } } (callLog sites ops) := by
    unfold tunnelledRun recvAll
    rw [hcs]
  have hnat : (nativeLog sites ops).map (fun c => (tg_collapseCall c.widen).rootAsCtx)
      = tg_natF sites (callLog sites ops) := by
    unfold nativeLog tg_natF
    rw [tn_native_log]
  rw [hnat, ← hout _ (List.prefix_refl _)]
  unfold tunnelLog
  simp only [hrun, hlog]
  simp

end TT
