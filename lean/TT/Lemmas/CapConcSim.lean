/-
  One subscriber call of thread `a` of the layered model against the concurrent reference
  description: the invariant `cc_WInv` is preserved when the tagged call is appended to the log.
  (Thread-aware version of `CapSpecSim`.)
-/
import TT.Lemmas.CapConcLayer

namespace TT

/-- A layer invariant moves to a longer log that describes the same storage. -/
theorem cc_layer_transfer {sites : List CallSite} {flt : LFilter} {i : Nat}
    {calls calls' : List (Nat × SubCall)}
    {w : CapWorld} (h : cc_LayerInv sites flt i calls w)
    (hS : cc_refSpans flt sites calls' = cc_refSpans flt sites calls)
    (hE : cc_refEvents flt sites calls' = cc_refEvents flt sites calls)
    (hcap : cs_cap flt sites (cc_untag calls') = cs_cap flt sites (cc_untag calls))
    (hF : ∀ y, (cs_fns flt sites (cc_untag calls) (cs_clOf w.reg)).AgreeAt
      (cs_fns flt sites (cc_untag calls') (cs_clOf w.reg)) y) :
    cc_LayerInv sites flt i calls' w := by
  constructor
  · rw [h.st, hS, hE]
    exact cs_mk_congr _ _ _ _ (fun s _ => hF s.id)
  · rw [hcap]; exact h.ext

/-- Layers after `notifySpan w0 id g`, where `w0` is `w` up to reference counts and stacks, and the
    notification realises the appended call `c` of thread `a` (which creates nothing). -/
theorem cc_notify_layers {N : Nat} {filters : List LFilter} {global : Option Nat} {sites : List CallSite}
    {calls : List (Nat × SubCall)} {hier : cc_Hier} {H : Nat → Nat} {w w0 : CapWorld}
    (h : cc_WInv N filters global sites calls hier H none w) (a : Nat) (c : SubCall)
    (hst : cc_StepOK calls (a, c)) (hc1 : ∀ id k p f, c ≠ .newSpan id k p f) (hc2 : ∀ k p f, c ≠ .event k p f)
    (id : Nat) (g : CapSpan → CapSpan) (s0 : RegSpan)
    (hst0 : w0.storages = w.storages) (hfl0 : w0.filters = w.filters) (hgl0 : w0.global = w.global)
    (hnp0 : w0.panicked = false)
    (hs0 : w0.reg.spans.get id = some s0)
    (hext0 : ∀ y sy, w0.reg.spans.get y = some sy → ∃ s, w.reg.spans.get y = some s ∧ s.ext = sy.ext)
    (hcl : cs_clOf w0.reg = cs_clOf w.reg)
    (hF : ∀ flt cl y, y ≠ id →
      (cs_fns flt sites (cc_untag calls) cl).AgreeAt (cs_fns flt sites (cc_untag calls ++ [c]) cl) y)
    (hg : ∀ flt cl S E s ci, s.id = id →
      g (cs_span S E (cs_fns flt sites (cc_untag calls) cl) s ci) =
        cs_span S E (cs_fns flt sites (cc_untag calls ++ [c]) cl) s ci) :
    (notifySpan w0 id g).panicked = false ∧ (notifySpan w0 id g).reg = w0.reg ∧
    (notifySpan w0 id g).filters = filters ∧ (notifySpan w0 id g).global = global ∧
    (notifySpan w0 id g).storages.length = filters.length ∧
    ∀ i (hi : i < filters.length),
      cc_LayerInv sites filters[i] i (calls ++ [(a, c)]) (notifySpan w0 id g) := by
  obtain ⟨s, hs, hse⟩ := hext0 id s0 hs0
  have hspec := cs_notifySpan_spec w0 id g s0 hnp0 (by rw [hst0, hfl0, h.len, h.fl]) hs0 (by
    intro i ci hi hci
    rw [hst0]
    rw [← hse] at hci
    exact cc_WInv_hval h hs i ci (by rw [← h.fl, ← hfl0]; exact hi) hci)
  obtain ⟨hnp1, hreg1, hfl1, hgl1, hlen1, hst1⟩ := hspec
  refine ⟨hnp1, hreg1, by rw [hfl1, hfl0, h.fl], by rw [hgl1, hgl0, h.gl], by rw [hlen1, hst0, h.len], ?_⟩
  intro i hi
  constructor
  · rw [hst1 i (by rw [hfl0, h.fl]; exact hi), hst0, (h.lay i hi).st, hreg1, hcl, ← hse,
      (h.lay i hi).ext id s hs]
    rw [cc_refSpans_snoc_nc _ _ h.ok hst hc1, cc_refEvents_snoc_nc _ _ h.ok hst hc2, cc_untag_snoc]
    apply cc_layer_notify h.ok
    · intro y hy; exact hF _ _ y hy
    · intro S E s' ci hid; exact hg _ _ S E s' ci hid
  · intro y sy hy
    rw [hreg1] at hy
    obtain ⟨s', hs', he⟩ := hext0 y sy hy
    rw [cc_untag_snoc, cs_cap_snoc_nc _ _ _ hc1, ← he]
    exact (h.lay i hi).ext y s' hs'

/-- The registry changed only in reference counts / stacks. -/
theorem cc_layer_regchange {sites : List CallSite} {flt : LFilter} {i : Nat} {calls : List (Nat × SubCall)}
    {w w' : CapWorld} (h : cc_LayerInv sites flt i calls w) (hst : w'.storages = w.storages)
    (hcl : cs_clOf w'.reg = cs_clOf w.reg)
    (hext : ∀ y sy, w'.reg.spans.get y = some sy → ∃ s, w.reg.spans.get y = some s ∧ s.ext = sy.ext) :
    cc_LayerInv sites flt i calls w' := by
  constructor
  · rw [hst, hcl]; exact h.st
  · intro y sy hy
    obtain ⟨s, hs, he⟩ := hext y sy hy
    rw [← he]; exact h.ext y s hs

theorem cc_WInv_transfer {N : Nat} {filters : List LFilter} {global : Option Nat} {sites : List CallSite}
    {calls : List (Nat × SubCall)} {hier : cc_Hier} {H : Nat → Nat} {x : Option Nat} {w : CapWorld}
    (h : cc_WInv N filters global sites calls hier H x w) (a : Nat) (c : SubCall)
    (hst : cc_StepOK calls (a, c)) (hc1 : ∀ id k p f, c ≠ .newSpan id k p f) (hc2 : ∀ k p f, c ≠ .event k p f)
    (hF : ∀ flt cl y, (cs_fns flt sites (cc_untag calls) cl).AgreeAt
      (cs_fns flt sites (cc_untag calls ++ [c]) cl) y) :
    cc_WInv N filters global sites (calls ++ [(a, c)]) hier H x w := by
  refine ⟨h.np, h.fl, h.gl, h.len, cc_CallsOK.snoc calls (a, c) h.ok hst, ?_, h.stk, h.ri, ?_⟩
  · rw [cc_untag_snoc, cs_maxId_snoc_nc _ hc1]; exact h.next
  · intro i hi
    refine cc_layer_transfer (h.lay i hi) (cc_refSpans_snoc_nc _ _ h.ok hst hc1)
      (cc_refEvents_snoc_nc _ _ h.ok hst hc2) ?_ ?_
    · rw [cc_untag_snoc]; exact cs_cap_snoc_nc _ _ _ hc1
    · intro y; rw [cc_untag_snoc]; exact hF _ _ y

/-! ### `register` -/

theorem cc_sim_register {N : Nat} {filters : List LFilter} {global : Option Nat} {sites : List CallSite}
    {calls : List (Nat × SubCall)} {H : Nat → Nat} {w : CapWorld}
    (h : cc_WInv N filters global sites calls (cc_hierFinal calls) H none w) (a k : Nat) (site : CallSite) :
    cc_WInv N filters global sites (calls ++ [(a, .register k site)])
      (cc_hierFinal (calls ++ [(a, .register k site)])) H none w := by
  have hh : cc_hierFinal (calls ++ [(a, .register k site)]) = cc_hierFinal calls := by
    rw [cc_hierFinal_snoc]; rfl
  rw [hh]
  refine cc_WInv_transfer h a _ trivial (by intros; simp) (by intros; simp) ?_
  intro flt cl y
  refine ⟨?_, ?_, ?_, rfl, ?_⟩
  · simp [cs_fns, cs_values_snoc]
  · simp [cs_fns, cs_count_snoc, cs_isEnter]
  · simp [cs_fns, cs_count_snoc, cs_isExit]
  · simp [cs_fns, cs_follows_snoc, cs_newFollows, cs_cap_snoc, cs_newCapId]

/-! ### `record` -/

theorem cc_sim_record {N : Nat} {filters : List LFilter} {global : Option Nat} {sites : List CallSite}
    {calls : List (Nat × SubCall)} {H : Nat → Nat} {w : CapWorld}
    (h : cc_WInv N filters global sites calls (cc_hierFinal calls) H none w) (a id : Nat) (fields : Fields)
    (hid : (w.reg.spans.get id).isSome) :
    cc_WInv N filters global sites (calls ++ [(a, .record id fields)])
      (cc_hierFinal (calls ++ [(a, .record id fields)])) H none ((capSub a).record w id fields) := by
  cases hs : w.reg.spans.get id with
  | none => simp [hs] at hid
  | some s =>
  have hc1 : ∀ id' k p f, SubCall.record id fields ≠ .newSpan id' k p f := by intros; simp
  have hc2 : ∀ k p f, SubCall.record id fields ≠ .event k p f := by intros; simp
  have hh : cc_hierFinal (calls ++ [(a, .record id fields)]) = cc_hierFinal calls := by
    rw [cc_hierFinal_snoc]; rfl
  have hmax : cs_maxId (cc_untag (calls ++ [(a, SubCall.record id fields)])) = cs_maxId (cc_untag calls) := by
    rw [cc_untag_snoc]; exact cs_maxId_snoc_nc _ hc1
  simp only [capSub]
  rw [if_neg (by rw [h.np]; simp), hh]
  have hn := cc_notify_layers (w0 := w) h a (.record id fields) trivial hc1 hc2 id
    (fun cs => { cs with values := cs.values.extend (capture fields) }) s rfl rfl rfl h.np hs
    (fun y sy hy => ⟨sy, hy, rfl⟩) rfl
    (by
      intro flt cl y hy
      have hne : ¬ id = y := fun h => hy h.symm
      refine ⟨?_, ?_, ?_, rfl, ?_⟩
      · simp [cs_fns, cs_values_snoc, hne]
      · simp [cs_fns, cs_count_snoc, cs_isEnter]
      · simp [cs_fns, cs_count_snoc, cs_isExit]
      · simp [cs_fns, cs_follows_snoc, cs_newFollows, cs_cap_snoc, cs_newCapId])
    (by
      intro flt cl S E s' ci hi
      simp [cs_span_def, cs_fns, cs_values_snoc, cs_count_snoc, cs_isEnter, cs_isExit, hi,
        cs_follows_snoc, cs_newFollows, cs_cap_snoc, cs_newCapId])
  obtain ⟨hnp1, hreg1, hfl1, hgl1, hlen1, hlay1⟩ := hn
  refine ⟨hnp1, hfl1, hgl1, hlen1, cc_CallsOK.snoc calls _ h.ok trivial, ?_, ?_, ?_, hlay1⟩
  · rw [hreg1, hmax]; exact h.next
  · rw [hreg1]; exact h.stk
  · rw [hreg1]; exact h.ri

/-! ### `clone` -/

theorem cc_sim_clone {N : Nat} {filters : List LFilter} {global : Option Nat} {sites : List CallSite}
    {calls : List (Nat × SubCall)} {H H' : Nat → Nat} {w : CapWorld} {a : Nat} (ha : a < N)
    (h : cc_WInv N filters global sites calls (cc_hierFinal calls) H none w) (id : Nat)
    (hid : (w.reg.spans.get id).isSome) (hH : ∀ y, H' y = H y + if y = id then 1 else 0) :
    cc_WInv N filters global sites (calls ++ [(a, .clone id)]) (cc_hierFinal (calls ++ [(a, .clone id)]))
      H' none ((capSub a).clone w id) := by
  cases hs : w.reg.spans.get id with
  | none => simp [hs] at hid
  | some s =>
  have hh : cc_hierFinal (calls ++ [(a, .clone id)]) = cc_hierFinal calls := by
    rw [cc_hierFinal_snoc]; rfl
  have hs' : AMap.get w.reg.spans id = some s := hs
  simp only [capSub, Reg.cloneSpan]
  rw [if_neg (by rw [h.np]; simp), hh]
  simp only [hs']
  have hget : (AMap.insert w.reg.spans id { s with refs := s.refs + 1 }).get =
      cs_upd w.reg.spans.get id (some { s with refs := s.refs + 1 }) := cs_get_insert_upd _ _ _
  have hri := cc_RI_to h.ri ha
  refine cc_WInv_transfer (c := .clone id) ?_ a trivial (by intros; simp) (by intros; simp)
    (fun flt cl y => cs_fns_agree_plain flt sites (cc_untag calls) cl _ y (by intros; simp) (by intros; simp)
      (by intros; simp) (by intros; simp) (by intros; simp))
  refine ⟨h.np, h.fl, h.gl, h.len, h.ok, h.next, h.stk, ?_, ?_⟩
  · show cc_RI N _ w.reg.next (AMap.insert w.reg.spans id _).get _ H' none
    rw [hget]
    refine cc_RI_lift_same h.ri ha (cs_RI_clone hri hs ?_)
    intro y
    unfold cc_Hx
    rw [hH y]
    omega
  · intro i hi
    refine cc_layer_regchange (h.lay i hi) rfl ?_ ?_
    · funext y
      unfold cs_clOf
      show ((AMap.insert w.reg.spans id _).get y).isNone = _
      rw [hget]
      by_cases hy : y = id
      · subst hy; simp [cs_upd, hs]
      · rw [cs_upd_ne _ _ _ hy]
    · intro y sy hy
      have hy' : cs_upd w.reg.spans.get id (some { s with refs := s.refs + 1 }) y = some sy := by
        rw [← hget]; exact hy
      by_cases hyi : y = id
      · subst hyi; rw [cs_upd_same] at hy'; cases hy'; exact ⟨s, hs, rfl⟩
      · rw [cs_upd_ne _ _ _ hyi] at hy'; exact ⟨sy, hy', rfl⟩

/-! ### `try_close` (a handle is dropped) -/

theorem cc_sim_tryClose {N : Nat} {filters : List LFilter} {global : Option Nat} {sites : List CallSite}
    {calls : List (Nat × SubCall)} {H H' : Nat → Nat} {w : CapWorld} {a : Nat} (ha : a < N)
    (h : cc_WInv N filters global sites calls (cc_hierFinal calls) H none w) (id : Nat)
    (hid : 1 ≤ H id) (hH : ∀ y, H' y + (if y = id then 1 else 0) = H y) :
    cc_WInv N filters global sites (calls ++ [(a, .tryClose id)]) (cc_hierFinal (calls ++ [(a, .tryClose id)]))
      H' none ((capSub a).tryClose w id) := by
  have hsome : (w.reg.spans.get id).isSome := by
    cases hs : w.reg.spans.get id with
    | none => have := (h.ri.nex id hs).1; omega
    | some _ => rfl
  have hh : cc_hierFinal (calls ++ [(a, .tryClose id)]) = cc_hierFinal calls := by
    rw [cc_hierFinal_snoc]; rfl
  simp only [capSub]
  rw [if_neg (by rw [h.np]; simp), hh]
  refine cc_WInv_transfer (c := .tryClose id) ?_ a trivial (by intros; simp) (by intros; simp)
    (fun flt cl y => cs_fns_agree_plain flt sites (cc_untag calls) cl _ y (by intros; simp) (by intros; simp)
      (by intros; simp) (by intros; simp) (by intros; simp))
  unfold CapWorld.tryClose
  apply cc_tryClose_inv ha
  · have hri := cc_RI_to h.ri ha
    refine ⟨h.np, h.fl, h.gl, h.len, h.ok, h.next, h.stk, ?_, h.lay⟩
    refine cc_RI_lift_same h.ri ha (cs_RI_same hri hri.sok ?_ ?_ ?_)
    · intro y sy hy
      have := hH y
      unfold cc_Hx
      by_cases hyi : y = id
      · subst hyi
        simp only [if_true, reduceCtorEq, if_false] at this ⊢
        omega
      · have hne : ¬ some id = some y := by simpa using fun h' => hyi h'.symm
        simp only [hyi, if_false, hne, reduceCtorEq] at this ⊢
        omega
    · intro y hy
      have hyi : y ≠ id := by intro he; subst he; rw [hy] at hsome; cases hsome
      have := hH y
      simp only [hyi, if_false] at this
      rw [Nat.add_zero] at this
      have hn := hri.nex y hy
      unfold cc_Hx at hn ⊢
      rw [this]; exact hn
    · intro y hy; cases hy; exact hsome
  · cases hs : w.reg.spans.get id with
    | none => rw [hs] at hsome; cases hsome
    | some s => have := (h.ri.ex id s hs).2.1; omega

/-! ### `enter` -/

theorem cc_sim_enter {N : Nat} {filters : List LFilter} {global : Option Nat} {sites : List CallSite}
    {calls : List (Nat × SubCall)} {H : Nat → Nat} {w : CapWorld} {a : Nat} (ha : a < N)
    (h : cc_WInv N filters global sites calls (cc_hierFinal calls) H none w) (id : Nat)
    (hid : (w.reg.spans.get id).isSome) :
    cc_WInv N filters global sites (calls ++ [(a, .enter id)]) (cc_hierFinal (calls ++ [(a, .enter id)])) H none
      ((capSub a).enter w id) := by
  cases hs : w.reg.spans.get id with
  | none => simp [hs] at hid
  | some s =>
  have hri := cc_RI_to h.ri ha
  have hex := hri.ex id s hs
  have hstep : cc_StepOK calls (a, .enter id) := ⟨hex.1, by have := h.next; have := hex.2.1; omega⟩
  have hok' := cc_CallsOK.snoc calls _ h.ok hstep
  have hc1 : ∀ id' k p f, SubCall.enter id ≠ .newSpan id' k p f := by intros; simp
  have hc2 : ∀ k p f, SubCall.enter id ≠ .event k p f := by intros; simp
  have hhier : cc_hierFinal (calls ++ [(a, .enter id)]) =
      { stacks := (cc_hierFinal calls).stacks.insert a
          ((id, cs_onStack ((cc_hierFinal calls).stack a) id) :: (cc_hierFinal calls).stack a),
        parent := (cc_hierFinal calls).parent } := by
    rw [cc_hierFinal_snoc]; rfl
  have hmax : cs_maxId (cc_untag (calls ++ [(a, SubCall.enter id)])) = cs_maxId (cc_untag calls) := by
    rw [cc_untag_snoc]; exact cs_maxId_snoc_nc _ hc1
  simp only [capSub]
  rw [if_neg (by rw [h.np]; simp), cc_WInv_stack h a]
  have hdup : (((cc_hierFinal calls).stack a).any fun x => x.1 == id) =
      cs_onStack ((cc_hierFinal calls).stack a) id := rfl
  rw [hdup]
  cases hd : cs_onStack ((cc_hierFinal calls).stack a) id with
  | true =>
    simp only [if_true]
    -- duplicate entry: no clone
    let w0 : CapWorld := { w with reg := { w.reg with
      stacks := w.reg.stacks.insert a ((id, true) :: (cc_hierFinal calls).stack a) } }
    have hn := cc_notify_layers (w0 := w0) h a (.enter id) hstep hc1 hc2 id
      (fun cs => { cs with entered := cs.entered + 1 }) s rfl rfl rfl h.np hs
      (fun y sy hy => ⟨sy, hy, rfl⟩) rfl
      (fun flt cl y hy => cs_fns_enter_ne flt sites (cc_untag calls) cl id y hy)
      (fun flt cl S E s' ci hi => cs_fns_enter_eq flt sites (cc_untag calls) cl S E s' ci id hi)
    obtain ⟨hnp1, hreg1, hfl1, hgl1, hlen1, hlay1⟩ := hn
    change cc_WInv _ _ _ _ _ _ _ _ (notifySpan w0 id _)
    refine ⟨hnp1, hfl1, hgl1, hlen1, hok', ?_, ?_, ?_, hlay1⟩
    · rw [hreg1, hmax]; exact h.next
    · rw [hreg1, hhier, hd]
      show w.reg.stacks.insert a _ = _
      rw [h.stk]
    · rw [hreg1, hhier, hd, cc_stack_updS]
      refine cc_RI_lift h.ri ha (cs_RI_same hri ⟨hd.symm, hri.sok⟩ ?_ ?_ (fun y hy => by cases hy))
      · intro y sy hy
        rw [cs_onStack_cons]
        by_cases hyi : id = y
        · subst hyi; simp [hd]
        · simp [hyi]
      · intro y hy
        have hyi : ¬ id = y := by intro he; subst he; rw [hs] at hy; cases hy
        rw [cs_onStack_cons]
        simpa [hyi] using hri.nex y hy
  | false =>
    simp only [Bool.false_eq_true, if_false, Reg.cloneSpan]
    have hs' : AMap.get w.reg.spans id = some s := hs
    simp only [hs']
    let w0 : CapWorld := { w with reg := { w.reg with
      stacks := w.reg.stacks.insert a ((id, false) :: (cc_hierFinal calls).stack a),
      spans := w.reg.spans.insert id { s with refs := s.refs + 1 } } }
    have hget0 : w0.reg.spans.get = cs_upd w.reg.spans.get id (some { s with refs := s.refs + 1 }) :=
      cs_get_insert_upd _ _ _
    have hn := cc_notify_layers (w0 := w0) h a (.enter id) hstep hc1 hc2 id
      (fun cs => { cs with entered := cs.entered + 1 }) { s with refs := s.refs + 1 } rfl rfl rfl h.np
      (by rw [hget0, cs_upd_same])
      (by
        intro y sy hy
        rw [hget0] at hy
        by_cases hyi : y = id
        · subst hyi; rw [cs_upd_same] at hy; cases hy; exact ⟨s, hs, rfl⟩
        · rw [cs_upd_ne _ _ _ hyi] at hy; exact ⟨sy, hy, rfl⟩)
      (by
        funext y
        unfold cs_clOf
        rw [hget0]
        by_cases hyi : y = id
        · subst hyi; simp [cs_upd, hs]
        · rw [cs_upd_ne _ _ _ hyi])
      (fun flt cl y hy => cs_fns_enter_ne flt sites (cc_untag calls) cl id y hy)
      (fun flt cl S E s' ci hi => cs_fns_enter_eq flt sites (cc_untag calls) cl S E s' ci id hi)
    obtain ⟨hnp1, hreg1, hfl1, hgl1, hlen1, hlay1⟩ := hn
    change cc_WInv _ _ _ _ _ _ _ _ (notifySpan w0 id _)
    refine ⟨hnp1, hfl1, hgl1, hlen1, hok', ?_, ?_, ?_, hlay1⟩
    · rw [hreg1, hmax]; exact h.next
    · rw [hreg1, hhier, hd]
      show w.reg.stacks.insert a _ = _
      rw [h.stk]
    · rw [hreg1, hhier, hd, hget0, cc_stack_updS]
      refine cc_RI_lift h.ri ha
        (cs_RI_set (s' := { s with refs := s.refs + 1 }) hri hs rfl ⟨hd.symm, hri.sok⟩ ?_ ?_ ?_)
      · have := hex.2.2.2
        rw [hd] at this
        simp only [cs_onStack_cons, beq_self_eq_true, Bool.true_or, if_true, reduceCtorEq, if_false,
          Bool.false_eq_true] at this ⊢
        omega
      · intro y hy
        have hyi : ¬ id = y := fun h' => hy h'.symm
        simp [cs_onStack_cons, hyi]
      · intro y hy; cases hy

/-! ### `exit` -/

theorem cc_isSome_of_H {N filters global sites calls hier H x w}
    (h : cc_WInv N filters global sites calls hier H x w) {id : Nat} (hid : 1 ≤ H id) :
    (w.reg.spans.get id).isSome := by
  cases hs : w.reg.spans.get id with
  | none => have := (h.ri.nex id hs).1; omega
  | some _ => rfl

/-- The world after replacing the stack of thread `a`. -/
def cc_popW (w : CapWorld) (a : Nat) (stk : List (Nat × Bool)) : CapWorld :=
  { w with reg := { w.reg with stacks := w.reg.stacks.insert a stk } }

/-- The registry part of `exit`: pop, and release the reference unless the entry was a duplicate. -/
theorem cc_exit_reg {N : Nat} {filters : List LFilter} {global : Option Nat} {sites : List CallSite}
    {calls : List (Nat × SubCall)} {H : Nat → Nat} {w : CapWorld} {a : Nat} (ha : a < N)
    (h : cc_WInv N filters global sites calls (cc_hierFinal calls) H none w) (id : Nat) (hid : 1 ≤ H id)
    (w2 : CapWorld)
    (hw2 : w2 = (match (((cc_hierFinal calls).stack a).find? (·.1 == id)).map (·.2) with
      | some false => CapWorld.tryClose (cc_popW w a (stackPop ((cc_hierFinal calls).stack a) id)) id
      | _ => cc_popW w a (stackPop ((cc_hierFinal calls).stack a) id))) :
    cc_WInv N filters global sites calls
      { stacks := (cc_hierFinal calls).stacks.insert a (stackPop ((cc_hierFinal calls).stack a) id),
        parent := (cc_hierFinal calls).parent } H none w2 := by
  have hsome := cc_isSome_of_H h hid
  have hri := cc_RI_to h.ri ha
  have hfp := cs_find_pop ((cc_hierFinal calls).stack a) id hri.sok
  have hsok' := cs_stackOK_pop ((cc_hierFinal calls).stack a) id hri.sok
  -- the world after the pop satisfies the invariant with a release pending iff `pend`
  have hw1 : ∀ x' : Option Nat,
      (∀ y, (if cs_onStack (stackPop ((cc_hierFinal calls).stack a) id) y then 1 else 0) +
        (if x' = some y then 1 else 0) = (if cs_onStack ((cc_hierFinal calls).stack a) y then 1 else 0)) →
      (∀ y, x' = some y → y = id) →
      cc_WInv N filters global sites calls
        { stacks := (cc_hierFinal calls).stacks.insert a (stackPop ((cc_hierFinal calls).stack a) id),
          parent := (cc_hierFinal calls).parent } H x'
        (cc_popW w a (stackPop ((cc_hierFinal calls).stack a) id)) := by
    intro x' hcnt hx'
    refine ⟨h.np, h.fl, h.gl, h.len, h.ok, h.next, ?_, ?_, ?_⟩
    · show w.reg.stacks.insert a _ = _
      rw [h.stk]
    · rw [cc_stack_updS]
      refine cc_RI_lift h.ri ha (cs_RI_same hri hsok' ?_ ?_ ?_)
      · intro y sy _
        have := hcnt y
        simp only [reduceCtorEq, if_false]
        omega
      · intro y hy
        have hy' : w.reg.spans.get y = none := hy
        have hyi : y ≠ id := by intro he; subst he; rw [hy'] at hsome; cases hsome
        rw [cs_onStack_pop_ne _ _ _ hyi]
        exact hri.nex y hy'
      · intro y hy
        rw [hx' y hy]; exact hsome
    · intro i hi
      exact cc_layer_regchange (h.lay i hi) rfl rfl (fun y sy hy => ⟨sy, hy, rfl⟩)
  have hne : ∀ y, y ≠ id → cs_onStack (stackPop ((cc_hierFinal calls).stack a) id) y =
      cs_onStack ((cc_hierFinal calls).stack a) y := fun y hy => cs_onStack_pop_ne _ _ _ hy
  cases hf : ((cc_hierFinal calls).stack a).find? (·.1 == id) with
  | none =>
    rw [hf] at hfp hw2
    simp only [Option.map_none] at hw2
    rw [hw2]
    apply hw1 none
    · intro y; rw [hfp.2]; simp
    · intro y hy; cases hy
  | some e =>
    rw [hf] at hfp hw2
    obtain ⟨x, d⟩ := e
    simp only at hfp
    cases d with
    | true =>
      simp only [Option.map_some] at hw2
      rw [hw2]
      apply hw1 none
      · intro y
        by_cases hy : y = id
        · subst hy; rw [hfp.1, hfp.2]; simp
        · rw [hne y hy]; simp
      · intro y hy; cases hy
    | false =>
      simp only [Option.map_some] at hw2
      rw [hw2]
      unfold CapWorld.tryClose
      apply cc_tryClose_inv ha
      · apply hw1 (some id)
        · intro y
          by_cases hy : y = id
          · subst hy; rw [hfp.1, hfp.2]; simp
          · have : ¬ some id = some y := by simpa using fun h' => hy h'.symm
            rw [hne y hy]; simp [this]
        · intro y hy; cases hy; rfl
      · show id < w.reg.next + 1
        cases hs : w.reg.spans.get id with
        | none => rw [hs] at hsome; cases hsome
        | some s => have := (h.ri.ex id s hs).2.1; omega

theorem cc_exit_tail {N : Nat} {filters : List LFilter} {global : Option Nat} {sites : List CallSite}
    {calls : List (Nat × SubCall)} {H : Nat → Nat} {w2 : CapWorld} (a id : Nat)
    (h : cc_WInv N filters global sites calls (cc_hierFinal (calls ++ [(a, .exit id)])) H none w2)
    (hid : 1 ≤ H id) :
    cc_WInv N filters global sites (calls ++ [(a, .exit id)]) (cc_hierFinal (calls ++ [(a, .exit id)])) H none
      (if w2.panicked then w2 else notifySpan w2 id fun cs => { cs with exited := cs.exited + 1 }) := by
  have hsome := cc_isSome_of_H h hid
  cases hs : w2.reg.spans.get id with
  | none => rw [hs] at hsome; cases hsome
  | some s =>
  have hc1 : ∀ id' k p f, SubCall.exit id ≠ .newSpan id' k p f := by intros; simp
  have hc2 : ∀ k p f, SubCall.exit id ≠ .event k p f := by intros; simp
  have hmax : cs_maxId (cc_untag (calls ++ [(a, SubCall.exit id)])) = cs_maxId (cc_untag calls) := by
    rw [cc_untag_snoc]; exact cs_maxId_snoc_nc _ hc1
  have hstep : cc_StepOK calls (a, .exit id) := by
    show id ≤ cs_maxId (cc_untag calls)
    have := (h.ri.ex id s hs).2.1
    have := h.next
    omega
  rw [if_neg (by rw [h.np]; simp)]
  have hn := cc_notify_layers (w0 := w2) h a (.exit id) hstep hc1 hc2 id
    (fun cs => { cs with exited := cs.exited + 1 }) s rfl rfl rfl h.np hs
    (fun y sy hy => ⟨sy, hy, rfl⟩) rfl
    (by
      intro flt cl y hy
      have hne : ¬ id = y := fun h => hy h.symm
      refine ⟨?_, ?_, ?_, rfl, ?_⟩
      · simp [cs_fns, cs_values_snoc]
      · simp [cs_fns, cs_count_snoc, cs_isEnter]
      · simp [cs_fns, cs_count_snoc, cs_isExit, hne]
      · simp [cs_fns, cs_follows_snoc, cs_newFollows, cs_cap_snoc, cs_newCapId])
    (by
      intro flt cl S E s' ci hi
      simp [cs_span_def, cs_fns, cs_values_snoc, cs_count_snoc, cs_isEnter, cs_isExit, hi,
        cs_follows_snoc, cs_newFollows, cs_cap_snoc, cs_newCapId])
  obtain ⟨hnp1, hreg1, hfl1, hgl1, hlen1, hlay1⟩ := hn
  refine ⟨hnp1, hfl1, hgl1, hlen1, cc_CallsOK.snoc calls _ h.ok hstep, ?_, ?_, ?_, hlay1⟩
  · rw [hreg1, hmax]; exact h.next
  · rw [hreg1]; exact h.stk
  · rw [hreg1]; exact h.ri

theorem cc_sim_exit {N : Nat} {filters : List LFilter} {global : Option Nat} {sites : List CallSite}
    {calls : List (Nat × SubCall)} {H : Nat → Nat} {w : CapWorld} {a : Nat} (ha : a < N)
    (h : cc_WInv N filters global sites calls (cc_hierFinal calls) H none w) (id : Nat) (hid : 1 ≤ H id) :
    cc_WInv N filters global sites (calls ++ [(a, .exit id)]) (cc_hierFinal (calls ++ [(a, .exit id)])) H none
      ((capSub a).exit w id) := by
  have hhier : cc_hierFinal (calls ++ [(a, .exit id)]) =
      { stacks := (cc_hierFinal calls).stacks.insert a (stackPop ((cc_hierFinal calls).stack a) id),
        parent := (cc_hierFinal calls).parent } := by
    rw [cc_hierFinal_snoc]; rfl
  simp only [capSub]
  rw [if_neg (by rw [h.np]; simp), cc_WInv_stack h a]
  apply cc_exit_tail a id _ hid
  rw [hhier]
  exact cc_exit_reg ha h id hid _ rfl

end TT
