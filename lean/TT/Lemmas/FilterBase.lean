/-
  TT.Lemmas.FilterBase — helper lemmas for C13 (part 1): association-map facts used by the
  renumbering fold, and the canonical call-site index keeps the call-site content.
-/
import TT.Props.C01

namespace TT

theorem fl_insert_length (m : AMap Nat Nat) (k v : Nat) (h : AMap.get m k = none) :
    (AMap.insert m k v).length = m.length + 1 := by
  induction m with
  | nil => rfl
  | cons p rest ih =>
    obtain ⟨a, b⟩ := p
    rw [AMap.get_cons] at h
    by_cases hak : a = k
    · simp [hak] at h
    · rw [if_neg hak] at h
      rw [AMap.insert_cons, if_neg hak, List.length_cons, List.length_cons, ih h]

theorem fl_indexOf_getD (d : CallSite) (l : List CallSite) (i : Nat) (h : indexOf? d l = some i) :
    l.getD i default = d := by
  induction l generalizing i with
  | nil => simp [indexOf?] at h
  | cons x xs ih =>
    simp only [indexOf?] at h
    by_cases hx : x = d
    · rw [if_pos hx] at h
      cases h
      simpa using hx
    · rw [if_neg hx] at h
      cases hj : indexOf? d xs with
      | none => rw [hj] at h; cases h
      | some j =>
        rw [hj] at h
        cases h
        have := ih j hj
        simpa using this

/-- The canonical index of a call site denotes a call site with the same content. -/
theorem fl_canon_site (sites : List CallSite) (k : Nat) :
    sites.getD (canonK sites k) default = sites.getD k default := by
  unfold canonK
  cases h : indexOf? (sites.getD k default) sites with
  | none => rfl
  | some i => exact fl_indexOf_getD _ _ _ h

end TT
