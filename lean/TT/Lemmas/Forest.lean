/-
  TT.Lemmas.Forest — helper lemmas for C17 (storage well-formedness and the query API).
-/
import TT.Model.Forest

namespace TT

open Storage

/-! ### `modifyAt` -/

theorem modifyAt_length {α : Type} (xs : List α) (i : Nat) (f : α → α) :
    (modifyAt xs i f).length = xs.length := by
  unfold modifyAt; split <;> simp

theorem getElem?_modifyAt {α : Type} (xs : List α) (i j : Nat) (f : α → α) :
    (modifyAt xs i f)[j]? = if j = i then xs[j]?.map f else xs[j]? := by
  unfold modifyAt
  split
  · rename_i x hx
    rw [List.getElem?_set]
    by_cases hji : j = i
    · subst hji
      obtain ⟨hlt, hxe⟩ := List.getElem?_eq_some_iff.1 hx
      simp [hlt, hxe]
    · have : ¬ i = j := fun h => hji h.symm
      simp [hji, this]
  · rename_i hx
    by_cases hji : j = i
    · subst hji; simp [hx]
    · simp [hji]

/-! ### Views of the storage operations -/

section views

variable {st st' : Storage}

theorem parentOf_ge (st : Storage) {j : Nat} (h : st.spans.length ≤ j) : st.parentOf j = none := by
  simp [parentOf, List.getElem?_eq_none h]

theorem childrenOf_ge (st : Storage) {j : Nat} (h : st.spans.length ≤ j) : st.childrenOf j = [] := by
  simp [childrenOf, List.getElem?_eq_none h]

theorem eventsOf_ge (st : Storage) {j : Nat} (h : st.spans.length ≤ j) : st.eventsOf j = [] := by
  simp [eventsOf, List.getElem?_eq_none h]

theorem followsOf_ge (st : Storage) {j : Nat} (h : st.spans.length ≤ j) : st.followsOf j = [] := by
  simp [followsOf, List.getElem?_eq_none h]

theorem eventParent_ge (st : Storage) {j : Nat} (h : st.events.length ≤ j) : st.eventParent j = none := by
  simp [eventParent, List.getElem?_eq_none h]

structure PushSpanView (st st' : Storage) (p : Option Nat) : Prop where
  len : st'.spans.length = st.spans.length + 1
  events : st'.events = st.events
  rootEvents : st'.rootEvents = st.rootEvents
  plt : ∀ q, p = some q → q < st.spans.length
  rootSpans : st'.rootSpans = if p = none then st.rootSpans ++ [st.spans.length] else st.rootSpans
  parentOf : ∀ j, st'.parentOf j = if j = st.spans.length then p else st.parentOf j
  childrenOf : ∀ j, st'.childrenOf j = if p = some j then st.childrenOf j ++ [st.spans.length] else st.childrenOf j
  eventsOf : ∀ j, st'.eventsOf j = st.eventsOf j
  followsOf : ∀ j, st'.followsOf j = st.followsOf j

theorem pushSpan_view {mt : Nat} {vs : TVals} {p : Option Nat} {id : Nat}
    (hp : st.pushSpan mt vs p = some (st', id)) : id = st.spans.length ∧ PushSpanView st st' p := by
  unfold Storage.pushSpan at hp
  cases p with
  | none =>
    simp only [Option.some.injEq, Prod.mk.injEq] at hp
    obtain ⟨rfl, rfl⟩ := hp
    refine ⟨rfl, ?_⟩
    constructor
    · simp
    · rfl
    · rfl
    · intro q hq; cases hq
    · simp
    · intro j
      simp only [Storage.parentOf, List.getElem?_append]
      by_cases hj : j < st.spans.length
      · have : j ≠ st.spans.length := by omega
        simp [hj, this]
      · by_cases hj2 : j = st.spans.length
        · subst hj2; simp
        · have h3 : st.spans.length ≤ j := by omega
          simp [hj, hj2]
          intro a ha
          have := (List.getElem?_eq_some_iff.1 ha).1
          simp at this; omega
    · intro j
      simp only [Storage.childrenOf, List.getElem?_append]
      by_cases hj : j < st.spans.length
      · simp [hj]
      · by_cases hj2 : j = st.spans.length
        · subst hj2; simp
        · have h3 : st.spans.length ≤ j := by omega
          simp [hj]
          have : ([{ mt := mt, values := vs, parent := none }] : List CapSpan)[j - st.spans.length]? = none := by
            apply List.getElem?_eq_none; simp; omega
          simp [this]
    · intro j
      simp only [Storage.eventsOf, List.getElem?_append]
      by_cases hj : j < st.spans.length
      · simp [hj]
      · by_cases hj2 : j = st.spans.length
        · subst hj2; simp
        · have h3 : st.spans.length ≤ j := by omega
          simp [hj]
          have : ([{ mt := mt, values := vs, parent := none }] : List CapSpan)[j - st.spans.length]? = none := by
            apply List.getElem?_eq_none; simp; omega
          simp [this]
    · intro j
      simp only [Storage.followsOf, List.getElem?_append]
      by_cases hj : j < st.spans.length
      · simp [hj]
      · by_cases hj2 : j = st.spans.length
        · subst hj2; simp
        · have h3 : st.spans.length ≤ j := by omega
          simp [hj]
          have : ([{ mt := mt, values := vs, parent := none }] : List CapSpan)[j - st.spans.length]? = none := by
            apply List.getElem?_eq_none; simp; omega
          simp [this]
  | some q =>
    simp only at hp
    split at hp
    · rename_i hq
      simp only [Option.some.injEq, Prod.mk.injEq] at hp
      obtain ⟨rfl, rfl⟩ := hp
      refine ⟨rfl, ?_⟩
      have key : ∀ j, (modifyAt (st.spans ++ [{ mt := mt, values := vs, parent := some q }]) q
            fun s => { s with children := s.children ++ [st.spans.length] })[j]? =
          if j = st.spans.length then some { mt := mt, values := vs, parent := some q }
          else if j = q then st.spans[j]?.map (fun s => { s with children := s.children ++ [st.spans.length] })
          else st.spans[j]? := by
        intro j
        rw [getElem?_modifyAt, List.getElem?_append]
        by_cases hj : j < st.spans.length
        · have : j ≠ st.spans.length := by omega
          simp [hj, this]
        · by_cases hj2 : j = st.spans.length
          · subst hj2
            have : ¬ st.spans.length = q := by omega
            simp [this]
          · have h3 : st.spans.length ≤ j := by omega
            have h4 : j ≠ q := by omega
            have : ([{ mt := mt, values := vs, parent := some q }] : List CapSpan)[j - st.spans.length]? = none := by
              apply List.getElem?_eq_none; simp; omega
            simp [hj, hj2, h4, this]
      constructor
      · simp [modifyAt_length]
      · rfl
      · rfl
      · intro q' hq'; cases hq'; exact hq
      · simp
      · intro j
        simp only [Storage.parentOf, key]
        by_cases hj2 : j = st.spans.length
        · simp [hj2]
        · by_cases hj3 : j = q
          · subst hj3; simp [hj2]; cases st.spans[j]? <;> simp
          · simp [hj2, hj3]
      · intro j
        simp only [Storage.childrenOf, key]
        by_cases hj2 : j = st.spans.length
        · subst hj2
          have : ¬ q = st.spans.length := by omega
          simp [this]
        · by_cases hj3 : j = q
          · subst hj3; simp [hj2]
            have hl : j < st.spans.length := hq
            simp [List.getElem?_eq_getElem hl]
          · have : ¬ q = j := fun h => hj3 h.symm
            simp [hj2, hj3, this]
      · intro j
        simp only [Storage.eventsOf, key]
        by_cases hj2 : j = st.spans.length
        · subst hj2; simp
        · by_cases hj3 : j = q
          · subst hj3; simp [hj2]; cases st.spans[j]? <;> simp
          · simp [hj2, hj3]
      · intro j
        simp only [Storage.followsOf, key]
        by_cases hj2 : j = st.spans.length
        · subst hj2; simp
        · by_cases hj3 : j = q
          · subst hj3; simp [hj2]; cases st.spans[j]? <;> simp
          · simp [hj2, hj3]
    · cases hp

structure PushEventView (st st' : Storage) (p : Option Nat) : Prop where
  len : st'.events.length = st.events.length + 1
  spansLen : st'.spans.length = st.spans.length
  rootSpans : st'.rootSpans = st.rootSpans
  plt : ∀ q, p = some q → q < st.spans.length
  rootEvents : st'.rootEvents = if p = none then st.rootEvents ++ [st.events.length] else st.rootEvents
  eventParent : ∀ j, st'.eventParent j = if j = st.events.length then p else st.eventParent j
  eventsOf : ∀ j, st'.eventsOf j = if p = some j then st.eventsOf j ++ [st.events.length] else st.eventsOf j
  parentOf : ∀ j, st'.parentOf j = st.parentOf j
  childrenOf : ∀ j, st'.childrenOf j = st.childrenOf j
  followsOf : ∀ j, st'.followsOf j = st.followsOf j

theorem eventParent_push (evs : List CapEvent) (e : CapEvent) (j : Nat) :
    ((evs ++ [e])[j]?).bind (·.parent) = if j = evs.length then e.parent else (evs[j]?).bind (·.parent) := by
  rw [List.getElem?_append]
  by_cases hj : j < evs.length
  · have : j ≠ evs.length := by omega
    simp [hj, this]
  · by_cases hj2 : j = evs.length
    · subst hj2; simp
    · have h3 : evs.length ≤ j := by omega
      have : ([e] : List CapEvent)[j - evs.length]? = none := by
        apply List.getElem?_eq_none; simp; omega
      simp [hj, hj2, this]

theorem pushEvent_view {mt : Nat} {vs : TVals} {p : Option Nat}
    (hp : st.pushEvent mt vs p = some st') : PushEventView st st' p := by
  unfold Storage.pushEvent at hp
  cases p with
  | none =>
    simp only [Option.some.injEq] at hp
    subst hp
    constructor
    · simp
    · rfl
    · rfl
    · intro q hq; cases hq
    · simp
    · intro j; simp only [Storage.eventParent, eventParent_push]
    · intro j; simp [Storage.eventsOf]
    · intro j; rfl
    · intro j; rfl
    · intro j; rfl
  | some q =>
    simp only at hp
    split at hp
    · rename_i hq
      simp only [Option.some.injEq] at hp
      subst hp
      constructor
      · simp
      · simp [modifyAt_length]
      · rfl
      · intro q' hq'; cases hq'; exact hq
      · simp
      · intro j; simp only [Storage.eventParent, eventParent_push]
      · intro j
        simp only [Storage.eventsOf, getElem?_modifyAt]
        by_cases hj3 : j = q
        · subst hj3
          have hl : j < st.spans.length := hq
          simp [List.getElem?_eq_getElem hl]
        · have : ¬ q = j := fun h => hj3 h.symm
          simp [hj3, this]
      · intro j
        simp only [Storage.parentOf, getElem?_modifyAt]
        split
        · cases st.spans[j]? <;> simp
        · rfl
      · intro j
        simp only [Storage.childrenOf, getElem?_modifyAt]
        split
        · cases st.spans[j]? <;> simp
        · rfl
      · intro j
        simp only [Storage.followsOf, getElem?_modifyAt]
        split
        · cases st.spans[j]? <;> simp
        · rfl
    · cases hp

/-- Everything `WF` talks about. -/
structure SameView (st st' : Storage) : Prop where
  spansLen : st'.spans.length = st.spans.length
  eventsLen : st'.events.length = st.events.length
  rootSpans : st'.rootSpans = st.rootSpans
  rootEvents : st'.rootEvents = st.rootEvents
  parentOf : ∀ j, st'.parentOf j = st.parentOf j
  childrenOf : ∀ j, st'.childrenOf j = st.childrenOf j
  eventsOf : ∀ j, st'.eventsOf j = st.eventsOf j
  eventParent : ∀ j, st'.eventParent j = st.eventParent j

theorem update_sameView {id : Nat} {f : CapSpan → CapSpan}
    (hf : ∀ s, (f s).parent = s.parent ∧ (f s).children = s.children ∧ (f s).events = s.events)
    (hu : st.update id f = some st') : SameView st st' := by
  unfold Storage.update at hu
  split at hu
  · simp only [Option.some.injEq] at hu
    subst hu
    constructor
    · simp [modifyAt_length]
    · rfl
    · rfl
    · rfl
    · intro j
      simp only [Storage.parentOf, getElem?_modifyAt]
      split
      · cases st.spans[j]? <;> simp [(hf _).1]
      · rfl
    · intro j
      simp only [Storage.childrenOf, getElem?_modifyAt]
      split
      · cases st.spans[j]? <;> simp [(hf _).2.1]
      · rfl
    · intro j
      simp only [Storage.eventsOf, getElem?_modifyAt]
      split
      · cases st.spans[j]? <;> simp [(hf _).2.2]
      · rfl
    · intro j; rfl
  · cases hu

theorem update_followsOf {id : Nat} {f : CapSpan → CapSpan} (hu : st.update id f = some st') (j : Nat) :
    st'.followsOf j = if j = id then ((st.spans[j]?).map fun s => (f s).follows).getD [] else st.followsOf j := by
  unfold Storage.update at hu
  split at hu
  · simp only [Option.some.injEq] at hu
    subst hu
    simp only [Storage.followsOf, getElem?_modifyAt]
    split
    · cases st.spans[j]? <;> simp
    · rfl
  · cases hu

theorem update_id_lt {id : Nat} {f : CapSpan → CapSpan} (hu : st.update id f = some st') :
    id < st.spans.length := by
  unfold Storage.update at hu
  split at hu
  · assumption
  · cases hu

end views

/-! ### Preservation of `WF` -/

theorem wf_empty : Storage.WF {} := by
  constructor <;> simp [parentOf, childrenOf, eventsOf, followsOf, eventParent]

theorem wf_of_sameView {st st' : Storage} (h : st.WF) (v : SameView st st')
    (hfol : ∀ i f, f ∈ st'.followsOf i → f < st'.spans.length) : st'.WF := by
  constructor
  · intro i p; rw [v.parentOf]; exact h.parent_lt i p
  · intro p c; rw [v.childrenOf, v.parentOf, v.spansLen]; exact h.child_iff p c
  · intro p; rw [v.childrenOf]; exact h.children_sorted p
  · rw [v.rootSpans, v.spansLen, h.roots]; simp only [v.parentOf]
  · intro j p; rw [v.eventParent, v.spansLen]; exact h.event_parent_lt j p
  · intro p j; rw [v.eventsOf, v.eventParent, v.eventsLen]; exact h.event_iff p j
  · intro p; rw [v.eventsOf]; exact h.events_sorted p
  · rw [v.rootEvents, v.eventsLen, h.rootEvents]; simp only [v.eventParent]
  · exact hfol

theorem wf_update {st st' : Storage} {id : Nat} {f : CapSpan → CapSpan} (h : st.WF)
    (hf : ∀ s, (f s).parent = s.parent ∧ (f s).children = s.children ∧ (f s).events = s.events ∧ (f s).follows = s.follows)
    (hu : st.update id f = some st') : st'.WF := by
  have v := update_sameView (fun s => ⟨(hf s).1, (hf s).2.1, (hf s).2.2.1⟩) hu
  apply wf_of_sameView h v
  intro i x hx
  rw [update_followsOf hu, v.spansLen] at *
  apply h.follows_lt i x
  split at hx
  · simp only [Storage.followsOf]
    cases hs : st.spans[i]? with
    | none => simp [hs] at hx
    | some s => simpa [hs, (hf s).2.2.2] using hx
  · exact hx

theorem wf_follows {st st' : Storage} {id fid : Nat} (h : st.WF) (hfid : fid < st.spans.length)
    (hu : st.update id (fun s => { s with follows := s.follows ++ [fid] }) = some st') : st'.WF := by
  have v := update_sameView (f := fun s => { s with follows := s.follows ++ [fid] }) (fun s => ⟨rfl, rfl, rfl⟩) hu
  apply wf_of_sameView h v
  intro i x hx
  rw [update_followsOf hu, v.spansLen] at *
  split at hx
  · cases hs : st.spans[i]? with
    | none => simp [hs] at hx
    | some s =>
      simp only [hs, Option.map_some, Option.getD_some, List.mem_append, List.mem_singleton] at hx
      rcases hx with hx | rfl
      · apply h.follows_lt i x; simp [Storage.followsOf, hs, hx]
      · exact hfid
  · exact h.follows_lt i x hx

theorem wf_pushSpan {st st' : Storage} {p : Option Nat} (h : st.WF) (v : PushSpanView st st' p) : st'.WF := by
  have hch : ∀ q c, c ∈ st.childrenOf q → c < st.spans.length := fun q c hc => ((h.child_iff q c).1 hc).1
  constructor
  · intro i q
    rw [v.parentOf]
    split
    · rename_i hi; subst hi; intro hq; exact v.plt q hq
    · exact h.parent_lt i q
  · intro q c
    rw [v.childrenOf, v.parentOf, v.len]
    by_cases hpq : p = some q
    · simp only [hpq, if_true, List.mem_append, List.mem_singleton]
      by_cases hc : c = st.spans.length
      · subst hc; simp
      · simp only [hc, if_false, or_false]
        rw [h.child_iff]
        constructor
        · rintro ⟨a, b⟩; exact ⟨by omega, b⟩
        · rintro ⟨a, b⟩; exact ⟨by omega, b⟩
    · simp only [hpq, if_false]
      by_cases hc : c = st.spans.length
      · subst hc
        simp only [if_true, hpq, and_false, iff_false]
        intro hc; have := hch q _ hc; omega
      · simp only [hc, if_false]
        rw [h.child_iff]
        constructor
        · rintro ⟨a, b⟩; exact ⟨by omega, b⟩
        · rintro ⟨a, b⟩; exact ⟨by omega, b⟩
  · intro q
    rw [v.childrenOf]
    split
    · rw [List.pairwise_append]
      refine ⟨h.children_sorted q, by simp, ?_⟩
      intro a ha b hb
      simp only [List.mem_singleton] at hb
      subst hb; exact hch q a ha
    · exact h.children_sorted q
  · rw [v.rootSpans, v.len, List.range_succ, List.filter_append]
    have e1 : (List.range st.spans.length).filter (fun i => (st'.parentOf i).isNone) = st.rootSpans := by
      rw [h.roots]
      apply List.filter_congr
      intro x hx
      have : x ≠ st.spans.length := by have := List.mem_range.1 hx; omega
      rw [v.parentOf]; simp [this]
    rw [e1]
    cases p with
    | none => simp [v.parentOf]
    | some q => simp [v.parentOf]
  · intro j q; rw [v.len]
    have : st'.eventParent j = st.eventParent j := by simp [Storage.eventParent, v.events]
    rw [this]; intro hq; have := h.event_parent_lt j q hq; omega
  · intro q j
    have : st'.eventParent j = st.eventParent j := by simp [Storage.eventParent, v.events]
    rw [this, v.eventsOf, v.events]; exact h.event_iff q j
  · intro q; rw [v.eventsOf]; exact h.events_sorted q
  · rw [v.rootEvents, v.events, h.rootEvents]
    simp [Storage.eventParent, v.events]
  · intro i f; rw [v.followsOf, v.len]; intro hf; have := h.follows_lt i f hf; omega

theorem wf_pushEvent {st st' : Storage} {p : Option Nat} (h : st.WF) (v : PushEventView st st' p) : st'.WF := by
  have hch : ∀ q c, c ∈ st.eventsOf q → c < st.events.length := fun q c hc => ((h.event_iff q c).1 hc).1
  constructor
  · intro i q; rw [v.parentOf]; exact h.parent_lt i q
  · intro q c; rw [v.childrenOf, v.parentOf, v.spansLen]; exact h.child_iff q c
  · intro q; rw [v.childrenOf]; exact h.children_sorted q
  · rw [v.rootSpans, v.spansLen, h.roots]; simp only [v.parentOf]
  · intro j q
    rw [v.eventParent, v.spansLen]
    split
    · exact v.plt q
    · exact h.event_parent_lt j q
  · intro q c
    rw [v.eventsOf, v.eventParent, v.len]
    by_cases hpq : p = some q
    · simp only [hpq, if_true, List.mem_append, List.mem_singleton]
      by_cases hc : c = st.events.length
      · subst hc; simp
      · simp only [hc, if_false, or_false]
        rw [h.event_iff]
        constructor
        · rintro ⟨a, b⟩; exact ⟨by omega, b⟩
        · rintro ⟨a, b⟩; exact ⟨by omega, b⟩
    · simp only [hpq, if_false]
      by_cases hc : c = st.events.length
      · subst hc
        simp only [if_true, hpq, and_false, iff_false]
        intro hc; have := hch q _ hc; omega
      · simp only [hc, if_false]
        rw [h.event_iff]
        constructor
        · rintro ⟨a, b⟩; exact ⟨by omega, b⟩
        · rintro ⟨a, b⟩; exact ⟨by omega, b⟩
  · intro q
    rw [v.eventsOf]
    split
    · rw [List.pairwise_append]
      refine ⟨h.events_sorted q, by simp, ?_⟩
      intro a ha b hb
      simp only [List.mem_singleton] at hb
      subst hb; exact hch q a ha
    · exact h.events_sorted q
  · rw [v.rootEvents, v.len, List.range_succ, List.filter_append]
    have e1 : (List.range st.events.length).filter (fun i => (st'.eventParent i).isNone) = st.rootEvents := by
      rw [h.rootEvents]
      apply List.filter_congr
      intro x hx
      have : x ≠ st.events.length := by have := List.mem_range.1 hx; omega
      rw [v.eventParent]; simp [this]
    rw [e1]
    cases p with
    | none => simp [v.eventParent]
    | some q => simp [v.eventParent]
  · intro i f; rw [v.followsOf, v.spansLen]; exact h.follows_lt i f


/-! ## The layered subscriber keeps every storage well-formed -/

/-! ### `AMap` -/

theorem amap_get_insert_forest {κ α : Type} [DecidableEq κ] (m : AMap κ α) (k k' : κ) (v : α) :
    (AMap.insert m k v).get k' = if k' = k then some v else m.get k' := by
  induction m with
  | nil =>
    by_cases h : k = k'
    · subst h; simp [AMap.insert, AMap.get]
    · have : ¬ k' = k := fun e => h e.symm
      simp [AMap.insert, AMap.get, h, this]
  | cons kv rest ih =>
    obtain ⟨k0, v0⟩ := kv
    simp only [AMap.insert]
    split
    · rename_i h; subst h
      simp only [AMap.get]
      by_cases h : k0 = k'
      · subst h; simp
      · have : ¬ k' = k0 := fun e => h e.symm
        simp [h, this]
    · rename_i h
      simp only [AMap.get, ih]
      by_cases h2 : k0 = k'
      · subst h2; simp [h]
      · simp [h2]

theorem amap_get_erase_forest {κ α : Type} [DecidableEq κ] (m : AMap κ α) (k k' : κ) :
    (AMap.erase m k).get k' = if k' = k then none else m.get k' := by
  induction m with
  | nil => simp [AMap.erase, AMap.get]
  | cons kv rest ih =>
    obtain ⟨k0, v0⟩ := kv
    simp only [AMap.erase]
    split
    · rename_i h; subst h
      rw [ih]
      by_cases h : k' = k0
      · simp [h]
      · have : ¬ k0 = k' := fun e => h e.symm
        simp [AMap.get, h, this]
    · rename_i h
      simp only [AMap.get, ih]
      by_cases h2 : k0 = k'
      · subst h2; simp [h]
      · simp [h2]

/-! ### The invariant of the layered subscriber -/

def ExtOK (spans : AMap Nat RegSpan) (sts : List Storage) : Prop :=
  ∀ id s i c, spans.get id = some s → s.ext.get i = some c → c < (sts.getD i {}).spans.length

structure CapInv (N : Nat) (w : CapWorld) : Prop where
  wf : ∀ st ∈ w.storages, st.WF
  ext : ExtOK w.reg.spans w.storages
  flen : w.filters.length = N
  slen : w.storages.length = N

theorem ExtOK.insert {spans : AMap Nat RegSpan} {sts : List Storage} (h : ExtOK spans sts) (id : Nat) (s' : RegSpan)
    (hs' : ∀ i c, s'.ext.get i = some c → c < (sts.getD i {}).spans.length) :
    ExtOK (AMap.insert spans id s') sts := by
  intro id' s i c hget hext
  rw [amap_get_insert_forest] at hget
  split at hget
  · cases hget; exact hs' i c hext
  · exact h id' s i c hget hext

theorem ExtOK.insert_same {spans : AMap Nat RegSpan} {sts : List Storage} (h : ExtOK spans sts) (id : Nat) (s s' : RegSpan)
    (hs : spans.get id = some s) (he : s'.ext = s.ext) :
    ExtOK (AMap.insert spans id s') sts :=
  h.insert id s' (fun i c hc => h id s i c hs (he ▸ hc))

theorem ExtOK.erase {spans : AMap Nat RegSpan} {sts : List Storage} (h : ExtOK spans sts) (id : Nat) :
    ExtOK (AMap.erase spans id) sts := by
  intro id' s i c hget hext
  rw [amap_get_erase_forest] at hget
  split at hget
  · cases hget
  · exact h id' s i c hget hext

theorem CapInv.panic {N : Nat} {w : CapWorld} (h : CapInv N w) : CapInv N (panic w) :=
  ⟨h.wf, h.ext, h.flen, h.slen⟩

theorem CapInv.withReg {N : Nat} {w : CapWorld} (h : CapInv N w) (reg : Reg) (he : ExtOK reg.spans w.storages) :
    CapInv N { w with reg := reg } :=
  ⟨h.wf, he, h.flen, h.slen⟩

theorem CapInv.getD_wf {N : Nat} {w : CapWorld} (h : CapInv N w) (i : Nat) : (w.storages.getD i {}).WF := by
  rw [List.getD_eq_getElem?_getD]
  cases hi : w.storages[i]? with
  | none => exact wf_empty
  | some st => exact h.wf st (List.mem_of_getElem? hi)

theorem getD_set_storage (sts : List Storage) (i j : Nat) (st : Storage) (hi : i < sts.length) :
    (sts.set i st).getD j {} = if j = i then st else sts.getD j {} := by
  simp only [List.getD_eq_getElem?_getD, List.getElem?_set]
  by_cases h : i = j
  · subst h; simp [hi]
  · have : ¬ j = i := fun e => h e.symm
    simp [h, this]

theorem CapInv.setStorage {N : Nat} {w : CapWorld} (h : CapInv N w) {i : Nat} (hi : i < N) {st' : Storage}
    (hwf : st'.WF) (hlen : (w.storages.getD i {}).spans.length ≤ st'.spans.length) :
    CapInv N (setStorage w i st') := by
  have hi' : i < w.storages.length := h.slen ▸ hi
  refine ⟨?_, ?_, h.flen, ?_⟩
  · intro st hst
    rcases List.mem_or_eq_of_mem_set hst with h1 | h1
    · exact h.wf st h1
    · exact h1 ▸ hwf
  · intro id s j c hget hext
    have := h.ext id s j c hget hext
    show c < ((w.storages.set i st').getD j {}).spans.length
    rw [getD_set_storage _ _ _ _ hi']
    split
    · rename_i hj; subst hj; omega
    · exact this
  · show (w.storages.set i st').length = N
    simp [h.slen]

theorem setStorage_getD {N : Nat} {w : CapWorld} (h : CapInv N w) {i : Nat} (hi : i < N) (st' : Storage) :
    ((setStorage w i st').storages.getD i {}) = st' := by
  have hi' : i < w.storages.length := h.slen ▸ hi
  show (w.storages.set i st').getD i {} = st'
  rw [getD_set_storage _ _ _ _ hi']; simp

theorem forLayers_inv {P : CapWorld → Prop} {N : Nat} (f : CapWorld → Nat → LFilter → CapWorld)
    (hf : ∀ w i flt, P w → i < N → P (f w i flt)) (w : CapWorld) (hw : P w) (hN : w.filters.length = N) :
    P (forLayers w f) := by
  unfold forLayers
  have hmem : ∀ x ∈ w.filters.zipIdx, x.2 < N := by
    intro x hx
    obtain ⟨flt, i⟩ := x
    have := (List.mem_zipIdx' hx).1
    simpa [hN] using this
  generalize w.filters.zipIdx = l at hmem
  clear hN
  induction l generalizing w with
  | nil => exact hw
  | cons x l ih =>
    obtain ⟨flt, i⟩ := x
    simp only [List.foldl_cons]
    apply ih
    · split
      · exact hw
      · exact hf _ _ _ hw (hmem (flt, i) (List.mem_cons_self))
    · intro y hy; exact hmem y (List.mem_cons_of_mem _ hy)

theorem update_len_le {st st' : Storage} {id : Nat} {f : CapSpan → CapSpan} (hu : st.update id f = some st') :
    st.spans.length ≤ st'.spans.length := by
  unfold Storage.update at hu
  split at hu
  · simp only [Option.some.injEq] at hu; subst hu; simp [modifyAt_length]
  · cases hu

theorem notifySpan_inv {N : Nat} {w : CapWorld} (h : CapInv N w) (id : Nat) (f : CapSpan → CapSpan)
    (hf : ∀ s, (f s).parent = s.parent ∧ (f s).children = s.children ∧ (f s).events = s.events ∧ (f s).follows = s.follows) :
    CapInv N (notifySpan w id f) := by
  unfold notifySpan
  apply forLayers_inv (P := CapInv N) (N := N) _ _ w h h.flen
  intro w i flt hw hi
  split
  · exact hw.panic
  · exact hw
  · split
    · rename_i st hu
      exact hw.setStorage hi (wf_update (hw.getD_wf i) hf hu) (update_len_le hu)
    · exact hw.panic

theorem tryCloseFuel_inv {N : Nat} (fuel : Nat) : ∀ (w : CapWorld) (id : Nat), CapInv N w → CapInv N (tryCloseFuel fuel w id) := by
  induction fuel with
  | zero => intro w id h; exact h
  | succ fuel ih =>
    intro w id h
    unfold tryCloseFuel
    split
    · exact h.panic
    · rename_i s hs
      split
      · exact h.withReg _ (h.ext.insert_same id s _ hs rfl)
      · have h1 : CapInv N { w with reg := { w.reg with spans := AMap.insert w.reg.spans id { s with refs := 0 } } } :=
          h.withReg _ (h.ext.insert_same id s _ hs rfl)
        have h2 := notifySpan_inv h1 id (fun cs => { cs with closed := true }) (fun s => ⟨rfl, rfl, rfl, rfl⟩)
        have h3 := h2.withReg { (notifySpan { w with reg := { w.reg with spans := AMap.insert w.reg.spans id { s with refs := 0 } } } id
            (fun cs => { cs with closed := true })).reg with spans := AMap.erase (notifySpan { w with reg := { w.reg with spans := AMap.insert w.reg.spans id { s with refs := 0 } } } id
            (fun cs => { cs with closed := true })).reg.spans id } (h2.ext.erase id)
        dsimp only
        split
        · exact h3
        · split
          · exact h3
          · exact ih _ _ h3

/-! ### Subscribers preserving a predicate -/

structure SubPreserves {σ : Type} (S : Subscriber σ) (P : σ → Prop) : Prop where
  register : ∀ w k s, P w → P (S.register w k s)
  newSpan : ∀ w k s p f, P w → P (S.newSpan w k s p f).1
  record : ∀ w id f, P w → P (S.record w id f)
  follows : ∀ w a b, P w → P (S.follows w a b)
  enter : ∀ w id, P w → P (S.enter w id)
  exit : ∀ w id, P w → P (S.exit w id)
  clone : ∀ w id, P w → P (S.clone w id)
  tryClose : ∀ w id, P w → P (S.tryClose w id)
  event : ∀ w k s p f, P w → P (S.event w k s p f)

theorem ensureRegistered_preserves {σ : Type} {S : Subscriber σ} {P : σ → Prop} (hS : SubPreserves S P)
    (sites : List CallSite) (fe : FE σ) (k : Nat) (h : P fe.sub) : P (ensureRegistered S sites fe k).sub := by
  unfold ensureRegistered
  split
  · exact h
  · exact hS.register _ _ _ h

theorem feStep_preserves {σ : Type} {S : Subscriber σ} {P : σ → Prop} (hS : SubPreserves S P)
    (sites : List CallSite) (fe : FE σ) (op : POp) (h : P fe.sub) : P (feStep S sites fe op).sub := by
  cases op with
  | reg k => exact hS.register _ _ _ h
  | new k p vals =>
    simp only [feStep]
    have h1 := ensureRegistered_preserves hS sites fe k h
    split
    · exact hS.newSpan _ _ _ _ _ h1
    · exact h1
  | record s vals =>
    simp only [feStep]
    split
    · exact hS.record _ _ _ h
    · exact h
  | fol s t =>
    simp only [feStep]
    split
    · exact hS.follows _ _ _ h
    · exact h
  | ent s =>
    simp only [feStep]
    split
    · exact hS.enter _ _ h
    · exact h
  | ext s =>
    simp only [feStep]
    split
    · exact hS.exit _ _ h
    · exact h
  | cln s =>
    simp only [feStep]
    split
    · exact hS.clone _ _ h
    · exact h
  | drp s =>
    simp only [feStep]
    split
    · exact hS.tryClose _ _ h
    · exact h
  | evt k p vals =>
    simp only [feStep]
    have h1 := ensureRegistered_preserves hS sites fe k h
    split
    · exact hS.event _ _ _ _ _ h1
    · exact h1

theorem runProg_preserves {σ : Type} {S : Subscriber σ} {P : σ → Prop} (hS : SubPreserves S P)
    (sites : List CallSite) (ops : List POp) : ∀ (fe : FE σ), P fe.sub → P (runProg S sites fe ops).sub := by
  unfold runProg
  induction ops with
  | nil => intro fe h; exact h
  | cons op ops ih =>
    intro fe h
    simp only [List.foldl_cons]
    exact ih _ (feStep_preserves hS sites fe op h)

theorem cloneSpan_ext {reg reg' : Reg} {sts : List Storage} {id : Nat} (h : ExtOK reg.spans sts)
    (hc : reg.cloneSpan id = some reg') : ExtOK reg'.spans sts := by
  unfold Reg.cloneSpan at hc
  split at hc
  · rename_i s hs
    simp only [Option.some.injEq] at hc; subst hc
    exact h.insert_same id s _ hs rfl
  · cases hc

theorem tryClose_inv {N : Nat} {w : CapWorld} (h : CapInv N w) (id : Nat) : CapInv N (w.tryClose id) :=
  tryCloseFuel_inv _ w id h

theorem capSub_newSpan_inv {N : Nat} (tid : Nat) (w : CapWorld) (k : Nat) (site : CallSite) (p : SParent) (fields : Fields)
    (h : CapInv N w) : CapInv N ((capSub tid).newSpan w k site p fields).1 := by
  simp only [capSub]
  split
  · exact h.panic
  · rename_i reg hreg
    have hreg' : ExtOK reg.spans w.storages := by
      split at hreg
      · simp only [Option.some.injEq] at hreg; subst hreg; exact h.ext
      · exact cloneSpan_ext h.ext hreg
    dsimp only
    apply forLayers_inv (P := CapInv N) (N := N)
    · intro w i flt hw hi
      split
      · exact hw
      · split
        · exact hw.panic
        · rename_i st c hpush
          obtain ⟨hc, v⟩ := pushSpan_view hpush
          have hw1 := hw.setStorage hi (wf_pushSpan (hw.getD_wf i) v) (by rw [v.len]; omega)
          split
          · exact hw1.panic
          · rename_i s hs
            apply hw1.withReg
            apply hw1.ext.insert
            intro j c' hc'
            rw [amap_get_insert_forest] at hc'
            split at hc'
            · rename_i hj; subst hj
              simp only [Option.some.injEq] at hc'; subst hc'
              rw [setStorage_getD hw hi, v.len, hc]; omega
            · exact hw1.ext _ s j c' hs hc'
    · apply h.withReg
      apply hreg'.insert
      intro i c hc
      simp [AMap.get] at hc
    · exact h.flen

theorem capSub_preserves (tid N : Nat) : SubPreserves (capSub tid) (CapInv N) := by
  constructor
  · intro w k s h; exact h
  · intro w k s p f h; exact capSub_newSpan_inv tid w k s p f h
  · intro w id f h
    simp only [capSub]
    split
    · exact h
    · refine notifySpan_inv h _ _ ?_
      intro s; exact ⟨rfl, rfl, rfl, rfl⟩
  · intro w a b h
    simp only [capSub]
    split
    · exact h
    · apply forLayers_inv (P := CapInv N) (N := N) _ _ w h h.flen
      intro w i flt hw hi
      split
      · exact hw.panic
      · split
        · exact hw
        · split
          · rename_i ca cb hca hcb
            split
            · rename_i st hu
              refine hw.setStorage hi (wf_follows (hw.getD_wf i) ?_ hu) (update_len_le hu)
              unfold capturedOf at hcb
              cases hg : w.reg.spans.get b with
              | none => simp [hg] at hcb
              | some s =>
                simp only [hg, Option.map_some, Option.some.injEq] at hcb
                exact hw.ext b s i cb hg hcb
            · exact hw.panic
          · exact hw
  · intro w id h
    simp only [capSub]
    split
    · exact h
    · split
      · exact h.panic
      · rename_i reg hreg
        refine notifySpan_inv ?_ _ _ ?_
        rotate_left
        · intro s; exact ⟨rfl, rfl, rfl, rfl⟩
        apply h.withReg
        split at hreg
        · simp only [Option.some.injEq] at hreg; subst hreg; exact h.ext
        · refine cloneSpan_ext ?_ hreg
          exact h.ext
  · intro w id h
    simp only [capSub]
    split
    · exact h
    · have h0 : CapInv N { w with reg := { w.reg with stacks := AMap.insert w.reg.stacks tid (stackPop (w.reg.stack tid) id) } } :=
        h.withReg _ h.ext
      generalize { w with reg := { w.reg with stacks := AMap.insert w.reg.stacks tid (stackPop (w.reg.stack tid) id) } } = w0 at h0
      split
      · have h1 := tryClose_inv h0 id
        split
        · exact h1
        · refine notifySpan_inv h1 _ _ ?_
          intro s; exact ⟨rfl, rfl, rfl, rfl⟩
      · split
        · exact h0
        · refine notifySpan_inv h0 _ _ ?_
          intro s; exact ⟨rfl, rfl, rfl, rfl⟩
  · intro w id h
    simp only [capSub]
    split
    · exact h
    · split
      · rename_i reg hreg
        exact h.withReg _ (cloneSpan_ext h.ext hreg)
      · exact h.panic
  · intro w id h
    simp only [capSub]
    split
    · exact h
    · exact tryClose_inv h id
  · intro w k s p f h
    simp only [capSub]
    split
    · exact h
    · apply forLayers_inv (P := CapInv N) (N := N) _ _ w h h.flen
      intro w i flt hw hi
      split
      · exact hw
      · split
        · rename_i st hpush
          have v := pushEvent_view hpush
          exact hw.setStorage hi (wf_pushEvent (hw.getD_wf i) v) (by rw [v.spansLen]; omega)
        · exact hw.panic

theorem init_inv (filters : List LFilter) (global : Option Nat) :
    CapInv filters.length (CapWorld.init filters global) := by
  refine ⟨?_, ?_, rfl, ?_⟩
  · intro st hst
    simp only [CapWorld.init, List.mem_map] at hst
    obtain ⟨_, _, rfl⟩ := hst
    exact wf_empty
  · intro id s i c hget
    simp [CapWorld.init, AMap.get] at hget
  · simp [CapWorld.init]

theorem wf_reachable (filters : List LFilter) (global : Option Nat) (sites : List CallSite) (ops : List POp) :
    ∀ st ∈ (captureRun filters global sites ops).storages, st.WF := by
  unfold captureRun
  exact (runProg_preserves (capSub_preserves 0 filters.length) sites ops _ (init_inv filters global)).wf


/-! ## Query laws -/

/-! ### Roots -/

theorem roots_laws (st : Storage) (h : st.WF) :
    (∀ i, i ∈ st.rootSpans ↔ (i < st.spans.length ∧ st.parentOf i = none)) ∧
    (∀ j, j ∈ st.rootEvents ↔ (j < st.events.length ∧ st.eventParent j = none)) ∧
    st.rootSpans.Pairwise (· < ·) ∧ st.rootEvents.Pairwise (· < ·) := by
  refine ⟨?_, ?_, ?_, ?_⟩
  · intro i; rw [h.roots]; simp [List.mem_filter]
  · intro j; rw [h.rootEvents]; simp [List.mem_filter]
  · rw [h.roots]; exact List.Pairwise.filter _ List.pairwise_lt_range
  · rw [h.rootEvents]; exact List.Pairwise.filter _ List.pairwise_lt_range

/-! ### Ancestors -/

theorem ancestorsFuel_none (st : Storage) (fuel : Nat) : st.ancestorsFuel fuel none = [] := by
  cases fuel <;> rfl

theorem ancestorsFuel_indep (st : Storage) (h : st.WF) :
    ∀ (f1 f2 : Nat) (o : Option Nat), (∀ p, o = some p → p < f1) → (∀ p, o = some p → p < f2) →
      st.ancestorsFuel f1 o = st.ancestorsFuel f2 o := by
  intro f1
  induction f1 with
  | zero =>
    intro f2 o h1 _
    cases o with
    | none => simp [ancestorsFuel_none]
    | some p => exact absurd (h1 p rfl) (Nat.not_lt_zero _)
  | succ f1 ih =>
    intro f2 o h1 h2
    cases o with
    | none => simp [ancestorsFuel_none]
    | some p =>
      cases f2 with
      | zero => exact absurd (h2 p rfl) (Nat.not_lt_zero _)
      | succ f2 =>
        simp only [ancestorsFuel]
        congr 1
        apply ih
        · intro q hq; have := h.parent_lt p q hq; have := h1 p rfl; omega
        · intro q hq; have := h.parent_lt p q hq; have := h2 p rfl; omega

theorem ancestors_unfold (st : Storage) (h : st.WF) (i : Nat) :
    st.ancestors i = match st.parentOf i with
      | none => []
      | some p => p :: st.ancestors p := by
  unfold ancestors
  cases hp : st.parentOf i with
  | none => simp [ancestorsFuel_none]
  | some p =>
    simp only [ancestorsFuel]
    congr 1
    have hpi := h.parent_lt i p hp
    apply ancestorsFuel_indep st h
    · intro q hq; have := h.parent_lt p q hq; omega
    · intro q hq; have := h.parent_lt p q hq; omega

theorem ancestors_of_none (st : Storage) (h : st.WF) {i : Nat} (hp : st.parentOf i = none) :
    st.ancestors i = [] := by
  rw [ancestors_unfold st h, hp]

theorem ancestors_of_some (st : Storage) (h : st.WF) {i p : Nat} (hp : st.parentOf i = some p) :
    st.ancestors i = p :: st.ancestors p := by
  rw [ancestors_unfold st h, hp]

theorem ancestors_lt (st : Storage) (h : st.WF) : ∀ i x, x ∈ st.ancestors i → x < i := by
  intro i
  induction i using Nat.strongRecOn with
  | _ i ih =>
    intro x hx
    cases hp : st.parentOf i with
    | none => rw [ancestors_of_none st h hp] at hx; cases hx
    | some p =>
      have hpi := h.parent_lt i p hp
      rw [ancestors_of_some st h hp] at hx
      rcases List.mem_cons.1 hx with rfl | hx
      · exact hpi
      · have := ih p hpi x hx; omega

theorem ancestors_pairwise (st : Storage) (h : st.WF) : ∀ i, (st.ancestors i).Pairwise (· > ·) := by
  intro i
  induction i using Nat.strongRecOn with
  | _ i ih =>
    cases hp : st.parentOf i with
    | none => rw [ancestors_of_none st h hp]; exact List.Pairwise.nil
    | some p =>
      have hpi := h.parent_lt i p hp
      rw [ancestors_of_some st h hp]
      exact List.Pairwise.cons (fun x hx => ancestors_lt st h p x hx) (ih p hpi)

theorem ancestors_last (st : Storage) (h : st.WF) : ∀ i hne,
    st.parentOf ((i :: st.ancestors i).getLast hne) = none := by
  intro i
  induction i using Nat.strongRecOn with
  | _ i ih =>
    intro hne
    cases hp : st.parentOf i with
    | none =>
      have : (i :: st.ancestors i) = [i] := by rw [ancestors_of_none st h hp]
      simp only [this, List.getLast_singleton]; exact hp
    | some p =>
      have hpi := h.parent_lt i p hp
      have : (i :: st.ancestors i) = i :: p :: st.ancestors p := by rw [ancestors_of_some st h hp]
      simp only [this, List.getLast_cons_cons]
      exact ih p hpi _

/-- Transitivity of the ancestor relation. -/
theorem ancestors_trans (st : Storage) (h : st.WF) : ∀ t c x, c ∈ st.ancestors t → x ∈ st.ancestors c → x ∈ st.ancestors t := by
  intro t
  induction t using Nat.strongRecOn with
  | _ t ih =>
    intro c x hc hx
    cases hp : st.parentOf t with
    | none => rw [ancestors_of_none st h hp] at hc; cases hc
    | some p =>
      have hpt := h.parent_lt t p hp
      rw [ancestors_of_some st h hp] at hc ⊢
      rcases List.mem_cons.1 hc with rfl | hc
      · exact List.mem_cons_of_mem _ hx
      · exact List.mem_cons_of_mem _ (ih p hpt c x hc hx)

theorem parent_mem_ancestors (st : Storage) (h : st.WF) {c p : Nat} (hp : st.parentOf c = some p) :
    p ∈ st.ancestors c := by
  rw [ancestors_of_some st h hp]; exact List.mem_cons_self

/-- Top-down unfolding of the ancestor relation. -/
theorem ancestors_topdown (st : Storage) (h : st.WF) (c : Nat) : ∀ t,
    c ∈ st.ancestors t ↔ (st.parentOf t = some c ∨ ∃ c', st.parentOf c' = some c ∧ c' ∈ st.ancestors t) := by
  intro t
  constructor
  · induction t using Nat.strongRecOn with
    | _ t ih =>
      intro hc
      cases hp : st.parentOf t with
      | none => rw [ancestors_of_none st h hp] at hc; cases hc
      | some p =>
        have hpt := h.parent_lt t p hp
        rw [ancestors_of_some st h hp] at hc
        rcases List.mem_cons.1 hc with rfl | hc
        · exact Or.inl rfl
        · right
          rcases ih p hpt hc with h1 | ⟨c', h1, h2⟩
          · exact ⟨p, h1, parent_mem_ancestors st h hp⟩
          · exact ⟨c', h1, ancestors_trans st h t p c' (parent_mem_ancestors st h hp) h2⟩
  · rintro (h1 | ⟨c', h1, h2⟩)
    · exact parent_mem_ancestors st h h1
    · exact ancestors_trans st h t c' c h2 (parent_mem_ancestors st h h1)

/-- Two ancestors of one span are comparable. -/
theorem ancestors_linear (st : Storage) (h : st.WF) : ∀ t a b, a ∈ st.ancestors t → b ∈ st.ancestors t →
    a = b ∨ a ∈ st.ancestors b ∨ b ∈ st.ancestors a := by
  intro t
  induction t using Nat.strongRecOn with
  | _ t ih =>
    intro a b ha hb
    cases hp : st.parentOf t with
    | none => rw [ancestors_of_none st h hp] at ha; cases ha
    | some p =>
      have hpt := h.parent_lt t p hp
      rw [ancestors_of_some st h hp] at ha hb
      rcases List.mem_cons.1 ha with rfl | ha <;> rcases List.mem_cons.1 hb with rfl | hb
      · exact Or.inl rfl
      · exact Or.inr (Or.inr hb)
      · exact Or.inr (Or.inl ha)
      · exact ih p hpt a b ha hb

theorem not_mem_ancestors_self (st : Storage) (h : st.WF) (i : Nat) : i ∉ st.ancestors i :=
  fun hi => Nat.lt_irrefl _ (ancestors_lt st h i i hi)

theorem ancestors_congr (st : Storage) (h : st.WF) {a b : Nat} (hab : st.parentOf a = st.parentOf b) :
    st.ancestors a = st.ancestors b := by
  rw [ancestors_unfold st h a, ancestors_unfold st h b, hab]

/-! ### Sibling lists and the pre-order traversal -/

/-- Sorted lists of valid spans with a common parent. -/
def Sib (st : Storage) (l : List Nat) : Prop :=
  l.Pairwise (· < ·) ∧ ∃ q, ∀ x ∈ l, x < st.spans.length ∧ st.parentOf x = q

theorem sib_nil (st : Storage) : Sib st [] := ⟨List.Pairwise.nil, none, fun _ hx => by cases hx⟩

theorem sib_children (st : Storage) (h : st.WF) (c : Nat) : Sib st (st.childrenOf c) :=
  ⟨h.children_sorted c, some c, fun x hx => (h.child_iff c x).1 hx⟩

theorem Sib.tail {st : Storage} {c : Nat} {cs : List Nat} (hs : Sib st (c :: cs)) : Sib st cs := by
  obtain ⟨h1, q, h2⟩ := hs
  exact ⟨(List.pairwise_cons.1 h1).2, q, fun x hx => h2 x (List.mem_cons_of_mem _ hx)⟩

theorem Sib.head_lt {st : Storage} {c : Nat} {cs : List Nat} (hs : Sib st (c :: cs)) : c < st.spans.length := by
  obtain ⟨_, q, h2⟩ := hs
  exact (h2 c List.mem_cons_self).1

theorem Sib.lt_tail {st : Storage} {c : Nat} {cs : List Nat} (hs : Sib st (c :: cs)) : ∀ x ∈ cs, c < x :=
  (List.pairwise_cons.1 hs.1).1

theorem Sib.parent_eq {st : Storage} {l : List Nat} (hs : Sib st l) {a b : Nat} (ha : a ∈ l) (hb : b ∈ l) :
    st.parentOf a = st.parentOf b := by
  obtain ⟨_, q, h2⟩ := hs
  rw [(h2 a ha).2, (h2 b hb).2]

theorem children_gt (st : Storage) (h : st.WF) (c : Nat) : ∀ x ∈ st.childrenOf c, c < x :=
  fun x hx => h.parent_lt x c ((h.child_iff c x).1 hx).2

theorem sib_induction (st : Storage) (h : st.WF) (Q : List Nat → Prop) (nil : Q [])
    (cons : ∀ c cs, Sib st (c :: cs) → Q (st.childrenOf c) → Q cs → Q (c :: cs)) :
    ∀ l, Sib st l → Q l := by
  have main : ∀ k lo l, Sib st l → (∀ x ∈ l, lo ≤ x) → st.spans.length - lo ≤ k → Q l := by
    intro k
    induction k with
    | zero =>
      intro lo l hs hlo hk
      cases l with
      | nil => exact nil
      | cons c cs =>
        have := hs.head_lt; have := hlo c List.mem_cons_self; omega
    | succ k ih =>
      intro lo l hs hlo hk
      cases l with
      | nil => exact nil
      | cons c cs =>
        have h1 := hs.head_lt
        have h2 := hlo c List.mem_cons_self
        apply cons c cs hs
        · exact ih (c + 1) _ (sib_children st h c) (fun x hx => children_gt st h c x hx) (by omega)
        · exact ih (c + 1) _ hs.tail (fun x hx => hs.lt_tail x hx) (by omega)
  intro l hs
  exact main st.spans.length 0 l hs (fun _ _ => Nat.zero_le _) (by omega)

theorem preorderFuel_nil (st : Storage) (fuel : Nat) : st.preorderFuel fuel [] = [] := by
  cases fuel <;> rfl

theorem preorderFuel_indep (st : Storage) (h : st.WF) : ∀ (f1 f2 lo : Nat) (l : List Nat), Sib st l → (∀ x ∈ l, lo ≤ x) →
    st.spans.length - lo ≤ f1 → st.spans.length - lo ≤ f2 → st.preorderFuel f1 l = st.preorderFuel f2 l := by
  intro f1
  induction f1 with
  | zero =>
    intro f2 lo l hs hlo h1 _
    cases l with
    | nil => simp [preorderFuel_nil]
    | cons c cs => have := hs.head_lt; have := hlo c List.mem_cons_self; omega
  | succ f1 ih =>
    intro f2 lo l hs hlo h1 h2
    cases l with
    | nil => simp [preorderFuel_nil]
    | cons c cs =>
      have h3 := hs.head_lt
      have h4 := hlo c List.mem_cons_self
      cases f2 with
      | zero => omega
      | succ f2 =>
        simp only [preorderFuel]
        congr 2
        · exact ih f2 (c + 1) _ (sib_children st h c) (fun x hx => children_gt st h c x hx) (by omega) (by omega)
        · exact ih f2 (c + 1) _ hs.tail (fun x hx => hs.lt_tail x hx) (by omega) (by omega)

/-- The traversal with the fuel of `preorder`. -/
def pre (st : Storage) (l : List Nat) : List Nat := st.preorderFuel (st.spans.length + 1) l

theorem pre_nil (st : Storage) : pre st [] = [] := rfl

theorem pre_cons (st : Storage) (h : st.WF) {c : Nat} {cs : List Nat} (hs : Sib st (c :: cs)) :
    pre st (c :: cs) = c :: (pre st (st.childrenOf c) ++ pre st cs) := by
  unfold pre
  simp only [preorderFuel]
  have h3 := hs.head_lt
  congr 2
  · exact preorderFuel_indep st h _ _ (c + 1) _ (sib_children st h c) (fun x hx => children_gt st h c x hx) (by omega) (by omega)
  · exact preorderFuel_indep st h _ _ (c + 1) _ hs.tail (fun x hx => hs.lt_tail x hx) (by omega) (by omega)

theorem desc_iff (st : Storage) (h : st.WF) (c t : Nat) :
    (t < st.spans.length ∧ (t ∈ st.childrenOf c ∨ ∃ c' ∈ st.childrenOf c, c' ∈ st.ancestors t)) ↔
      (t < st.spans.length ∧ c ∈ st.ancestors t) := by
  constructor
  · rintro ⟨ht, h1 | ⟨c', h1, h2⟩⟩
    · exact ⟨ht, (ancestors_topdown st h c t).2 (Or.inl ((h.child_iff c t).1 h1).2)⟩
    · exact ⟨ht, (ancestors_topdown st h c t).2 (Or.inr ⟨c', ((h.child_iff c c').1 h1).2, h2⟩)⟩
  · rintro ⟨ht, h1⟩
    refine ⟨ht, ?_⟩
    rcases (ancestors_topdown st h c t).1 h1 with h2 | ⟨c', h2, h3⟩
    · exact Or.inl ((h.child_iff c t).2 ⟨ht, h2⟩)
    · have := ancestors_lt st h t c' h3
      exact Or.inr ⟨c', (h.child_iff c c').2 ⟨by omega, h2⟩, h3⟩

theorem mem_pre (st : Storage) (h : st.WF) : ∀ l, Sib st l → ∀ t,
    (t ∈ pre st l ↔ (t < st.spans.length ∧ (t ∈ l ∨ ∃ c ∈ l, c ∈ st.ancestors t))) := by
  apply sib_induction st h
  · intro t; simp [pre_nil]
  · intro c cs hs ih1 ih2 t
    rw [pre_cons st h hs, List.mem_cons, List.mem_append, ih1 t, ih2 t, desc_iff st h c t]
    constructor
    · rintro (rfl | ⟨ht, h1⟩ | ⟨ht, h1 | ⟨d, h1, h2⟩⟩)
      · exact ⟨hs.head_lt, Or.inl List.mem_cons_self⟩
      · exact ⟨ht, Or.inr ⟨c, List.mem_cons_self, h1⟩⟩
      · exact ⟨ht, Or.inl (List.mem_cons_of_mem _ h1)⟩
      · exact ⟨ht, Or.inr ⟨d, List.mem_cons_of_mem _ h1, h2⟩⟩
    · rintro ⟨ht, h1 | ⟨d, h1, h2⟩⟩
      · rcases List.mem_cons.1 h1 with rfl | h1
        · exact Or.inl rfl
        · exact Or.inr (Or.inr ⟨ht, Or.inl h1⟩)
      · rcases List.mem_cons.1 h1 with rfl | h1
        · exact Or.inr (Or.inl ⟨ht, h2⟩)
        · exact Or.inr (Or.inr ⟨ht, Or.inr ⟨d, h1, h2⟩⟩)

theorem mem_pre_children (st : Storage) (h : st.WF) (s t : Nat) :
    t ∈ pre st (st.childrenOf s) ↔ (t < st.spans.length ∧ s ∈ st.ancestors t) := by
  rw [mem_pre st h _ (sib_children st h s), desc_iff st h]

theorem pre_nodup (st : Storage) (h : st.WF) : ∀ l, Sib st l → (pre st l).Nodup := by
  apply sib_induction st h
  · simp [pre_nil]
  · intro c cs hs ih1 ih2
    rw [pre_cons st h hs, List.nodup_cons, List.nodup_append]
    refine ⟨?_, ih1, ih2, ?_⟩
    · rw [List.mem_append]
      rintro (h1 | h1)
      · exact not_mem_ancestors_self st h c ((mem_pre_children st h c c).1 h1).2
      · rcases ((mem_pre st h cs hs.tail c).1 h1).2 with h2 | ⟨d, h2, h3⟩
        · exact Nat.lt_irrefl _ (hs.lt_tail c h2)
        · have := hs.lt_tail d h2; have := ancestors_lt st h c d h3; omega
    · intro a ha b hb hab
      subst hab
      have hca := ((mem_pre_children st h c a).1 ha).2
      rcases ((mem_pre st h cs hs.tail a).1 hb).2 with h2 | ⟨d, h2, h3⟩
      · have e := ancestors_congr st h (hs.parent_eq List.mem_cons_self (List.mem_cons_of_mem _ h2))
        exact not_mem_ancestors_self st h c (e ▸ hca)
      · have e := ancestors_congr st h (hs.parent_eq List.mem_cons_self (List.mem_cons_of_mem _ h2))
        have hcd := hs.lt_tail d h2
        rcases ancestors_linear st h a c d hca h3 with h4 | h4 | h4
        · omega
        · exact not_mem_ancestors_self st h c (e ▸ h4)
        · exact not_mem_ancestors_self st h d (e ▸ h4)

theorem pre_parents_first (st : Storage) (h : st.WF) : ∀ l, Sib st l → ∀ p c, p ∈ pre st l →
    st.parentOf c = some p → c < st.spans.length → ∃ l₁ l₂ l₃, pre st l = l₁ ++ p :: l₂ ++ c :: l₃ := by
  apply sib_induction st h
  · intro p c hp; simp [pre_nil] at hp
  · intro c0 cs hs ih1 ih2 p c hp hpc hc
    rw [pre_cons st h hs] at hp ⊢
    rcases List.mem_cons.1 hp with rfl | hp
    · have : c ∈ pre st (st.childrenOf p) :=
        (mem_pre_children st h p c).2 ⟨hc, parent_mem_ancestors st h hpc⟩
      obtain ⟨a, b, hab⟩ := List.append_of_mem this
      exact ⟨[], a, b ++ pre st cs, by simp [hab]⟩
    · rcases List.mem_append.1 hp with hp | hp
      · obtain ⟨l₁, l₂, l₃, e⟩ := ih1 p c hp hpc hc
        exact ⟨c0 :: l₁, l₂, l₃ ++ pre st cs, by simp [e]⟩
      · obtain ⟨l₁, l₂, l₃, e⟩ := ih2 p c hp hpc hc
        exact ⟨c0 :: (pre st (st.childrenOf c0) ++ l₁), l₂, l₃, by simp [e]⟩

/-! ### The iterator -/

theorem descNext_none (st : Storage) : ∀ layers, st.descNext layers = none → layers.flatMap (pre st) = [] := by
  intro layers
  induction layers with
  | nil => intro _; rfl
  | cons l rest ih =>
    cases l with
    | nil => intro hn; simp only [descNext] at hn; simp [pre_nil, ih hn]
    | cons x t => intro hn; simp [descNext] at hn

theorem descNext_some (st : Storage) (h : st.WF) : ∀ layers, (∀ l ∈ layers, Sib st l) → ∀ x layers',
    st.descNext layers = some (x, layers') →
      layers.flatMap (pre st) = x :: layers'.flatMap (pre st) ∧ ∀ l ∈ layers', Sib st l := by
  intro layers
  induction layers with
  | nil => intro _ x layers' hn; simp [descNext] at hn
  | cons l rest ih =>
    intro hall x layers' hn
    cases l with
    | nil =>
      simp only [descNext] at hn
      have := ih (fun l hl => hall l (List.mem_cons_of_mem _ hl)) x layers' hn
      simpa [pre_nil] using this
    | cons y t =>
      simp only [descNext, Option.some.injEq, Prod.mk.injEq] at hn
      obtain ⟨rfl, rfl⟩ := hn
      have hs := hall _ List.mem_cons_self
      have hrest : ∀ l ∈ rest, Sib st l := fun l hl => hall l (List.mem_cons_of_mem _ hl)
      split
      · rename_i hemp
        have : st.childrenOf y = [] := by simpa using hemp
        constructor
        · simp [pre_cons st h hs, this, pre_nil]
        · intro l hl
          rcases List.mem_cons.1 hl with rfl | hl
          · exact hs.tail
          · exact hrest l hl
      · constructor
        · simp [pre_cons st h hs]
        · intro l hl
          rcases List.mem_cons.1 hl with rfl | hl
          · exact sib_children st h y
          · rcases List.mem_cons.1 hl with rfl | hl
            · exact hs.tail
            · exact hrest l hl

theorem descDrain_spec (st : Storage) (h : st.WF) : ∀ fuel layers, (∀ l ∈ layers, Sib st l) →
    st.descDrain fuel layers = (layers.flatMap (pre st)).take fuel := by
  intro fuel
  induction fuel with
  | zero => intro layers _; simp [descDrain]
  | succ fuel ih =>
    intro layers hall
    unfold descDrain
    cases hn : st.descNext layers with
    | none => simp [descNext_none st layers hn]
    | some r =>
      obtain ⟨x, layers'⟩ := r
      obtain ⟨e, hall'⟩ := descNext_some st h layers hall x layers' hn
      simp only [e, List.take_succ_cons]
      rw [ih layers' hall']

theorem nodup_bounded_length : ∀ (n : Nat) (l : List Nat), l.Nodup → (∀ x ∈ l, x < n) → l.length ≤ n := by
  intro n
  induction n with
  | zero =>
    intro l _ hb
    cases l with
    | nil => simp
    | cons x xs => exact absurd (hb x List.mem_cons_self) (Nat.not_lt_zero _)
  | succ n ih =>
    intro l hnd hb
    by_cases hn : n ∈ l
    · have h1 := ih (l.erase n) (hnd.erase n) (by
        intro x hx
        have hx' := (List.Nodup.mem_erase_iff hnd).1 hx
        have := hb x hx'.2
        have := hx'.1
        omega)
      rw [List.length_erase_of_mem hn] at h1
      omega
    · have := ih l hnd (by
        intro x hx
        have := hb x hx
        have : x ≠ n := fun e => hn (e ▸ hx)
        omega)
      omega

theorem descendants_eq_pre (st : Storage) (h : st.WF) (i : Nat) :
    st.descendants i = pre st (st.childrenOf i) := by
  unfold descendants
  rw [descDrain_spec st h _ _ (by intro l hl; simp at hl; subst hl; exact sib_children st h i)]
  simp only [List.flatMap_cons, List.flatMap_nil, List.append_nil]
  apply List.take_of_length_le
  have := nodup_bounded_length st.spans.length _ (pre_nodup st h _ (sib_children st h i))
    (fun x hx => ((mem_pre_children st h i x).1 hx).1)
  omega

end TT
