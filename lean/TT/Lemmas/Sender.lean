/-
  Helper lemmas for C12 (sender): association-map lookups, size of captured values, 32-bit wrap.
-/
import TT.Model.Program
import TT.Model.History
import TT.Lemmas.Values

namespace TT

/-! ### AMap lookups -/

section AMapLemmas
variable {α : Type}

theorem sd_get_insert (m : AMap Nat α) (k : Nat) (v : α) (k2 : Nat) :
    AMap.get (AMap.insert m k v) k2 = if k2 = k then some v else AMap.get m k2 := by
  induction m with
  | nil =>
    simp only [AMap.insert, AMap.get]
    by_cases h : k = k2
    · subst h; simp
    · have : ¬ k2 = k := fun h' => h h'.symm
      simp [h, this]
  | cons e rest ih =>
    obtain ⟨k', v'⟩ := e
    simp only [AMap.insert]
    by_cases h : k' = k
    · subst h
      simp only [if_true, AMap.get]
      by_cases h2 : k' = k2
      · subst h2; simp
      · have : ¬ k2 = k' := fun h' => h2 h'.symm
        simp [h2, this]
    · simp only [h, if_false, AMap.get, ih]
      by_cases h2 : k' = k2
      · subst h2; simp [h]
      · simp [h2]

theorem sd_get_erase (m : AMap Nat α) (k : Nat) (k2 : Nat) :
    AMap.get (AMap.erase m k) k2 = if k2 = k then none else AMap.get m k2 := by
  induction m with
  | nil => simp [AMap.erase, AMap.get]
  | cons e rest ih =>
    obtain ⟨k', v'⟩ := e
    simp only [AMap.erase]
    by_cases h : k' = k
    · subst h
      simp only [if_true, AMap.get, ih]
      by_cases h2 : k' = k2
      · subst h2; simp
      · have : ¬ k2 = k' := fun h' => h2 h'.symm
        simp [h2, this]
    · simp only [h, if_false, AMap.get, ih]
      by_cases h2 : k' = k2
      · subst h2; simp [h]
      · simp [h2]

theorem sd_contains_insert (m : AMap Nat α) (k : Nat) (v : α) (k2 : Nat) :
    AMap.contains (AMap.insert m k v) k2 = (decide (k2 = k) || AMap.contains m k2) := by
  simp only [AMap.contains, sd_get_insert]
  by_cases h : k2 = k <;> simp [h]

theorem sd_contains_of_get {m : AMap Nat α} {k : Nat} {v : α} (h : AMap.get m k = some v) :
    AMap.contains m k = true := by
  simp [AMap.contains, h]

end AMapLemmas

/-! ### Size of captured values -/

theorem sd_capture_from_length (acc : TVals) (fields : List (Str × Option Raw)) :
    (fields.foldl (fun acc f => match f.2 with
      | none => acc
      | some r => (acc.insert f.1 (visit r)).1) acc).length ≤ acc.length + fields.length := by
  induction fields generalizing acc with
  | nil => simp
  | cons f fs ih =>
    obtain ⟨k, r⟩ := f
    simp only [List.foldl_cons, List.length_cons]
    cases r with
    | none => exact Nat.le_trans (ih acc) (by omega)
    | some r =>
      refine Nat.le_trans (ih _) ?_
      have := TVals.length_insert acc k (visit r)
      show (acc.insert k (visit r)).1.length + fs.length ≤ _
      split at this <;> omega

theorem sd_capture_length (fields : List (Str × Option Raw)) :
    (capture fields).length ≤ fields.length := by
  have := sd_capture_from_length [] fields
  simp only [List.length_nil, Nat.zero_add] at this
  exact this

theorem sd_fieldsOf_length (site : CallSite) (vals : PVals) :
    (fieldsOf site vals).length ≤ vals.length := by
  unfold fieldsOf
  exact List.length_filterMap_le _ _

theorem sd_reasonMany_capture (site : CallSite) (vals : PVals) (h : vals.length ≤ 32) :
    reasonMany (capture (fieldsOf site vals)) = [] := by
  have h1 := sd_capture_length (fieldsOf site vals)
  have h2 := sd_fieldsOf_length site vals
  unfold reasonMany maxValues
  rw [if_neg]
  omega

/-! ### 32-bit wrap -/

theorem sd_wrap32_of_lt {n : Nat} (h : n < 2^32) : wrap32 n = n := by
  unfold wrap32
  exact Nat.mod_eq_of_lt h

end TT
