/-
  TT.Lemmas.ArenaConc — invariant of the interleaving model of the arena (support for C10).
-/
import TT.Model.ArenaConc

namespace TT

/-! ### Association maps -/
section AMapLemmas
variable {κ α : Type} [DecidableEq κ]

theorem ar_get_insert (m : AMap κ α) (k k' : κ) (v : α) :
    AMap.get (AMap.insert m k v) k' = if k' = k then some v else AMap.get m k' := by
  induction m with
  | nil =>
    simp only [AMap.insert, AMap.get]
    by_cases h : k = k'
    · subst h; simp
    · have h' : ¬ k' = k := fun e => h e.symm
      simp [h, h']
  | cons p rest ih =>
    obtain ⟨a, b⟩ := p
    simp only [AMap.insert]
    by_cases h : a = k
    · subst h
      rw [if_pos rfl]; simp only [AMap.get]
      by_cases h2 : a = k'
      · subst h2; simp
      · have h' : ¬ k' = a := fun e => h2 e.symm
        simp [h2, h']
    · rw [if_neg h]; simp only [AMap.get]; rw [ih]
      by_cases h2 : a = k'
      · subst h2; simp [h]
      · simp [h2]

/-- `insert` on a present key replaces, in place, exactly the entry that `get` finds. -/
theorem ar_split (m : AMap κ α) (k : κ) (v : α) (h : AMap.get m k = some v) :
    ∃ l1 l2, m = l1 ++ (k, v) :: l2 ∧ ∀ v', AMap.insert m k v' = l1 ++ (k, v') :: l2 := by
  induction m with
  | nil => simp [AMap.get] at h
  | cons p rest ih =>
    obtain ⟨a, b⟩ := p
    simp only [AMap.get] at h
    by_cases hk : a = k
    · subst hk
      rw [if_pos rfl] at h; cases h
      exact ⟨[], rest, rfl, fun v' => by simp [AMap.insert]⟩
    · rw [if_neg hk] at h
      obtain ⟨l1, l2, e, hins⟩ := ih h
      refine ⟨(a, b) :: l1, l2, by rw [e]; rfl, fun v' => ?_⟩
      simp only [AMap.insert, if_neg hk, hins v']; rfl

theorem ar_get_of_mem (m : AMap κ α) (k : κ) (v : α) (hnd : (m.map (·.1)).Nodup) (h : (k, v) ∈ m) :
    AMap.get m k = some v := by
  induction m with
  | nil => simp at h
  | cons p rest ih =>
    obtain ⟨a, b⟩ := p
    simp only [List.map_cons, List.nodup_cons] at hnd
    simp only [List.mem_cons] at h
    simp only [AMap.get]
    rcases h with h | h
    · cases h; simp
    · have : a ≠ k := fun e => hnd.1 (by subst e; exact List.mem_map.2 ⟨(a, v), h, rfl⟩)
      rw [if_neg this]; exact ih hnd.2 h

theorem ar_insert_fresh (m : AMap κ α) (k : κ) (v : α) (h : k ∉ m.map (·.1)) :
    AMap.insert m k v = m ++ [(k, v)] := by
  induction m with
  | nil => rfl
  | cons p rest ih =>
    obtain ⟨a, b⟩ := p
    simp only [List.map_cons, List.mem_cons, not_or] at h
    have hne : ¬ a = k := fun e => h.1 e.symm
    simp only [AMap.insert, if_neg hne, ih h.2, List.cons_append]

theorem ar_foldl_insert {β : Type} (f : β → α) (work : List (κ × β)) : ∀ m : AMap κ α,
    ((m.map (·.1)) ++ work.map (·.1)).Nodup →
    work.foldl (fun m kv => AMap.insert m kv.1 (f kv.2)) m = m ++ work.map (fun kv => (kv.1, f kv.2)) := by
  induction work with
  | nil => intro m _; simp
  | cons kv rest ih =>
    intro m hnd
    have hfresh : kv.1 ∉ m.map (·.1) := by
      intro hm
      rw [List.nodup_append] at hnd
      exact hnd.2.2 _ hm _ (by simp) rfl
    rw [List.foldl_cons, ar_insert_fresh m kv.1 _ hfresh, ih]
    · simp
    · simpa using hnd

end AMapLemmas

/-! ### Lists -/

theorem ar_getD_snoc_lt (xs : List CallSite) (d : CallSite) (i : Nat) (h : i < xs.length) :
    (xs ++ [d]).getD i default = xs.getD i default := by
  simp [List.getD_eq_getElem?_getD, List.getElem?_append_left h]

theorem ar_getD_snoc_len (xs : List CallSite) (d : CallSite) :
    (xs ++ [d]).getD xs.length default = d := by
  simp [List.getD_eq_getElem?_getD]

theorem ar_mem_getD (xs : List CallSite) (d : CallSite) (h : d ∈ xs) :
    ∃ i, i < xs.length ∧ xs.getD i default = d := by
  obtain ⟨i, hi, e⟩ := List.mem_iff_getElem.1 h
  exact ⟨i, hi, by simp [List.getD_eq_getElem?_getD, hi, e]⟩

theorem ar_getD_mem (xs : List CallSite) (i : Nat) (h : i < xs.length) : xs.getD i default ∈ xs := by
  simp [List.getD_eq_getElem?_getD, h]

theorem ar_nodup_getD_inj (xs : List CallSite) (hnd : xs.Nodup) (i j : Nat) (hi : i < xs.length)
    (hj : j < xs.length) (h : xs.getD i default = xs.getD j default) : i = j := by
  simp only [List.getD_eq_getElem?_getD, List.getElem?_eq_getElem hi, List.getElem?_eq_getElem hj,
    Option.getD_some] at h
  exact (List.getElem_inj hnd).1 h

theorem ar_nodup_snoc' {α : Type} (xs : List α) (d : α) (h : xs.Nodup) (hd : d ∉ xs) : (xs ++ [d]).Nodup := by
  rw [List.nodup_append]
  refine ⟨h, by simp, ?_⟩
  intro a ha b hb
  simp at hb
  subst hb
  intro hab
  subst hab
  exact hd ha

/-! ### `findEq` -/

theorem ar_findEq_some (items : List CallSite) (d : CallSite) : ∀ (l : List Nat) (i : Nat),
    findEq items d l = some i → i ∈ l ∧ items.getD i default = d := by
  intro l
  induction l with
  | nil => intro i h; simp [findEq] at h
  | cons x xs ih =>
    intro i h
    simp only [findEq] at h
    by_cases hx : items.getD x default = d
    · rw [if_pos hx] at h; cases h; exact ⟨List.mem_cons_self .., hx⟩
    · rw [if_neg hx] at h
      exact ⟨List.mem_cons_of_mem _ (ih i h).1, (ih i h).2⟩

theorem ar_findEq_none (items : List CallSite) (d : CallSite) : ∀ (l : List Nat),
    findEq items d l = none → ∀ i ∈ l, items.getD i default ≠ d := by
  intro l
  induction l with
  | nil => intro _ i hi; simp at hi
  | cons x xs ih =>
    intro h i hi
    simp only [findEq] at h
    by_cases hx : items.getD x default = d
    · rw [if_pos hx] at h; cases h
    · rw [if_neg hx] at h
      rcases List.mem_cons.1 hi with e | hi
      · subst e; exact hx
      · exact ih h i hi

/-! ### The invariant -/

/-- Copy of `CArena.WF` (defined in TT/Props/C10.lean); definitionally equal. -/
def ar_WF (hash : CallSite → Nat) (a : CArena) : Prop :=
  a.items.Nodup ∧
  (∀ h i, i ∈ a.bucket h ↔ (i < a.items.length ∧ hash (a.items.getD i default) = h)) ∧
  (∀ h, (a.bucket h).Nodup)

/-- Copy of `allResults` on the thread map. -/
def ar_allRes (m : AMap Nat CThread) : List (Nat × Bool) := m.flatMap fun kv => kv.2.results

/-- Descriptions of the objects obtained so far, oldest first. -/
def ar_desc (items : List CallSite) (rs : List (Nat × Bool)) : List CallSite :=
  rs.reverse.map fun r => items.getD r.1 default

def ar_TInv (hash : CallSite → Nat) (a : CArena) (ds : List CallSite) (th : CThread) : Prop :=
  match th.phase with
  | .idle => ds = ar_desc a.items th.results ++ th.todo
  | .scanned d len =>
    ds = ar_desc a.items th.results ++ d :: th.todo ∧ len ≤ (a.bucket (hash d)).length ∧
      ∀ i ∈ (a.bucket (hash d)).take len, a.items.getD i default ≠ d

structure ar_CInv (hash : CallSite → Nat) (n₀ : Nat) (work : List (Nat × List CallSite)) (s : CState) : Prop where
  wf : ar_WF hash s.arena
  len : n₀ ≤ s.arena.items.length
  bound : ∀ r ∈ ar_allRes s.threads, r.1 < s.arena.items.length
  keys : ∀ t th, s.threads.get t = some th → ∃ ds, (t, ds) ∈ work
  thr : ∀ t ds, (t, ds) ∈ work → ∃ th, s.threads.get t = some th ∧ ar_TInv hash s.arena ds th
  cnt : ∀ i, i < s.arena.items.length →
    ((ar_allRes s.threads).filter fun r => r.1 == i && r.2).length = if i < n₀ then 0 else 1

theorem ar_desc_cons (items : List CallSite) (r : Nat × Bool) (rs : List (Nat × Bool)) :
    ar_desc items (r :: rs) = ar_desc items rs ++ [items.getD r.1 default] := by
  simp [ar_desc]

theorem ar_desc_snoc (items : List CallSite) (d : CallSite) (rs : List (Nat × Bool))
    (h : ∀ r ∈ rs, r.1 < items.length) : ar_desc (items ++ [d]) rs = ar_desc items rs := by
  unfold ar_desc
  apply List.map_congr_left
  intro r hr
  exact ar_getD_snoc_lt items d r.1 (h r (List.mem_reverse.1 hr))

theorem ar_allRes_mem (m : AMap Nat CThread) (t : Nat) (th : CThread) (h : m.get t = some th) :
    ∀ r ∈ th.results, r ∈ ar_allRes m := by
  obtain ⟨l1, l2, e, _⟩ := ar_split m t th h
  intro r hr
  rw [e]
  simp only [ar_allRes, List.flatMap_append, List.flatMap_cons, List.mem_append]
  exact Or.inr (Or.inl hr)

theorem ar_allRes_same (m : AMap Nat CThread) (t : Nat) (th th' : CThread) (h : m.get t = some th)
    (hr : th'.results = th.results) : ar_allRes (m.insert t th') = ar_allRes m := by
  obtain ⟨l1, l2, e, hins⟩ := ar_split m t th h
  rw [hins th']
  conv => rhs; rw [e]
  simp only [ar_allRes, List.flatMap_append, List.flatMap_cons, hr]

theorem ar_allRes_push (m : AMap Nat CThread) (t : Nat) (th th' : CThread) (r : Nat × Bool)
    (h : m.get t = some th) (hr : th'.results = r :: th.results) :
    ∃ l1 l2, ar_allRes m = l1 ++ l2 ∧ ar_allRes (m.insert t th') = l1 ++ r :: l2 := by
  obtain ⟨l1, l2, e, hins⟩ := ar_split m t th h
  refine ⟨ar_allRes l1, th.results ++ ar_allRes l2, ?_, ?_⟩
  · rw [e]; simp only [ar_allRes, List.flatMap_append, List.flatMap_cons]
  · rw [hins th']; simp only [ar_allRes, List.flatMap_append, List.flatMap_cons, hr, List.cons_append]

theorem ar_keys_insert {work : List (Nat × List CallSite)} (m : AMap Nat CThread) (t : Nat) (th th' : CThread)
    (hget : m.get t = some th) (hk : ∀ t th, m.get t = some th → ∃ ds, (t, ds) ∈ work) :
    ∀ t' th'', (m.insert t th').get t' = some th'' → ∃ ds, (t', ds) ∈ work := by
  intro t' th'' h
  rw [ar_get_insert] at h
  by_cases e : t' = t
  · subst e; exact hk _ _ hget
  · rw [if_neg e] at h; exact hk _ _ h

/-- Update of one thread that leaves the arena alone (steps (A), and (B) when the re-scan finds
    the description). -/
theorem ar_CInv_update {hash : CallSite → Nat} {n₀ : Nat} {work : List (Nat × List CallSite)} {s : CState}
    (inv : ar_CInv hash n₀ work s) (t : Nat) (th th' : CThread) (hget : s.threads.get t = some th)
    (hres : th'.results = th.results ∨
      ∃ i, th'.results = (i, false) :: th.results ∧ i < s.arena.items.length)
    (hT : ∀ ds, ar_TInv hash s.arena ds th → ar_TInv hash s.arena ds th') :
    ar_CInv hash n₀ work { s with threads := s.threads.insert t th' } := by
  have hthr : ∀ t' ds, (t', ds) ∈ work →
      ∃ th'', (s.threads.insert t th').get t' = some th'' ∧ ar_TInv hash s.arena ds th'' := by
    intro t' ds hm
    obtain ⟨th0, hg0, hT0⟩ := inv.thr t' ds hm
    rw [ar_get_insert]
    by_cases e : t' = t
    · subst e
      rw [hget] at hg0; cases hg0
      exact ⟨th', by simp, hT ds hT0⟩
    · exact ⟨th0, by simp [e, hg0], hT0⟩
  have hkeys := ar_keys_insert s.threads t th th' hget inv.keys
  rcases hres with hres | ⟨i, hres, hi⟩
  · have e := ar_allRes_same s.threads t th th' hget hres
    exact ⟨inv.wf, inv.len, by simpa only [e] using inv.bound, hkeys, hthr, by simpa only [e] using inv.cnt⟩
  · obtain ⟨l1, l2, e1, e2⟩ := ar_allRes_push s.threads t th th' (i, false) hget hres
    refine ⟨inv.wf, inv.len, ?_, hkeys, hthr, ?_⟩
    · intro r hr
      simp only [e2, List.mem_append, List.mem_cons] at hr
      have hb := inv.bound r
      simp only [e1, List.mem_append] at hb
      rcases hr with hr | hr | hr
      · exact hb (Or.inl hr)
      · subst hr; exact hi
      · exact hb (Or.inr hr)
    · intro j hj
      have hc := inv.cnt j hj
      simp only [e1] at hc
      simp only [e2]
      rw [← hc]
      simp [List.filter_append]

/-- The arena after leaking and pushing `d`. -/
def ar_push (hash : CallSite → Nat) (a : CArena) (d : CallSite) : CArena :=
  { items := a.items ++ [d],
    buckets := a.buckets.insert (hash d) (a.bucket (hash d) ++ [a.items.length]) }

/-- A thread's invariant survives another thread's allocation. -/
theorem ar_TInv_snoc {hash : CallSite → Nat} (a a' : CArena) (hwf : ar_WF hash a) (d0 : CallSite)
    (hitems : a'.items = a.items ++ [d0]) (hbk : ∀ h, ∃ extra, a'.bucket h = a.bucket h ++ extra)
    (ds : List CallSite) (th : CThread) (hb : ∀ r ∈ th.results, r.1 < a.items.length)
    (hT : ar_TInv hash a ds th) : ar_TInv hash a' ds th := by
  obtain ⟨todo, phase, results⟩ := th
  cases phase with
  | idle =>
    simp only [ar_TInv] at hT ⊢
    rw [hitems, ar_desc_snoc _ _ _ hb]; exact hT
  | scanned d len =>
    simp only [ar_TInv] at hT ⊢
    obtain ⟨h1, h2, h3⟩ := hT
    obtain ⟨extra, he⟩ := hbk (hash d)
    rw [hitems, ar_desc_snoc _ _ _ hb, he, List.take_append_of_le_length h2]
    refine ⟨h1, by simp only [List.length_append]; omega, ?_⟩
    intro i hi
    have hlt : i < a.items.length := ((hwf.2.1 _ i).1 (List.mem_of_mem_take hi)).1
    rw [ar_getD_snoc_lt _ _ _ hlt]
    exact h3 i hi

/-- The arena-extending step: (B) when the description is still absent. -/
theorem ar_CInv_alloc {hash : CallSite → Nat} {n₀ : Nat} {work : List (Nat × List CallSite)} {s : CState}
    (inv : ar_CInv hash n₀ work s) (t : Nat) (todo : List CallSite) (d : CallSite) (len : Nat)
    (results : List (Nat × Bool))
    (hget : s.threads.get t = some { todo := todo, phase := .scanned d len, results := results })
    (hnone : findEq s.arena.items d ((s.arena.bucket (hash d)).drop len) = none) :
    ar_CInv hash n₀ work
      { arena := ar_push hash s.arena d,
        threads := s.threads.insert t { todo := todo, phase := .idle,
                                         results := (s.arena.items.length, true) :: results } } := by
  obtain ⟨hnd, hbk, hbnd⟩ := inv.wf
  -- bucket of the new arena
  have hb' : ∀ h, (ar_push hash s.arena d).bucket h
      = if h = hash d then s.arena.bucket (hash d) ++ [s.arena.items.length] else s.arena.bucket h := by
    intro h
    simp only [ar_push, CArena.bucket, ar_get_insert]
    by_cases e : h = hash d <;> simp [e]
  have hres_b : ∀ r ∈ results, r.1 < s.arena.items.length := fun r hr =>
    inv.bound r (ar_allRes_mem s.threads t _ hget r hr)
  obtain ⟨ds_t, hds_t⟩ := inv.keys t _ hget
  obtain ⟨th0, hg0, hT0⟩ := inv.thr t ds_t hds_t
  rw [hget] at hg0; cases hg0
  simp only [ar_TInv] at hT0
  obtain ⟨hdec, hlen, hpre⟩ := hT0
  -- `d` is not in the arena
  have hdnot : d ∉ s.arena.items := by
    intro hd
    obtain ⟨i, hi, e⟩ := ar_mem_getD _ _ hd
    have hib : i ∈ s.arena.bucket (hash d) := (hbk (hash d) i).2 ⟨hi, by rw [e]⟩
    rw [← List.take_append_drop len (s.arena.bucket (hash d))] at hib
    rcases List.mem_append.1 hib with hib | hib
    · exact hpre i hib e
    · exact ar_findEq_none _ _ _ hnone i hib e
  have hext : ∀ h, ∃ extra, (ar_push hash s.arena d).bucket h = s.arena.bucket h ++ extra := by
    intro h
    rw [hb' h]
    by_cases e : h = hash d
    · subst e; exact ⟨_, by rw [if_pos rfl]⟩
    · exact ⟨[], by rw [if_neg e]; simp⟩
  obtain ⟨l1, l2, e1, e2⟩ := ar_allRes_push s.threads t _
    { todo := todo, phase := .idle, results := (s.arena.items.length, true) :: results }
    (s.arena.items.length, true) hget rfl
  refine ⟨⟨ar_nodup_snoc' _ _ hnd hdnot, ?_, ?_⟩, ?_, ?_, ar_keys_insert s.threads t _ _ hget inv.keys, ?_, ?_⟩
  · -- bucket characterisation
    intro h i
    rw [hb' h]
    show _ ↔ (i < (s.arena.items ++ [d]).length ∧ hash ((s.arena.items ++ [d]).getD i default) = h)
    simp only [List.length_append, List.length_cons, List.length_nil]
    by_cases e : h = hash d
    · subst e
      rw [if_pos rfl]
      constructor
      · intro hm
        rcases List.mem_append.1 hm with hm | hm
        · have := (hbk _ i).1 hm
          exact ⟨by omega, by rw [ar_getD_snoc_lt _ _ _ this.1]; exact this.2⟩
        · simp only [List.mem_singleton] at hm
          subst hm
          exact ⟨by omega, by rw [ar_getD_snoc_len]⟩
      · intro ⟨hi, hh⟩
        by_cases hlt : i < s.arena.items.length
        · rw [ar_getD_snoc_lt _ _ _ hlt] at hh
          exact List.mem_append.2 (Or.inl ((hbk _ i).2 ⟨hlt, hh⟩))
        · have : i = s.arena.items.length := by omega
          exact List.mem_append.2 (Or.inr (by simp [this]))
    · rw [if_neg e]
      constructor
      · intro hm
        have := (hbk _ i).1 hm
        exact ⟨by omega, by rw [ar_getD_snoc_lt _ _ _ this.1]; exact this.2⟩
      · intro ⟨hi, hh⟩
        by_cases hlt : i < s.arena.items.length
        · rw [ar_getD_snoc_lt _ _ _ hlt] at hh
          exact (hbk _ i).2 ⟨hlt, hh⟩
        · have : i = s.arena.items.length := by omega
          subst this
          rw [ar_getD_snoc_len] at hh
          exact absurd hh.symm e
  · intro h
    rw [hb' h]
    by_cases e : h = hash d
    · rw [if_pos e]
      exact ar_nodup_snoc' _ _ (hbnd _) (fun hm => absurd ((hbk _ _).1 hm).1 (Nat.lt_irrefl _))
    · rw [if_neg e]; exact hbnd h
  · show n₀ ≤ (s.arena.items ++ [d]).length
    have := inv.len
    simp only [List.length_append, List.length_cons, List.length_nil]; omega
  · intro r hr
    show r.1 < (s.arena.items ++ [d]).length
    simp only [List.length_append, List.length_cons, List.length_nil]
    simp only [e2, List.mem_append, List.mem_cons] at hr
    have hb := inv.bound r
    simp only [e1, List.mem_append] at hb
    rcases hr with hr | hr | hr
    · exact Nat.lt_succ_of_lt (hb (Or.inl hr))
    · subst hr; exact Nat.lt_succ_self _
    · exact Nat.lt_succ_of_lt (hb (Or.inr hr))
  · intro t' ds hm
    obtain ⟨th0, hg0, hT0⟩ := inv.thr t' ds hm
    show ∃ th, (s.threads.insert t _).get t' = some th ∧ _
    rw [ar_get_insert]
    by_cases e : t' = t
    · subst e
      rw [hget] at hg0; cases hg0
      refine ⟨_, if_pos rfl, ?_⟩
      simp only [ar_TInv] at hT0 ⊢
      rw [ar_desc_cons]
      show ds = ar_desc (s.arena.items ++ [d]) results ++
        [(s.arena.items ++ [d]).getD s.arena.items.length default] ++ todo
      rw [ar_desc_snoc _ _ _ hres_b, ar_getD_snoc_len, hT0.1]
      simp
    · refine ⟨th0, by simp [e, hg0], ?_⟩
      exact ar_TInv_snoc s.arena _ inv.wf d rfl hext ds th0
        (fun r hr => inv.bound r (ar_allRes_mem s.threads t' _ hg0 r hr)) hT0
  · intro i hi
    show ((ar_allRes (s.threads.insert t _)).filter _).length = _
    have hi' : i < s.arena.items.length + 1 := by
      have : i < (s.arena.items ++ [d]).length := hi
      simpa using this
    rw [e2]
    by_cases hlt : i < s.arena.items.length
    · have hc := inv.cnt i hlt
      rw [e1] at hc
      rw [← hc]
      have hne : ¬ s.arena.items.length = i := by omega
      simp [List.filter_append, hne]
    · have hieq : i = s.arena.items.length := by omega
      have hz : ∀ l : List (Nat × Bool), (∀ r ∈ l, r.1 < s.arena.items.length) →
          (l.filter fun r => r.1 == i && r.2) = [] := by
        intro l hl
        rw [List.filter_eq_nil_iff]
        intro r hr
        have := hl r hr
        have hne : ¬ r.1 = i := by omega
        simp [hne]
      have hb := inv.bound
      rw [e1] at hb
      have h1 := hz l1 (fun r hr => hb r (List.mem_append.2 (Or.inl hr)))
      have h2 := hz l2 (fun r hr => hb r (List.mem_append.2 (Or.inr hr)))
      have hn0 : ¬ i < n₀ := by have := inv.len; omega
      simp [List.filter_append, h1, h2, hieq.symm, hn0]

/-! ### Steps, runs, initial state -/

theorem ar_cstep_inv {hash : CallSite → Nat} {n₀ : Nat} {work : List (Nat × List CallSite)} {s : CState}
    (inv : ar_CInv hash n₀ work s) (t : Nat) : ar_CInv hash n₀ work (cstep hash s t) := by
  unfold cstep
  cases hget : s.threads.get t with
  | none => exact inv
  | some th =>
    obtain ⟨todo, phase, results⟩ := th
    cases phase with
    | idle =>
      cases todo with
      | nil => exact inv
      | cons d rest =>
        simp only
        cases hf : findEq s.arena.items d (s.arena.bucket (hash d)) with
        | some i =>
          simp only
          obtain ⟨him, hie⟩ := ar_findEq_some _ _ _ _ hf
          have hil := ((inv.wf.2.1 _ i).1 him).1
          refine ar_CInv_update inv t _ _ hget (Or.inr ⟨i, rfl, hil⟩) ?_
          intro ds hT
          simp only [ar_TInv] at hT ⊢
          rw [ar_desc_cons, hie, hT]; simp
        | none =>
          simp only
          refine ar_CInv_update inv t _ _ hget (Or.inl rfl) ?_
          intro ds hT
          simp only [ar_TInv] at hT ⊢
          refine ⟨hT, Nat.le_refl _, ?_⟩
          rw [List.take_length]; exact ar_findEq_none _ _ _ hf
    | scanned d len =>
      simp only
      cases hf : findEq s.arena.items d ((s.arena.bucket (hash d)).drop len) with
      | some i =>
        simp only
        obtain ⟨him, hie⟩ := ar_findEq_some _ _ _ _ hf
        have hil := ((inv.wf.2.1 _ i).1 (List.mem_of_mem_drop him)).1
        refine ar_CInv_update inv t _ _ hget (Or.inr ⟨i, rfl, hil⟩) ?_
        intro ds hT
        simp only [ar_TInv] at hT ⊢
        rw [ar_desc_cons, hie, hT.1]; simp
      | none => exact ar_CInv_alloc inv t todo d len results hget hf

theorem ar_crun_inv {hash : CallSite → Nat} {n₀ : Nat} {work : List (Nat × List CallSite)}
    (sched : List Nat) : ∀ s : CState, ar_CInv hash n₀ work s → ar_CInv hash n₀ work (crun hash s sched) := by
  induction sched with
  | nil => intro s h; exact h
  | cons t rest ih => intro s h; exact ih _ (ar_cstep_inv h t)

theorem ar_init_threads (arena : CArena) (work : List (Nat × List CallSite)) (hw : (work.map (·.1)).Nodup) :
    (CState.init arena work).threads = work.map fun kv => (kv.1, ({ todo := kv.2 } : CThread)) := by
  have := ar_foldl_insert (fun ds => ({ todo := ds } : CThread)) work [] (by simpa using hw)
  simpa [CState.init] using this

theorem ar_init_get (arena : CArena) (work : List (Nat × List CallSite)) (hw : (work.map (·.1)).Nodup)
    (t : Nat) (ds : List CallSite) (h : (t, ds) ∈ work) :
    (CState.init arena work).threads.get t = some { todo := ds } := by
  rw [ar_init_threads arena work hw]
  apply ar_get_of_mem
  · rw [List.map_map]; exact hw
  · exact List.mem_map.2 ⟨(t, ds), h, rfl⟩

theorem ar_get_mem {κ α : Type} [DecidableEq κ] (m : AMap κ α) (k : κ) (v : α) (h : AMap.get m k = some v) :
    (k, v) ∈ m := by
  obtain ⟨l1, l2, e, _⟩ := ar_split m k v h
  rw [e]; simp

theorem ar_init_inv (hash : CallSite → Nat) (arena : CArena) (hwf : ar_WF hash arena)
    (work : List (Nat × List CallSite)) (hw : (work.map (·.1)).Nodup) :
    ar_CInv hash arena.items.length work (CState.init arena work) := by
  have hall : ar_allRes (CState.init arena work).threads = [] := by
    rw [ar_init_threads arena work hw]
    simp only [ar_allRes, List.flatMap_eq_nil_iff, List.mem_map]
    rintro kv ⟨kv', _, rfl⟩
    rfl
  refine ⟨hwf, Nat.le_refl _, ?_, ?_, ?_, ?_⟩
  · rw [hall]; intro r hr; simp at hr
  · intro t th hg
    have := ar_get_mem _ _ _ hg
    rw [ar_init_threads arena work hw] at this
    obtain ⟨kv, hkv, e⟩ := List.mem_map.1 this
    cases e
    exact ⟨kv.2, hkv⟩
  · intro t ds hm
    refine ⟨_, ar_init_get arena work hw t ds hm, ?_⟩
    simp [ar_TInv, ar_desc]
  · intro i hi
    rw [hall]
    have : i < arena.items.length := hi
    simp [this]

/-! ### Progress -/

def ar_bit : TPhase → Nat
  | .idle => 0
  | .scanned _ _ => 1

/-- Number of steps the thread still needs. -/
def ar_rem (th : CThread) : Nat := 2 * th.todo.length + ar_bit th.phase

/-- Announcements of the thread: answered, in flight, pending. -/
def ar_tot (th : CThread) : Nat := th.results.length + th.todo.length + ar_bit th.phase

theorem ar_insert_keys {κ α : Type} [DecidableEq κ] (m : AMap κ α) (k : κ) (v v' : α)
    (h : AMap.get m k = some v) : (AMap.insert m k v').map (·.1) = m.map (·.1) := by
  obtain ⟨l1, l2, e, hins⟩ := ar_split m k v h
  rw [hins v']
  conv => rhs; rw [e]
  simp

theorem ar_cstep_self (hash : CallSite → Nat) (s : CState) (t : Nat) (th : CThread)
    (h : s.threads.get t = some th) :
    ∃ th', (cstep hash s t).threads.get t = some th' ∧ ar_tot th' = ar_tot th ∧ ar_rem th' ≤ ar_rem th - 1 := by
  unfold cstep
  rw [h]
  obtain ⟨todo, phase, results⟩ := th
  cases phase with
  | idle =>
    cases todo with
    | nil => exact ⟨_, h, rfl, Nat.le_refl _⟩
    | cons d rest =>
      simp only
      cases findEq s.arena.items d (s.arena.bucket (hash d)) with
      | some i =>
        refine ⟨_, (ar_get_insert _ _ _ _).trans (if_pos rfl), ?_, ?_⟩ <;>
          (simp only [ar_tot, ar_rem, ar_bit, List.length_cons]; omega)
      | none =>
        refine ⟨_, (ar_get_insert _ _ _ _).trans (if_pos rfl), ?_, ?_⟩ <;>
          (simp only [ar_tot, ar_rem, ar_bit, List.length_cons]; omega)
  | scanned d len =>
    simp only
    cases findEq s.arena.items d ((s.arena.bucket (hash d)).drop len) with
    | some i =>
      refine ⟨_, (ar_get_insert _ _ _ _).trans (if_pos rfl), ?_, ?_⟩ <;>
        (simp only [ar_tot, ar_rem, ar_bit, List.length_cons]; omega)
    | none =>
      refine ⟨_, (ar_get_insert _ _ _ _).trans (if_pos rfl), ?_, ?_⟩ <;>
        (simp only [ar_tot, ar_rem, ar_bit, List.length_cons]; omega)

theorem ar_cstep_other (hash : CallSite → Nat) (s : CState) (t t' : Nat) (hne : t' ≠ t) :
    (cstep hash s t).threads.get t' = s.threads.get t' := by
  unfold cstep
  cases h : s.threads.get t with
  | none => rfl
  | some th =>
    obtain ⟨todo, phase, results⟩ := th
    cases phase with
    | idle =>
      cases todo with
      | nil => rfl
      | cons d rest =>
        simp only
        cases findEq s.arena.items d (s.arena.bucket (hash d)) <;>
          simp only [ar_get_insert, if_neg hne]
    | scanned d len =>
      simp only
      cases findEq s.arena.items d ((s.arena.bucket (hash d)).drop len) <;>
        simp only [ar_get_insert, if_neg hne]

theorem ar_cstep_keys (hash : CallSite → Nat) (s : CState) (t : Nat) :
    (cstep hash s t).threads.map (·.1) = s.threads.map (·.1) := by
  unfold cstep
  cases h : s.threads.get t with
  | none => rfl
  | some th =>
    obtain ⟨todo, phase, results⟩ := th
    cases phase with
    | idle =>
      cases todo with
      | nil => rfl
      | cons d rest =>
        simp only
        cases findEq s.arena.items d (s.arena.bucket (hash d)) <;>
          exact ar_insert_keys _ _ _ _ h
    | scanned d len =>
      simp only
      cases findEq s.arena.items d ((s.arena.bucket (hash d)).drop len) <;>
        exact ar_insert_keys _ _ _ _ h

theorem ar_crun_keys (hash : CallSite → Nat) (sched : List Nat) : ∀ s : CState,
    (crun hash s sched).threads.map (·.1) = s.threads.map (·.1) := by
  induction sched with
  | nil => intro s; rfl
  | cons t rest ih => intro s; exact (ih _).trans (ar_cstep_keys hash s t)

theorem ar_progress (hash : CallSite → Nat) (work : List (Nat × List CallSite)) (sched : List Nat) :
    ∀ s : CState,
    (∀ t ds, (t, ds) ∈ work → ∃ th, s.threads.get t = some th ∧ ar_tot th = ds.length ∧
      ar_rem th ≤ (sched.filter (· == t)).length) →
    ∀ t ds, (t, ds) ∈ work → ∃ th, (crun hash s sched).threads.get t = some th ∧
      ar_tot th = ds.length ∧ ar_rem th = 0 := by
  induction sched with
  | nil =>
    intro s H t ds hm
    obtain ⟨th, hg, htot, hrem⟩ := H t ds hm
    exact ⟨th, hg, htot, by simpa using hrem⟩
  | cons u rest ih =>
    intro s H
    apply ih (cstep hash s u)
    intro t ds hm
    obtain ⟨th, hg, htot, hrem⟩ := H t ds hm
    by_cases e : t = u
    · subst e
      obtain ⟨th', hg', htot', hrem'⟩ := ar_cstep_self hash s t th hg
      refine ⟨th', hg', htot'.trans htot, ?_⟩
      simp only [List.filter_cons, beq_self_eq_true, if_true, List.length_cons] at hrem
      omega
    · rw [ar_cstep_other hash s u t e]
      refine ⟨th, hg, htot, ?_⟩
      have hb : (u == t) = false := by simp; exact fun h => e h.symm
      simpa only [List.filter_cons, hb, Bool.false_eq_true, if_false] using hrem

theorem ar_rem_zero (th : CThread) (h : ar_rem th = 0) :
    th.finished = true ∧ ar_tot th = th.results.length := by
  obtain ⟨todo, phase, results⟩ := th
  cases phase with
  | idle =>
    cases todo with
    | nil => simp [CThread.finished, ar_tot, ar_bit]
    | cons d rest => simp [ar_rem] at h
  | scanned d len => simp [ar_rem, ar_bit] at h

theorem ar_completes (hash : CallSite → Nat) (arena₀ : CArena) (work : List (Nat × List CallSite))
    (hw : (work.map (·.1)).Nodup) (sched : List Nat)
    (hfair : ∀ t ds, (t, ds) ∈ work → 2 * ds.length ≤ (sched.filter (· == t)).length) :
    (crun hash (CState.init arena₀ work) sched).finished = true ∧
    ∀ t ds, (t, ds) ∈ work → ((crun hash (CState.init arena₀ work) sched).resultsOf t).length = ds.length := by
  have hprog := ar_progress hash work sched (CState.init arena₀ work) (by
    intro t ds hm
    refine ⟨_, ar_init_get arena₀ work hw t ds hm, ?_, ?_⟩
    · simp [ar_tot, ar_bit]
    · simpa [ar_rem, ar_bit] using hfair t ds hm)
  have hkeys : (crun hash (CState.init arena₀ work) sched).threads.map (·.1) = work.map (·.1) := by
    rw [ar_crun_keys, ar_init_threads arena₀ work hw, List.map_map]; rfl
  constructor
  · unfold CState.finished
    rw [List.all_eq_true]
    intro kv hkv
    have hk : kv.1 ∈ work.map (·.1) := by
      rw [← hkeys]; exact List.mem_map.2 ⟨kv, hkv, rfl⟩
    obtain ⟨w, hwm, hwe⟩ := List.mem_map.1 hk
    have hg : (crun hash (CState.init arena₀ work) sched).threads.get kv.1 = some kv.2 :=
      ar_get_of_mem _ _ _ (by rw [hkeys]; exact hw) hkv
    obtain ⟨th, hg', _, hrem⟩ := hprog kv.1 w.2 (by rw [← hwe]; exact hwm)
    rw [hg] at hg'; cases hg'
    exact (ar_rem_zero _ hrem).1
  · intro t ds hm
    obtain ⟨th, hg, htot, hrem⟩ := hprog t ds hm
    simp only [CState.resultsOf, hg, Option.map_some, Option.getD_some, List.length_reverse]
    rw [← (ar_rem_zero th hrem).2, htot]

theorem ar_take_getElem? {α β : Type} (f : α → β) (res : List α) (ds : List β) (k : Nat) (r : α)
    (h : res.map f = ds.take res.length) (hr : res[k]? = some r) : ds[k]? = some (f r) := by
  have hk : k < res.length := (List.getElem?_eq_some_iff.1 hr).1
  have : (res.map f)[k]? = some (f r) := by simp [hr]
  rw [h, List.getElem?_take_of_lt hk] at this
  exact this

end TT
