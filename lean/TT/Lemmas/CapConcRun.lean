/-
  One front-end operation of thread `a`: the front end over the layered model (`capSub a`) and over
  the interleaved logging subscriber (`cc_clogSub global a`) run in lock step, and the invariant
  `cc_WInv` holds between the model and the tagged call log so far. `R` counts the references held
  by the other threads' handles. (Thread-aware version of `CapSpecRun`.)
-/
import TT.Lemmas.CapConcSim3

namespace TT

structure cc_FInv (N : Nat) (filters : List LFilter) (global : Option Nat) (sites : List CallSite)
    (live : List Bool) (R : Nat → Nat) (w : CapWorld) (handles : List (Option (Nat × Nat)))
    (ls : cc_CLogSt) : Prop where
  len : live.length = handles.length
  nx : ls.next = cs_maxId (cc_untag ls.calls.reverse) + 1
  w : cc_WInv N filters global sites ls.calls.reverse (cc_hierFinal ls.calls.reverse)
    (fun id => cs_liveCnt live handles id + R id) none w
  hd : ∀ id, cs_handles (cc_untag ls.calls.reverse) id = ((cs_liveCnt live handles id + R id : Nat) : Int)

def cc_Rel (N : Nat) (filters : List LFilter) (global : Option Nat) (sites : List CallSite) (live : List Bool)
    (R : Nat → Nat) (fe1 : FE CapWorld) (fe2 : FE cc_CLogSt) : Prop :=
  fe1.handles = fe2.handles ∧ fe1.registered = fe2.registered ∧
  cc_FInv N filters global sites live R fe1.sub fe1.handles fe2.sub

theorem cc_FInv_live {N filters global sites live R w handles ls}
    (h : cc_FInv N filters global sites live R w handles ls) {s id k : Nat}
    (hl : live.getD s false = true) (hh : (handles[s]?).join = some (id, k)) :
    1 ≤ cs_liveCnt live handles id + R id ∧ (w.reg.spans.get id).isSome := by
  have h1 := cs_liveCnt_pos live handles s id k hl h.len hh
  have h2 : 1 ≤ cs_liveCnt live handles id + R id := by omega
  exact ⟨h2, cc_isSome_of_H h.w h2⟩

theorem cc_WInv_H_congr {N filters global sites calls hier H H' x w}
    (h : cc_WInv N filters global sites calls hier H x w) (hH : ∀ y, H' y = H y) :
    cc_WInv N filters global sites calls hier H' x w := by
  have : H' = H := funext hH
  subst this
  exact h

/-- Append a call that does not touch handles. -/
theorem cc_FInv_call {N filters global sites live R w w' handles} {ls : cc_CLogSt} (a : Nat) (c : SubCall)
    (h : cc_FInv N filters global sites live R w handles ls)
    (hc1 : ∀ id k p f, c ≠ .newSpan id k p f) (hc2 : ∀ id, c ≠ .clone id) (hc3 : ∀ id, c ≠ .tryClose id)
    (hw : cc_WInv N filters global sites (ls.calls.reverse ++ [(a, c)])
      (cc_hierFinal (ls.calls.reverse ++ [(a, c)]))
      (fun id => cs_liveCnt live handles id + R id) none w') :
    cc_FInv N filters global sites live R w' handles { ls with calls := (a, c) :: ls.calls } := by
  refine ⟨h.len, ?_, ?_, ?_⟩
  · simp only [List.reverse_cons]
    rw [cc_untag_snoc, cs_maxId_snoc_nc _ hc1]
    exact h.nx
  · simp only [List.reverse_cons]
    exact hw
  · intro id
    simp only [List.reverse_cons]
    rw [cc_untag_snoc, cs_handles_snoc, ← h.hd id]
    show (match c with
      | .newSpan id' _ _ _ => if id' = id then cs_handles (cc_untag ls.calls.reverse) id + 1
          else cs_handles (cc_untag ls.calls.reverse) id
      | .clone id' => if id' = id then cs_handles (cc_untag ls.calls.reverse) id + 1
          else cs_handles (cc_untag ls.calls.reverse) id
      | .tryClose id' => if id' = id then cs_handles (cc_untag ls.calls.reverse) id - 1
          else cs_handles (cc_untag ls.calls.reverse) id
      | _ => cs_handles (cc_untag ls.calls.reverse) id) = _
    cases c with
    | newSpan id' k p f => exact absurd rfl (hc1 id' k p f)
    | clone id' => exact absurd rfl (hc2 id')
    | tryClose id' => exact absurd rfl (hc3 id')
    | _ => rfl

theorem cc_rel_ensure {N filters global sites live R} {a : Nat} {fe1 : FE CapWorld} {fe2 : FE cc_CLogSt}
    (h : cc_Rel N filters global sites live R fe1 fe2) (k : Nat) :
    cc_Rel N filters global sites live R (ensureRegistered (capSub a) sites fe1 k)
      (ensureRegistered (cc_clogSub global a) sites fe2 k) ∧
    (ensureRegistered (capSub a) sites fe1 k).handles = fe1.handles := by
  obtain ⟨h1, h2, h3⟩ := h
  unfold ensureRegistered
  rw [h2]
  by_cases hk : fe2.registered.contains k = true
  · rw [if_pos hk, if_pos hk]
    exact ⟨⟨h1, h2, h3⟩, rfl⟩
  · rw [if_neg hk, if_neg hk]
    refine ⟨⟨h1, rfl, ?_⟩, rfl⟩
    show cc_FInv N filters global sites live R fe1.sub fe1.handles
      { fe2.sub with calls := (a, .register k (sites.getD k default)) :: fe2.sub.calls }
    exact cc_FInv_call a _ h3 (by intros; simp) (by intros; simp) (by intros; simp)
      (cc_sim_register h3.w a k _)

/-- An explicit parent that resolves to a span id is a live handle. -/
theorem cc_parent_live {N filters global sites live R} {fe1 : FE CapWorld} {ls : cc_CLogSt}
    (h : cc_FInv N filters global sites live R fe1.sub fe1.handles ls) (p : PParent)
    (hp : ∀ s, p = .handle s → live.getD s false = true) :
    ∀ q, resolveParent fe1 p = .explicit q → (fe1.sub.reg.spans.get q).isSome := by
  intro q hq
  cases p with
  | ctx => simp [resolveParent] at hq
  | root => simp [resolveParent] at hq
  | handle s =>
    simp only [resolveParent, FE.handle, FE.handleSite] at hq
    cases hh : (fe1.handles[s]?).join with
    | none => simp [hh] at hq
    | some idk =>
      obtain ⟨id, k⟩ := idk
      simp [hh] at hq
      subst hq
      exact (cc_FInv_live h (hp s rfl) hh).2

theorem cc_rel_newCore {N filters global sites live R} {a : Nat} (ha : a < N)
    {fe1 : FE CapWorld} {fe2 : FE cc_CLogSt}
    (h : cc_Rel N filters global sites live R fe1 fe2) (k : Nat) (p : PParent) (vals : PVals)
    (hp : ∀ s, p = .handle s → live.getD s false = true) :
    cc_Rel N filters global sites (live ++ [true]) R (cs_newCore (capSub a) sites k p vals fe1)
      (cs_newCore (cc_clogSub global a) sites k p vals fe2) := by
  obtain ⟨h1, h2, h3⟩ := h
  unfold cs_newCore
  have hen : (capSub a).enabled fe1.sub (sites.getD k default) =
      (cc_clogSub global a).enabled fe2.sub (sites.getD k default) := by
    show levelEnabled fe1.sub.global _ = levelEnabled global _
    rw [h3.w.gl]
  rw [hen]
  cases he : (cc_clogSub global a).enabled fe2.sub (sites.getD k default) with
  | false =>
    simp only [Bool.false_eq_true, if_false]
    refine ⟨by simp [h1], h2, ?_⟩
    have hcnt : ∀ id, cs_liveCnt (live ++ [true]) (fe1.handles ++ [none]) id = cs_liveCnt live fe1.handles id := by
      intro id
      rw [cs_liveCnt_append _ _ _ _ _ h3.len]
      simp
    refine ⟨by simp [h3.len], h3.nx, ?_, ?_⟩
    · exact cc_WInv_H_congr h3.w (fun y => by simp only [hcnt])
    · intro id; rw [hcnt]; exact h3.hd id
  | true =>
    simp only [if_true]
    rw [cs_resolveParent_eq fe1 fe2 h1 p]
    have hcnt : ∀ y, cs_liveCnt (live ++ [true]) (fe1.handles ++ [some (fe1.sub.reg.next, k)]) y =
        cs_liveCnt live fe1.handles y + if y = fe1.sub.reg.next then 1 else 0 := by
      intro y
      rw [cs_liveCnt_append _ _ _ _ _ h3.len]
      by_cases hy : y = fe1.sub.reg.next
      · subst hy; simp
      · have : ¬ fe1.sub.reg.next = y := fun h' => hy h'.symm
        simp [hy, this]
    have hsim := cc_sim_newSpan (H' := fun y => cs_liveCnt (live ++ [true])
        (fe1.handles ++ [some (fe1.sub.reg.next, k)]) y + R y) ha h3.w k (resolveParent fe2 p)
      (fieldsOf (sites.getD k default) vals)
      (by rw [← cs_resolveParent_eq fe1 fe2 h1 p]; exact cc_parent_live h3 p hp)
      (by
        intro y
        have := hcnt y
        show cs_liveCnt (live ++ [true]) (fe1.handles ++ [some (fe1.sub.reg.next, k)]) y + R y =
          cs_liveCnt live fe1.handles y + R y + if y = fe1.sub.reg.next then 1 else 0
        omega)
    obtain ⟨hid, hw⟩ := hsim
    have hnext : fe1.sub.reg.next = fe2.sub.next := by rw [h3.w.next, h3.nx]
    have hid2 : ((capSub a).newSpan fe1.sub k (sites.getD k default) (resolveParent fe2 p)
        (fieldsOf (sites.getD k default) vals)).2 = fe2.sub.next := by rw [hid, h3.nx]
    generalize (capSub a).newSpan fe1.sub k (sites.getD k default) (resolveParent fe2 p)
        (fieldsOf (sites.getD k default) vals) = r at hid hid2 hw ⊢
    obtain ⟨w', id'⟩ := r
    simp only at hid hid2 hw
    subst hid2
    change cc_Rel N filters global sites (live ++ [true]) R ⟨w', _, _⟩
      ⟨⟨fe2.sub.next + 1, (a, SubCall.newSpan fe2.sub.next k _ _) :: fe2.sub.calls⟩, _, _⟩
    refine ⟨by rw [h1]; rfl, h2, ?_⟩
    have hnx := h3.nx
    refine ⟨by simp [h3.len], ?_, ?_, ?_⟩
    · simp only [List.reverse_cons]
      rw [cc_untag_snoc, cs_maxId_snoc]; simp only; omega
    · simp only [List.reverse_cons]
      rw [hnext, hnx] at hw
      rw [hnx]
      exact hw
    · intro id
      simp only [List.reverse_cons]
      rw [cc_untag_snoc, cs_handles_snoc, h3.hd id]
      have := hcnt id
      rw [hnext] at this
      simp only []
      by_cases hy : fe2.sub.next = id
      · subst hy
        simp only [if_true] at this ⊢
        omega
      · have hy' : ¬ id = fe2.sub.next := fun h' => hy h'.symm
        simp only [hy, hy', if_false] at this ⊢
        omega

theorem cc_rel_evtCore {N filters global sites live R} {a : Nat} {fe1 : FE CapWorld} {fe2 : FE cc_CLogSt}
    (h : cc_Rel N filters global sites live R fe1 fe2) (k : Nat) (p : PParent) (vals : PVals)
    (hp : ∀ s, p = .handle s → live.getD s false = true) :
    cc_Rel N filters global sites live R (cs_evtCore (capSub a) sites k p vals fe1)
      (cs_evtCore (cc_clogSub global a) sites k p vals fe2) := by
  obtain ⟨h1, h2, h3⟩ := h
  unfold cs_evtCore
  have hen : (capSub a).enabled fe1.sub (sites.getD k default) =
      (cc_clogSub global a).enabled fe2.sub (sites.getD k default) := by
    show levelEnabled fe1.sub.global _ = levelEnabled global _
    rw [h3.w.gl]
  rw [hen]
  cases he : (cc_clogSub global a).enabled fe2.sub (sites.getD k default) with
  | false =>
    simp only [Bool.false_eq_true, if_false]
    exact ⟨h1, h2, h3⟩
  | true =>
    simp only [if_true]
    rw [cs_resolveParent_eq fe1 fe2 h1 p]
    refine ⟨h1, h2, ?_⟩
    show cc_FInv N filters global sites live R _ fe1.handles
      { fe2.sub with calls := (a, .event k (resolveParent fe2 p) (fieldsOf (sites.getD k default) vals)) :: fe2.sub.calls }
    refine cc_FInv_call a _ h3 (by intros; simp) (by intros; simp) (by intros; simp) ?_
    apply cc_sim_event h3.w
    rw [← cs_resolveParent_eq fe1 fe2 h1 p]
    exact cc_parent_live h3 p hp

theorem cc_rel_step {N : Nat} {filters : List LFilter} {global : Option Nat} {sites : List CallSite}
    {a : Nat} (ha : a < N) (R : Nat → Nat) (st st' : WfSt) (fe1 : FE CapWorld) (fe2 : FE cc_CLogSt)
    (op : POp) (h : cc_Rel N filters global sites st.live R fe1 fe2) (hw : wfStep sites st op = some st') :
    cc_Rel N filters global sites st'.live R (feStep (capSub a) sites fe1 op)
      (feStep (cc_clogSub global a) sites fe2 op) := by
  obtain ⟨spanOf, live, nSpans, entered⟩ := st
  simp only at h
  cases op with
  | reg k =>
    simp only [wfStep, Option.some.injEq] at hw
    subst hw
    obtain ⟨h1, h2, h3⟩ := h
    simp only [feStep]
    refine ⟨h1, by rw [h2], ?_⟩
    show cc_FInv N filters global sites live R fe1.sub fe1.handles
      { fe2.sub with calls := (a, .register k (sites.getD k default)) :: fe2.sub.calls }
    exact cc_FInv_call a _ h3 (by intros; simp) (by intros; simp) (by intros; simp)
      (cc_sim_register h3.w a k _)
  | new k p vals =>
    simp only [wfStep] at hw
    split at hw
    · rename_i hc
      simp only [Bool.and_eq_true, decide_eq_true_eq] at hc
      obtain ⟨⟨⟨hp, _⟩, _⟩, _⟩ := hc
      simp only [Option.some.injEq] at hw
      subst hw
      rw [cs_feStep_new, cs_feStep_new]
      obtain ⟨he, _⟩ := cc_rel_ensure (a := a) h k
      apply cc_rel_newCore ha he
      intro s hs; subst hs; exact hp
    · simp at hw
  | evt k p vals =>
    simp only [wfStep] at hw
    split at hw
    · rename_i hc
      simp only [Bool.and_eq_true, decide_eq_true_eq] at hc
      obtain ⟨⟨⟨hp, _⟩, _⟩, _⟩ := hc
      simp only [Option.some.injEq] at hw
      subst hw
      rw [cs_feStep_evt, cs_feStep_evt]
      obtain ⟨he, _⟩ := cc_rel_ensure (a := a) h k
      apply cc_rel_evtCore he
      intro s hs; subst hs; exact hp
    · simp at hw
  | record s vals =>
    simp only [wfStep] at hw
    split at hw
    · rename_i hc
      simp only [Bool.and_eq_true, decide_eq_true_eq] at hc
      obtain ⟨⟨hl, _⟩, _⟩ := hc
      simp only [Option.some.injEq] at hw
      subst hw
      obtain ⟨h1, h2, h3⟩ := h
      cases hh : (fe1.handles[s]?).join with
      | none =>
        have hh2 : (fe2.handles[s]?).join = none := by rw [← h1]; exact hh
        simp only [feStep, FE.handleSite, hh, hh2]
        exact ⟨h1, h2, h3⟩
      | some idk =>
        obtain ⟨id, k⟩ := idk
        have hh2 : (fe2.handles[s]?).join = some (id, k) := by rw [← h1]; exact hh
        simp only [feStep, FE.handleSite, hh, hh2]
        refine ⟨h1, h2, ?_⟩
        show cc_FInv N filters global sites live R _ fe1.handles
          { fe2.sub with calls := (a, .record id (fieldsOf (sites.getD k default) vals)) :: fe2.sub.calls }
        exact cc_FInv_call a _ h3 (by intros; simp) (by intros; simp) (by intros; simp)
          (cc_sim_record h3.w a id _ (cc_FInv_live h3 hl hh).2)
    · simp at hw
  | fol sa sb =>
    simp only [wfStep] at hw
    split at hw
    · rename_i hc
      simp only [Bool.and_eq_true] at hc
      obtain ⟨hla, hlb⟩ := hc
      simp only [Option.some.injEq] at hw
      subst hw
      obtain ⟨h1, h2, h3⟩ := h
      cases hha : (fe1.handles[sa]?).join with
      | none =>
        have hha2 : (fe2.handles[sa]?).join = none := by rw [← h1]; exact hha
        simp only [feStep, FE.handle, FE.handleSite, hha, hha2, Option.map_none]
        exact ⟨h1, h2, h3⟩
      | some idk =>
        obtain ⟨ia, ka⟩ := idk
        have hha2 : (fe2.handles[sa]?).join = some (ia, ka) := by rw [← h1]; exact hha
        cases hhb : (fe1.handles[sb]?).join with
        | none =>
          have hhb2 : (fe2.handles[sb]?).join = none := by rw [← h1]; exact hhb
          simp only [feStep, FE.handle, FE.handleSite, hha, hha2, hhb, hhb2, Option.map_none, Option.map_some]
          exact ⟨h1, h2, h3⟩
        | some idk2 =>
          obtain ⟨ib, kb⟩ := idk2
          have hhb2 : (fe2.handles[sb]?).join = some (ib, kb) := by rw [← h1]; exact hhb
          simp only [feStep, FE.handle, FE.handleSite, hha, hha2, hhb, hhb2, Option.map_some]
          refine ⟨h1, h2, ?_⟩
          show cc_FInv N filters global sites live R _ fe1.handles
            { fe2.sub with calls := (a, .follows ia ib) :: fe2.sub.calls }
          exact cc_FInv_call a _ h3 (by intros; simp) (by intros; simp) (by intros; simp)
            (cc_sim_follows h3.w a ia ib (cc_FInv_live h3 hla hha).2 (cc_FInv_live h3 hlb hhb).2)
    · simp at hw
  | ent s =>
    simp only [wfStep] at hw
    split at hw
    · rename_i hl
      simp only [Option.some.injEq] at hw
      subst hw
      obtain ⟨h1, h2, h3⟩ := h
      cases hh : (fe1.handles[s]?).join with
      | none =>
        have hh2 : (fe2.handles[s]?).join = none := by rw [← h1]; exact hh
        simp only [feStep, FE.handle, FE.handleSite, hh, hh2, Option.map_none]
        exact ⟨h1, h2, h3⟩
      | some idk =>
        obtain ⟨id, k⟩ := idk
        have hh2 : (fe2.handles[s]?).join = some (id, k) := by rw [← h1]; exact hh
        simp only [feStep, FE.handle, FE.handleSite, hh, hh2, Option.map_some]
        refine ⟨h1, h2, ?_⟩
        show cc_FInv N filters global sites live R _ fe1.handles
          { fe2.sub with calls := (a, .enter id) :: fe2.sub.calls }
        exact cc_FInv_call a _ h3 (by intros; simp) (by intros; simp) (by intros; simp)
          (cc_sim_enter ha h3.w id (cc_FInv_live h3 hl hh).2)
    · simp at hw
  | ext s =>
    simp only [wfStep] at hw
    split at hw
    · rename_i hc
      simp only [Bool.and_eq_true] at hc
      obtain ⟨hl, _⟩ := hc
      simp only [Option.some.injEq] at hw
      subst hw
      obtain ⟨h1, h2, h3⟩ := h
      cases hh : (fe1.handles[s]?).join with
      | none =>
        have hh2 : (fe2.handles[s]?).join = none := by rw [← h1]; exact hh
        simp only [feStep, FE.handle, FE.handleSite, hh, hh2, Option.map_none]
        exact ⟨h1, h2, h3⟩
      | some idk =>
        obtain ⟨id, k⟩ := idk
        have hh2 : (fe2.handles[s]?).join = some (id, k) := by rw [← h1]; exact hh
        simp only [feStep, FE.handle, FE.handleSite, hh, hh2, Option.map_some]
        refine ⟨h1, h2, ?_⟩
        show cc_FInv N filters global sites live R _ fe1.handles
          { fe2.sub with calls := (a, .exit id) :: fe2.sub.calls }
        exact cc_FInv_call a _ h3 (by intros; simp) (by intros; simp) (by intros; simp)
          (cc_sim_exit ha h3.w id (cc_FInv_live h3 hl hh).1)
    · simp at hw
  | cln s =>
    simp only [wfStep] at hw
    split at hw
    · rename_i hl
      simp only [Option.some.injEq] at hw
      subst hw
      obtain ⟨h1, h2, h3⟩ := h
      cases hh : (fe1.handles[s]?).join with
      | none =>
        have hh2 : (fe2.handles[s]?).join = none := by rw [← h1]; exact hh
        simp only [feStep, FE.handleSite, hh, hh2]
        refine ⟨by simp [h1], h2, ?_⟩
        have hcnt : ∀ id, cs_liveCnt (live ++ [true]) (fe1.handles ++ [none]) id = cs_liveCnt live fe1.handles id := by
          intro id
          rw [cs_liveCnt_append _ _ _ _ _ h3.len]
          simp
        refine ⟨by simp [h3.len], h3.nx, ?_, ?_⟩
        · exact cc_WInv_H_congr h3.w (fun y => by simp only [hcnt])
        · intro id; rw [hcnt]; exact h3.hd id
      | some idk =>
        obtain ⟨id, k⟩ := idk
        have hh2 : (fe2.handles[s]?).join = some (id, k) := by rw [← h1]; exact hh
        simp only [feStep, FE.handleSite, hh, hh2]
        refine ⟨by simp [h1], h2, ?_⟩
        show cc_FInv N filters global sites (live ++ [true]) R _ (fe1.handles ++ [some (id, k)])
          { fe2.sub with calls := (a, .clone id) :: fe2.sub.calls }
        have hcnt : ∀ y, cs_liveCnt (live ++ [true]) (fe1.handles ++ [some (id, k)]) y =
            cs_liveCnt live fe1.handles y + if y = id then 1 else 0 := by
          intro y
          rw [cs_liveCnt_append _ _ _ _ _ h3.len]
          by_cases hy : y = id
          · subst hy; simp
          · have : ¬ id = y := fun h' => hy h'.symm
            simp [hy, this]
        refine ⟨by simp [h3.len], ?_, ?_, ?_⟩
        · simp only [List.reverse_cons]
          rw [cc_untag_snoc, cs_maxId_snoc]; exact h3.nx
        · simp only [List.reverse_cons]
          refine cc_sim_clone ha h3.w id (cc_FInv_live h3 hl hh).2 ?_
          intro y
          have := hcnt y
          show cs_liveCnt (live ++ [true]) (fe1.handles ++ [some (id, k)]) y + R y =
            cs_liveCnt live fe1.handles y + R y + if y = id then 1 else 0
          omega
        · intro y
          simp only [List.reverse_cons]
          rw [cc_untag_snoc, cs_handles_snoc, h3.hd y]
          have := hcnt y
          simp only []
          by_cases hy : id = y
          · subst hy
            simp only [if_true] at this ⊢
            omega
          · have hne : ¬ y = id := fun h' => hy h'.symm
            simp only [hy, hne, if_false] at this ⊢
            omega
    · simp at hw
  | drp s =>
    simp only [wfStep] at hw
    split at hw
    · rename_i hl
      split at hw
      · simp at hw
      · simp only [Option.some.injEq] at hw
        subst hw
        obtain ⟨h1, h2, h3⟩ := h
        cases hh : (fe1.handles[s]?).join with
        | none =>
          have hh2 : (fe2.handles[s]?).join = none := by rw [← h1]; exact hh
          simp only [feStep, FE.handle, FE.handleSite, hh, hh2, Option.map_none]
          refine ⟨h1, h2, ?_⟩
          have hcnt : ∀ id, cs_liveCnt (live.set s false) fe1.handles id = cs_liveCnt live fe1.handles id := by
            intro id
            have := cs_liveCnt_set live fe1.handles s id hl h3.len
            rw [hh] at this
            simpa using this
          refine ⟨by simp [h3.len], h3.nx, ?_, ?_⟩
          · exact cc_WInv_H_congr h3.w (fun y => by simp only [hcnt])
          · intro id; rw [hcnt]; exact h3.hd id
        | some idk =>
          obtain ⟨id, k⟩ := idk
          have hh2 : (fe2.handles[s]?).join = some (id, k) := by rw [← h1]; exact hh
          simp only [feStep, FE.handle, FE.handleSite, hh, hh2, Option.map_some]
          refine ⟨h1, h2, ?_⟩
          show cc_FInv N filters global sites (live.set s false) R _ fe1.handles
            { fe2.sub with calls := (a, .tryClose id) :: fe2.sub.calls }
          have hcnt : ∀ y, cs_liveCnt (live.set s false) fe1.handles y + (if y = id then 1 else 0) =
              cs_liveCnt live fe1.handles y := by
            intro y
            have := cs_liveCnt_set live fe1.handles s y hl h3.len
            rw [hh] at this
            simp only [Option.map_some, Option.some.injEq] at this
            by_cases hy : y = id
            · subst hy; simpa using this
            · have hne : ¬ id = y := fun h' => hy h'.symm
              simpa [hy, hne] using this
          refine ⟨by simp [h3.len], ?_, ?_, ?_⟩
          · simp only [List.reverse_cons]
            rw [cc_untag_snoc, cs_maxId_snoc]; exact h3.nx
          · simp only [List.reverse_cons]
            refine cc_sim_tryClose ha h3.w id (cc_FInv_live h3 hl hh).1 ?_
            intro y
            have := hcnt y
            show cs_liveCnt (live.set s false) fe1.handles y + R y + (if y = id then 1 else 0) =
              cs_liveCnt live fe1.handles y + R y
            omega
          · intro y
            simp only [List.reverse_cons]
            rw [cc_untag_snoc, cs_handles_snoc, h3.hd y]
            have := hcnt y
            simp only []
            by_cases hy : id = y
            · subst hy
              simp only [if_true] at this ⊢
              omega
            · have hne : ¬ y = id := fun h' => hy h'.symm
              simp only [hy, hne, if_false] at this ⊢
              omega
    · simp at hw

end TT
