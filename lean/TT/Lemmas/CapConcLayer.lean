/-
  The invariant between the layered subscriber model (`CapWorld`, several threads) and the
  concurrent reference description of the tagged call log so far; the `try_close` cascade.
  (Thread-aware version of `CapSpecLayer`.)
-/
import TT.Lemmas.CapConcCalls
import TT.Lemmas.CapConcReg

namespace TT

structure cc_LayerInv (sites : List CallSite) (flt : LFilter) (i : Nat) (calls : List (Nat × SubCall))
    (w : CapWorld) : Prop where
  st : w.storages.getD i {} = cs_mk (cc_refSpans flt sites calls) (cc_refEvents flt sites calls)
    (cs_fns flt sites (cc_untag calls) (cs_clOf w.reg))
  ext : ∀ id s, w.reg.spans.get id = some s → s.ext.get i = (cs_cap flt sites (cc_untag calls)).get id

structure cc_WInv (N : Nat) (filters : List LFilter) (global : Option Nat) (sites : List CallSite)
    (calls : List (Nat × SubCall)) (hier : cc_Hier) (H : Nat → Nat) (x : Option Nat) (w : CapWorld) : Prop where
  np : w.panicked = false
  fl : w.filters = filters
  gl : w.global = global
  len : w.storages.length = filters.length
  ok : cc_CallsOK calls
  next : w.reg.next = cs_maxId (cc_untag calls) + 1
  stk : w.reg.stacks = hier.stacks
  ri : cc_RI N hier.stack w.reg.next w.reg.spans.get hier.parent H x
  lay : ∀ i (hi : i < filters.length), cc_LayerInv sites filters[i] i calls w

theorem cc_WInv_stack {N filters global sites calls hier H x w}
    (h : cc_WInv N filters global sites calls hier H x w) (t : Nat) : w.reg.stack t = hier.stack t := by
  unfold Reg.stack cc_Hier.stack
  rw [h.stk]

/-- The single-stack registry invariant seen from thread `a`. -/
theorem cc_WInv_riA {N filters global sites calls hier H x w}
    (h : cc_WInv N filters global sites calls hier H x w) {a : Nat} (ha : a < N) :
    cs_RI (hier.stack a) w.reg.next w.reg.spans.get hier.parent (cc_Hx N hier.stack a H) x :=
  cc_RI_to h.ri ha

theorem cc_stack_updS (h : cc_Hier) (a : Nat) (stk : List (Nat × Bool)) (par : AMap Nat (Option Nat)) :
    cc_Hier.stack { stacks := h.stacks.insert a stk, parent := par } = cc_updS h.stack a stk := by
  funext t
  rw [cc_stack_insert]
  rfl

/-! ### Consequences of the invariant -/

theorem cc_WInv_scopeHyp {N filters global sites calls hier H x w}
    (h : cc_WInv N filters global sites calls hier H x w) (i : Nat) (hi : i < filters.length) :
    ∀ id s, w.reg.spans.get id = some s → s.parent = (hier.parent.get id).join ∧
      s.ext.get i = (cs_cap filters[i] sites (cc_untag calls)).get id ∧
      ∀ p, s.parent = some p → p < id ∧ (w.reg.spans.get p).isSome := by
  intro id s hs
  exact ⟨(h.ri.ex id s hs).2.2.1, (h.lay i hi).ext id s hs, fun p hp => h.ri.pr id s p hs hp⟩

theorem cc_WInv_spansLen {N filters global sites calls hier H x w}
    (h : cc_WInv N filters global sites calls hier H x w) (i : Nat) (hi : i < filters.length) :
    (w.storages.getD i {}).spans.length = (cc_refSpans filters[i] sites calls).length := by
  rw [(h.lay i hi).st, cs_mk_spans_length]

theorem cc_WInv_hval {N filters global sites calls hier H x w}
    (h : cc_WInv N filters global sites calls hier H x w) {id : Nat} {s : RegSpan}
    (hs : w.reg.spans.get id = some s) :
    ∀ i c, i < filters.length → s.ext.get i = some c → c < (w.storages.getD i {}).spans.length := by
  intro i c hi hc
  rw [cc_WInv_spansLen h i hi]
  rw [(h.lay i hi).ext id s hs] at hc
  exact cc_cap_get_lt hc

/-- Storage of layer `i` after notifying span `id` with `g`, when `g` realises the step from the
    attribute family `F` to `F'` at `id`. -/
theorem cc_layer_notify {flt : LFilter} {sites : List CallSite} {calls : List (Nat × SubCall)}
    (hok : cc_CallsOK calls) (F F' : cs_Fns) (id : Nat) (g : CapSpan → CapSpan)
    (hag : ∀ y, y ≠ id → F.AgreeAt F' y)
    (hg : ∀ S E s ci, s.id = id → g (cs_span S E F s ci) = cs_span S E F' s ci) :
    (match (cs_cap flt sites (cc_untag calls)).get id with
      | none => cs_mk (cc_refSpans flt sites calls) (cc_refEvents flt sites calls) F
      | some c => { cs_mk (cc_refSpans flt sites calls) (cc_refEvents flt sites calls) F with
          spans := modifyAt (cs_mk (cc_refSpans flt sites calls) (cc_refEvents flt sites calls) F).spans c g })
      = cs_mk (cc_refSpans flt sites calls) (cc_refEvents flt sites calls) F' := by
  cases hc : (cs_cap flt sites (cc_untag calls)).get id with
  | none =>
    simp only
    apply cs_mk_congr
    intro s hs
    exact hag s.id (cc_cap_none_not_mem hc s hs)
  | some c =>
    simp only
    obtain ⟨s, hs, hsid⟩ := cc_cap_get_span hc
    apply cs_mk_modify _ _ F F' c s g hs
    · intro j s' hj he
      exact cc_refSpans_uniq hok hc j s' hj (by rw [he, hsid])
    · intro y hy; exact hag y (by rw [← hsid]; exact hy)
    · exact hg _ _ s c hsid

/-! ### The `try_close` cascade -/

theorem cc_closeStep_inv {N filters global sites calls hier H} {w : CapWorld} {id : Nat} {s : RegSpan}
    {a : Nat} (ha : a < N)
    (h : cc_WInv N filters global sites calls hier H (some id) w) (hs : w.reg.spans.get id = some s)
    (hr : ¬ s.refs > 1) :
    cc_WInv N filters global sites calls hier H s.parent (cs_closeStep w id s) := by
  -- the world handed to `notifySpan`
  let w0 : CapWorld :=
    { w with reg := { w.reg with spans := w.reg.spans.insert id { s with refs := 0 } } }
  have hs0 : w0.reg.spans.get id = some { s with refs := 0 } := by
    simp [w0, sd_get_insert]
  have hst0 : ∀ i, w0.storages.getD i {} = w.storages.getD i {} := fun _ => rfl
  have hspec := cs_notifySpan_spec w0 id (fun cs => { cs with closed := true }) { s with refs := 0 }
    h.np (by show w.storages.length = w.filters.length; rw [h.len, h.fl]) hs0 (by
      intro i c hi hc
      rw [hst0]
      exact cc_WInv_hval h hs i c (by rw [← h.fl]; exact hi) hc)
  obtain ⟨hnp1, hreg1, hfl1, hgl1, hlen1, hst1⟩ := hspec
  have hget : (cs_closeStep w id s).reg.spans.get = cs_upd w.reg.spans.get id none := by
    show (AMap.erase (notifySpan w0 id _).reg.spans id).get = _
    rw [hreg1, cs_get_erase_upd]
    show cs_upd (AMap.insert w.reg.spans id _).get id none = _
    rw [cs_get_insert_upd, cs_upd_upd]
  have hnext : (cs_closeStep w id s).reg.next = w.reg.next := by
    show (notifySpan w0 id _).reg.next = _
    rw [hreg1]
  have hstacks : (cs_closeStep w id s).reg.stacks = w.reg.stacks := by
    show (notifySpan w0 id _).reg.stacks = _
    rw [hreg1]
  refine ⟨hnp1, ?_, ?_, ?_, h.ok, ?_, ?_, ?_, ?_⟩
  · show (notifySpan w0 id _).filters = filters
    rw [hfl1]; exact h.fl
  · show (notifySpan w0 id _).global = global
    rw [hgl1]; exact h.gl
  · show (notifySpan w0 id _).storages.length = filters.length
    rw [hlen1]; exact h.len
  · rw [hnext]; exact h.next
  · rw [hstacks]
    exact h.stk
  · rw [hnext, hget]
    exact cc_RI_lift_same h.ri ha (cs_RI_erase (cc_RI_to h.ri ha) hs hr)
  · intro i hi
    have hcl : ∀ y, y ≠ id → cs_clOf (cs_closeStep w id s).reg y = cs_clOf w.reg y := by
      intro y hy
      unfold cs_clOf
      rw [hget, cs_upd_ne _ _ _ hy]
    have hclid : cs_clOf (cs_closeStep w id s).reg id = true := by
      unfold cs_clOf
      rw [hget, cs_upd_same]; rfl
    constructor
    · show (notifySpan w0 id _).storages.getD i {} = _
      rw [hst1 i (by show i < w.filters.length; rw [h.fl]; exact hi), hst0, (h.lay i hi).st]
      have hext : ({ s with refs := 0 } : RegSpan).ext.get i = (cs_cap filters[i] sites (cc_untag calls)).get id :=
        (h.lay i hi).ext id s hs
      rw [hext]
      apply cc_layer_notify h.ok
      · intro y hy
        exact cs_fns_agree_cl _ _ _ _ _ y (hcl y hy).symm
      · intro S E s' ci hid
        simp only [cs_span_def, cs_fns, hid, hclid]
    · intro y sy hy
      rw [hget] at hy
      have hyi : y ≠ id := by
        intro he; subst he; simp [cs_upd] at hy
      rw [cs_upd_ne _ _ _ hyi] at hy
      exact (h.lay i hi).ext y sy hy

theorem cc_tryClose_inv {N filters global sites calls hier H} {a : Nat} (ha : a < N) :
    ∀ (fuel : Nat) (w : CapWorld) (id : Nat),
      cc_WInv N filters global sites calls hier H (some id) w → id < fuel →
      cc_WInv N filters global sites calls hier H none (tryCloseFuel fuel w id) := by
  intro fuel
  induction fuel with
  | zero => intro w id _ h; omega
  | succ n ih =>
    intro w id h hid
    rw [cs_tryCloseFuel_succ]
    have hsome := h.ri.pend id rfl
    cases hs : w.reg.spans.get id with
    | none => simp [hs] at hsome
    | some s =>
      simp only
      by_cases hr : s.refs > 1
      · rw [if_pos hr]
        have hget : (AMap.insert w.reg.spans id { s with refs := s.refs - 1 }).get =
            cs_upd w.reg.spans.get id (some { s with refs := s.refs - 1 }) := cs_get_insert_upd _ _ _
        have hri := cc_RI_to h.ri ha
        have hex := hri.ex id s hs
        refine ⟨h.np, h.fl, h.gl, h.len, h.ok, h.next, h.stk, ?_, ?_⟩
        · show cc_RI N _ w.reg.next (AMap.insert w.reg.spans id _).get _ H none
          rw [hget]
          refine cc_RI_lift_same h.ri ha
            (cs_RI_set (s' := { s with refs := s.refs - 1 }) hri hs rfl hri.sok ?_ ?_ ?_)
          · simp only [if_true, reduceCtorEq, if_false] at hex ⊢
            omega
          · intro y hy
            have : ¬ some id = some y := by simpa using fun h' => hy h'.symm
            simp [this]
          · intro y hy; cases hy
        · intro i hi
          have hcl : cs_clOf { w.reg with spans := AMap.insert w.reg.spans id { s with refs := s.refs - 1 } }
              = cs_clOf w.reg := by
            funext y
            unfold cs_clOf
            show ((AMap.insert w.reg.spans id _).get y).isNone = _
            rw [hget]
            by_cases hy : y = id
            · subst hy; simp [cs_upd, hs]
            · rw [cs_upd_ne _ _ _ hy]
          constructor
          · show w.storages.getD i {} = _
            rw [hcl]
            exact (h.lay i hi).st
          · intro y sy hy
            have hy' : cs_upd w.reg.spans.get id (some { s with refs := s.refs - 1 }) y = some sy := by
              rw [← hget]; exact hy
            by_cases hyi : y = id
            · subst hyi
              rw [cs_upd_same] at hy'
              cases hy'
              exact (h.lay i hi).ext y s hs
            · rw [cs_upd_ne _ _ _ hyi] at hy'
              exact (h.lay i hi).ext y sy hy'
      · rw [if_neg hr]
        have hstep := cc_closeStep_inv ha h hs hr
        cases hp : s.parent with
        | none =>
          simp only
          rw [hp] at hstep
          exact hstep
        | some p =>
          simp only
          rw [hp] at hstep
          rw [hstep.np]
          simp only [Bool.false_eq_true, if_false]
          have := (h.ri.pr id s p hs hp).1
          exact ih _ p hstep (by omega)

end TT
