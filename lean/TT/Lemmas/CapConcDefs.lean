/-
  Helper definitions for C19 (`C19_all_schedules`, `C19_thread_order`).

  The interleaved logging subscriber and the concurrent reference (`expectedStorageC` and its
  ingredients) are defined in TT/Props/C19.lean, which imports the helper files; the helper files
  therefore work with literal copies of those definitions (prefix `cc_`; `CLogSt` ↦ `cc_CLogSt`,
  `CLogConc` ↦ `cc_CLogConc`, `HierStC` ↦ `cc_Hier`). C19.lean shows that the originals coincide
  with the copies. Everything that does not depend on threads is taken from the `cs_` development
  of C05 (on the untagged log `cc_untag`).
-/
import TT.Model.CaptureConc
import TT.Lemmas.CapSpecMain

namespace TT

/-! ### The interleaved call log -/

structure cc_CLogSt where
  next : Nat := 1
  calls : List (Nat × SubCall) := []      -- (thread, call), newest first

def cc_clogSub (global : Option Nat) (tid : Nat) : Subscriber cc_CLogSt where
  enabled _ site := levelEnabled global site
  register st k site := { st with calls := (tid, .register k site) :: st.calls }
  newSpan st k _ p fields := ({ next := st.next + 1, calls := (tid, .newSpan st.next k p fields) :: st.calls }, st.next)
  record st id fields := { st with calls := (tid, .record id fields) :: st.calls }
  follows st a b := { st with calls := (tid, .follows a b) :: st.calls }
  enter st id := { st with calls := (tid, .enter id) :: st.calls }
  exit st id := { st with calls := (tid, .exit id) :: st.calls }
  clone st id := { st with calls := (tid, .clone id) :: st.calls }
  tryClose st id := { st with calls := (tid, .tryClose id) :: st.calls }
  event st k _ p fields := { st with calls := (tid, .event k p fields) :: st.calls }

structure cc_CLogConc where
  st : cc_CLogSt := {}
  shared : List (Option (Nat × Nat)) := []
  fes : AMap Nat (List (Option (Nat × Nat)) × List Nat) := []

def cc_CLogConc.setup (global : Option Nat) (sites : List CallSite) (n k : Nat) : cc_CLogConc :=
  let fe := runProg (cc_clogSub global mainTid) sites { sub := ({} : cc_CLogSt) } (List.replicate n (POp.new k .root []))
  { st := fe.sub, shared := fe.handles }

def cc_CLogConc.step (global : Option Nat) (sites : List CallSite) (s : cc_CLogConc) (tid : Nat) (op : POp) : cc_CLogConc :=
  let (handles, registered) := (s.fes.get tid).getD (s.shared, [])
  let fe := feStep (cc_clogSub global tid) sites { sub := s.st, handles, registered } op
  { s with st := fe.sub, fes := s.fes.insert tid (fe.handles, fe.registered) }

def cc_clogSchedule (global : Option Nat) (sites : List CallSite) : cc_CLogConc → AMap Nat (List POp) → List Nat → cc_CLogConc
  | s, _, [] => s
  | s, work, t :: sched =>
    match work.get t with
    | some (op :: rest) => cc_clogSchedule global sites (s.step global sites t op) (work.insert t rest) sched
    | _ => cc_clogSchedule global sites s work sched

def cc_concLog (global : Option Nat) (sites : List CallSite) (n k : Nat) (work : AMap Nat (List POp)) (sched : List Nat) :
    List (Nat × SubCall) :=
  (cc_clogSchedule global sites (cc_CLogConc.setup global sites n k) work sched).st.calls.reverse

def cc_eraseIds : SubCall → SubCall
  | .newSpan _ k _ f => .newSpan 0 k .ctx f
  | .record _ f => .record 0 f
  | .follows _ _ => .follows 0 0
  | .enter _ => .enter 0
  | .exit _ => .exit 0
  | .clone _ => .clone 0
  | .tryClose _ => .tryClose 0
  | .event k _ f => .event k .ctx f
  | c => c

/-! ### Reference for interleaved logs -/

structure cc_Hier where
  stacks : AMap Nat (List (Nat × Bool)) := []
  parent : AMap Nat (Option Nat) := []

def cc_Hier.stack (h : cc_Hier) (tid : Nat) : List (Nat × Bool) := (h.stacks.get tid).getD []

/-- The hierarchy as seen by thread `tid` (a single-threaded `cs_Hier`). -/
def cc_proj (h : cc_Hier) (tid : Nat) : cs_Hier := ⟨h.stack tid, h.parent⟩

def cc_resolve (h : cc_Hier) (tid : Nat) : SParent → Option Nat
  | .root => none
  | .ctx => stackCurrent (h.stack tid)
  | .explicit id => some id

def cc_Hier.step (h : cc_Hier) : Nat × SubCall → cc_Hier
  | (tid, .newSpan id _ p _) => { h with parent := h.parent.insert id (cc_resolve h tid p) }
  | (tid, .enter id) => { h with stacks := h.stacks.insert tid (stackPush (h.stack tid) id) }
  | (tid, .exit id) => { h with stacks := h.stacks.insert tid (stackPop (h.stack tid) id) }
  | _ => h

def cc_hierFinal (tcalls : List (Nat × SubCall)) : cc_Hier := tcalls.foldl cc_Hier.step {}

def cc_untag (tcalls : List (Nat × SubCall)) : List SubCall := tcalls.map (·.2)

/-- Hierarchy before each call, projected to the calling thread. -/
def cc_hb : cc_Hier → List (Nat × SubCall) → List (cs_Hier × SubCall)
  | _, [] => []
  | h, c :: cs => (cc_proj h c.1, c.2) :: cc_hb (h.step c) cs

def cc_closedAtEnd (calls : List SubCall) (hier : cc_Hier) (maxId : Nat) : Nat → Nat → Bool
  | 0, _ => true
  | fuel + 1, id =>
    decide (cs_handles calls id ≤ 0) && !(hier.stacks.any fun kv => kv.2.any (·.1 == id)) &&
      ((List.range (maxId + 1)).all fun c =>
        if (hier.parent.get c).join = some id then cc_closedAtEnd calls hier maxId fuel c else true)

def cc_refSpans (flt : LFilter) (sites : List CallSite) (tcalls : List (Nat × SubCall)) : List cs_SI :=
  (cc_hb {} tcalls).filterMap
    (cs_siOf flt sites (cs_cap flt sites (cc_untag tcalls)) (cs_maxId (cc_untag tcalls) + 1))

def cc_refEvents (flt : LFilter) (sites : List CallSite) (tcalls : List (Nat × SubCall)) : List cs_EI :=
  (cc_hb {} tcalls).filterMap
    (cs_eiOf flt sites (cs_cap flt sites (cc_untag tcalls)) (cs_maxId (cc_untag tcalls) + 1))

/-- Copy of `expectedStorageC`. -/
def cc_expected (flt : LFilter) (sites : List CallSite) (tcalls : List (Nat × SubCall)) : Storage :=
  cs_mk (cc_refSpans flt sites tcalls) (cc_refEvents flt sites tcalls)
    (cs_fns flt sites (cc_untag tcalls)
      (cc_closedAtEnd (cc_untag tcalls) (cc_hierFinal tcalls) (cs_maxId (cc_untag tcalls))
        (cs_maxId (cc_untag tcalls) + 1)))

/-! ### Well-formed threads -/

def cc_sharedWf (n : Nat) : WfSt :=
  { spanOf := List.range n, live := List.replicate n true, nSpans := n }

def cc_dropsShared (n : Nat) : List POp → Bool
  | [] => false
  | .drp s :: ops => decide (s < n) || cc_dropsShared n ops
  | _ :: ops => cc_dropsShared n ops

def cc_wfThread (sites : List CallSite) (n : Nat) (ops : List POp) : Bool :=
  wfFrom sites (cc_sharedWf n) ops && !cc_dropsShared n ops

/-! ### Moving a front end along a map of subscriber states -/

def cc_feMap {σ τ : Type} (φ : σ → τ) (fe : FE σ) : FE τ :=
  { sub := φ fe.sub, handles := fe.handles, registered := fe.registered }

structure cc_SubHom {σ τ : Type} (S : Subscriber σ) (S' : Subscriber τ) (φ : σ → τ) : Prop where
  enabled : ∀ s site, S'.enabled (φ s) site = S.enabled s site
  register : ∀ s k site, S'.register (φ s) k site = φ (S.register s k site)
  newSpan : ∀ s k site p f, S'.newSpan (φ s) k site p f = (φ (S.newSpan s k site p f).1, (S.newSpan s k site p f).2)
  record : ∀ s id f, S'.record (φ s) id f = φ (S.record s id f)
  follows : ∀ s a b, S'.follows (φ s) a b = φ (S.follows s a b)
  enter : ∀ s id, S'.enter (φ s) id = φ (S.enter s id)
  exit : ∀ s id, S'.exit (φ s) id = φ (S.exit s id)
  clone : ∀ s id, S'.clone (φ s) id = φ (S.clone s id)
  tryClose : ∀ s id, S'.tryClose (φ s) id = φ (S.tryClose s id)
  event : ∀ s k site p f, S'.event (φ s) k site p f = φ (S.event s k site p f)

theorem cc_feMap_ensure {σ τ : Type} {S : Subscriber σ} {S' : Subscriber τ} {φ : σ → τ}
    (hφ : cc_SubHom S S' φ) (sites : List CallSite) (fe : FE σ) (k : Nat) :
    ensureRegistered S' sites (cc_feMap φ fe) k = cc_feMap φ (ensureRegistered S sites fe k) := by
  unfold ensureRegistered
  by_cases h : fe.registered.contains k = true
  · have h' : (cc_feMap φ fe).registered.contains k = true := h
    rw [if_pos h, if_pos h']
  · have h' : ¬ (cc_feMap φ fe).registered.contains k = true := h
    rw [if_neg h, if_neg h']
    simp only [cc_feMap, hφ.register]

theorem cc_feMap_resolve {σ τ : Type} (φ : σ → τ) (fe : FE σ) (p : PParent) :
    resolveParent (cc_feMap φ fe) p = resolveParent fe p := by
  cases p <;> rfl

theorem cc_feMap_step {σ τ : Type} {S : Subscriber σ} {S' : Subscriber τ} {φ : σ → τ}
    (hφ : cc_SubHom S S' φ) (sites : List CallSite) (fe : FE σ) (op : POp) :
    feStep S' sites (cc_feMap φ fe) op = cc_feMap φ (feStep S sites fe op) := by
  cases op with
  | reg k =>
    simp only [feStep, cc_feMap, hφ.register]
    rfl
  | new k p vals =>
    simp only [feStep]
    rw [cc_feMap_ensure hφ, cc_feMap_resolve]
    have he : S'.enabled (cc_feMap φ (ensureRegistered S sites fe k)).sub (sites.getD k default) =
        S.enabled (ensureRegistered S sites fe k).sub (sites.getD k default) := hφ.enabled _ _
    rw [he]
    split
    · simp only [cc_feMap, hφ.newSpan]
    · rfl
  | record s vals =>
    simp only [feStep]
    have : (cc_feMap φ fe).handleSite s = fe.handleSite s := rfl
    rw [this]
    split
    · simp only [cc_feMap, hφ.record]
    · rfl
  | fol s t =>
    simp only [feStep]
    have h1 : (cc_feMap φ fe).handle s = fe.handle s := rfl
    have h2 : (cc_feMap φ fe).handle t = fe.handle t := rfl
    rw [h1, h2]
    split
    · simp only [cc_feMap, hφ.follows]
    · rfl
  | ent s =>
    simp only [feStep]
    have h1 : (cc_feMap φ fe).handle s = fe.handle s := rfl
    rw [h1]
    split
    · simp only [cc_feMap, hφ.enter]
    · rfl
  | ext s =>
    simp only [feStep]
    have h1 : (cc_feMap φ fe).handle s = fe.handle s := rfl
    rw [h1]
    split
    · simp only [cc_feMap, hφ.exit]
    · rfl
  | cln s =>
    simp only [feStep]
    have : (cc_feMap φ fe).handleSite s = fe.handleSite s := rfl
    rw [this]
    split
    · simp only [cc_feMap, hφ.clone]
    · rfl
  | drp s =>
    simp only [feStep]
    have h1 : (cc_feMap φ fe).handle s = fe.handle s := rfl
    rw [h1]
    split
    · simp only [cc_feMap, hφ.tryClose]
    · rfl
  | evt k p vals =>
    simp only [feStep]
    rw [cc_feMap_ensure hφ, cc_feMap_resolve]
    have he : S'.enabled (cc_feMap φ (ensureRegistered S sites fe k)).sub (sites.getD k default) =
        S.enabled (ensureRegistered S sites fe k).sub (sites.getD k default) := hφ.enabled _ _
    rw [he]
    split
    · simp only [cc_feMap, hφ.event]
    · rfl

theorem cc_feMap_run {σ τ : Type} {S : Subscriber σ} {S' : Subscriber τ} {φ : σ → τ}
    (hφ : cc_SubHom S S' φ) (sites : List CallSite) (ops : List POp) :
    ∀ fe : FE σ, runProg S' sites (cc_feMap φ fe) ops = cc_feMap φ (runProg S sites fe ops) := by
  induction ops with
  | nil => intro fe; rfl
  | cons op ops ih =>
    intro fe
    simp only [runProg, List.foldl_cons]
    rw [cc_feMap_step hφ]
    exact ih _

end TT
