/-
  C19 for the helper copies of the reference: under every schedule the model's storages are
  `cc_expected` of the interleaved log, no callback panics, and the storages are well formed.
-/
import TT.Lemmas.CapConcSched
import TT.Lemmas.Forest

namespace TT

/-! ### The closed flag at the end -/

theorem cc_anyStack {stacks : AMap Nat (List (Nat × Bool))} (hnd : (stacks.map (·.1)).Nodup) (id : Nat) :
    (stacks.any fun kv => kv.2.any (·.1 == id)) = true ↔
      ∃ t, cs_onStack ((stacks.get t).getD []) id = true := by
  constructor
  · intro h
    rw [List.any_eq_true] at h
    obtain ⟨⟨t, stk⟩, hm, hs⟩ := h
    refine ⟨t, ?_⟩
    rw [cs_get_of_mem_nodup hnd hm]
    exact hs
  · rintro ⟨t, ht⟩
    cases hg : stacks.get t with
    | none => rw [hg] at ht; simp [cs_onStack] at ht
    | some stk =>
      rw [hg] at ht
      rw [List.any_eq_true]
      exact ⟨(t, stk), cs_get_mem hg, ht⟩

theorem cc_closed_eq {N : Nat} {calls : List SubCall} {hier : cc_Hier} {next : Nat} {g : Nat → Option RegSpan}
    {H : Nat → Nat} {M : Nat} (ri : cc_RI N hier.stack next g hier.parent H none) (hh : cc_HierOK hier M)
    (hnext : next = M + 1) (hH : ∀ id, cs_handles calls id = (H id : Int)) :
    ∀ fuel id, 1 ≤ id → id ≤ M → M < id + fuel →
      cc_closedAtEnd calls hier M fuel id = (g id).isNone := by
  intro fuel
  induction fuel with
  | zero => intro id _ h1 h2; omega
  | succ n ih =>
    intro id hid1 hid2 hfuel
    simp only [cc_closedAtEnd]
    rw [hH id]
    cases hg : g id with
    | none =>
      obtain ⟨h0, hs⟩ := ri.nex id hg
      have hany : (hier.stacks.any fun kv => kv.2.any (·.1 == id)) = false := by
        cases hb : (hier.stacks.any fun kv => kv.2.any (·.1 == id)) with
        | false => rfl
        | true =>
          obtain ⟨t, ht⟩ := (cc_anyStack hh.nd id).mp hb
          have := hs t
          unfold cc_Hier.stack at this
          rw [this] at ht; cases ht
      rw [h0, hany]
      simp only [Option.isNone_none, Int.natCast_zero, Int.le_refl, decide_true, Bool.not_false,
        Bool.and_self, Bool.true_and, List.all_eq_true, List.mem_range]
      intro c hc
      split
      · rename_i hp
        have hpc : hier.parent.get c = some (some id) := by
          cases hq : hier.parent.get c with
          | none => simp [hq] at hp
          | some v => simp [hq] at hp; rw [hp]
        have hdec := hh.dec c id hpc
        have hkey := hh.key c (by rw [hpc]; simp)
        rw [ih c hkey.1 hkey.2 (by omega)]
        cases hgc : g c with
        | none => rfl
        | some sc =>
          have hpar := (ri.ex c sc hgc).2.2.1
          rw [hp] at hpar
          have := (ri.pr c sc id hgc hpar).2
          rw [hg] at this
          cases this
      · rfl
    | some s =>
      simp only [Option.isNone_some]
      obtain ⟨_, _, _, hr1, hr2⟩ := ri.ex id s hg
      simp only [reduceCtorEq, if_false, Nat.add_zero] at hr2
      by_cases hH0 : H id = 0
      · cases hb : (hier.stacks.any fun kv => kv.2.any (·.1 == id)) with
        | true => simp
        | false =>
          have hall : ∀ t, cs_onStack (hier.stack t) id = false := by
            intro t
            cases hc : cs_onStack (hier.stack t) id with
            | false => rfl
            | true =>
              have := (cc_anyStack hh.nd id).mpr ⟨t, hc⟩
              rw [hb] at this; cases this
          have hcnt : cc_stkCnt N hier.stack id = 0 := by
            apply cc_sumN_eq_zero
            intro t _
            rw [hall t]; rfl
          rw [hH0, hcnt] at hr2
          simp only [Nat.zero_add] at hr2
          obtain ⟨c, sc, hc1, hc2, hc3⟩ := cs_childCnt_pos (by omega : 0 < cs_childCnt next g id)
          have hlt := (ri.pr c sc id hc2 hc3).1
          have hex := ri.ex c sc hc2
          have hcl : cc_closedAtEnd calls hier M n c = false := by
            rw [ih c hex.1 (by omega) (by omega), hc2]; rfl
          have hpc : (hier.parent.get c).join = some id := by rw [← hex.2.2.1]; exact hc3
          have : ((List.range (M + 1)).all fun c =>
              if (hier.parent.get c).join = some id then cc_closedAtEnd calls hier M n c else true) = false := by
            rw [List.all_eq_false]
            exact ⟨c, List.mem_range.mpr (by omega), by rw [if_pos hpc, hcl]; simp⟩
          rw [this]
          simp
      · have : decide ((H id : Int) ≤ 0) = false := by
          simp only [decide_eq_false_iff_not, Int.not_le]
          omega
        rw [this]
        simp

/-! ### Well-formedness of the storages (every step of every thread preserves `CapInv`) -/

theorem cc_capinv_sched (sites : List CallSite) (M : Nat) (sched : List Nat) :
    ∀ (s : ConcSt) (work : AMap Nat (List POp)), CapInv M s.w → CapInv M (runSchedule sites s work sched).w := by
  induction sched with
  | nil => intro s work h; exact h
  | cons t sched ih =>
    intro s work h
    cases hg : work.get t with
    | none => simp only [runSchedule, hg]; exact ih s work h
    | some ops =>
      cases ops with
      | nil => simp only [runSchedule, hg]; exact ih s work h
      | cons op rest =>
        simp only [runSchedule, hg]
        apply ih
        rw [cc_conc_step_eq]
        exact feStep_preserves (capSub_preserves t M) sites _ op h

theorem cc_wf_all_schedules (filters : List LFilter) (global : Option Nat) (sites : List CallSite)
    (n k : Nat) (work : AMap Nat (List POp)) (sched : List Nat) :
    (∀ st ∈ (runSchedule sites (ConcSt.setup filters global sites n k) work sched).w.storages, st.WF) ∧
    (runSchedule sites (ConcSt.setup filters global sites n k) work sched).w.storages.length = filters.length := by
  have h0 : CapInv filters.length (ConcSt.setup filters global sites n k).w :=
    runProg_preserves (capSub_preserves mainTid filters.length) sites _ _ (init_inv filters global)
  have := cc_capinv_sched sites filters.length sched _ work h0
  exact ⟨this.wf, this.slen⟩

/-! ### The theorem for the copies -/

theorem cc_key_lt {α : Type} (work : AMap Nat α) (t : Nat) (v : α) (h : work.get t = some v) :
    t < 100 + (work.map (·.1)).sum := by
  induction work with
  | nil => simp [AMap.get] at h
  | cons e work ih =>
    obtain ⟨k', v'⟩ := e
    simp only [AMap.get] at h
    simp only [List.map_cons, List.sum_cons]
    split at h
    · omega
    · have := ih h; omega

theorem cc_main (filters : List LFilter) (global : Option Nat) (sites : List CallSite)
    (n k : Nat) (hk : k < sites.length) (work : AMap Nat (List POp)) (sched : List Nat)
    (hwf : ∀ t ops, work.get t = some ops → cc_wfThread sites n ops = true) :
    (runSchedule sites (ConcSt.setup filters global sites n k) work sched).w.panicked = false ∧
    (∀ st ∈ (runSchedule sites (ConcSt.setup filters global sites n k) work sched).w.storages, st.WF) ∧
    (runSchedule sites (ConcSt.setup filters global sites n k) work sched).w.storages.length = filters.length ∧
    ∀ i, i < filters.length →
      (runSchedule sites (ConcSt.setup filters global sites n k) work sched).w.storages.getD i {} =
        cc_expected (filters.getD i .all) sites (cc_concLog global sites n k work sched) := by
  have hN : mainTid < 100 + (work.map (·.1)).sum := by unfold mainTid; omega
  have h0 := cc_ginv_setup (N := 100 + (work.map (·.1)).sum) filters global sites n k hk hN
  obtain ⟨W', hG⟩ := cc_ginv_sched (global := global) sched _ _ _ work h0 (by
    intro t ops hg
    have := hwf t ops hg
    simp only [cc_wfThread, Bool.and_eq_true, Bool.not_eq_true'] at this
    exact ⟨cc_key_lt work t ops hg, this.1, this.2⟩)
  have hw := hG.w
  obtain ⟨hwf1, hwf2⟩ := cc_wf_all_schedules filters global sites n k work sched
  refine ⟨hw.np, hwf1, hwf2, ?_⟩
  intro i hi
  rw [(hw.lay i hi).st, cs_getD_eq_getElem _ _ _ hi]
  unfold cc_expected cc_concLog
  apply cs_mk_congr
  intro s hs
  have hb := cc_refSpans_id_bound hw.ok s hs
  refine ⟨rfl, rfl, rfl, ?_, rfl⟩
  show cs_clOf _ s.id = cc_closedAtEnd _ _ _ _ s.id
  rw [cc_closed_eq hw.ri (cc_hierOK hw.ok) hw.next hG.hd _ s.id hb.1 hb.2 (by omega)]
  rfl

end TT
