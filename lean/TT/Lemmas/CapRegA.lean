/-
  Helper lemmas for C16 (capture layer never panics), part A: reference accounting of the
  registry — counting children over the id range, stack entries, storage operations.
-/
import TT.Model.Capture
import TT.Lemmas.Sender

namespace TT

/-! ### Counting over `List.range` -/

theorem cr_countP_range_congr (n : Nat) (p q : Nat → Bool) (h : ∀ x, x < n → p x = q x) :
    (List.range n).countP p = (List.range n).countP q := by
  apply List.countP_congr
  intro x hx
  rw [List.mem_range] at hx
  rw [h x hx]

theorem cr_countP_range_update (n c : Nat) (p q : Nat → Bool) (hc : c < n)
    (h : ∀ x, x ≠ c → p x = q x) :
    (List.range n).countP p + (if q c then 1 else 0) =
      (List.range n).countP q + (if p c then 1 else 0) := by
  induction n with
  | zero => omega
  | succ n ih =>
    rw [List.range_succ, List.countP_append, List.countP_append, List.countP_singleton,
      List.countP_singleton]
    by_cases hcn : c = n
    · subst hcn
      have := cr_countP_range_congr c p q (fun x hx => h x (by omega))
      omega
    · have h1 := ih (by omega)
      have h2 : p n = q n := h n (fun h' => hcn h'.symm)
      rw [h2]
      omega

/-! ### Children count and reference count -/

def cr_parentIs (o : Option RegSpan) (x : Nat) : Bool :=
  match o with
  | some s => s.parent == some x
  | none => false

/-- Number of registry spans whose parent is `x` (all ids are below `next`). -/
def cr_cc (spans : AMap Nat RegSpan) (next x : Nat) : Nat :=
  (List.range next).countP fun c => cr_parentIs (spans.get c) x

def cr_refs (spans : AMap Nat RegSpan) (x : Nat) : Nat :=
  match spans.get x with
  | some s => s.refs
  | none => 0

/-- The reference count of every span covers the external references `e` (handles, stack
    entries, debts) plus one per child. A missing span counts as zero references. -/
structure CrRegAcc (e : Nat → Nat) (spans : AMap Nat RegSpan) (next : Nat) : Prop where
  lt : ∀ id s, spans.get id = some s → id < next
  acc : ∀ x, e x + cr_cc spans next x ≤ cr_refs spans x

theorem cr_cc_update (spans spans' : AMap Nat RegSpan) (next id : Nat) (hid : id < next)
    (hget : ∀ c, c ≠ id → spans'.get c = spans.get c) (x : Nat) :
    cr_cc spans' next x + (if cr_parentIs (spans.get id) x then 1 else 0) =
      cr_cc spans next x + (if cr_parentIs (spans'.get id) x then 1 else 0) := by
  unfold cr_cc
  apply cr_countP_range_update next id _ _ hid
  intro c hc
  simp only [hget c hc]

theorem cr_regacc_mono {e e' : Nat → Nat} {spans : AMap Nat RegSpan} {next : Nat}
    (h : CrRegAcc e spans next) (he : ∀ x, e' x ≤ e x) : CrRegAcc e' spans next :=
  ⟨h.lt, fun x => Nat.le_trans (Nat.add_le_add_right (he x) _) (h.acc x)⟩

theorem cr_regacc_get {e : Nat → Nat} {spans : AMap Nat RegSpan} {next : Nat}
    (h : CrRegAcc e spans next) {x : Nat} (hx : 0 < e x) : ∃ s, spans.get x = some s := by
  have := h.acc x
  unfold cr_refs at this
  cases hg : spans.get x with
  | some s => exact ⟨s, rfl⟩
  | none => rw [hg] at this; simp only at this; omega

theorem cr_regacc_update {e e' : Nat → Nat} {spans spans' : AMap Nat RegSpan} {next id : Nat}
    (h : CrRegAcc e spans next) (hid : id < next)
    (hget : ∀ c, c ≠ id → spans'.get c = spans.get c)
    (hacc : ∀ x, e' x + (if cr_parentIs (spans'.get id) x then 1 else 0) + cr_refs spans x ≤
      e x + (if cr_parentIs (spans.get id) x then 1 else 0) + cr_refs spans' x) :
    CrRegAcc e' spans' next := by
  constructor
  · intro c s hs
    by_cases hc : c = id
    · subst hc; exact hid
    · rw [hget c hc] at hs; exact h.lt c s hs
  · intro x
    have h1 := cr_cc_update spans spans' next id hid hget x
    have h2 := h.acc x
    have h3 := hacc x
    omega

theorem cr_refs_of_ne {spans spans' : AMap Nat RegSpan} {id x : Nat}
    (hget : ∀ c, c ≠ id → spans'.get c = spans.get c) (hx : x ≠ id) :
    cr_refs spans' x = cr_refs spans x := by
  unfold cr_refs; rw [hget x hx]

/-- Replace a span by one with the same parent; `d` is the change of the reference count. -/
theorem cr_regacc_insert {e e' : Nat → Nat} {spans : AMap Nat RegSpan} {next id : Nat}
    {s s' : RegSpan} (h : CrRegAcc e spans next) (hg : spans.get id = some s)
    (hp : s'.parent = s.parent)
    (hne : ∀ x, x ≠ id → e' x ≤ e x)
    (hid : e' id + s.refs ≤ e id + s'.refs) :
    CrRegAcc e' (spans.insert id s') next := by
  have hget : ∀ c, c ≠ id → (spans.insert id s').get c = spans.get c := by
    intro c hc; rw [sd_get_insert, if_neg hc]
  apply cr_regacc_update h (h.lt id s hg) hget
  intro x
  have hpar : cr_parentIs ((spans.insert id s').get id) x = cr_parentIs (spans.get id) x := by
    rw [sd_get_insert, if_pos rfl, hg]; simp only [cr_parentIs, hp]
  rw [hpar]
  by_cases hx : x = id
  · subst hx
    have h1 : cr_refs (spans.insert x s') x = s'.refs := by
      unfold cr_refs; rw [sd_get_insert, if_pos rfl]
    have h2 : cr_refs spans x = s.refs := by unfold cr_refs; rw [hg]
    rw [h1, h2]; omega
  · rw [cr_refs_of_ne hget hx]
    have := hne x hx
    omega

theorem cr_regacc_erase {e : Nat → Nat} {spans : AMap Nat RegSpan} {next id : Nat}
    {s : RegSpan} (h : CrRegAcc e spans next) (hg : spans.get id = some s) (hr : s.refs = 0) :
    CrRegAcc (fun x => e x + if s.parent = some x then 1 else 0) (spans.erase id) next := by
  have hget : ∀ c, c ≠ id → (spans.erase id).get c = spans.get c := by
    intro c hc; rw [sd_get_erase, if_neg hc]
  apply cr_regacc_update h (h.lt id s hg) hget
  intro x
  have h1 : cr_parentIs ((spans.erase id).get id) x = false := by
    rw [sd_get_erase, if_pos rfl]; rfl
  have h2 : (if cr_parentIs (spans.get id) x then 1 else 0) =
      (if s.parent = some x then 1 else 0) := by
    rw [hg]; simp [cr_parentIs]
  rw [h1, h2]
  by_cases hx : x = id
  · subst hx
    have h3 : cr_refs spans x = 0 := by unfold cr_refs; rw [hg]; exact hr
    have h4 := h.acc x
    by_cases hp : s.parent = some x <;> simp [hp] <;> omega
  · rw [cr_refs_of_ne hget hx]
    by_cases hp : s.parent = some x <;> simp [hp]

theorem cr_regacc_next {e : Nat → Nat} {spans : AMap Nat RegSpan} {next : Nat}
    (h : CrRegAcc e spans next) : CrRegAcc e spans (next + 1) := by
  constructor
  · intro c s hs; have := h.lt c s hs; omega
  · intro x
    have hn : spans.get next = none := by
      cases hg : spans.get next with
      | none => rfl
      | some s => have := h.lt next s hg; omega
    have : cr_cc spans (next + 1) x = cr_cc spans next x := by
      unfold cr_cc
      rw [List.range_succ, List.countP_append, List.countP_singleton, hn]
      simp [cr_parentIs]
    rw [this]; exact h.acc x

/-- A fresh span `next` with one reference (its handle), whose parent reference was taken. -/
theorem cr_regacc_new {e : Nat → Nat} {spans : AMap Nat RegSpan} {next : Nat} (s : RegSpan)
    (h : CrRegAcc (fun x => e x + if s.parent = some x then 1 else 0) spans next)
    (hr : s.refs = 1) :
    CrRegAcc (fun x => e x + if x = next then 1 else 0) (spans.insert next s) (next + 1) := by
  have hn : spans.get next = none := by
    cases hg : spans.get next with
    | none => rfl
    | some s => have := h.lt next s hg; omega
  have hget : ∀ c, c ≠ next → (spans.insert next s).get c = spans.get c := by
    intro c hc; rw [sd_get_insert, if_neg hc]
  apply cr_regacc_update (cr_regacc_next h) (Nat.lt_succ_self next) hget
  intro x
  have h1 : (if cr_parentIs ((spans.insert next s).get next) x then 1 else 0) =
      (if s.parent = some x then 1 else 0) := by
    rw [sd_get_insert, if_pos rfl]; simp [cr_parentIs]
  have h2 : cr_parentIs (spans.get next) x = false := by rw [hn]; rfl
  rw [h1, h2]
  by_cases hx : x = next
  · subst hx
    have h3 : cr_refs (spans.insert x s) x = 1 := by
      unfold cr_refs; rw [sd_get_insert, if_pos rfl]; exact hr
    have h4 : cr_refs spans x = 0 := by unfold cr_refs; rw [hn]
    have h5 := h.acc x
    rw [h3, h4]
    rw [h4] at h5
    by_cases hp : s.parent = some x <;> simp [hp] at h5 ⊢ <;> omega
  · rw [cr_refs_of_ne hget hx]
    by_cases hp : s.parent = some x <;> simp [hp, hx]

/-! ### Stack entries holding a reference -/

/-- Number of non-duplicate entries of `x` on the stack. -/
def cr_sc (stk : List (Nat × Bool)) (x : Nat) : Nat := stk.countP fun e => e.1 == x && !e.2

theorem cr_sc_cons (stk : List (Nat × Bool)) (id : Nat) (d : Bool) (x : Nat) :
    cr_sc ((id, d) :: stk) x = cr_sc stk x + (if x = id ∧ d = false then 1 else 0) := by
  unfold cr_sc
  rw [List.countP_cons]
  by_cases hx : x = id
  · subst hx; cases d <;> simp
  · have : ¬ id = x := fun h => hx h.symm
    simp [hx, this]

theorem cr_sc_pop (stk : List (Nat × Bool)) (id x : Nat) :
    cr_sc (stackPop stk id) x +
      (if x = id ∧ (stk.find? (·.1 == id)).map (·.2) = some false then 1 else 0) = cr_sc stk x := by
  induction stk with
  | nil => simp [stackPop, cr_sc]
  | cons e rest ih =>
    obtain ⟨y, d⟩ := e
    by_cases hy : y = id
    · subst hy
      simp only [stackPop, if_true, List.find?_cons, beq_self_eq_true, Option.map_some,
        Option.some.injEq, cr_sc_cons]
    · have hb : (y == id) = false := by simpa using hy
      simp only [stackPop, hy, if_false, List.find?_cons, hb, cr_sc_cons]
      omega

theorem cr_sc_current (stk : List (Nat × Bool)) (p : Nat) (h : stackCurrent stk = some p) :
    0 < cr_sc stk p := by
  induction stk with
  | nil => simp [stackCurrent] at h
  | cons e rest ih =>
    obtain ⟨y, d⟩ := e
    cases d with
    | true =>
      simp only [stackCurrent, if_true] at h
      have := ih h
      rw [cr_sc_cons]; omega
    | false =>
      simp only [stackCurrent, Bool.false_eq_true, if_false, Option.some.injEq] at h
      subst h
      rw [cr_sc_cons]; simp

theorem cr_stack_insert (reg : Reg) (l : List (Nat × Bool)) :
    Reg.stack { reg with stacks := reg.stacks.insert 0 l } 0 = l := by
  simp [Reg.stack, sd_get_insert]

/-! ### Storage operations -/

theorem cr_modifyAt_length {α : Type} (xs : List α) (i : Nat) (f : α → α) :
    (modifyAt xs i f).length = xs.length := by
  unfold modifyAt
  split <;> simp

theorem cr_update_some (st : Storage) (c : Nat) (f : CapSpan → CapSpan) (h : c < st.spans.length) :
    st.update c f = some { st with spans := modifyAt st.spans c f } := by
  unfold Storage.update; rw [if_pos h]

theorem cr_update_length {st st' : Storage} {c : Nat} {f : CapSpan → CapSpan}
    (h : st.update c f = some st') : st'.spans.length = st.spans.length := by
  unfold Storage.update at h
  split at h
  · simp only [Option.some.injEq] at h; subst h; exact cr_modifyAt_length _ _ _
  · simp at h

theorem cr_pushEvent_some (st : Storage) (mt : Nat) (vs : TVals) (p : Option Nat)
    (hp : ∀ c, p = some c → c < st.spans.length) :
    ∃ st', st.pushEvent mt vs p = some st' ∧ st'.spans.length = st.spans.length := by
  cases p with
  | none => exact ⟨_, rfl, rfl⟩
  | some c =>
    have := hp c rfl
    simp only [Storage.pushEvent, if_pos this]
    exact ⟨_, rfl, cr_modifyAt_length _ _ _⟩

theorem cr_pushSpan_some (st : Storage) (mt : Nat) (vs : TVals) (p : Option Nat)
    (hp : ∀ c, p = some c → c < st.spans.length) :
    ∃ st', st.pushSpan mt vs p = some (st', st.spans.length) ∧
      st'.spans.length = st.spans.length + 1 := by
  cases p with
  | none => exact ⟨_, rfl, by simp⟩
  | some c =>
    have := hp c rfl
    simp only [Storage.pushSpan, if_pos this]
    exact ⟨_, rfl, by simp [cr_modifyAt_length]⟩

theorem cr_setStorage_getD (w : CapWorld) (i j : Nat) (st : Storage) :
    (setStorage w i st).storages.getD j {} =
      if j = i ∧ i < w.storages.length then st else w.storages.getD j {} := by
  simp only [setStorage, List.getD_eq_getElem?_getD, List.getElem?_set]
  by_cases hij : i = j
  · subst hij
    by_cases hi : i < w.storages.length
    · simp [hi]
    · simp [hi]
  · have : ¬ j = i := fun h => hij h.symm
    simp [hij, this]

end TT
