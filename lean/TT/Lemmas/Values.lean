/-
  Helper lemmas about `TVals` (insertion-ordered map behaviour).
-/
import TT.Model.Values

namespace TT

/-- Keep the first occurrence of every element. -/
def dedupFirst : List Str → List Str
  | [] => []
  | k :: ks => k :: (dedupFirst ks).filter (· ≠ k)

/-- Value of the last entry with name `k` (what a sequence of inserts leaves behind). -/
def lastVal : List (Str × TVal) → Str → Option TVal
  | [], _ => none
  | (k', v) :: rest, k =>
    match lastVal rest k with
    | some w => some w
    | none => if k' = k then some v else none

namespace TVals

@[simp] theorem get_nil (k : Str) : get [] k = none := rfl

@[simp] theorem get_cons (k' : Str) (v : TVal) (rest : TVals) (k : Str) :
    get ((k', v) :: rest) k = if k' = k then some v else get rest k := rfl

@[simp] theorem insert_nil (k : Str) (v : TVal) : insert [] k v = ([(k, v)], none) := rfl

theorem insert_cons (k' : Str) (v' : TVal) (rest : TVals) (k : Str) (v : TVal) :
    insert ((k', v') :: rest) k v =
      if k' = k then ((k', v) :: rest, some v')
      else ((k', v') :: (insert rest k v).1, (insert rest k v).2) := rfl

theorem insert_snd (vs : TVals) (k : Str) (v : TVal) : (vs.insert k v).2 = vs.get k := by
  induction vs with
  | nil => rfl
  | cons e rest ih =>
    obtain ⟨k', v'⟩ := e
    rw [insert_cons, get_cons]
    split <;> simp_all

theorem get_insert (vs : TVals) (k : Str) (v : TVal) (k2 : Str) :
    (vs.insert k v).1.get k2 = if k2 = k then some v else vs.get k2 := by
  induction vs with
  | nil =>
    simp only [insert_nil, get_cons, get_nil]
    by_cases h : k = k2
    · subst h; simp
    · have : ¬ k2 = k := fun h' => h h'.symm
      simp [h, this]
  | cons e rest ih =>
    obtain ⟨k', v'⟩ := e
    rw [insert_cons]
    by_cases h : k' = k
    · subst h; simp only [if_true, get_cons]
      by_cases h2 : k' = k2
      · subst h2; simp
      · simp [h2]; intro h3; exact absurd h3.symm h2
    · simp only [h, if_false, get_cons, ih]
      by_cases h2 : k' = k2
      · subst h2; simp [h]
      · simp [h2]

theorem names_insert (vs : TVals) (k : Str) (v : TVal) :
    names (vs.insert k v).1 = if k ∈ names vs then names vs else names vs ++ [k] := by
  induction vs with
  | nil => simp [names]
  | cons e rest ih =>
    obtain ⟨k', v'⟩ := e
    rw [insert_cons]
    by_cases h : k' = k
    · subst h; simp [names]
    · have hne : ¬ k = k' := fun h' => h h'.symm
      simp only [h, if_false]
      simp only [names, List.map_cons, List.mem_cons, hne, false_or] at ih ⊢
      rw [ih]
      split <;> simp_all

theorem nodup_insert (vs : TVals) (k : Str) (v : TVal) (h : (names vs).Nodup) :
    (names (vs.insert k v).1).Nodup := by
  rw [names_insert]
  split
  · exact h
  · rename_i hk
    rw [List.nodup_append]
    refine ⟨h, by simp, ?_⟩
    intro a ha b hb
    simp at hb; subst hb
    intro hab; subst hab; exact hk ha

theorem length_insert (vs : TVals) (k : Str) (v : TVal) :
    (vs.insert k v).1.length = if k ∈ names vs then vs.length else vs.length + 1 := by
  have := congrArg List.length (names_insert vs k v)
  by_cases h : k ∈ names vs
  · rw [if_pos h] at this ⊢; simpa [names] using this
  · rw [if_neg h] at this ⊢; simpa [names] using this

theorem extend_nil (vs : TVals) : extend vs [] = vs := rfl

theorem extend_cons (vs : TVals) (kv : Str × TVal) (kvs : List (Str × TVal)) :
    extend vs (kv :: kvs) = extend (vs.insert kv.1 kv.2).1 kvs := rfl

theorem extend_append (vs : TVals) (xs ys : List (Str × TVal)) :
    extend vs (xs ++ ys) = extend (extend vs xs) ys := by
  simp [extend, List.foldl_append]

theorem nodup_extend (vs : TVals) (kvs : List (Str × TVal)) (h : (names vs).Nodup) :
    (names (extend vs kvs)).Nodup := by
  induction kvs generalizing vs with
  | nil => exact h
  | cons kv kvs ih => rw [extend_cons]; exact ih _ (nodup_insert vs kv.1 kv.2 h)

theorem get_extend (vs : TVals) (kvs : List (Str × TVal)) (k : Str) :
    (extend vs kvs).get k = match lastVal kvs k with
      | some w => some w
      | none => vs.get k := by
  induction kvs generalizing vs with
  | nil => simp [extend_nil, lastVal]
  | cons kv kvs ih =>
    obtain ⟨k', v⟩ := kv
    rw [extend_cons, ih, lastVal]
    cases hl : lastVal kvs k with
    | some w => simp
    | none =>
      simp only [get_insert]
      by_cases h : k' = k
      · subst h; simp
      · have : ¬ k = k' := fun h' => h h'.symm
        simp [h, this]

theorem names_extend (vs : TVals) (kvs : List (Str × TVal)) :
    names (extend vs kvs) = names vs ++ (dedupFirst (kvs.map (·.1))).filter (· ∉ names vs) := by
  induction kvs generalizing vs with
  | nil => simp [extend_nil, dedupFirst]
  | cons kv kvs ih =>
    obtain ⟨k, v⟩ := kv
    rw [extend_cons, ih, names_insert]
    simp only [List.map_cons, dedupFirst]
    by_cases hk : k ∈ names vs
    · simp only [hk, if_true, List.filter_cons, not_true_eq_false, decide_false]
      congr 1
      rw [List.filter_filter]
      apply List.filter_congr
      intro x _
      by_cases hx : x ∈ names vs
      · simp [hx]
      · have : x ≠ k := fun h => hx (h ▸ hk)
        simp [hx, this]
    · simp only [hk, if_false, List.filter_cons, not_false_eq_true, decide_true, if_true,
        List.append_assoc, List.singleton_append]
      congr 2
      rw [List.filter_filter]
      apply List.filter_congr
      intro x _
      by_cases hx : x ∈ names vs <;> by_cases hxk : x = k <;> simp [hx, hxk]

end TVals
end TT
