/-
  Algebra of `cs_mkStorage`: how `pushSpan`, `pushEvent` and `update` act on a storage that is
  given by its description (span infos, event infos, per-id attribute functions).
-/
import TT.Lemmas.CapSpecDefs
import TT.Lemmas.CapSpecBasic

namespace TT

/-! ### `cs_idxWhere` -/

theorem cs_idxWhere_snoc {α : Type} (l : List α) (a : α) (p : α → Bool) :
    cs_idxWhere (l ++ [a]) p = cs_idxWhere l p ++ (if p a then [l.length] else []) := by
  unfold cs_idxWhere
  rw [List.zipIdx_append, List.filter_append, List.map_append]
  congr 1
  by_cases h : p a <;> simp [h]

theorem cs_idxWhere_eq_nil {α : Type} (l : List α) (p : α → Bool) (h : ∀ a ∈ l, p a = false) :
    cs_idxWhere l p = [] := by
  unfold cs_idxWhere
  rw [List.map_eq_nil_iff, List.filter_eq_nil_iff]
  rintro ⟨a, i⟩ hm
  have h2 := (List.mem_zipIdx hm).2.2
  have ha : a ∈ l := by rw [h2]; exact List.getElem_mem _
  simp [h a ha]

theorem cs_idxWhere_map {α β : Type} (g : α → β) (l : List α) (p : β → Bool) :
    cs_idxWhere (l.map g) p = cs_idxWhere l (fun a => p (g a)) := by
  unfold cs_idxWhere
  rw [List.zipIdx_map, List.filter_map, List.map_map]
  rfl

theorem cs_mkStorage_map {ι ε ι' ε' : Type} (g : ι' → ι) (g' : ε' → ε) (sid sk spc ek ev epc)
    (S : List ι') (E : List ε') (F : cs_Fns) :
    cs_mkStorage sid sk spc ek ev epc (S.map g) (E.map g') F =
      cs_mkStorage (sid ∘ g) (sk ∘ g) (spc ∘ g) (ek ∘ g') (ev ∘ g') (epc ∘ g') S E F := by
  unfold cs_mkStorage
  simp only [cs_idxWhere_map, List.zipIdx_map, List.map_map]
  congr 1
  apply List.map_congr_left
  rintro ⟨s, i⟩ _
  simp [cs_mkSpan, cs_idxWhere_map]

/-! ### The specialised description -/

/-- The captured span described by `s` at position `i`. -/
def cs_span (S : List cs_SI) (E : List cs_EI) (F : cs_Fns) (s : cs_SI) (i : Nat) : CapSpan :=
  cs_mkSpan cs_SI.id cs_SI.k cs_SI.parentC cs_EI.parentC S E F s i

theorem cs_span_def (S : List cs_SI) (E : List cs_EI) (F : cs_Fns) (s : cs_SI) (i : Nat) :
    cs_span S E F s i =
      { mt := s.k, values := F.V s.id, entered := F.en s.id, exited := F.ex s.id,
        closed := F.cl s.id, parent := s.parentC,
        children := cs_idxWhere S fun s' => decide (s'.parentC = some i),
        events := cs_idxWhere E fun e => decide (e.parentC = some i),
        follows := F.fo s.id } := rfl

theorem cs_mk_spans (S : List cs_SI) (E : List cs_EI) (F : cs_Fns) :
    (cs_mk S E F).spans = S.zipIdx.map fun x => cs_span S E F x.1 x.2 := rfl

theorem cs_mk_events (S : List cs_SI) (E : List cs_EI) (F : cs_Fns) :
    (cs_mk S E F).events = E.map fun e => { mt := e.k, values := e.values, parent := e.parentC } := rfl

theorem cs_mk_rootSpans (S : List cs_SI) (E : List cs_EI) (F : cs_Fns) :
    (cs_mk S E F).rootSpans = cs_idxWhere S fun s => s.parentC.isNone := rfl

theorem cs_mk_rootEvents (S : List cs_SI) (E : List cs_EI) (F : cs_Fns) :
    (cs_mk S E F).rootEvents = cs_idxWhere E fun e => e.parentC.isNone := rfl

theorem cs_mk_spans_length (S : List cs_SI) (E : List cs_EI) (F : cs_Fns) :
    (cs_mk S E F).spans.length = S.length := by
  simp [cs_mk_spans]

theorem cs_mk_spans_get (S : List cs_SI) (E : List cs_EI) (F : cs_Fns) (j : Nat) :
    (cs_mk S E F).spans[j]? = (S[j]?).map fun s => cs_span S E F s j := by
  rw [cs_mk_spans, List.getElem?_map, List.getElem?_zipIdx]
  cases S[j]? <;> simp

theorem cs_storage_ext {a b : Storage} (h1 : a.spans = b.spans) (h2 : a.events = b.events)
    (h3 : a.rootSpans = b.rootSpans) (h4 : a.rootEvents = b.rootEvents) : a = b := by
  cases a; cases b; simp_all

/-- Agreement of two attribute families on one id. -/
def cs_Fns.AgreeAt (F F' : cs_Fns) (id : Nat) : Prop :=
  F.V id = F'.V id ∧ F.en id = F'.en id ∧ F.ex id = F'.ex id ∧ F.cl id = F'.cl id ∧ F.fo id = F'.fo id

theorem cs_span_congr (S : List cs_SI) (E : List cs_EI) (F F' : cs_Fns) (s : cs_SI) (i : Nat)
    (h : F.AgreeAt F' s.id) : cs_span S E F s i = cs_span S E F' s i := by
  obtain ⟨h1, h2, h3, h4, h5⟩ := h
  simp [cs_span_def, h1, h2, h3, h4, h5]

theorem cs_mk_congr (S : List cs_SI) (E : List cs_EI) (F F' : cs_Fns)
    (h : ∀ s ∈ S, F.AgreeAt F' s.id) : cs_mk S E F = cs_mk S E F' := by
  apply cs_storage_ext
  · rw [cs_mk_spans, cs_mk_spans]
    apply List.map_congr_left
    rintro ⟨s, i⟩ hm
    have hs : s ∈ S := by
      have := (List.mem_zipIdx hm).2.2
      rw [this]; exact List.getElem_mem _
    exact cs_span_congr S E F F' s i (h s hs)
  · rfl
  · rfl
  · rfl

theorem cs_span_snocS (S : List cs_SI) (E : List cs_EI) (F : cs_Fns) (new s : cs_SI) (i : Nat) :
    cs_span (S ++ [new]) E F s i =
      { cs_span S E F s i with
        children := (cs_span S E F s i).children ++ if new.parentC = some i then [S.length] else [] } := by
  simp only [cs_span_def, cs_idxWhere_snoc]
  congr 2
  by_cases h : new.parentC = some i <;> simp [h]

theorem cs_span_snocE (S : List cs_SI) (E : List cs_EI) (F : cs_Fns) (new : cs_EI) (s : cs_SI) (i : Nat) :
    cs_span S (E ++ [new]) F s i =
      { cs_span S E F s i with
        events := (cs_span S E F s i).events ++ if new.parentC = some i then [E.length] else [] } := by
  simp only [cs_span_def, cs_idxWhere_snoc]
  congr 2
  by_cases h : new.parentC = some i <;> simp [h]

theorem cs_mk_pushSpan (S : List cs_SI) (E : List cs_EI) (F : cs_Fns) (new : cs_SI)
    (hpc : ∀ p, new.parentC = some p → p < S.length)
    (hS : ∀ s ∈ S, ∀ p, s.parentC = some p → p < S.length)
    (hE : ∀ e ∈ E, ∀ p, e.parentC = some p → p < S.length)
    (hen : F.en new.id = 0) (hex : F.ex new.id = 0) (hcl : F.cl new.id = false)
    (hfo : F.fo new.id = []) :
    (cs_mk S E F).pushSpan new.k (F.V new.id) new.parentC = some (cs_mk (S ++ [new]) E F, S.length) := by
  -- the new span's description
  have hnew : cs_span (S ++ [new]) E F new S.length =
      { mt := new.k, values := F.V new.id, parent := new.parentC } := by
    rw [cs_span_def, hen, hex, hcl, hfo]
    rw [cs_idxWhere_eq_nil (S ++ [new]), cs_idxWhere_eq_nil E]
    · intro e he
      simp only [decide_eq_false_iff_not]
      intro hp
      exact Nat.lt_irrefl _ (hE e he _ hp)
    · intro s hs
      simp only [decide_eq_false_iff_not]
      intro hp
      simp only [List.mem_append, List.mem_singleton] at hs
      rcases hs with hs | hs
      · exact Nat.lt_irrefl _ (hS s hs _ hp)
      · subst hs; exact Nat.lt_irrefl _ (hpc _ hp)
  have hget : ∀ j, (cs_mk (S ++ [new]) E F).spans[j]? =
      if j < S.length then (S[j]?).map fun s =>
        { cs_span S E F s j with
          children := (cs_span S E F s j).children ++ if new.parentC = some j then [S.length] else [] }
      else if j = S.length then some { mt := new.k, values := F.V new.id, parent := new.parentC }
      else none := by
    intro j
    rw [cs_mk_spans_get]
    by_cases h1 : j < S.length
    · rw [if_pos h1, List.getElem?_append_left h1]
      cases S[j]? with
      | none => rfl
      | some s => simp [cs_span_snocS]
    · rw [if_neg h1]
      by_cases h2 : j = S.length
      · subst h2
        rw [if_pos rfl, List.getElem?_append_right (Nat.le_refl _)]
        simp [hnew]
      · rw [if_neg h2, List.getElem?_eq_none (by simp; omega)]
        rfl
  unfold Storage.pushSpan
  rw [cs_mk_spans_length]
  cases hp : new.parentC with
  | none =>
    simp only [Option.some.injEq, Prod.mk.injEq, and_true]
    apply cs_storage_ext
    · apply List.ext_getElem?
      intro j
      rw [hget j]
      simp only
      by_cases h1 : j < S.length
      · rw [if_pos h1, List.getElem?_append_left (by rw [cs_mk_spans_length]; exact h1),
          cs_mk_spans_get]
        cases S[j]? with
        | none => rfl
        | some s => simp [hp]
      · rw [if_neg h1]
        by_cases h2 : j = S.length
        · subst h2
          rw [if_pos rfl, List.getElem?_append_right (by rw [cs_mk_spans_length]; exact Nat.le_refl _)]
          simp [cs_mk_spans_length, hp]
        · rw [if_neg h2, List.getElem?_eq_none (by simp [cs_mk_spans_length]; omega)]
    · rfl
    · simp [cs_mk_rootSpans, cs_idxWhere_snoc, hp]
    · rfl
  | some p =>
    have hpl : p < S.length := hpc p hp
    simp only [hpl, if_true, Option.some.injEq, Prod.mk.injEq, and_true]
    apply cs_storage_ext
    · apply List.ext_getElem?
      intro j
      rw [hget j, cs_getElem?_modifyAt]
      simp only
      by_cases h1 : j < S.length
      · rw [if_pos h1, List.getElem?_append_left (by rw [cs_mk_spans_length]; exact h1),
          cs_mk_spans_get]
        cases S[j]? with
        | none => simp
        | some s =>
          by_cases hpj : p = j
          · subst hpj; simp [hp]
          · have : ¬ some p = some j := by simpa using hpj
            simp [hp, hpj, this]
      · rw [if_neg h1]
        have hpj : ¬ p = j := by omega
        rw [if_neg hpj]
        by_cases h2 : j = S.length
        · subst h2
          rw [if_pos rfl, List.getElem?_append_right (by rw [cs_mk_spans_length]; exact Nat.le_refl _)]
          simp [cs_mk_spans_length, hp]
        · rw [if_neg h2, List.getElem?_eq_none (by simp [cs_mk_spans_length]; omega)]
    · rfl
    · simp [cs_mk_rootSpans, cs_idxWhere_snoc, hp]
    · rfl

theorem cs_mk_pushEvent (S : List cs_SI) (E : List cs_EI) (F : cs_Fns) (new : cs_EI)
    (hpc : ∀ p, new.parentC = some p → p < S.length) :
    (cs_mk S E F).pushEvent new.k new.values new.parentC = some (cs_mk S (E ++ [new]) F) := by
  have hget : ∀ j, (cs_mk S (E ++ [new]) F).spans[j]? =
      (S[j]?).map fun s =>
        { cs_span S E F s j with
          events := (cs_span S E F s j).events ++ if new.parentC = some j then [E.length] else [] } := by
    intro j
    rw [cs_mk_spans_get]
    cases S[j]? with
    | none => rfl
    | some s => simp [cs_span_snocE]
  have hlen : (cs_mk S E F).events.length = E.length := by simp [cs_mk_events]
  unfold Storage.pushEvent
  rw [cs_mk_spans_length, hlen]
  cases hp : new.parentC with
  | none =>
    simp only [Option.some.injEq]
    apply cs_storage_ext
    · apply List.ext_getElem?
      intro j
      rw [hget j, cs_mk_spans_get]
      cases S[j]? with
      | none => rfl
      | some s => simp [hp]
    · simp [cs_mk_events, hp]
    · rfl
    · simp [cs_mk_rootEvents, cs_idxWhere_snoc, hp]
  | some p =>
    have hpl : p < S.length := hpc p hp
    simp only [hpl, if_true, Option.some.injEq]
    apply cs_storage_ext
    · apply List.ext_getElem?
      intro j
      rw [hget j, cs_getElem?_modifyAt, cs_mk_spans_get]
      cases S[j]? with
      | none => simp
      | some s =>
        by_cases hpj : p = j
        · subst hpj; simp [hp]
        · have : ¬ some p = some j := by simpa using hpj
          simp [hp, hpj, this]
    · simp [cs_mk_events, hp]
    · rfl
    · simp [cs_mk_rootEvents, cs_idxWhere_snoc, hp]

theorem cs_mk_update (S : List cs_SI) (E : List cs_EI) (F F' : cs_Fns) (ci : Nat) (s : cs_SI)
    (g : CapSpan → CapSpan) (hs : S[ci]? = some s)
    (huniq : ∀ j s', S[j]? = some s' → s'.id = s.id → j = ci)
    (hag : ∀ id, id ≠ s.id → F.AgreeAt F' id)
    (hg : g (cs_span S E F s ci) = cs_span S E F' s ci) :
    (cs_mk S E F).update ci g = some (cs_mk S E F') := by
  have hci : ci < S.length := by
    rcases Nat.lt_or_ge ci S.length with h | h
    · exact h
    · simp [List.getElem?_eq_none h] at hs
  unfold Storage.update
  rw [cs_mk_spans_length, if_pos hci]
  simp only [Option.some.injEq]
  apply cs_storage_ext
  · apply List.ext_getElem?
    intro j
    simp only
    rw [cs_getElem?_modifyAt, cs_mk_spans_get, cs_mk_spans_get]
    by_cases hj : ci = j
    · subst hj
      simp [hs, hg]
    · rw [if_neg hj]
      cases hsj : S[j]? with
      | none => rfl
      | some s' =>
        simp only [Option.map_some, Option.some.injEq]
        apply cs_span_congr
        apply hag
        intro he
        exact hj (huniq j s' hsj he).symm
  · rfl
  · rfl
  · rfl

end TT
