/-
  TT.Lemmas.ArenaSeq — sequential arena facts for C09: `indexOf?` characterisation, `arenaAlloc`
  keeps the arena duplicate-free, the arena after a fold of allocations, and the arena along
  receiver histories.
-/
import TT.Lemmas.RecvSim

namespace TT

/-! ### `indexOf?` -/

theorem ar_indexOf?_none_iff (d : CallSite) (xs : List CallSite) : indexOf? d xs = none ↔ d ∉ xs := by
  induction xs with
  | nil => simp [indexOf?]
  | cons x xs ih =>
    simp only [indexOf?, List.mem_cons, not_or]
    by_cases hx : x = d
    · simp [hx]
    · rw [if_neg hx, Option.map_eq_none_iff, ih]
      exact ⟨fun h => ⟨fun e => hx e.symm, h⟩, fun h => h.2⟩

theorem ar_indexOf?_getD : ∀ (xs : List CallSite) (i : Nat), xs.Nodup → i < xs.length →
    indexOf? (xs.getD i default) xs = some i
  | [], _, _, h => by simp at h
  | x :: xs, 0, _, _ => by simp [indexOf?]
  | x :: xs, j + 1, hnd, h => by
    have hj : j < xs.length := by simpa using h
    rw [List.nodup_cons] at hnd
    have hmem : xs.getD j default ∈ xs := by
      simp [List.getD, hj]
    have hne : ¬ x = xs.getD j default := fun e => hnd.1 (e ▸ hmem)
    simp only [List.getD_cons_succ, indexOf?, if_neg hne, ar_indexOf?_getD xs j hnd.2 hj, Option.map_some]

theorem ar_nodup_snoc {α : Type} (xs : List α) (d : α) (h : xs.Nodup) (hd : d ∉ xs) : (xs ++ [d]).Nodup := by
  rw [List.nodup_append]
  refine ⟨h, by simp, ?_⟩
  intro a ha b hb
  simp at hb
  subst hb
  intro hab
  subst hab
  exact hd ha

/-! ### `arenaAlloc` -/

theorem ar_alloc_of_mem (a : List CallSite) (d : CallSite) (h : d ∈ a) : (arenaAlloc a d).1 = a ∧ (arenaAlloc a d).2.2 = false := by
  unfold arenaAlloc
  cases hi : indexOf? d a with
  | none => exact absurd h ((ar_indexOf?_none_iff d a).1 hi)
  | some i => exact ⟨rfl, rfl⟩

theorem ar_alloc_of_not_mem (a : List CallSite) (d : CallSite) (h : d ∉ a) :
    arenaAlloc a d = (a ++ [d], a.length, true) := by
  unfold arenaAlloc
  rw [(ar_indexOf?_none_iff d a).2 h]

theorem ar_alloc_nodup (a : List CallSite) (d : CallSite) (h : a.Nodup) : (arenaAlloc a d).1.Nodup := by
  by_cases hd : d ∈ a
  · rw [(ar_alloc_of_mem a d hd).1]; exact h
  · rw [ar_alloc_of_not_mem a d hd]; exact ar_nodup_snoc a d h hd

theorem ar_alloc_new_iff (a : List CallSite) (d : CallSite) : (arenaAlloc a d).2.2 = true ↔ d ∉ a := by
  by_cases hd : d ∈ a
  · simp [(ar_alloc_of_mem a d hd).2, hd]
  · simp [ar_alloc_of_not_mem a d hd, hd]

/-- Keep the first occurrence of every description (same recursion as `distinctSites` in C09). -/
def ar_distinct : List CallSite → List CallSite
  | [] => []
  | d :: ds => d :: (ar_distinct ds).filter (· ≠ d)

theorem ar_fold_alloc (ds : List CallSite) : ∀ acc : List CallSite,
    ds.foldl (fun a d => (arenaAlloc a d).1) acc = acc ++ (ar_distinct ds).filter (· ∉ acc) := by
  induction ds with
  | nil => intro acc; simp [ar_distinct]
  | cons d ds ih =>
    intro acc
    rw [List.foldl_cons, ih]
    by_cases hd : d ∈ acc
    · rw [(ar_alloc_of_mem acc d hd).1]
      congr 1
      simp only [ar_distinct, List.filter_cons, hd, not_true_eq_false, decide_false, List.filter_filter]
      simp only [Bool.false_eq_true, if_false]
      apply List.filter_congr
      intro x _
      by_cases hx : x ∈ acc
      · simp [hx]
      · have : x ≠ d := fun e => hx (e ▸ hd)
        simp [hx, this]
    · rw [ar_alloc_of_not_mem acc d hd]
      simp only [ar_distinct, List.filter_cons, hd, not_false_eq_true, decide_true, if_true,
        List.filter_filter, List.append_assoc, List.singleton_append]
      congr 2
      apply List.filter_congr
      intro x _
      by_cases hx : x ∈ acc <;> by_cases hxd : x = d <;> simp [hx, hxd]

/-! ### The arena along receiver histories -/

theorem ar_createLocalSpan_arena {r : RState} {w w' : World} {d : SpanData} {h : Nat}
    (hc : createLocalSpan r w d = .ok w' h) : w'.arena = w.arena := by
  simp only [createLocalSpan] at hc
  repeat' split at hc
  all_goals (try cases hc)
  all_goals rfl

theorem ar_tryReceive_frame (σ : Sigma) (e : Event) (hne : ∀ id d, e ≠ .newCallSite id d) :
    (tryReceive σ e).state.w.arena = σ.w.arena := by
  cases e with
  | newCallSite id d => exact absurd rfl (hne id d)
  | valuesRecorded id values =>
    simp only [tryReceive]
    split
    · rfl
    cases mapSpanId σ.r id with
    | error e => rfl
    | ok l =>
      cases l with
      | none => simp only; cases σ.r.spans.get id <;> rfl
      | some h =>
        simp only
        cases hs : σ.r.spans.get id with
        | none => rfl
        | some d =>
          simp only
          cases σ.r.mt.get d.mt with
          | none => rfl
          | some idx =>
            simp only
            cases createValues (generateFields (siteOf σ.w idx) values) with
            | none => rfl
            | some v => simp only [hs]; rfl
  | _ =>
    simp only [tryReceive]
    repeat' split
    all_goals (try rfl)
    all_goals (rename_i hc; have := ar_createLocalSpan_arena hc; exact this)

theorem ar_onNewCallSite_nodup (σ : Sigma) (id : Nat) (d : CallSite) (h : σ.w.arena.Nodup) :
    (onNewCallSite σ id d).w.arena.Nodup := by
  rw [onNewCallSite_arena]; exact ar_alloc_nodup _ _ h

theorem ar_tryReceive_nodup (σ : Sigma) (e : Event) (h : σ.w.arena.Nodup) :
    (tryReceive σ e).state.w.arena.Nodup := by
  by_cases hne : ∀ id d, e ≠ .newCallSite id d
  · rw [ar_tryReceive_frame σ e hne]; exact h
  · cases e with
    | newCallSite id d => exact ar_onNewCallSite_nodup σ id d h
    | _ => exact absurd (fun _ _ h => by cases h) hne

theorem ar_restore_fold_nodup (pm : PersistedMeta) : ∀ σ : Sigma, σ.w.arena.Nodup →
    (pm.foldl (fun σ kv => onNewCallSite σ kv.1 kv.2) σ).w.arena.Nodup := by
  induction pm with
  | nil => intro σ h; exact h
  | cons kv rest ih =>
    intro σ h
    rw [List.foldl_cons]
    exact ih _ (ar_onNewCallSite_nodup σ kv.1 kv.2 h)

theorem ar_restore_nodup (pm : PersistedMeta) (ps : PersistedSpans) (loc : AMap Nat Nat) (w : World)
    (h : w.arena.Nodup) : (restore pm ps loc w).w.arena.Nodup :=
  ar_restore_fold_nodup pm _ h

theorem ar_step_nodup (s : Sys) (op : HOp) (h : s.σ.w.arena.Nodup) : (s.step op).σ.w.arena.Nodup := by
  cases op with
  | ev e => exact ar_tryReceive_nodup s.σ e h
  | persist mode =>
    cases mode <;> exact ar_restore_nodup _ _ _ _ h
  | discard => exact ar_restore_nodup _ _ _ _ h

theorem ar_run_nodup (ops : List HOp) : ∀ s : Sys, s.σ.w.arena.Nodup → (runHistory s ops).σ.w.arena.Nodup := by
  induction ops with
  | nil => intro s h; exact h
  | cons op ops ih =>
    intro s h
    exact ih _ (ar_step_nodup s op h)

end TT
