/-
  TT.Lemmas.RecvStack — host span-stack and uncommitted-set invariants of the receiver model
  (support for TT/Props/C04.lean).
-/
import TT.Model.History

namespace TT

/-! ### AMap / ASet lookups -/

namespace AMap
variable {κ α : Type} [DecidableEq κ]

theorem get_insert (m : AMap κ α) (k k' : κ) (v : α) :
    (m.insert k v).get k' = if k = k' then some v else m.get k' := by
  induction m with
  | nil => simp [insert, get]
  | cons p rest ih =>
    obtain ⟨k0, v0⟩ := p
    simp only [insert]
    by_cases h0 : k0 = k
    · subst h0
      by_cases h1 : k0 = k' <;> simp [get, h1]
    · by_cases h1 : k0 = k'
      · subst h1
        have h2 : ¬ k = k0 := fun h => h0 h.symm
        simp [get, h0, h2]
      · simp [get, h0, h1, ih]

theorem get_erase (m : AMap κ α) (k k' : κ) :
    (m.erase k).get k' = if k = k' then none else m.get k' := by
  induction m with
  | nil => simp [erase, get]
  | cons p rest ih =>
    obtain ⟨k0, v0⟩ := p
    simp only [erase]
    by_cases h0 : k0 = k
    · subst h0
      simp only [if_true, ih]
      by_cases h1 : k0 = k' <;> simp [get, h1]
    · by_cases h1 : k0 = k'
      · subst h1
        have h2 : ¬ k = k0 := fun h => h0 h.symm
        simp [get, h0, h2]
      · simp [get, h0, h1, ih]

theorem contains_insert (m : AMap κ α) (k k' : κ) (v : α) :
    (m.insert k v).contains k' = (decide (k = k') || m.contains k') := by
  unfold contains
  rw [get_insert]
  by_cases h : k = k' <;> simp [h]

theorem contains_erase (m : AMap κ α) (k k' : κ) :
    (m.erase k).contains k' = (!decide (k = k') && m.contains k') := by
  unfold contains
  rw [get_erase]
  by_cases h : k = k' <;> simp [h]

theorem mem_of_get {m : AMap κ α} {k : κ} {v : α} (h : m.get k = some v) : (k, v) ∈ m := by
  induction m with
  | nil => simp [get] at h
  | cons p rest ih =>
    obtain ⟨k0, v0⟩ := p
    simp only [get] at h
    by_cases h0 : k0 = k
    · simp only [h0, if_true, Option.some.injEq] at h
      subst h0; subst h
      exact List.mem_cons_self
    · simp only [h0, if_false] at h
      exact List.mem_cons_of_mem _ (ih h)

end AMap

theorem ASet.nodup_insert {κ : Type} [DecidableEq κ] (s : ASet κ) (k : κ) (h : s.Nodup) :
    (ASet.insert s k).Nodup := by
  unfold ASet.insert
  by_cases hk : k ∈ s
  · simp [hk, h]
  · simp only [hk, if_false]
    rw [List.nodup_append]
    refine ⟨h, by simp, ?_⟩
    intro a ha b hb
    simp only [List.mem_singleton] at hb
    subst hb
    intro hab
    exact hk (hab ▸ ha)

theorem ASet.mem_insert {κ : Type} [DecidableEq κ] (s : ASet κ) (k g : κ) (h : g ∈ ASet.insert s k) :
    g ∈ s ∨ g = k := by
  unfold ASet.insert at h
  by_cases hk : k ∈ s
  · simp only [hk, if_true] at h; exact Or.inl h
  · simp only [hk, if_false, List.mem_append, List.mem_singleton] at h; exact h

theorem ASet.nodup_erase {κ : Type} [DecidableEq κ] (s : ASet κ) (k : κ) (h : s.Nodup) :
    (ASet.erase s k).Nodup := by
  unfold ASet.erase
  exact h.filter _

theorem ASet.mem_erase {κ : Type} [DecidableEq κ] (s : ASet κ) (k g : κ) (h : g ∈ ASet.erase s k) :
    g ∈ s ∧ g ≠ k := by
  unfold ASet.erase at h
  simpa using h

/-! ### Stack counting -/

def cnt (h : Nat) : List (Nat × Bool) → Nat
  | [] => 0
  | (x, _) :: rest => (if x = h then 1 else 0) + cnt h rest

theorem cnt_pop (s : List (Nat × Bool)) (h h' : Nat) :
    cnt h' (stackPop s h) = if h = h' then cnt h' s - 1 else cnt h' s := by
  induction s with
  | nil => simp [stackPop, cnt]
  | cons p rest ih =>
    obtain ⟨x, d⟩ := p
    simp only [stackPop]
    by_cases hx : x = h
    · subst hx
      by_cases hh : x = h' <;> simp [cnt, hh]
    · simp only [hx, if_false, cnt, ih]
      by_cases hh : h = h'
      · subst hh
        simp [hx]
      · simp [hh]

theorem cnt_push (s : List (Nat × Bool)) (h h' : Nat) (d : Bool) :
    cnt h' ((h, d) :: s) = (if h = h' then 1 else 0) + cnt h' s := by
  simp [cnt]

theorem eq_nil_of_cnt (s : List (Nat × Bool)) (h : ∀ x, cnt x s = 0) : s = [] := by
  cases s with
  | nil => rfl
  | cons p rest =>
    obtain ⟨x, d⟩ := p
    have := h x
    simp [cnt] at this

theorem stackPop_append (top B : List (Nat × Bool)) (h : Nat) (hB : ∀ e ∈ B, e.1 ≠ h) :
    stackPop (top ++ B) h = stackPop top h ++ B := by
  induction top with
  | nil =>
    simp only [List.nil_append, stackPop]
    induction B with
    | nil => rfl
    | cons p rest ih =>
      obtain ⟨x, d⟩ := p
      have hx : x ≠ h := hB (x, d) List.mem_cons_self
      simp only [stackPop, hx, if_false]
      rw [ih (fun e he => hB e (List.mem_cons_of_mem _ he))]
  | cons p rest ih =>
    obtain ⟨x, d⟩ := p
    simp only [List.cons_append, stackPop]
    by_cases hx : x = h
    · simp [hx]
    · simp [hx, ih]

/-! ### Host operations: stack, next, log -/

theorem emitN_log (host : Host) (c : HostCall) (n : Nat) :
    (emitN host c n).log = List.replicate n c ++ host.log := by
  induction n generalizing host with
  | zero => simp [emitN]
  | succ n ih =>
    simp only [emitN, ih, Host.emit, List.replicate_succ']
    simp

theorem emitN_next (host : Host) (c : HostCall) (n : Nat) :
    (emitN host c n).next = host.next := by
  induction n generalizing host with
  | zero => simp [emitN]
  | succ n ih => simp only [emitN, ih, Host.emit]

theorem emitN_exit_stack (B : List (Nat × Bool)) (h : Nat) (hB : ∀ e ∈ B, e.1 ≠ h) (n : Nat)
    (host : Host) (top : List (Nat × Bool)) (hs : host.stack = top ++ B) :
    ∃ top', (emitN host (.exit h) n).stack = top' ++ B ∧
      ∀ h', cnt h' top' = if h = h' then cnt h' top - n else cnt h' top := by
  induction n generalizing host top with
  | zero => exact ⟨top, by simp [emitN, hs], by intro h'; simp⟩
  | succ n ih =>
    have hs' : (host.emit (.exit h)).stack = stackPop top h ++ B := by
      simp only [Host.emit, hs]
      exact stackPop_append top B h hB
    obtain ⟨top', h1, h2⟩ := ih (host.emit (.exit h)) (stackPop top h) hs'
    refine ⟨top', by simpa [emitN] using h1, ?_⟩
    intro h'
    rw [h2 h', cnt_pop]
    by_cases hh : h = h'
    · simp only [hh, if_true]; omega
    · simp [hh]

def expSum (loc : AMap Nat Nat) (h : Nat) : List (Nat × Nat) → Nat
  | [] => 0
  | (g, c) :: rest => (if loc.get g = some h then c else 0) + expSum loc h rest

theorem expSum_ge (loc : AMap Nat Nat) (h : Nat) (ent : List (Nat × Nat)) (g c : Nat)
    (hm : (g, c) ∈ ent) (hl : loc.get g = some h) : c ≤ expSum loc h ent := by
  induction ent with
  | nil => cases hm
  | cons p rest ih =>
    obtain ⟨g0, c0⟩ := p
    simp only [expSum]
    rcases List.mem_cons.mp hm with heq | hmem
    · injection heq with h1 h2
      subst h1; subst h2
      simp [hl]
    · have := ih hmem
      omega

/-- The first fold of `finalize`. -/
def finExit (loc : AMap Nat Nat) (host : Host) (kv : Nat × Nat) : Host :=
  match loc.get kv.1 with
  | some h => emitN host (.exit h) kv.2
  | none => host

/-- The second fold of `finalize`. -/
def finClose (loc : AMap Nat Nat) (host : Host) (id : Nat) : Host :=
  match loc.get id with
  | some h => host.emit (.tryClose h)
  | none => host

theorem finalize_eq (ent : AMap Nat Nat) (unc : List Nat) (loc : AMap Nat Nat) (host : Host) :
    finalize ent unc loc host = unc.foldl (finClose loc) (ent.foldl (finExit loc) host) := rfl

theorem finExit_fold_next (loc : AMap Nat Nat) (ent : List (Nat × Nat)) (host : Host) :
    (ent.foldl (finExit loc) host).next = host.next := by
  induction ent generalizing host with
  | nil => rfl
  | cons p rest ih =>
    simp only [List.foldl_cons, ih]
    unfold finExit
    split
    · exact emitN_next _ _ _
    · rfl

theorem finExit_fold_stack (loc : AMap Nat Nat) (B : List (Nat × Bool))
    (hB : ∀ g h, loc.get g = some h → ∀ e ∈ B, e.1 ≠ h)
    (ent : List (Nat × Nat)) (host : Host) (top : List (Nat × Bool)) (hs : host.stack = top ++ B) :
    ∃ top', (ent.foldl (finExit loc) host).stack = top' ++ B ∧
      ∀ h', cnt h' top' = cnt h' top - expSum loc h' ent := by
  induction ent generalizing host top with
  | nil => exact ⟨top, hs, by intro h'; simp [expSum]⟩
  | cons p rest ih =>
    obtain ⟨g, c⟩ := p
    simp only [List.foldl_cons]
    cases hl : loc.get g with
    | none =>
      have : finExit loc host (g, c) = host := by simp [finExit, hl]
      rw [this]
      obtain ⟨top', h1, h2⟩ := ih host top hs
      refine ⟨top', h1, ?_⟩
      intro h'
      simp [h2 h', expSum, hl]
    | some h =>
      have : finExit loc host (g, c) = emitN host (.exit h) c := by simp [finExit, hl]
      rw [this]
      obtain ⟨top1, h1, h2⟩ := emitN_exit_stack B h (hB g h hl) c host top hs
      obtain ⟨top', h3, h4⟩ := ih _ top1 h1
      refine ⟨top', h3, ?_⟩
      intro h'
      rw [h4 h', h2 h']
      simp only [expSum, hl, Option.some.injEq]
      by_cases hh : h = h'
      · simp only [hh, if_true]; omega
      · simp [hh]

theorem finExit_fold_log (loc : AMap Nat Nat) (ent : List (Nat × Nat)) (host : Host) :
    ∃ p, (ent.foldl (finExit loc) host).log = p ++ host.log ∧ ∀ c ∈ p, ∃ h, c = HostCall.exit h := by
  induction ent generalizing host with
  | nil => exact ⟨[], rfl, by simp⟩
  | cons kv rest ih =>
    simp only [List.foldl_cons]
    obtain ⟨p, h1, h2⟩ := ih (finExit loc host kv)
    cases hl : loc.get kv.1 with
    | none =>
      have : finExit loc host kv = host := by simp [finExit, hl]
      rw [this] at h1 ⊢
      exact ⟨p, h1, h2⟩
    | some h =>
      have : finExit loc host kv = emitN host (.exit h) kv.2 := by simp [finExit, hl]
      rw [this] at h1 ⊢
      rw [emitN_log] at h1
      refine ⟨p ++ List.replicate kv.2 (.exit h), by simpa using h1, ?_⟩
      intro c hc
      rcases List.mem_append.mp hc with hc | hc
      · exact h2 c hc
      · exact ⟨h, (List.mem_replicate.mp hc).2⟩

theorem finClose_fold_next (loc : AMap Nat Nat) (unc : List Nat) (host : Host) :
    (unc.foldl (finClose loc) host).next = host.next ∧
    (unc.foldl (finClose loc) host).stack = host.stack := by
  induction unc generalizing host with
  | nil => exact ⟨rfl, rfl⟩
  | cons id rest ih =>
    simp only [List.foldl_cons]
    obtain ⟨h1, h2⟩ := ih (finClose loc host id)
    rw [h1, h2]
    unfold finClose
    split <;> simp [Host.emit]

theorem finClose_fold_log (loc : AMap Nat Nat) (unc : List Nat) (host : Host) :
    (unc.foldl (finClose loc) host).log
      = ((unc.filterMap (loc.get ·)).map HostCall.tryClose).reverse ++ host.log := by
  induction unc generalizing host with
  | nil => simp
  | cons id rest ih =>
    simp only [List.foldl_cons, ih]
    cases hl : loc.get id with
    | none => simp [finClose, hl]
    | some h => simp [finClose, hl, Host.emit]

theorem newCalls_of_log (before after : Host) (p : List HostCall) (h : after.log = p ++ before.log) :
    after.log.take (after.log.length - before.log.length) = p := by
  rw [h]
  simp

/-! ### Receiver operations that leave the stack alone -/

theorem recordChunks_props (h : Nat) (cs : List RawVals) (host host' : Host)
    (hr : recordChunks host h cs = some host') :
    host'.next = host.next ∧ host'.stack = host.stack := by
  induction cs generalizing host with
  | nil => simp only [recordChunks, Option.some.injEq] at hr; subst hr; exact ⟨rfl, rfl⟩
  | cons c cs ih =>
    simp only [recordChunks] at hr
    split at hr
    · cases hr
    · obtain ⟨h1, h2⟩ := ih _ hr
      exact ⟨h1, h2⟩

theorem createLocalSpan_ok (r : RState) (w w' : World) (d : SpanData) (h : Nat)
    (hc : createLocalSpan r w d = .ok w' h) :
    h = w.host.next ∧ w'.host.next = w.host.next + 1 ∧ w'.host.stack = w.host.stack := by
  unfold createLocalSpan at hc
  split at hc
  · cases hc
  · dsimp only at hc
    split at hc
    · cases hc
    · simp only [Host.newSpan] at hc
      split at hc
      · cases hc
      · rename_i host' hr
        injection hc with h1 h2
        obtain ⟨h3, h4⟩ := recordChunks_props _ _ _ _ hr
        subst h1; subst h2
        exact ⟨rfl, h3, h4⟩

theorem onNewCallSite_props (σ : Sigma) (id : Nat) (d : CallSite) :
    (onNewCallSite σ id d).r.loc = σ.r.loc ∧ (onNewCallSite σ id d).r.entered = σ.r.entered ∧
    (onNewCallSite σ id d).r.uncommitted = σ.r.uncommitted ∧ (onNewCallSite σ id d).r.spans = σ.r.spans ∧
    (onNewCallSite σ id d).w.host.next = σ.w.host.next ∧ (onNewCallSite σ id d).w.host.stack = σ.w.host.stack := by
  unfold onNewCallSite
  split
  refine ⟨rfl, rfl, rfl, rfl, ?_, ?_⟩ <;> dsimp only <;> split <;> simp [Host.emit]

theorem restore_props (pm : PersistedMeta) (ps : PersistedSpans) (loc : AMap Nat Nat) (w : World) :
    (restore pm ps loc w).r.loc = loc ∧ (restore pm ps loc w).r.entered = [] ∧
    (restore pm ps loc w).r.uncommitted = [] ∧ (restore pm ps loc w).r.spans = ps ∧
    (restore pm ps loc w).w.host.next = w.host.next ∧ (restore pm ps loc w).w.host.stack = w.host.stack := by
  unfold restore
  suffices h : ∀ σ : Sigma,
      (pm.foldl (fun σ kv => onNewCallSite σ kv.1 kv.2) σ).r.loc = σ.r.loc ∧
      (pm.foldl (fun σ kv => onNewCallSite σ kv.1 kv.2) σ).r.entered = σ.r.entered ∧
      (pm.foldl (fun σ kv => onNewCallSite σ kv.1 kv.2) σ).r.uncommitted = σ.r.uncommitted ∧
      (pm.foldl (fun σ kv => onNewCallSite σ kv.1 kv.2) σ).r.spans = σ.r.spans ∧
      (pm.foldl (fun σ kv => onNewCallSite σ kv.1 kv.2) σ).w.host.next = σ.w.host.next ∧
      (pm.foldl (fun σ kv => onNewCallSite σ kv.1 kv.2) σ).w.host.stack = σ.w.host.stack from
    h _
  induction pm with
  | nil => intro σ; simp
  | cons kv rest ih =>
    intro σ
    simp only [List.foldl_cons]
    obtain ⟨a1, a2, a3, a4, a5, a6⟩ := ih (onNewCallSite σ kv.1 kv.2)
    obtain ⟨b1, b2, b3, b4, b5, b6⟩ := onNewCallSite_props σ kv.1 kv.2
    exact ⟨a1.trans b1, a2.trans b2, a3.trans b3, a4.trans b4, a5.trans b5, a6.trans b6⟩

theorem mapSpanId_some (r : RState) (id h : Nat) (hm : mapSpanId r id = .ok (some h)) :
    r.loc.get id = some h := by
  unfold mapSpanId at hm
  split at hm
  · injection hm with h1; injection h1 with h2; subst h2; assumption
  · split at hm <;> cases hm

theorem mapSpanId_none (r : RState) (id : Nat) (hm : mapSpanId r id = .ok none) :
    r.loc.get id = none := by
  unfold mapSpanId at hm
  split at hm
  · cases hm
  · assumption

theorem bumpEntered_get (e : AMap Nat Nat) (id g : Nat) :
    ((bumpEntered e id).get g).getD 0 = if id = g then (e.get id).getD 0 + 1 else (e.get g).getD 0 := by
  unfold bumpEntered
  rw [AMap.get_insert]
  by_cases h : id = g <;> simp [h]

theorem dropEntered_get (e : AMap Nat Nat) (id g : Nat) :
    ((dropEntered e id).get g).getD 0 = if id = g then (e.get id).getD 0 - 1 else (e.get g).getD 0 := by
  unfold dropEntered
  cases he : e.get id with
  | none =>
    by_cases h : id = g
    · subst h; simp [he]
    · simp [h]
  | some c =>
    by_cases hc : c - 1 = 0
    · simp only [hc, if_true, AMap.get_erase]
      by_cases h : id = g <;> simp [h, hc]
    · simp only [hc, if_false, AMap.get_insert]
      by_cases h : id = g <;> simp [h]

theorem dropEntered_get_none (e : AMap Nat Nat) (id g : Nat) (hg : e.get g = none) :
    (dropEntered e id).get g = none := by
  unfold dropEntered
  cases he : e.get id with
  | none => exact hg
  | some c =>
    have hne : id ≠ g := by intro h; subst h; rw [he] at hg; cases hg
    by_cases hc : c - 1 = 0
    · simp [hc, AMap.get_erase, hne, hg]
    · simp [hc, AMap.get_insert, hne, hg]

/-! ### The stack invariant -/

structure Inv (B : List (Nat × Bool)) (host : Host) (loc ent : AMap Nat Nat) : Prop where
  top : ∃ top, host.stack = top ++ B ∧
    (∀ g h, loc.get g = some h → cnt h top = (ent.get g).getD 0) ∧
    (∀ h, (∀ g, loc.get g ≠ some h) → cnt h top = 0)
  baseLt : ∀ e ∈ B, e.1 < host.next
  locLt : ∀ g h, loc.get g = some h → h < host.next
  locB : ∀ g h, loc.get g = some h → ∀ e ∈ B, e.1 ≠ h
  inj : ∀ g₁ g₂ h, loc.get g₁ = some h → loc.get g₂ = some h → g₁ = g₂
  entLoc : ∀ g, loc.get g = none → ent.get g = none

variable {B : List (Nat × Bool)} {host host' : Host} {loc loc' ent ent' : AMap Nat Nat}

theorem Inv.host_eq (hi : Inv B host loc ent) (hs : host'.stack = host.stack)
    (hn : host.next ≤ host'.next) : Inv B host' loc ent := by
  obtain ⟨htop, h2, h3, h4, h5, h6⟩ := hi
  refine ⟨by rw [hs]; exact htop, ?_, ?_, h4, h5, h6⟩
  · intro e he; exact Nat.lt_of_lt_of_le (h2 e he) hn
  · intro g h hl; exact Nat.lt_of_lt_of_le (h3 g h hl) hn

theorem Inv.congr_lookup (hi : Inv B host loc ent) (hl : ∀ g, loc'.get g = loc.get g)
    (he : ∀ g, ent'.get g = ent.get g) : Inv B host loc' ent' := by
  obtain ⟨⟨top, t1, t2, t3⟩, h2, h3, h4, h5, h6⟩ := hi
  refine ⟨⟨top, t1, ?_, ?_⟩, h2, ?_, ?_, ?_, ?_⟩
  · intro g h hg; rw [he]; exact t2 g h (hl g ▸ hg)
  · intro h hg; exact t3 h (fun g => hl g ▸ hg g)
  · intro g h hg; exact h3 g h (hl g ▸ hg)
  · intro g h hg; exact h4 g h (hl g ▸ hg)
  · intro g₁ g₂ h a b; exact h5 g₁ g₂ h (hl g₁ ▸ a) (hl g₂ ▸ b)
  · intro g hg; rw [he]; exact h6 g (hl g ▸ hg)

theorem Inv.newLoc (hi : Inv B host loc ent) (id : Nat) (hl : loc.get id = none)
    (hs : host'.stack = host.stack) (hn : host'.next = host.next + 1) :
    Inv B host' (loc.insert id host.next) ent := by
  obtain ⟨⟨top, t1, t2, t3⟩, h2, h3, h4, h5, h6⟩ := hi
  have hfresh : ∀ g, loc.get g ≠ some host.next := by
    intro g hg; exact Nat.lt_irrefl _ (h3 g _ hg)
  refine ⟨⟨top, by rw [hs]; exact t1, ?_, ?_⟩, ?_, ?_, ?_, ?_, ?_⟩
  · intro g h hg
    rw [AMap.get_insert] at hg
    by_cases hid : id = g
    · subst hid
      simp only [if_true, Option.some.injEq] at hg
      subst hg
      rw [t3 _ hfresh, h6 _ hl]; rfl
    · simp only [hid, if_false] at hg
      exact t2 g h hg
  · intro h hg
    apply t3
    intro g hgl
    have := hg g
    rw [AMap.get_insert] at this
    by_cases hid : id = g
    · subst hid; rw [hl] at hgl; cases hgl
    · simp only [hid, if_false] at this; exact this hgl
  · intro e he; rw [hn]; exact Nat.lt_succ_of_lt (h2 e he)
  · intro g h hg
    rw [AMap.get_insert] at hg
    rw [hn]
    by_cases hid : id = g
    · simp only [hid, if_true, Option.some.injEq] at hg
      omega
    · simp only [hid, if_false] at hg
      exact Nat.lt_succ_of_lt (h3 g h hg)
  · intro g h hg e he
    rw [AMap.get_insert] at hg
    by_cases hid : id = g
    · simp only [hid, if_true, Option.some.injEq] at hg
      have := h2 e he
      omega
    · simp only [hid, if_false] at hg
      exact h4 g h hg e he
  · intro g₁ g₂ h a b
    rw [AMap.get_insert] at a b
    by_cases hid1 : id = g₁ <;> by_cases hid2 : id = g₂
    · exact hid1.symm.trans hid2
    · subst hid1
      simp only [if_true, Option.some.injEq, hid2, if_false] at a b
      subst a; exact absurd b (hfresh g₂)
    · subst hid2
      simp only [hid1, if_false, Option.some.injEq, if_true] at a b
      subst b; exact absurd a (hfresh g₁)
    · simp only [hid1, hid2, if_false] at a b
      exact h5 g₁ g₂ h a b
  · intro g hg
    rw [AMap.get_insert] at hg
    by_cases hid : id = g
    · simp [hid] at hg
    · simp only [hid, if_false] at hg
      exact h6 g hg

theorem Inv.enter (hi : Inv B host loc ent) (id h : Nat) (hl : loc.get id = some h) :
    Inv B (host.emit (.enter h)) loc (bumpEntered ent id) := by
  obtain ⟨⟨top, t1, t2, t3⟩, h2, h3, h4, h5, h6⟩ := hi
  refine ⟨⟨(h, (top ++ B).any (·.1 == h)) :: top, by simp [Host.emit, stackPush, t1], ?_, ?_⟩,
    h2, h3, h4, h5, ?_⟩
  · intro g h' hg
    rw [cnt_push, bumpEntered_get]
    by_cases hid : id = g
    · subst hid
      rw [hl] at hg
      injection hg with hg
      subst hg
      simp only [if_true]
      rw [t2 id h hl]; omega
    · have hne : h ≠ h' := by
        intro hh; subst hh; exact hid (h5 _ _ _ hl hg)
      simp only [hid, hne, if_false]
      rw [t2 g h' hg]; omega
  · intro h' hg
    have hne : h ≠ h' := by intro hh; subst hh; exact hg id hl
    rw [cnt_push, t3 h' hg]
    simp [hne]
  · intro g hg
    have hne : id ≠ g := by intro hh; subst hh; rw [hl] at hg; cases hg
    unfold bumpEntered
    rw [AMap.get_insert]
    simp only [hne, if_false]
    exact h6 g hg

theorem Inv.exit (hi : Inv B host loc ent) (id h : Nat) (hl : loc.get id = some h) :
    Inv B (host.emit (.exit h)) loc (dropEntered ent id) := by
  obtain ⟨⟨top, t1, t2, t3⟩, h2, h3, h4, h5, h6⟩ := hi
  have hst : (host.emit (.exit h)).stack = stackPop top h ++ B := by
    simp only [Host.emit, t1]
    exact stackPop_append top B h (h4 id h hl)
  refine ⟨⟨stackPop top h, hst, ?_, ?_⟩, h2, h3, h4, h5, ?_⟩
  · intro g h' hg
    rw [cnt_pop, dropEntered_get]
    by_cases hid : id = g
    · subst hid
      rw [hl] at hg
      injection hg with hg
      subst hg
      simp only [if_true]
      rw [t2 id h hl]
    · have hne : h ≠ h' := by
        intro hh; subst hh; exact hid (h5 _ _ _ hl hg)
      simp only [hid, hne, if_false]
      exact t2 g h' hg
  · intro h' hg
    rw [cnt_pop, t3 h' hg]
    split <;> rfl
  · intro g hg
    exact dropEntered_get_none _ _ _ (h6 g hg)

theorem Inv.exit_none (hi : Inv B host loc ent) (id : Nat) (hl : loc.get id = none) :
    Inv B host loc (dropEntered ent id) := by
  obtain ⟨⟨top, t1, t2, t3⟩, h2, h3, h4, h5, h6⟩ := hi
  refine ⟨⟨top, t1, ?_, t3⟩, h2, h3, h4, h5, ?_⟩
  · intro g h' hg
    have hne : id ≠ g := by intro hh; subst hh; rw [hl] at hg; cases hg
    rw [dropEntered_get]
    simp only [hne, if_false]
    exact t2 g h' hg
  · intro g hg
    exact dropEntered_get_none _ _ _ (h6 g hg)

theorem Inv.drop (hi : Inv B host loc ent) (id : Nat) (he : ent.get id = none)
    (hs : host'.stack = host.stack) (hn : host'.next = host.next) :
    Inv B host' (loc.erase id) (ent.erase id) := by
  have hi' : Inv B host' loc ent := hi.host_eq hs (Nat.le_of_eq hn.symm)
  obtain ⟨⟨top, t1, t2, t3⟩, h2, h3, h4, h5, h6⟩ := hi'
  have hge : ∀ g h, (loc.erase id).get g = some h → id ≠ g ∧ loc.get g = some h := by
    intro g h hg
    rw [AMap.get_erase] at hg
    by_cases hid : id = g
    · simp [hid] at hg
    · simp only [hid, if_false] at hg; exact ⟨hid, hg⟩
  refine ⟨⟨top, t1, ?_, ?_⟩, h2, ?_, ?_, ?_, ?_⟩
  · intro g h hg
    obtain ⟨hid, hg'⟩ := hge g h hg
    rw [AMap.get_erase]
    simp only [hid, if_false]
    exact t2 g h hg'
  · intro h hg
    by_cases hex : ∃ g, loc.get g = some h
    · obtain ⟨g, hgl⟩ := hex
      by_cases hid : id = g
      · subst hid
        rw [t2 id h hgl, he]; rfl
      · exfalso
        apply hg g
        rw [AMap.get_erase]
        simp only [hid, if_false]
        exact hgl
    · exact t3 h (fun g hgl => hex ⟨g, hgl⟩)
  · intro g h hg; exact h3 g h (hge g h hg).2
  · intro g h hg; exact h4 g h (hge g h hg).2
  · intro g₁ g₂ h a b; exact h5 g₁ g₂ h (hge _ _ a).2 (hge _ _ b).2
  · intro g hg
    rw [AMap.get_erase] at hg ⊢
    by_cases hid : id = g
    · simp [hid]
    · simp only [hid, if_false] at hg ⊢
      exact h6 g hg

theorem Inv.drop_none (hi : Inv B host loc ent) (id : Nat) (hl : loc.get id = none) :
    Inv B host loc (ent.erase id) := by
  have he : ent.get id = none := hi.entLoc id hl
  refine (hi.drop id he rfl rfl).congr_lookup ?_ (fun _ => rfl)
  intro g
  rw [AMap.get_erase]
  by_cases hid : id = g
  · subst hid; simp [hl]
  · simp [hid]

theorem Inv.fin_stack (hi : Inv B host loc ent) (unc : List Nat) :
    (finalize ent unc loc host).stack = B ∧ (finalize ent unc loc host).next = host.next := by
  obtain ⟨⟨top, t1, t2, t3⟩, h2, h3, h4, h5, h6⟩ := hi
  rw [finalize_eq]
  obtain ⟨c1, c2⟩ := finClose_fold_next loc unc (ent.foldl (finExit loc) host)
  rw [c1, c2, finExit_fold_next]
  refine ⟨?_, rfl⟩
  obtain ⟨top', s1, s2⟩ := finExit_fold_stack loc B h4 ent host top t1
  have : top' = [] := by
    apply eq_nil_of_cnt
    intro h
    rw [s2 h]
    by_cases hex : ∃ g, loc.get g = some h
    · obtain ⟨g, hgl⟩ := hex
      rw [t2 g h hgl]
      cases hge : ent.get g with
      | none => simp
      | some c =>
        have := expSum_ge loc h ent g c (AMap.mem_of_get hge) hgl
        simp only [Option.getD_some]
        omega
    · rw [t3 h (fun g hgl => hex ⟨g, hgl⟩)]; simp
  rw [s1, this]; rfl

theorem Inv.after_finalize (hi : Inv B host loc ent) (unc : List Nat) :
    Inv B (finalize ent unc loc host) loc [] ∧ Inv B (finalize ent unc loc host) [] [] := by
  obtain ⟨f1, f2⟩ := hi.fin_stack unc
  obtain ⟨_, h2, h3, h4, h5, h6⟩ := hi
  constructor
  · refine ⟨⟨[], by simp [f1], ?_, ?_⟩, by rw [f2]; exact h2, by rw [f2]; exact h3, h4, h5, ?_⟩
    · intro g h _; rfl
    · intro h _; rfl
    · intro g _; rfl
  · refine ⟨⟨[], by simp [f1], ?_, ?_⟩, by rw [f2]; exact h2, ?_, ?_, ?_, ?_⟩
    · intro g h _; rfl
    · intro h _; rfl
    · intro g h hg; cases hg
    · intro g h hg; cases hg
    · intro g₁ g₂ h hg; cases hg
    · intro g _; rfl

/-! ### Events preserve the invariant -/

theorem vr_outer (P : Sigma → Prop) (id : Nat) (values : TVals) (rec : Res) (h0 : P rec.state)
    (h1 : ∀ σ' d, P σ' → P { σ' with r := { σ'.r with spans := σ'.r.spans.insert id d } }) :
    P (match rec with
        | .ok σ' =>
          match σ'.r.spans.get id with
          | none => Res.err (.unknownSpan id) σ'
          | some d => .ok { σ' with r := { σ'.r with spans := σ'.r.spans.insert id { d with values := d.values.extend values } } }
        | other => other).state := by
  cases rec with
  | ok σ' =>
    dsimp only
    split
    · exact h0
    · exact h1 _ _ h0
  | err e σ' => exact h0
  | panic s σ' => exact h0

def SInv (B : List (Nat × Bool)) (σ : Sigma) : Prop := Inv B σ.w.host σ.r.loc σ.r.entered

theorem tryReceive_inv (B : List (Nat × Bool)) (σ : Sigma) (e : Event) (hi : SInv B σ)
    (hwf : ∀ id d, e = .dropped id → σ.r.spans.get id = some d → d.refCount = 1 →
      σ.r.entered.get id = none) :
    SInv B (tryReceive σ e).state := by
  cases e with
  | newCallSite id d =>
    simp only [tryReceive, Res.state]
    obtain ⟨b1, b2, _, _, b5, b6⟩ := onNewCallSite_props σ id d
    unfold SInv
    rw [b1, b2]
    exact hi.host_eq b6 (Nat.le_of_eq b5.symm)
  | newSpan id parent mt values =>
    simp only [tryReceive]
    split
    · exact hi
    · split
      · exact hi
      · rename_i hc
        split
        · exact hi
        · split
          · exact hi
          · exact hi
          · rename_i w h hcl
            obtain ⟨c1, c2, c3⟩ := createLocalSpan_ok _ _ _ _ _ hcl
            subst c1
            have hl : σ.r.loc.get id = none := by
              unfold AMap.contains at hc
              cases hg : σ.r.loc.get id with
              | none => rfl
              | some v => simp [hg] at hc
            exact Inv.newLoc hi id hl c3 c2
  | followsFrom id f =>
    simp only [tryReceive]
    split
    · exact hi
    · split
      · exact hi
      · split
        · exact Inv.host_eq hi rfl (Nat.le_refl _)
        · exact hi
  | entered id =>
    simp only [tryReceive]
    split
    · exact hi
    · rename_i h hm
      exact Inv.enter hi id h (mapSpanId_some _ _ _ hm)
    · rename_i hm
      split
      · exact hi
      · split
        · exact hi
        · exact hi
        · rename_i w h hcl
          obtain ⟨c1, c2, c3⟩ := createLocalSpan_ok _ _ _ _ _ hcl
          subst c1
          have h1 : Inv B w.host (σ.r.loc.insert id σ.w.host.next) σ.r.entered :=
            Inv.newLoc hi id (mapSpanId_none _ _ hm) c3 c2
          exact Inv.enter h1 id _ (by rw [AMap.get_insert]; simp)
  | exited id =>
    simp only [tryReceive]
    split
    · exact hi
    · rename_i l hm
      cases l with
      | none => exact Inv.exit_none hi id (mapSpanId_none _ _ hm)
      | some h => exact Inv.exit hi id h (mapSpanId_some _ _ _ hm)
  | cloned id =>
    simp only [tryReceive]
    split <;> exact hi
  | dropped id =>
    simp only [tryReceive]
    split
    · exact hi
    · rename_i d hd
      split
      · exact hi
      · split
        · exact hi
        · rename_i h0 h1
          have hrc : d.refCount = 1 := by omega
          have he := hwf id d rfl hd hrc
          split
          · rename_i hl
            exact Inv.drop_none hi id hl
          · exact Inv.drop hi id he rfl rfl
  | valuesRecorded id values =>
    simp only [tryReceive]
    split
    · exact hi
    · split
      · exact hi
      · rename_i l hm
        refine vr_outer (SInv B) id values _ ?_ ?_
        · split
          · exact hi
          · split
            · exact hi
            · split
              · exact hi
              · split
                · exact hi
                · exact Inv.host_eq hi rfl (Nat.le_refl _)
        · intro σ' d h; exact h
  | newEvent mt parent values =>
    simp only [tryReceive]
    split
    · exact hi
    · split
      · exact hi
      · split
        · exact hi
        · split
          · exact hi
          · exact Inv.host_eq hi rfl (Nat.le_refl _)

/-! ### The uncommitted set -/

def UInv (unc : List Nat) (spans : AMap Nat SpanData) : Prop :=
  unc.Nodup ∧ ∀ g ∈ unc, spans.contains g = true

theorem UInv.span_insert {unc : List Nat} {spans : AMap Nat SpanData} (hu : UInv unc spans)
    (id : Nat) (d : SpanData) : UInv unc (spans.insert id d) := by
  refine ⟨hu.1, ?_⟩
  intro g hg
  rw [AMap.contains_insert, hu.2 g hg]
  simp

theorem UInv.commit {unc : List Nat} {spans : AMap Nat SpanData} (hu : UInv unc spans)
    (id : Nat) (d : SpanData) : UInv (ASet.insert unc id) (spans.insert id d) := by
  refine ⟨ASet.nodup_insert _ _ hu.1, ?_⟩
  intro g hg
  rw [AMap.contains_insert]
  rcases ASet.mem_insert _ _ _ hg with h | h
  · rw [hu.2 g h]; simp
  · simp [h]

theorem UInv.erase {unc : List Nat} {spans : AMap Nat SpanData} (hu : UInv unc spans)
    (id : Nat) : UInv (ASet.erase unc id) (spans.erase id) := by
  refine ⟨ASet.nodup_erase _ _ hu.1, ?_⟩
  intro g hg
  obtain ⟨h1, h2⟩ := ASet.mem_erase _ _ _ hg
  rw [AMap.contains_erase, hu.2 g h1]
  have : ¬ id = g := fun h => h2 h.symm
  simp [this]

def SU (σ : Sigma) : Prop := UInv σ.r.uncommitted σ.r.spans

theorem tryReceive_uinv (σ : Sigma) (e : Event) (hu : SU σ) : SU (tryReceive σ e).state := by
  cases e with
  | newCallSite id d =>
    simp only [tryReceive, Res.state]
    obtain ⟨_, _, b3, b4, _, _⟩ := onNewCallSite_props σ id d
    unfold SU
    rw [b3, b4]
    exact hu
  | newSpan id parent mt values =>
    simp only [tryReceive]
    split
    · exact hu
    · split
      · exact UInv.commit hu _ _
      · split
        · exact hu
        · split
          · exact hu
          · exact hu
          · exact UInv.commit hu _ _
  | followsFrom id f =>
    simp only [tryReceive]
    split
    · exact hu
    · split
      · exact hu
      · split <;> exact hu
  | entered id =>
    simp only [tryReceive]
    split
    · exact hu
    · exact hu
    · split
      · exact hu
      · split <;> exact hu
  | exited id =>
    simp only [tryReceive]
    split <;> exact hu
  | cloned id =>
    simp only [tryReceive]
    split
    · exact hu
    · exact UInv.span_insert hu _ _
  | dropped id =>
    simp only [tryReceive]
    split
    · exact hu
    · split
      · exact hu
      · split
        · exact UInv.span_insert hu _ _
        · split <;> exact UInv.erase hu _
  | valuesRecorded id values =>
    simp only [tryReceive]
    split
    · exact hu
    · split
      · exact hu
      · refine vr_outer SU id values _ ?_ ?_
        · split
          · exact hu
          · split
            · exact hu
            · split
              · exact hu
              · split <;> exact hu
        · intro σ' d h; exact UInv.span_insert h _ _
  | newEvent mt parent values =>
    simp only [tryReceive]
    split
    · exact hu
    · split
      · exact hu
      · split
        · exact hu
        · split <;> exact hu

end TT
