/-
  `follows_from` and `event` of thread `a` of the layered model against the concurrent reference
  description. (Thread-aware version of `CapSpecSim2`.)
-/
import TT.Lemmas.CapConcSim

namespace TT

/-! ### `follows_from` -/

theorem cc_sim_follows {N : Nat} {filters : List LFilter} {global : Option Nat} {sites : List CallSite}
    {calls : List (Nat × SubCall)} {H : Nat → Nat} {w : CapWorld}
    (h : cc_WInv N filters global sites calls (cc_hierFinal calls) H none w) (t a b : Nat)
    (ha : (w.reg.spans.get a).isSome) (hb : (w.reg.spans.get b).isSome) :
    cc_WInv N filters global sites (calls ++ [(t, .follows a b)]) (cc_hierFinal (calls ++ [(t, .follows a b)])) H none
      ((capSub t).follows w a b) := by
  cases hsa : w.reg.spans.get a with
  | none => simp [hsa] at ha
  | some sa =>
  cases hsb : w.reg.spans.get b with
  | none => simp [hsb] at hb
  | some sb =>
  have hc1 : ∀ id' k p f, SubCall.follows a b ≠ .newSpan id' k p f := by intros; simp
  have hc2 : ∀ k p f, SubCall.follows a b ≠ .event k p f := by intros; simp
  have hc1' : ∀ id' k p f, ((t, SubCall.follows a b) : Nat × SubCall).2 ≠ .newSpan id' k p f := hc1
  have hc2' : ∀ k p f, ((t, SubCall.follows a b) : Nat × SubCall).2 ≠ .event k p f := hc2
  have hU : cc_untag (calls ++ [(t, .follows a b)]) = cc_untag calls ++ [.follows a b] :=
    cc_untag_snoc _ _
  have hh : cc_hierFinal (calls ++ [(t, .follows a b)]) = cc_hierFinal calls := by
    rw [cc_hierFinal_snoc]; rfl
  have hmax := cs_maxId_snoc_nc (cc_untag calls) hc1
  have hstep : cc_StepOK calls (t, .follows a b) := by
    show a ≤ cs_maxId (cc_untag calls) ∧ b ≤ cs_maxId (cc_untag calls)
    have := (h.ri.ex b sb hsb).2.1
    have := (h.ri.ex a sa hsa).2.1
    have := h.next
    omega
  have hok' := cc_CallsOK.snoc calls _ h.ok hstep
  simp only [capSub]
  rw [if_neg (by rw [h.np]; simp), hh]
  apply cs_forLayers_pure_k w _
    (fun i => match sa.ext.get i, sb.ext.get i with
      | some ca, some cb => { w.storages.getD i {} with
          spans := modifyAt (w.storages.getD i {}).spans ca fun cs => { cs with follows := cs.follows ++ [cb] } }
      | _, _ => w.storages.getD i {})
    _ h.np (by rw [h.len, h.fl])
  · intro j hj w' hnp' hreg hl hst
    have hlen : w.storages.length = w.filters.length := by rw [h.len, h.fl]
    simp only [capturedOf, hreg, hsa, hsb, Option.map_some]
    cases hca : sa.ext.get j with
    | none =>
      cases hcb : sb.ext.get j <;> simp only <;> rw [← hst, cs_setStorage_self w' j (by omega)]
    | some ca =>
      cases hcb : sb.ext.get j with
      | none =>
        simp only
        rw [← hst, cs_setStorage_self w' j (by omega)]
      | some cb =>
        simp only
        have := cc_WInv_hval h hsa j ca (by rw [← h.fl]; exact hj) hca
        rw [hst]
        simp only [Storage.update, this, if_true]
  · intro w' hnp' hreg hfl hgl hl hst
    refine ⟨hnp', by rw [hfl, h.fl], by rw [hgl, h.gl], by rw [hl, h.len], hok', ?_, ?_, ?_, ?_⟩
    · rw [hreg, hU, hmax]; exact h.next
    · rw [hreg]; exact h.stk
    · rw [hreg]; exact h.ri
    · intro i hi
      have hcapE := cs_cap_snoc_nc filters[i] sites (cc_untag calls) hc1
      constructor
      · rw [hst i (by rw [h.fl]; exact hi), (h.lay i hi).ext a sa hsa, (h.lay i hi).ext b sb hsb,
          (h.lay i hi).st, hreg]
        rw [cc_refSpans_snoc_nc _ _ h.ok hstep hc1', cc_refEvents_snoc_nc _ _ h.ok hstep hc2', hU]
        cases hcb : (cs_cap filters[i] sites (cc_untag calls)).get b with
        | none =>
          have e1 : (match (cs_cap filters[i] sites (cc_untag calls)).get a, (none : Option Nat) with
              | some ca, some cb => ({ cs_mk (cc_refSpans filters[i] sites calls) (cc_refEvents filters[i] sites calls)
                    (cs_fns filters[i] sites (cc_untag calls) (cs_clOf w.reg)) with
                  spans := modifyAt (cs_mk (cc_refSpans filters[i] sites calls) (cc_refEvents filters[i] sites calls)
                    (cs_fns filters[i] sites (cc_untag calls) (cs_clOf w.reg))).spans ca
                      fun cs => { cs with follows := cs.follows ++ [cb] } } : Storage)
              | _, _ => cs_mk (cc_refSpans filters[i] sites calls) (cc_refEvents filters[i] sites calls)
                    (cs_fns filters[i] sites (cc_untag calls) (cs_clOf w.reg))) =
              cs_mk (cc_refSpans filters[i] sites calls) (cc_refEvents filters[i] sites calls)
                    (cs_fns filters[i] sites (cc_untag calls) (cs_clOf w.reg)) := by
            cases (cs_cap filters[i] sites (cc_untag calls)).get a <;> rfl
          rw [e1]
          apply cs_mk_congr
          intro s _
          refine ⟨?_, ?_, ?_, rfl, ?_⟩
          · simp [cs_fns, cs_values_snoc]
          · simp [cs_fns, cs_count_snoc, cs_isEnter]
          · simp [cs_fns, cs_count_snoc, cs_isExit]
          · simp [cs_fns, cs_follows_snoc, cs_newFollows, hcapE, hcb]
        | some cb =>
          have e1 : (match (cs_cap filters[i] sites (cc_untag calls)).get a, some cb with
              | some ca, some cb => ({ cs_mk (cc_refSpans filters[i] sites calls) (cc_refEvents filters[i] sites calls)
                    (cs_fns filters[i] sites (cc_untag calls) (cs_clOf w.reg)) with
                  spans := modifyAt (cs_mk (cc_refSpans filters[i] sites calls) (cc_refEvents filters[i] sites calls)
                    (cs_fns filters[i] sites (cc_untag calls) (cs_clOf w.reg))).spans ca
                      fun cs => { cs with follows := cs.follows ++ [cb] } } : Storage)
              | _, _ => cs_mk (cc_refSpans filters[i] sites calls) (cc_refEvents filters[i] sites calls)
                    (cs_fns filters[i] sites (cc_untag calls) (cs_clOf w.reg))) =
              (match (cs_cap filters[i] sites (cc_untag calls)).get a with
              | none => cs_mk (cc_refSpans filters[i] sites calls) (cc_refEvents filters[i] sites calls)
                    (cs_fns filters[i] sites (cc_untag calls) (cs_clOf w.reg))
              | some ca => { cs_mk (cc_refSpans filters[i] sites calls) (cc_refEvents filters[i] sites calls)
                    (cs_fns filters[i] sites (cc_untag calls) (cs_clOf w.reg)) with
                  spans := modifyAt (cs_mk (cc_refSpans filters[i] sites calls) (cc_refEvents filters[i] sites calls)
                    (cs_fns filters[i] sites (cc_untag calls) (cs_clOf w.reg))).spans ca
                      fun cs => { cs with follows := cs.follows ++ [cb] } }) := by
            cases (cs_cap filters[i] sites (cc_untag calls)).get a <;> rfl
          rw [e1]
          apply cc_layer_notify h.ok
          · intro y hy
            have hne : ¬ a = y := fun h' => hy h'.symm
            refine ⟨?_, ?_, ?_, rfl, ?_⟩
            · simp [cs_fns, cs_values_snoc]
            · simp [cs_fns, cs_count_snoc, cs_isEnter]
            · simp [cs_fns, cs_count_snoc, cs_isExit]
            · simp [cs_fns, cs_follows_snoc, cs_newFollows, hcapE, hne]
          · intro S E s' ci hid
            simp [cs_span_def, cs_fns, cs_values_snoc, cs_count_snoc, cs_isEnter, cs_isExit, hid,
              cs_follows_snoc, cs_newFollows, hcapE, hcb]
      · intro y sy hy
        rw [hreg] at hy
        rw [hU, hcapE]
        exact (h.lay i hi).ext y sy hy

/-! ### `event` -/

theorem cc_start_eq {N filters global sites calls hier H x w}
    (h : cc_WInv N filters global sites calls hier H x w) (a : Nat) (p : SParent) :
    (match p with
      | .root => none
      | .ctx => w.reg.current a
      | .explicit id => some id) = cs_resolve (cc_proj hier a) p := by
  cases p with
  | root => rfl
  | ctx =>
    simp only [cs_resolve, Reg.current]
    rw [cc_WInv_stack h a]
    rfl
  | explicit id => rfl

theorem cc_start_ok {N filters global sites calls hier H x w}
    (h : cc_WInv N filters global sites calls hier H x w) (a : Nat) (p : SParent)
    (hp : ∀ q, p = .explicit q → (w.reg.spans.get q).isSome) :
    ∀ q, cs_resolve (cc_proj hier a) p = some q → (w.reg.spans.get q).isSome := by
  intro q hq
  cases p with
  | root => cases hq
  | ctx =>
    simp only [cs_resolve] at hq
    have := cs_stackCurrent_mem hq
    cases hs : w.reg.spans.get q with
    | none =>
      have h2 := (h.ri.nex q hs).2 a
      have h3 : cs_onStack (hier.stack a) q = true := this
      rw [h2] at h3; cases h3
    | some _ => rfl
  | explicit id =>
    simp only [cs_resolve, Option.some.injEq] at hq
    subst hq
    exact hp _ rfl

theorem cc_start_bound {N filters global sites calls hier H x w}
    (h : cc_WInv N filters global sites calls hier H x w) {q : Nat} (hq : (w.reg.spans.get q).isSome) :
    1 ≤ q ∧ q ≤ cs_maxId (cc_untag calls) := by
  cases hs : w.reg.spans.get q with
  | none => rw [hs] at hq; cases hq
  | some s =>
    have := h.ri.ex q s hs
    have := h.next
    omega

/-- The captured parent computed by layer `i` for a span/event starting its scope at `start`. -/
theorem cc_scope_start {N filters global sites calls H x w}
    (h : cc_WInv N filters global sites calls (cc_hierFinal calls) H x w) (i : Nat) (hi : i < filters.length)
    (start : Option Nat) (hs : ∀ q, start = some q → (w.reg.spans.get q).isSome) :
    scopeCaptured w.reg i (w.reg.next + 1) start =
      cs_nearest (cc_hierFinal calls).parent (cs_cap filters[i] sites (cc_untag calls))
        (cs_maxId (cc_untag calls) + 1) start := by
  rw [cs_scope_eq_opt w.reg i _ _ (cc_WInv_scopeHyp h i hi) _ start (by
    intro q hq
    have := cc_start_bound h (hs q hq)
    have := h.next
    exact ⟨by omega, hs q hq⟩)]
  have hh := cc_hierOK h.ok
  exact cs_nearest_congr_opt _ _ _ _ (cs_maxId (cc_untag calls)) (fun _ _ => rfl) (fun _ _ => rfl)
    (fun c q hc => (hh.dec c q hc).2) _ _ start
    (fun q hq => (cc_start_bound h (hs q hq)).2) (by have := h.next; omega) (by omega)

theorem cc_sim_event_aux {N : Nat} {filters : List LFilter} {global : Option Nat} {sites : List CallSite}
    {calls : List (Nat × SubCall)} {H : Nat → Nat} {w : CapWorld}
    (h : cc_WInv N filters global sites calls (cc_hierFinal calls) H none w) (a k : Nat) (p : SParent)
    (fields : Fields) (hp : ∀ q, p = .explicit q → (w.reg.spans.get q).isSome)
    (start : Option Nat) (hstart : start = cs_resolve (cc_proj (cc_hierFinal calls) a) p) :
    cc_WInv N filters global sites (calls ++ [(a, .event k p fields)])
      (cc_hierFinal (calls ++ [(a, .event k p fields)]))
      H none (forLayers w fun w i flt =>
        if !flt.enabled (sites.getD k default) then w else
        match (w.storages.getD i {}).pushEvent k (capture fields)
          (scopeCaptured w.reg i (w.reg.next + 1) start) with
        | some st => setStorage w i st
        | none => panic w) := by
  subst hstart
  have hc1 : ∀ id' k' p' f, SubCall.event k p fields ≠ .newSpan id' k' p' f := by intros; simp
  have hc1' : ∀ id' k' p' f, ((a, SubCall.event k p fields) : Nat × SubCall).2 ≠ .newSpan id' k' p' f := hc1
  have hU : cc_untag (calls ++ [(a, .event k p fields)]) = cc_untag calls ++ [.event k p fields] :=
    cc_untag_snoc _ _
  have hh : cc_hierFinal (calls ++ [(a, .event k p fields)]) = cc_hierFinal calls := by
    rw [cc_hierFinal_snoc]; rfl
  have hmax := cs_maxId_snoc_nc (cc_untag calls) hc1
  have hsok := cc_start_ok h a p hp
  have hstep : cc_StepOK calls (a, .event k p fields) := fun q hq => cc_start_bound h (hsok q hq)
  have hok' := cc_CallsOK.snoc calls _ h.ok hstep
  rw [hh]
  -- the parent computed by layer `i`
  let pc : Nat → Option Nat := fun i =>
    cs_nearest (cc_hierFinal calls).parent (cs_cap (w.filters.getD i .all) sites (cc_untag calls))
      (cs_maxId (cc_untag calls) + 1) (cs_resolve (cc_proj (cc_hierFinal calls) a) p)
  apply cs_forLayers_pure_k w _
    (fun i => if (w.filters.getD i .all).enabled (sites.getD k default) then
        cs_mk (cc_refSpans (w.filters.getD i .all) sites calls)
          (cc_refEvents (w.filters.getD i .all) sites calls ++ [⟨k, capture fields, pc i⟩])
          (cs_fns (w.filters.getD i .all) sites (cc_untag calls) (cs_clOf w.reg))
      else w.storages.getD i {})
    _ h.np (by rw [h.len, h.fl])
  · intro j hj w' hnp' hreg hl hst
    have hlen : w.storages.length = w.filters.length := by rw [h.len, h.fl]
    have hj' : j < filters.length := by rw [← h.fl]; exact hj
    have hfj : w.filters[j] = filters[j] := by simp [h.fl]
    have hgd : w.filters.getD j .all = filters[j] := by rw [cs_getD_eq_getElem _ _ _ hj, hfj]
    simp only [hgd]
    rw [hfj]
    cases he : filters[j].enabled (sites.getD k default) with
    | false =>
      simp only [Bool.not_false, if_true, Bool.false_eq_true, if_false]
      rw [← hst, cs_setStorage_self w' j (by omega)]
    | true =>
      simp only [Bool.not_true, Bool.false_eq_true, if_false, if_true]
      rw [hreg, cc_scope_start h j hj' _ hsok, hst, (h.lay j hj').st]
      have hpc : pc j = cs_nearest (cc_hierFinal calls).parent (cs_cap filters[j] sites (cc_untag calls))
          (cs_maxId (cc_untag calls) + 1) (cs_resolve (cc_proj (cc_hierFinal calls) a) p) := by
        simp only [pc, hgd]
      rw [← hpc]
      have := cs_mk_pushEvent (cc_refSpans filters[j] sites calls) (cc_refEvents filters[j] sites calls)
        (cs_fns filters[j] sites (cc_untag calls) (cs_clOf w.reg)) ⟨k, capture fields, pc j⟩ (by
          intro q hq
          simp only at hq
          rw [hpc] at hq
          obtain ⟨id, hid⟩ := cs_nearest_some hq
          exact cc_cap_get_lt hid)
      simp only at this
      rw [this]
  · intro w' hnp' hreg hfl hgl hl hst
    refine ⟨hnp', by rw [hfl, h.fl], by rw [hgl, h.gl], by rw [hl, h.len], hok', ?_, ?_, ?_, ?_⟩
    · rw [hreg, hU, hmax]; exact h.next
    · rw [hreg]; exact h.stk
    · rw [hreg]; exact h.ri
    · intro i hi
      have hi' : i < w.filters.length := by rw [h.fl]; exact hi
      have hfi : w.filters[i] = filters[i] := by simp [h.fl]
      have hgd : w.filters.getD i .all = filters[i] := by rw [cs_getD_eq_getElem _ _ _ hi', hfi]
      have hcapE := cs_cap_snoc_nc filters[i] sites (cc_untag calls) hc1
      have hagree : ∀ s : cs_SI, (cs_fns filters[i] sites (cc_untag calls) (cs_clOf w.reg)).AgreeAt
          (cs_fns filters[i] sites (cc_untag calls ++ [.event k p fields]) (cs_clOf w.reg)) s.id :=
        fun s => cs_fns_agree_plain _ _ _ _ _ _ (by intros; simp) (by intros; simp) (by intros; simp)
          (by intros; simp) (by intros; simp)
      constructor
      · rw [hst i hi', hreg]
        simp only [hgd]
        rw [cc_refSpans_snoc_nc _ _ h.ok hstep hc1', cc_refEvents_snoc _ _ h.ok hstep, hU]
        simp only [cs_eiOf, cs_pc]
        cases he : filters[i].enabled (sites.getD k default) with
        | false =>
          simp only [Bool.false_eq_true, if_false, Option.toList_none, List.append_nil]
          rw [(h.lay i hi).st]
          exact cs_mk_congr _ _ _ _ (fun s _ => hagree s)
        | true =>
          simp only [if_true, Option.toList_some, pc, hgd]
          exact cs_mk_congr _ _ _ _ (fun s _ => hagree s)
      · intro y sy hy
        rw [hreg] at hy
        rw [hU, hcapE]
        exact (h.lay i hi).ext y sy hy

theorem cc_sim_event {N : Nat} {filters : List LFilter} {global : Option Nat} {sites : List CallSite}
    {calls : List (Nat × SubCall)} {H : Nat → Nat} {w : CapWorld}
    (h : cc_WInv N filters global sites calls (cc_hierFinal calls) H none w) (a k : Nat) (p : SParent)
    (fields : Fields) (hp : ∀ q, p = .explicit q → (w.reg.spans.get q).isSome) :
    cc_WInv N filters global sites (calls ++ [(a, .event k p fields)]) (cc_hierFinal (calls ++ [(a, .event k p fields)]))
      H none ((capSub a).event w k (sites.getD k default) p fields) := by
  have hstart := cc_start_eq h a p
  simp only [capSub]
  rw [if_neg (by rw [h.np]; simp)]
  cases p with
  | root => exact cc_sim_event_aux h a k .root fields hp _ hstart
  | ctx => exact cc_sim_event_aux h a k .ctx fields hp _ hstart
  | explicit id => exact cc_sim_event_aux h a k (.explicit id) fields hp _ hstart

end TT
