/-
  `new_span` of thread `a` of the layered model against the concurrent reference description.
  (Thread-aware version of `CapSpecSim3`.)
-/
import TT.Lemmas.CapConcSim2

namespace TT

theorem cc_newSpan_eq (a : Nat) (w : CapWorld) (k : Nat) (site : CallSite) (p : SParent) (fields : Fields)
    (parent : Option Nat)
    (hparent : (match p with
      | .root => none
      | .ctx => w.reg.current a
      | .explicit id => some id) = parent) :
    (capSub a).newSpan w k site p fields =
      match cs_cloneOpt w.reg parent with
      | none => (panic w, w.reg.next)
      | some reg1 => (cs_newSpanW w k site parent reg1 fields, reg1.next) := by
  subst hparent
  cases p <;> rfl

/-- The captured ids after a `new_span` call. -/
theorem cc_cap_new (flt : LFilter) (sites : List CallSite) {calls : List (Nat × SubCall)}
    (hok : cc_CallsOK calls) (k : Nat) (p : SParent) (fields : Fields) :
    (cs_cap flt sites (cc_untag calls ++ [.newSpan (cs_maxId (cc_untag calls) + 1) k p fields])).get
        (cs_maxId (cc_untag calls) + 1) =
      if flt.enabled (sites.getD k default) then some (cc_refSpans flt sites calls).length else none := by
  rw [cs_cap_snoc, cs_get_append, cs_cap_fresh (cc_callsOK_untag hok) flt sites _ (Nat.lt_succ_self _)]
  simp only [cs_newCapId, Option.none_or]
  by_cases he : flt.enabled (sites.getD k default) = true
  · rw [if_pos he, if_pos he]
    simp [AMap.get, cc_refSpans_length]
  · rw [if_neg he, if_neg he]
    simp [AMap.get]

/-! ### The simulation -/

theorem cc_sim_newSpan_aux {N : Nat} {filters : List LFilter} {global : Option Nat} {sites : List CallSite}
    {calls : List (Nat × SubCall)} {H H' : Nat → Nat} {w : CapWorld} {a : Nat} (ha : a < N)
    (h : cc_WInv N filters global sites calls (cc_hierFinal calls) H none w) (k : Nat) (p : SParent)
    (fields : Fields) (hp : ∀ q, p = .explicit q → (w.reg.spans.get q).isSome)
    (hH : ∀ y, H' y = H y + if y = w.reg.next then 1 else 0)
    (reg1 : Reg)
    (hreg1 : cs_cloneOpt w.reg (cs_resolve (cc_proj (cc_hierFinal calls) a) p) = some reg1) :
    reg1.next = cs_maxId (cc_untag calls) + 1 ∧
    cc_WInv N filters global sites (calls ++ [(a, .newSpan (cs_maxId (cc_untag calls) + 1) k p fields)])
      (cc_hierFinal (calls ++ [(a, .newSpan (cs_maxId (cc_untag calls) + 1) k p fields)])) H' none
      (cs_newSpanW w k (sites.getD k default) (cs_resolve (cc_proj (cc_hierFinal calls) a) p) reg1 fields) := by
  -- abbreviations
  have hsok := cc_start_ok h a p hp
  have hstep : cc_StepOK calls (a, .newSpan (cs_maxId (cc_untag calls) + 1) k p fields) := by
    refine ⟨rfl, ?_⟩
    intro q hq
    exact cc_start_bound h (hsok q hq)
  have hhier0 : cc_hierFinal (calls ++ [(a, .newSpan (cs_maxId (cc_untag calls) + 1) k p fields)]) =
      { cc_hierFinal calls with
        parent := (cc_hierFinal calls).parent.insert (cs_maxId (cc_untag calls) + 1)
          (cs_resolve (cc_proj (cc_hierFinal calls) a) p) } := by
    rw [cc_hierFinal_snoc]; simp only [cc_Hier.step, cc_resolve_proj]
  generalize hparent : cs_resolve (cc_proj (cc_hierFinal calls) a) p = parent at hreg1 hsok hhier0 ⊢
  have hn : w.reg.next = cs_maxId (cc_untag calls) + 1 := h.next
  have hok' := cc_CallsOK.snoc calls _ h.ok hstep
  have hokU := cc_callsOK_untag h.ok
  have hstepU : cs_StepOK (cc_untag calls) (.newSpan (cs_maxId (cc_untag calls) + 1) k p fields) :=
    cc_stepOK_untag hokU hstep
  have hU : cc_untag (calls ++ [(a, .newSpan (cs_maxId (cc_untag calls) + 1) k p fields)]) =
      cc_untag calls ++ [.newSpan (cs_maxId (cc_untag calls) + 1) k p fields] := cc_untag_snoc _ _
  have hhier := hhier0
  have hmax : cs_maxId (cc_untag calls ++ [.newSpan (cs_maxId (cc_untag calls) + 1) k p fields]) =
      cs_maxId (cc_untag calls) + 1 := by
    rw [cs_maxId_snoc]; simp only; omega
  have hhok := cc_hierOK h.ok
  -- the registry after cloning the parent
  have hr1 : reg1.next = w.reg.next ∧ reg1.stacks = w.reg.stacks ∧
      (match parent with
        | none => reg1.spans.get = w.reg.spans.get
        | some pp => ∃ sp, w.reg.spans.get pp = some sp ∧
            reg1.spans.get = cs_upd w.reg.spans.get pp (some { sp with refs := sp.refs + 1 })) := by
    cases parent with
    | none =>
      simp only [cs_cloneOpt, Option.some.injEq] at hreg1
      subst hreg1
      exact ⟨rfl, rfl, rfl⟩
    | some pp =>
      simp only [cs_cloneOpt, Reg.cloneSpan] at hreg1
      cases hsp : w.reg.spans.get pp with
      | none =>
        have : AMap.get w.reg.spans pp = none := hsp
        rw [this] at hreg1; cases hreg1
      | some sp =>
        have : AMap.get w.reg.spans pp = some sp := hsp
        rw [this] at hreg1
        simp only [Option.some.injEq] at hreg1
        subst hreg1
        exact ⟨rfl, rfl, sp, hsp, cs_get_insert_upd _ _ _⟩
  obtain ⟨hr1n, hr1s, hr1g⟩ := hr1
  refine ⟨by rw [hr1n, hn], ?_⟩
  generalize hg1 : reg1.spans.get = g1 at hr1g
  -- the new span's entry with a given extension map
  let snew : AMap Nat Nat → RegSpan := fun ext => { mt := k, parent := parent, refs := 1, ext := ext }
  have hriA := cc_RI_to h.ri ha
  have hH' : ∀ y, cc_Hx N (cc_hierFinal calls).stack a H' y =
      cc_Hx N (cc_hierFinal calls).stack a H y + if y = w.reg.next then 1 else 0 := by
    intro y
    unfold cc_Hx
    rw [hH y]
    omega
  have hRI : ∀ ext, cs_RI ((cc_hierFinal calls).stack a) (w.reg.next + 1)
      (cs_upd g1 w.reg.next (some (snew ext)))
      ((cc_hierFinal calls).parent.insert w.reg.next parent)
      (cc_Hx N (cc_hierFinal calls).stack a H') none := by
    intro ext
    refine cs_RI_new hriA (by omega) parent g1 ?_ (snew ext) rfl rfl hH'
    cases parent with
    | none => exact hr1g
    | some pp => exact hr1g
  -- relation between g1 and the old table
  have hg1_some : ∀ y s1, g1 y = some s1 → ∃ s, w.reg.spans.get y = some s ∧ s.ext = s1.ext ∧
      s.parent = s1.parent := by
    intro y s1 hy
    cases parent with
    | none => simp only at hr1g; rw [hr1g] at hy; exact ⟨s1, hy, rfl, rfl⟩
    | some pp =>
      obtain ⟨sp, hsp, he⟩ := hr1g
      rw [he] at hy
      by_cases hyp : y = pp
      · subst hyp; rw [cs_upd_same] at hy; cases hy; exact ⟨sp, hsp, rfl, rfl⟩
      · rw [cs_upd_ne _ _ _ hyp] at hy; exact ⟨s1, hy, rfl, rfl⟩
  have hg1_none : ∀ y, (g1 y).isNone = (w.reg.spans.get y).isNone := by
    intro y
    cases parent with
    | none => simp only at hr1g; rw [hr1g]
    | some pp =>
      obtain ⟨sp, hsp, he⟩ := hr1g
      rw [he]
      by_cases hyp : y = pp
      · subst hyp; simp [cs_upd, hsp]
      · rw [cs_upd_ne _ _ _ hyp]
  have hg1n : g1 w.reg.next = none := by
    have := hg1_none w.reg.next
    rw [cc_RI_lt h.ri (Nat.le_refl _)] at this
    cases hq : g1 w.reg.next with
    | none => rfl
    | some _ => rw [hq] at this; cases this
  -- `closed` as seen after the call, on old ids
  have hcl : ∀ ext y, y ≠ w.reg.next →
      (cs_upd g1 w.reg.next (some (snew ext)) y).isNone = cs_clOf w.reg y := by
    intro ext y hy
    rw [cs_upd_ne _ _ _ hy, hg1_none]; rfl
  -- per-layer targets
  let c : SubCall := .newSpan (cs_maxId (cc_untag calls) + 1) k p fields
  let tc : Nat × SubCall := (a, c)
  let pc : Nat → Option Nat := fun i =>
    cs_nearest (cc_hierFinal calls).parent (cs_cap (w.filters.getD i .all) sites (cc_untag calls))
      (cs_maxId (cc_untag calls) + 1) parent
  let tgt : Nat → Storage := fun i =>
    cs_mk (cc_refSpans (w.filters.getD i .all) sites (calls ++ [tc]))
      (cc_refEvents (w.filters.getD i .all) sites (calls ++ [tc]))
      (cs_fns (w.filters.getD i .all) sites (cc_untag calls ++ [c])
        (fun y => (cs_upd g1 w.reg.next (some (snew [])) y).isNone))
  -- old storage of layer `i`, rewritten with the new attribute family
  have hold : ∀ i (hi : i < filters.length), w.storages.getD i {} =
      cs_mk (cc_refSpans filters[i] sites calls) (cc_refEvents filters[i] sites calls)
        (cs_fns filters[i] sites (cc_untag calls ++ [c])
          (fun y => (cs_upd g1 w.reg.next (some (snew [])) y).isNone)) := by
    intro i hi
    rw [(h.lay i hi).st]
    apply cs_mk_congr
    intro s hs
    have hb := cc_refSpans_id_bound h.ok s hs
    exact cs_fns_new_old _ _ k p fields hokU hstepU _ _ s.id hb.2
      (hcl [] s.id (by omega)).symm
  have hrefE : ∀ flt, cc_refEvents flt sites (calls ++ [tc]) = cc_refEvents flt sites calls :=
    fun flt => cc_refEvents_snoc_nc flt sites h.ok hstep (by intros; simp [tc, c])
  have hrefS : ∀ flt, cc_refSpans flt sites (calls ++ [tc]) = cc_refSpans flt sites calls ++
      (if flt.enabled (sites.getD k default) then
        [⟨cs_maxId (cc_untag calls) + 1, k, cs_nearest (cc_hierFinal calls).parent
          (cs_cap flt sites (cc_untag calls)) (cs_maxId (cc_untag calls) + 1) parent⟩] else []) := by
    intro flt
    rw [cc_refSpans_snoc flt sites h.ok hstep]
    simp only [cs_siOf, cs_pc, hparent]
    by_cases he : flt.enabled (sites.getD k default) = true
    · rw [if_pos he, if_pos he]; rfl
    · rw [if_neg he, if_neg he]; rfl
  -- the loop
  unfold cs_newSpanW
  refine cs_forLayers_inv_k
    ({ w with reg := cs_regNew reg1 k parent } : CapWorld) _
    (fun j w' => w'.filters = w.filters ∧ w'.global = w.global ∧
      w'.storages.length = w.storages.length ∧ w'.reg.next = w.reg.next + 1 ∧
      w'.reg.stacks = w.reg.stacks ∧
      (∃ ext, w'.reg.spans.get = cs_upd g1 w.reg.next (some (snew ext)) ∧
        (∀ i, j ≤ i → ext.get i = none) ∧
        (∀ i, i < j → ext.get i = (cs_cap (w.filters.getD i .all) sites (cc_untag calls ++ [c])).get w.reg.next)) ∧
      (∀ i, i < j → w'.storages.getD i {} = tgt i) ∧
      (∀ i, j ≤ i → w'.storages.getD i {} = w.storages.getD i {}))
    _ h.np
    ⟨rfl, rfl, rfl, by show reg1.next + 1 = _; rw [hr1n], hr1s,
      ⟨[], by
          show (AMap.insert reg1.spans reg1.next _).get = _
          rw [cs_get_insert_upd, hg1, hr1n],
        fun _ _ => rfl, fun i hi => by omega⟩,
      fun i hi => by omega, fun _ _ => rfl⟩
    ?step ?fin
  case step =>
      intro j hj w' hnp' ⟨hfl, hgl, hlen, hnx, hstk, ⟨ext, hget, hext1, hext2⟩, hst1, hst2⟩
      have hj0 : j < w.filters.length := hj
      have hj' : j < filters.length := by rw [← h.fl]; exact hj0
      have hfj : w.filters[j] = filters[j] := by simp [h.fl]
      have hgd : w.filters.getD j .all = filters[j] := by rw [cs_getD_eq_getElem _ _ _ hj0, hfj]
      show (_ : CapWorld).panicked = false ∧ _
      have hfj2 : ({ w with reg := cs_regNew reg1 k parent } : CapWorld).filters[j] = filters[j] := hfj
      rw [hfj2, hr1n]
      have hcapn : (cs_cap filters[j] sites (cc_untag calls ++ [c])).get w.reg.next =
          if filters[j].enabled (sites.getD k default) then some (cc_refSpans filters[j] sites calls).length
          else none := by
        rw [hn]; exact cc_cap_new filters[j] sites h.ok k p fields
      cases he : filters[j].enabled (sites.getD k default) with
      | false =>
        simp only [Bool.not_false, if_true]
        rw [he] at hcapn
        simp only [Bool.false_eq_true, if_false] at hcapn
        refine ⟨hnp', hfl, hgl, hlen, hnx, hstk, ⟨ext, hget, fun i hi => hext1 i (by omega), ?_⟩, ?_, ?_⟩
        · intro i hi
          by_cases hij : i = j
          · subst hij
            rw [hext1 i (Nat.le_refl _), hgd]
            exact hcapn.symm
          · exact hext2 i (by omega)
        · intro i hi
          by_cases hij : i = j
          · subst hij
            rw [hst2 i (Nat.le_refl _), hold i hj']
            simp only [tgt, hgd]
            rw [hrefE, hrefS, he]
            simp
          · exact hst1 i (by omega)
        · intro i hi; exact hst2 i (by omega)
      | true =>
        simp only [Bool.not_true, Bool.false_eq_true, if_false]
        rw [he] at hcapn
        simp only [if_true] at hcapn
        -- the captured parent
        have hscope : scopeCaptured w'.reg j (w'.reg.next + 1) (some w.reg.next) =
            cs_nearest (cc_hierFinal calls).parent (cs_cap filters[j] sites (cc_untag calls))
              (cs_maxId (cc_untag calls) + 1) parent := by
          have hRIe := hRI ext
          have hhyp : ∀ id s, w'.reg.spans.get id = some s →
              s.parent = (((cc_hierFinal calls).parent.insert w.reg.next parent).get id).join ∧
              s.ext.get j = (cs_cap filters[j] sites (cc_untag calls)).get id ∧
              ∀ pp, s.parent = some pp → pp < id ∧ (w'.reg.spans.get pp).isSome := by
            intro id s hs
            rw [hget] at hs ⊢
            refine ⟨(hRIe.ex id s hs).2.2.1, ?_, fun pp hpp => hRIe.pr id s pp hs hpp⟩
            by_cases hid : id = w.reg.next
            · subst hid
              rw [cs_upd_same] at hs
              cases hs
              show ext.get j = _
              rw [hext1 j (Nat.le_refl _), cs_cap_fresh hokU _ _ _ (by omega)]
            · rw [cs_upd_ne _ _ _ hid] at hs
              obtain ⟨s0, hs0, he0, _⟩ := hg1_some id s hs
              rw [← he0]
              exact (h.lay j hj').ext id s0 hs0
          have hsn : w'.reg.spans.get w.reg.next = some (snew ext) := by rw [hget, cs_upd_same]
          rw [hnx]
          rw [cs_scope_eq w'.reg j _ _ hhyp (w.reg.next + 1 + 1) w.reg.next (by omega) (by rw [hsn]; rfl)]
          -- one step of the reference walk: the new span itself is not captured yet
          have hstep1 : cs_nearest ((cc_hierFinal calls).parent.insert w.reg.next parent)
              (cs_cap filters[j] sites (cc_untag calls)) (w.reg.next + 1 + 1) (some w.reg.next) =
              cs_nearest ((cc_hierFinal calls).parent.insert w.reg.next parent)
              (cs_cap filters[j] sites (cc_untag calls)) (w.reg.next + 1) parent := by
            simp only [cs_nearest]
            rw [cs_cap_fresh hokU _ _ _ (by omega)]
            simp [sd_get_insert]
          rw [hstep1]
          symm
          apply cs_nearest_congr_opt _ _ _ _ (cs_maxId (cc_untag calls))
          · intro x hx
            rw [sd_get_insert, if_neg (by omega)]
          · intro _ _; rfl
          · intro x q hx; exact (hhok.dec x q hx).2
          · intro q hq; exact (cc_start_bound h (hsok q hq)).2
          · omega
          · omega
        rw [hscope]
        -- push the span
        have hpush := cs_mk_pushSpan (cc_refSpans filters[j] sites calls) (cc_refEvents filters[j] sites calls)
          (cs_fns filters[j] sites (cc_untag calls ++ [c])
            (fun y => (cs_upd g1 w.reg.next (some (snew [])) y).isNone))
          ⟨cs_maxId (cc_untag calls) + 1, k, cs_nearest (cc_hierFinal calls).parent
            (cs_cap filters[j] sites (cc_untag calls)) (cs_maxId (cc_untag calls) + 1) parent⟩
          (by
            intro q hq
            obtain ⟨id, hid⟩ := cs_nearest_some hq
            exact cc_cap_get_lt hid)
          (cc_refSpans_parentC _ _ _) (cc_refEvents_parentC _ _ _)
          (cs_fns_new_at _ _ k p fields hokU _).2.1 (cs_fns_new_at _ _ k p fields hokU _).2.2.1
          (by show (cs_upd g1 w.reg.next _ (cs_maxId (cc_untag calls) + 1)).isNone = false
              rw [← hn, cs_upd_same]; rfl)
          (cs_fns_new_at _ _ k p fields hokU _).2.2.2
        rw [(cs_fns_new_at _ _ k p fields hokU _).1] at hpush
        simp only at hpush
        rw [hst2 j (Nat.le_refl _), hold j hj', hpush]
        simp only
        have hsn : (setStorage w' j (cs_mk (cc_refSpans filters[j] sites calls ++
            [⟨cs_maxId (cc_untag calls) + 1, k, cs_nearest (cc_hierFinal calls).parent
              (cs_cap filters[j] sites (cc_untag calls)) (cs_maxId (cc_untag calls) + 1) parent⟩])
            (cc_refEvents filters[j] sites calls)
            (cs_fns filters[j] sites (cc_untag calls ++ [c])
              (fun y => (cs_upd g1 w.reg.next (some (snew [])) y).isNone)))).reg.spans.get w.reg.next
            = some (snew ext) := by
          show w'.reg.spans.get w.reg.next = _
          rw [hget, cs_upd_same]
        rw [hsn]
        simp only
        refine ⟨hnp', hfl, hgl, by simp [setStorage, hlen], hnx, hstk,
          ⟨ext.insert j (cc_refSpans filters[j] sites calls).length, ?_, ?_, ?_⟩, ?_, ?_⟩
        · show (AMap.insert w'.reg.spans w.reg.next _).get = _
          rw [cs_get_insert_upd, hget, cs_upd_upd]
        · intro i hi
          rw [sd_get_insert, if_neg (by omega)]
          exact hext1 i (by omega)
        · intro i hi
          rw [sd_get_insert]
          by_cases hij : i = j
          · subst hij
            rw [if_pos rfl, hgd]
            exact hcapn.symm
          · rw [if_neg hij]
            exact hext2 i (by omega)
        · intro i hi
          simp only [setStorage, cs_getD_set]
          by_cases hij : j = i
          · subst hij
            rw [if_pos ⟨rfl, by rw [hlen, h.len]; exact hj'⟩]
            simp only [tgt, hgd]
            rw [hrefE, hrefS, he]
            simp
          · rw [if_neg (fun h' => hij h'.1)]
            exact hst1 i (by omega)
        · intro i hi
          simp only [setStorage, cs_getD_set]
          have hij : ¬ j = i := by omega
          rw [if_neg (fun h' => hij h'.1)]
          exact hst2 i (by omega)
  intro wF hnpF ⟨hflF, hglF, hlenF, hnxF, hstkF, ⟨ext, hgetF, _, hextF⟩, hstF, _⟩
  refine ⟨hnpF, by rw [hflF]; exact h.fl, by rw [hglF]; exact h.gl, by rw [hlenF]; exact h.len, hok', ?_, ?_, ?_, ?_⟩
  · rw [hnxF, hU, hmax, hn]
  · rw [hstkF, hhier]
    exact h.stk
  · rw [hnxF, hgetF, hhier, ← hn]
    exact cc_RI_lift_same h.ri ha (hRI ext)
  · intro i hi
    have hi0 : i < w.filters.length := by rw [h.fl]; exact hi
    have hfi : w.filters[i] = filters[i] := by simp [h.fl]
    have hgd : w.filters.getD i .all = filters[i] := by rw [cs_getD_eq_getElem _ _ _ hi0, hfi]
    constructor
    · rw [hstF i hi0]
      simp only [tgt, hgd]
      rw [hU]
      congr 2
      funext y
      unfold cs_clOf
      rw [hgetF]
      by_cases hy : y = w.reg.next
      · subst hy; simp [cs_upd]
      · simp [cs_upd, hy]
    · intro y sy hy
      rw [hgetF] at hy
      rw [hU]
      by_cases hyn : y = w.reg.next
      · subst hyn
        rw [cs_upd_same] at hy
        cases hy
        show ext.get i = _
        rw [hextF i hi0, hgd]
      · rw [cs_upd_ne _ _ _ hyn] at hy
        obtain ⟨s0, hs0, he0, _⟩ := hg1_some y sy hy
        rw [← he0, (h.lay i hi).ext y s0 hs0]
        have hyb := (h.ri.ex y s0 hs0).2.1
        exact (cs_cap_agree_snoc filters[i] sites (cc_untag calls) c hstepU y (by omega)).symm

theorem cc_sim_newSpan {N : Nat} {filters : List LFilter} {global : Option Nat} {sites : List CallSite}
    {calls : List (Nat × SubCall)} {H H' : Nat → Nat} {w : CapWorld} {a : Nat} (ha : a < N)
    (h : cc_WInv N filters global sites calls (cc_hierFinal calls) H none w) (k : Nat) (p : SParent)
    (fields : Fields) (hp : ∀ q, p = .explicit q → (w.reg.spans.get q).isSome)
    (hH : ∀ y, H' y = H y + if y = w.reg.next then 1 else 0) :
    ((capSub a).newSpan w k (sites.getD k default) p fields).2 = cs_maxId (cc_untag calls) + 1 ∧
    cc_WInv N filters global sites (calls ++ [(a, .newSpan (cs_maxId (cc_untag calls) + 1) k p fields)])
      (cc_hierFinal (calls ++ [(a, .newSpan (cs_maxId (cc_untag calls) + 1) k p fields)])) H' none
      ((capSub a).newSpan w k (sites.getD k default) p fields).1 := by
  rw [cc_newSpan_eq a w k _ p fields _ (cc_start_eq h a p)]
  have hsok := cc_start_ok h a p hp
  have hex : ∃ reg1, cs_cloneOpt w.reg (cs_resolve (cc_proj (cc_hierFinal calls) a) p) = some reg1 := by
    cases hr : cs_resolve (cc_proj (cc_hierFinal calls) a) p with
    | none => exact ⟨w.reg, rfl⟩
    | some q =>
      have := hsok q hr
      cases hs : w.reg.spans.get q with
      | none => rw [hs] at this; cases this
      | some s =>
        have hs' : AMap.get w.reg.spans q = some s := hs
        simp only [cs_cloneOpt, Reg.cloneSpan, hs']
        exact ⟨_, rfl⟩
  obtain ⟨reg1, hreg1⟩ := hex
  rw [hreg1]
  exact cc_sim_newSpan_aux ha h k p fields hp hH reg1 hreg1

end TT
