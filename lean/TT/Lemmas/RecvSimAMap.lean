/-
  TT.Lemmas.RecvSimAMap — lookup lemmas for the association maps of the receiver model.
-/
import TT.Model.History

namespace TT
namespace AMap
variable {κ α β : Type} [DecidableEq κ]
set_option linter.unusedSectionVars false

theorem get_nil (k : κ) : AMap.get ([] : AMap κ α) k = none := rfl

theorem get_cons (a : κ) (b : α) (rest : AMap κ α) (k : κ) :
    AMap.get ((a, b) :: rest) k = if a = k then some b else AMap.get rest k := rfl

theorem insert_nil (k : κ) (v : α) : AMap.insert ([] : AMap κ α) k v = [(k, v)] := rfl

theorem insert_cons (a : κ) (b : α) (rest : AMap κ α) (k : κ) (v : α) :
    AMap.insert ((a, b) :: rest) k v
      = if a = k then (a, v) :: rest else (a, b) :: AMap.insert rest k v := rfl

theorem erase_nil (k : κ) : AMap.erase ([] : AMap κ α) k = [] := rfl

theorem erase_cons (a : κ) (b : α) (rest : AMap κ α) (k : κ) :
    AMap.erase ((a, b) :: rest) k
      = if a = k then AMap.erase rest k else (a, b) :: AMap.erase rest k := rfl

theorem get_insert (m : AMap κ α) (k k' : κ) (v : α) :
    AMap.get (AMap.insert m k v) k' = if k' = k then some v else AMap.get m k' := by
  induction m with
  | nil =>
    rw [insert_nil, get_cons, get_nil]
    by_cases h : k = k'
    · subst h; simp
    · have h' : ¬ k' = k := fun e => h e.symm
      simp [h, h']
  | cons p rest ih =>
    obtain ⟨a, b⟩ := p
    rw [insert_cons]
    by_cases h : a = k
    · subst h
      rw [if_pos rfl, get_cons, get_cons]
      by_cases h2 : a = k'
      · subst h2; simp
      · have h' : ¬ k' = a := fun e => h2 e.symm
        simp [h2, h']
    · rw [if_neg h, get_cons, get_cons, ih]
      by_cases h2 : a = k'
      · subst h2; simp [h]
      · simp [h2]

theorem get_erase (m : AMap κ α) (k k' : κ) :
    AMap.get (AMap.erase m k) k' = if k' = k then none else AMap.get m k' := by
  induction m with
  | nil => rw [erase_nil, get_nil]; simp
  | cons p rest ih =>
    obtain ⟨a, b⟩ := p
    rw [erase_cons]
    by_cases h : a = k
    · subst h
      rw [if_pos rfl, ih, get_cons]
      by_cases h2 : k' = a
      · subst h2; simp
      · have h' : ¬ a = k' := fun e => h2 e.symm
        simp [h2, h']
    · rw [if_neg h, get_cons, get_cons, ih]
      by_cases h2 : a = k'
      · subst h2; simp [h]
      · simp [h2]

theorem erase_of_get_none (m : AMap κ α) (k : κ) (h : AMap.get m k = none) :
    AMap.erase m k = m := by
  induction m with
  | nil => rfl
  | cons p rest ih =>
    obtain ⟨a, b⟩ := p
    rw [get_cons] at h
    by_cases h2 : a = k
    · simp [h2] at h
    · rw [if_neg h2] at h
      rw [erase_cons, if_neg h2, ih h]

theorem keys_nil : AMap.keys ([] : AMap κ α) = [] := rfl

theorem keys_cons (p : κ × α) (rest : AMap κ α) :
    AMap.keys (p :: rest) = p.1 :: AMap.keys rest := rfl

theorem mem_keys_insert (m : AMap κ α) (k x : κ) (v : α) :
    x ∈ AMap.keys (AMap.insert m k v) ↔ x = k ∨ x ∈ AMap.keys m := by
  induction m with
  | nil => simp [insert_nil, keys_cons, keys_nil]
  | cons p rest ih =>
    obtain ⟨a, b⟩ := p
    rw [insert_cons]
    by_cases h : a = k
    · subst h
      rw [if_pos rfl]
      simp [keys_cons]
    · rw [if_neg h]
      simp only [keys_cons, List.mem_cons, ih]
      constructor
      · rintro (h1 | h1 | h1)
        · exact Or.inr (Or.inl h1)
        · exact Or.inl h1
        · exact Or.inr (Or.inr h1)
      · rintro (h1 | h1 | h1)
        · exact Or.inr (Or.inl h1)
        · exact Or.inl h1
        · exact Or.inr (Or.inr h1)

theorem nodup_keys_insert (m : AMap κ α) (k : κ) (v : α) (h : (AMap.keys m).Nodup) :
    (AMap.keys (AMap.insert m k v)).Nodup := by
  induction m with
  | nil => simp [insert_nil, keys_cons, keys_nil]
  | cons p rest ih =>
    obtain ⟨a, b⟩ := p
    rw [keys_cons, List.nodup_cons] at h
    rw [insert_cons]
    by_cases h2 : a = k
    · rw [if_pos h2, keys_cons, List.nodup_cons]
      exact h
    · rw [if_neg h2, keys_cons, List.nodup_cons]
      refine ⟨?_, ih h.2⟩
      intro hm
      rw [mem_keys_insert] at hm
      rcases hm with hm | hm
      · exact h2 hm
      · exact h.1 hm

theorem mem_keys_erase (m : AMap κ α) (k x : κ) (h : x ∈ AMap.keys (AMap.erase m k)) :
    x ∈ AMap.keys m := by
  induction m with
  | nil => exact h
  | cons p rest ih =>
    obtain ⟨a, b⟩ := p
    rw [erase_cons] at h
    by_cases h2 : a = k
    · rw [if_pos h2] at h
      rw [keys_cons]
      exact List.mem_cons_of_mem _ (ih h)
    · rw [if_neg h2, keys_cons, List.mem_cons] at h
      rw [keys_cons, List.mem_cons]
      rcases h with h | h
      · exact Or.inl h
      · exact Or.inr (ih h)

theorem nodup_keys_erase (m : AMap κ α) (k : κ) (h : (AMap.keys m).Nodup) :
    (AMap.keys (AMap.erase m k)).Nodup := by
  induction m with
  | nil => exact h
  | cons p rest ih =>
    obtain ⟨a, b⟩ := p
    rw [keys_cons, List.nodup_cons] at h
    rw [erase_cons]
    by_cases h2 : a = k
    · rw [if_pos h2]
      exact ih h.2
    · rw [if_neg h2, keys_cons, List.nodup_cons]
      exact ⟨fun hm => h.1 (mem_keys_erase _ _ _ hm), ih h.2⟩

theorem get_none_of_not_mem_keys (m : AMap κ α) (k : κ) (h : k ∉ AMap.keys m) :
    AMap.get m k = none := by
  induction m with
  | nil => rfl
  | cons p rest ih =>
    obtain ⟨a, b⟩ := p
    rw [keys_cons, List.mem_cons, not_or] at h
    have h' : ¬ a = k := fun e => h.1 e.symm
    rw [get_cons, if_neg h']
    exact ih h.2

theorem contains_eq (m : AMap κ α) (k : κ) : AMap.contains m k = (AMap.get m k).isSome := rfl

theorem contains_insert (m : AMap κ α) (k k' : κ) (v : α) :
    AMap.contains (AMap.insert m k v) k' = (decide (k' = k) || AMap.contains m k') := by
  rw [contains_eq, contains_eq, get_insert]
  by_cases h : k' = k <;> simp [h]

theorem contains_erase (m : AMap κ α) (k k' : κ) :
    AMap.contains (AMap.erase m k) k' = (!decide (k' = k) && AMap.contains m k') := by
  rw [contains_eq, contains_eq, get_erase]
  by_cases h : k' = k <;> simp [h]

/-- Lookup in a map whose values were transformed (`persistMeta`). -/
theorem get_mapVal (m : AMap κ α) (g : α → β) (k : κ) :
    AMap.get (List.map (fun kv => (kv.1, g kv.2)) m : AMap κ β) k = (AMap.get m k).map g := by
  induction m with
  | nil => rfl
  | cons p rest ih =>
    obtain ⟨a, b⟩ := p
    rw [List.map_cons, get_cons, get_cons, ih]
    by_cases h : a = k <;> simp [h]

theorem keys_mapVal (m : AMap κ α) (g : α → β) :
    AMap.keys (List.map (fun kv => (kv.1, g kv.2)) m : AMap κ β) = AMap.keys m := by
  induction m with
  | nil => rfl
  | cons p rest ih =>
    rw [List.map_cons, keys_cons, keys_cons, ih]

end AMap
end TT
