/-
  TT.Lemmas.RecvQuiesce — how one accepted event changes the receiver's `entered` map
  (support for TT.Props.C02Quiescence).
-/
import TT.Lemmas.RecvDefs
import TT.Lemmas.RecvSimAMap

namespace TT

/-- The `entered` map after an accepted event, as a function of the state before. -/
def rq_enteredAfter (σ : Sigma) : Event → AMap Nat Nat
  | .entered id => bumpEntered σ.r.entered id
  | .exited id => dropEntered σ.r.entered id
  | .dropped id =>
    match σ.r.spans.get id with
    | some d => if d.refCount = 1 then σ.r.entered.erase id else σ.r.entered
    | none => σ.r.entered
  | _ => σ.r.entered

theorem rq_entered_of_ok (σ σ' : Sigma) (e : Event) (h : tryReceive σ e = .ok σ') :
    σ'.r.entered = rq_enteredAfter σ e := by
  cases e
  case valuesRecorded id values =>
    simp only [tryReceive] at h
    split at h
    · cases h
    · split at h
      · cases h
      · split at h
        · rename_i σ'' hrec
          have hent : σ''.r.entered = σ.r.entered := by
            repeat' split at hrec
            all_goals (cases hrec <;> rfl)
          split at h
          · cases h
          · cases h; simpa [rq_enteredAfter] using hent
        · rename_i hno
          exact absurd h (hno σ')
  all_goals simp only [tryReceive, onNewCallSite] at h
  all_goals repeat' split at h
  all_goals (try cases h)
  all_goals (first | rfl | simp [rq_enteredAfter, *])
  all_goals (intro; omega)

def rq_dE (e : Event) (g : Nat) : Nat :=
  match e with
  | .entered id => if id = g then 1 else 0
  | _ => 0

def rq_dX (e : Event) (g : Nat) : Nat :=
  match e with
  | .exited id => if id = g then 1 else 0
  | _ => 0

/-- The side condition of `noDropWhileEntered` for one event. -/
def rq_dropOk (σ : Sigma) (e : Event) : Prop :=
  match e with
  | .dropped id =>
    (match σ.r.spans.get id with
      | some d => d.refCount = 1 → σ.r.entered.get id = none
      | none => True)
  | _ => True

theorem rq_bump_count (m : AMap Nat Nat) (id g : Nat) (hnz : m.get g ≠ some 0) :
    ((bumpEntered m id).get g).getD 0 = (m.get g).getD 0 + (if id = g then 1 else 0) ∧
    (bumpEntered m id).get g ≠ some 0 := by
  unfold bumpEntered
  rw [AMap.get_insert]
  by_cases hg : g = id
  · subst hg; simp
  · have hg' : ¬ id = g := fun e => hg e.symm
    simp [hg, hg', hnz]

theorem rq_drop_count (m : AMap Nat Nat) (id g : Nat) (hnz : ∀ g, m.get g ≠ some 0) :
    ((dropEntered m id).get g).getD 0 = (m.get g).getD 0 - (if id = g then 1 else 0) ∧
    (dropEntered m id).get g ≠ some 0 := by
  unfold dropEntered
  cases hid : m.get id with
  | none =>
    simp only []
    refine ⟨?_, hnz g⟩
    by_cases hg : id = g
    · subst hg; simp [hid]
    · simp [hg]
  | some c =>
    simp only []
    have hc : c ≠ 0 := fun h0 => hnz id (by rw [hid, h0])
    by_cases hc1 : c - 1 = 0
    · rw [if_pos hc1, AMap.get_erase]
      by_cases hg : g = id
      · subst hg; simp [hid]; omega
      · have hg' : ¬ id = g := fun e => hg e.symm
        simp [hg, hg', hnz]
    · rw [if_neg hc1, AMap.get_insert]
      by_cases hg : g = id
      · subst hg; simp [hid]; omega
      · have hg' : ¬ id = g := fun e => hg e.symm
        simp [hg, hg', hnz]

theorem rq_step_count (σ σ' : Sigma) (e : Event) (h : tryReceive σ e = .ok σ')
    (hnz : ∀ g, σ.r.entered.get g ≠ some 0) (hd : rq_dropOk σ e) (g : Nat) :
    (σ'.r.entered.get g).getD 0 = (σ.r.entered.get g).getD 0 + rq_dE e g - rq_dX e g ∧
    σ'.r.entered.get g ≠ some 0 := by
  rw [rq_entered_of_ok σ σ' e h]
  cases e
  case entered id =>
    have := rq_bump_count σ.r.entered id g (hnz g)
    simpa [rq_enteredAfter, rq_dE, rq_dX] using this
  case exited id =>
    have := rq_drop_count σ.r.entered id g hnz
    simpa [rq_enteredAfter, rq_dE, rq_dX] using this
  case dropped id =>
    simp only [rq_enteredAfter, rq_dE, rq_dX, rq_dropOk] at hd ⊢
    split
    · rename_i d hd'
      rw [hd'] at hd
      by_cases h1 : d.refCount = 1
      · rw [if_pos h1, AMap.erase_of_get_none _ _ (hd h1)]
        exact ⟨by simp, hnz g⟩
      · rw [if_neg h1]
        exact ⟨by simp, hnz g⟩
    · exact ⟨by simp, hnz g⟩
  all_goals exact ⟨by simp [rq_enteredAfter, rq_dE, rq_dX], hnz g⟩

theorem rq_eq_nil_iff (m : AMap Nat Nat) : m = [] ↔ ∀ k, m.get k = none := by
  constructor
  · intro h k; subst h; rfl
  · intro h
    cases m with
    | nil => rfl
    | cons p rest =>
      obtain ⟨a, b⟩ := p
      have := h a
      simp [AMap.get_cons] at this

end TT
