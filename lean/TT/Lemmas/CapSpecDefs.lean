/-
  Helper definitions for C05 (`C05_storage_is_spec`).

  The reference of C05 (`expectedStorage` and its ingredients) is defined in TT/Props/C05.lean,
  which imports the helper files; the helper files therefore work with literal copies of those
  definitions (prefix `cs_`, `HierSt` ↦ `cs_Hier`, `RefSpanInfo` ↦ `cs_SI`, `RefEventInfo` ↦
  `cs_EI`). C05.lean shows that the originals coincide with the copies.
-/
import TT.Model.Capture
import TT.Props.C12

namespace TT

def cs_logSubF (global : Option Nat) : Subscriber LogState :=
  { logSub with enabled := fun _ site => levelEnabled global site }

def cs_callLogF (global : Option Nat) (sites : List CallSite) (ops : List POp) : List SubCall :=
  (runProg (cs_logSubF global) sites { sub := ({} : LogState) } ops).sub.calls.reverse

structure cs_Hier where
  stack : List (Nat × Bool) := []
  parent : AMap Nat (Option Nat) := []

def cs_resolve (h : cs_Hier) : SParent → Option Nat
  | .root => none
  | .ctx => stackCurrent h.stack
  | .explicit id => some id

def cs_Hier.step (h : cs_Hier) : SubCall → cs_Hier
  | .newSpan id _ p _ => { h with parent := h.parent.insert id (cs_resolve h p) }
  | .enter id => { h with stack := stackPush h.stack id }
  | .exit id => { h with stack := stackPop h.stack id }
  | _ => h

def cs_hierBefore : cs_Hier → List SubCall → List (cs_Hier × SubCall)
  | _, [] => []
  | h, c :: cs => (h, c) :: cs_hierBefore (h.step c) cs

def cs_hierFinal (calls : List SubCall) : cs_Hier := calls.foldl cs_Hier.step {}

def cs_nearest (parent : AMap Nat (Option Nat)) (cap : AMap Nat Nat) : Nat → Option Nat → Option Nat
  | 0, _ => none
  | _ + 1, none => none
  | fuel + 1, some id =>
    match cap.get id with
    | some c => some c
    | none => cs_nearest parent cap fuel ((parent.get id).join)

/-- Ids of the captured spans, in creation order. -/
def cs_capIds (flt : LFilter) (sites : List CallSite) (calls : List SubCall) : List Nat :=
  calls.filterMap fun c => match c with
    | .newSpan id k _ _ => if flt.enabled (sites.getD k default) then some id else none
    | _ => none

def cs_cap (flt : LFilter) (sites : List CallSite) (calls : List SubCall) : AMap Nat Nat :=
  (cs_capIds flt sites calls).zipIdx

def cs_count (calls : List SubCall) (p : SubCall → Bool) : Nat := (calls.filter p).length

def cs_isEnter (id : Nat) : SubCall → Bool
  | .enter id' => id' == id
  | _ => false

def cs_isExit (id : Nat) : SubCall → Bool
  | .exit id' => id' == id
  | _ => false

def cs_values (calls : List SubCall) (id : Nat) : TVals :=
  calls.foldl (fun acc c => match c with
    | .newSpan id' _ _ fields => if id' = id then capture fields else acc
    | .record id' fields => if id' = id then acc.extend (capture fields) else acc
    | _ => acc) []

def cs_handles (calls : List SubCall) (id : Nat) : Int :=
  calls.foldl (fun acc c => match c with
    | .newSpan id' _ _ _ => if id' = id then acc + 1 else acc
    | .clone id' => if id' = id then acc + 1 else acc
    | .tryClose id' => if id' = id then acc - 1 else acc
    | _ => acc) 0

def cs_closedAtEnd (calls : List SubCall) (hier : cs_Hier) (maxId : Nat) : Nat → Nat → Bool
  | 0, _ => true
  | fuel + 1, id =>
    decide (cs_handles calls id ≤ 0) && !(hier.stack.any (·.1 == id)) &&
      ((List.range (maxId + 1)).all fun c =>
        if (hier.parent.get c).join = some id then cs_closedAtEnd calls hier maxId fuel c else true)

def cs_maxId (calls : List SubCall) : Nat :=
  calls.foldl (fun m c => match c with | .newSpan id _ _ _ => max m id | _ => m) 0

structure cs_SI where
  id : Nat
  k : Nat
  parentC : Option Nat

structure cs_EI where
  k : Nat
  values : TVals
  parentC : Option Nat

/-- Parent of the span or event created by a call, given the final `cap` and the fuel. -/
def cs_pc (cap : AMap Nat Nat) (fuel : Nat) (h : cs_Hier) : SubCall → Option Nat
  | .newSpan _ _ p _ => cs_nearest h.parent cap fuel (cs_resolve h p)
  | .event _ p _ => cs_nearest h.parent cap fuel (cs_resolve h p)
  | _ => none

def cs_siOf (flt : LFilter) (sites : List CallSite) (cap : AMap Nat Nat) (fuel : Nat)
    (x : cs_Hier × SubCall) : Option cs_SI :=
  match x.2 with
  | .newSpan id k _ _ =>
    if flt.enabled (sites.getD k default) then some { id, k, parentC := cs_pc cap fuel x.1 x.2 }
    else none
  | _ => none

def cs_eiOf (flt : LFilter) (sites : List CallSite) (cap : AMap Nat Nat) (fuel : Nat)
    (x : cs_Hier × SubCall) : Option cs_EI :=
  match x.2 with
  | .event k _ fields =>
    if flt.enabled (sites.getD k default) then
      some { k, values := capture fields, parentC := cs_pc cap fuel x.1 x.2 }
    else none
  | _ => none

def cs_refSpansG (flt : LFilter) (sites : List CallSite) (cap : AMap Nat Nat) (fuel : Nat)
    (calls : List SubCall) : List cs_SI :=
  (cs_hierBefore {} calls).filterMap (cs_siOf flt sites cap fuel)

def cs_refEventsG (flt : LFilter) (sites : List CallSite) (cap : AMap Nat Nat) (fuel : Nat)
    (calls : List SubCall) : List cs_EI :=
  (cs_hierBefore {} calls).filterMap (cs_eiOf flt sites cap fuel)

def cs_refSpans (flt : LFilter) (sites : List CallSite) (calls : List SubCall) : List cs_SI :=
  cs_refSpansG flt sites (cs_cap flt sites calls) (cs_maxId calls + 1) calls

def cs_refEvents (flt : LFilter) (sites : List CallSite) (calls : List SubCall) : List cs_EI :=
  cs_refEventsG flt sites (cs_cap flt sites calls) (cs_maxId calls + 1) calls

def cs_follows (cap : AMap Nat Nat) (calls : List SubCall) (id : Nat) : List Nat :=
  calls.filterMap fun c => match c with
    | .follows a b => if a = id then cap.get b else none
    | _ => none

/-- Per-span attributes as functions of the span id. -/
structure cs_Fns where
  V : Nat → TVals
  en : Nat → Nat
  ex : Nat → Nat
  cl : Nat → Bool
  fo : Nat → List Nat

/-- Positions of the elements satisfying `p`. -/
def cs_idxWhere {α : Type} (l : List α) (p : α → Bool) : List Nat :=
  (l.zipIdx.filter fun x => p x.1).map (·.2)

section Mk
variable {ι ε : Type}

def cs_mkSpan (sid sk : ι → Nat) (spc : ι → Option Nat) (epc : ε → Option Nat)
    (S : List ι) (E : List ε) (F : cs_Fns) (s : ι) (i : Nat) : CapSpan :=
  { mt := sk s
    values := F.V (sid s)
    entered := F.en (sid s)
    exited := F.ex (sid s)
    closed := F.cl (sid s)
    parent := spc s
    children := cs_idxWhere S fun s' => decide (spc s' = some i)
    events := cs_idxWhere E fun e => decide (epc e = some i)
    follows := F.fo (sid s) }

/-- The shape of `expectedStorage`, generic in the span/event descriptions. -/
def cs_mkStorage (sid sk : ι → Nat) (spc : ι → Option Nat) (ek : ε → Nat) (ev : ε → TVals)
    (epc : ε → Option Nat) (S : List ι) (E : List ε) (F : cs_Fns) : Storage :=
  { spans := S.zipIdx.map fun x => cs_mkSpan sid sk spc epc S E F x.1 x.2
    events := E.map fun e => { mt := ek e, values := ev e, parent := epc e }
    rootSpans := cs_idxWhere S fun s => (spc s).isNone
    rootEvents := cs_idxWhere E fun e => (epc e).isNone }

end Mk

/-- `cs_mkStorage` on the helper descriptions. -/
def cs_mk (S : List cs_SI) (E : List cs_EI) (F : cs_Fns) : Storage :=
  cs_mkStorage cs_SI.id cs_SI.k cs_SI.parentC cs_EI.k cs_EI.values cs_EI.parentC S E F

def cs_fns (flt : LFilter) (sites : List CallSite) (calls : List SubCall) (cl : Nat → Bool) : cs_Fns :=
  { V := cs_values calls
    en := fun id => cs_count calls (cs_isEnter id)
    ex := fun id => cs_count calls (cs_isExit id)
    cl := cl
    fo := cs_follows (cs_cap flt sites calls) calls }

/-- Copy of `expectedStorage`. -/
def cs_expected (flt : LFilter) (sites : List CallSite) (calls : List SubCall) : Storage :=
  cs_mk (cs_refSpans flt sites calls) (cs_refEvents flt sites calls)
    (cs_fns flt sites calls
      (cs_closedAtEnd calls (cs_hierFinal calls) (cs_maxId calls) (cs_maxId calls + 1)))

end TT
