/-
  C05 for the helper copies of the reference: the model's storages are `cs_expected`.
-/
import TT.Lemmas.CapSpecRun

namespace TT

/-! ### The closed flag at the end -/

theorem cs_closed_eq {calls : List SubCall} {hier : cs_Hier} {next : Nat} {g : Nat → Option RegSpan}
    {H : Nat → Nat} {M : Nat} (ri : cs_RI hier.stack next g hier.parent H none) (hh : cs_HierOK hier M)
    (hnext : next = M + 1) (hH : ∀ id, cs_handles calls id = (H id : Int)) :
    ∀ fuel id, 1 ≤ id → id ≤ M → M < id + fuel →
      cs_closedAtEnd calls hier M fuel id = (g id).isNone := by
  intro fuel
  induction fuel with
  | zero => intro id _ h1 h2; omega
  | succ n ih =>
    intro id hid1 hid2 hfuel
    simp only [cs_closedAtEnd]
    have hstack : (hier.stack.any fun x => x.1 == id) = cs_onStack hier.stack id := rfl
    rw [hstack, hH id]
    cases hg : g id with
    | none =>
      obtain ⟨h0, hs⟩ := ri.nex id hg
      rw [h0, hs]
      simp only [Option.isNone_none, Int.natCast_zero, Int.le_refl, decide_true, Bool.not_false,
        Bool.and_self, Bool.true_and, List.all_eq_true, List.mem_range]
      intro c hc
      split
      · rename_i hp
        have hpc : hier.parent.get c = some (some id) := by
          cases hq : hier.parent.get c with
          | none => simp [hq] at hp
          | some v => simp [hq] at hp; rw [hp]
        have hdec := hh.dec c id hpc
        have hkey := hh.key c (by rw [hpc]; simp)
        rw [ih c hkey.1 hkey.2 (by omega)]
        cases hgc : g c with
        | none => rfl
        | some sc =>
          have hpar := (ri.ex c sc hgc).2.2.1
          rw [hp] at hpar
          have := (ri.pr c sc id hgc hpar).2
          rw [hg] at this
          cases this
      · rfl
    | some s =>
      simp only [Option.isNone_some]
      obtain ⟨_, _, _, hr1, hr2⟩ := ri.ex id s hg
      simp only [reduceCtorEq, if_false, Nat.add_zero] at hr2
      by_cases hH0 : H id = 0
      · cases hs : cs_onStack hier.stack id with
        | true => simp
        | false =>
          rw [hH0, hs] at hr2
          simp only [Bool.false_eq_true, if_false, Nat.zero_add] at hr2
          obtain ⟨c, sc, hc1, hc2, hc3⟩ := cs_childCnt_pos (by omega : 0 < cs_childCnt next g id)
          have hlt := (ri.pr c sc id hc2 hc3).1
          have hex := ri.ex c sc hc2
          have hcl : cs_closedAtEnd calls hier M n c = false := by
            rw [ih c hex.1 (by omega) (by omega), hc2]; rfl
          have hpc : (hier.parent.get c).join = some id := by rw [← hex.2.2.1]; exact hc3
          have : ((List.range (M + 1)).all fun c =>
              if (hier.parent.get c).join = some id then cs_closedAtEnd calls hier M n c else true) = false := by
            rw [List.all_eq_false]
            exact ⟨c, List.mem_range.mpr (by omega), by rw [if_pos hpc, hcl]; simp⟩
          rw [this]
          simp
      · have : decide ((H id : Int) ≤ 0) = false := by
          simp only [decide_eq_false_iff_not, Int.not_le]
          omega
        rw [this]
        simp

/-! ### The initial state -/

theorem cs_init_rel (filters : List LFilter) (global : Option Nat) (sites : List CallSite) :
    cs_Rel filters global sites [] { sub := CapWorld.init filters global } { sub := ({} : LogState) } := by
  refine ⟨rfl, rfl, rfl, rfl, ?_, fun _ => rfl⟩
  refine ⟨rfl, rfl, rfl, by simp [CapWorld.init], cs_CallsOK.nil, rfl, rfl, ?_, ?_⟩
  · refine ⟨trivial, ?_, ?_, ?_, ?_⟩
    · intro id s h; simp [CapWorld.init, AMap.get] at h
    · intro id s p h; simp [CapWorld.init, AMap.get] at h
    · intro id _; exact ⟨rfl, rfl⟩
    · intro id h; cases h
  · intro i hi
    constructor
    · show (List.map (fun _ => ({} : Storage)) filters).getD i {} = _
      rw [cs_getD_eq_getElem _ _ _ (by simpa using hi)]
      simp only [List.getElem_map]
      rfl
    · intro id s h; simp [CapWorld.init, AMap.get] at h

/-! ### The theorem for the copies -/

theorem cs_main (filters : List LFilter) (global : Option Nat) (sites : List CallSite)
    (ops : List POp) (hwf : wfProg sites ops = true) :
    (captureRun filters global sites ops).panicked = false ∧
    (captureRun filters global sites ops).storages.length = filters.length ∧
    ∀ i, i < filters.length →
      (captureRun filters global sites ops).storages.getD i {} =
        cs_expected (filters.getD i .all) sites (cs_callLogF global sites ops) := by
  obtain ⟨live, h1, h2, h3⟩ := cs_rel_run (filters := filters) (global := global) ops {} _ _
    (cs_init_rel filters global sites) hwf
  unfold captureRun cs_callLogF
  have hw := h3.w
  refine ⟨hw.np, hw.len, ?_⟩
  intro i hi
  rw [(hw.lay i hi).st, cs_getD_eq_getElem _ _ _ hi]
  unfold cs_expected
  apply cs_mk_congr
  intro s hs
  have hb := cs_refSpans_id_bound hw.ok s hs
  refine ⟨rfl, rfl, rfl, ?_, rfl⟩
  show cs_clOf _ s.id = cs_closedAtEnd _ _ _ _ s.id
  rw [cs_closed_eq hw.ri (cs_hierOK hw.ok) hw.next h3.hd _ s.id hb.1 hb.2 (by omega)]
  rfl

end TT
