/-
  TT.Lemmas.TunnelRecv — helper lemmas for C01 (part 3): what the receiver does with one event of
  a first-lifetime stream (every alive span is presented on the host), and what a host visitor is
  shown for the captured values.
-/
import TT.Lemmas.TunnelLog

namespace TT

/-! ### Values -/

theorem tn_presentVals_eq (f : Fields) :
    presentVals f = (presentRaw f).map fun kv => (kv.1, visit kv.2) := by
  induction f with
  | nil => rfl
  | cons x xs ih =>
    obtain ⟨k, r⟩ := x
    unfold presentVals presentRaw at ih ⊢
    cases r with
    | none => simpa [List.filterMap_cons] using ih
    | some r => simpa [List.filterMap_cons] using ih

theorem tn_presentNames_sublist (f : Fields) : (presentNames f).Sublist (f.map (·.1)) := by
  induction f with
  | nil => exact List.Sublist.slnil
  | cons x xs ih =>
    obtain ⟨k, r⟩ := x
    unfold presentNames at ih ⊢
    cases r with
    | none => simpa [List.filterMap_cons] using List.Sublist.cons k ih
    | some r => simpa [List.filterMap_cons] using List.Sublist.cons_cons k ih

theorem tn_capture_good (site : CallSite) (f : Fields) (hg : GoodF site f) :
    capture f = presentVals f := by
  rw [C14_capture_is_inserts]
  apply tn_ofList_nodup
  show ((presentVals f).map (·.1)).Nodup
  rw [presentVals_names]
  exact (tn_presentNames_sublist f).nodup hg.1

theorem tn_generateFields_capture (site : CallSite) (f : Fields) (hg : GoodF site f) :
    generateFields site (capture f) = (presentRaw f).map fun kv => (kv.1, (visit kv.2).toRaw) := by
  rw [tn_capture_good site f hg]
  unfold generateFields
  have hall : (presentVals f).filter (fun kv => site.fields.contains kv.1) = presentVals f := by
    rw [List.filter_eq_self]
    intro kv hkv
    unfold presentVals at hkv
    rw [List.mem_filterMap] at hkv
    obtain ⟨⟨k, r⟩, hx, hkr⟩ := hkv
    cases r with
    | none => simp at hkr
    | some r =>
      simp only [Option.map_some, Option.some.injEq] at hkr
      subst hkr
      simpa using hg.2 _ hx
  rw [hall, tn_presentVals_eq, List.map_map]
  rfl

/-! ### One event -/

theorem tn_chunks_nil (n : Nat) : chunks n [] = [] := rfl

theorem tn_generateFields_len (site : CallSite) (vs : TVals) :
    (generateFields site vs).length ≤ vs.length := by
  unfold generateFields
  rw [List.length_map]
  exact List.length_filter_le _ _

theorem tn_createLocalSpan (r : RState) (w : World) (d : SpanData) (idx : Nat)
    (hmt : AMap.get r.mt d.mt = some idx) (hlen : d.values.length ≤ maxValues) :
    createLocalSpan r w d = .ok
      { w with host := (w.host.newSpan idx (rr_parent r d)
          (generateFields (siteOf w idx) d.values)).1 } w.host.next := by
  have hl := Nat.le_trans (tn_generateFields_len (siteOf w idx) d.values) hlen
  unfold createLocalSpan
  simp only [hmt, List.take_of_length_le hl, List.drop_of_length_le hl, createValues, hl, if_true,
    tn_chunks_nil, recordChunks, Host.newSpan, rr_parent]
  rfl

/-- Parent as the receiver hands it to the host. -/
def tparO : Option Nat → HParent
  | some p => .explicit p
  | none => .ctx

theorem tn_recv_newSpan (σ : Sigma) (id k idx : Nat) (par : Option Nat) (vs : TVals)
    (hlen : ¬ vs.length > maxValues) (hloc : AMap.contains σ.r.loc id = false)
    (hmt : AMap.get σ.r.mt k = some idx)
    (hpar : ∀ p, par = some p → AMap.get σ.r.loc p = some p) :
    tryReceive σ (.newSpan id par k vs) = .ok
      { r := { σ.r with
                loc := AMap.insert σ.r.loc id σ.w.host.next,
                spans := AMap.insert σ.r.spans id { mt := k, parent := par, refCount := 1, values := vs },
                uncommitted := ASet.insert σ.r.uncommitted id },
        w := { σ.w with host := (σ.w.host.newSpan idx
                (tparO par) (generateFields (siteOf σ.w idx) vs)).1 } } := by
  have hc := tn_createLocalSpan σ.r σ.w { mt := k, parent := par, refCount := 1, values := vs } idx
    hmt (Nat.le_of_not_gt hlen)
  have hp : rr_parent σ.r { mt := k, parent := par, refCount := 1, values := vs }
      = tparO par := by
    cases par with
    | none => rfl
    | some p => simp [rr_parent, hpar p rfl, tparO]
  rw [hp] at hc
  cases par with
  | none => simp only [tryReceive, hlen, hloc, hc, if_false, Bool.false_eq_true]
  | some p =>
    simp only [tryReceive, hlen, hloc, hc, if_false, Bool.false_eq_true, hmt, mapSpanId,
      hpar p rfl, Except.map]

theorem tn_recv_record (σ : Sigma) (id idx : Nat) (d : SpanData) (vs : TVals)
    (hlen : ¬ vs.length > maxValues) (hloc : AMap.get σ.r.loc id = some id)
    (hsp : AMap.get σ.r.spans id = some d) (hmt : AMap.get σ.r.mt d.mt = some idx) :
    tryReceive σ (.valuesRecorded id vs) = .ok
      { r := { σ.r with spans := AMap.insert σ.r.spans id { d with values := d.values.extend vs } },
        w := { σ.w with host := σ.w.host.emit (.record id (generateFields (siteOf σ.w idx) vs)) } } := by
  simp only [tryReceive, hlen, if_false, mapSpanId, hloc, hsp, hmt,
    createValues_generateFields _ _ hlen]

theorem tn_recv_follows (σ : Sigma) (a b : Nat) (ha : AMap.get σ.r.loc a = some a)
    (hb : AMap.get σ.r.loc b = some b) :
    tryReceive σ (.followsFrom a b) = .ok
      { σ with w := { σ.w with host := σ.w.host.emit (.follows a b) } } := by
  simp only [tryReceive, mapSpanId, ha, hb]

theorem tn_recv_entered (σ : Sigma) (id : Nat) (hl : AMap.get σ.r.loc id = some id) :
    tryReceive σ (.entered id) = .ok
      { r := { σ.r with entered := bumpEntered σ.r.entered id },
        w := { σ.w with host := σ.w.host.emit (.enter id) } } := by
  simp only [tryReceive, mapSpanId, hl]

theorem tn_recv_exited (σ : Sigma) (id : Nat) (hl : AMap.get σ.r.loc id = some id) :
    tryReceive σ (.exited id) = .ok
      { r := { σ.r with entered := dropEntered σ.r.entered id },
        w := { σ.w with host := σ.w.host.emit (.exit id) } } := by
  simp only [tryReceive, mapSpanId, hl]

theorem tn_recv_cloned (σ : Sigma) (id : Nat) (d : SpanData)
    (hsp : AMap.get σ.r.spans id = some d) :
    tryReceive σ (.cloned id) = .ok
      { σ with r := { σ.r with spans := AMap.insert σ.r.spans id { d with refCount := d.refCount + 1 } } } := by
  simp only [tryReceive, hsp]

theorem tn_recv_dropped_keep (σ : Sigma) (id : Nat) (d : SpanData)
    (hsp : AMap.get σ.r.spans id = some d) (h0 : ¬ d.refCount = 0) (h1 : ¬ d.refCount - 1 = 0) :
    tryReceive σ (.dropped id) = .ok
      { σ with r := { σ.r with spans := AMap.insert σ.r.spans id { d with refCount := d.refCount - 1 } } } := by
  simp only [tryReceive, hsp, h0, h1, if_false, ne_eq, not_false_eq_true, if_true]

theorem tn_recv_dropped_close (σ : Sigma) (id : Nat) (d : SpanData)
    (hsp : AMap.get σ.r.spans id = some d) (h0 : ¬ d.refCount = 0) (h1 : d.refCount - 1 = 0)
    (hl : AMap.get σ.r.loc id = some id) :
    tryReceive σ (.dropped id) = .ok
      { r := { σ.r with spans := AMap.erase σ.r.spans id,
                        entered := AMap.erase σ.r.entered id,
                        uncommitted := ASet.erase σ.r.uncommitted id,
                        loc := AMap.erase σ.r.loc id },
        w := { σ.w with host := σ.w.host.emit (.tryClose id) } } := by
  simp only [tryReceive, hsp, h0, h1, if_false, ne_eq, not_true_eq_false, hl]

theorem tn_recv_newEvent (σ : Sigma) (k idx : Nat) (par : Option Nat) (vs : TVals)
    (hlen : ¬ vs.length > maxValues) (hmt : AMap.get σ.r.mt k = some idx)
    (hpar : ∀ p, par = some p → AMap.get σ.r.loc p = some p) :
    tryReceive σ (.newEvent k par vs) = .ok
      { σ with w := { σ.w with host := σ.w.host.emit (.event idx
          (tparO par) (generateFields (siteOf σ.w idx) vs)) } } := by
  cases par with
  | none => simp only [tryReceive, hlen, if_false, hmt, createValues_generateFields _ _ hlen, tparO]
  | some p =>
    simp only [tryReceive, hlen, if_false, hmt, createValues_generateFields _ _ hlen, mapSpanId,
      hpar p rfl, tparO]

end TT
