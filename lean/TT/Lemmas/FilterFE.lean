/-
  TT.Lemmas.FilterFE — helper lemmas for C13 (part 2): what one program operation does to the
  native host under an arbitrary level filter (calls emitted oldest first, span ids issued,
  handles created, registered call sites), case by case.
-/
import TT.Props.C01

namespace TT

def fl_regCalls (registered : List Nat) (k : Nat) : List HostCall :=
  if registered.contains k then [] else [.register k]

def fl_regList (registered : List Nat) (k : Nat) : List Nat :=
  if registered.contains k then registered else registered ++ [k]

def fl_Post (fe r : FE NativeHost) (new : List HostCall) (dn : Nat) (hs : List (Option (Nat × Nat)))
    (reg : List Nat) : Prop :=
  r.sub.host.log = new.reverse ++ fe.sub.host.log ∧ r.sub.host.next = fe.sub.host.next + dn ∧
  r.sub.maxLevel = fe.sub.maxLevel ∧ r.handles = fe.handles ++ hs ∧ r.registered = reg

theorem fl_fe_reg (sites : List CallSite) (fe : FE NativeHost) (k : Nat) :
    fl_Post fe (feStep nativeSub sites fe (.reg k)) [.register k] 0 [] (fl_regList fe.registered k) := by
  simp [fl_Post, feStep, nativeSub, Host.emit, fl_regList]

def fl_par (sites : List CallSite) (fe : FE NativeHost) (k : Nat) (p : PParent) : HParent :=
  hparentOf (resolveParent (ensureRegistered nativeSub sites fe k) p)

theorem fl_fe_new_en (sites : List CallSite) (fe : FE NativeHost) (k : Nat) (p : PParent) (vals : PVals)
    (he : levelEnabled fe.sub.maxLevel (sites.getD k default) = true) :
    fl_Post fe (feStep nativeSub sites fe (.new k p vals))
      (fl_regCalls fe.registered k ++ [.newSpan fe.sub.host.next k (fl_par sites fe k p) (presentRaw (fieldsOf (sites.getD k default) vals))])
      1 [some (fe.sub.host.next, k)] (fl_regList fe.registered k) := by
  obtain ⟨⟨⟨next, log, stack⟩, maxLevel⟩, handles, registered⟩ := fe
  simp only [List.getD_eq_getElem?_getD] at he
  by_cases hk : k ∈ registered
  · simp [fl_Post, feStep, ensureRegistered, hk, nativeSub, Host.emit, Host.newSpan, he, fl_regCalls, fl_regList, fl_par]
  · simp [fl_Post, feStep, ensureRegistered, hk, nativeSub, Host.emit, Host.newSpan, he, fl_regCalls, fl_regList, fl_par]

theorem fl_fe_new_dis (sites : List CallSite) (fe : FE NativeHost) (k : Nat) (p : PParent) (vals : PVals)
    (he : levelEnabled fe.sub.maxLevel (sites.getD k default) = false) :
    fl_Post fe (feStep nativeSub sites fe (.new k p vals))
      (fl_regCalls fe.registered k) 0 [none] (fl_regList fe.registered k) := by
  obtain ⟨⟨⟨next, log, stack⟩, maxLevel⟩, handles, registered⟩ := fe
  simp only [List.getD_eq_getElem?_getD] at he
  by_cases hk : k ∈ registered
  · simp [fl_Post, feStep, ensureRegistered, hk, nativeSub, Host.emit, Host.newSpan, he, fl_regCalls, fl_regList]
  · simp [fl_Post, feStep, ensureRegistered, hk, nativeSub, Host.emit, Host.newSpan, he, fl_regCalls, fl_regList]

theorem fl_fe_evt_en (sites : List CallSite) (fe : FE NativeHost) (k : Nat) (p : PParent) (vals : PVals)
    (he : levelEnabled fe.sub.maxLevel (sites.getD k default) = true) :
    fl_Post fe (feStep nativeSub sites fe (.evt k p vals))
      (fl_regCalls fe.registered k ++ [.event k (fl_par sites fe k p) (presentRaw (fieldsOf (sites.getD k default) vals))])
      0 [] (fl_regList fe.registered k) := by
  obtain ⟨⟨⟨next, log, stack⟩, maxLevel⟩, handles, registered⟩ := fe
  simp only [List.getD_eq_getElem?_getD] at he
  by_cases hk : k ∈ registered
  · simp [fl_Post, feStep, ensureRegistered, hk, nativeSub, Host.emit, he, fl_regCalls, fl_regList, fl_par]
  · simp [fl_Post, feStep, ensureRegistered, hk, nativeSub, Host.emit, he, fl_regCalls, fl_regList, fl_par]

theorem fl_fe_evt_dis (sites : List CallSite) (fe : FE NativeHost) (k : Nat) (p : PParent) (vals : PVals)
    (he : levelEnabled fe.sub.maxLevel (sites.getD k default) = false) :
    fl_Post fe (feStep nativeSub sites fe (.evt k p vals))
      (fl_regCalls fe.registered k) 0 [] (fl_regList fe.registered k) := by
  obtain ⟨⟨⟨next, log, stack⟩, maxLevel⟩, handles, registered⟩ := fe
  simp only [List.getD_eq_getElem?_getD] at he
  by_cases hk : k ∈ registered
  · simp [fl_Post, feStep, ensureRegistered, hk, nativeSub, Host.emit, he, fl_regCalls, fl_regList]
  · simp [fl_Post, feStep, ensureRegistered, hk, nativeSub, Host.emit, he, fl_regCalls, fl_regList]

theorem fl_fe_record_some (sites : List CallSite) (fe : FE NativeHost) (s : Nat) (vals : PVals) (id k : Nat)
    (h : fe.handleSite s = some (id, k)) :
    fl_Post fe (feStep nativeSub sites fe (.record s vals))
      [.record id (presentRaw (fieldsOf (sites.getD k default) vals))] 0 [] fe.registered := by
  simp [fl_Post, feStep, h, nativeSub, Host.emit]

theorem fl_fe_record_none (sites : List CallSite) (fe : FE NativeHost) (s : Nat) (vals : PVals)
    (h : fe.handleSite s = none) :
    fl_Post fe (feStep nativeSub sites fe (.record s vals)) [] 0 [] fe.registered := by
  simp [fl_Post, feStep, h]

theorem fl_fe_ent_some (sites : List CallSite) (fe : FE NativeHost) (s : Nat) (id k : Nat)
    (h : fe.handleSite s = some (id, k)) :
    fl_Post fe (feStep nativeSub sites fe (.ent s)) [.enter id] 0 [] fe.registered := by
  simp [fl_Post, feStep, FE.handle, h, nativeSub, Host.emit]

theorem fl_fe_ent_none (sites : List CallSite) (fe : FE NativeHost) (s : Nat)
    (h : fe.handleSite s = none) :
    fl_Post fe (feStep nativeSub sites fe (.ent s)) [] 0 [] fe.registered := by
  simp [fl_Post, feStep, FE.handle, h]

theorem fl_fe_ext_some (sites : List CallSite) (fe : FE NativeHost) (s : Nat) (id k : Nat)
    (h : fe.handleSite s = some (id, k)) :
    fl_Post fe (feStep nativeSub sites fe (.ext s)) [.exit id] 0 [] fe.registered := by
  simp [fl_Post, feStep, FE.handle, h, nativeSub, Host.emit]

theorem fl_fe_ext_none (sites : List CallSite) (fe : FE NativeHost) (s : Nat)
    (h : fe.handleSite s = none) :
    fl_Post fe (feStep nativeSub sites fe (.ext s)) [] 0 [] fe.registered := by
  simp [fl_Post, feStep, FE.handle, h]

theorem fl_fe_drp_some (sites : List CallSite) (fe : FE NativeHost) (s : Nat) (id k : Nat)
    (h : fe.handleSite s = some (id, k)) :
    fl_Post fe (feStep nativeSub sites fe (.drp s)) [.tryClose id] 0 [] fe.registered := by
  simp [fl_Post, feStep, FE.handle, h, nativeSub, Host.emit]

theorem fl_fe_drp_none (sites : List CallSite) (fe : FE NativeHost) (s : Nat)
    (h : fe.handleSite s = none) :
    fl_Post fe (feStep nativeSub sites fe (.drp s)) [] 0 [] fe.registered := by
  simp [fl_Post, feStep, FE.handle, h]

theorem fl_fe_cln_some (sites : List CallSite) (fe : FE NativeHost) (s : Nat) (id k : Nat)
    (h : fe.handleSite s = some (id, k)) :
    fl_Post fe (feStep nativeSub sites fe (.cln s)) [.clone id] 0 [some (id, k)] fe.registered := by
  simp [fl_Post, feStep, h, nativeSub, Host.emit]

theorem fl_fe_cln_none (sites : List CallSite) (fe : FE NativeHost) (s : Nat)
    (h : fe.handleSite s = none) :
    fl_Post fe (feStep nativeSub sites fe (.cln s)) [] 0 [none] fe.registered := by
  simp [fl_Post, feStep, h]

theorem fl_fe_fol_some (sites : List CallSite) (fe : FE NativeHost) (s t : Nat) (a ka b kb : Nat)
    (h1 : fe.handleSite s = some (a, ka)) (h2 : fe.handleSite t = some (b, kb)) :
    fl_Post fe (feStep nativeSub sites fe (.fol s t)) [.follows a b] 0 [] fe.registered := by
  simp [fl_Post, feStep, FE.handle, h1, h2, nativeSub, Host.emit]

theorem fl_fe_fol_none (sites : List CallSite) (fe : FE NativeHost) (s t : Nat)
    (h : fe.handleSite s = none ∨ fe.handleSite t = none) :
    fl_Post fe (feStep nativeSub sites fe (.fol s t)) [] 0 [] fe.registered := by
  rcases h with h | h
  · simp [fl_Post, feStep, FE.handle, h]
  · cases h1 : fe.handleSite s <;> simp [fl_Post, feStep, FE.handle, h, h1]
end TT
