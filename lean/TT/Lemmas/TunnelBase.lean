/-
  TT.Lemmas.TunnelBase — helper lemmas for C01 (part 1): event-level validity as history-level
  validity, the native host against the program's call log, and the shape of the call log of a
  well-formed program.
-/
import TT.Props.C12
import TT.Props.C03
import TT.Props.C14

namespace TT

/-! ### Insertion of fresh keys appends (as in TT.Lemmas.Wire, which cannot be imported here) -/

theorem tn_insert_fresh (vs : TVals) (k : Str) (v : TVal) (h : k ∉ TVals.names vs) :
    (vs.insert k v).1 = vs ++ [(k, v)] := by
  induction vs with
  | nil => rfl
  | cons e rest ih =>
    obtain ⟨k', v'⟩ := e
    simp only [TVals.names, List.map_cons, List.mem_cons, not_or] at h
    have hne : ¬ k' = k := fun h' => h.1 h'.symm
    rw [TVals.insert_cons, if_neg hne]
    simp only [List.cons_append]
    rw [ih (by simpa [TVals.names] using h.2)]

theorem tn_extend_fresh (acc vs : TVals) (h : (TVals.names (acc ++ vs)).Nodup) :
    TVals.extend acc vs = acc ++ vs := by
  induction vs generalizing acc with
  | nil => simp [TVals.extend_nil]
  | cons kv vs ih =>
    obtain ⟨k, v⟩ := kv
    have hk : k ∉ TVals.names acc := by
      simp only [TVals.names, List.map_append, List.map_cons] at h
      rw [List.nodup_append] at h
      intro hmem
      exact h.2.2 k (by simpa [TVals.names] using hmem) k (by simp) rfl
    rw [TVals.extend_cons, tn_insert_fresh acc k v hk, ih]
    · simp
    · simpa using h

theorem tn_ofList_nodup (vs : TVals) (h : (TVals.names vs).Nodup) : TVals.ofList vs = vs := by
  have := tn_extend_fresh [] vs (by simpa using h)
  simpa [TVals.ofList] using this

/-! ### Event validity vs. history validity -/

theorem tn_allValid_ev (ss : SpecSys) (evs : List Event) :
    allValid ss (evs.map .ev) = allValidEvents ss.cur evs := by
  induction evs generalizing ss with
  | nil => rfl
  | cons e es ih =>
    simp only [List.map_cons, allValid, allValidEvents]
    cases hi : (ss.cur.invalid e).isEmpty with
    | false => simp
    | true =>
      simp only [Bool.true_and]
      rw [ih]
      simp [SpecSys.step, hi]

theorem tn_noReannounce_ev (ss : SpecSys) (evs : List Event)
    (hv : allValidEvents ss.cur evs = true) :
    noReannounceFrom ss (evs.map .ev) = noReannounceEvents ss.cur evs := by
  induction evs generalizing ss with
  | nil => rfl
  | cons e es ih =>
    simp only [allValidEvents, Bool.and_eq_true] at hv
    obtain ⟨hi, hv⟩ := hv
    have hstep : (ss.step (.ev e)).cur = ss.cur.apply e := by simp [SpecSys.step, hi]
    have := ih (ss.step (.ev e)) (by rw [hstep]; exact hv)
    rw [hstep] at this
    simp only [List.map_cons, noReannounceFrom, noReannounceEvents, this]
    cases e <;> rfl

/-! ### The native host against the call log -/

def callToHost : SubCall → HostCall
  | .register k _ => .register k
  | .newSpan id k p f => .newSpan id k (hparentOf p) (presentRaw f)
  | .record id f => .record id (presentRaw f)
  | .follows a b => .follows a b
  | .enter id => .enter id
  | .exit id => .exit id
  | .clone id => .clone id
  | .tryClose id => .tryClose id
  | .event k p f => .event k (hparentOf p) (presentRaw f)

def NRel (fe1 : FE NativeHost) (fe2 : FE LogState) : Prop :=
  fe1.handles = fe2.handles ∧ fe1.registered = fe2.registered ∧ fe1.sub.host.next = fe2.sub.next ∧
  fe1.sub.host.log = fe2.sub.calls.map callToHost ∧ fe1.sub.maxLevel = none

theorem tn_nrel_step (sites : List CallSite) (fe1 : FE NativeHost) (fe2 : FE LogState) (op : POp)
    (h : NRel fe1 fe2) : NRel (feStep nativeSub sites fe1 op) (feStep logSub sites fe2 op) := by
  obtain ⟨⟨⟨next, log, stack⟩, maxLevel⟩, handles, registered⟩ := fe1
  obtain ⟨⟨next2, calls⟩, handles2, registered2⟩ := fe2
  obtain ⟨h1, h2, h3, h4, h5⟩ := h
  simp only at h1 h2 h3 h4 h5
  subst h1 h2 h3 h4 h5
  cases op with
  | reg k =>
    simp [feStep, nativeSub, logSub, NRel, callToHost, Host.emit]
  | new k p vals =>
    by_cases hk : k ∈ registered
    · simp [feStep, ensureRegistered, hk, nativeSub, logSub, NRel, callToHost, Host.emit,
        Host.newSpan, levelEnabled, resolveParent, FE.handle, FE.handleSite]
    · simp [feStep, ensureRegistered, hk, nativeSub, logSub, NRel, callToHost, Host.emit,
        Host.newSpan, levelEnabled, resolveParent, FE.handle, FE.handleSite]
  | record s vals =>
    simp only [feStep, FE.handleSite]
    cases hh : (handles[s]?).join with
    | none => simp [NRel]
    | some idk => simp [nativeSub, logSub, NRel, callToHost, Host.emit]
  | fol s t =>
    simp only [feStep, FE.handle, FE.handleSite]
    cases hs : (handles[s]?).join <;> cases ht : (handles[t]?).join <;>
      simp [nativeSub, logSub, NRel, callToHost, Host.emit]
  | ent s =>
    simp only [feStep, FE.handle, FE.handleSite]
    cases hs : (handles[s]?).join <;> simp [nativeSub, logSub, NRel, callToHost, Host.emit]
  | ext s =>
    simp only [feStep, FE.handle, FE.handleSite]
    cases hs : (handles[s]?).join <;> simp [nativeSub, logSub, NRel, callToHost, Host.emit]
  | cln s =>
    simp only [feStep, FE.handleSite]
    cases hs : (handles[s]?).join <;> simp [nativeSub, logSub, NRel, callToHost, Host.emit]
  | drp s =>
    simp only [feStep, FE.handle, FE.handleSite]
    cases hs : (handles[s]?).join <;> simp [nativeSub, logSub, NRel, callToHost, Host.emit]
  | evt k p vals =>
    by_cases hk : k ∈ registered
    · simp [feStep, ensureRegistered, hk, nativeSub, logSub, NRel, callToHost, Host.emit,
        levelEnabled, resolveParent, FE.handle, FE.handleSite]
    · simp [feStep, ensureRegistered, hk, nativeSub, logSub, NRel, callToHost, Host.emit,
        levelEnabled, resolveParent, FE.handle, FE.handleSite]

theorem tn_nrel_run (sites : List CallSite) (ops : List POp) :
    ∀ (fe1 : FE NativeHost) (fe2 : FE LogState), NRel fe1 fe2 →
      NRel (runProg nativeSub sites fe1 ops) (runProg logSub sites fe2 ops) := by
  induction ops with
  | nil => intro fe1 fe2 h; exact h
  | cons op ops ih =>
    intro fe1 fe2 h
    simp only [runProg, List.foldl_cons]
    exact ih _ _ (tn_nrel_step sites fe1 fe2 op h)

/-- The native host's log is the program's call log. -/
theorem tn_native_log (sites : List CallSite) (ops : List POp) :
    (nativeRun none sites ops).log.reverse = (callLog sites ops).map callToHost := by
  have h := tn_nrel_run sites ops { sub := ({ maxLevel := none } : NativeHost) }
    { sub := ({} : LogState) } ⟨rfl, rfl, rfl, rfl, rfl⟩
  unfold nativeRun callLog
  rw [h.2.2.2.1, List.map_reverse]

end TT
