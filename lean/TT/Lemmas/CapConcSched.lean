/-
  The whole schedule: the interleaved model (`runSchedule`) and the interleaved logging run
  (`cc_clogSchedule`) proceed in lock step, and the invariant `cc_WInv` holds between the model and
  the tagged call log so far. The handle count is: the shared handles (owned by the main thread,
  counted once) plus, for every thread, its live handles beyond the shared ones.
-/
import TT.Lemmas.CapConcRun

namespace TT

/-! ### Handle counts -/

theorem cc_liveCnt_nil_right (live : List Bool) (id : Nat) : cs_liveCnt live [] id = 0 := by
  cases live <;> rfl

theorem cc_liveCnt_take_drop (n : Nat) : ∀ (live : List Bool) (handles : List (Option (Nat × Nat))) (id : Nat),
    cs_liveCnt live handles id =
      cs_liveCnt (live.take n) (handles.take n) id + cs_liveCnt (live.drop n) (handles.drop n) id := by
  induction n with
  | zero => intro live handles id; simp [cs_liveCnt]
  | succ n ih =>
    intro live handles id
    cases live with
    | nil => simp [cs_liveCnt]
    | cons b bs =>
      cases handles with
      | nil => simp [cs_liveCnt, cc_liveCnt_nil_right]
      | cons h hs =>
        simp only [List.take_succ_cons, List.drop_succ_cons, cs_liveCnt]
        rw [ih bs hs id]
        omega

/-- Handles and registered call sites of thread `t`. -/
def cc_feOf (shared : List (Option (Nat × Nat)))
    (fes : AMap Nat (List (Option (Nat × Nat)) × List Nat)) (t : Nat) :
    List (Option (Nat × Nat)) × List Nat := (fes.get t).getD (shared, [])

/-- Live handles of a thread beyond the `n` shared ones. -/
def cc_own (n : Nat) (live : List Bool) (handles : List (Option (Nat × Nat))) (id : Nat) : Nat :=
  cs_liveCnt (live.drop n) (handles.drop n) id

/-- A thread's handle table starts with the shared handles, all live. -/
structure cc_TInv (n : Nat) (shared : List (Option (Nat × Nat))) (live : List Bool)
    (handles : List (Option (Nat × Nat))) : Prop where
  len : live.length = handles.length
  lv : live.take n = List.replicate n true
  hd : handles.take n = shared

theorem cc_TInv_cnt {n shared live handles} (h : cc_TInv n shared live handles) (id : Nat) :
    cs_liveCnt live handles id = cs_liveCnt (List.replicate n true) shared id + cc_own n live handles id := by
  rw [cc_liveCnt_take_drop n live handles id, h.lv, h.hd]
  rfl

theorem cc_TInv_le {n shared live handles} (h : cc_TInv n shared live handles) : n ≤ live.length := by
  have := congrArg List.length h.lv
  rw [List.length_take, List.length_replicate] at this
  omega

def cc_Htot (N n : Nat) (shared : List (Option (Nat × Nat)))
    (fes : AMap Nat (List (Option (Nat × Nat)) × List Nat)) (W : Nat → WfSt) (id : Nat) : Nat :=
  cs_liveCnt (List.replicate n true) shared id +
    cc_sumN N (fun t => cc_own n (W t).live (cc_feOf shared fes t).1 id)

/-- References held by the threads other than `a`. -/
def cc_Rest (N n : Nat) (shared : List (Option (Nat × Nat)))
    (fes : AMap Nat (List (Option (Nat × Nat)) × List Nat)) (W : Nat → WfSt) (a : Nat) (id : Nat) : Nat :=
  cc_sumN N (fun t => if t = a then 0 else cc_own n (W t).live (cc_feOf shared fes t).1 id)

theorem cc_Htot_split {N n shared fes W a} (ha : a < N) (id : Nat) :
    cc_Htot N n shared fes W id =
      cs_liveCnt (List.replicate n true) shared id + cc_own n (W a).live (cc_feOf shared fes a).1 id +
        cc_Rest N n shared fes W a id := by
  unfold cc_Htot cc_Rest
  have := cc_sumN_upd ha (fun t => cc_own n (W t).live (cc_feOf shared fes t).1 id)
    (fun t => if t = a then 0 else cc_own n (W t).live (cc_feOf shared fes t).1 id)
    (by intro t ht; simp [ht])
  simp only [if_true] at this
  omega

/-! ### The global invariant -/

structure cc_GInv (N : Nat) (filters : List LFilter) (global : Option Nat) (sites : List CallSite)
    (n : Nat) (W : Nat → WfSt) (s1 : ConcSt) (s2 : cc_CLogConc) : Prop where
  sh : s1.shared = s2.shared
  fes : s1.fes = s2.fes
  nx : s2.st.next = cs_maxId (cc_untag s2.st.calls.reverse) + 1
  tinv : ∀ t, cc_TInv n s1.shared (W t).live (cc_feOf s1.shared s1.fes t).1
  w : cc_WInv N filters global sites s2.st.calls.reverse (cc_hierFinal s2.st.calls.reverse)
    (cc_Htot N n s1.shared s1.fes W) none s1.w
  hd : ∀ id, cs_handles (cc_untag s2.st.calls.reverse) id = (cc_Htot N n s1.shared s1.fes W id : Int)

/-! ### Shape of one step -/

theorem cc_conc_step_eq (sites : List CallSite) (s : ConcSt) (tid : Nat) (op : POp) :
    s.step sites tid op =
      { s with
        w := (feStep (capSub tid) sites
          { sub := s.w, handles := (cc_feOf s.shared s.fes tid).1, registered := (cc_feOf s.shared s.fes tid).2 } op).sub
        fes := s.fes.insert tid
          ((feStep (capSub tid) sites
            { sub := s.w, handles := (cc_feOf s.shared s.fes tid).1, registered := (cc_feOf s.shared s.fes tid).2 } op).handles,
           (feStep (capSub tid) sites
            { sub := s.w, handles := (cc_feOf s.shared s.fes tid).1, registered := (cc_feOf s.shared s.fes tid).2 } op).registered) } := rfl

theorem cc_clog_step_eq (global : Option Nat) (sites : List CallSite) (s : cc_CLogConc) (tid : Nat) (op : POp) :
    s.step global sites tid op =
      { s with
        st := (feStep (cc_clogSub global tid) sites
          { sub := s.st, handles := (cc_feOf s.shared s.fes tid).1, registered := (cc_feOf s.shared s.fes tid).2 } op).sub
        fes := s.fes.insert tid
          ((feStep (cc_clogSub global tid) sites
            { sub := s.st, handles := (cc_feOf s.shared s.fes tid).1, registered := (cc_feOf s.shared s.fes tid).2 } op).handles,
           (feStep (cc_clogSub global tid) sites
            { sub := s.st, handles := (cc_feOf s.shared s.fes tid).1, registered := (cc_feOf s.shared s.fes tid).2 } op).registered) } := rfl

/-- The front end only appends to the handle table. -/
theorem cc_feStep_handles {σ : Type} (S : Subscriber σ) (sites : List CallSite) (fe : FE σ) (op : POp) :
    ∃ extra, (feStep S sites fe op).handles = fe.handles ++ extra := by
  cases op with
  | reg k => exact ⟨[], by simp [feStep]⟩
  | new k p vals =>
    simp only [feStep]
    have he : (ensureRegistered S sites fe k).handles = fe.handles := by
      unfold ensureRegistered; split <;> rfl
    split
    · exact ⟨_, congrArg (· ++ [_]) he⟩
    · exact ⟨_, congrArg (· ++ [none]) he⟩
  | record s vals =>
    simp only [feStep]
    split <;> exact ⟨[], by simp⟩
  | fol s t =>
    simp only [feStep]
    split <;> exact ⟨[], by simp⟩
  | ent s =>
    simp only [feStep]
    split <;> exact ⟨[], by simp⟩
  | ext s =>
    simp only [feStep]
    split <;> exact ⟨[], by simp⟩
  | cln s =>
    simp only [feStep]
    split
    · exact ⟨[_], rfl⟩
    · exact ⟨[none], rfl⟩
  | drp s =>
    simp only [feStep]
    split <;> exact ⟨[], by simp⟩
  | evt k p vals =>
    simp only [feStep]
    have he : (ensureRegistered S sites fe k).handles = fe.handles := by
      unfold ensureRegistered; split <;> rfl
    split
    · exact ⟨[], by simp only [he, List.append_nil]⟩
    · exact ⟨[], by simp only [he, List.append_nil]⟩

/-- A well-formed step that does not drop a shared handle keeps the shared handles live. -/
theorem cc_wfStep_live {sites : List CallSite} {st st' : WfSt} {op : POp} {n : Nat}
    (hw : wfStep sites st op = some st') (hd : ∀ s, op = .drp s → n ≤ s)
    (hlv : st.live.take n = List.replicate n true) (hn : n ≤ st.live.length) :
    st'.live.take n = List.replicate n true := by
  cases op with
  | reg k => simp only [wfStep, Option.some.injEq] at hw; subst hw; exact hlv
  | new k p vals =>
    simp only [wfStep] at hw
    split at hw
    · simp only [Option.some.injEq] at hw; subst hw
      simp only
      rw [List.take_append_of_le_length hn]; exact hlv
    · cases hw
  | evt k p vals =>
    simp only [wfStep] at hw
    split at hw
    · simp only [Option.some.injEq] at hw; subst hw; exact hlv
    · cases hw
  | record s vals =>
    simp only [wfStep] at hw
    split at hw
    · simp only [Option.some.injEq] at hw; subst hw; exact hlv
    · cases hw
  | fol a b =>
    simp only [wfStep] at hw
    split at hw
    · simp only [Option.some.injEq] at hw; subst hw; exact hlv
    · cases hw
  | ent s =>
    simp only [wfStep] at hw
    split at hw
    · simp only [Option.some.injEq] at hw; subst hw; exact hlv
    · cases hw
  | ext s =>
    simp only [wfStep] at hw
    split at hw
    · simp only [Option.some.injEq] at hw; subst hw; exact hlv
    · cases hw
  | cln s =>
    simp only [wfStep] at hw
    split at hw
    · simp only [Option.some.injEq] at hw; subst hw
      simp only
      rw [List.take_append_of_le_length hn]; exact hlv
    · cases hw
  | drp s =>
    simp only [wfStep] at hw
    split at hw
    · split at hw
      · cases hw
      · simp only [Option.some.injEq] at hw; subst hw
        simp only
        rw [List.take_set_of_le (hd s rfl)]; exact hlv
    · cases hw

/-! ### One step of thread `a` -/

def cc_updW (W : Nat → WfSt) (a : Nat) (st : WfSt) : Nat → WfSt := fun t => if t = a then st else W t

theorem cc_feOf_insert (shared : List (Option (Nat × Nat)))
    (fes : AMap Nat (List (Option (Nat × Nat)) × List Nat)) (a : Nat)
    (v : List (Option (Nat × Nat)) × List Nat) (t : Nat) :
    cc_feOf shared (fes.insert a v) t = if t = a then v else cc_feOf shared fes t := by
  unfold cc_feOf
  rw [sd_get_insert]
  split <;> rfl

theorem cc_ginv_step {N : Nat} {filters : List LFilter} {global : Option Nat} {sites : List CallSite}
    {n : Nat} {W : Nat → WfSt} {s1 : ConcSt} {s2 : cc_CLogConc} {a : Nat} {op : POp} {st' : WfSt}
    (h : cc_GInv N filters global sites n W s1 s2) (ha : a < N)
    (hw : wfStep sites (W a) op = some st') (hd : ∀ s, op = .drp s → n ≤ s) :
    cc_GInv N filters global sites n (cc_updW W a st') (s1.step sites a op) (s2.step global sites a op) := by
  -- the two front ends of thread `a`
  have hta := h.tinv a
  have hHa : ∀ id, cc_Htot N n s1.shared s1.fes W id =
      cs_liveCnt (W a).live (cc_feOf s1.shared s1.fes a).1 id + cc_Rest N n s1.shared s1.fes W a id := by
    intro id
    rw [cc_Htot_split ha id, cc_TInv_cnt hta id]
  have hrel : cc_Rel N filters global sites (W a).live (cc_Rest N n s1.shared s1.fes W a)
      { sub := s1.w, handles := (cc_feOf s1.shared s1.fes a).1, registered := (cc_feOf s1.shared s1.fes a).2 }
      { sub := s2.st, handles := (cc_feOf s2.shared s2.fes a).1, registered := (cc_feOf s2.shared s2.fes a).2 } := by
    refine ⟨by rw [h.sh, h.fes], by rw [h.sh, h.fes], hta.len, h.nx, ?_, ?_⟩
    · have : (fun id => cs_liveCnt (W a).live (cc_feOf s1.shared s1.fes a).1 id +
          cc_Rest N n s1.shared s1.fes W a id) = cc_Htot N n s1.shared s1.fes W := by
        funext id; exact (hHa id).symm
      show cc_WInv N filters global sites _ _ (fun id => cs_liveCnt (W a).live (cc_feOf s1.shared s1.fes a).1 id +
          cc_Rest N n s1.shared s1.fes W a id) none s1.w
      rw [this]; exact h.w
    · intro id
      show cs_handles _ id = ((cs_liveCnt (W a).live (cc_feOf s1.shared s1.fes a).1 id +
          cc_Rest N n s1.shared s1.fes W a id : Nat) : Int)
      rw [← hHa id]; exact h.hd id
  have hstep := cc_rel_step ha _ (W a) st' _ _ op hrel hw
  obtain ⟨e1, e2, hf⟩ := hstep
  obtain ⟨extra, hex⟩ := cc_feStep_handles (capSub a) sites
    { sub := s1.w, handles := (cc_feOf s1.shared s1.fes a).1, registered := (cc_feOf s1.shared s1.fes a).2 } op
  rw [cc_conc_step_eq, cc_clog_step_eq]
  generalize hfe1 : feStep (capSub a) sites
    { sub := s1.w, handles := (cc_feOf s1.shared s1.fes a).1, registered := (cc_feOf s1.shared s1.fes a).2 } op = fe1'
    at e1 e2 hf hex
  generalize hfe2 : feStep (cc_clogSub global a) sites
    { sub := s2.st, handles := (cc_feOf s2.shared s2.fes a).1, registered := (cc_feOf s2.shared s2.fes a).2 } op = fe2'
    at e1 e2 hf
  simp only at hex
  -- thread `a` after the step
  have hn : n ≤ (W a).live.length := cc_TInv_le hta
  have hta' : cc_TInv n s1.shared st'.live fe1'.handles := by
    refine ⟨hf.len, cc_wfStep_live hw hd hta.lv hn, ?_⟩
    rw [hex, List.take_append_of_le_length (by rw [← hta.len]; exact hn)]
    exact hta.hd
  have htinv' : ∀ t, cc_TInv n s1.shared (cc_updW W a st' t).live
      (cc_feOf s1.shared (s1.fes.insert a (fe1'.handles, fe1'.registered)) t).1 := by
    intro t
    rw [cc_feOf_insert]
    by_cases hta2 : t = a
    · subst hta2; simp only [cc_updW, if_true]; exact hta'
    · simp only [cc_updW, hta2, if_false]; exact h.tinv t
  have hRest : ∀ id, cc_Rest N n s1.shared (s1.fes.insert a (fe1'.handles, fe1'.registered)) (cc_updW W a st') a id =
      cc_Rest N n s1.shared s1.fes W a id := by
    intro id
    unfold cc_Rest
    apply cc_sumN_congr
    intro t _
    by_cases hta2 : t = a
    · simp [hta2]
    · simp only [hta2, if_false, cc_updW, cc_feOf_insert]
  have hH' : ∀ id, cc_Htot N n s1.shared (s1.fes.insert a (fe1'.handles, fe1'.registered)) (cc_updW W a st') id =
      cs_liveCnt st'.live fe1'.handles id + cc_Rest N n s1.shared s1.fes W a id := by
    intro id
    rw [cc_Htot_split ha id, hRest id]
    have h1 : (cc_feOf s1.shared (s1.fes.insert a (fe1'.handles, fe1'.registered)) a).1 = fe1'.handles := by
      rw [cc_feOf_insert]; simp
    have h2 : (cc_updW W a st' a).live = st'.live := by simp [cc_updW]
    rw [h1, h2, cc_TInv_cnt hta' id]
  refine ⟨h.sh, ?_, hf.nx, htinv', ?_, ?_⟩
  · show s1.fes.insert a _ = s2.fes.insert a _
    rw [h.fes, e1, e2]
  · have : cc_Htot N n s1.shared (s1.fes.insert a (fe1'.handles, fe1'.registered)) (cc_updW W a st') =
        (fun id => cs_liveCnt st'.live fe1'.handles id + cc_Rest N n s1.shared s1.fes W a id) := by
      funext id; exact hH' id
    show cc_WInv N filters global sites _ _
      (cc_Htot N n s1.shared (s1.fes.insert a (fe1'.handles, fe1'.registered)) (cc_updW W a st')) none fe1'.sub
    rw [this]; exact hf.w
  · intro id
    show cs_handles _ id =
      (cc_Htot N n s1.shared (s1.fes.insert a (fe1'.handles, fe1'.registered)) (cc_updW W a st') id : Int)
    rw [hH' id]; exact hf.hd id

/-! ### The schedule -/

theorem cc_dropsShared_cons {n : Nat} {op : POp} {ops : List POp} (h : cc_dropsShared n (op :: ops) = false) :
    (∀ s, op = .drp s → n ≤ s) ∧ cc_dropsShared n ops = false := by
  cases op with
  | drp s =>
    simp only [cc_dropsShared, Bool.or_eq_false_iff, decide_eq_false_iff_not] at h
    refine ⟨?_, h.2⟩
    intro s' hs'
    cases hs'
    omega
  | _ => exact ⟨fun s hs => (by cases hs), h⟩

theorem cc_ginv_sched {N : Nat} {filters : List LFilter} {global : Option Nat} {sites : List CallSite}
    {n : Nat} (sched : List Nat) :
    ∀ (W : Nat → WfSt) (s1 : ConcSt) (s2 : cc_CLogConc) (work : AMap Nat (List POp)),
      cc_GInv N filters global sites n W s1 s2 →
      (∀ t ops, work.get t = some ops →
        t < N ∧ wfFrom sites (W t) ops = true ∧ cc_dropsShared n ops = false) →
      ∃ W', cc_GInv N filters global sites n W' (runSchedule sites s1 work sched)
        (cc_clogSchedule global sites s2 work sched) := by
  induction sched with
  | nil => intro W s1 s2 work h _; exact ⟨W, h⟩
  | cons t sched ih =>
    intro W s1 s2 work h hwork
    cases hg : work.get t with
    | none =>
      simp only [runSchedule, cc_clogSchedule, hg]
      exact ih W s1 s2 work h hwork
    | some ops =>
      cases ops with
      | nil =>
        simp only [runSchedule, cc_clogSchedule, hg]
        exact ih W s1 s2 work h hwork
      | cons op rest =>
        simp only [runSchedule, cc_clogSchedule, hg]
        obtain ⟨htN, hwf, hds⟩ := hwork t _ hg
        simp only [wfFrom] at hwf
        cases hw : wfStep sites (W t) op with
        | none => simp [hw] at hwf
        | some st' =>
          simp only [hw] at hwf
          obtain ⟨hd1, hd2⟩ := cc_dropsShared_cons hds
          apply ih (cc_updW W t st') _ _ _ (cc_ginv_step h htN hw hd1)
          intro t' ops' hg'
          rw [sd_get_insert] at hg'
          by_cases htt : t' = t
          · subst htt
            simp only [if_true, Option.some.injEq] at hg'
            subst hg'
            simp only [cc_updW, if_true]
            exact ⟨htN, hwf, hd2⟩
          · rw [if_neg htt] at hg'
            simp only [cc_updW, htt, if_false]
            exact hwork t' ops' hg'

/-! ### The setup phase -/

theorem cc_init_rel (N : Nat) (filters : List LFilter) (global : Option Nat) (sites : List CallSite) :
    cc_Rel N filters global sites [] (fun _ => 0) { sub := CapWorld.init filters global }
      { sub := ({} : cc_CLogSt) } := by
  refine ⟨rfl, rfl, rfl, rfl, ?_, fun _ => rfl⟩
  refine ⟨rfl, rfl, rfl, by simp [CapWorld.init], cc_CallsOK.nil, rfl, rfl, ?_, ?_⟩
  · refine ⟨fun _ => trivial, fun _ _ => rfl, ?_, ?_, ?_, ?_⟩
    · intro id s h; simp [CapWorld.init, AMap.get] at h
    · intro id s p h; simp [CapWorld.init, AMap.get] at h
    · intro id _; exact ⟨rfl, fun _ => rfl⟩
    · intro id h; cases h
  · intro i hi
    constructor
    · show (List.map (fun _ => ({} : Storage)) filters).getD i {} = _
      rw [cs_getD_eq_getElem _ _ _ (by simpa using hi)]
      simp only [List.getElem_map]
      rfl
    · intro id s h; simp [CapWorld.init, AMap.get] at h

/-- After `j` root spans created by the main thread. -/
theorem cc_setup_rel {N : Nat} (filters : List LFilter) (global : Option Nat) (sites : List CallSite)
    (k : Nat) (hk : k < sites.length) (hN : mainTid < N) (j : Nat) :
    cc_Rel N filters global sites (List.replicate j true) (fun _ => 0)
      (runProg (capSub mainTid) sites { sub := CapWorld.init filters global }
        (List.replicate j (POp.new k .root [])))
      (runProg (cc_clogSub global mainTid) sites { sub := ({} : cc_CLogSt) }
        (List.replicate j (POp.new k .root []))) := by
  induction j with
  | zero => exact cc_init_rel N filters global sites
  | succ j ih =>
    rw [List.replicate_succ' (n := j) (a := POp.new k .root []), List.replicate_succ' (n := j) (a := true)]
    simp only [runProg, List.foldl_append, List.foldl_cons, List.foldl_nil]
    have hw : wfStep sites { spanOf := List.range j, live := List.replicate j true, nSpans := j } (.new k .root []) =
        some { spanOf := List.range j ++ [j], live := List.replicate j true ++ [true], nSpans := j + 1 } := by
      simp [wfStep, WfSt.parentOK, distinctIdx, hk]
    exact cc_rel_step hN _ _ _ _ _ _ ih hw

theorem cc_ginv_setup {N : Nat} (filters : List LFilter) (global : Option Nat) (sites : List CallSite)
    (n k : Nat) (hk : k < sites.length) (hN : mainTid < N) :
    cc_GInv N filters global sites n (fun _ => cc_sharedWf n) (ConcSt.setup filters global sites n k)
      (cc_CLogConc.setup global sites n k) := by
  obtain ⟨e1, _, hf⟩ := cc_setup_rel (N := N) filters global sites k hk hN n
  unfold ConcSt.setup cc_CLogConc.setup
  generalize runProg (capSub mainTid) sites { sub := CapWorld.init filters global }
    (List.replicate n (POp.new k .root [])) = fe1 at e1 hf
  generalize runProg (cc_clogSub global mainTid) sites { sub := ({} : cc_CLogSt) }
    (List.replicate n (POp.new k .root [])) = fe2 at e1 hf
  have hlen : fe1.handles.length = n := by
    have := hf.len
    simp only [List.length_replicate] at this
    exact this.symm
  have hfe : ∀ t, cc_feOf fe1.handles ([] : AMap Nat (List (Option (Nat × Nat)) × List Nat)) t =
      (fe1.handles, []) := fun _ => rfl
  have hH : cc_Htot N n fe1.handles [] (fun _ => cc_sharedWf n) =
      (fun id => cs_liveCnt (List.replicate n true) fe1.handles id + 0) := by
    funext id
    unfold cc_Htot
    congr 1
    apply cc_sumN_eq_zero
    intro t _
    simp only [cc_own, hfe, cc_sharedWf]
    rw [List.drop_of_length_le (by simp)]
    rfl
  refine ⟨e1, rfl, hf.nx, ?_, ?_, ?_⟩
  · intro t
    simp only [hfe, cc_sharedWf]
    exact ⟨by simp [hlen], by simp, List.take_of_length_le (by omega)⟩
  · show cc_WInv N filters global sites _ _ (cc_Htot N n fe1.handles [] (fun _ => cc_sharedWf n)) none fe1.sub
    rw [hH]; exact hf.w
  · intro id
    show cs_handles _ id = (cc_Htot N n fe1.handles [] (fun _ => cc_sharedWf n) id : Int)
    rw [hH]; exact hf.hd id

end TT
