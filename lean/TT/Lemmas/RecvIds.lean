/-
  TT.Lemmas.RecvIds — lookup lemmas for `AMap` / `ASet` and structural facts about the receiver
  model that the host-id discipline proofs (C08) rely on.
-/
import TT.Model.History

namespace TT

namespace AMap
variable {κ α : Type} [DecidableEq κ]

theorem get_insert (m : AMap κ α) (k k' : κ) (v : α) :
    (m.insert k v).get k' = if k = k' then some v else m.get k' := by
  induction m with
  | nil => simp [insert, get]
  | cons p rest ih =>
    obtain ⟨a, b⟩ := p
    by_cases hak : a = k
    · subst hak
      by_cases h : a = k' <;> simp [insert, get, h]
    · by_cases h : a = k'
      · subst h
        have : ¬ k = a := fun e => hak e.symm
        simp [insert, get, hak, this]
      · simp [insert, get, hak, h, ih]

theorem get_erase (m : AMap κ α) (k k' : κ) :
    (m.erase k).get k' = if k = k' then none else m.get k' := by
  induction m with
  | nil => simp [erase, get]
  | cons p rest ih =>
    obtain ⟨a, b⟩ := p
    by_cases hak : a = k
    · subst hak
      by_cases h : a = k'
      · subst h; simpa [erase, get] using ih
      · simp [erase, get, h, ih]
    · by_cases h : a = k'
      · subst h
        have : ¬ k = a := fun e => hak e.symm
        simp [erase, get, hak, this]
      · simp [erase, get, hak, h, ih]

theorem get_erase_self (m : AMap κ α) (k : κ) : (m.erase k).get k = none := by
  simp [get_erase]

theorem get_nil (k : κ) : AMap.get ([] : AMap κ α) k = none := rfl

theorem eq_nil_of_get_none (m : AMap κ α) (h : ∀ k, m.get k = none) : m = [] := by
  cases m with
  | nil => rfl
  | cons p rest =>
    obtain ⟨a, b⟩ := p
    have := h a
    simp [get] at this

end AMap

namespace ASet
variable {κ : Type} [DecidableEq κ]

theorem nodup_insert (s : ASet κ) (k : κ) (h : s.Nodup) : (ASet.insert s k).Nodup := by
  unfold ASet.insert
  split
  · exact h
  · rename_i hk
    rw [List.nodup_append]
    refine ⟨h, by simp, ?_⟩
    intro a ha b hb
    simp at hb
    subst hb
    intro e
    subst e
    exact hk ha

theorem nodup_erase (s : ASet κ) (k : κ) (h : s.Nodup) : (ASet.erase s k).Nodup := by
  unfold ASet.erase
  exact h.filter _

end ASet

end TT
