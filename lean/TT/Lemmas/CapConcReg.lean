/-
  The reference-count invariant of the registry with per-thread span stacks:

    refs(id) = live handles(id) + #{threads with id on their stack} + existing children(id)
               (+ 1 if a release of `id` is pending)

  It is converted to and from the single-stack invariant `cs_RI` of C05, seen from the acting
  thread `a`: the other threads' stack entries are added to the handle count.
-/
import TT.Lemmas.CapConcDefs

namespace TT

/-! ### Sums over thread ids `< N` -/

def cc_sumN (N : Nat) (f : Nat → Nat) : Nat := ((List.range N).map f).sum

theorem cc_sumN_succ (N : Nat) (f : Nat → Nat) : cc_sumN (N + 1) f = cc_sumN N f + f N := by
  simp [cc_sumN, List.range_succ]

theorem cc_sumN_congr (N : Nat) (f f' : Nat → Nat) (h : ∀ t, t < N → f t = f' t) :
    cc_sumN N f = cc_sumN N f' := by
  induction N with
  | zero => rfl
  | succ N ih =>
    rw [cc_sumN_succ, cc_sumN_succ, ih (fun t ht => h t (by omega)), h N (by omega)]

theorem cc_sumN_upd {N a : Nat} (ha : a < N) (f f' : Nat → Nat) (h : ∀ t, t ≠ a → f' t = f t) :
    cc_sumN N f' + f a = cc_sumN N f + f' a := by
  induction N with
  | zero => omega
  | succ N ih =>
    rw [cc_sumN_succ, cc_sumN_succ]
    by_cases haN : a = N
    · subst haN
      rw [cc_sumN_congr a f' f (fun t ht => h t (by omega))]
      omega
    · have := ih (by omega)
      rw [h N (fun h' => haN h'.symm)]
      omega

theorem cc_sumN_zero {N : Nat} {f : Nat → Nat} (h : cc_sumN N f = 0) : ∀ t, t < N → f t = 0 := by
  induction N with
  | zero => intro t ht; omega
  | succ N ih =>
    rw [cc_sumN_succ] at h
    intro t ht
    by_cases htN : t = N
    · subst htN; omega
    · exact ih (by omega) t (by omega)

theorem cc_sumN_eq_zero {N : Nat} {f : Nat → Nat} (h : ∀ t, t < N → f t = 0) : cc_sumN N f = 0 := by
  induction N with
  | zero => rfl
  | succ N ih => rw [cc_sumN_succ, ih (fun t ht => h t (by omega)), h N (by omega)]

theorem cc_sumN_add (N : Nat) (f g : Nat → Nat) :
    cc_sumN N (fun t => f t + g t) = cc_sumN N f + cc_sumN N g := by
  induction N with
  | zero => rfl
  | succ N ih => rw [cc_sumN_succ, cc_sumN_succ, cc_sumN_succ, ih]; omega

/-! ### Per-thread stacks as a function -/

def cc_updS (S : Nat → List (Nat × Bool)) (a : Nat) (stk : List (Nat × Bool)) : Nat → List (Nat × Bool) :=
  fun t => if t = a then stk else S t

theorem cc_updS_same (S : Nat → List (Nat × Bool)) (a : Nat) (stk : List (Nat × Bool)) :
    cc_updS S a stk a = stk := by simp [cc_updS]

theorem cc_updS_ne (S : Nat → List (Nat × Bool)) (a : Nat) (stk : List (Nat × Bool)) {t : Nat}
    (h : t ≠ a) : cc_updS S a stk t = S t := by simp [cc_updS, h]

theorem cc_updS_self (S : Nat → List (Nat × Bool)) (a : Nat) : cc_updS S a (S a) = S := by
  funext t
  by_cases h : t = a
  · subst h; simp [cc_updS]
  · simp [cc_updS, h]

def cc_stkCnt (N : Nat) (S : Nat → List (Nat × Bool)) (id : Nat) : Nat :=
  cc_sumN N (fun t => if cs_onStack (S t) id then 1 else 0)

theorem cc_stkCnt_upd {N a : Nat} (ha : a < N) (S : Nat → List (Nat × Bool)) (stk : List (Nat × Bool))
    (id : Nat) :
    cc_stkCnt N (cc_updS S a stk) id =
      (if cs_onStack stk id then 1 else 0) + cc_stkCnt N (cc_updS S a []) id := by
  have := cc_sumN_upd ha (fun t => if cs_onStack (cc_updS S a stk t) id then 1 else 0)
    (fun t => if cs_onStack (cc_updS S a [] t) id then 1 else 0)
    (by intro t ht; simp only [cc_updS_ne _ _ _ ht])
  simp only [cc_updS_same] at this
  have h0 : cs_onStack [] id = false := rfl
  rw [h0] at this
  simp only [Bool.false_eq_true, if_false, Nat.add_zero] at this
  unfold cc_stkCnt
  omega

theorem cc_stkCnt_split {N a : Nat} (ha : a < N) (S : Nat → List (Nat × Bool)) (id : Nat) :
    cc_stkCnt N S id = (if cs_onStack (S a) id then 1 else 0) + cc_stkCnt N (cc_updS S a []) id := by
  have := cc_stkCnt_upd ha S (S a) id
  rw [cc_updS_self] at this
  exact this

/-- The handle count as seen from thread `a`: the other threads' stack entries are added. -/
def cc_Hx (N : Nat) (S : Nat → List (Nat × Bool)) (a : Nat) (H : Nat → Nat) : Nat → Nat :=
  fun id => H id + cc_stkCnt N (cc_updS S a []) id

theorem cc_Hx_updS (N : Nat) (S : Nat → List (Nat × Bool)) (a : Nat) (stk : List (Nat × Bool))
    (H : Nat → Nat) : cc_Hx N (cc_updS S a stk) a H = cc_Hx N S a H := by
  funext id
  unfold cc_Hx
  congr 2
  funext t
  by_cases h : t = a <;> simp [cc_updS, h]

/-! ### The invariant -/

structure cc_RI (N : Nat) (S : Nat → List (Nat × Bool)) (next : Nat) (g : Nat → Option RegSpan)
    (par : AMap Nat (Option Nat)) (H : Nat → Nat) (x : Option Nat) : Prop where
  sok : ∀ t, cs_StackOK (S t)
  out : ∀ t, N ≤ t → S t = []
  ex : ∀ id s, g id = some s → 1 ≤ id ∧ id < next ∧ s.parent = (par.get id).join ∧ 1 ≤ s.refs ∧
    s.refs = H id + cc_stkCnt N S id + cs_childCnt next g id + (if x = some id then 1 else 0)
  pr : ∀ id s p, g id = some s → s.parent = some p → p < id ∧ (g p).isSome
  nex : ∀ id, g id = none → H id = 0 ∧ ∀ t, cs_onStack (S t) id = false
  pend : ∀ id, x = some id → (g id).isSome

theorem cc_RI_lt {N S next g par H x} (h : cc_RI N S next g par H x) {id : Nat}
    (hid : next ≤ id) : g id = none := by
  cases hg : g id with
  | none => rfl
  | some s => have := (h.ex id s hg).2.1; omega

/-- The invariant seen from thread `a`. -/
theorem cc_RI_to {N S next g par H x} (h : cc_RI N S next g par H x) {a : Nat} (ha : a < N) :
    cs_RI (S a) next g par (cc_Hx N S a H) x := by
  refine ⟨h.sok a, ?_, h.pr, ?_, h.pend⟩
  · intro id s hs
    obtain ⟨h1, h2, h3, h4, h5⟩ := h.ex id s hs
    refine ⟨h1, h2, h3, h4, ?_⟩
    rw [cc_stkCnt_split ha] at h5
    unfold cc_Hx
    omega
  · intro id hid
    obtain ⟨h1, h2⟩ := h.nex id hid
    refine ⟨?_, h2 a⟩
    unfold cc_Hx
    rw [h1]
    simp only [Nat.zero_add]
    apply cc_sumN_eq_zero
    intro t _
    by_cases hta : t = a
    · subst hta; simp [cc_updS, cs_onStack]
    · rw [cc_updS_ne _ _ _ hta, h2 t]; rfl

/-- Back from the view of thread `a`, whose stack has become `stk'`. -/
theorem cc_RI_from {N S next' g' par' H' x'} {a : Nat} {stk' : List (Nat × Bool)}
    (hsok : ∀ t, t ≠ a → cs_StackOK (S t)) (hout : ∀ t, N ≤ t → S t = []) (ha : a < N)
    (h : cs_RI stk' next' g' par' (cc_Hx N S a H') x') :
    cc_RI N (cc_updS S a stk') next' g' par' H' x' := by
  refine ⟨?_, ?_, ?_, h.pr, ?_, h.pend⟩
  · intro t
    by_cases hta : t = a
    · subst hta; rw [cc_updS_same]; exact h.sok
    · rw [cc_updS_ne _ _ _ hta]; exact hsok t hta
  · intro t ht
    have hta : t ≠ a := by omega
    rw [cc_updS_ne _ _ _ hta]; exact hout t ht
  · intro id s hs
    obtain ⟨h1, h2, h3, h4, h5⟩ := h.ex id s hs
    refine ⟨h1, h2, h3, h4, ?_⟩
    rw [cc_stkCnt_upd ha]
    unfold cc_Hx at h5
    omega
  · intro id hid
    obtain ⟨h1, h2⟩ := h.nex id hid
    unfold cc_Hx at h1
    have hH : H' id = 0 := by omega
    have hc : cc_stkCnt N (cc_updS S a []) id = 0 := by omega
    refine ⟨hH, ?_⟩
    intro t
    by_cases hta : t = a
    · subst hta; rw [cc_updS_same]; exact h2
    · rw [cc_updS_ne _ _ _ hta]
      rcases Nat.lt_or_ge t N with htN | htN
      · have := cc_sumN_zero hc t htN
        simp only [cc_updS_ne _ _ _ hta] at this
        cases hb : cs_onStack (S t) id with
        | false => rfl
        | true => rw [hb] at this; simp at this
      · rw [hout t htN]; rfl

/-- One registry step of thread `a`, performed on its single-stack view. -/
theorem cc_RI_lift {N S next g par H x next' g' par' H' x'} {a : Nat} {stk' : List (Nat × Bool)}
    (h : cc_RI N S next g par H x) (ha : a < N)
    (h' : cs_RI stk' next' g' par' (cc_Hx N S a H') x') :
    cc_RI N (cc_updS S a stk') next' g' par' H' x' :=
  cc_RI_from (fun t _ => h.sok t) h.out ha h'

/-- The same with the stack unchanged. -/
theorem cc_RI_lift_same {N S next g par H x next' g' par' H' x'} {a : Nat}
    (h : cc_RI N S next g par H x) (ha : a < N)
    (h' : cs_RI (S a) next' g' par' (cc_Hx N S a H') x') :
    cc_RI N S next' g' par' H' x' := by
  have := cc_RI_lift h ha h'
  rw [cc_updS_self] at this
  exact this

end TT
