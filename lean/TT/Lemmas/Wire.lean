/-
  Helper lemmas for C11: wire encoding round-trips and shape conformance.
-/
import TT.Model.Wire
import TT.Lemmas.Values

namespace TT

/-! ### Insertion of fresh keys appends -/

theorem TVals.insert_fresh (vs : TVals) (k : Str) (v : TVal) (h : k ∉ TVals.names vs) :
    (vs.insert k v).1 = vs ++ [(k, v)] := by
  induction vs with
  | nil => rfl
  | cons e rest ih =>
    obtain ⟨k', v'⟩ := e
    simp only [TVals.names, List.map_cons, List.mem_cons, not_or] at h
    have hne : ¬ k' = k := fun h' => h.1 h'.symm
    rw [TVals.insert_cons, if_neg hne]
    simp only [List.cons_append]
    rw [ih (by simpa [TVals.names] using h.2)]

theorem TVals.extend_fresh (acc vs : TVals) (h : (TVals.names (acc ++ vs)).Nodup) :
    TVals.extend acc vs = acc ++ vs := by
  induction vs generalizing acc with
  | nil => simp [TVals.extend_nil]
  | cons kv vs ih =>
    obtain ⟨k, v⟩ := kv
    have hk : k ∉ TVals.names acc := by
      simp only [TVals.names, List.map_append, List.map_cons] at h
      rw [List.nodup_append] at h
      intro hmem
      exact h.2.2 k (by simpa [TVals.names] using hmem) k (by simp) rfl
    rw [TVals.extend_cons, TVals.insert_fresh acc k v hk, ih]
    · simp
    · simpa using h

theorem TVals.ofList_nodup (vs : TVals) (h : (TVals.names vs).Nodup) : TVals.ofList vs = vs := by
  have := TVals.extend_fresh [] vs (by simpa using h)
  simpa [TVals.ofList] using this

theorem AMap.insert_fresh {α : Type} (m : AMap Nat α) (k : Nat) (v : α) (h : k ∉ m.map (·.1)) :
    AMap.insert m k v = m ++ [(k, v)] := by
  induction m with
  | nil => rfl
  | cons e rest ih =>
    obtain ⟨k', v'⟩ := e
    simp only [List.map_cons, List.mem_cons, not_or] at h
    have hne : ¬ k' = k := fun h' => h.1 h'.symm
    simp only [AMap.insert, if_neg hne, List.cons_append]
    rw [ih h.2]

theorem AMap.foldl_insert_fresh {α : Type} (acc m : AMap Nat α) (h : ((acc ++ m).map (·.1)).Nodup) :
    m.foldl (fun a kv => AMap.insert a kv.1 kv.2) acc = acc ++ m := by
  induction m generalizing acc with
  | nil => simp
  | cons kv m ih =>
    obtain ⟨k, v⟩ := kv
    have hk : k ∉ acc.map (·.1) := by
      simp only [List.map_append, List.map_cons] at h
      rw [List.nodup_append] at h
      intro hmem
      exact h.2.2 k hmem k (by simp) rfl
    rw [List.foldl_cons, AMap.insert_fresh acc k v hk, ih]
    · simp
    · simpa using h

theorem AMap.foldl_insert_nodup {α : Type} (m : AMap Nat α) (h : (m.map (·.1)).Nodup) :
    m.foldl (fun a kv => AMap.insert a kv.1 kv.2) [] = m := by
  have := AMap.foldl_insert_fresh [] m (by simpa using h)
  simpa using this

/-! ### Fuel bounds -/

/-- The step function of `valsFuel`. -/
def fuelStep (acc : Nat) (kv : Str × TVal) : Nat :=
  match kv.2 with | .err _ ss => max acc (ss.length + 2) | _ => acc

theorem valsFuel_eq (vs : TVals) : valsFuel vs = vs.foldl fuelStep 2 := rfl

theorem fuelStep_ge (a : Nat) (kv : Str × TVal) : a ≤ fuelStep a kv := by
  unfold fuelStep; split <;> omega

theorem fuelStep_mono {a b : Nat} (h : a ≤ b) (kv : Str × TVal) : fuelStep a kv ≤ fuelStep b kv := by
  unfold fuelStep; split <;> omega

theorem foldl_fuelStep_ge (vs : TVals) (a : Nat) : a ≤ vs.foldl fuelStep a := by
  induction vs generalizing a with
  | nil => exact Nat.le_refl _
  | cons kv vs ih => exact Nat.le_trans (fuelStep_ge a kv) (ih _)

theorem foldl_fuelStep_mono (vs : TVals) {a b : Nat} (h : a ≤ b) :
    vs.foldl fuelStep a ≤ vs.foldl fuelStep b := by
  induction vs generalizing a b with
  | nil => exact h
  | cons kv vs ih => exact ih (fuelStep_mono h kv)

theorem foldl_fuelStep_mem (vs : TVals) (a : Nat) (k m : Str) (ss : List Str)
    (h : (k, TVal.err m ss) ∈ vs) : ss.length + 2 ≤ vs.foldl fuelStep a := by
  induction vs generalizing a with
  | nil => cases h
  | cons kv vs ih =>
    rw [List.foldl_cons]
    rcases List.mem_cons.mp h with h | h
    · subst h
      refine Nat.le_trans ?_ (foldl_fuelStep_ge vs _)
      simp only [fuelStep]; omega
    · exact ih _ h

/-- Every error chain in the collection fits in `fuel`. -/
def FuelOk (fuel : Nat) (v : TVal) : Prop := ∀ m ss, v = .err m ss → ss.length + 1 ≤ fuel

theorem fuelOk_of_valsFuel (vs : TVals) (fuel : Nat) (hf : valsFuel vs ≤ fuel) :
    ∀ kv ∈ vs, FuelOk fuel kv.2 := by
  intro kv hkv m ss he
  obtain ⟨k, v⟩ := kv
  simp only at he; subst he
  have := foldl_fuelStep_mem vs 2 k m ss hkv
  rw [valsFuel_eq] at hf
  omega

theorem valsFuel_two_le (vs : TVals) : 2 ≤ valsFuel vs := foldl_fuelStep_ge vs 2

/-! ### Errors and single values -/

theorem encodeErr_obj (m : Str) (ss : List Str) : ∃ kvs, encodeErr m ss = .obj kvs := by
  cases ss <;> exact ⟨_, rfl⟩

theorem decodeErr_encodeErr (ss : List Str) :
    ∀ (m : Str) (fuel : Nat), ss.length + 1 ≤ fuel → decodeErr fuel (encodeErr m ss) = some (m, ss) := by
  induction ss with
  | nil =>
    intro m fuel hf
    obtain ⟨n, rfl⟩ : ∃ n, fuel = n + 1 := ⟨fuel - 1, by simp at hf; omega⟩
    simp [encodeErr, decodeErr, Json.keysNodup, Json.lookup, Json.asStr, K.message, K.source]
  | cons s ss ih =>
    intro m fuel hf
    obtain ⟨n, rfl⟩ : ∃ n, fuel = n + 1 := ⟨fuel - 1, by simp at hf; omega⟩
    have ih' := ih s n (by simp at hf; omega)
    obtain ⟨kvs, hk⟩ := encodeErr_obj s ss
    simp only [encodeErr]
    rw [hk] at ih' ⊢
    simp [decodeErr, Json.keysNodup, Json.lookup, Json.asStr, K.message, K.source, ih']

theorem conformsErr_encodeErr (ss : List Str) :
    ∀ (m : Str) (fuel : Nat), ss.length + 1 ≤ fuel → conformsErr fuel (encodeErr m ss) = true := by
  induction ss with
  | nil =>
    intro m fuel hf
    obtain ⟨n, rfl⟩ : ∃ n, fuel = n + 1 := ⟨fuel - 1, by simp at hf; omega⟩
    simp [encodeErr, conformsErr]
  | cons s ss ih =>
    intro m fuel hf
    obtain ⟨n, rfl⟩ : ∃ n, fuel = n + 1 := ⟨fuel - 1, by simp at hf; omega⟩
    have ih' := ih s n (by simp at hf; omega)
    obtain ⟨kvs, hk⟩ := encodeErr_obj s ss
    simp only [encodeErr]
    rw [hk] at ih' ⊢
    simp [conformsErr, ih']

theorem decodeVal_encodeVal (v : TVal) (h : v.WF = true) (fuel : Nat) (hf : FuelOk fuel v) :
    decodeVal fuel (encodeVal v) = some v := by
  cases v with
  | bool b => simp [encodeVal, decodeVal]
  | int i =>
    simp only [TVal.WF] at h
    simp [encodeVal, decodeVal, K.int, K.bool, h]
  | uint n =>
    simp only [TVal.WF] at h
    simp [encodeVal, decodeVal, K.int, K.bool, K.uInt, h]
  | float b => simp [encodeVal, decodeVal, K.int, K.bool, K.uInt, K.float]
  | str s => simp [encodeVal, decodeVal, K.int, K.bool, K.uInt, K.float, K.string]
  | obj s => simp [encodeVal, decodeVal, K.int, K.bool, K.uInt, K.float, K.string, K.object]
  | err m ss =>
    have := decodeErr_encodeErr ss m fuel (hf m ss rfl)
    simp [encodeVal, decodeVal, K.int, K.bool, K.uInt, K.float, K.string, K.object, K.error, this]

theorem conformsVal_encodeVal (v : TVal) (h : v.WF = true) (fuel : Nat) (hf : FuelOk fuel v) :
    conformsVal fuel (encodeVal v) = true := by
  cases v with
  | bool b => simp [encodeVal, conformsVal]
  | int i =>
    simp only [TVal.WF] at h
    simp [encodeVal, conformsVal, K.int, K.bool, h]
  | uint n =>
    simp only [TVal.WF] at h
    simp [encodeVal, conformsVal, K.int, K.bool, K.uInt, h]
  | float b => simp [encodeVal, conformsVal, K.int, K.bool, K.uInt, K.float]
  | str s => simp [encodeVal, conformsVal, K.int, K.bool, K.uInt, K.float, K.string]
  | obj s => simp [encodeVal, conformsVal, K.int, K.bool, K.uInt, K.float, K.string, K.object]
  | err m ss =>
    have := conformsErr_encodeErr ss m fuel (hf m ss rfl)
    simp [encodeVal, conformsVal, K.int, K.bool, K.uInt, K.float, K.string, K.object, K.error, this]

/-! ### Value collections -/

theorem decodeValsAux_encode (es : List (Str × TVal)) (fuel : Nat)
    (h : ∀ kv ∈ es, kv.2.WF = true) (hf : ∀ kv ∈ es, FuelOk fuel kv.2) :
    decodeValsAux fuel (es.map fun kv => (kv.1, encodeVal kv.2)) = some es := by
  induction es with
  | nil => rfl
  | cons kv es ih =>
    obtain ⟨k, v⟩ := kv
    have h1 := decodeVal_encodeVal v (h (k, v) (by simp)) fuel (hf (k, v) (by simp))
    have h2 := ih (fun kv hkv => h kv (List.mem_cons_of_mem _ hkv))
      (fun kv hkv => hf kv (List.mem_cons_of_mem _ hkv))
    simp only [List.map_cons, decodeValsAux, h1, h2]

theorem decodeVals_encode_ofList (es : List (Str × TVal)) (h : ∀ kv ∈ es, kv.2.WF = true)
    (fuel : Nat) (hf : valsFuel es ≤ fuel) :
    decodeVals fuel (.obj (es.map fun kv => (kv.1, encodeVal kv.2))) = some (TVals.ofList es) := by
  simp only [decodeVals, decodeValsAux_encode es fuel h (fuelOk_of_valsFuel es fuel hf), Option.map_some]

theorem decodeVals_encodeVals (vs : TVals) (hn : (TVals.names vs).Nodup)
    (h : ∀ kv ∈ vs, kv.2.WF = true) (fuel : Nat) (hf : valsFuel vs ≤ fuel) :
    decodeVals fuel (encodeVals vs) = some vs := by
  have := decodeVals_encode_ofList vs h fuel hf
  rw [TVals.ofList_nodup vs hn] at this
  exact this

theorem conformsVals_encodeVals (vs : TVals) (h : ∀ kv ∈ vs, kv.2.WF = true) (fuel : Nat)
    (hf : valsFuel vs ≤ fuel) : conformsVals fuel (encodeVals vs) = true := by
  simp only [encodeVals, conformsVals, List.all_map, List.all_eq_true]
  intro kv hkv
  exact conformsVal_encodeVal kv.2 (h kv hkv) fuel (fuelOk_of_valsFuel vs fuel hf kv hkv)

/-! ### Call sites -/

theorem Level.ofKey_key (l : Level) : Level.ofKey l.key = some l := by cases l <;> decide

theorem Kind.ofKey_key (k : Kind) : Kind.ofKey k.key = some k := by cases k <;> decide

theorem decodeStrs_map (fs : List Str) : decodeStrs (fs.map .str) = some fs := by
  induction fs with
  | nil => rfl
  | cons f fs ih => simp only [List.map_cons, decodeStrs, Json.asStr, ih]

theorem asU64_num (n : Nat) (h : n < 2^64) : Json.asU64 (.num (n : Int)) = some n := by
  simp [Json.asU64, Json.asNat, h]

theorem asU32_num (n : Nat) (h : n < 2^32) : Json.asU32 (.num (n : Int)) = some n := by
  simp [Json.asU32, Json.asNat, h]

theorem isU64_num (n : Nat) (h : n < 2^64) : isU64 (.num (n : Int)) = true := by
  simp [isU64, h]

theorem isU32J_num (n : Nat) (h : n < 2^32) : isU32J (.num (n : Int)) = true := by
  simp [isU32J, h]

theorem isLevelJ_key (l : Level) : isLevelJ (.str l.key) = true := by
  simp [isLevelJ, Level.ofKey_key]

theorem isKindJ_key (k : Kind) : isKindJ (.str k.key) = true := by
  simp [isKindJ, Kind.ofKey_key]

theorem isStrArrJ_map (fs : List Str) : isStrArrJ (.arr (fs.map .str)) = true := by
  simp [isStrArrJ, List.all_map, isStrJ]

theorem keysNodup_callSite (id : Json) (c : CallSite) :
    Json.keysNodup ((K.id, id) :: encodeCallSiteFields c) = true := by
  obtain ⟨kind, name, target, level, mp, file, line, fields⟩ := c
  cases mp <;> cases file <;> cases line <;>
    simp [Json.keysNodup, encodeCallSiteFields, optField,
      K.kind, K.name, K.target, K.level, K.modulePath, K.file, K.line, K.fields, K.id]

theorem keysNodup_callSite' (c : CallSite) :
    Json.keysNodup (encodeCallSiteFields c) = true := by
  obtain ⟨kind, name, target, level, mp, file, line, fields⟩ := c
  cases mp <;> cases file <;> cases line <;>
    simp [Json.keysNodup, encodeCallSiteFields, optField,
      K.kind, K.name, K.target, K.level, K.modulePath, K.file, K.line, K.fields]

theorem decodeCallSiteFields_encode (c : CallSite) (h : ∀ l, c.line = some l → l < 2^32) :
    decodeCallSiteFields (encodeCallSiteFields c) = some c := by
  obtain ⟨kind, name, target, level, mp, file, line, fields⟩ := c
  cases mp <;> cases file <;> cases line <;>
    simp [decodeCallSiteFields, encodeCallSiteFields, optField, Json.lookup, Json.asStr, decodeOpt,
      Level.ofKey_key, Kind.ofKey_key, decodeStrs_map, asU32_num, h,
      K.kind, K.name, K.target, K.level, K.modulePath, K.file, K.line, K.fields]

theorem decodeCallSiteFields_encode_id (id : Json) (c : CallSite) (h : ∀ l, c.line = some l → l < 2^32) :
    decodeCallSiteFields ((K.id, id) :: encodeCallSiteFields c) = some c := by
  obtain ⟨kind, name, target, level, mp, file, line, fields⟩ := c
  cases mp <;> cases file <;> cases line <;>
    simp [decodeCallSiteFields, encodeCallSiteFields, optField, Json.lookup, Json.asStr, decodeOpt,
      Level.ofKey_key, Kind.ofKey_key, decodeStrs_map, asU32_num, h,
      K.kind, K.name, K.target, K.level, K.modulePath, K.file, K.line, K.fields, K.id]

theorem conformsFields_callSite (c : CallSite) (h : ∀ l, c.line = some l → l < 2^32) :
    conformsFields callSiteSpec (encodeCallSiteFields c) = true := by
  obtain ⟨kind, name, target, level, mp, file, line, fields⟩ := c
  cases mp <;> cases file <;> cases line <;>
    simp [conformsFields, callSiteSpec, encodeCallSiteFields, optField, isStrJ, isLevelJ_key, isKindJ_key,
      isStrArrJ_map, isU32J_num, h,
      K.kind, K.name, K.target, K.level, K.modulePath, K.file, K.line, K.fields]

theorem conformsFields_callSite_id (id : Nat) (hid : id < 2^64) (c : CallSite)
    (h : ∀ l, c.line = some l → l < 2^32) :
    conformsFields ((K.id, true, isU64) :: callSiteSpec) ((K.id, .num id) :: encodeCallSiteFields c) = true := by
  simp [conformsFields, isU64_num id hid, conformsFields_callSite c h]

theorem decodeCallSite_encode (c : CallSite) (h : ∀ l, c.line = some l → l < 2^32) :
    decodeCallSite (encodeCallSite c) = some c := by
  simp [decodeCallSite, encodeCallSite, keysNodup_callSite', decodeCallSiteFields_encode c h]

/-! ### Maps keyed by numbers -/

theorem decodeMapN_encode {α : Type} (f : Json → Option α) (enc : α → Json) (m : AMap Nat α)
    (h : ∀ kv ∈ m, kv.1 < 2^64 ∧ f (enc kv.2) = some kv.2) :
    decodeMapN f (m.map fun kv => (kv.1, enc kv.2)) = some m := by
  induction m with
  | nil => rfl
  | cons kv m ih =>
    obtain ⟨k, v⟩ := kv
    have h1 := h (k, v) (by simp)
    have h2 := ih (fun kv hkv => h kv (List.mem_cons_of_mem _ hkv))
    simp only [List.map_cons, decodeMapN, h1.2, h2, if_pos h1.1]

/-! ### Span data -/

theorem decodeSpanData_encode (mt : Nat) (p : Option Nat) (rc : Nat) (vs : TVals)
    (hm : mt < 2^64) (hp : ∀ n, p = some n → n < 2^64) (hrc : rc < 2^64)
    (hn : (TVals.names vs).Nodup) (hv : ∀ kv ∈ vs, kv.2.WF = true)
    (fuel : Nat) (hf : valsFuel vs ≤ fuel) :
    decodeSpanData fuel (encodeSpanData ⟨mt, p, rc, vs⟩) = some ⟨mt, p, rc, vs⟩ := by
  have hvs := decodeVals_encodeVals vs hn hv fuel hf
  cases p <;>
    simp [decodeSpanData, encodeSpanData, optField, Json.keysNodup, Json.lookup, decodeOpt,
      asU64_num, hm, hrc, hp, hvs, K.metadataId, K.parentId, K.refCount, K.values]

theorem conformsSpanData_encode (mt : Nat) (p : Option Nat) (rc : Nat) (vs : TVals)
    (hm : mt < 2^64) (hp : ∀ n, p = some n → n < 2^64) (hrc : rc < 2^64)
    (hv : ∀ kv ∈ vs, kv.2.WF = true)
    (fuel : Nat) (hf : valsFuel vs ≤ fuel) :
    (match encodeSpanData ⟨mt, p, rc, vs⟩ with
      | .obj fs => conformsFields
          [(K.metadataId, true, isU64), (K.parentId, false, isU64), (K.refCount, true, isU64),
           (K.values, true, conformsVals fuel)] fs
      | _ => false) = true := by
  have hvs := conformsVals_encodeVals vs hv fuel hf
  cases p <;>
    simp [encodeSpanData, conformsFields, optField, isU64_num, hm, hrc, hp, hvs,
      K.metadataId, K.parentId, K.refCount, K.values]

end TT
