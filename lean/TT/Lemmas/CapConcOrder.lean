/-
  C19_thread_order: the (id-erased) calls of one thread in an interleaved run depend only on the
  thread's own program, provided the schedule lets the thread finish.

  The calls a thread emits for an operation depend only on the *shape* of its handle table (which
  entries are `none`, and the call-site index behind each handle), on its `registered` list and on
  `global`/`sites`.  `cc_ord_shStep` is this pure "shape machine"; `cc_ord_feStep_*` show that
  `feStep` under the logging subscriber follows it; `cc_ord_sched` is the induction on the schedule.
-/
import TT.Lemmas.CapConcDefs

namespace TT

/-! ### Shapes and the per-thread view of the log -/

def cc_ord_shape (h : List (Option (Nat × Nat))) : List (Option Nat) := h.map (Option.map (·.2))

theorem cc_ord_shape_get (h : List (Option (Nat × Nat))) (s : Nat) :
    ((cc_ord_shape h)[s]?).join = ((h[s]?).join).map (·.2) := by
  simp only [cc_ord_shape, List.getElem?_map]
  cases h[s]? with
  | none => rfl
  | some o => cases o <;> rfl

theorem cc_ord_shape_append (h : List (Option (Nat × Nat))) (x : Option (Nat × Nat)) :
    cc_ord_shape (h ++ [x]) = cc_ord_shape h ++ [x.map (·.2)] := by
  simp [cc_ord_shape]

def cc_ord_view (t : Nat) (l : List (Nat × SubCall)) : List SubCall :=
  (l.filter (·.1 == t)).map (fun c => cc_eraseIds c.2)

theorem cc_ord_view_cons_eq (t : Nat) (c : SubCall) (l : List (Nat × SubCall)) :
    cc_ord_view t ((t, c) :: l) = cc_eraseIds c :: cc_ord_view t l := by
  simp [cc_ord_view]

theorem cc_ord_view_cons_ne {tid t : Nat} (h : tid ≠ t) (c : SubCall) (l : List (Nat × SubCall)) :
    cc_ord_view t ((tid, c) :: l) = cc_ord_view t l := by
  simp [cc_ord_view, h]

/-! ### The shape machine -/

def cc_ord_shReg (sites : List CallSite) (reg : List Nat) (k : Nat) : List SubCall × List Nat :=
  if reg.contains k then ([], reg) else ([.register k (sites.getD k default)], reg ++ [k])

/-- Erased calls (newest first), new shape, new registered list. -/
def cc_ord_shStep (global : Option Nat) (sites : List CallSite) (sh : List (Option Nat)) (reg : List Nat) :
    POp → List SubCall × List (Option Nat) × List Nat
  | .reg k => ([.register k (sites.getD k default)], sh, if reg.contains k then reg else reg ++ [k])
  | .new k _ vals =>
    if levelEnabled global (sites.getD k default) then
      (.newSpan 0 k .ctx (fieldsOf (sites.getD k default) vals) :: (cc_ord_shReg sites reg k).1,
        sh ++ [some k], (cc_ord_shReg sites reg k).2)
    else ((cc_ord_shReg sites reg k).1, sh ++ [none], (cc_ord_shReg sites reg k).2)
  | .record s vals =>
    match (sh[s]?).join with
    | some k => ([.record 0 (fieldsOf (sites.getD k default) vals)], sh, reg)
    | none => ([], sh, reg)
  | .fol s t =>
    match (sh[s]?).join, (sh[t]?).join with
    | some _, some _ => ([.follows 0 0], sh, reg)
    | _, _ => ([], sh, reg)
  | .ent s => match (sh[s]?).join with | some _ => ([.enter 0], sh, reg) | none => ([], sh, reg)
  | .ext s => match (sh[s]?).join with | some _ => ([.exit 0], sh, reg) | none => ([], sh, reg)
  | .cln s =>
    match (sh[s]?).join with
    | some k => ([.clone 0], sh ++ [some k], reg)
    | none => ([], sh ++ [none], reg)
  | .drp s => match (sh[s]?).join with | some _ => ([.tryClose 0], sh, reg) | none => ([], sh, reg)
  | .evt k _ vals =>
    if levelEnabled global (sites.getD k default) then
      (.event k .ctx (fieldsOf (sites.getD k default) vals) :: (cc_ord_shReg sites reg k).1,
        sh, (cc_ord_shReg sites reg k).2)
    else ((cc_ord_shReg sites reg k).1, sh, (cc_ord_shReg sites reg k).2)

def cc_ord_shRun (global : Option Nat) (sites : List CallSite) :
    List (Option Nat) → List Nat → List POp → List SubCall
  | _, _, [] => []
  | sh, reg, op :: ops =>
    cc_ord_shRun global sites (cc_ord_shStep global sites sh reg op).2.1
      (cc_ord_shStep global sites sh reg op).2.2 ops ++ (cc_ord_shStep global sites sh reg op).1

/-! ### `feStep` follows the shape machine -/

theorem cc_ord_ensure (global : Option Nat) (sites : List CallSite) (tid t : Nat)
    (fe : FE cc_CLogSt) (k : Nat) :
    cc_ord_view t (ensureRegistered (cc_clogSub global tid) sites fe k).sub.calls
        = (if tid = t then (cc_ord_shReg sites fe.registered k).1 else []) ++ cc_ord_view t fe.sub.calls
      ∧ (ensureRegistered (cc_clogSub global tid) sites fe k).handles = fe.handles
      ∧ (ensureRegistered (cc_clogSub global tid) sites fe k).registered
          = (cc_ord_shReg sites fe.registered k).2 := by
  unfold ensureRegistered cc_ord_shReg
  by_cases hc : fe.registered.contains k = true
  · refine ⟨?_, ?_, ?_⟩
    · rw [if_pos hc, if_pos hc]
      by_cases ht : tid = t <;> simp [ht]
    · rw [if_pos hc]
    · rw [if_pos hc, if_pos hc]
  · refine ⟨?_, ?_, ?_⟩
    · rw [if_neg hc, if_neg hc]
      by_cases ht : tid = t
      · subst ht
        simp [cc_clogSub, cc_ord_view_cons_eq, cc_eraseIds]
      · simp [cc_clogSub, cc_ord_view_cons_ne ht, ht]
    · rw [if_neg hc]
    · rw [if_neg hc, if_neg hc]

theorem cc_ord_feStep (global : Option Nat) (sites : List CallSite) (tid t : Nat)
    (fe : FE cc_CLogSt) (op : POp) :
    cc_ord_view t (feStep (cc_clogSub global tid) sites fe op).sub.calls
        = (if tid = t then (cc_ord_shStep global sites (cc_ord_shape fe.handles) fe.registered op).1 else [])
            ++ cc_ord_view t fe.sub.calls
      ∧ cc_ord_shape (feStep (cc_clogSub global tid) sites fe op).handles
          = (cc_ord_shStep global sites (cc_ord_shape fe.handles) fe.registered op).2.1
      ∧ (feStep (cc_clogSub global tid) sites fe op).registered
          = (cc_ord_shStep global sites (cc_ord_shape fe.handles) fe.registered op).2.2 := by
  cases op with
  | reg k =>
    refine ⟨?_, rfl, rfl⟩
    by_cases ht : tid = t
    · subst ht
      simp [feStep, cc_ord_shStep, cc_clogSub, cc_ord_view_cons_eq, cc_eraseIds]
    · simp [feStep, cc_clogSub, cc_ord_view_cons_ne ht, ht]
  | new k p vals =>
    obtain ⟨h1, h2, h3⟩ := cc_ord_ensure global sites tid t fe k
    simp only [feStep, cc_ord_shStep]
    have he : (cc_clogSub global tid).enabled (ensureRegistered (cc_clogSub global tid) sites fe k).sub
        (sites.getD k default) = levelEnabled global (sites.getD k default) := rfl
    rw [he]
    by_cases hen : levelEnabled global (sites.getD k default) = true
    · simp only [if_pos hen]
      refine ⟨?_, ?_, h3⟩
      · by_cases ht : tid = t
        · subst ht
          simp only [if_true] at h1 ⊢
          simp only [cc_clogSub, cc_ord_view_cons_eq, cc_eraseIds]
          simp only [cc_clogSub] at h1
          rw [h1]; rfl
        · simp only [if_neg ht] at h1 ⊢
          simp only [cc_clogSub, cc_ord_view_cons_ne ht]
          simp only [cc_clogSub] at h1
          rw [h1]
      · simp only [cc_ord_shape_append, h2]
        rfl
    · simp only [if_neg hen]
      refine ⟨h1, ?_, h3⟩
      simp only [cc_ord_shape_append, h2]
      rfl
  | record s vals =>
    have hs : ((cc_ord_shape fe.handles)[s]?).join = (fe.handleSite s).map (·.2) :=
      cc_ord_shape_get fe.handles s
    simp only [feStep, cc_ord_shStep]
    rw [hs]
    generalize fe.handleSite s = o
    cases o with
    | none =>
      refine ⟨?_, rfl, rfl⟩
      by_cases ht : tid = t <;> simp [ht]
    | some pr =>
      obtain ⟨id, k⟩ := pr
      refine ⟨?_, rfl, rfl⟩
      by_cases ht : tid = t
      · subst ht
        simp [cc_clogSub, cc_ord_view_cons_eq, cc_eraseIds]
      · simp [cc_clogSub, cc_ord_view_cons_ne ht, ht]
  | fol s u =>
    have hs : ((cc_ord_shape fe.handles)[s]?).join = (fe.handleSite s).map (·.2) :=
      cc_ord_shape_get fe.handles s
    have hu : ((cc_ord_shape fe.handles)[u]?).join = (fe.handleSite u).map (·.2) :=
      cc_ord_shape_get fe.handles u
    simp only [feStep, cc_ord_shStep, FE.handle]
    rw [hs, hu]
    generalize fe.handleSite s = o
    generalize fe.handleSite u = o'
    cases o with
    | none =>
      refine ⟨?_, rfl, rfl⟩
      by_cases ht : tid = t <;> simp [ht]
    | some pr =>
      cases o' with
      | none =>
        refine ⟨?_, rfl, rfl⟩
        by_cases ht : tid = t <;> simp [ht]
      | some pr' =>
        refine ⟨?_, rfl, rfl⟩
        by_cases ht : tid = t
        · subst ht
          simp [cc_clogSub, cc_ord_view_cons_eq, cc_eraseIds]
        · simp [cc_clogSub, cc_ord_view_cons_ne ht, ht]
  | ent s =>
    have hs : ((cc_ord_shape fe.handles)[s]?).join = (fe.handleSite s).map (·.2) :=
      cc_ord_shape_get fe.handles s
    simp only [feStep, cc_ord_shStep, FE.handle]
    rw [hs]
    generalize fe.handleSite s = o
    cases o with
    | none =>
      refine ⟨?_, rfl, rfl⟩
      by_cases ht : tid = t <;> simp [ht]
    | some pr =>
      obtain ⟨id, k⟩ := pr
      refine ⟨?_, rfl, rfl⟩
      by_cases ht : tid = t
      · subst ht
        simp [cc_clogSub, cc_ord_view_cons_eq, cc_eraseIds]
      · simp [cc_clogSub, cc_ord_view_cons_ne ht, ht]
  | ext s =>
    have hs : ((cc_ord_shape fe.handles)[s]?).join = (fe.handleSite s).map (·.2) :=
      cc_ord_shape_get fe.handles s
    simp only [feStep, cc_ord_shStep, FE.handle]
    rw [hs]
    generalize fe.handleSite s = o
    cases o with
    | none =>
      refine ⟨?_, rfl, rfl⟩
      by_cases ht : tid = t <;> simp [ht]
    | some pr =>
      obtain ⟨id, k⟩ := pr
      refine ⟨?_, rfl, rfl⟩
      by_cases ht : tid = t
      · subst ht
        simp [cc_clogSub, cc_ord_view_cons_eq, cc_eraseIds]
      · simp [cc_clogSub, cc_ord_view_cons_ne ht, ht]
  | drp s =>
    have hs : ((cc_ord_shape fe.handles)[s]?).join = (fe.handleSite s).map (·.2) :=
      cc_ord_shape_get fe.handles s
    simp only [feStep, cc_ord_shStep, FE.handle]
    rw [hs]
    generalize fe.handleSite s = o
    cases o with
    | none =>
      refine ⟨?_, rfl, rfl⟩
      by_cases ht : tid = t <;> simp [ht]
    | some pr =>
      obtain ⟨id, k⟩ := pr
      refine ⟨?_, rfl, rfl⟩
      by_cases ht : tid = t
      · subst ht
        simp [cc_clogSub, cc_ord_view_cons_eq, cc_eraseIds]
      · simp [cc_clogSub, cc_ord_view_cons_ne ht, ht]
  | cln s =>
    have hs : ((cc_ord_shape fe.handles)[s]?).join = (fe.handleSite s).map (·.2) :=
      cc_ord_shape_get fe.handles s
    simp only [feStep, cc_ord_shStep]
    rw [hs]
    generalize fe.handleSite s = o
    cases o with
    | none =>
      refine ⟨?_, ?_, rfl⟩
      · by_cases ht : tid = t <;> simp [ht]
      · simp only [cc_ord_shape_append]; rfl
    | some pr =>
      obtain ⟨id, k⟩ := pr
      refine ⟨?_, ?_, rfl⟩
      · by_cases ht : tid = t
        · subst ht
          simp [cc_clogSub, cc_ord_view_cons_eq, cc_eraseIds]
        · simp [cc_clogSub, cc_ord_view_cons_ne ht, ht]
      · simp only [cc_ord_shape_append]; rfl
  | evt k p vals =>
    obtain ⟨h1, h2, h3⟩ := cc_ord_ensure global sites tid t fe k
    simp only [feStep, cc_ord_shStep]
    have he : (cc_clogSub global tid).enabled (ensureRegistered (cc_clogSub global tid) sites fe k).sub
        (sites.getD k default) = levelEnabled global (sites.getD k default) := rfl
    rw [he]
    by_cases hen : levelEnabled global (sites.getD k default) = true
    · simp only [if_pos hen]
      refine ⟨?_, ?_, h3⟩
      · by_cases ht : tid = t
        · subst ht
          simp only [if_true] at h1 ⊢
          simp only [cc_clogSub, cc_ord_view_cons_eq, cc_eraseIds]
          simp only [cc_clogSub] at h1
          rw [h1]; rfl
        · simp only [if_neg ht] at h1 ⊢
          simp only [cc_clogSub, cc_ord_view_cons_ne ht]
          simp only [cc_clogSub] at h1
          rw [h1]
      · rw [h2]
    · simp only [if_neg hen]
      exact ⟨h1, by rw [h2], h3⟩

/-! ### Induction on the schedule -/

theorem cc_ord_step_view (global : Option Nat) (sites : List CallSite) (s : cc_CLogConc)
    (tid : Nat) (op : POp) (t : Nat) :
    cc_ord_view t (s.step global sites tid op).st.calls
        = (if tid = t then
            (cc_ord_shStep global sites (cc_ord_shape ((s.fes.get tid).getD (s.shared, [])).1)
              ((s.fes.get tid).getD (s.shared, [])).2 op).1 else []) ++ cc_ord_view t s.st.calls
      ∧ (s.step global sites tid op).shared = s.shared
      ∧ ∃ h r, (s.step global sites tid op).fes = s.fes.insert tid (h, r)
          ∧ cc_ord_shape h = (cc_ord_shStep global sites (cc_ord_shape ((s.fes.get tid).getD (s.shared, [])).1)
              ((s.fes.get tid).getD (s.shared, [])).2 op).2.1
          ∧ r = (cc_ord_shStep global sites (cc_ord_shape ((s.fes.get tid).getD (s.shared, [])).1)
              ((s.fes.get tid).getD (s.shared, [])).2 op).2.2 := by
  obtain ⟨h1, h2, h3⟩ := cc_ord_feStep global sites tid t
    { sub := s.st, handles := ((s.fes.get tid).getD (s.shared, [])).1,
      registered := ((s.fes.get tid).getD (s.shared, [])).2 } op
  exact ⟨h1, rfl, _, _, rfl, h2, h3⟩

theorem cc_ord_sched (global : Option Nat) (sites : List CallSite) (t : Nat) :
    ∀ (sched : List Nat) (s : cc_CLogConc) (work : AMap Nat (List POp)) (ops : List POp),
      work.get t = some ops →
      cc_ord_view t (cc_clogSchedule global sites s work sched).st.calls
        = cc_ord_shRun global sites (cc_ord_shape ((s.fes.get t).getD (s.shared, [])).1)
            ((s.fes.get t).getD (s.shared, [])).2 (ops.take (sched.filter (· == t)).length)
          ++ cc_ord_view t s.st.calls := by
  intro sched
  induction sched with
  | nil =>
    intro s work ops _
    simp [cc_clogSchedule, cc_ord_shRun]
  | cons t' sched ih =>
    intro s work ops hw
    rw [cc_clogSchedule]
    by_cases htt : t' = t
    · subst htt
      have hf : ((t' :: sched).filter (· == t')).length = (sched.filter (· == t')).length + 1 := by
        simp
      rw [hf, hw]
      cases ops with
      | nil =>
        have h0 := ih s work [] hw
        simp only [List.take_nil] at h0 ⊢
        exact h0
      | cons op rest =>
        simp only [List.take_succ_cons, cc_ord_shRun]
        obtain ⟨h1, h2, h, r, h3, h4, h5⟩ := cc_ord_step_view global sites s t' op t'
        have hw' : (work.insert t' rest).get t' = some rest := by
          rw [sd_get_insert]; simp
        have h0 := ih (s.step global sites t' op) (work.insert t' rest) rest hw'
        rw [h0, h3, sd_get_insert, h1, h2]
        simp only [if_true, Option.getD_some, h4, h5, List.append_assoc]
    · have hf : ((t' :: sched).filter (· == t)).length = (sched.filter (· == t)).length := by
        simp [htt]
      rw [hf]
      have hne : ¬ t = t' := fun h => htt h.symm
      split
      · rename_i op rest hg
        obtain ⟨h1, h2, h, r, h3, h4, h5⟩ := cc_ord_step_view global sites s t' op t
        have hw' : (work.insert t' rest).get t = some ops := by
          rw [sd_get_insert, if_neg hne]; exact hw
        have h0 := ih (s.step global sites t' op) (work.insert t' rest) ops hw'
        rw [h0, h3, sd_get_insert, if_neg hne, h1, h2, if_neg htt]
        rfl
      · exact ih s work ops hw

/-! ### The theorem -/

theorem cc_ord_view_reverse (t : Nat) (l : List (Nat × SubCall)) :
    (l.reverse.filter (·.1 == t)).map (fun c => cc_eraseIds c.2) = (cc_ord_view t l).reverse := by
  simp only [cc_ord_view, List.filter_reverse, List.map_reverse]

theorem cc_thread_order (global : Option Nat) (sites : List CallSite) (n k : Nat)
    (work : AMap Nat (List POp)) (sched : List Nat) (t : Nat) (ops : List POp)
    (ht : work.get t = some ops)
    (hall : ops.length ≤ (sched.filter (· == t)).length) :
    ((cc_concLog global sites n k work sched).filter (·.1 == t)).map (fun c => cc_eraseIds c.2)
      = ((cc_concLog global sites n k [(t, ops)] (List.replicate ops.length t)).filter (·.1 == t)).map (fun c => cc_eraseIds c.2) := by
  unfold cc_concLog
  rw [cc_ord_view_reverse, cc_ord_view_reverse]
  have hr : AMap.get ([(t, ops)] : AMap Nat (List POp)) t = some ops := by simp [AMap.get]
  rw [cc_ord_sched global sites t sched _ work ops ht,
    cc_ord_sched global sites t (List.replicate ops.length t) _ [(t, ops)] ops hr]
  have hc : ((List.replicate ops.length t).filter (· == t)).length = ops.length := by
    simp
  rw [hc, List.take_length, List.take_of_length_le hall]


end TT
