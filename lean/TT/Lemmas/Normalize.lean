/-
  Helper lemmas about `AMap.get` on appended maps, `assignId`, and `scrubSite`.
-/
import TT.Model.Normalize

namespace TT

namespace AMap

theorem get_nil' (id : Nat) : AMap.get ([] : AMap Nat Nat) id = none := rfl

theorem get_cons' (k v : Nat) (m : AMap Nat Nat) (id : Nat) :
    AMap.get ((k, v) :: m) id = if k = id then some v else AMap.get m id := rfl

/-- Lookup in a map with one entry appended. -/
theorem get_append_single (m : AMap Nat Nat) (k v id : Nat) :
    AMap.get (m ++ [(k, v)]) id
      = match AMap.get m id with
        | some x => some x
        | none => if k = id then some v else none := by
  induction m with
  | nil => simp [get_cons', get_nil']
  | cons kv m ih =>
    obtain ⟨k', v'⟩ := kv
    simp only [List.cons_append, get_cons']
    by_cases h : k' = id
    · simp [h]
    · simp [h, ih]

theorem get_eq_none_iff (m : AMap Nat Nat) (id : Nat) :
    AMap.get m id = none ↔ id ∉ m.map (·.1) := by
  induction m with
  | nil => simp [get_nil']
  | cons kv m ih =>
    obtain ⟨k', v'⟩ := kv
    simp only [get_cons', List.map_cons, List.mem_cons, not_or]
    by_cases h : k' = id
    · simp [h]
    · rw [if_neg h, ih]
      exact ⟨fun h' => ⟨fun e => h e.symm, h'⟩, fun h' => h'.2⟩

end AMap

/-! ### `assignId` -/

theorem assignId_of_some {m : AMap Nat Nat} {id v : Nat} (h : AMap.get m id = some v) :
    assignId m id = (m, v) := by
  simp [assignId, h]

theorem assignId_of_none {m : AMap Nat Nat} {id : Nat} (h : AMap.get m id = none) :
    assignId m id = (m ++ [(id, m.length)], m.length) := by
  simp [assignId, h]

theorem assignId_get_self (m : AMap Nat Nat) (id : Nat) :
    AMap.get (assignId m id).1 id = some (assignId m id).2 := by
  cases h : AMap.get m id with
  | some v => simp [assignId_of_some h, h]
  | none => simp [assignId_of_none h, AMap.get_append_single, h]

theorem assignId_stable {m : AMap Nat Nat} {a v : Nat} (b : Nat) (h : AMap.get m a = some v) :
    AMap.get (assignId m b).1 a = some v := by
  cases hb : AMap.get m b with
  | some w => simp [assignId_of_some hb, h]
  | none => simp [assignId_of_none hb, AMap.get_append_single, h]

/-- Folding `assignId` over a list of ids. -/
def assignAll (m : AMap Nat Nat) (ids : List Nat) : AMap Nat Nat :=
  ids.foldl (fun m id => (assignId m id).1) m

@[simp] theorem assignAll_nil (m : AMap Nat Nat) : assignAll m [] = m := rfl

@[simp] theorem assignAll_cons (m : AMap Nat Nat) (x : Nat) (xs : List Nat) :
    assignAll m (x :: xs) = assignAll (assignId m x).1 xs := rfl

theorem assignAll_stable {m : AMap Nat Nat} {a v : Nat} (ids : List Nat)
    (h : AMap.get m a = some v) : AMap.get (assignAll m ids) a = some v := by
  induction ids generalizing m with
  | nil => simpa using h
  | cons x xs ih => simpa using ih (assignId_stable x h)

/-- Values are `0, 1, 2, …` in entry order. -/
def Ranked (m : AMap Nat Nat) : Prop := m.map (·.2) = List.range m.length

theorem ranked_nil : Ranked [] := rfl

theorem assignId_ranked {m : AMap Nat Nat} (h : Ranked m) (id : Nat) : Ranked (assignId m id).1 := by
  cases hb : AMap.get m id with
  | some w => simpa [assignId_of_some hb] using h
  | none =>
    unfold Ranked at *
    simp [assignId_of_none hb, h, List.range_succ]

theorem assignAll_ranked {m : AMap Nat Nat} (h : Ranked m) (ids : List Nat) :
    Ranked (assignAll m ids) := by
  induction ids generalizing m with
  | nil => simpa using h
  | cons x xs ih => simpa using ih (assignId_ranked h x)

theorem assignId_keys (m : AMap Nat Nat) (id : Nat) :
    (assignId m id).1.map (·.1)
      = if id ∈ m.map (·.1) then m.map (·.1) else m.map (·.1) ++ [id] := by
  cases hb : AMap.get m id with
  | some w =>
    have : ¬ (id ∉ m.map (·.1)) := by rw [← AMap.get_eq_none_iff]; simp [hb]
    simp only [assignId_of_some hb]
    rw [if_pos (by simpa using this)]
  | none =>
    have : id ∉ m.map (·.1) := by rw [← AMap.get_eq_none_iff]; exact hb
    simp only [assignId_of_none hb]
    rw [if_neg this]; simp

/-! ### `scrubSite` -/

theorem scrubSite_idem (d : CallSite) : scrubSite (scrubSite d) = scrubSite d := by
  simp only [scrubSite]
  split <;> simp_all

end TT
