/-
  The reference ingredients of C05 as functions of the call log: behaviour under appending one
  call, well-formed call logs (`cs_CallsOK`), and stability of the parent computation
  (`cs_nearest`) under later captures.
-/
import TT.Lemmas.CapSpecDefs
import TT.Lemmas.CapSpecBasic

namespace TT

/-! ### Appending one call -/

theorem cs_hierFinal_snoc (cs : List SubCall) (c : SubCall) :
    cs_hierFinal (cs ++ [c]) = (cs_hierFinal cs).step c := by
  simp [cs_hierFinal, List.foldl_append]

theorem cs_hierBefore_snoc (h : cs_Hier) (cs : List SubCall) (c : SubCall) :
    cs_hierBefore h (cs ++ [c]) = cs_hierBefore h cs ++ [(cs.foldl cs_Hier.step h, c)] := by
  induction cs generalizing h with
  | nil => rfl
  | cons a cs ih => simp [cs_hierBefore, ih]

theorem cs_maxId_snoc (cs : List SubCall) (c : SubCall) :
    cs_maxId (cs ++ [c]) = match c with
      | .newSpan id _ _ _ => max (cs_maxId cs) id
      | _ => cs_maxId cs := by
  simp only [cs_maxId, List.foldl_append, List.foldl_cons, List.foldl_nil]
  cases c <;> rfl

theorem cs_maxId_le_snoc (cs : List SubCall) (c : SubCall) : cs_maxId cs ≤ cs_maxId (cs ++ [c]) := by
  rw [cs_maxId_snoc]
  cases c <;> simp <;> omega

def cs_newCapId (flt : LFilter) (sites : List CallSite) : SubCall → Option Nat
  | .newSpan id k _ _ => if flt.enabled (sites.getD k default) then some id else none
  | _ => none

theorem cs_capIds_eq (flt : LFilter) (sites : List CallSite) (calls : List SubCall) :
    cs_capIds flt sites calls = calls.filterMap (cs_newCapId flt sites) := by
  unfold cs_capIds
  apply cs_filterMap_congr
  intro c _
  cases c <;> rfl

theorem cs_capIds_snoc (flt : LFilter) (sites : List CallSite) (cs : List SubCall) (c : SubCall) :
    cs_capIds flt sites (cs ++ [c]) = cs_capIds flt sites cs ++ (cs_newCapId flt sites c).toList := by
  rw [cs_capIds_eq, cs_capIds_eq, List.filterMap_append]
  cases h : cs_newCapId flt sites c <;> simp [h]

theorem cs_cap_snoc (flt : LFilter) (sites : List CallSite) (cs : List SubCall) (c : SubCall) :
    cs_cap flt sites (cs ++ [c]) = cs_cap flt sites cs ++
      ((cs_newCapId flt sites c).map fun id => (id, (cs_capIds flt sites cs).length)).toList := by
  unfold cs_cap
  rw [cs_capIds_snoc, List.zipIdx_append]
  cases cs_newCapId flt sites c <;> simp

theorem cs_cap_length (flt : LFilter) (sites : List CallSite) (cs : List SubCall) :
    (cs_cap flt sites cs).length = (cs_capIds flt sites cs).length := by
  simp [cs_cap]

theorem cs_count_snoc (cs : List SubCall) (c : SubCall) (p : SubCall → Bool) :
    cs_count (cs ++ [c]) p = cs_count cs p + (if p c then 1 else 0) := by
  unfold cs_count
  rw [List.filter_append, List.length_append]
  by_cases h : p c <;> simp [h]

theorem cs_values_snoc (cs : List SubCall) (c : SubCall) (id : Nat) :
    cs_values (cs ++ [c]) id = match c with
      | .newSpan id' _ _ fields => if id' = id then capture fields else cs_values cs id
      | .record id' fields => if id' = id then (cs_values cs id).extend (capture fields) else cs_values cs id
      | _ => cs_values cs id := by
  simp only [cs_values, List.foldl_append, List.foldl_cons, List.foldl_nil]
  cases c <;> rfl

theorem cs_handles_snoc (cs : List SubCall) (c : SubCall) (id : Nat) :
    cs_handles (cs ++ [c]) id = match c with
      | .newSpan id' _ _ _ => if id' = id then cs_handles cs id + 1 else cs_handles cs id
      | .clone id' => if id' = id then cs_handles cs id + 1 else cs_handles cs id
      | .tryClose id' => if id' = id then cs_handles cs id - 1 else cs_handles cs id
      | _ => cs_handles cs id := by
  simp only [cs_handles, List.foldl_append, List.foldl_cons, List.foldl_nil]
  cases c <;> rfl

def cs_newFollows (cap : AMap Nat Nat) (id : Nat) : SubCall → Option Nat
  | .follows a b => if a = id then cap.get b else none
  | _ => none

theorem cs_follows_eq (cap : AMap Nat Nat) (calls : List SubCall) (id : Nat) :
    cs_follows cap calls id = calls.filterMap (cs_newFollows cap id) := by
  unfold cs_follows
  apply cs_filterMap_congr
  intro c _
  cases c <;> rfl

theorem cs_follows_snoc (cap : AMap Nat Nat) (cs : List SubCall) (c : SubCall) (id : Nat) :
    cs_follows cap (cs ++ [c]) id = cs_follows cap cs id ++ (cs_newFollows cap id c).toList := by
  rw [cs_follows_eq, cs_follows_eq, List.filterMap_append]
  cases h : cs_newFollows cap id c <;> simp [h]

/-! ### Well-formed call logs -/

/-- What a call must satisfy relative to the calls before it. -/
def cs_StepOK (cs : List SubCall) : SubCall → Prop
  | .newSpan id _ p _ => id = cs_maxId cs + 1 ∧
      ∀ q, cs_resolve (cs_hierFinal cs) p = some q → 1 ≤ q ∧ q ≤ cs_maxId cs
  | .event _ p _ => ∀ q, cs_resolve (cs_hierFinal cs) p = some q → 1 ≤ q ∧ q ≤ cs_maxId cs
  | .enter id => 1 ≤ id ∧ id ≤ cs_maxId cs
  | .exit id => id ≤ cs_maxId cs
  | .follows a b => a ≤ cs_maxId cs ∧ b ≤ cs_maxId cs
  | _ => True

inductive cs_CallsOK : List SubCall → Prop
  | nil : cs_CallsOK []
  | snoc (cs : List SubCall) (c : SubCall) : cs_CallsOK cs → cs_StepOK cs c → cs_CallsOK (cs ++ [c])

structure cs_HierOK (h : cs_Hier) (M : Nat) : Prop where
  stk : ∀ x ∈ h.stack, 1 ≤ x.1 ∧ x.1 ≤ M
  key : ∀ c, h.parent.get c ≠ none → 1 ≤ c ∧ c ≤ M
  dec : ∀ c q, h.parent.get c = some (some q) → 1 ≤ q ∧ q < c

theorem cs_mem_stackPop {s : List (Nat × Bool)} {id : Nat} {x : Nat × Bool}
    (h : x ∈ stackPop s id) : x ∈ s := by
  induction s with
  | nil => simp [stackPop] at h
  | cons e s ih =>
    obtain ⟨y, d⟩ := e
    simp only [stackPop] at h
    split at h
    · exact List.mem_cons_of_mem _ h
    · simp only [List.mem_cons] at h ⊢
      rcases h with h | h
      · exact Or.inl h
      · exact Or.inr (ih h)

theorem cs_hierOK_mono {h : cs_Hier} {M M' : Nat} (hh : cs_HierOK h M) (hm : M ≤ M') :
    cs_HierOK h M' :=
  ⟨fun x hx => ⟨(hh.stk x hx).1, Nat.le_trans (hh.stk x hx).2 hm⟩,
   fun c hc => ⟨(hh.key c hc).1, Nat.le_trans (hh.key c hc).2 hm⟩, hh.dec⟩

theorem cs_hierOK {calls : List SubCall} (hok : cs_CallsOK calls) :
    cs_HierOK (cs_hierFinal calls) (cs_maxId calls) := by
  induction hok with
  | nil => exact ⟨fun x hx => by simp [cs_hierFinal] at hx, fun c hc => by simp [cs_hierFinal, AMap.get] at hc,
      fun c q hc => by simp [cs_hierFinal, AMap.get] at hc⟩
  | snoc cs c _ hst ih =>
    rw [cs_hierFinal_snoc]
    have hmono := cs_hierOK_mono ih (cs_maxId_le_snoc cs c)
    cases c with
    | newSpan id k p f =>
      obtain ⟨hid, hq⟩ := hst
      have hM : cs_maxId (cs ++ [SubCall.newSpan id k p f]) = id := by
        rw [cs_maxId_snoc]; simp only; omega
      rw [hM] at hmono ⊢
      refine ⟨hmono.stk, ?_, ?_⟩
      · intro c hc
        simp only [cs_Hier.step, sd_get_insert] at hc
        by_cases hci : c = id
        · omega
        · rw [if_neg hci] at hc
          exact hmono.key c hc
      · intro c q hc
        simp only [cs_Hier.step, sd_get_insert] at hc
        by_cases hci : c = id
        · rw [if_pos hci] at hc
          have := hq q (by simpa using hc)
          omega
        · rw [if_neg hci] at hc
          exact ih.dec c q hc
    | enter id =>
      refine ⟨?_, hmono.key, hmono.dec⟩
      intro x hx
      simp only [cs_Hier.step, stackPush, List.mem_cons] at hx
      rcases hx with hx | hx
      · subst hx
        have : cs_maxId (cs ++ [SubCall.enter id]) = cs_maxId cs := by rw [cs_maxId_snoc]
        rw [this]
        exact hst
      · exact hmono.stk x hx
    | exit id =>
      refine ⟨?_, hmono.key, hmono.dec⟩
      intro x hx
      exact hmono.stk x (cs_mem_stackPop hx)
    | register _ _ => exact hmono
    | record _ _ => exact hmono
    | follows _ _ => exact hmono
    | clone _ => exact hmono
    | tryClose _ => exact hmono
    | event _ _ _ => exact hmono

/-! ### Stability of `cs_nearest` -/

theorem cs_nearest_none (par : AMap Nat (Option Nat)) (cap : AMap Nat Nat) (fuel : Nat) :
    cs_nearest par cap fuel none = none := by
  cases fuel <;> rfl

theorem cs_nearest_congr (par par' : AMap Nat (Option Nat)) (cap cap' : AMap Nat Nat) (M : Nat)
    (hpar : ∀ c, c ≤ M → par.get c = par'.get c) (hcap : ∀ c, c ≤ M → cap.get c = cap'.get c)
    (hdec : ∀ c q, par.get c = some (some q) → q < c) :
    ∀ fuel fuel' id, id ≤ M → id < fuel → id < fuel' →
      cs_nearest par cap fuel (some id) = cs_nearest par' cap' fuel' (some id) := by
  intro fuel
  induction fuel with
  | zero => intro fuel' id _ h; omega
  | succ n ih =>
    intro fuel' id hM hf hf'
    cases fuel' with
    | zero => omega
    | succ n' =>
      simp only [cs_nearest]
      rw [← hcap id hM, ← hpar id hM]
      cases cap.get id with
      | some c => rfl
      | none =>
        simp only
        cases hp : (par.get id).join with
        | none => rw [cs_nearest_none, cs_nearest_none]
        | some q =>
          have hq : q < id := by
            apply hdec id q
            cases hg : par.get id with
            | none => simp [hg] at hp
            | some v => simp [hg] at hp; rw [hp]
          exact ih n' q (by omega) (by omega) (by omega)

theorem cs_nearest_congr_opt (par par' : AMap Nat (Option Nat)) (cap cap' : AMap Nat Nat) (M : Nat)
    (hpar : ∀ c, c ≤ M → par.get c = par'.get c) (hcap : ∀ c, c ≤ M → cap.get c = cap'.get c)
    (hdec : ∀ c q, par.get c = some (some q) → q < c) (fuel fuel' : Nat) (s : Option Nat)
    (hs : ∀ q, s = some q → q ≤ M) (hf : M < fuel) (hf' : M < fuel') :
    cs_nearest par cap fuel s = cs_nearest par' cap' fuel' s := by
  cases s with
  | none => rw [cs_nearest_none, cs_nearest_none]
  | some q =>
    have := hs q rfl
    exact cs_nearest_congr par par' cap cap' M hpar hcap hdec fuel fuel' q this (by omega) (by omega)

theorem cs_nearest_some {par : AMap Nat (Option Nat)} {cap : AMap Nat Nat} {fuel : Nat}
    {s : Option Nat} {c : Nat} (h : cs_nearest par cap fuel s = some c) :
    ∃ id, cap.get id = some c := by
  induction fuel generalizing s with
  | zero => simp [cs_nearest] at h
  | succ n ih =>
    cases s with
    | none => simp [cs_nearest] at h
    | some id =>
      simp only [cs_nearest] at h
      cases hg : cap.get id with
      | some c' =>
        rw [hg] at h
        simp only [Option.some.injEq] at h
        exact ⟨id, by rw [hg, h]⟩
      | none =>
        rw [hg] at h
        exact ih h

theorem cs_cap_agree_snoc (flt : LFilter) (sites : List CallSite) (cs : List SubCall) (c : SubCall)
    (hst : cs_StepOK cs c) (x : Nat) (hx : x ≤ cs_maxId cs) :
    (cs_cap flt sites (cs ++ [c])).get x = (cs_cap flt sites cs).get x := by
  rw [cs_cap_snoc, cs_get_append]
  cases c with
  | newSpan id k p f =>
    obtain ⟨hid, _⟩ := hst
    simp only [cs_newCapId]
    split
    · have hne : ¬ id = x := by omega
      simp [AMap.get, hne]
    · simp [AMap.get]
  | _ => simp [cs_newCapId, AMap.get]

/-- The parent of the last call does not depend on later captures or larger fuel. -/
theorem cs_pc_last {cs : List SubCall} {c : SubCall} (hok : cs_CallsOK cs) (hst : cs_StepOK cs c)
    (cap cap' : AMap Nat Nat) (fuel fuel' : Nat)
    (hcap : ∀ x, x ≤ cs_maxId cs → cap.get x = cap'.get x)
    (hf : cs_maxId cs < fuel) (hf' : cs_maxId cs < fuel') :
    cs_pc cap fuel (cs_hierFinal cs) c = cs_pc cap' fuel' (cs_hierFinal cs) c := by
  have hh := cs_hierOK hok
  cases c with
  | newSpan id k p f =>
    simp only [cs_pc]
    exact cs_nearest_congr_opt _ _ _ _ (cs_maxId cs) (fun _ _ => rfl) hcap
      (fun c q h => (hh.dec c q h).2) _ _ _ (fun q hq => (hst.2 q hq).2) hf hf'
  | event k p f =>
    simp only [cs_pc]
    exact cs_nearest_congr_opt _ _ _ _ (cs_maxId cs) (fun _ _ => rfl) hcap
      (fun c q h => (hh.dec c q h).2) _ _ _ (fun q hq => (hst q hq).2) hf hf'
  | _ => rfl

theorem cs_pc_stable (flt : LFilter) (sites : List CallSite) {calls : List SubCall}
    (hok : cs_CallsOK calls) :
    ∀ (cap' : AMap Nat Nat) (fuel' : Nat),
      (∀ x, x ≤ cs_maxId calls → (cs_cap flt sites calls).get x = cap'.get x) →
      cs_maxId calls < fuel' →
      ∀ x ∈ cs_hierBefore {} calls,
        cs_pc cap' fuel' x.1 x.2 = cs_pc (cs_cap flt sites calls) (cs_maxId calls + 1) x.1 x.2 := by
  induction hok with
  | nil => intro _ _ _ _ x hx; simp [cs_hierBefore] at hx
  | snoc cs c hcs hst ih =>
    intro cap' fuel' hcap hf x hx
    have hle := cs_maxId_le_snoc cs c
    have hag : ∀ y, y ≤ cs_maxId cs →
        (cs_cap flt sites cs).get y = (cs_cap flt sites (cs ++ [c])).get y :=
      fun y hy => (cs_cap_agree_snoc flt sites cs c hst y hy).symm
    rw [cs_hierBefore_snoc, List.mem_append, List.mem_singleton] at hx
    rcases hx with hx | hx
    · rw [ih cap' fuel' (fun y hy => by rw [hag y hy]; exact hcap y (by omega)) (by omega) x hx]
      rw [ih (cs_cap flt sites (cs ++ [c])) (cs_maxId (cs ++ [c]) + 1) hag (by omega) x hx]
    · subst hx
      exact cs_pc_last hcs hst _ _ _ _ (fun y hy => (hcap y (by omega)).symm) (by omega) (by omega)

theorem cs_siOf_congr (flt : LFilter) (sites : List CallSite) (cap cap' : AMap Nat Nat)
    (fuel fuel' : Nat) (x : cs_Hier × SubCall)
    (h : cs_pc cap fuel x.1 x.2 = cs_pc cap' fuel' x.1 x.2) :
    cs_siOf flt sites cap fuel x = cs_siOf flt sites cap' fuel' x := by
  unfold cs_siOf
  rw [h]

theorem cs_eiOf_congr (flt : LFilter) (sites : List CallSite) (cap cap' : AMap Nat Nat)
    (fuel fuel' : Nat) (x : cs_Hier × SubCall)
    (h : cs_pc cap fuel x.1 x.2 = cs_pc cap' fuel' x.1 x.2) :
    cs_eiOf flt sites cap fuel x = cs_eiOf flt sites cap' fuel' x := by
  unfold cs_eiOf
  rw [h]

theorem cs_refSpans_snoc (flt : LFilter) (sites : List CallSite) {cs : List SubCall} {c : SubCall}
    (hok : cs_CallsOK cs) (hst : cs_StepOK cs c) :
    cs_refSpans flt sites (cs ++ [c]) = cs_refSpans flt sites cs ++
      (cs_siOf flt sites (cs_cap flt sites cs) (cs_maxId cs + 1) (cs_hierFinal cs, c)).toList := by
  have hle := cs_maxId_le_snoc cs c
  unfold cs_refSpans cs_refSpansG
  rw [cs_hierBefore_snoc, List.filterMap_append]
  congr 1
  · apply cs_filterMap_congr
    intro x hx
    apply cs_siOf_congr
    exact cs_pc_stable flt sites hok _ _
      (fun y hy => (cs_cap_agree_snoc flt sites cs c hst y hy).symm) (by omega) x hx
  · have : cs_siOf flt sites (cs_cap flt sites (cs ++ [c])) (cs_maxId (cs ++ [c]) + 1)
        (cs_hierFinal cs, c) =
        cs_siOf flt sites (cs_cap flt sites cs) (cs_maxId cs + 1) (cs_hierFinal cs, c) := by
      apply cs_siOf_congr
      exact cs_pc_last hok hst _ _ _ _
        (fun y hy => cs_cap_agree_snoc flt sites cs c hst y hy) (by omega) (by omega)
    show List.filterMap _ [(cs_hierFinal cs, c)] = _
    rw [List.filterMap_cons, this]
    cases cs_siOf flt sites (cs_cap flt sites cs) (cs_maxId cs + 1) (cs_hierFinal cs, c) <;> rfl

theorem cs_refEvents_snoc (flt : LFilter) (sites : List CallSite) {cs : List SubCall} {c : SubCall}
    (hok : cs_CallsOK cs) (hst : cs_StepOK cs c) :
    cs_refEvents flt sites (cs ++ [c]) = cs_refEvents flt sites cs ++
      (cs_eiOf flt sites (cs_cap flt sites cs) (cs_maxId cs + 1) (cs_hierFinal cs, c)).toList := by
  have hle := cs_maxId_le_snoc cs c
  unfold cs_refEvents cs_refEventsG
  rw [cs_hierBefore_snoc, List.filterMap_append]
  congr 1
  · apply cs_filterMap_congr
    intro x hx
    apply cs_eiOf_congr
    exact cs_pc_stable flt sites hok _ _
      (fun y hy => (cs_cap_agree_snoc flt sites cs c hst y hy).symm) (by omega) x hx
  · have : cs_eiOf flt sites (cs_cap flt sites (cs ++ [c])) (cs_maxId (cs ++ [c]) + 1)
        (cs_hierFinal cs, c) =
        cs_eiOf flt sites (cs_cap flt sites cs) (cs_maxId cs + 1) (cs_hierFinal cs, c) := by
      apply cs_eiOf_congr
      exact cs_pc_last hok hst _ _ _ _
        (fun y hy => cs_cap_agree_snoc flt sites cs c hst y hy) (by omega) (by omega)
    show List.filterMap _ [(cs_hierFinal cs, c)] = _
    rw [List.filterMap_cons, this]
    cases cs_eiOf flt sites (cs_cap flt sites cs) (cs_maxId cs + 1) (cs_hierFinal cs, c) <;> rfl

theorem cs_follows_stable {calls : List SubCall} (hok : cs_CallsOK calls) (id : Nat) :
    ∀ (cap cap' : AMap Nat Nat), (∀ x, x ≤ cs_maxId calls → cap.get x = cap'.get x) →
      cs_follows cap calls id = cs_follows cap' calls id := by
  induction hok with
  | nil => intro _ _ _; rfl
  | snoc cs c _ hst ih =>
    intro cap cap' hcap
    have hle := cs_maxId_le_snoc cs c
    rw [cs_follows_snoc, cs_follows_snoc, ih cap cap' (fun x hx => hcap x (by omega))]
    congr 2
    cases c with
    | follows a b =>
      simp only [cs_newFollows]
      rw [hcap b (by have : b ≤ cs_maxId cs := hst.2; omega)]
    | _ => rfl

/-- Nothing has happened yet to a span that is not created yet. -/
theorem cs_fresh_zero {calls : List SubCall} (hok : cs_CallsOK calls) (n : Nat) :
    cs_maxId calls < n → cs_count calls (cs_isEnter n) = 0 ∧ cs_count calls (cs_isExit n) = 0 ∧
      ∀ cap, cs_follows cap calls n = [] := by
  induction hok with
  | nil => intro _; exact ⟨rfl, rfl, fun _ => rfl⟩
  | snoc cs c _ hst ih =>
    intro hn
    have hle := cs_maxId_le_snoc cs c
    obtain ⟨h1, h2, h3⟩ := ih (by omega)
    refine ⟨?_, ?_, ?_⟩
    · rw [cs_count_snoc, h1]
      cases c with
      | enter id =>
        have : id ≤ cs_maxId cs := hst.2
        have hne : ¬ id = n := by omega
        simp [cs_isEnter, hne]
      | _ => simp [cs_isEnter]
    · rw [cs_count_snoc, h2]
      cases c with
      | exit id =>
        have : id ≤ cs_maxId cs := hst
        have hne : ¬ id = n := by omega
        simp [cs_isExit, hne]
      | _ => simp [cs_isExit]
    · intro cap
      rw [cs_follows_snoc, h3]
      cases c with
      | follows a b =>
        have : a ≤ cs_maxId cs := hst.1
        have hne : ¬ a = n := by omega
        simp [cs_newFollows, hne]
      | _ => simp [cs_newFollows]

/-! ### Facts about the captured ids and the descriptions -/

theorem cs_refSpansG_ids_aux (flt : LFilter) (sites : List CallSite) (cap : AMap Nat Nat) (fuel : Nat)
    (calls : List SubCall) : ∀ h : cs_Hier,
    ((cs_hierBefore h calls).filterMap (cs_siOf flt sites cap fuel)).map (·.id) =
      calls.filterMap (cs_newCapId flt sites) := by
  induction calls with
  | nil => intro _; rfl
  | cons c cs ih =>
    intro h
    simp only [cs_hierBefore, List.filterMap_cons]
    cases c with
    | newSpan id k p f =>
      by_cases he : flt.enabled (sites.getD k default) = true
      · simp only [cs_siOf, cs_newCapId, if_pos he, List.map_cons, ih]
      · simp only [cs_siOf, cs_newCapId, if_neg he, ih]
    | _ => simp [cs_siOf, cs_newCapId, ih]

theorem cs_refSpans_ids (flt : LFilter) (sites : List CallSite) (calls : List SubCall) :
    (cs_refSpans flt sites calls).map (·.id) = cs_capIds flt sites calls := by
  rw [cs_capIds_eq]
  exact cs_refSpansG_ids_aux flt sites _ _ calls {}

theorem cs_refSpans_length (flt : LFilter) (sites : List CallSite) (calls : List SubCall) :
    (cs_refSpans flt sites calls).length = (cs_capIds flt sites calls).length := by
  rw [← cs_refSpans_ids, List.length_map]

theorem cs_capIds_bound {calls : List SubCall} (hok : cs_CallsOK calls) (flt : LFilter)
    (sites : List CallSite) : ∀ id ∈ cs_capIds flt sites calls, 1 ≤ id ∧ id ≤ cs_maxId calls := by
  induction hok with
  | nil => intro id h; simp [cs_capIds] at h
  | snoc cs c _ hst ih =>
    intro id h
    have hle := cs_maxId_le_snoc cs c
    rw [cs_capIds_snoc, List.mem_append] at h
    rcases h with h | h
    · have := ih id h; omega
    · cases c with
      | newSpan id' k p f =>
        obtain ⟨hid, _⟩ := hst
        simp only [cs_newCapId] at h
        split at h
        · simp only [Option.toList_some, List.mem_singleton] at h
          subst h
          rw [cs_maxId_snoc]; simp only; omega
        · simp at h
      | _ => simp [cs_newCapId] at h

theorem cs_capIds_nodup {calls : List SubCall} (hok : cs_CallsOK calls) (flt : LFilter)
    (sites : List CallSite) : (cs_capIds flt sites calls).Nodup := by
  induction hok with
  | nil => simp [cs_capIds]
  | snoc cs c hcs hst ih =>
    rw [cs_capIds_snoc]
    cases c with
    | newSpan id' k p f =>
      obtain ⟨hid, _⟩ := hst
      simp only [cs_newCapId]
      split
      · rw [Option.toList_some, List.nodup_append]
        refine ⟨ih, by simp, ?_⟩
        intro a ha b hb
        simp only [List.mem_singleton] at hb
        have := (cs_capIds_bound hcs flt sites a ha).2
        omega
      · simpa using ih
    | _ => simpa [cs_newCapId] using ih

theorem cs_siOf_parentC {flt : LFilter} {sites : List CallSite} {cap : AMap Nat Nat} {fuel : Nat}
    {x : cs_Hier × SubCall} {s : cs_SI} (h : cs_siOf flt sites cap fuel x = some s) {p : Nat}
    (hp : s.parentC = some p) : ∃ id, cap.get id = some p := by
  obtain ⟨hh, c⟩ := x
  cases c with
  | newSpan id k par f =>
    simp only [cs_siOf] at h
    split at h
    · simp only [Option.some.injEq] at h
      subst h
      simp only [cs_pc] at hp
      exact cs_nearest_some hp
    · simp at h
  | _ => simp [cs_siOf] at h

theorem cs_eiOf_parentC {flt : LFilter} {sites : List CallSite} {cap : AMap Nat Nat} {fuel : Nat}
    {x : cs_Hier × SubCall} {s : cs_EI} (h : cs_eiOf flt sites cap fuel x = some s) {p : Nat}
    (hp : s.parentC = some p) : ∃ id, cap.get id = some p := by
  obtain ⟨hh, c⟩ := x
  cases c with
  | event k par f =>
    simp only [cs_eiOf] at h
    split at h
    · simp only [Option.some.injEq] at h
      subst h
      simp only [cs_pc] at hp
      exact cs_nearest_some hp
    · simp at h
  | _ => simp [cs_eiOf] at h

theorem cs_cap_get_lt {flt : LFilter} {sites : List CallSite} {calls : List SubCall} {id c : Nat}
    (h : (cs_cap flt sites calls).get id = some c) : c < (cs_refSpans flt sites calls).length := by
  rw [cs_refSpans_length]
  have := cs_get_zipIdx_some h
  rcases Nat.lt_or_ge c (cs_capIds flt sites calls).length with hl | hl
  · exact hl
  · simp [List.getElem?_eq_none hl] at this

theorem cs_refSpans_parentC (flt : LFilter) (sites : List CallSite) (calls : List SubCall) :
    ∀ s ∈ cs_refSpans flt sites calls, ∀ p, s.parentC = some p →
      p < (cs_refSpans flt sites calls).length := by
  intro s hs p hp
  unfold cs_refSpans cs_refSpansG at hs
  rw [List.mem_filterMap] at hs
  obtain ⟨x, _, hx⟩ := hs
  obtain ⟨id, hid⟩ := cs_siOf_parentC hx hp
  exact cs_cap_get_lt hid

theorem cs_refEvents_parentC (flt : LFilter) (sites : List CallSite) (calls : List SubCall) :
    ∀ s ∈ cs_refEvents flt sites calls, ∀ p, s.parentC = some p →
      p < (cs_refSpans flt sites calls).length := by
  intro s hs p hp
  unfold cs_refEvents cs_refEventsG at hs
  rw [List.mem_filterMap] at hs
  obtain ⟨x, _, hx⟩ := hs
  obtain ⟨id, hid⟩ := cs_eiOf_parentC hx hp
  exact cs_cap_get_lt hid

/-- A captured id sits at its captured index, and only there. -/
theorem cs_cap_get_span {flt : LFilter} {sites : List CallSite} {calls : List SubCall} {id c : Nat}
    (h : (cs_cap flt sites calls).get id = some c) :
    ∃ s, (cs_refSpans flt sites calls)[c]? = some s ∧ s.id = id := by
  have h1 := cs_get_zipIdx_some h
  rw [← cs_refSpans_ids, List.getElem?_map] at h1
  cases hs : (cs_refSpans flt sites calls)[c]? with
  | none => simp [hs] at h1
  | some s => exact ⟨s, rfl, by simpa [hs] using h1⟩

theorem cs_refSpans_uniq {flt : LFilter} {sites : List CallSite} {calls : List SubCall}
    (hok : cs_CallsOK calls) {id c : Nat} (h : (cs_cap flt sites calls).get id = some c)
    (j : Nat) (s' : cs_SI) (hj : (cs_refSpans flt sites calls)[j]? = some s') (hid : s'.id = id) :
    j = c := by
  have h1 : (cs_capIds flt sites calls)[j]? = some id := by
    rw [← cs_refSpans_ids, List.getElem?_map, hj]; simp [hid]
  have h2 := cs_get_zipIdx_of_getElem (cs_capIds_nodup hok flt sites) h1
  unfold cs_cap at h
  rw [h] at h2
  exact (Option.some.inj h2).symm

theorem cs_cap_none_not_mem {flt : LFilter} {sites : List CallSite} {calls : List SubCall} {id : Nat}
    (h : (cs_cap flt sites calls).get id = none) :
    ∀ s ∈ cs_refSpans flt sites calls, s.id ≠ id := by
  intro s hs he
  have : id ∈ cs_capIds flt sites calls := by
    rw [← cs_refSpans_ids, List.mem_map]
    exact ⟨s, hs, he⟩
  exact (cs_get_zipIdx_none _ _).mp h this

theorem cs_refSpans_id_bound {flt : LFilter} {sites : List CallSite} {calls : List SubCall}
    (hok : cs_CallsOK calls) : ∀ s ∈ cs_refSpans flt sites calls, 1 ≤ s.id ∧ s.id ≤ cs_maxId calls := by
  intro s hs
  apply cs_capIds_bound hok flt sites
  rw [← cs_refSpans_ids, List.mem_map]
  exact ⟨s, hs, rfl⟩

end TT
