/-
  One subscriber call of the layered model against the reference description: the invariant
  `cs_WInv` is preserved when the call is appended to the log.
-/
import TT.Lemmas.CapSpecLayer

namespace TT

/-! ### Calls that create nothing -/

def cs_creates : SubCall → Bool
  | .newSpan _ _ _ _ => true
  | .event _ _ _ => true
  | _ => false

theorem cs_refSpans_snoc_nc (flt : LFilter) (sites : List CallSite) {cs : List SubCall} {c : SubCall}
    (hok : cs_CallsOK cs) (hst : cs_StepOK cs c) (hc : ∀ id k p f, c ≠ .newSpan id k p f) :
    cs_refSpans flt sites (cs ++ [c]) = cs_refSpans flt sites cs := by
  rw [cs_refSpans_snoc flt sites hok hst]
  cases c with
  | newSpan id k p f => exact absurd rfl (hc id k p f)
  | _ => simp [cs_siOf]

theorem cs_refEvents_snoc_nc (flt : LFilter) (sites : List CallSite) {cs : List SubCall} {c : SubCall}
    (hok : cs_CallsOK cs) (hst : cs_StepOK cs c) (hc : ∀ k p f, c ≠ .event k p f) :
    cs_refEvents flt sites (cs ++ [c]) = cs_refEvents flt sites cs := by
  rw [cs_refEvents_snoc flt sites hok hst]
  cases c with
  | event k p f => exact absurd rfl (hc k p f)
  | _ => simp [cs_eiOf]

theorem cs_cap_snoc_nc (flt : LFilter) (sites : List CallSite) (cs : List SubCall) {c : SubCall}
    (hc : ∀ id k p f, c ≠ .newSpan id k p f) :
    cs_cap flt sites (cs ++ [c]) = cs_cap flt sites cs := by
  rw [cs_cap_snoc]
  cases c with
  | newSpan id k p f => exact absurd rfl (hc id k p f)
  | _ => simp [cs_newCapId]

theorem cs_maxId_snoc_nc (cs : List SubCall) {c : SubCall} (hc : ∀ id k p f, c ≠ .newSpan id k p f) :
    cs_maxId (cs ++ [c]) = cs_maxId cs := by
  rw [cs_maxId_snoc]
  cases c with
  | newSpan id k p f => exact absurd rfl (hc id k p f)
  | _ => rfl

/-- A layer invariant moves to a longer log that describes the same storage. -/
theorem cs_layer_transfer {sites : List CallSite} {flt : LFilter} {i : Nat} {calls calls' : List SubCall}
    {w : CapWorld} (h : cs_LayerInv sites flt i calls w)
    (hS : cs_refSpans flt sites calls' = cs_refSpans flt sites calls)
    (hE : cs_refEvents flt sites calls' = cs_refEvents flt sites calls)
    (hcap : cs_cap flt sites calls' = cs_cap flt sites calls)
    (hF : ∀ y, (cs_fns flt sites calls (cs_clOf w.reg)).AgreeAt (cs_fns flt sites calls' (cs_clOf w.reg)) y) :
    cs_LayerInv sites flt i calls' w := by
  constructor
  · rw [h.st, hS, hE]
    exact cs_mk_congr _ _ _ _ (fun s _ => hF s.id)
  · rw [hcap]; exact h.ext

/-- Layers after `notifySpan w0 id g`, where `w0` is `w` up to reference counts and stacks, and the
    notification realises the appended call `c` (which creates nothing). -/
theorem cs_notify_layers {filters : List LFilter} {global : Option Nat} {sites : List CallSite}
    {calls : List SubCall} {hier : cs_Hier} {H : Nat → Nat} {w w0 : CapWorld}
    (h : cs_WInv filters global sites calls hier H none w) (c : SubCall)
    (hst : cs_StepOK calls c) (hc1 : ∀ id k p f, c ≠ .newSpan id k p f) (hc2 : ∀ k p f, c ≠ .event k p f)
    (id : Nat) (g : CapSpan → CapSpan) (s0 : RegSpan)
    (hst0 : w0.storages = w.storages) (hfl0 : w0.filters = w.filters) (hgl0 : w0.global = w.global)
    (hnp0 : w0.panicked = false)
    (hs0 : w0.reg.spans.get id = some s0)
    (hext0 : ∀ y sy, w0.reg.spans.get y = some sy → ∃ s, w.reg.spans.get y = some s ∧ s.ext = sy.ext)
    (hcl : cs_clOf w0.reg = cs_clOf w.reg)
    (hF : ∀ flt cl y, y ≠ id →
      (cs_fns flt sites calls cl).AgreeAt (cs_fns flt sites (calls ++ [c]) cl) y)
    (hg : ∀ flt cl S E s ci, s.id = id →
      g (cs_span S E (cs_fns flt sites calls cl) s ci) = cs_span S E (cs_fns flt sites (calls ++ [c]) cl) s ci) :
    (notifySpan w0 id g).panicked = false ∧ (notifySpan w0 id g).reg = w0.reg ∧
    (notifySpan w0 id g).filters = filters ∧ (notifySpan w0 id g).global = global ∧
    (notifySpan w0 id g).storages.length = filters.length ∧
    ∀ i (hi : i < filters.length), cs_LayerInv sites filters[i] i (calls ++ [c]) (notifySpan w0 id g) := by
  obtain ⟨s, hs, hse⟩ := hext0 id s0 hs0
  have hspec := cs_notifySpan_spec w0 id g s0 hnp0 (by rw [hst0, hfl0, h.len, h.fl]) hs0 (by
    intro i ci hi hci
    rw [hst0]
    rw [← hse] at hci
    exact cs_WInv_hval h hs i ci (by rw [← h.fl, ← hfl0]; exact hi) hci)
  obtain ⟨hnp1, hreg1, hfl1, hgl1, hlen1, hst1⟩ := hspec
  refine ⟨hnp1, hreg1, by rw [hfl1, hfl0, h.fl], by rw [hgl1, hgl0, h.gl], by rw [hlen1, hst0, h.len], ?_⟩
  intro i hi
  constructor
  · rw [hst1 i (by rw [hfl0, h.fl]; exact hi), hst0, (h.lay i hi).st, hreg1, hcl, ← hse,
      (h.lay i hi).ext id s hs]
    rw [cs_refSpans_snoc_nc _ _ h.ok hst hc1, cs_refEvents_snoc_nc _ _ h.ok hst hc2]
    apply cs_layer_notify h.ok
    · intro y hy; exact hF _ _ y hy
    · intro S E s' ci hid; exact hg _ _ S E s' ci hid
  · intro y sy hy
    rw [hreg1] at hy
    obtain ⟨s', hs', he⟩ := hext0 y sy hy
    rw [cs_cap_snoc_nc _ _ _ hc1, ← he]
    exact (h.lay i hi).ext y s' hs'

/-! ### Attribute families under the individual calls -/

theorem cs_fns_enter_ne (flt : LFilter) (sites : List CallSite) (calls : List SubCall) (cl : Nat → Bool)
    (id y : Nat) (hy : y ≠ id) :
    (cs_fns flt sites calls cl).AgreeAt (cs_fns flt sites (calls ++ [.enter id]) cl) y := by
  have hne : ¬ id = y := fun h => hy h.symm
  refine ⟨?_, ?_, ?_, rfl, ?_⟩
  · simp [cs_fns, cs_values_snoc]
  · simp [cs_fns, cs_count_snoc, cs_isEnter, hne]
  · simp [cs_fns, cs_count_snoc, cs_isExit]
  · simp [cs_fns, cs_follows_snoc, cs_newFollows, cs_cap_snoc, cs_newCapId]

theorem cs_fns_enter_eq (flt : LFilter) (sites : List CallSite) (calls : List SubCall) (cl : Nat → Bool)
    (S : List cs_SI) (E : List cs_EI) (s : cs_SI) (ci : Nat) (id : Nat) (hid : s.id = id) :
    (fun cs : CapSpan => { cs with entered := cs.entered + 1 }) (cs_span S E (cs_fns flt sites calls cl) s ci) =
      cs_span S E (cs_fns flt sites (calls ++ [.enter id]) cl) s ci := by
  simp [cs_span_def, cs_fns, cs_values_snoc, cs_count_snoc, cs_isEnter, cs_isExit, hid,
    cs_follows_snoc, cs_newFollows, cs_cap_snoc, cs_newCapId]

/-! ### `enter` -/

theorem cs_stack_insert (reg : Reg) (x : List (Nat × Bool)) (spans : AMap Nat RegSpan) :
    Reg.stack { reg with stacks := reg.stacks.insert 0 x, spans := spans } 0 = x := by
  simp [Reg.stack, sd_get_insert]

theorem cs_sim_enter {filters : List LFilter} {global : Option Nat} {sites : List CallSite}
    {calls : List SubCall} {H : Nat → Nat} {w : CapWorld}
    (h : cs_WInv filters global sites calls (cs_hierFinal calls) H none w) (id : Nat)
    (hid : (w.reg.spans.get id).isSome) :
    cs_WInv filters global sites (calls ++ [.enter id]) (cs_hierFinal (calls ++ [.enter id])) H none
      ((capSub 0).enter w id) := by
  cases hs : w.reg.spans.get id with
  | none => simp [hs] at hid
  | some s =>
  have hex := h.ri.ex id s hs
  have hstep : cs_StepOK calls (.enter id) := ⟨hex.1, by have := h.next; have := hex.2.1; omega⟩
  have hok' := cs_CallsOK.snoc calls _ h.ok hstep
  have hc1 : ∀ id' k p f, SubCall.enter id ≠ .newSpan id' k p f := by intros; simp
  have hc2 : ∀ k p f, SubCall.enter id ≠ .event k p f := by intros; simp
  have hhier : cs_hierFinal (calls ++ [.enter id]) =
      { cs_hierFinal calls with stack := (id, cs_onStack (cs_hierFinal calls).stack id) :: (cs_hierFinal calls).stack } := by
    rw [cs_hierFinal_snoc]; rfl
  have hmax := cs_maxId_snoc_nc calls hc1
  simp only [capSub]
  rw [if_neg (by rw [h.np]; simp), h.stk]
  have hdup : ((cs_hierFinal calls).stack.any fun x => x.1 == id) = cs_onStack (cs_hierFinal calls).stack id := rfl
  rw [hdup]
  cases hd : cs_onStack (cs_hierFinal calls).stack id with
  | true =>
    simp only [if_true]
    -- duplicate entry: no clone
    let w0 : CapWorld := { w with reg := { w.reg with stacks := w.reg.stacks.insert 0 ((id, true) :: (cs_hierFinal calls).stack) } }
    have hn := cs_notify_layers (w0 := w0) h (.enter id) hstep hc1 hc2 id
      (fun cs => { cs with entered := cs.entered + 1 }) s rfl rfl rfl h.np hs
      (fun y sy hy => ⟨sy, hy, rfl⟩) rfl
      (fun flt cl y hy => cs_fns_enter_ne flt sites calls cl id y hy)
      (fun flt cl S E s' ci hi => cs_fns_enter_eq flt sites calls cl S E s' ci id hi)
    obtain ⟨hnp1, hreg1, hfl1, hgl1, hlen1, hlay1⟩ := hn
    change cs_WInv _ _ _ _ _ _ _ (notifySpan w0 id _)
    refine ⟨hnp1, hfl1, hgl1, hlen1, hok', ?_, ?_, ?_, hlay1⟩
    · rw [hreg1, hmax]; exact h.next
    · rw [hreg1, hhier, hd]
      exact cs_stack_insert w.reg _ w.reg.spans
    · rw [hreg1, hhier, hd]
      refine cs_RI_same h.ri ⟨hd.symm, h.ri.sok⟩ ?_ ?_ (fun y hy => by cases hy)
      · intro y sy hy
        rw [cs_onStack_cons]
        by_cases hyi : id = y
        · subst hyi; simp [hd]
        · simp [hyi]
      · intro y hy
        have hyi : ¬ id = y := by intro he; subst he; rw [hs] at hy; cases hy
        rw [cs_onStack_cons]
        simpa [hyi] using h.ri.nex y hy
  | false =>
    simp only [Bool.false_eq_true, if_false, Reg.cloneSpan]
    have hs' : AMap.get w.reg.spans id = some s := hs
    simp only [hs']
    let w0 : CapWorld := { w with reg := { w.reg with
      stacks := w.reg.stacks.insert 0 ((id, false) :: (cs_hierFinal calls).stack),
      spans := w.reg.spans.insert id { s with refs := s.refs + 1 } } }
    have hget0 : w0.reg.spans.get = cs_upd w.reg.spans.get id (some { s with refs := s.refs + 1 }) :=
      cs_get_insert_upd _ _ _
    have hn := cs_notify_layers (w0 := w0) h (.enter id) hstep hc1 hc2 id
      (fun cs => { cs with entered := cs.entered + 1 }) { s with refs := s.refs + 1 } rfl rfl rfl h.np
      (by rw [hget0, cs_upd_same])
      (by
        intro y sy hy
        rw [hget0] at hy
        by_cases hyi : y = id
        · subst hyi; rw [cs_upd_same] at hy; cases hy; exact ⟨s, hs, rfl⟩
        · rw [cs_upd_ne _ _ _ hyi] at hy; exact ⟨sy, hy, rfl⟩)
      (by
        funext y
        unfold cs_clOf
        rw [hget0]
        by_cases hyi : y = id
        · subst hyi; simp [cs_upd, hs]
        · rw [cs_upd_ne _ _ _ hyi])
      (fun flt cl y hy => cs_fns_enter_ne flt sites calls cl id y hy)
      (fun flt cl S E s' ci hi => cs_fns_enter_eq flt sites calls cl S E s' ci id hi)
    obtain ⟨hnp1, hreg1, hfl1, hgl1, hlen1, hlay1⟩ := hn
    change cs_WInv _ _ _ _ _ _ _ (notifySpan w0 id _)
    refine ⟨hnp1, hfl1, hgl1, hlen1, hok', ?_, ?_, ?_, hlay1⟩
    · rw [hreg1, hmax]; exact h.next
    · rw [hreg1, hhier, hd]
      exact cs_stack_insert w.reg _ _
    · rw [hreg1, hhier, hd, hget0]
      refine cs_RI_set (s' := { s with refs := s.refs + 1 }) h.ri hs rfl ⟨hd.symm, h.ri.sok⟩ ?_ ?_ ?_
      · have := hex.2.2.2
        rw [hd] at this
        simp only [cs_onStack_cons, beq_self_eq_true, Bool.true_or, if_true, reduceCtorEq, if_false,
          Bool.false_eq_true] at this ⊢
        omega
      · intro y hy
        have hyi : ¬ id = y := fun h' => hy h'.symm
        simp [cs_onStack_cons, hyi]
      · intro y hy; cases hy

/-! ### Calls that leave the layers alone -/

/-- The registry changed only in reference counts / stacks. -/
theorem cs_layer_regchange {sites : List CallSite} {flt : LFilter} {i : Nat} {calls : List SubCall}
    {w w' : CapWorld} (h : cs_LayerInv sites flt i calls w) (hst : w'.storages = w.storages)
    (hcl : cs_clOf w'.reg = cs_clOf w.reg)
    (hext : ∀ y sy, w'.reg.spans.get y = some sy → ∃ s, w.reg.spans.get y = some s ∧ s.ext = sy.ext) :
    cs_LayerInv sites flt i calls w' := by
  constructor
  · rw [hst, hcl]; exact h.st
  · intro y sy hy
    obtain ⟨s, hs, he⟩ := hext y sy hy
    rw [← he]; exact h.ext y s hs

theorem cs_WInv_transfer {filters : List LFilter} {global : Option Nat} {sites : List CallSite}
    {calls : List SubCall} {hier : cs_Hier} {H : Nat → Nat} {x : Option Nat} {w : CapWorld}
    (h : cs_WInv filters global sites calls hier H x w) (c : SubCall)
    (hst : cs_StepOK calls c) (hc1 : ∀ id k p f, c ≠ .newSpan id k p f) (hc2 : ∀ k p f, c ≠ .event k p f)
    (hF : ∀ flt cl y, (cs_fns flt sites calls cl).AgreeAt (cs_fns flt sites (calls ++ [c]) cl) y) :
    cs_WInv filters global sites (calls ++ [c]) hier H x w := by
  refine ⟨h.np, h.fl, h.gl, h.len, cs_CallsOK.snoc calls c h.ok hst, ?_, h.stk, h.ri, ?_⟩
  · rw [cs_maxId_snoc_nc calls hc1]; exact h.next
  · intro i hi
    exact cs_layer_transfer (h.lay i hi) (cs_refSpans_snoc_nc _ _ h.ok hst hc1)
      (cs_refEvents_snoc_nc _ _ h.ok hst hc2) (cs_cap_snoc_nc _ _ _ hc1) (fun y => hF _ _ y)

theorem cs_sim_register {filters : List LFilter} {global : Option Nat} {sites : List CallSite}
    {calls : List SubCall} {H : Nat → Nat} {w : CapWorld}
    (h : cs_WInv filters global sites calls (cs_hierFinal calls) H none w) (k : Nat) (site : CallSite) :
    cs_WInv filters global sites (calls ++ [.register k site]) (cs_hierFinal (calls ++ [.register k site]))
      H none w := by
  have hh : cs_hierFinal (calls ++ [.register k site]) = cs_hierFinal calls := by
    rw [cs_hierFinal_snoc]; rfl
  rw [hh]
  refine cs_WInv_transfer h _ trivial (by intros; simp) (by intros; simp) ?_
  intro flt cl y
  refine ⟨?_, ?_, ?_, rfl, ?_⟩
  · simp [cs_fns, cs_values_snoc]
  · simp [cs_fns, cs_count_snoc, cs_isEnter]
  · simp [cs_fns, cs_count_snoc, cs_isExit]
  · simp [cs_fns, cs_follows_snoc, cs_newFollows, cs_cap_snoc, cs_newCapId]

/-! ### `record` -/

theorem cs_sim_record {filters : List LFilter} {global : Option Nat} {sites : List CallSite}
    {calls : List SubCall} {H : Nat → Nat} {w : CapWorld}
    (h : cs_WInv filters global sites calls (cs_hierFinal calls) H none w) (id : Nat) (fields : Fields)
    (hid : (w.reg.spans.get id).isSome) :
    cs_WInv filters global sites (calls ++ [.record id fields]) (cs_hierFinal (calls ++ [.record id fields]))
      H none ((capSub 0).record w id fields) := by
  cases hs : w.reg.spans.get id with
  | none => simp [hs] at hid
  | some s =>
  have hc1 : ∀ id' k p f, SubCall.record id fields ≠ .newSpan id' k p f := by intros; simp
  have hc2 : ∀ k p f, SubCall.record id fields ≠ .event k p f := by intros; simp
  have hh : cs_hierFinal (calls ++ [.record id fields]) = cs_hierFinal calls := by
    rw [cs_hierFinal_snoc]; rfl
  have hmax := cs_maxId_snoc_nc calls hc1
  simp only [capSub]
  rw [if_neg (by rw [h.np]; simp), hh]
  have hn := cs_notify_layers (w0 := w) h (.record id fields) trivial hc1 hc2 id
    (fun cs => { cs with values := cs.values.extend (capture fields) }) s rfl rfl rfl h.np hs
    (fun y sy hy => ⟨sy, hy, rfl⟩) rfl
    (by
      intro flt cl y hy
      have hne : ¬ id = y := fun h => hy h.symm
      refine ⟨?_, ?_, ?_, rfl, ?_⟩
      · simp [cs_fns, cs_values_snoc, hne]
      · simp [cs_fns, cs_count_snoc, cs_isEnter]
      · simp [cs_fns, cs_count_snoc, cs_isExit]
      · simp [cs_fns, cs_follows_snoc, cs_newFollows, cs_cap_snoc, cs_newCapId])
    (by
      intro flt cl S E s' ci hi
      simp [cs_span_def, cs_fns, cs_values_snoc, cs_count_snoc, cs_isEnter, cs_isExit, hi,
        cs_follows_snoc, cs_newFollows, cs_cap_snoc, cs_newCapId])
  obtain ⟨hnp1, hreg1, hfl1, hgl1, hlen1, hlay1⟩ := hn
  refine ⟨hnp1, hfl1, hgl1, hlen1, cs_CallsOK.snoc calls _ h.ok trivial, ?_, ?_, ?_, hlay1⟩
  · rw [hreg1, hmax]; exact h.next
  · rw [hreg1]; exact h.stk
  · rw [hreg1]; exact h.ri

/-! ### `clone` -/

theorem cs_fns_agree_plain (flt : LFilter) (sites : List CallSite) (calls : List SubCall) (cl : Nat → Bool)
    (c : SubCall) (y : Nat)
    (h1 : ∀ id k p f, c ≠ .newSpan id k p f) (h2 : ∀ id f, c ≠ .record id f)
    (h3 : ∀ id, c ≠ .enter id) (h4 : ∀ id, c ≠ .exit id) (h5 : ∀ a b, c ≠ .follows a b) :
    (cs_fns flt sites calls cl).AgreeAt (cs_fns flt sites (calls ++ [c]) cl) y := by
  cases c with
  | newSpan id k p f => exact absurd rfl (h1 id k p f)
  | record id f => exact absurd rfl (h2 id f)
  | enter id => exact absurd rfl (h3 id)
  | exit id => exact absurd rfl (h4 id)
  | follows a b => exact absurd rfl (h5 a b)
  | _ =>
    refine ⟨?_, ?_, ?_, rfl, ?_⟩
    · simp [cs_fns, cs_values_snoc]
    · simp [cs_fns, cs_count_snoc, cs_isEnter]
    · simp [cs_fns, cs_count_snoc, cs_isExit]
    · simp [cs_fns, cs_follows_snoc, cs_newFollows, cs_cap_snoc, cs_newCapId]

theorem cs_sim_clone {filters : List LFilter} {global : Option Nat} {sites : List CallSite}
    {calls : List SubCall} {H H' : Nat → Nat} {w : CapWorld}
    (h : cs_WInv filters global sites calls (cs_hierFinal calls) H none w) (id : Nat)
    (hid : (w.reg.spans.get id).isSome) (hH : ∀ y, H' y = H y + if y = id then 1 else 0) :
    cs_WInv filters global sites (calls ++ [.clone id]) (cs_hierFinal (calls ++ [.clone id]))
      H' none ((capSub 0).clone w id) := by
  cases hs : w.reg.spans.get id with
  | none => simp [hs] at hid
  | some s =>
  have hh : cs_hierFinal (calls ++ [.clone id]) = cs_hierFinal calls := by
    rw [cs_hierFinal_snoc]; rfl
  have hs' : AMap.get w.reg.spans id = some s := hs
  simp only [capSub, Reg.cloneSpan]
  rw [if_neg (by rw [h.np]; simp), hh]
  simp only [hs']
  have hget : (AMap.insert w.reg.spans id { s with refs := s.refs + 1 }).get =
      cs_upd w.reg.spans.get id (some { s with refs := s.refs + 1 }) := cs_get_insert_upd _ _ _
  refine cs_WInv_transfer (c := .clone id) ?_ trivial (by intros; simp) (by intros; simp)
    (fun flt cl y => cs_fns_agree_plain flt sites calls cl _ y (by intros; simp) (by intros; simp)
      (by intros; simp) (by intros; simp) (by intros; simp))
  refine ⟨h.np, h.fl, h.gl, h.len, h.ok, h.next, h.stk, ?_, ?_⟩
  · show cs_RI _ w.reg.next (AMap.insert w.reg.spans id _).get _ H' none
    rw [hget]
    exact cs_RI_clone h.ri hs hH
  · intro i hi
    refine cs_layer_regchange (h.lay i hi) rfl ?_ ?_
    · funext y
      unfold cs_clOf
      show ((AMap.insert w.reg.spans id _).get y).isNone = _
      rw [hget]
      by_cases hy : y = id
      · subst hy; simp [cs_upd, hs]
      · rw [cs_upd_ne _ _ _ hy]
    · intro y sy hy
      have hy' : cs_upd w.reg.spans.get id (some { s with refs := s.refs + 1 }) y = some sy := by
        rw [← hget]; exact hy
      by_cases hyi : y = id
      · subst hyi; rw [cs_upd_same] at hy'; cases hy'; exact ⟨s, hs, rfl⟩
      · rw [cs_upd_ne _ _ _ hyi] at hy'; exact ⟨sy, hy', rfl⟩

/-! ### `try_close` (a handle is dropped) -/

theorem cs_sim_tryClose {filters : List LFilter} {global : Option Nat} {sites : List CallSite}
    {calls : List SubCall} {H H' : Nat → Nat} {w : CapWorld}
    (h : cs_WInv filters global sites calls (cs_hierFinal calls) H none w) (id : Nat)
    (hid : 1 ≤ H id) (hH : ∀ y, H' y + (if y = id then 1 else 0) = H y) :
    cs_WInv filters global sites (calls ++ [.tryClose id]) (cs_hierFinal (calls ++ [.tryClose id]))
      H' none ((capSub 0).tryClose w id) := by
  have hsome : (w.reg.spans.get id).isSome := by
    cases hs : w.reg.spans.get id with
    | none => have := (h.ri.nex id hs).1; omega
    | some _ => rfl
  have hh : cs_hierFinal (calls ++ [.tryClose id]) = cs_hierFinal calls := by
    rw [cs_hierFinal_snoc]; rfl
  simp only [capSub]
  rw [if_neg (by rw [h.np]; simp), hh]
  refine cs_WInv_transfer (c := .tryClose id) ?_ trivial (by intros; simp) (by intros; simp)
    (fun flt cl y => cs_fns_agree_plain flt sites calls cl _ y (by intros; simp) (by intros; simp)
      (by intros; simp) (by intros; simp) (by intros; simp))
  unfold CapWorld.tryClose
  apply cs_tryClose_inv
  · refine ⟨h.np, h.fl, h.gl, h.len, h.ok, h.next, h.stk, ?_, h.lay⟩
    refine cs_RI_same h.ri h.ri.sok ?_ ?_ ?_
    · intro y sy hy
      have := hH y
      by_cases hyi : y = id
      · subst hyi
        simp only [if_true, reduceCtorEq, if_false] at this ⊢
        omega
      · have hne : ¬ some id = some y := by simpa using fun h' => hyi h'.symm
        simp only [hyi, if_false, hne, reduceCtorEq] at this ⊢
        omega
    · intro y hy
      have hyi : y ≠ id := by intro he; subst he; rw [hy] at hsome; cases hsome
      have := hH y
      simp only [hyi, if_false] at this
      rw [Nat.add_zero] at this
      rw [this]; exact h.ri.nex y hy
    · intro y hy; cases hy; exact hsome
  · have := h.ri.ex id
    cases hs : w.reg.spans.get id with
    | none => rw [hs] at hsome; cases hsome
    | some s => have := (h.ri.ex id s hs).2.1; omega

/-! ### `exit` -/

theorem cs_isSome_of_H {filters global sites calls hier H x w}
    (h : cs_WInv filters global sites calls hier H x w) {id : Nat} (hid : 1 ≤ H id) :
    (w.reg.spans.get id).isSome := by
  cases hs : w.reg.spans.get id with
  | none => have := (h.ri.nex id hs).1; omega
  | some _ => rfl

/-- The world after replacing the stack of thread 0. -/
def cs_popW (w : CapWorld) (stk : List (Nat × Bool)) : CapWorld :=
  { w with reg := { w.reg with stacks := w.reg.stacks.insert 0 stk } }

/-- The registry part of `exit`: pop, and release the reference unless the entry was a duplicate. -/
theorem cs_exit_reg {filters : List LFilter} {global : Option Nat} {sites : List CallSite}
    {calls : List SubCall} {H : Nat → Nat} {w : CapWorld}
    (h : cs_WInv filters global sites calls (cs_hierFinal calls) H none w) (id : Nat) (hid : 1 ≤ H id)
    (w2 : CapWorld)
    (hw2 : w2 = (match ((cs_hierFinal calls).stack.find? (·.1 == id)).map (·.2) with
      | some false => CapWorld.tryClose (cs_popW w (stackPop (cs_hierFinal calls).stack id)) id
      | _ => cs_popW w (stackPop (cs_hierFinal calls).stack id))) :
    cs_WInv filters global sites calls
      { cs_hierFinal calls with stack := stackPop (cs_hierFinal calls).stack id } H none w2 := by
  have hsome := cs_isSome_of_H h hid
  have hfp := cs_find_pop (cs_hierFinal calls).stack id h.ri.sok
  have hsok' := cs_stackOK_pop (cs_hierFinal calls).stack id h.ri.sok
  -- the world after the pop satisfies the invariant with a release pending iff `pend`
  have hw1 : ∀ x' : Option Nat,
      (∀ y, (if cs_onStack (stackPop (cs_hierFinal calls).stack id) y then 1 else 0) +
        (if x' = some y then 1 else 0) = (if cs_onStack (cs_hierFinal calls).stack y then 1 else 0)) →
      (∀ y, x' = some y → y = id) →
      cs_WInv filters global sites calls
        { cs_hierFinal calls with stack := stackPop (cs_hierFinal calls).stack id } H x'
        (cs_popW w (stackPop (cs_hierFinal calls).stack id)) := by
    intro x' hcnt hx'
    refine ⟨h.np, h.fl, h.gl, h.len, h.ok, h.next, cs_stack_insert w.reg _ w.reg.spans, ?_, ?_⟩
    · refine cs_RI_same h.ri hsok' ?_ ?_ ?_
      · intro y sy _
        have := hcnt y
        simp only [reduceCtorEq, if_false]
        omega
      · intro y hy
        have hy' : w.reg.spans.get y = none := hy
        have hyi : y ≠ id := by intro he; subst he; rw [hy'] at hsome; cases hsome
        rw [cs_onStack_pop_ne _ _ _ hyi]
        exact h.ri.nex y hy'
      · intro y hy
        rw [hx' y hy]; exact hsome
    · intro i hi
      exact cs_layer_regchange (h.lay i hi) rfl rfl (fun y sy hy => ⟨sy, hy, rfl⟩)
  have hne : ∀ y, y ≠ id → cs_onStack (stackPop (cs_hierFinal calls).stack id) y =
      cs_onStack (cs_hierFinal calls).stack y := fun y hy => cs_onStack_pop_ne _ _ _ hy
  cases hf : (cs_hierFinal calls).stack.find? (·.1 == id) with
  | none =>
    rw [hf] at hfp hw2
    simp only [Option.map_none] at hw2
    rw [hw2]
    apply hw1 none
    · intro y; rw [hfp.2]; simp
    · intro y hy; cases hy
  | some e =>
    rw [hf] at hfp hw2
    obtain ⟨x, d⟩ := e
    simp only at hfp
    cases d with
    | true =>
      simp only [Option.map_some] at hw2
      rw [hw2]
      apply hw1 none
      · intro y
        by_cases hy : y = id
        · subst hy; rw [hfp.1, hfp.2]; simp
        · rw [hne y hy]; simp
      · intro y hy; cases hy
    | false =>
      simp only [Option.map_some] at hw2
      rw [hw2]
      unfold CapWorld.tryClose
      apply cs_tryClose_inv
      · apply hw1 (some id)
        · intro y
          by_cases hy : y = id
          · subst hy; rw [hfp.1, hfp.2]; simp
          · have : ¬ some id = some y := by simpa using fun h' => hy h'.symm
            rw [hne y hy]; simp [this]
        · intro y hy; cases hy; rfl
      · show id < w.reg.next + 1
        cases hs : w.reg.spans.get id with
        | none => rw [hs] at hsome; cases hsome
        | some s => have := (h.ri.ex id s hs).2.1; omega

theorem cs_exit_tail {filters : List LFilter} {global : Option Nat} {sites : List CallSite}
    {calls : List SubCall} {H : Nat → Nat} {w2 : CapWorld} (id : Nat)
    (h : cs_WInv filters global sites calls (cs_hierFinal (calls ++ [.exit id])) H none w2) (hid : 1 ≤ H id) :
    cs_WInv filters global sites (calls ++ [.exit id]) (cs_hierFinal (calls ++ [.exit id])) H none
      (if w2.panicked then w2 else notifySpan w2 id fun cs => { cs with exited := cs.exited + 1 }) := by
  have hsome := cs_isSome_of_H h hid
  cases hs : w2.reg.spans.get id with
  | none => rw [hs] at hsome; cases hsome
  | some s =>
  have hc1 : ∀ id' k p f, SubCall.exit id ≠ .newSpan id' k p f := by intros; simp
  have hc2 : ∀ k p f, SubCall.exit id ≠ .event k p f := by intros; simp
  have hmax := cs_maxId_snoc_nc calls hc1
  have hstep : cs_StepOK calls (.exit id) := by
    show id ≤ cs_maxId calls
    have := (h.ri.ex id s hs).2.1
    have := h.next
    omega
  rw [if_neg (by rw [h.np]; simp)]
  have hn := cs_notify_layers (w0 := w2) h (.exit id) hstep hc1 hc2 id
    (fun cs => { cs with exited := cs.exited + 1 }) s rfl rfl rfl h.np hs
    (fun y sy hy => ⟨sy, hy, rfl⟩) rfl
    (by
      intro flt cl y hy
      have hne : ¬ id = y := fun h => hy h.symm
      refine ⟨?_, ?_, ?_, rfl, ?_⟩
      · simp [cs_fns, cs_values_snoc]
      · simp [cs_fns, cs_count_snoc, cs_isEnter]
      · simp [cs_fns, cs_count_snoc, cs_isExit, hne]
      · simp [cs_fns, cs_follows_snoc, cs_newFollows, cs_cap_snoc, cs_newCapId])
    (by
      intro flt cl S E s' ci hi
      simp [cs_span_def, cs_fns, cs_values_snoc, cs_count_snoc, cs_isEnter, cs_isExit, hi,
        cs_follows_snoc, cs_newFollows, cs_cap_snoc, cs_newCapId])
  obtain ⟨hnp1, hreg1, hfl1, hgl1, hlen1, hlay1⟩ := hn
  refine ⟨hnp1, hfl1, hgl1, hlen1, cs_CallsOK.snoc calls _ h.ok hstep, ?_, ?_, ?_, hlay1⟩
  · rw [hreg1, hmax]; exact h.next
  · rw [hreg1]; exact h.stk
  · rw [hreg1]; exact h.ri

theorem cs_sim_exit {filters : List LFilter} {global : Option Nat} {sites : List CallSite}
    {calls : List SubCall} {H : Nat → Nat} {w : CapWorld}
    (h : cs_WInv filters global sites calls (cs_hierFinal calls) H none w) (id : Nat) (hid : 1 ≤ H id) :
    cs_WInv filters global sites (calls ++ [.exit id]) (cs_hierFinal (calls ++ [.exit id])) H none
      ((capSub 0).exit w id) := by
  have hhier : cs_hierFinal (calls ++ [.exit id]) =
      { cs_hierFinal calls with stack := stackPop (cs_hierFinal calls).stack id } := by
    rw [cs_hierFinal_snoc]; rfl
  simp only [capSub]
  rw [if_neg (by rw [h.np]; simp), h.stk]
  apply cs_exit_tail id _ hid
  rw [hhier]
  exact cs_exit_reg h id hid _ rfl

end TT
