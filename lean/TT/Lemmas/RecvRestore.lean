/-
  TT.Lemmas.RecvRestore — what a single `tryReceive` step does to the host (calls issued by
  `createLocalSpan`), and acceptance results as a function of the bookkeeping.
-/
import TT.Lemmas.RecvSim

namespace TT

/-! ### Host calls of `createLocalSpan` -/

theorem rr_createValues_some {c v : RawVals} (h : createValues c = some v) : v = c := by
  unfold createValues at h
  split at h
  · cases h; rfl
  · cases h

theorem rr_emit_log (host : Host) (c : HostCall) : (host.emit c).log = c :: host.log := rfl

theorem rr_emit_next (host : Host) (c : HostCall) : (host.emit c).next = host.next := rfl

theorem rr_emit_record_stack (host : Host) (h : Nat) (v : RawVals) :
    (host.emit (.record h v)).stack = host.stack := rfl

theorem rr_recordChunks_spec (host host' : Host) (h : Nat) (cs : List RawVals)
    (hr : recordChunks host h cs = some host') :
    host'.log = (cs.map (HostCall.record h)).reverse ++ host.log ∧ host'.stack = host.stack
      ∧ host'.next = host.next := by
  induction cs generalizing host with
  | nil =>
    simp only [recordChunks, Option.some.injEq] at hr
    subst hr
    simp
  | cons c cs ih =>
    simp only [recordChunks] at hr
    cases hc : createValues c with
    | none => simp [hc] at hr
    | some v =>
      simp only [hc] at hr
      have hv := rr_createValues_some hc
      subst hv
      obtain ⟨h1, h2, h3⟩ := ih _ hr
      refine ⟨?_, ?_, ?_⟩
      · rw [h1, rr_emit_log]; simp
      · rw [h2, rr_emit_record_stack]
      · rw [h3, rr_emit_next]

/-- The explicit-or-contextual parent `createLocalSpan` computes. -/
def rr_parent (r : RState) (d : SpanData) : HParent :=
  match d.parent.bind (r.loc.get ·) with
  | some ph => .explicit ph
  | none => .ctx

theorem rr_createLocalSpan_spec (r : RState) (w w' : World) (d : SpanData) (hh : Nat)
    (hc : createLocalSpan r w d = .ok w' hh) :
    ∃ idx, AMap.get r.mt d.mt = some idx ∧ hh = w.host.next ∧
      w'.host.log =
        (((chunks maxValues ((generateFields (siteOf w idx) d.values).drop maxValues)).map
            (HostCall.record hh)).reverse
          ++ [HostCall.newSpan hh idx (rr_parent r d)
              ((generateFields (siteOf w idx) d.values).take maxValues)]) ++ w.host.log ∧
      w'.host.stack = w.host.stack ∧ w'.arena = w.arena := by
  unfold createLocalSpan at hc
  cases hm : AMap.get r.mt d.mt with
  | none => simp [hm] at hc
  | some idx =>
    simp only [hm] at hc
    refine ⟨idx, rfl, ?_⟩
    split at hc
    · cases hc
    · next initial hini =>
      have hi := rr_createValues_some hini
      subst hi
      simp only [Host.newSpan] at hc
      split at hc
      · cases hc
      · next host' hrec =>
        obtain ⟨h1, h2, h3⟩ := rr_recordChunks_spec _ _ _ _ hrec
        cases hc
        refine ⟨rfl, ?_, ?_, rfl⟩
        · rw [h1, List.append_assoc]; rfl
        · rw [h2]; rfl

/-! ### Histories: append lemmas -/

theorem rr_runSpec_append (ss : SpecSys) (a b : List HOp) :
    runSpec ss (a ++ b) = runSpec (runSpec ss a) b := by
  unfold runSpec; rw [List.foldl_append]

theorem rr_runHistory_append (s : Sys) (a b : List HOp) :
    runHistory s (a ++ b) = runHistory (runHistory s a) b := by
  unfold runHistory; rw [List.foldl_append]

theorem rr_noReannounce_append (ss : SpecSys) (a b : List HOp) :
    noReannounceFrom ss (a ++ b)
      = (noReannounceFrom ss a && noReannounceFrom (runSpec ss a) b) := by
  induction a generalizing ss with
  | nil => simp [noReannounceFrom, runSpec]
  | cons o a ih =>
    rw [List.cons_append, noReannounceFrom_cons, noReannounceFrom_cons, ih, Bool.and_assoc]
    rfl

theorem rr_results_cons_ev (s : Sys) (e : Event) (ops : List HOp) :
    results s (.ev e :: ops) =
      (match tryReceive s.σ e with
        | .ok _ => none
        | .err r _ => some r
        | .panic _ _ => some (.tooMany 0)) :: results (s.step (.ev e)) ops := rfl

theorem rr_results_cons_persist (s : Sys) (m : PMode) (ops : List HOp) :
    results s (.persist m :: ops) = results (s.step (.persist m)) ops := rfl

theorem rr_results_cons_discard (s : Sys) (ops : List HOp) :
    results s (.discard :: ops) = results (s.step .discard) ops := rfl

theorem rr_results_append (s : Sys) (a b : List HOp) :
    results s (a ++ b) = results s a ++ results (runHistory s a) b := by
  induction a generalizing s with
  | nil => rfl
  | cons o a ih =>
    cases o with
    | ev e =>
      rw [List.cons_append, rr_results_cons_ev, rr_results_cons_ev, ih]
      rfl
    | persist m =>
      rw [List.cons_append, rr_results_cons_persist, rr_results_cons_persist, ih]
      rfl
    | discard =>
      rw [List.cons_append, rr_results_cons_discard, rr_results_cons_discard, ih]
      rfl

/-! ### Acceptance results are a function of the bookkeeping -/

def specResults (ss : SpecSys) : List HOp → List (Option RErr)
  | [] => []
  | .ev e :: ops => ss.cur.verdict e :: specResults (ss.step (.ev e)) ops
  | op :: ops => specResults (ss.step op) ops

theorem rr_results_spec {s : Sys} {ss : SpecSys} (h : Inv s ss) (ops : List HOp)
    (hno : noReannounceFrom ss ops = true) : results s ops = specResults ss ops := by
  induction ops generalizing s ss with
  | nil => rfl
  | cons op ops ih =>
    rw [noReannounceFrom_cons, Bool.and_eq_true] at hno
    have hrec := ih (h.step op hno.1) hno.2
    cases op with
    | ev e =>
      rw [rr_results_cons_ev, hrec]
      show _ = ss.cur.verdict e :: specResults (ss.step (.ev e)) ops
      congr 1
      have hv := h.verdict e hno.1
      cases ht : tryReceive s.σ e with
      | ok σ' => rw [ht] at hv; simp only [Res.verdict, Option.some.injEq] at hv; exact hv
      | err r σ' => rw [ht] at hv; simp only [Res.verdict, Option.some.injEq] at hv; exact hv
      | panic p σ' => rw [ht] at hv; simp [Res.verdict] at hv
    | persist m => exact hrec
    | discard => exact hrec

end TT
