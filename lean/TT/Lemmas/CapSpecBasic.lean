/-
  Generic list / association-map lemmas for C05.
-/
import TT.Model.Capture
import TT.Lemmas.Sender

namespace TT

/-! ### Lists -/

theorem cs_filterMap_congr {α β : Type} {l : List α} {f g : α → Option β}
    (h : ∀ x ∈ l, f x = g x) : l.filterMap f = l.filterMap g := by
  induction l with
  | nil => rfl
  | cons a l ih =>
    simp only [List.filterMap_cons, h a (by simp)]
    rw [ih (fun x hx => h x (by simp [hx]))]

theorem cs_getD_eq_getElem {α : Type} (l : List α) (i : Nat) (d : α) (h : i < l.length) :
    l.getD i d = l[i] := by
  simp [List.getD_eq_getElem?_getD, List.getElem?_eq_getElem h]

theorem cs_getD_set {α : Type} (l : List α) (i j : Nat) (x d : α) :
    (l.set i x).getD j d = if i = j ∧ i < l.length then x else l.getD j d := by
  simp only [List.getD_eq_getElem?_getD, List.getElem?_set]
  by_cases hij : i = j
  · subst hij
    by_cases hl : i < l.length
    · simp [hl]
    · simp [hl]
  · simp [hij]

theorem cs_set_getD_self {α : Type} (l : List α) (i : Nat) (d : α) (h : i < l.length) :
    l.set i (l.getD i d) = l := by
  rw [cs_getD_eq_getElem l i d h]
  exact List.set_getElem_self h

/-- Invariant rule for a left fold over `zipIdx`. -/
theorem cs_foldl_zipIdx_inv {α β : Type} (g : β → α × Nat → β) (P : Nat → β → Prop) :
    ∀ (l : List α) (k : Nat) (b : β), P k b →
      (∀ j (hj : j < l.length) b', P (k + j) b' → P (k + j + 1) (g b' (l[j], k + j))) →
      P (k + l.length) ((l.zipIdx k).foldl g b) := by
  intro l
  induction l with
  | nil => intro k b h _; simpa using h
  | cons a l ih =>
    intro k b h hs
    simp only [List.zipIdx_cons, List.foldl_cons, List.length_cons]
    have h1 := hs 0 (by simp) b (by simpa using h)
    simp only [Nat.add_zero, List.getElem_cons_zero] at h1
    have := ih (k + 1) (g b (a, k)) h1 (by
      intro j hj b' hb'
      have := hs (j + 1) (by simp; omega) b' (by rw [← Nat.add_assoc, Nat.add_right_comm]; exact hb')
      simp only [List.getElem_cons_succ] at this
      rw [Nat.add_right_comm k 1 j, Nat.add_assoc k j 1]
      rw [← Nat.add_assoc] at this
      exact this)
    rw [Nat.add_right_comm, Nat.add_assoc] at this
    exact this

/-! ### `modifyAt` -/

theorem cs_modifyAt_length {α : Type} (xs : List α) (i : Nat) (f : α → α) :
    (modifyAt xs i f).length = xs.length := by
  unfold modifyAt
  split <;> simp

theorem cs_getElem?_modifyAt {α : Type} (xs : List α) (i j : Nat) (f : α → α) :
    (modifyAt xs i f)[j]? = if i = j then (xs[j]?).map f else xs[j]? := by
  unfold modifyAt
  cases h : xs[i]? with
  | none =>
    by_cases hij : i = j
    · subst hij; simp [h]
    · simp [hij]
  | some x =>
    simp only [List.getElem?_set]
    by_cases hij : i = j
    · subst hij
      have hl : i < xs.length := by
        rcases Nat.lt_or_ge i xs.length with hl | hl
        · exact hl
        · simp [List.getElem?_eq_none hl] at h
      have hx : xs[i] = x := by
        rw [List.getElem?_eq_getElem hl] at h
        exact Option.some.inj h
      simp [hl, hx]
    · simp [hij]

/-! ### Association maps -/

section AMapL
variable {α : Type}

theorem cs_get_append (xs ys : AMap Nat α) (k : Nat) :
    AMap.get (xs ++ ys) k = (AMap.get xs k).or (AMap.get ys k) := by
  induction xs with
  | nil => simp [AMap.get]
  | cons e xs ih =>
    obtain ⟨k', v⟩ := e
    simp only [List.cons_append, AMap.get]
    split
    · simp
    · exact ih

theorem cs_get_none_iff (xs : AMap Nat α) (k : Nat) :
    AMap.get xs k = none ↔ k ∉ xs.map (·.1) := by
  induction xs with
  | nil => simp [AMap.get]
  | cons e xs ih =>
    obtain ⟨k', v⟩ := e
    simp only [AMap.get, List.map_cons, List.mem_cons, not_or]
    by_cases h : k' = k
    · subst h; simp
    · have : ¬ k = k' := fun h' => h h'.symm
      simp [h, this, ih]

theorem cs_get_mem {xs : AMap Nat α} {k : Nat} {v : α} (h : AMap.get xs k = some v) :
    (k, v) ∈ xs := by
  induction xs with
  | nil => simp [AMap.get] at h
  | cons e xs ih =>
    obtain ⟨k', v'⟩ := e
    simp only [AMap.get] at h
    split at h
    · rename_i hk
      simp only [Option.some.injEq] at h
      subst hk h
      simp
    · simp [ih h]

theorem cs_get_of_mem_nodup {xs : AMap Nat α} {k : Nat} {v : α} (hn : (xs.map (·.1)).Nodup)
    (h : (k, v) ∈ xs) : AMap.get xs k = some v := by
  induction xs with
  | nil => simp at h
  | cons e xs ih =>
    obtain ⟨k', v'⟩ := e
    simp only [List.map_cons, List.nodup_cons] at hn
    simp only [List.mem_cons, Prod.mk.injEq] at h
    simp only [AMap.get]
    rcases h with ⟨h1, h2⟩ | h
    · subst h1 h2; simp
    · have hne : ¬ k' = k := by
        intro he
        subst he
        exact hn.1 (List.mem_map.mpr ⟨(k', v), h, rfl⟩)
      simp [hne, ih hn.2 h]

end AMapL

theorem cs_zipIdx_map_fst (ids : List Nat) (n : Nat) : (ids.zipIdx n).map (·.1) = ids := by
  induction ids generalizing n with
  | nil => rfl
  | cons a l ih => simp [List.zipIdx_cons, ih]

theorem cs_mem_zipIdx {ids : List Nat} {n : Nat} {x : Nat × Nat} (h : x ∈ ids.zipIdx n) :
    n ≤ x.2 ∧ ids[x.2 - n]? = some x.1 := by
  induction ids generalizing n with
  | nil => simp at h
  | cons a l ih =>
    simp only [List.zipIdx_cons, List.mem_cons] at h
    rcases h with h | h
    · subst h; simp
    · have := ih h
      refine ⟨by omega, ?_⟩
      have h2 : x.2 - n = (x.2 - (n + 1)) + 1 := by omega
      rw [h2, List.getElem?_cons_succ]
      exact this.2

theorem cs_get_zipIdx_some {ids : List Nat} {id c : Nat} (h : AMap.get ids.zipIdx id = some c) :
    ids[c]? = some id := by
  have := cs_mem_zipIdx (cs_get_mem h)
  simpa using this.2

theorem cs_get_zipIdx_none (ids : List Nat) (id : Nat) :
    AMap.get ids.zipIdx id = none ↔ id ∉ ids := by
  rw [cs_get_none_iff, cs_zipIdx_map_fst]

theorem cs_get_zipIdx_of_getElem {ids : List Nat} (hn : ids.Nodup) {id c : Nat}
    (h : ids[c]? = some id) : AMap.get ids.zipIdx id = some c := by
  apply cs_get_of_mem_nodup
  · rw [cs_zipIdx_map_fst]; exact hn
  · rw [List.mem_iff_getElem?]
    refine ⟨c, ?_⟩
    simp [List.getElem?_zipIdx, h]

/-! ### Counting over `range` -/

theorem cs_countP_range_congr (n : Nat) (p q : Nat → Bool) (h : ∀ c, c < n → p c = q c) :
    (List.range n).countP p = (List.range n).countP q := by
  apply List.countP_congr
  intro c hc
  rw [List.mem_range] at hc
  simp [h c hc]

/-- `q` is `p` with `x` switched on. -/
theorem cs_countP_range_on (n x : Nat) (p q : Nat → Bool) (hx : x < n) (hpx : p x = false)
    (hqx : q x = true) (h : ∀ c, c ≠ x → p c = q c) :
    (List.range n).countP q = (List.range n).countP p + 1 := by
  induction n with
  | zero => omega
  | succ n ih =>
    simp only [List.range_succ, List.countP_append, List.countP_singleton]
    by_cases hxn : x = n
    · subst hxn
      rw [cs_countP_range_congr x q p (fun c hc => (h c (by omega)).symm)]
      simp [hpx, hqx]
    · have := ih (by omega)
      rw [this, h n (fun h' => hxn h'.symm)]
      omega

theorem cs_countP_range_pos {n : Nat} {p : Nat → Bool} (h : 0 < (List.range n).countP p) :
    ∃ c, c < n ∧ p c = true := by
  rw [List.countP_pos_iff] at h
  obtain ⟨c, hc, hp⟩ := h
  exact ⟨c, List.mem_range.mp hc, hp⟩

theorem cs_countP_range_zero {n : Nat} {p : Nat → Bool} (h : (List.range n).countP p = 0)
    (c : Nat) (hc : c < n) : p c = false := by
  cases hp : p c with
  | false => rfl
  | true =>
    have : 0 < (List.range n).countP p := List.countP_pos_iff.mpr ⟨c, List.mem_range.mpr hc, hp⟩
    omega

end TT
